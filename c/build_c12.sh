#!/bin/bash
# called by scripts/build.sh (env.sh is sourced: VERIF, REPO, B are exported).
# Builds the C12 driver against the CURRENT tree's runtime sources:
#   rt_text        runtime compiled exactly like scripts/build.sh's ASan variant plus
#                  -fsanitize-recover=address (an ASan report must not end the driver: the Go side
#                  wants the answer of every request), linked with the tree's list definitions
#   rt_text_plain  linked against the plain libddpruntime.a (only used to describe how a production
#                  build behaves on a violating case)
set -e
D=$DDPPATH
RT=$REPO/lib/runtime
INC="-I$RT/include"
CCF="-Wall -Wno-format -O2 -std=c11 -pedantic -D_POSIX_C_SOURCE=200809L"
ASAN="-fsanitize=address -fsanitize-recover=address -fno-omit-frame-pointer -g"
O=$VERIF_VDIR/obj/c12rt
rm -rf "$O"; mkdir -p "$O"
pids=()
for f in $(cd "$RT" && find source/DDP -name '*.c'); do
  gcc -c $CCF $ASAN $INC -o "$O/$(echo "$f" | tr / _).o" "$RT/$f" & pids+=($!)
done
for p in "${pids[@]}"; do wait $p; done
gcc -std=c11 -Wall -Wno-format -O1 $ASAN $INC -o "$VERIF_VDIR/rt_text" "$VERIF/c/rt_text.c" "$O"/*.o "$D/libasan/ddp_list_types_defs.o" -lm
gcc -std=c11 -Wall -Wno-format -O2 $INC -o "$VERIF_VDIR/rt_text_plain" "$VERIF/c/rt_text.c" -L"$D/lib" -lddpruntime "$D/lib/ddp_list_types_defs.o" -lm
