// Ledger for C05: linked with -Wl,--wrap=ddp_reallocate. Tracks every block handed out by the
// runtime allocator and checks that each release / resize names a live block and its true size.
#include <stdio.h>
#include <stdlib.h>
#include <string.h>
#include <stdint.h>

void *__real_ddp_reallocate(void *pointer, size_t oldSize, size_t newSize);

#define CAP (1u << 16)
static struct { void *p; size_t n; } tab[CAP];
static size_t live = 0, violations = 0, calls = 0;

static size_t slot(void *p) {
	size_t h = ((uintptr_t)p >> 4) * 2654435761u;
	return h & (CAP - 1);
}
static long find(void *p) {
	for (size_t i = slot(p), k = 0; k < CAP; i = (i + 1) & (CAP - 1), k++) {
		if (tab[i].p == p) return (long)i;
		if (tab[i].p == NULL) return -1;
	}
	return -1;
}
static void insert(void *p, size_t n) {
	for (size_t i = slot(p), k = 0; k < CAP; i = (i + 1) & (CAP - 1), k++) {
		if (tab[i].p == NULL || tab[i].p == (void *)1) { tab[i].p = p; tab[i].n = n; live++; return; }
	}
	fprintf(stderr, "LEDGER: table full\n");
}
static void complain(const char *what, void *p, size_t a, size_t b) {
	if (violations++ < 20) fprintf(stderr, "LEDGER: %s ptr=%p stated=%zu recorded=%zu\n", what, p, a, b);
}

void *__wrap_ddp_reallocate(void *pointer, size_t oldSize, size_t newSize) {
	calls++;
	if (pointer != NULL) {
		long i = find(pointer);
		if (i < 0) {
			complain(newSize == 0 ? "free of a block that is not live (double free / foreign pointer)" : "resize of a block that is not live", pointer, oldSize, 0);
			// do not pass a bad pointer on to free(): keep the process alive to report
			if (newSize == 0) return NULL;
			pointer = NULL; oldSize = 0;
		} else {
			if (tab[i].n != oldSize) complain(newSize == 0 ? "free with a wrong size" : "resize with a wrong old size", pointer, oldSize, tab[i].n);
			if (!(newSize != 0 && oldSize == newSize)) { tab[i].p = (void *)1; live--; } // tombstone unless no-op
			else return __real_ddp_reallocate(pointer, oldSize, newSize);
		}
	} else if (oldSize != 0 && newSize != 0) {
		complain("allocation through a NULL pointer with a non-zero old size", pointer, oldSize, 0);
	}
	void *r = __real_ddp_reallocate(pointer, oldSize, newSize);
	if (newSize != 0 && r != NULL) insert(r, newSize);
	return r;
}

static void report(void) {
	size_t n = 0, bytes = 0;
	for (size_t i = 0; i < CAP; i++)
		if (tab[i].p != NULL && tab[i].p != (void *)1) { n++; bytes += tab[i].n; }
	fprintf(stderr, "LEDGER-SUMMARY: calls=%zu violations=%zu leaked_blocks=%zu leaked_bytes=%zu\n", calls, violations, n, bytes);
}

__attribute__((constructor)) static void ledger_init(void) { atexit(report); }
