#!/bin/bash
# builds the C harness objects against the CURRENT tree (called by scripts/build.sh)
set -e
. "$(dirname "$0")/../scripts/env.sh"
mkdir -p "$VERIF_VDIR/c"
gcc -O1 -g -c -o "$VERIF_VDIR/c/ledger.o" "$VERIF/c/ledger.c"
for f in "$VERIF"/c/build_*.sh; do [ -f "$f" ] && bash "$f"; done
exit 0
