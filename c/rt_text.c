/*
 * rt_text — C12 driver process: executes text operations of the REAL DDP runtime
 * (libddpruntime.a of the tree under verification) on request of the Go explorer.
 * The harness knows nothing about expected results; it only executes and dumps.
 *
 * stdin protocol, one request per line, one answer line per request (flushed):
 *
 *   CHAR <lo> <hi>      per code point c in [lo,hi): one line "c=<hex> f=v f=v ..." (see do_char)
 *                       followed by one line "DONE"
 *   NEG <c>             negative case (surrogate / out of range), one line
 *   P <tok> <tok> ...   postfix program over a stack of real ddpstrings:
 *       K<hex>          push ddp_string_from_constant(bytes)           (K alone: "")
 *       H<cp>           push ddp_char_to_string(cp)
 *       SS              b=pop a=pop push ddp_string_string_verkettet(a,b)
 *       SC<cp>          a=pop push ddp_string_char_verkettet(a,cp)
 *       CS<cp>          a=pop push ddp_char_string_verkettet(cp,a)
 *       SL<i>,<j>       a=pop push ddp_string_slice(a,i,j)
 *       R<i>,<cp>       ddp_replace_char_in_string(top,cp,i)
 *       D               a=pop push ddp_deep_copy_string(a)
 *       EQ              b=pop a=pop emit eq=<ddp_string_equal(a,b)>
 *     at the end of the line the top of the stack (if any) is dumped:
 *       cap=<n> sl=<ddp_strlen> buf=<hex of cap bytes> len=<ddp_string_length> idx=<cp,cp,...>
 *     (idx: ddp_string_index(i) for i = 1 .. number of lead bytes before the first NUL)
 *   code points are hexadecimal, indices decimal.
 *
 * A request prefixed with "U " is executed in step mode: stdout is flushed after every call into the
 * runtime, so that the partial answer shows which call did not return.
 *
 * Crash containment: main() initialises the runtime once and then serves the requests in a forked
 * child. When the child dies (ASan report, ddp_runtime_error -> exit(1), signal) the parent answers
 *   " DIED st=<exit status> sig=<signal> msg=<hex of the first bytes the child wrote to stderr>"
 * on the line of the request that killed it and forks a new child. The Go side sends one request
 * at a time, so no request is lost in the dead child's input buffer.
 */
#define _POSIX_C_SOURCE 200809L
#include "DDP/ddpmemory.h"
#include "DDP/ddptypes.h"
#include "DDP/runtime.h"
#include "DDP/utf8/utf8.h"
#include <fcntl.h>
#include <stdio.h>
#include <stdlib.h>
#include <string.h>
#include <sys/wait.h>
#include <unistd.h>

static int step; /* step mode: flush after every call */

/* ASan errors: the runtime objects of this driver are compiled with -fsanitize-recover=address and the
   driver runs with halt_on_error=0, so a report does not end the process. The report callback notes the
   first error since the last output; it is printed as " asan=<kind>/<READ|WRITE>" right after the
   field of the call that caused it. After an invalid WRITE the child restarts (memory may be corrupt). */
static char asan_note[200];
static char asan_full[4000];
static int asan_pending, asan_restart, asan_verbose;
#ifdef __SANITIZE_ADDRESS__
void __asan_set_error_report_callback(void (*callback)(const char *));
static void on_asan(const char *rep) {
	if (asan_pending) {
		return;
	}
	char kind[64] = "?";
	const char *p = strstr(rep, "AddressSanitizer: ");
	if (p != NULL) {
		p += strlen("AddressSanitizer: ");
		size_t n = strcspn(p, " \n");
		if (n >= sizeof kind) {
			n = sizeof kind - 1;
		}
		memcpy(kind, p, n);
		kind[n] = 0;
	}
	const char *rw = strstr(rep, "WRITE of size") != NULL ? "WRITE" : (strstr(rep, "READ of size") != NULL ? "READ" : "?");
	snprintf(asan_note, sizeof asan_note, "%s/%s", kind, rw);
	snprintf(asan_full, sizeof asan_full, "%s", rep);
	asan_pending = 1;
	if (strcmp(rw, "READ") != 0) {
		asan_restart = 1;
	}
}
#endif
static void emit_asan(void);
#define STEP()              \
	do {                    \
		if (step) {         \
			fflush(stdout); \
		}                   \
	} while (0)
/* end of a field: a pending ASan note belongs to the calls printed in this field */
#define FEND()              \
	do {                    \
		if (asan_pending) { \
			emit_asan();    \
		}                   \
		STEP();             \
	} while (0)
#define OUT(...)             \
	do {                     \
		printf(__VA_ARGS__); \
		STEP();              \
	} while (0)

/* operators.c has no header */
ddpint ddp_string_length(ddpstring *str);
ddpchar ddp_string_index(ddpstring *str, ddpint index);
void ddp_replace_char_in_string(ddpstring *str, ddpchar ch, ddpint index);
void ddp_string_slice(ddpstring *ret, ddpstring *str, ddpint index1, ddpint index2);
void ddp_string_string_verkettet(ddpstring *ret, ddpstring *str1, ddpstring *str2);
void ddp_char_string_verkettet(ddpstring *ret, ddpchar c, ddpstring *str);
void ddp_string_char_verkettet(ddpstring *ret, ddpstring *str, ddpchar c);
void ddp_char_to_string(ddpstring *ret, ddpchar c);
ddpbool ddp_string_equal(ddpstring *str1, ddpstring *str2);

static void die(const char *m) {
	fprintf(stderr, "rt_text: protocol error: %s\n", m);
	fflush(stdout);
	exit(3);
}

static void hex(const unsigned char *p, size_t n) {
	static const char d[] = "0123456789abcdef";
	for (size_t i = 0; i < n; i++) {
		putchar(d[p[i] >> 4]);
		putchar(d[p[i] & 15]);
	}
}

static void emit_asan(void) {
	asan_pending = 0;
	printf(" asan=%s", asan_note);
	if (asan_verbose) {
		printf(" asanrep=");
		hex((unsigned char *)asan_full, strlen(asan_full));
	}
}

/* end of an answer line; after an invalid write the child gives way to a fresh one */
static void end_line(void) {
	FEND();
	putchar('\n');
	fflush(stdout);
}

/* trusted encoder of the harness (cross-checked by the Go side against unicode/utf8) */
static int enc(uint32_t c, char *o) {
	if (c < 0x80) {
		o[0] = (char)c;
		o[1] = 0;
		return 1;
	}
	if (c < 0x800) {
		o[0] = (char)(0xC0 | (c >> 6));
		o[1] = (char)(0x80 | (c & 0x3F));
		o[2] = 0;
		return 2;
	}
	if (c < 0x10000) {
		o[0] = (char)(0xE0 | (c >> 12));
		o[1] = (char)(0x80 | ((c >> 6) & 0x3F));
		o[2] = (char)(0x80 | (c & 0x3F));
		o[3] = 0;
		return 3;
	}
	o[0] = (char)(0xF0 | (c >> 18));
	o[1] = (char)(0x80 | ((c >> 12) & 0x3F));
	o[2] = (char)(0x80 | ((c >> 6) & 0x3F));
	o[3] = (char)(0x80 | (c & 0x3F));
	o[4] = 0;
	return 4;
}

/* dump of a string value: cap, strlen, the cap bytes of the buffer */
static void dump_raw(const char *name, ddpstring *s) {
	printf(" %s=%lld:", name, (long long)s->cap);
	if (s->str != NULL && s->cap > 0) {
		hex((unsigned char *)s->str, (size_t)s->cap);
	}
	FEND();
}

static void dump_full(ddpstring *s) {
	OUT(" cap=%lld sl=%lld buf=", (long long)s->cap, (long long)ddp_strlen(s));
	long long leads = 0;
	if (s->str != NULL && s->cap > 0) {
		hex((unsigned char *)s->str, (size_t)s->cap);
		for (long long i = 0; i < s->cap && s->str[i] != 0; i++) {
			if ((s->str[i] & 0xC0) != 0x80) {
				leads++;
			}
		}
	}
	OUT(" len=%lld idx=", (long long)ddp_string_length(s));
	for (long long i = 1; i <= leads; i++) {
		OUT(i == 1 ? "%x" : ",%x", (unsigned)ddp_string_index(s, i));
	}
	FEND();
}

/* ---------------------------------------------------------------- per character */

static const char *SIG[4] = {"a", "\xC3\xA4", "\xE2\x82\xAC", "\xF0\x9F\x98\x80"};

static void do_char(uint32_t c) {
	char e[8], buf[16], tmp[64];
	int w = enc(c, e);
	OUT("c=%x enc=", c);
	hex((unsigned char *)e, (size_t)w);

	memset(buf, 0xEE, sizeof buf);
	size_t r = utf8_char_to_string(buf, (int32_t)c);
	OUT(" c2s=%lld:", (long long)r);
	if (r != (size_t)-1 && r <= 8) {
		hex((unsigned char *)buf, r + 1); /* includes the terminator the function promises */
	}
	FEND();
	OUT(" nbc=%lld", (long long)utf8_num_bytes_char(c));
	FEND();
	OUT(" nb=%lld inb=%d ulen=%lld", (long long)utf8_num_bytes(e), utf8_indicated_num_bytes(e[0]), (long long)utf8_strlen(e));
	FEND();
	uint32_t out = 0xFFFFFFFF;
	r = utf8_string_to_char(e, &out);
	OUT(" s2c=%lld:%x", (long long)r, out);
	FEND();
	/* the same with following text (decoding must not depend on what follows) */
	snprintf(tmp, sizeof tmp, "%s%s", e, SIG[2]);
	out = 0xFFFFFFFF;
	r = utf8_string_to_char(tmp, &out);
	OUT(" nb2=%lld s2c2=%lld:%x", (long long)utf8_num_bytes(tmp), (long long)r, out);
	FEND();

	ddpstring s, t, x, lit;
	ddp_char_to_string(&s, (ddpchar)c);
	dump_raw("cts", &s);
	ddp_string_from_constant(&lit, e);
	OUT(" eq=%d%d", (int)ddp_string_equal(&s, &lit), (int)ddp_string_equal(&lit, &s));
	FEND();
	ddp_free_string(&lit);
	ddp_free_string(&s);

	/* string . char, char . string (non-empty and empty operand) */
	ddp_string_from_constant(&x, "a\xE2\x82\xAC");
	ddp_string_char_verkettet(&t, &x, (ddpchar)c);
	dump_raw("sc", &t);
	ddp_free_string(&t);
	ddp_string_from_constant(&x, "");
	ddp_string_char_verkettet(&t, &x, (ddpchar)c);
	dump_raw("sce", &t);
	ddp_free_string(&t);
	ddp_string_from_constant(&x, "\xE2\x82\xAC"
								 "a");
	ddp_char_string_verkettet(&t, (ddpchar)c, &x);
	dump_raw("cs", &t);
	ddp_free_string(&t);
	ddp_string_from_constant(&x, "");
	ddp_char_string_verkettet(&t, (ddpchar)c, &x);
	dump_raw("cse", &t);
	ddp_free_string(&t);

	/* x . c . y with x = "a€", y = "😀ä": length, every index, slices */
	snprintf(tmp, sizeof tmp, "a\xE2\x82\xAC%s\xF0\x9F\x98\x80\xC3\xA4", e);
	ddp_string_from_constant(&s, tmp);
	OUT(" len=%lld idx=", (long long)ddp_string_length(&s));
	for (int i = 1; i <= 5; i++) {
		OUT(i == 1 ? "%x" : ",%x", (unsigned)ddp_string_index(&s, i));
	}
	FEND();
	ddp_string_slice(&t, &s, 3, 3);
	dump_raw("sl33", &t);
	ddp_free_string(&t);
	ddp_string_slice(&t, &s, 2, 4);
	dump_raw("sl24", &t);
	ddp_free_string(&t);
	ddp_string_slice(&t, &s, 3, 5);
	dump_raw("sl35", &t);
	ddp_free_string(&t);
	ddp_string_slice(&t, &s, 1, 3);
	dump_raw("sl13", &t);
	ddp_free_string(&t);
	ddp_free_string(&s);

	/* replacement of a character of every width by c at first / middle / last position */
	static const char *PRE[3] = {"", "\xC3\xA4", "\xC3\xA4"};
	static const char *POST[3] = {"\xE2\x82\xAC", "\xE2\x82\xAC", ""};
	for (int k = 0; k < 4; k++) {
		for (int p = 0; p < 3; p++) {
			snprintf(tmp, sizeof tmp, "%s%s%s", PRE[p], SIG[k], POST[p]);
			ddp_string_from_constant(&s, tmp);
			int pos = p == 0 ? 1 : 2;
			ddp_replace_char_in_string(&s, (ddpchar)c, pos);
			char nm[8];
			snprintf(nm, sizeof nm, "r%d%d", k + 1, p);
			printf(" %s=%lld:", nm, (long long)s.cap);
			hex((unsigned char *)s.str, (size_t)s.cap);
			STEP();
			long long n = p == 1 ? 3 : 2;
			OUT(":%lld:", (long long)ddp_string_length(&s));
			for (long long i = 1; i <= n; i++) {
				OUT(i == 1 ? "%x" : ",%x", (unsigned)ddp_string_index(&s, i));
			}
			/* equality with a fresh literal of the same content, both orders; when the buffer has
			   slack (cap > strlen+1) this belongs to the history part (P requests) and is not called here */
			if (s.cap == (ddpint)strlen(s.str) + 1) {
				snprintf(tmp, sizeof tmp, "%s%s%s", PRE[p], e, POST[p]);
				ddp_string_from_constant(&lit, tmp);
				OUT(":%d%d", (int)ddp_string_equal(&s, &lit), (int)ddp_string_equal(&lit, &s));
				ddp_free_string(&lit);
			} else {
				OUT(":xx");
			}
			FEND();
			ddp_free_string(&s);
		}
	}
	end_line();
}

/* surrogates and out-of-range values: only calls whose outcome is documented in the sources */
static void do_neg(uint32_t c) {
	char buf[16];
	OUT("c=%x", c);
	memset(buf, 0xEE, sizeof buf);
	size_t r = utf8_char_to_string(buf, (int32_t)c);
	OUT(" c2s=%lld:", (long long)r);
	if (r != (size_t)-1 && r <= 8) {
		hex((unsigned char *)buf, r + 1);
	}
	FEND();
	OUT(" nbc=%lld", (long long)utf8_num_bytes_char(c));
	FEND();
	ddpstring s, t, x;
	ddp_char_to_string(&s, (ddpchar)c);
	printf(" cts=%lld:", (long long)s.cap);
	if (s.str != NULL && s.cap > 0) {
		hex((unsigned char *)s.str, (size_t)s.cap);
	}
	OUT(":%lld", (long long)ddp_string_length(&s));
	FEND();
	ddp_free_string(&s);
	ddp_string_from_constant(&x, "a\xE2\x82\xAC");
	ddp_string_char_verkettet(&t, &x, (ddpchar)c);
	dump_raw("sc", &t);
	ddp_free_string(&t);
	ddp_string_from_constant(&x, "\xE2\x82\xAC"
								 "a");
	ddp_char_string_verkettet(&t, (ddpchar)c, &x);
	dump_raw("cs", &t);
	ddp_free_string(&t);
	end_line();
}

/* ---------------------------------------------------------------- postfix programs */

#define STK 32
static ddpstring stk[STK];
static int sp;

static void push(ddpstring s) {
	if (sp >= STK) {
		die("stack overflow");
	}
	stk[sp++] = s;
}
static ddpstring pop(void) {
	if (sp <= 0) {
		die("stack underflow");
	}
	return stk[--sp];
}

static int hexval(int ch) {
	if (ch >= '0' && ch <= '9') {
		return ch - '0';
	}
	if (ch >= 'a' && ch <= 'f') {
		return ch - 'a' + 10;
	}
	return -1;
}

static void do_prog(char *line) {
	sp = 0;
	int first = 1;
	for (char *tok = strtok(line, " \n"); tok != NULL; tok = strtok(NULL, " \n")) {
		ddpstring a, b, r;
		if (tok[0] == 'K') {
			char lit[256];
			size_t n = 0;
			for (char *p = tok + 1; p[0] && p[1] && n < sizeof lit - 1; p += 2) {
				lit[n++] = (char)(hexval(p[0]) * 16 + hexval(p[1]));
			}
			lit[n] = 0;
			ddp_string_from_constant(&r, lit);
			push(r);
		} else if (tok[0] == 'H') {
			ddp_char_to_string(&r, (ddpchar)strtoul(tok + 1, NULL, 16));
			push(r);
		} else if (strcmp(tok, "SS") == 0) {
			b = pop();
			a = pop();
			ddp_string_string_verkettet(&r, &a, &b);
			ddp_free_string(&b);
			push(r);
		} else if (tok[0] == 'S' && tok[1] == 'C') {
			a = pop();
			ddp_string_char_verkettet(&r, &a, (ddpchar)strtoul(tok + 2, NULL, 16));
			push(r);
		} else if (tok[0] == 'C' && tok[1] == 'S') {
			a = pop();
			ddp_char_string_verkettet(&r, (ddpchar)strtoul(tok + 2, NULL, 16), &a);
			push(r);
		} else if (tok[0] == 'S' && tok[1] == 'L') {
			char *e;
			long i = strtol(tok + 2, &e, 10);
			if (*e != ',') {
				die("SL");
			}
			long j = strtol(e + 1, NULL, 10);
			a = pop();
			ddp_string_slice(&r, &a, i, j);
			ddp_free_string(&a);
			push(r);
		} else if (tok[0] == 'R') {
			char *e;
			long i = strtol(tok + 1, &e, 10);
			if (*e != ',' || sp <= 0) {
				die("R");
			}
			ddp_replace_char_in_string(&stk[sp - 1], (ddpchar)strtoul(e + 1, NULL, 16), i);
		} else if (strcmp(tok, "D") == 0) {
			a = pop();
			ddp_deep_copy_string(&r, &a);
			ddp_free_string(&a);
			push(r);
		} else if (strcmp(tok, "EQ") == 0) {
			b = pop();
			a = pop();
			OUT(first ? "eq=%d" : " eq=%d", (int)ddp_string_equal(&a, &b));
			FEND();
			first = 0;
			ddp_free_string(&a);
			ddp_free_string(&b);
		} else {
			die(tok);
		}
	}
	if (sp > 0) {
		if (first) {
			OUT("top");
		}
		dump_full(&stk[sp - 1]);
	} else if (first) {
		OUT("empty");
	}
	while (sp > 0) {
		ddpstring s = pop();
		ddp_free_string(&s);
	}
	end_line();
}

/* serves requests until EOF on stdin (runs in the forked child) */
static void serve(void) {
	static char buf[1 << 16];
	while (fgets(buf, sizeof buf, stdin) != NULL) {
		char *line = buf;
		step = 0;
		if (line[0] == 'U' && line[1] == ' ') {
			step = 1;
			line += 2;
		}
		if (strncmp(line, "CHAR ", 5) == 0) {
			unsigned long lo, hi;
			if (sscanf(line + 5, "%lx %lx", &lo, &hi) != 2) {
				die("CHAR");
			}
			for (unsigned long c = lo; c < hi; c++) {
				do_char((uint32_t)c);
				if (asan_restart && c + 1 < hi) {
					puts("ABORTED"); /* the Go side continues the range with a new request */
					fflush(stdout);
					_exit(98);
				}
			}
			puts("DONE");
		} else if (strncmp(line, "NEG ", 4) == 0) {
			do_neg((uint32_t)strtoul(line + 4, NULL, 16));
		} else if (line[0] == 'P' && line[1] == ' ') {
			do_prog(line + 2);
		} else if (line[0] == '\n') {
			continue;
		} else {
			die("unknown request");
		}
		fflush(stdout);
		if (asan_restart) {
			_exit(98); /* silent restart: the parent forks a fresh child */
		}
	}
}

int main(int argc, char **argv) {
	ddp_init_runtime(argc, argv); /* what lib/runtime/source/main.c does before ddp_ddpmain */
#ifdef __SANITIZE_ADDRESS__
	__asan_set_error_report_callback(on_asan);
#endif
	asan_verbose = getenv("RT_TEXT_ASAN_REPORT") != NULL;
	char tmpl[] = "/tmp/rt_text_err_XXXXXX";
	int errfd = mkstemp(tmpl);
	if (errfd < 0) {
		perror("rt_text: mkstemp");
		return 3;
	}
	unlink(tmpl);
	for (;;) {
		pid_t pid = fork();
		if (pid < 0) {
			perror("rt_text: fork");
			return 3;
		}
		if (pid == 0) {
			dup2(errfd, 2);
			serve();
			ddp_end_runtime();
			fflush(stdout);
			_exit(0);
		}
		int st = 0;
		if (waitpid(pid, &st, 0) < 0) {
			perror("rt_text: waitpid");
			return 3;
		}
		if (WIFEXITED(st) && WEXITSTATUS(st) == 0) {
			return 0; /* end of input */
		}
		if (WIFEXITED(st) && WEXITSTATUS(st) == 98) {
			if (ftruncate(errfd, 0) != 0 || lseek(errfd, 0, SEEK_SET) != 0) {
				return 3;
			}
			continue; /* voluntary restart after an invalid write, the answer was complete */
		}
		static unsigned char msg[6000];
		ssize_t n = pread(errfd, msg, sizeof msg, 0);
		if (n < 0) {
			n = 0;
		}
		if (ftruncate(errfd, 0) != 0 || lseek(errfd, 0, SEEK_SET) != 0) {
			perror("rt_text: reset stderr file");
			return 3;
		}
		printf(" DIED st=%d sig=%d msg=", WIFEXITED(st) ? WEXITSTATUS(st) : -1, WIFSIGNALED(st) ? WTERMSIG(st) : 0);
		hex(msg, (size_t)n);
		putchar('\n');
		fflush(stdout);
	}
}
