//go:build verif

package ast

// C16: stable fingerprints (no addresses) for the pointer/interface key types of maps that the
// compiler iterates, so that the explorer has a canonical order to permute.

import (
	"fmt"

	"github.com/DDP-Projekt/Kompilierer/src/verifhook"
)

func init() {
	modName := func(m *Module) string {
		if m == nil {
			return "<nil>"
		}
		return m.FileName
	}
	verifhook.RegisterFingerprint(func(k any) (string, bool) {
		switch v := k.(type) {
		case *Module:
			return "module:" + modName(v), true
		case MetadataKind:
			return "mdkind:" + string(v), true
		case Operator:
			return fmt.Sprintf("operator:%T:%s", v, v.String()), true
		case Declaration:
			if v == nil {
				return "decl:<nil>", true
			}
			r := v.GetRange()
			return fmt.Sprintf("decl:%s:%08d:%08d:%08d:%08d:%s:%T", modName(v.Module()), r.Start.Line, r.Start.Column, r.End.Line, r.End.Column, v.Name(), v), true
		case Node:
			if v == nil {
				return "node:<nil>", true
			}
			r := v.GetRange()
			return fmt.Sprintf("node:%08d:%08d:%08d:%08d:%T", r.Start.Line, r.Start.Column, r.End.Line, r.End.Column, v), true
		}
		return "", false
	})
}
