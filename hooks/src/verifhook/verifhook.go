//go:build verif

// Package verifhook owns the nondeterminism of the compiler for property C16: every range over a
// map, every maps.Keys/Values call and every sort.Slice call of the repository is routed through
// this package by a mechanically generated overlay (verif/mc/tools/rewrite).
//
// Mode off (default; every build except ddpmc16, and ddpmc16 outside a schedule): Range iterates
// the map natively and Sort is sort.Slice — behaviour is unchanged.
//
// Mode explore (between Begin and End): the keys are ordered by a stable per-type fingerprint
// (choice 0 = canonical order) and then permuted as the schedule says; every execution of a site
// with at least two alternatives is recorded as a choice point.
//
// This package must not import any package of the repository (they import it).
package verifhook

import (
	"fmt"
	"iter"
	"sort"
	"strconv"
)

// Point is one dynamic execution of a site that offered a choice.
type Point struct {
	Site string `json:"s"`
	N    int    `json:"n"` // number of elements
	Alts int    `json:"a"` // number of alternatives (orders) the explorer distinguishes
}

// Dev forces choice Choice at the Pos-th choice point; Site, N and Alts must match (replay check).
type Dev struct {
	Pos    int    `json:"p"`
	Choice int    `json:"c"`
	Site   string `json:"s"`
	N      int    `json:"n"`
	Alts   int    `json:"a"`
	// Order is filled in by End: the order that was applied (indices into the canonical order)
	Order []int `json:"o,omitempty"`
}

var (
	exploring bool
	probing   bool // inside Sort's outcome analysis: nested sites take the canonical order, unrecorded
	devs      map[int]Dev
	applied   []Dev
	trace     []Point
	hardErr   string
	stats     map[string]int64
	fps       []func(any) (string, bool)
)

// RegisterFingerprint adds a fingerprint function for key types of repository packages
// (called from init functions of hook files inside those packages).
func RegisterFingerprint(f func(any) (string, bool)) { fps = append(fps, f) }

// Begin starts a schedule. Everything not mentioned in ds takes choice 0.
func Begin(ds []Dev) {
	exploring = true
	devs = map[int]Dev{}
	for _, d := range ds {
		devs[d.Pos] = d
	}
	trace = trace[:0:0]
	applied = nil
	probing = false
	hardErr = ""
	stats = map[string]int64{}
}

// End stops exploring and returns the choice points met, a hard error ("" if none) and counters.
func End() ([]Point, string, map[string]int64, []Dev) {
	exploring = false
	for p, d := range devs {
		if p >= len(trace) && hardErr == "" {
			hardErr = fmt.Sprintf("replay error: schedule deviates at choice point %d (%s) but the run met only %d choice points", p, d.Site, len(trace))
		}
	}
	return trace, hardErr, stats, applied
}

func fail(f string, a ...any) {
	if hardErr == "" {
		hardErr = fmt.Sprintf(f, a...)
	}
}

// Alts is the number of orders distinguished for n elements: all n! for n <= 4, otherwise the
// identity, the n-1 adjacent transpositions, the n-1 rotations and the reversal.
func Alts(n int) int {
	switch {
	case n < 2:
		return 1
	case n == 2:
		return 2
	case n == 3:
		return 6
	case n == 4:
		return 24
	}
	return 2 * n
}

// Perm returns the c-th order of n elements (c = 0 is the identity): out[i] = index of the element
// placed at position i.
func Perm(n, c int) []int {
	p := make([]int, n)
	for i := range p {
		p[i] = i
	}
	if c == 0 {
		return p
	}
	if n <= 4 {
		// c-th permutation in lexicographic order (factorial number system)
		avail := append([]int(nil), p...)
		f := 1
		for i := 2; i < n; i++ {
			f *= i
		}
		for i := 0; i < n; i++ {
			k := c / f
			c %= f
			p[i] = avail[k]
			avail = append(avail[:k], avail[k+1:]...)
			if n-1-i > 0 {
				f /= n - 1 - i
			}
		}
		return p
	}
	switch {
	case c <= n-1: // adjacent transposition (c-1, c)
		p[c-1], p[c] = p[c], p[c-1]
	case c <= 2*n-2: // rotation to the left by r
		r := c - (n - 1)
		for i := range p {
			p[i] = (i + r) % n
		}
	default: // reversal
		for i := range p {
			p[i] = n - 1 - i
		}
	}
	return p
}

// choose records a choice point with the given alternatives (orders of n elements; alts[0] must be
// the identity, nil means "the Alts(n) standard orders") and returns the order to apply (nil = identity).
func choose(site string, n int, alts [][]int) []int {
	if n < 2 || probing {
		return nil
	}
	pos := len(trace)
	na := Alts(n)
	if alts != nil {
		na = len(alts)
	}
	trace = append(trace, Point{site, n, na})
	d, ok := devs[pos]
	if !ok {
		return nil
	}
	if d.Site != site || d.N != n || d.Alts != na {
		fail("replay error: choice point %d is %s with %d elements and %d alternatives, the schedule expects %s with %d elements and %d alternatives", pos, site, n, na, d.Site, d.N, d.Alts)
		return nil
	}
	if d.Choice < 0 || d.Choice >= na {
		fail("replay error: choice %d out of range (%d alternatives) at choice point %d %s", d.Choice, na, pos, site)
		return nil
	}
	var p []int
	if alts != nil {
		p = alts[d.Choice]
	} else {
		p = Perm(n, d.Choice)
	}
	d.Order = p
	applied = append(applied, d)
	if d.Choice == 0 {
		return nil
	}
	return p
}

func fingerprint(k any, site string) string {
	switch v := k.(type) {
	case string:
		return "s" + v
	case int:
		return "i" + pad(int64(v))
	case int64:
		return "i" + pad(v)
	case int32:
		return "i" + pad(int64(v))
	case int16:
		return "i" + pad(int64(v))
	case int8:
		return "i" + pad(int64(v))
	case uint:
		return "i" + pad(int64(v))
	case uint64:
		return "i" + pad(int64(v))
	case uint32:
		return "i" + pad(int64(v))
	case uint16:
		return "i" + pad(int64(v))
	case uint8:
		return "i" + pad(int64(v))
	case bool:
		if v {
			return "b1"
		}
		return "b0"
	}
	for _, f := range fps {
		if s, ok := f(k); ok {
			return "r" + s
		}
	}
	fail("unowned nondeterminism: no stable fingerprint for key type %T at site %s", k, site)
	return fmt.Sprintf("?%T", k)
}

func pad(v int64) string {
	// order-preserving for the values that occur (non-negative and small negative numbers)
	u := uint64(v) ^ (1 << 63)
	s := strconv.FormatUint(u, 10)
	return "00000000000000000000"[len(s):] + s
}

// orderedKeys: canonical order by fingerprint, then the permutation the schedule chooses.
func orderedKeys[M ~map[K]V, K comparable, V any](m M, site string) []K {
	keys := make([]K, 0, len(m))
	for k := range m {
		keys = append(keys, k)
	}
	if !exploring {
		return keys
	}
	if !probing {
		stats["exec:"+site]++
	}
	if len(keys) < 2 {
		return keys
	}
	if ks, ok := any(keys).([]string); ok {
		// strings are their own fingerprint
		sort.Strings(ks)
		if p := choose(site, len(ks), nil); p != nil {
			out := make([]K, len(keys))
			for i, j := range p {
				out[i] = keys[j]
			}
			return out
		}
		return keys
	}
	f := make([]string, len(keys))
	for i, k := range keys {
		f[i] = fingerprint(k, site)
	}
	idx := make([]int, len(keys))
	for i := range idx {
		idx[i] = i
	}
	sort.SliceStable(idx, func(a, b int) bool { return f[idx[a]] < f[idx[b]] })
	for i := 1; i < len(idx); i++ {
		if f[idx[i]] == f[idx[i-1]] {
			fail("unowned nondeterminism: two keys of type %T share the fingerprint %q at site %s", keys[idx[i]], f[idx[i]], site)
		}
	}
	canon := make([]K, len(keys))
	for i, j := range idx {
		canon[i] = keys[j]
	}
	p := choose(site, len(canon), nil)
	if p == nil {
		return canon
	}
	out := make([]K, len(canon))
	for i, j := range p {
		out[i] = canon[j]
	}
	return out
}

// Range replaces `range m`. A key deleted by the loop body before it is reached is skipped and the
// value is read when the key is reached, as the language specifies for maps; entries inserted
// during the loop are not visited (the language permits that).
func Range[M ~map[K]V, K comparable, V any](m M, site string) iter.Seq2[K, V] {
	if !exploring {
		return func(yield func(K, V) bool) {
			for k, v := range m {
				if !yield(k, v) {
					return
				}
			}
		}
	}
	return func(yield func(K, V) bool) {
		for _, k := range orderedKeys(m, site) {
			v, ok := m[k]
			if !ok {
				continue
			}
			if !yield(k, v) {
				return
			}
		}
	}
}

// Keys replaces golang.org/x/exp/maps.Keys.
func Keys[M ~map[K]V, K comparable, V any](m M, site string) []K {
	return orderedKeys(m, site)
}

// Values replaces golang.org/x/exp/maps.Values.
func Values[M ~map[K]V, K comparable, V any](m M, site string) []V {
	ks := orderedKeys(m, site)
	vs := make([]V, 0, len(ks))
	for _, k := range ks {
		vs = append(vs, m[k])
	}
	return vs
}

// SeqAll replaces the standard library's maps.All.
func SeqAll[M ~map[K]V, K comparable, V any](m M, site string) iter.Seq2[K, V] {
	return Range(m, site)
}

// SeqKeys replaces the standard library's maps.Keys.
func SeqKeys[M ~map[K]V, K comparable, V any](m M, site string) iter.Seq[K] {
	return func(yield func(K) bool) {
		for k := range Range(m, site) {
			if !yield(k) {
				return
			}
		}
	}
}

// SeqValues replaces the standard library's maps.Values.
func SeqValues[M ~map[K]V, K comparable, V any](m M, site string) iter.Seq[V] {
	return func(yield func(V) bool) {
		for _, v := range Range(m, site) {
			if !yield(v) {
				return
			}
		}
	}
}

// Sort replaces sort.Slice(x, less). Exploring, the slice is first permuted as the schedule says and
// then sorted by the real sort.Slice: for a strict weak order this produces exactly the results a
// valid unstable sort may produce (ties in any order).
//
// Alternatives that lead to the same sorted result are merged: the comparator is tabulated once on
// the elements (it is assumed to be a deterministic function of the two elements), every candidate
// order is sorted by the same sort.Slice algorithm on an index slice using the table, and only
// candidates with distinct results are offered as alternatives. If there is just one result — in
// particular whenever less is a strict total order on the elements — the execution is not a
// choice point.
func Sort[S ~[]E, E any](x S, less func(i, j int) bool, site string) {
	if !exploring || probing {
		sort.Slice(x, less)
		return
	}
	n := len(x)
	stats["exec:"+site]++
	if n < 2 {
		sort.Slice(x, less)
		return
	}
	var alts [][]int
	if n <= 64 {
		probing = true
		memo := make([]int8, n*n)
		tab := func(a, b int) bool {
			m := &memo[a*n+b]
			if *m == 0 {
				if less(a, b) {
					*m = 1
				} else {
					*m = 2
				}
			}
			return *m == 1
		}
		seen := map[string]bool{}
		for c := 0; c < Alts(n); c++ {
			p := Perm(n, c)
			idx := append([]int(nil), p...)
			sort.Slice(idx, func(i, j int) bool { return tab(idx[i], idx[j]) })
			kb := make([]byte, n)
			for i, v := range idx {
				kb[i] = byte(v)
			}
			key := string(kb)
			if !seen[key] {
				seen[key] = true
				alts = append(alts, p)
			}
		}
		probing = false
		if len(alts) == 1 {
			stats["single:"+site]++
			sort.Slice(x, less)
			return
		}
	}
	if p := choose(site, n, alts); p != nil {
		tmp := append(S(nil), x...)
		for i, j := range p {
			x[i] = tmp[j]
		}
	}
	sort.Slice(x, less)
}
