//go:build verif

package parser

// C20: the two key predicates of the alias trie, exactly as parser.New passes them to at.New.
var (
	VerifTokenEqual = tokenEqual
	VerifTokenLess  = tokenLess
)
