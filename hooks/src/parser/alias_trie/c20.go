//go:build verif

package parser

import (
	orderedmap "github.com/DDP-Projekt/Kompilierer/src/parser/ordered_map"
)

// VerifWalk (C20) visits every node of the trie in pre-order, children in the order in which the
// ordered map stores them. It does not use Get/binary search, so it also shows nodes that lookups miss.
func (t *Trie[K, V]) VerifWalk(f func(depth int, key K, hasValue bool, value V, nchildren int)) {
	var rec func(n *trieNode[K, V], d int)
	rec = func(n *trieNode[K, V], d int) {
		f(d, n.key, n.hasValue, n.value, orderedmap.Len(n.children))
		n.children.IterateValues(func(c *trieNode[K, V]) bool {
			rec(c, d+1)
			return true
		})
	}
	rec(t.root, 0)
}
