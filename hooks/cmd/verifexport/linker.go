//go:build verif

// Package verifexport re-exports cmd/internal/linker (an internal package of the repository, only
// importable from below cmd/) so that the C16 explorer can drive the real link step — whose gcc
// argument order is built by ranging over maps — under a schedule.
package verifexport

import (
	"github.com/DDP-Projekt/Kompilierer/cmd/internal/linker"
)

type LinkOptions = linker.Options

func Link(o LinkOptions) ([]byte, error) { return linker.LinkDDPFiles(o) }
