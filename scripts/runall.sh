#!/bin/bash
# runs every registered check (quick or the tier given) sequentially and prints a summary
cd "$(dirname "$0")/.."
TIER=${1:-quick}
for id in $(python3 -c "import json; print(' '.join(c['property_id'] for c in json.load(open('MANIFEST.json'))['checks']))"); do
  s=$(date +%s)
  ./run $id $TIER > /tmp/runall_$id.log 2>&1; e=$?
  echo "$id exit=$e wall=$(( $(date +%s) - s ))s $(tail -1 /tmp/runall_$id.log | cut -c1-150)"
  grep -h "^VIOLATION\|^KNOWN-FINDING" /tmp/runall_$id.log | cut -c1-160 | sed 's/^/    /' | head -8
done
