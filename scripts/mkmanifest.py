#!/usr/bin/env python3
# Generates MANIFEST.json from scripts/checks.json (one entry per claimed property) so the file stays valid.
import json
V='/verif'
checks=json.load(open(V+'/scripts/checks.json'))
props=[json.loads(l) for l in open(V+'/properties.jsonl')]
claimed={c['id'] for c in checks['checks']}
m={
 "version":1,
 "setup_cmd":"bash /verif/scripts/build.sh",
 "hooks":{"guard":"verif","enable":"go build -tags 'byollvm verif' -overlay /verif/.build/v/<verif hash>/overlay.json (scripts/mkoverlay.py adds every file under /verif/hooks to the matching /repo package; /repo itself carries no hook code)",
          "baseline_off_cmd":"bash /verif/scripts/baseline.sh","source_commits":[],"add_only":True},
 "engines":checks['engines'],
 "checks":[],
 "notes":checks.get('notes',''),
 "not_applicable":[]
}
for c in checks['checks']:
    m['checks'].append({
     "property_id":c['id'],
     "quick_cmd":f"./run {c['id']} quick",
     "thorough_cmd":f"./run {c['id']} thorough",
     "evidence_file":f"/verif/evidence/{c['id']}.json",
     "replay_cmd_template":f"./run {c['id']} replay {{path}}",
     "engine":c['engine'],
     "level_claimed":{"category":"model_checking","text":c['text'],"design_ref":c['design_ref']},
     "level_note":c['note'],
     "technique":c['technique'],
    })
for p in props:
    if p['id'] not in claimed:
        m['not_applicable'].append({"property_id":p['id'],"reason":checks['pending'].get(p['id'],"check not built yet in this session (designed in DESIGN.md §5, to be claimed once its explorer passes on the unchanged tree)")})
json.dump(m,open(V+'/MANIFEST.json','w'),indent=1,ensure_ascii=False)
print("claimed",sorted(claimed))
