#!/bin/bash
# C16: build $VERIF_VDIR/ddpmc16 = the same ./cmd/ddpmc sources, compiled with the hooks overlay PLUS the
# generated map-order / sort overlay (mc/tools/rewrite). Called by `ddpmc C16 …` at start-up, after
# scripts/build.sh has produced $VERIF_VDIR/{overlay.json,mc.go.mod}. $VERIF_VDIR is named after the hash of
# /repo and /verif, so the result is cached simply by its presence.
# exit 0 ok, exit 2 failure (build failure or unowned nondeterminism — never a violation).
set -u
. "$(dirname "$0")/env.sh"
V=${VERIF_VDIR:?VERIF_VDIR not set (run through ./run)}
mkdir -p "$V/c16"
exec 8>"$V/c16/.lock"
flock 8
log() { echo "[build-c16] $*" >&2; }
fail() { echo "[build-c16] FAILED: $*" >&2; exit 2; }
[ -f "$V/overlay.json" ] && [ -f "$V/mc.go.mod" ] || fail "scripts/build.sh has not completed for $V"
if [ -f "$V/c16/.ok" ] && [ -x "$V/ddpmc16" ] && [ -f "$V/c16/sites.json" ]; then exit 0; fi
log "rewriter"
(cd "$VERIF/mc/tools/rewrite" && go build -o "$V/c16/c16rewrite" .) || fail "go build c16rewrite"
log "rewrite + post-check"
"$V/c16/c16rewrite" -repo "$REPO" -out "$V/c16/overlay" -overlay-in "$V/overlay.json" -overlay-out "$V/c16/overlay.json" -sites "$V/c16/sites.json" || fail "rewrite (unowned nondeterminism or tree does not load)"
log "ddpmc16"
(cd "$VERIF/mc" && go build -modfile="$V/mc.go.mod" -tags "byollvm verif" -overlay "$V/c16/overlay.json" -o "$V/ddpmc16" ./cmd/ddpmc) || fail "go build ddpmc16"
touch "$V/c16/.ok"
log "done"
exit 0
