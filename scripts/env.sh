# sourced by every script: offline Go + cgo/LLVM flags + paths
export VERIF=${VERIF:-/verif}
export REPO=${REPO:-/repo}
export B=${VERIF_BUILD:-$VERIF/.build}
export GOFLAGS=-mod=mod GOPROXY=off
export CGO_CPPFLAGS="$(llvm-config-14 --cppflags)"
export CGO_CXXFLAGS=-std=c++14
export CGO_LDFLAGS="$(llvm-config-14 --ldflags --libs --system-libs all)"
export LOCPATH=$B/locale
export TZ=UTC
