#!/usr/bin/env python3
# every file /verif/hooks/<pkg path>/<f>.go is ADDED to /repo/<pkg path>/ (build tag verif inside the file)
import json, os
V=os.environ.get('VERIF','/verif'); R=os.environ.get('REPO','/repo')
rep={}
for d,_,fs in os.walk(os.path.join(V,'hooks')):
    for f in fs:
        if f.endswith('.go'):
            src=os.path.join(d,f); rel=os.path.relpath(src,os.path.join(V,'hooks'))
            rep[os.path.join(R,os.path.dirname(rel),'zz_verif_'+f)]=src
print(json.dumps({'Replace':rep},indent=1))
