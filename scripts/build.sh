#!/bin/bash
# Rebuild everything the checks need from /repo's CURRENT working tree, if it changed.
# exit 0 ok, exit 2 build failure (never a violation).
set -u
. "$(dirname "$0")/env.sh"
mkdir -p "$B"
exec 9>"$B/.lock"
flock 9
repohash() {
  (cd "$REPO" && find src cmd lib go.mod go.sum -type f \( -name '*.go' -o -name '*.c' -o -name '*.h' -o -name '*.cpp' -o -name '*.ddp' -o -name 'go.mod' -o -name 'go.sum' \) -print0 | sort -z | xargs -0 sha1sum; cat "$VERIF/scripts/build.sh") | sha1sum | cut -d' ' -f1
}
verifhash() {
  (echo "$HR"; cd "$VERIF" && find mc hooks c scripts -type f ! -name go.sum -print0 | sort -z | xargs -0 sha1sum) | sha1sum | cut -d' ' -f1
}
HR=$(repohash)
HV=$(verifhash)
log() { echo "[build] $*" >&2; }
fail() { echo "[build] FAILED: $*" >&2; exit 2; }
D=$B/ddp
if [ -f "$B/.hash_repo" ] && [ "$(cat "$B/.hash_repo")" = "$HR" ] && [ -x "$B/ddp/bin/kddp" ]; then REPO_OK=1; else REPO_OK=0; fi
if [ $REPO_OK = 1 ] && [ -f "$B/.hash_verif" ] && [ "$(cat "$B/.hash_verif")" = "$HV" ] && [ -x "$B/ddpmc" ]; then exit 0; fi
rm -f "$B/.hash_verif"
if [ $REPO_OK = 0 ]; then
rm -f "$B/.hash_repo"
rm -rf "$D" "$B/obj"; mkdir -p "$D/bin" "$D/lib" "$B/obj"

# ---- locale (de_DE.UTF-8 = C.utf8 with decimal comma) -------------
if [ ! -f "$B/locale/de_DE.UTF-8/LC_NUMERIC" ]; then
  rm -rf "$B/locale"; mkdir -p "$B/locale"
  cp -r /usr/lib/locale/C.utf8 "$B/locale/de_DE.UTF-8" || fail locale
  python3 - "$B/locale/de_DE.UTF-8/LC_NUMERIC" <<'PY' || fail locale-patch
import sys
p=sys.argv[1]; b=bytearray(open(p,'rb').read())
assert b[32]==0x2e and b[36]==0x2e, (b[32],b[36])
b[32]=0x2c; b[36]=0x2c
open(p,'wb').write(b)
PY
fi

# ---- kddp ---------------------------------------------------------
log "kddp"
(cd "$REPO" && go build -tags byollvm -o "$D/bin/kddp" ./cmd/kddp) || fail "go build kddp"

# ---- runtime + stdlib (plain and ASan) -----------------------------
RT=$REPO/lib/runtime; ST=$REPO/lib/stdlib
CCF="-c -Wall -Wno-format -O2 -std=c11 -pedantic -D_POSIX_C_SOURCE=200809L"
build_c() { # variant extraflags
  local v=$1; shift
  mkdir -p "$B/obj/$v/rt" "$B/obj/$v/st"
  local pids=()
  for f in $(cd "$RT" && find source/DDP -name '*.c'); do
    o="$B/obj/$v/rt/$(echo "$f" | tr / _ ).o"
    gcc $CCF "$@" -I"$RT/include" -o "$o" "$RT/$f" & pids+=($!)
  done
  gcc $CCF "$@" -I"$RT/include" -o "$B/obj/$v/main.o" "$RT/source/main.c" & pids+=($!)
  for f in $(cd "$ST" && find source/DDP -name '*.c' ! -name regex.c ! -name compression.c); do
    o="$B/obj/$v/st/$(echo "$f" | tr / _ ).o"
    gcc $CCF "$@" -I"$ST/include" -I"$RT/include" -o "$o" "$ST/$f" & pids+=($!)
  done
  for p in "${pids[@]}"; do wait $p || return 1; done
  return 0
}
log "runtime/stdlib C"
build_c plain || fail "C runtime/stdlib"
build_c asan -fsanitize=address -fno-omit-frame-pointer -g || fail "C runtime/stdlib asan"
ar rcs "$D/lib/libddpruntime.a" "$B"/obj/plain/rt/*.o && ar rcs "$D/lib/libddpstdlib.a" "$B"/obj/plain/st/*.o || fail ar
cp "$B/obj/plain/main.o" "$D/lib/main.o"
mkdir -p "$D/libasan"
ar rcs "$D/libasan/libddpruntime.a" "$B"/obj/asan/rt/*.o && ar rcs "$D/libasan/libddpstdlib.a" "$B"/obj/asan/st/*.o || fail ar
cp "$B/obj/asan/main.o" "$D/libasan/main.o"
# stub archives for the libraries whose sources (git submodules) are absent
echo 'static int ddp_verif_stub;' > "$B/obj/stub.c"; gcc -c -o "$B/obj/stub.o" "$B/obj/stub.c"
for l in pcre2-8 archive z lzma bz2 lz4; do ar rcs "$D/lib/lib$l.a" "$B/obj/stub.o"; cp "$D/lib/lib$l.a" "$D/libasan/"; done
mkdir -p "$D/lib/runtime" "$D/lib/stdlib"
cp -r "$RT/include" "$D/lib/runtime/" && cp -r "$ST/include" "$D/lib/stdlib/" || fail headers
cp -r "$ST/Duden" "$D/Duden" || fail duden

# ---- list defs -----------------------------------------------------
log "list defs"
"$D/bin/kddp" dump-list-defs -o "$D/lib/ddp_list_types_defs" --llvm-ir --object >&2 || fail "dump-list-defs"
cp "$D/lib/ddp_list_types_defs.o" "$D/lib/ddp_list_types_defs.ll" "$D/libasan/"

echo "$HR" > "$B/.hash_repo"
fi # REPO_OK

# ---- C harnesses ---------------------------------------------------
if [ -f "$VERIF/c/build.sh" ]; then log "c harnesses"; bash "$VERIF/c/build.sh" >&2 || fail "c harness"; fi

# ---- ddpmc (links /repo's packages, overlay adds hooks/) -----------
log "ddpmc"
python3 "$VERIF/scripts/mkoverlay.py" > "$B/overlay.json" || fail overlay
# the module file is generated so that REPO may point to a scratch copy (self-test of mutants)
sed "s#=> /repo#=> $REPO#" "$VERIF/mc/go.mod" > "$B/mc.go.mod" && cp "$REPO/go.sum" "$B/mc.go.sum" || fail modfile
(cd "$VERIF/mc" && go build -modfile="$B/mc.go.mod" -tags "byollvm verif" -overlay "$B/overlay.json" -o "$B/ddpmc" ./cmd/ddpmc) || fail "go build ddpmc"
echo "$HV" > "$B/.hash_verif"
log "done"
exit 0
