#!/bin/bash
# Rebuild everything the checks need from /repo's CURRENT working tree, if it changed.
# exit 0 ok, exit 2 build failure (never a violation).
set -u
. "$(dirname "$0")/env.sh"
mkdir -p "$B"
exec 9>"$B/.lock"
flock 9
repohash() {
  (cd "$REPO" && find src cmd lib go.mod go.sum -type f \( -name '*.go' -o -name '*.c' -o -name '*.h' -o -name '*.cpp' -o -name '*.ddp' -o -name 'go.mod' -o -name 'go.sum' \) -print0 | sort -z | xargs -0 sha1sum; cat "$VERIF/scripts/build.sh") | sha1sum | cut -d' ' -f1
}
verifhash() {
  (echo "$HR"; cd "$VERIF" && find mc hooks c scripts -type f ! -name go.sum -print0 | sort -z | xargs -0 sha1sum) | sha1sum | cut -d' ' -f1
}
HR=$(repohash)
HV=$(verifhash)
log() { echo "[build] $*" >&2; }
fail() { echo "[build] FAILED: $*" >&2; exit 2; }
# Every build result lives in a directory named after the hash of its inputs and is never modified
# afterwards, so a check that is still running is not disturbed when the tree changes and another
# check rebuilds:  $B/t/<repo hash>/ddp (install tree)   $B/v/<verif hash>/{ddpmc,c/,overlay.json}
T=$B/t/$HR; V=$B/v/$HV; D=$T/ddp
# the caller evals our stdout (nothing else is ever written to stdout)
emit() { printf 'export DDPPATH=%s\nexport VERIF_VDIR=%s\n' "$D" "$V"; }
if [ -f "$T/.ok" ]; then REPO_OK=1; else REPO_OK=0; fi
if [ $REPO_OK = 1 ] && [ -f "$V/.ok" ]; then touch "$T" "$V"; emit; exit 0; fi
# drop results that have not been used for 3 hours
find "$B/t" "$B/v" -mindepth 1 -maxdepth 1 -type d -mmin +180 ! -path "$T" ! -path "$V" -exec rm -rf {} + 2>/dev/null
if [ $REPO_OK = 0 ]; then
rm -rf "$T"; mkdir -p "$D/bin" "$D/lib" "$T/obj"

# ---- locale (de_DE.UTF-8 = C.utf8 with decimal comma) -------------
if [ ! -f "$B/locale/de_DE.UTF-8/LC_NUMERIC" ]; then
  rm -rf "$B/locale"; mkdir -p "$B/locale"
  cp -r /usr/lib/locale/C.utf8 "$B/locale/de_DE.UTF-8" || fail locale
  python3 - "$B/locale/de_DE.UTF-8/LC_NUMERIC" <<'PY' || fail locale-patch
import sys
p=sys.argv[1]; b=bytearray(open(p,'rb').read())
assert b[32]==0x2e and b[36]==0x2e, (b[32],b[36])
b[32]=0x2c; b[36]=0x2c
open(p,'wb').write(b)
PY
fi

# ---- kddp ---------------------------------------------------------
log "kddp"
(cd "$REPO" && go build -tags byollvm -o "$D/bin/kddp" ./cmd/kddp) || fail "go build kddp"

# ---- runtime + stdlib (plain and ASan) -----------------------------
RT=$REPO/lib/runtime; ST=$REPO/lib/stdlib
CCF="-c -Wall -Wno-format -O2 -std=c11 -pedantic -D_POSIX_C_SOURCE=200809L"
build_c() { # variant extraflags
  local v=$1; shift
  mkdir -p "$T/obj/$v/rt" "$T/obj/$v/st"
  local pids=()
  for f in $(cd "$RT" && find source/DDP -name '*.c'); do
    o="$T/obj/$v/rt/$(echo "$f" | tr / _ ).o"
    gcc $CCF "$@" -I"$RT/include" -o "$o" "$RT/$f" & pids+=($!)
  done
  gcc $CCF "$@" -I"$RT/include" -o "$T/obj/$v/main.o" "$RT/source/main.c" & pids+=($!)
  for f in $(cd "$ST" && find source/DDP -name '*.c' ! -name regex.c ! -name compression.c); do
    o="$T/obj/$v/st/$(echo "$f" | tr / _ ).o"
    gcc $CCF "$@" -I"$ST/include" -I"$RT/include" -o "$o" "$ST/$f" & pids+=($!)
  done
  for p in "${pids[@]}"; do wait $p || return 1; done
  return 0
}
log "runtime/stdlib C"
build_c plain || fail "C runtime/stdlib"
build_c asan -fsanitize=address -fno-omit-frame-pointer -g || fail "C runtime/stdlib asan"
ar rcs "$D/lib/libddpruntime.a" "$T"/obj/plain/rt/*.o && ar rcs "$D/lib/libddpstdlib.a" "$T"/obj/plain/st/*.o || fail ar
cp "$T/obj/plain/main.o" "$D/lib/main.o"
mkdir -p "$D/libasan"
ar rcs "$D/libasan/libddpruntime.a" "$T"/obj/asan/rt/*.o && ar rcs "$D/libasan/libddpstdlib.a" "$T"/obj/asan/st/*.o || fail ar
cp "$T/obj/asan/main.o" "$D/libasan/main.o"
# stub archives for the libraries whose sources (git submodules) are absent
echo 'static int ddp_verif_stub;' > "$T/obj/stub.c"; gcc -c -o "$T/obj/stub.o" "$T/obj/stub.c"
for l in pcre2-8 archive z lzma bz2 lz4; do ar rcs "$D/lib/lib$l.a" "$T/obj/stub.o"; cp "$D/lib/lib$l.a" "$D/libasan/"; done
mkdir -p "$D/lib/runtime" "$D/lib/stdlib"
cp -r "$RT/include" "$D/lib/runtime/" && cp -r "$ST/include" "$D/lib/stdlib/" || fail headers
cp -r "$ST/Duden" "$D/Duden" || fail duden

# ---- list defs -----------------------------------------------------
log "list defs"
"$D/bin/kddp" dump-list-defs -o "$D/lib/ddp_list_types_defs" --llvm-ir --object >&2 || fail "dump-list-defs"
cp "$D/lib/ddp_list_types_defs.o" "$D/lib/ddp_list_types_defs.ll" "$D/libasan/"

touch "$T/.ok"
fi # REPO_OK
touch "$T" # mark as recently used
rm -rf "$V"; mkdir -p "$V/c"
export DDPPATH=$D VERIF_VDIR=$V

# ---- C harnesses ---------------------------------------------------
if [ -f "$VERIF/c/build.sh" ]; then log "c harnesses"; bash "$VERIF/c/build.sh" >&2 || fail "c harness"; fi

# ---- ddpmc (links /repo's packages, overlay adds hooks/) -----------
log "ddpmc"
python3 "$VERIF/scripts/mkoverlay.py" > "$V/overlay.json" || fail overlay
# the module file is generated so that REPO may point to a scratch copy (self-test of mutants)
sed "s#=> /repo#=> $REPO#" "$VERIF/mc/go.mod" > "$V/mc.go.mod" && cp "$REPO/go.sum" "$V/mc.go.sum" || fail modfile
(cd "$VERIF/mc" && go build -modfile="$V/mc.go.mod" -tags "byollvm verif" -overlay "$V/overlay.json" -o "$V/ddpmc" ./cmd/ddpmc) || fail "go build ddpmc"
touch "$V/.ok"
log "done"
emit
exit 0
