#!/bin/bash
# Runs the repository's pinned baseline (guard OFF: no tags, no overlay) and checks that the 38
# stable tests of /root/.vp/BASELINE.json pass. usage: baseline.sh [repo dir]
R=${1:-/repo}
export GOFLAGS=-mod=mod GOPROXY=off
cd "$R" || exit 2
go test -mod=mod -json -vet=off -count=1 -timeout 25m ./... > /tmp/baseline.$$.json 2>/dev/null
python3 - /tmp/baseline.$$.json <<'PY'
import json,sys
want=set(json.load(open('/root/.vp/BASELINE.json'))['stable_pass'])
st={}
for l in open(sys.argv[1]):
    try: e=json.loads(l)
    except: continue
    if e.get('Test') and e.get('Action') in('pass','fail'): st[e['Package']+'::'+e['Test']]=e['Action']
bad=[t for t in sorted(want) if st.get(t)!='pass']
print(f"baseline: {len(want)-len(bad)}/{len(want)} stable tests pass")
for t in bad: print("  NOT PASSING:",t,st.get(t))
sys.exit(1 if bad else 0)
PY
rc=$?; rm -f /tmp/baseline.$$.json; exit $rc
