#!/bin/bash
# Detection self-test: ./run <ID> selftest  (or scripts/selftest.sh <ID> [patch...])
# For every mutants/<ID>/*.patch (and seeded/<ID>*/patch.diff whose meta names this property):
#   copy /repo to a scratch dir, apply the patch, require the pinned baseline to still pass,
#   run the quick check against the copy and require exit 1 + a VIOLATION line. The scratch copy is removed.
cd "$(dirname "$0")/.."
ID=$1; shift
. scripts/env.sh
PATCHES=("$@")
if [ ${#PATCHES[@]} = 0 ]; then PATCHES=(mutants/$ID/*.patch); fi
rc=0
for P in "${PATCHES[@]}"; do
  [ -f "$P" ] || continue
  S=$(mktemp -d /tmp/ddpmc-mut.XXXXXX)
  cp -r /repo "$S/repo" && rm -rf "$S/repo/.git"
  if ! (cd "$S/repo" && patch -p1 -s < "$OLDPWD/$P"); then echo "SELFTEST $ID $P: patch does not apply"; rc=1; rm -rf "$S"; continue; fi
  if [ -z "$SKIP_BASELINE" ]; then
    if ! bash scripts/baseline.sh "$S/repo" >/dev/null 2>&1; then echo "SELFTEST $ID $P: baseline tests FAIL with this mutant (not a realistic mutant)"; rc=1; rm -rf "$S"; continue; fi
  fi
  mkdir -p "$S/out"
  REPO="$S/repo" VERIF_BUILD="$S/build" VERIF_OUT="$S/out" VERIF_TMP="$S/tmp" bash -c '. scripts/env.sh; ENVS=$(bash scripts/build.sh 2>"$VERIF_OUT/build.log") && eval "$ENVS" && "$VERIF_VDIR/ddpmc" '"$ID"' quick' > "$S/out/log" 2>&1
  e=$?
  if [ $e = 1 ] && grep -q "^VIOLATION property=$ID" "$S/out/log"; then
    echo "SELFTEST $ID $P: detected ($(grep -c '^VIOLATION' "$S/out/log") violation lines; first: $(grep -A1 '^VIOLATION' "$S/out/log" | sed -n 2p | cut -c1-150))"
  else
    echo "SELFTEST $ID $P: NOT detected (exit $e)"; tail -5 "$S/out/log" "$S/out/build.log" 2>/dev/null | sed 's/^/    /'; rc=1
  fi
  rm -rf "$S"
done
exit $rc
