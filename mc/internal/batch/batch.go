// Package batch: E-SPACE runner of DESIGN §4 — cases (cdm program fragments) are evaluated by the
// reference model, packed into batch programs, compiled by the real compiler at several optimisation
// levels, executed, and compared; mismatches are attributed to single cases and re-confirmed alone.
package batch

import (
	"fmt"
	"os"
	"path/filepath"
	"strings"
	"sync"
	"sync/atomic"

	"ddpmc/internal/cdm"
	"ddpmc/internal/ev"
	"ddpmc/internal/par"
	"ddpmc/internal/rx"
)

type Case struct {
	Key     string // violation key suffix identifying the cell (without values)
	Desc    string // human description incl. values
	Aliases []*cdm.Type
	Structs []*cdm.Type
	Pre     []cdm.Stmt // global declarations used by Funcs (emitted before the functions)
	Funcs   []*cdm.Func
	Body    []cdm.Stmt
	// ArgSets: if non-nil the case is compiled alone once per level and executed once per argument
	// vector (the program reads its inputs with cdm.Arg, invisible to the optimiser)
	ArgSets [][]string
	// filled by the runner
	exp   cdm.Outcome
	index int
}

type Opts struct {
	Prop      string // "C01"
	Family    string
	Levels    []uint
	BatchSize int
	Asan      bool
	Build     rx.BuildOpts // template for extra link flags / objects (Opt and Asan are overridden)
	// Extra is called for every executed program (after the stdout comparison passed) and may report
	// additional violations (memory monitors…): return "" or a description.
	Extra func(r rx.RunResult) string
}

type Stats struct {
	Cases, Unspecified, Solo, Programs, Builds, Runs int64
	Failed                                           int64
}

func Tag(i int) cdm.Stmt {
	return &cdm.Print{X: &cdm.Lit{T: cdm.Text, V: []rune(fmt.Sprintf("#%d\n", i))}}
}

// PrintLn prints a scalar expression followed by a newline.
func PrintLn(x cdm.Expr) []cdm.Stmt {
	return []cdm.Stmt{&cdm.Print{X: x}, &cdm.Print{X: &cdm.Lit{T: cdm.Char, V: rune('\n')}}}
}

// ProgramOf assembles one program from cases (used by C11 to reuse the families).
func ProgramOf(cs []*Case, tagged bool) *cdm.Program {
	for i, c := range cs {
		if c.index == 0 {
			c.index = i
		}
	}
	return program(cs, tagged)
}

func program(cs []*Case, tagged bool) *cdm.Program {
	p := &cdm.Program{}
	seenA, seenS := map[string]bool{}, map[string]bool{}
	for _, c := range cs {
		for _, a := range c.Aliases {
			if !seenA[a.Alias+"/"+a.Def] {
				seenA[a.Alias+"/"+a.Def] = true
				p.Aliases = append(p.Aliases, a)
			}
		}
		for _, s := range c.Structs {
			if !seenS[s.Name] {
				seenS[s.Name] = true
				p.Structs = append(p.Structs, s)
			}
		}
		p.Pre = append(p.Pre, c.Pre...)
		p.Funcs = append(p.Funcs, c.Funcs...)
		if c.ArgSets != nil {
			p.UsesArgs = true
		}
		if tagged {
			p.Main = append(p.Main, Tag(c.index))
		}
		p.Main = append(p.Main, c.Body...)
	}
	return p
}

// Run executes all cases; report is called for each confirmed failing case.
func Run(c *ev.Ctx, cases []*Case, o Opts) Stats {
	var st Stats
	if o.BatchSize == 0 {
		o.BatchSize = 40
	}
	var normal, solo []*Case
	var multi []*Case
	for i, cs := range cases {
		cs.index = i
		if cs.ArgSets != nil {
			st.Cases += int64(len(cs.ArgSets))
			multi = append(multi, cs)
			continue
		}
		out, un := program([]*Case{cs}, false).Run()
		st.Cases++
		if un != nil {
			st.Unspecified++
			c.Add("excluded_unspecified", 1)
			continue
		}
		cs.exp = out
		if out.RtErr {
			solo = append(solo, cs)
		} else {
			normal = append(normal, cs)
		}
	}
	st.Solo = int64(len(solo))
	type job struct{ cs []*Case }
	var jobs []job
	for i := 0; i < len(normal); i += o.BatchSize {
		j := i + o.BatchSize
		if j > len(normal) {
			j = len(normal)
		}
		jobs = append(jobs, job{normal[i:j]})
	}
	for _, s := range solo {
		jobs = append(jobs, job{[]*Case{s}})
	}
	var mu sync.Mutex
	reported := map[string]bool{}
	fail := func(cs *Case, lvl uint, what, src string, exp cdm.Outcome, got string) {
		atomic.AddInt64(&st.Failed, 1)
		key := o.Prop + ":" + o.Family + ":" + cs.Key
		mu.Lock()
		dup := reported[key]
		reported[key] = true
		mu.Unlock()
		if dup {
			return
		}
		c.Violation(key, fmt.Sprintf("%s\n-O%d: %s", cs.Desc, lvl, what), map[string]string{
			"main.ddp": src, "expected_stdout.txt": exp.Stdout, "expected_exit.txt": fmt.Sprint(exp.Exit), "got.txt": got, "level.txt": fmt.Sprint(lvl)})
	}
	par.Each(multi, 0, func(_ int, cs *Case) {
		if c.Expired() {
			c.Capped(o.Family + ": deadline reached, remaining argument-driven cases skipped")
			return
		}
		runMulti(c, cs, o, &st, fail)
	})
	par.Each(jobs, 0, func(_ int, j job) {
		if c.Expired() {
			c.Capped(o.Family + ": deadline reached, remaining batches skipped")
			return
		}
		bad := runProgram(c, j.cs, len(j.cs) > 1, o, &st, nil)
		if len(bad) == 0 {
			return
		}
		if len(j.cs) == 1 {
			// confirm twice more
			for k := 0; k < 2; k++ {
				if b2 := runProgram(c, j.cs, false, o, &st, nil); len(b2) == 0 {
					c.Add("flaky_not_reported", 1)
					return
				}
			}
			for _, b := range bad {
				fail(b.cs, b.lvl, b.what, b.src, b.cs.exp, b.got)
			}
			return
		}
		// attribute: re-run every suspect alone
		seen := map[*Case]bool{}
		for _, b := range bad {
			if seen[b.cs] {
				continue
			}
			seen[b.cs] = true
			one := runProgram(c, []*Case{b.cs}, false, o, &st, nil)
			if len(one) == 0 {
				if b.wholeBatch {
					continue // the batch failed as a whole (e.g. did not compile) because of another case
				}
				// fails only inside the batch: report the batch itself under the case key
				fail(b.cs, b.lvl, "differs only inside the batch program: "+b.what, b.src, cdm.Outcome{Stdout: "(batch)"}, b.got)
				continue
			}
			again := runProgram(c, []*Case{b.cs}, false, o, &st, nil)
			if len(again) == 0 {
				c.Add("flaky_not_reported", 1)
				continue
			}
			fail(b.cs, one[0].lvl, one[0].what, one[0].src, b.cs.exp, one[0].got)
		}
	})
	return st
}

// runMulti: one executable per level, one execution per argument vector.
func runMulti(c *ev.Ctx, cs *Case, o Opts, st *Stats, fail func(cs *Case, lvl uint, what, src string, exp cdm.Outcome, got string)) {
	prog := program([]*Case{cs}, false)
	src := prog.Source()
	dir := rx.Scratch("m")
	defer os.RemoveAll(dir)
	rx.WriteFiles(dir, map[string]string{"main.ddp": src})
	atomic.AddInt64(&st.Programs, 1)
	type expT struct {
		args []string
		out  cdm.Outcome
	}
	var exps []expT
	for _, a := range cs.ArgSets {
		prog.Args = a
		out, un := prog.Run()
		if un != nil {
			atomic.AddInt64(&st.Unspecified, 1)
			c.Add("excluded_unspecified", 1)
			continue
		}
		exps = append(exps, expT{a, out})
	}
	for _, lvl := range o.Levels {
		bo := o.Build
		bo.Opt, bo.Asan = lvl, o.Asan
		b := rx.Build(dir, "main.ddp", bo)
		atomic.AddInt64(&st.Builds, 1)
		if !b.OK {
			diag := ""
			for _, d := range b.Resp.Diags {
				diag += d.String() + "\n"
			}
			fail(cs, lvl, "compilation failed at stage "+b.Stage+": "+firstN(b.Log, 600)+"\n"+firstN(diag, 600), src, cdm.Outcome{}, b.Log)
			return
		}
		for _, e := range exps {
			check := func() (string, string) {
				r := rx.RunRobust(b.Exe, rx.RunOpts{Args: e.args, NoLimit: o.Asan})
				if r.Infra {
					c.Broken("could not execute " + b.Exe + ": " + firstN(r.Stderr, 200))
					return "", ""
				}
				atomic.AddInt64(&st.Runs, 1)
				ok := r.Stdout == e.out.Stdout && r.Exit == e.out.Exit && r.Signal == "" && !r.TimedOut && !r.Truncated
				if e.out.RtErr && !strings.Contains(r.Stderr, "Laufzeitfehler") {
					ok = false
				}
				if strings.Contains(r.Stderr, "Segmentation fault") || strings.Contains(r.Stderr, "AddressSanitizer") {
					ok = false
				}
				if ok && o.Extra != nil {
					if w := o.Extra(r); w != "" {
						return w, r.Stdout + "\n--- stderr ---\n" + r.Stderr
					}
				}
				if ok {
					return "", ""
				}
				return fmt.Sprintf("args %v: expected stdout %q exit %d (Laufzeitfehler=%v), got stdout %q exit %d (%s) stderr %q", e.args, firstN(e.out.Stdout, 300), e.out.Exit, e.out.RtErr,
						firstN(r.Stdout, 300), r.Exit, r.Class(), firstN(r.Stderr, 300)),
					r.Stdout + "\n--- exit " + fmt.Sprint(r.Exit) + " stderr ---\n" + firstN(r.Stderr, 2000)
			}
			w, got := check()
			if w == "" {
				continue
			}
			if w2, _ := check(); w2 == "" {
				c.Add("flaky_not_reported", 1)
				continue
			}
			fail(cs, lvl, w, src+"\n[ args: "+strings.Join(e.args, " ")+" ]\n", e.out, got)
			break // one failing vector per level is enough for the report
		}
		os.Remove(b.Exe)
		os.Remove(b.Obj)
	}
}

type badCase struct {
	wholeBatch bool
	cs         *Case
	lvl        uint
	what       string
	src        string
	got        string
}

func splitTags(s string) (map[int]string, bool) {
	out := map[int]string{}
	if s == "" {
		return out, true
	}
	if !strings.HasPrefix(s, "#") {
		return nil, false
	}
	parts := strings.Split("\n"+s, "\n#")
	for _, p := range parts[1:] {
		nl := strings.IndexByte(p, '\n')
		if nl < 0 {
			return nil, false
		}
		var id int
		if _, err := fmt.Sscanf(p[:nl], "%d", &id); err != nil {
			return nil, false
		}
		out[id] = p[nl+1:]
	}
	return out, true
}

func runProgram(c *ev.Ctx, cs []*Case, tagged bool, o Opts, st *Stats, _ any) []badCase {
	prog := program(cs, tagged)
	src := prog.Source()
	exp, un := prog.Run()
	if un != nil {
		c.Broken("batch evaluation became unspecified: " + un.Why)
		return nil
	}
	dir := rx.Scratch("b")
	defer os.RemoveAll(dir)
	rx.WriteFiles(dir, map[string]string{"main.ddp": src})
	atomic.AddInt64(&st.Programs, 1)
	var bad []badCase
	all := func(lvl uint, what, got string) {
		for _, x := range cs {
			bad = append(bad, badCase{len(cs) > 1, x, lvl, what, src, got})
		}
	}
	for _, lvl := range o.Levels {
		bo := o.Build
		bo.Opt, bo.Asan = lvl, o.Asan
		b := rx.Build(dir, "main.ddp", bo)
		atomic.AddInt64(&st.Builds, 1)
		if !b.OK {
			if b.Stage == "died" || b.Stage == "timeout" {
				c.Add("compile_worker_"+b.Stage, 1)
			}
			diag := ""
			for _, d := range b.Resp.Diags {
				diag += d.String() + "\n"
			}
			all(lvl, "compilation failed at stage "+b.Stage+": "+firstN(b.Log, 600)+"\n"+firstN(diag, 600), b.Log)
			break // the other levels would fail the same way
		}
		r := rx.RunRobust(b.Exe, rx.RunOpts{NoLimit: o.Asan})
		if r.Infra {
			c.Broken("could not execute " + b.Exe + ": " + firstN(r.Stderr, 200))
			continue
		}
		atomic.AddInt64(&st.Runs, 1)
		os.Remove(b.Exe)
		os.Remove(b.Obj)
		okExit := r.Exit == exp.Exit && r.Signal == "" && !r.TimedOut && !r.Truncated
		if exp.RtErr && !strings.Contains(r.Stderr, "Laufzeitfehler") {
			okExit = false
		}
		if !exp.RtErr && strings.Contains(r.Stderr, "Segmentation fault") {
			okExit = false
		}
		if r.Stdout == exp.Stdout && okExit {
			if o.Extra != nil {
				if w := o.Extra(r); w != "" {
					all(lvl, w, r.Stdout+"\n--- stderr ---\n"+r.Stderr)
				}
			}
			continue
		}
		got := r.Stdout + "\n--- exit " + fmt.Sprint(r.Exit) + " class " + r.Class() + " stderr ---\n" + firstN(r.Stderr, 2000)
		if !tagged {
			all(lvl, fmt.Sprintf("expected stdout %q exit %d, got stdout %q exit %d (%s)", firstN(exp.Stdout, 300), exp.Exit, firstN(r.Stdout, 300), r.Exit, r.Class()), got)
			continue
		}
		gm, ok1 := splitTags(r.Stdout)
		em, _ := splitTags(exp.Stdout)
		if !ok1 {
			all(lvl, "batch output malformed", got)
			continue
		}
		n := 0
		// a batch that ended abnormally (crash, runtime error, flood) makes every case after the
		// point of failure a victim: such cases are only re-run alone, never reported as batch-only
		abnormal := !okExit
		for _, x := range cs {
			g, present := gm[x.index]
			if !present || g != em[x.index] {
				bad = append(bad, badCase{abnormal, x, lvl, fmt.Sprintf("expected %q got %q (present=%v)", firstN(em[x.index], 200), firstN(g, 200), present), src, got})
				n++
			}
		}
		if n == 0 { // only exit status / class differed
			all(lvl, "exit/class differs: "+r.Class(), got)
		}
	}
	return bad
}

func firstN(s string, n int) string {
	if len(s) > n {
		return s[:n] + "…"
	}
	return s
}

// ReplayDir re-runs a stored single-case program (main.ddp + expected files) without the explorer.
func ReplayDir(dir string) (ok bool, msg string) {
	src, err := os.ReadFile(filepath.Join(dir, "main.ddp"))
	if err != nil {
		return false, err.Error()
	}
	exp, _ := os.ReadFile(filepath.Join(dir, "expected_stdout.txt"))
	var lvl uint = 1
	if b, err := os.ReadFile(filepath.Join(dir, "level.txt")); err == nil {
		fmt.Sscanf(string(b), "%d", &lvl)
	}
	var exit int
	if b, err := os.ReadFile(filepath.Join(dir, "expected_exit.txt")); err == nil {
		fmt.Sscanf(string(b), "%d", &exit)
	}
	d := rx.Scratch("replay")
	defer os.RemoveAll(d)
	rx.WriteFiles(d, map[string]string{"main.ddp": string(src)})
	b := rx.Build(d, "main.ddp", rx.BuildOpts{Opt: lvl})
	if !b.OK {
		return false, "compilation failed at stage " + b.Stage + ": " + firstN(b.Log, 1500)
	}
	var args []string
	if i := strings.LastIndex(string(src), "[ args: "); i >= 0 {
		a := string(src)[i+len("[ args: "):]
		if j := strings.Index(a, " ]"); j >= 0 {
			args = strings.Fields(a[:j])
		}
	}
	r := rx.Run(b.Exe, rx.RunOpts{Args: args})
	if r.Stdout != string(exp) || r.Exit != exit {
		return false, fmt.Sprintf("expected stdout %q exit %d, got %q exit %d (%s)", firstN(string(exp), 400), exit, firstN(r.Stdout, 400), r.Exit, r.Class())
	}
	return true, "program behaves as the reference semantics prescribes"
}
