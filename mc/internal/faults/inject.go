package faults

import (
	"fmt"
	"strings"

	. "ddpmc/internal/cdm"
)

// Injection is one program that differs from the seed by exactly one static fault.
type Injection struct {
	Class  string        // undeclared outofscope redeclaration wrongtype constant loopcontrol noreturn nonpublic gender
	Kind   string        // site kind
	Detail string        // operator / statement kind / types
	What   func() string // human description: what was injected where
	// Build returns the faulty program and, if the injection needs helper declarations, a control program
	// (seed + helpers, without the fault) that must be accepted, otherwise the injection is discarded (counted).
	Build func() (prog, control *Program)
}

func (j *Injection) Key() string { return "C04:" + j.Class + ":" + j.Kind + ":" + j.Detail }

// Stats counts sites that were deliberately not used.
type Stats struct {
	ExcludedUnspecified int // the property text does not determine whether the replacement is ill-formed
	NotExpressible      int // the fault cannot be written at this site (e.g. no literal of that type for a Konstante)
	Shadowed            int // name not unique in the program: visibility cannot be decided locally
	Sites               map[string]int
}

const (
	freshName = "c04_unbekannt"
	newName   = "c04_neu"
	constName = "c04_k"
	sinkPfx   = "c04_s"
)

func zahlLit() Expr { return &Lit{T: Zahl, V: int64(7)} }
func textLit() Expr { return &Lit{T: Text, V: []rune("c04")} }
func boolLit() Expr { return &Lit{T: Bool, V: true} }

func catOf(e Expr) string { return e.Ty().String() }

// WrongLits returns literals whose type is not acceptable at the slot according to the property text
// (C04 with the acceptability rule of C14: equivalent types, numeric for numeric, anything for Variable).
// nil = the site is excluded.
func WrongLits(s *ExprSlot) []Expr {
	switch s.Rule {
	case "num", "int":
		return []Expr{textLit(), boolLit()}
	case "bool":
		return []Expr{textLit(), zahlLit()}
	case "seq":
		return []Expr{zahlLit(), boolLit()}
	case "struct":
		return []Expr{zahlLit(), textLit()}
	case "type":
		return cross(s.Want)
	}
	return nil
}

// cross: literals of a category different from t, from t's element type, and not convertible into either
func cross(t *Type) []Expr {
	if t == nil {
		return nil
	}
	switch t.K {
	case KZahl, KKomma, KByte:
		return []Expr{textLit(), boolLit()}
	case KBool:
		return []Expr{textLit(), zahlLit()}
	case KChar, KText: // a Buchstabe for a Text (or vice versa) is left out: related types
		return []Expr{zahlLit(), boolLit()}
	case KStruct:
		return []Expr{zahlLit(), textLit()}
	case KList:
		if hasAny(t) {
			return nil
		}
		e := t
		for e.K == KList {
			e = e.Elem
		}
		return cross(e)
	}
	return nil // Variable, nothing
}

// SinkDecls declares one global per scalar type; Print statements of the seeds are turned into assignments
// to them so that the seeds need no Duden import (a parse is ~60x cheaper without it).
func sinkFor(t *Type) *Var {
	return &Var{Name: sinkPfx + map[Kind]string{KZahl: "z", KKomma: "k", KByte: "b", KBool: "w", KChar: "c", KText: "t"}[t.K], T: t}
}

func sinkDecls() []Stmt {
	return []Stmt{
		&VarDecl{Name: sinkPfx + "z", T: Zahl, Init: &Lit{T: Zahl, V: int64(0)}},
		&VarDecl{Name: sinkPfx + "k", T: Komma, Init: &Lit{T: Komma, V: float64(0)}},
		&VarDecl{Name: sinkPfx + "b", T: Byte, Init: &Lit{T: Zahl, V: int64(0)}},
		&VarDecl{Name: sinkPfx + "w", T: Bool, Init: &Lit{T: Bool, V: false}},
		&VarDecl{Name: sinkPfx + "c", T: Char, Init: &Lit{T: Char, V: rune('a')}},
		&VarDecl{Name: sinkPfx + "t", T: Text, Init: &Lit{T: Text, V: []rune("")}},
	}
}

func neutralStmt() Stmt {
	return &Assign{Target: sinkFor(Zahl), Val: &Lit{T: Zahl, V: int64(1)}}
}

// Prepare returns a Duden-free copy of p: Print statements become assignments to sink globals, empty blocks
// get a neutral statement. ok=false if the program cannot be prepared (uses command line arguments).
func Prepare(p *Program) (*Program, bool) {
	if p.UsesArgs {
		return nil, false
	}
	q := CloneProgram(p)
	var fix func(ss []Stmt) []Stmt
	fix = func(ss []Stmt) []Stmt {
		for i, s := range ss {
			switch x := s.(type) {
			case *Print:
				if !x.X.Ty().IsPrim() {
					panic("Print of non-primitive")
				}
				ss[i] = &Assign{Target: sinkFor(x.X.Ty()), Val: x.X}
			case *If:
				x.Then = fix(x.Then)
				if x.Else != nil {
					x.Else = fix(x.Else)
				}
			case *While:
				x.Body = fix(x.Body)
			case *DoWhile:
				x.Body = fix(x.Body)
			case *Repeat:
				x.Body = fix(x.Body)
			case *For:
				x.Body = fix(x.Body)
			case *ForEach:
				x.Body = fix(x.Body)
			}
		}
		if len(ss) == 0 {
			return []Stmt{neutralStmt()}
		}
		return ss
	}
	q.Pre = append(sinkDecls(), q.Pre...)
	if len(q.Pre) > 0 {
		q.Pre = fix(q.Pre)
	}
	for _, f := range q.Funcs {
		f.Body = fix(f.Body)
	}
	if len(q.Main) > 0 {
		q.Main = fix(q.Main)
	}
	return q, true
}

// Source prints a prepared program without the Duden import line.
func Source(p *Program) string {
	s := p.Source()
	const imp = "Binde \"Duden/Ausgabe\" ein.\n"
	return strings.TrimPrefix(s, imp)
}

func isHelper(name string) bool { return strings.HasPrefix(name, "c04_") }

// fake builds a type that prints as `name` with the articles of gender g.
func fake(name, g string) *Type { return &Type{K: KStruct, Gender: g, Alias: name, Name: name} }

func genderName(t *Type, form string) string {
	if t.K == KChar && t.Alias == "" && (form == "Each" || form == "Akk") {
		return "Buchstaben"
	}
	return t.String()
}

var articleWord = map[string]map[string]string{
	"Decl":     {"m": "Der", "f": "Die", "n": "Das"},
	"Each":     {"m": "jeden", "f": "jede", "n": "jedes"},
	"Akk":      {"m": "einen", "f": "eine", "n": "ein"},
	"Nom":      {"m": "ein", "f": "eine", "n": "ein"},
	"Dat":      {"m": "dem", "f": "der", "n": "dem"},
	"DatIndef": {"m": "einem", "f": "einer", "n": "einem"},
}

// constLit: a literal usable as the value of a Konstante of exactly type t (nil: not expressible)
func constLit(t *Type) Expr {
	switch t.K {
	case KZahl:
		return &Lit{T: Zahl, V: int64(5)}
	case KKomma:
		return &Lit{T: Komma, V: 2.5}
	case KBool:
		return &Lit{T: Bool, V: true}
	case KChar:
		return &Lit{T: Char, V: rune('k')}
	case KText:
		return &Lit{T: Text, V: []rune("konstant")}
	case KList:
		if t.Alias != "" || t.Elem.Alias != "" {
			return nil
		}
		switch t.Elem.K {
		case KZahl, KKomma, KBool, KChar, KText:
			a, b := constLit(t.Elem), constLit(t.Elem)
			return &ListLit{T: t, El: []Expr{a, b}}
		}
	}
	return nil
}

func rootVar(e Expr) *Var {
	switch x := e.(type) {
	case *Var:
		return x
	case *Bin:
		if x.Op == "index" {
			return rootVar(x.L)
		}
	case *FieldOf:
		return rootVar(x.X)
	}
	return nil
}

// Enumerate returns every single-fault variant of the prepared seed.
func Enumerate(seed *Program, st *Stats) []*Injection {
	if st.Sites == nil {
		st.Sites = map[string]int{}
	}
	var out []*Injection
	ix := Walk(seed)
	add := func(j *Injection) {
		st.Sites[j.Class]++
		out = append(out, j)
	}
	mut := func() (*Program, *Index) {
		q := CloneProgram(seed)
		return q, Walk(q)
	}

	// ---- undeclared name: every use of a variable (rvalue, assignment target, Referenz argument)
	for k, s := range ix.Exprs {
		v, ok := s.Get().(*Var)
		if !ok || isHelper(v.Name) {
			continue
		}
		add(&Injection{Class: "undeclared", Kind: s.Pos, Detail: s.StmtK + "@" + s.Block.Where(), Build: func() (*Program, *Program) {
			q, qx := mut()
			qx.Exprs[k].Set(&Var{Name: freshName, T: v.T})
			return q, nil
		},
			What: func() string {
				return fmt.Sprintf("use of variable %s (%s, statement %d of block %s) replaced by the undeclared name %s", v.Name, s.Pos, s.Idx, s.Block.Where(), freshName)
			}})
	}
	// ---- undeclared: use before the declaration
	for k, d := range ix.Decls {
		if d.Kind != "var" || isHelper(d.Name) {
			continue
		}
		if !ix.Unique(d.Name) {
			st.Shadowed++
			continue
		}
		add(&Injection{Class: "undeclared", Kind: "use-before-declaration", Detail: d.Block.Where(), Build: func() (*Program, *Program) {
			q, qx := mut()
			dq := qx.Decls[k]
			dq.Block.Insert(dq.Idx, &VarDecl{Name: newName, T: d.T, Init: &Var{Name: d.Name, T: d.T}})
			return q, nil
		},
			What: func() string {
				return fmt.Sprintf("a declaration initialised with %s inserted directly before the declaration of %s in block %s", d.Name, d.Name, d.Block.Where())
			}})
	}

	// ---- use after scope end
	for _, d := range ix.Decls {
		if isHelper(d.Name) {
			continue
		}
		if !ix.Unique(d.Name) {
			st.Shadowed++
			continue
		}
		type place struct {
			block, idx int
			kind       string
		}
		var places []place
		mainID := len(ix.Blocks) - 1 // Walk indexes the top-level statement list last
		switch d.Kind {
		case "var":
			b := d.Block
			if b.Owner == nil {
				if b.Kind == "func" { // a local of a function used at top level after the function
					places = append(places, place{mainID, 0, "function-local-at-top-level"})
				}
				break
			}
			// directly after the statement that owns the block, and after the enclosing statements further out
			lvl := 0
			for ob := b; ob.Owner != nil && lvl < 3; ob = ob.Owner {
				places = append(places, place{ob.Owner.ID, ob.OwnerIdx + 1, fmt.Sprintf("block-local:%s-local-used-%d-level-up", b.Kind, lvl+1)})
				lvl++
			}
			// a variable of the then-branch used in the else-branch
			if b.Kind == "then" {
				for _, c := range ix.Blocks {
					if c.Kind == "else" && c.Owner == b.Owner && c.OwnerIdx == b.OwnerIdx {
						places = append(places, place{c.ID, 0, "block-local:then-local-used-in-else"})
					}
				}
			}
		case "loopvar", "loopindex":
			places = append(places, place{d.Block.ID, d.Idx + 1, d.Kind + "-after-" + d.Body.Kind + "-loop"})
		case "param":
			places = append(places, place{mainID, 0, "parameter-at-top-level"})
		}
		for _, pl := range places {
			b := ix.Blocks[pl.block]
			// never append behind the final return of a value-returning function
			if n := len(*b.Stmts); pl.idx == n && n > 0 {
				if _, isRet := (*b.Stmts)[n-1].(*Return); isRet {
					st.NotExpressible++
					continue
				}
			}
			add(&Injection{Class: "outofscope", Kind: pl.kind, Detail: d.T.String() + "@" + b.Where(), Build: func() (*Program, *Program) {
				q, qx := mut()
				qx.Blocks[pl.block].Insert(pl.idx, &VarDecl{Name: newName, T: d.T, Init: &Var{Name: d.Name, T: d.T}})
				return q, nil
			},
				What: func() string {
					return fmt.Sprintf("%s %s (declared in %s) used in a declaration inserted at position %d of block %s, after its scope has ended", d.Kind, d.Name, whereOf(d), pl.idx, b.Where())
				}})
		}
	}

	// ---- redeclaration in the same scope
	for k, d := range ix.Decls {
		if isHelper(d.Name) {
			continue
		}
		switch d.Kind {
		case "var":
			old := (*d.Block.Stmts)[d.Idx].(*VarDecl)
			for _, at := range []string{"directly-after", "block-end"} {
				n := len(*d.Block.Stmts)
				pos := d.Idx + 1
				if at == "block-end" {
					pos = n
					if _, isRet := (*d.Block.Stmts)[n-1].(*Return); isRet {
						pos = n - 1
					}
					if pos <= d.Idx+1 {
						continue
					}
				}
				add(&Injection{Class: "redeclaration", Kind: "variable:" + at, Detail: d.Block.Where(), Build: func() (*Program, *Program) {
					q, qx := mut()
					dq := qx.Decls[k]
					dq.Block.Insert(pos, &VarDecl{Name: old.Name, T: old.T, Init: CloneExpr(old.Init)})
					return q, nil
				},
					What: func() string {
						return fmt.Sprintf("declaration of %s repeated at position %d of the same block %s", d.Name, pos, d.Block.Where())
					}})
			}
		case "param":
			add(&Injection{Class: "redeclaration", Kind: "parameter-vs-local", Detail: d.T.String(), Build: func() (*Program, *Program) {
				q, qx := mut()
				dq := qx.Decls[k]
				dq.Body.Insert(0, &VarDecl{Name: d.Name, T: d.T, Init: &Var{Name: d.Name, T: d.T}})
				return q, nil
			},
				What: func() string {
					return fmt.Sprintf("a local variable named like parameter %s declared at the top of the body of %s", d.Name, d.Fn.Name)
				}})
		case "loopvar", "loopindex":
			// whether the loop variable and the declarations of the loop body share one scope is not fixed by the property text
			st.ExcludedUnspecified++
		}
	}

	// ---- wrong type
	for k, s := range ix.Exprs {
		if s.Target || s.RefArg || s.Pos == "statement" {
			continue
		}
		lits := WrongLits(s)
		if lits == nil {
			st.ExcludedUnspecified++
			continue
		}
		old := s.Get()
		for _, l := range lits {
			want := s.Rule
			if s.Rule == "type" {
				want = s.Want.String()
			}
			add(&Injection{Class: "wrongtype", Kind: s.Pos, Detail: want + "<-" + l.Ty().String(), Build: func() (*Program, *Program) {
				q, qx := mut()
				var repl Expr = CloneExpr(l)
				if s.Pos == "loop-bound:repeat-count" {
					// a keyword or text at the start of the line would be refused for its capitalisation, not for its type
					repl = &RawLit{Raw: "(" + Src(l) + ")", T: l.Ty()}
				}
				qx.Exprs[k].Set(repl)
				return q, nil
			},
				What: func() string {
					return fmt.Sprintf("%s `%s` (type %s; required: %s) in statement %d of block %s replaced by the %s literal %s", s.Pos, Src(old), old.Ty().String(), want, s.Idx, s.Block.Where(), l.Ty().String(), Src(l))
				}})
		}
	}

	// ---- assignment to / compound assignment of / Referenz-passing of a Konstante
	for k, s := range ix.Exprs {
		if !s.Target && !s.RefArg {
			continue
		}
		v := s.Get().(*Var)
		lit := constLit(v.T)
		if lit == nil {
			st.NotExpressible++
			continue
		}
		build := func(faulty bool) *Program {
			q, qx := mut()
			sq := qx.Exprs[k]
			if faulty {
				sq.Set(&Var{Name: constName, T: v.T})
			}
			sq.Block.Insert(sq.Idx, &VarDecl{Name: constName, T: fake("Konstante", "f"), Init: CloneExpr(lit)})
			return q
		}
		kind := "assignment"
		if s.RefArg {
			kind = "referenz-argument"
		} else if strings.HasPrefix(s.Pos, "target:") {
			kind = "compound-assignment:" + strings.TrimPrefix(s.Pos, "target:")
		}
		if _, direct := rootDirect(ix, k); !direct {
			kind += "-of-element"
		}
		add(&Injection{Class: "constant", Kind: kind, Detail: v.T.String() + "@" + s.Block.Where(), Build: func() (*Program, *Program) { return build(true), build(false) },
			What: func() string {
				return fmt.Sprintf("`Die Konstante %s ist %s.` declared before statement %d of block %s and used instead of variable %s as %s", constName, Src(lit), s.Idx, s.Block.Where(), v.Name, kind)
			}})
	}

	// ---- leaving / continuing a loop outside of any loop
	for bi, b := range ix.Blocks {
		if b.InLoop || (b.Kind == "pre" && len(*b.Stmts) == 0) {
			continue
		}
		n := len(*b.Stmts)
		for pos := 0; pos <= n; pos++ {
			if pos == n && n > 0 {
				if _, isRet := (*b.Stmts)[n-1].(*Return); isRet {
					continue
				}
			}
			after := "block-start"
			if pos > 0 {
				after = "after-" + stmtKind((*b.Stmts)[pos-1])
			}
			for _, which := range []string{"verlasse", "fahre-fort"} {
				add(&Injection{Class: "loopcontrol", Kind: which + ":" + b.Where(), Detail: after, Build: func() (*Program, *Program) {
					q, qx := mut()
					var s Stmt = &Break{}
					if which == "fahre-fort" {
						s = &Continue{}
					}
					qx.Blocks[bi].Insert(pos, s)
					return q, nil
				},
					What: func() string {
						return fmt.Sprintf("`%s` inserted at position %d of block %s, which is not inside any loop", map[string]string{"verlasse": "Verlasse die Schleife.", "fahre-fort": "Fahre mit der Schleife fort."}[which], pos, b.Where())
					}})
			}
		}
	}

	// ---- value-returning function without a final return
	for fi, f := range seed.Funcs {
		if f.Ret.K == KVoid || len(f.Body) == 0 {
			continue
		}
		if _, ok := f.Body[len(f.Body)-1].(*Return); !ok {
			continue
		}
		for _, how := range []string{"final-return-deleted", "final-return-only-in-if-without-else", "final-return-only-in-loop", "statement-after-final-return"} {
			if n := len(f.Body); how == "final-return-deleted" && n >= 2 {
				if _, isTodo := f.Body[n-2].(*Todo); isTodo {
					// the function would end in `...`: whether that counts as "without a final return" is not decided by the property text
					st.ExcludedUnspecified++
					continue
				}
			}
			add(&Injection{Class: "noreturn", Kind: how, Detail: f.Ret.String(), Build: func() (*Program, *Program) {
				q := CloneProgram(seed)
				g := q.Funcs[fi]
				n := len(g.Body)
				ret := g.Body[n-1]
				switch how {
				case "final-return-deleted":
					g.Body = g.Body[:n-1]
					if len(g.Body) == 0 {
						g.Body = []Stmt{neutralStmt()}
					}
				case "final-return-only-in-if-without-else":
					g.Body[n-1] = &If{Cond: boolLit(), Then: []Stmt{ret}}
				case "final-return-only-in-loop":
					g.Body[n-1] = &While{Cond: boolLit(), Body: []Stmt{ret}}
				case "statement-after-final-return":
					g.Body = append(g.Body, neutralStmt())
				}
				return q, nil
			},
				What: func() string { return fmt.Sprintf("function %s (returns %s): %s", f.Name, f.Ret.String(), how) }})
		}
	}

	// ---- a value returned from a function that returns nothing
	for fi, f := range seed.Funcs {
		if f.Ret.K != KVoid {
			continue
		}
		add(&Injection{Class: "wrongtype", Kind: "returned-value", Detail: "nichts<-Zahl", Build: func() (*Program, *Program) {
			q := CloneProgram(seed)
			g := q.Funcs[fi]
			g.Body = append([]Stmt{&Return{X: zahlLit()}}, g.Body...)
			return q, nil
		},
			What: func() string {
				return fmt.Sprintf("`Gib 7 zurück.` inserted at the top of function %s, which returns nothing", f.Name)
			}})
	}

	// ---- wrong article for the grammatical gender
	for k, g := range ix.Genders {
		if g.T == nil || g.T.K == KVoid {
			continue
		}
		right := g.T.G()
		name := genderName(g.T, g.Form)
		for _, wrong := range []string{"m", "f", "n"} {
			if articleWord[g.Form][wrong] == articleWord[g.Form][right] {
				continue
			}
			add(&Injection{Class: "gender", Kind: g.Pos, Detail: name + ":" + articleWord[g.Form][right] + "->" + articleWord[g.Form][wrong], Build: func() (*Program, *Program) {
				q, qx := mut()
				qx.Genders[k].Set(fake(name, wrong))
				return q, nil
			},
				What: func() string {
					return fmt.Sprintf("%s: article `%s` written instead of `%s` for type %s (gender %s)", g.Where, articleWord[g.Form][wrong], articleWord[g.Form][right], name, right)
				}})
		}
	}
	return out
}

// rootDirect tells whether the target slot k is the whole target (a plain variable) or the root of an
// element / field access.
func rootDirect(ix *Index, k int) (*ExprSlot, bool) {
	s := ix.Exprs[k]
	return s, s.Whole
}

func whereOf(d *DeclSite) string {
	if d.Block != nil {
		return d.Block.Where()
	}
	if d.Fn != nil {
		return "parameter list of " + d.Fn.Name
	}
	return "?"
}
