// Package faults: static-fault injection into cdm programs (C04).
//
// A seed program (well-formed by construction) is cloned, indexed (every expression position, every
// block, every declaration) and exactly one fault is injected into the clone. The index is computed
// deterministically, so site k of a clone is site k of the seed.
package faults

import (
	"fmt"

	. "ddpmc/internal/cdm"
)

// ---------------------------------------------------------------- cloning

func CloneExpr(e Expr) Expr {
	switch x := e.(type) {
	case nil:
		return nil
	case *Lit:
		c := *x
		return &c
	case *Var:
		c := *x
		return &c
	case *Un:
		c := *x
		c.X = CloneExpr(x.X)
		return &c
	case *Bin:
		c := *x
		c.L, c.R = CloneExpr(x.L), CloneExpr(x.R)
		return &c
	case *Ter:
		c := *x
		c.A, c.B, c.C = CloneExpr(x.A), CloneExpr(x.B), CloneExpr(x.C)
		return &c
	case *Cast:
		c := *x
		c.X = CloneExpr(x.X)
		return &c
	case *ListLit:
		c := *x
		c.El = make([]Expr, len(x.El))
		for i, el := range x.El {
			c.El[i] = CloneExpr(el)
		}
		return &c
	case *ListN:
		c := *x
		c.N, c.V = CloneExpr(x.N), CloneExpr(x.V)
		return &c
	case *Call:
		c := *x // F is shared on purpose (recursion); only its name and parameters are read
		c.Args = make([]Expr, len(x.Args))
		for i, a := range x.Args {
			c.Args[i] = CloneExpr(a)
		}
		return &c
	case *FieldOf:
		c := *x
		c.X = CloneExpr(x.X)
		return &c
	case *StructLit:
		c := *x
		c.Args = make([]Expr, len(x.Args))
		for i, a := range x.Args {
			c.Args[i] = CloneExpr(a)
		}
		return &c
	case *TypeCheck:
		c := *x
		c.X = CloneExpr(x.X)
		return &c
	case *DefaultOf:
		c := *x
		return &c
	case *RawLit:
		c := *x
		return &c
	case *Arg:
		c := *x
		return &c
	}
	panic(fmt.Sprintf("faults.CloneExpr: unhandled %T", e))
}

func CloneStmts(ss []Stmt) []Stmt {
	if ss == nil {
		return nil
	}
	out := make([]Stmt, len(ss))
	for i, s := range ss {
		out[i] = CloneStmt(s)
	}
	return out
}

func CloneStmt(s Stmt) Stmt {
	switch x := s.(type) {
	case *VarDecl:
		c := *x
		c.Init = CloneExpr(x.Init)
		return &c
	case *Assign:
		return &Assign{Target: CloneExpr(x.Target), Val: CloneExpr(x.Val)}
	case *Compound:
		return &Compound{Op: x.Op, Target: CloneExpr(x.Target), Val: CloneExpr(x.Val)}
	case *If:
		return &If{Cond: CloneExpr(x.Cond), Then: CloneStmts(x.Then), Else: CloneStmts(x.Else)}
	case *While:
		return &While{Cond: CloneExpr(x.Cond), Body: CloneStmts(x.Body)}
	case *DoWhile:
		return &DoWhile{Cond: CloneExpr(x.Cond), Body: CloneStmts(x.Body)}
	case *Repeat:
		return &Repeat{N: CloneExpr(x.N), Body: CloneStmts(x.Body)}
	case *For:
		c := *x
		c.From, c.To, c.Step, c.Body = CloneExpr(x.From), CloneExpr(x.To), CloneExpr(x.Step), CloneStmts(x.Body)
		return &c
	case *ForEach:
		c := *x
		c.In, c.Body = CloneExpr(x.In), CloneStmts(x.Body)
		return &c
	case *Break:
		return &Break{}
	case *Continue:
		return &Continue{}
	case *Return:
		return &Return{X: CloneExpr(x.X)}
	case *ExprStmt:
		return &ExprStmt{X: CloneExpr(x.X)}
	case *Print:
		return &Print{X: CloneExpr(x.X)}
	case *Todo:
		return &Todo{}
	}
	panic(fmt.Sprintf("faults.CloneStmt: unhandled %T", s))
}

// CloneProgram copies everything an injector may modify: statements, expressions, function headers and
// bodies, the struct and alias declarations. Types referenced from expressions stay shared.
func CloneProgram(p *Program) *Program {
	q := &Program{Args: p.Args, UsesArgs: p.UsesArgs}
	for _, a := range p.Aliases {
		c := *a
		q.Aliases = append(q.Aliases, &c)
	}
	for _, s := range p.Structs {
		c := *s
		c.Fields = append([]Field{}, s.Fields...)
		q.Structs = append(q.Structs, &c)
	}
	q.Pre = CloneStmts(p.Pre)
	for _, f := range p.Funcs {
		c := *f
		c.Params = append([]Param{}, f.Params...)
		c.Body = CloneStmts(f.Body)
		q.Funcs = append(q.Funcs, &c)
	}
	q.Main = CloneStmts(p.Main)
	return q
}

// ---------------------------------------------------------------- index

// Block is one statement list of the program together with its lexical context.
type Block struct {
	Stmts    *[]Stmt
	Kind     string // pre main func then else while dowhile repeat for foreach
	Depth    int    // 0 = top level, function bodies are 1
	InLoop   bool   // lexically inside a loop body (of the same function)
	Fn       *Func  // enclosing function, nil at top level
	Owner    *Block // block that holds the owning statement (nil for pre/main/func)
	OwnerIdx int
	ID       int
}

func (b *Block) Where() string { return fmt.Sprintf("%s@%d", b.Kind, b.Depth) }

func (b *Block) Insert(i int, s Stmt) {
	ss := *b.Stmts
	out := make([]Stmt, 0, len(ss)+1)
	out = append(out, ss[:i]...)
	out = append(out, s)
	out = append(out, ss[i:]...)
	*b.Stmts = out
}

// ExprSlot is one expression position.
type ExprSlot struct {
	Get func() Expr
	Set func(Expr)
	// Pos: site kind, e.g. "operand:plus.L", "argument", "initialiser", "assigned-value", "condition:if",
	// "loop-bound:for-to", "step:for", "returned-value", "target" (assignment target root), "ref-argument"
	Pos string
	// Rule decides which literals are of a wrong type here (see WrongLits): "num" "bool" "int" "seq" "struct",
	// "type" (Want is the required type), "" = not determined by the property text (excluded)
	Rule   string
	Want   *Type
	Target bool // root variable of an assignment / compound-assignment target
	Whole  bool // Target/RefArg: the variable is the whole target (not the root of an element or field access)
	RefArg bool // root variable of an argument bound to a Referenz parameter
	Block  *Block
	Idx    int // index of the enclosing statement in Block
	StmtK  string
}

// DeclSite is one declared variable name.
type DeclSite struct {
	Name  string
	T     *Type
	Kind  string // var loopvar loopindex param
	Block *Block // block holding the declaration statement / the loop statement (nil for param)
	Idx   int
	Body  *Block // loopvar/loopindex/param: the block in which the name lives
	Fn    *Func
}

// GenderSite is one article position.
type GenderSite struct {
	Pos   string // vardecl for-pronoun return-type typecheck standardwert field
	T     *Type  // the (correct) type
	Form  string // Decl Each Akk Nom Dat DatIndef
	Set   func(*Type)
	Where string
}

type Index struct {
	P       *Program
	Blocks  []*Block
	Exprs   []*ExprSlot
	Decls   []*DeclSite
	Genders []*GenderSite
	names   map[string]int
}

// Unique tells whether name is declared exactly once in the whole program (then it is visible only in its own scope).
func (ix *Index) Unique(name string) bool { return ix.names[name] == 1 }

type walker struct {
	ix  *Index
	blk *Block
	idx int
	sk  string
}

func stmtKind(s Stmt) string {
	switch s.(type) {
	case *VarDecl:
		return "decl"
	case *Assign:
		return "assign"
	case *Compound:
		return "compound"
	case *If:
		return "if"
	case *While:
		return "while"
	case *DoWhile:
		return "dowhile"
	case *Repeat:
		return "repeat"
	case *For:
		return "for"
	case *ForEach:
		return "foreach"
	case *Return:
		return "return"
	case *ExprStmt:
		return "call"
	case *Print:
		return "print"
	case *Break:
		return "break"
	case *Continue:
		return "continue"
	case *Todo:
		return "todo"
	}
	return "?"
}

func Walk(p *Program) *Index {
	ix := &Index{P: p, names: map[string]int{}}
	w := &walker{ix: ix}
	for si, st := range p.Structs {
		for fi := range st.Fields {
			st, fi := st, fi
			ix.Genders = append(ix.Genders, &GenderSite{Pos: "field", T: st.Fields[fi].T, Form: "Dat", Where: fmt.Sprintf("field %s of Kombination %s", st.Fields[fi].Name, st.Name),
				Set: func(t *Type) { p.Structs[si].Fields[fi].T = t }})
		}
	}
	w.block(&Block{Stmts: &p.Pre, Kind: "pre"})
	for _, f := range p.Funcs {
		f := f
		if f.Ret.K != KVoid {
			ix.Genders = append(ix.Genders, &GenderSite{Pos: "return-type", T: f.Ret, Form: "Akk", Where: "return type of " + f.Name, Set: func(t *Type) { f.Ret = t }})
		}
		b := &Block{Stmts: &f.Body, Kind: "func", Depth: 1, Fn: f}
		for _, pa := range f.Params {
			ix.names[pa.Name]++
			ix.Decls = append(ix.Decls, &DeclSite{Name: pa.Name, T: pa.T, Kind: "param", Body: b, Fn: f})
		}
		w.block(b)
	}
	w.block(&Block{Stmts: &p.Main, Kind: "main"})
	return ix
}

func (w *walker) block(b *Block) {
	b.ID = len(w.ix.Blocks)
	w.ix.Blocks = append(w.ix.Blocks, b)
	for i := range *b.Stmts {
		w.blk, w.idx = b, i
		w.stmt(b, i)
	}
}

func (w *walker) sub(parent *Block, idx int, ss *[]Stmt, kind string, loop bool) *Block {
	b := &Block{Stmts: ss, Kind: kind, Depth: parent.Depth + 1, InLoop: parent.InLoop || loop, Fn: parent.Fn, Owner: parent, OwnerIdx: idx}
	sb, si, sk := w.blk, w.idx, w.sk
	w.block(b)
	w.blk, w.idx, w.sk = sb, si, sk
	return b
}

func (w *walker) slot(get func() Expr, set func(Expr), pos, rule string, want *Type) *ExprSlot {
	s := &ExprSlot{Get: get, Set: set, Pos: pos, Rule: rule, Want: want, Block: w.blk, Idx: w.idx, StmtK: w.sk}
	w.ix.Exprs = append(w.ix.Exprs, s)
	return s
}

func (w *walker) stmt(b *Block, i int) {
	s := (*b.Stmts)[i]
	w.sk = stmtKind(s)
	ix := w.ix
	switch x := s.(type) {
	case *VarDecl:
		ix.names[x.Name]++
		ix.Decls = append(ix.Decls, &DeclSite{Name: x.Name, T: x.T, Kind: "var", Block: b, Idx: i, Fn: b.Fn})
		ix.Genders = append(ix.Genders, &GenderSite{Pos: "vardecl", T: x.T, Form: "Decl", Where: "declaration of " + x.Name + " in " + b.Where(), Set: func(t *Type) { x.T = t }})
		w.expr(func() Expr { return x.Init }, func(e Expr) { x.Init = e }, "initialiser", "type", x.T)
	case *Assign:
		w.lvalue(func() Expr { return x.Target }, func(e Expr) { x.Target = e }, "target", false)
		w.expr(func() Expr { return x.Val }, func(e Expr) { x.Val = e }, "assigned-value", "type", x.Target.Ty())
	case *Compound:
		w.lvalue(func() Expr { return x.Target }, func(e Expr) { x.Target = e }, "target:"+x.Op, false)
		if x.Val != nil {
			rule := "num"
			if x.Op == "shl" || x.Op == "shr" {
				rule = "int"
			}
			w.expr(func() Expr { return x.Val }, func(e Expr) { x.Val = e }, "operand:"+x.Op, rule, nil)
		}
	case *If:
		w.expr(func() Expr { return x.Cond }, func(e Expr) { x.Cond = e }, "condition:if", "bool", nil)
		w.sub(b, i, &x.Then, "then", false)
		if x.Else != nil {
			w.sub(b, i, &x.Else, "else", false)
		}
	case *While:
		w.expr(func() Expr { return x.Cond }, func(e Expr) { x.Cond = e }, "condition:while", "bool", nil)
		w.sub(b, i, &x.Body, "while", true)
	case *DoWhile:
		w.sub(b, i, &x.Body, "dowhile", true)
		w.expr(func() Expr { return x.Cond }, func(e Expr) { x.Cond = e }, "condition:dowhile", "bool", nil)
	case *Repeat:
		w.sub(b, i, &x.Body, "repeat", true)
		w.expr(func() Expr { return x.N }, func(e Expr) { x.N = e }, "loop-bound:repeat-count", "int", nil)
	case *For:
		ix.Genders = append(ix.Genders, &GenderSite{Pos: "for-pronoun", T: x.T, Form: "Each", Where: "counting loop over " + x.Var + " in " + b.Where(), Set: func(t *Type) { x.T = t }})
		w.expr(func() Expr { return x.From }, func(e Expr) { x.From = e }, "loop-bound:for-from", "num", nil)
		w.expr(func() Expr { return x.To }, func(e Expr) { x.To = e }, "loop-bound:for-to", "num", nil)
		if x.Step != nil {
			w.expr(func() Expr { return x.Step }, func(e Expr) { x.Step = e }, "step:for", "num", nil)
		}
		body := w.sub(b, i, &x.Body, "for", true)
		ix.names[x.Var]++
		ix.Decls = append(ix.Decls, &DeclSite{Name: x.Var, T: x.T, Kind: "loopvar", Block: b, Idx: i, Body: body, Fn: b.Fn})
	case *ForEach:
		ix.Genders = append(ix.Genders, &GenderSite{Pos: "for-pronoun", T: x.T, Form: "Each", Where: "iterating loop over " + x.Var + " in " + b.Where(), Set: func(t *Type) { x.T = t }})
		w.expr(func() Expr { return x.In }, func(e Expr) { x.In = e }, "loop-bound:foreach-in", "seq", nil)
		body := w.sub(b, i, &x.Body, "foreach", true)
		ix.names[x.Var]++
		ix.Decls = append(ix.Decls, &DeclSite{Name: x.Var, T: x.T, Kind: "loopvar", Block: b, Idx: i, Body: body, Fn: b.Fn})
		if x.Idx != "" {
			ix.names[x.Idx]++
			ix.Decls = append(ix.Decls, &DeclSite{Name: x.Idx, T: Zahl, Kind: "loopindex", Block: b, Idx: i, Body: body, Fn: b.Fn})
		}
	case *Return:
		if x.X != nil {
			var want *Type
			if b.Fn != nil {
				want = b.Fn.Ret
			}
			w.expr(func() Expr { return x.X }, func(e Expr) { x.X = e }, "returned-value", "type", want)
		}
	case *ExprStmt:
		w.expr(func() Expr { return x.X }, func(e Expr) { x.X = e }, "statement", "", nil)
	case *Print:
		w.expr(func() Expr { return x.X }, func(e Expr) { x.X = e }, "argument:print", "", nil)
	case *Break, *Continue, *Todo:
	default:
		panic(fmt.Sprintf("faults.Walk: unhandled %T", s))
	}
}

// lvalue indexes an assignment target / Referenz argument: the root variable gets a slot marked Target/RefArg,
// index expressions inside it are ordinary operand positions.
func (w *walker) lvalue(get func() Expr, set func(Expr), pos string, ref bool) {
	w.lvalue2(get, set, pos, ref, true)
}

func (w *walker) lvalue2(get func() Expr, set func(Expr), pos string, ref, whole bool) {
	switch x := get().(type) {
	case *Var:
		s := w.slot(get, set, pos, "", nil)
		s.Target, s.RefArg, s.Whole = !ref, ref, whole
	case *Bin:
		if x.Op != "index" {
			w.expr(get, set, pos, "", nil)
			return
		}
		w.lvalue2(func() Expr { return x.L }, func(e Expr) { x.L = e }, pos, ref, false)
		w.expr(func() Expr { return x.R }, func(e Expr) { x.R = e }, "operand:index.R", "int", nil)
	case *FieldOf:
		w.lvalue2(func() Expr { return x.X }, func(e Expr) { x.X = e }, pos, ref, false)
	default:
		w.expr(get, set, pos, "", nil)
	}
}

// crossOK: may the two types be compared by cross-category replacement (neither side is a Variable)
func hasAny(t *Type) bool {
	for t != nil && t.K == KList {
		t = t.Elem
	}
	return t == nil || t.K == KAny
}

func (w *walker) expr(get func() Expr, set func(Expr), pos, rule string, want *Type) {
	w.slot(get, set, pos, rule, want)
	sub := func(g func() Expr, s func(Expr), p, r string, wt *Type) { w.expr(g, s, p, r, wt) }
	switch x := get().(type) {
	case *Lit, *Var, *DefaultOf, *RawLit, *Arg:
		if d, ok := x.(*DefaultOf); ok {
			w.ix.Genders = append(w.ix.Genders, &GenderSite{Pos: "standardwert", T: d.T, Form: "DatIndef", Where: "Standardwert expression in " + w.blk.Where(), Set: func(t *Type) { d.T = t }})
		}
	case *Un:
		r := map[string]string{"betrag": "num", "neg": "num", "nicht": "bool", "lognicht": "int", "laenge": "seq"}[x.Op]
		sub(func() Expr { return x.X }, func(e Expr) { x.X = e }, "operand:"+x.Op, r, nil)
	case *Bin:
		var rl, rr string
		var wl, wr *Type
		switch x.Op {
		case "plus", "minus", "mal", "durch", "hoch", "log", "wurzel", "modulo", "kleiner", "kleinergleich", "groesser", "groessergleich":
			rl, rr = "num", "num"
		case "und", "oder", "xor":
			rl, rr = "bool", "bool"
		case "logund", "logoder", "logxor", "shl", "shr":
			rl, rr = "int", "int"
		case "gleich", "ungleich":
			if !hasAny(x.L.Ty()) && !hasAny(x.R.Ty()) {
				rl, rr, wl, wr = "type", "type", x.R.Ty(), x.L.Ty()
			}
		case "index", "ab", "bis":
			rl, rr = "seq", "int"
		case "verkettet":
			// several operand type combinations are admissible; the property text does not fix them
		}
		sub(func() Expr { return x.L }, func(e Expr) { x.L = e }, "operand:"+x.Op+".L", rl, wl)
		sub(func() Expr { return x.R }, func(e Expr) { x.R = e }, "operand:"+x.Op+".R", rr, wr)
	case *Ter:
		var ra, rb, rc string
		var wa, wc *Type
		switch x.Op {
		case "slice":
			ra, rb, rc = "seq", "int", "int"
		case "zwischen":
			ra, rb, rc = "num", "num", "num"
		case "falls":
			rb = "bool"
			if !hasAny(x.A.Ty()) && !hasAny(x.C.Ty()) {
				ra, rc, wa, wc = "type", "type", x.C.Ty(), x.A.Ty()
			}
		}
		sub(func() Expr { return x.A }, func(e Expr) { x.A = e }, "operand:"+x.Op+".A", ra, wa)
		sub(func() Expr { return x.B }, func(e Expr) { x.B = e }, "operand:"+x.Op+".B", rb, nil)
		sub(func() Expr { return x.C }, func(e Expr) { x.C = e }, "operand:"+x.Op+".C", rc, wc)
	case *Cast:
		sub(func() Expr { return x.X }, func(e Expr) { x.X = e }, "operand:als", "", nil)
	case *ListLit:
		for i := range x.El {
			i := i
			r, wt := "", (*Type)(nil)
			if len(x.El) >= 2 && !hasAny(x.T.Elem) {
				r, wt = "type", x.T.Elem
			}
			sub(func() Expr { return x.El[i] }, func(e Expr) { x.El[i] = e }, "operand:list-element", r, wt)
		}
	case *ListN:
		sub(func() Expr { return x.N }, func(e Expr) { x.N = e }, "operand:mal.count", "int", nil)
		sub(func() Expr { return x.V }, func(e Expr) { x.V = e }, "operand:mal.value", "", nil)
	case *Call:
		for i := range x.Args {
			i := i
			if i < len(x.F.Params) && x.F.Params[i].Ref {
				w.lvalue(func() Expr { return x.Args[i] }, func(e Expr) { x.Args[i] = e }, "ref-argument", true)
				continue
			}
			r, wt := "", (*Type)(nil)
			if i < len(x.F.Params) {
				r, wt = "type", x.F.Params[i].T
			}
			sub(func() Expr { return x.Args[i] }, func(e Expr) { x.Args[i] = e }, "argument", r, wt)
		}
	case *StructLit:
		for i := range x.Args {
			i := i
			r, wt := "", (*Type)(nil)
			if i < len(x.T.Fields) {
				r, wt = "type", x.T.Fields[i].T
			}
			sub(func() Expr { return x.Args[i] }, func(e Expr) { x.Args[i] = e }, "argument:constructor", r, wt)
		}
	case *FieldOf:
		sub(func() Expr { return x.X }, func(e Expr) { x.X = e }, "operand:von", "struct", nil)
	case *TypeCheck:
		w.ix.Genders = append(w.ix.Genders, &GenderSite{Pos: "typecheck", T: x.Chk, Form: "Nom", Where: "type test in " + w.blk.Where(), Set: func(t *Type) { x.Chk = t }})
		sub(func() Expr { return x.X }, func(e Expr) { x.X = e }, "operand:typecheck", "", nil)
	default:
		panic(fmt.Sprintf("faults.Walk: unhandled expression %T", x))
	}
}
