// Package fe: the implementation's frontend and code generator behind a worker protocol.
// Worker side: Handle() calls parser.Parse / compiler.Compile of /repo exactly as cmd/kddp does.
// Driver side: request/response types.
package fe

import (
	"bytes"
	"fmt"
	"io"
	"math"
	"os"
	"path/filepath"
	"regexp"
	"runtime/debug"
	"sort"
	"strings"

	"github.com/DDP-Projekt/Kompilierer/src/ast"
	"github.com/DDP-Projekt/Kompilierer/src/compiler"
	"github.com/DDP-Projekt/Kompilierer/src/ddperror"
	"github.com/DDP-Projekt/Kompilierer/src/parser"
)

type Diag struct {
	Code  int    `json:"c"`
	Level int    `json:"l"` // 1 warn, 2 error
	File  string `json:"f"`
	L1    uint   `json:"l1"`
	C1    uint   `json:"c1"`
	L2    uint   `json:"l2"`
	C2    uint   `json:"c2"`
	Msg   string `json:"m"`
}

func (d Diag) String() string {
	return fmt.Sprintf("%s(%04d) %s %d:%d-%d:%d %s", map[int]string{1: "W", 2: "E"}[d.Level], d.Code, filepath.Base(d.File), d.L1, d.C1, d.L2, d.C2, d.Msg)
}

type Req struct {
	Op string `json:"op"` // "parse" | "compile"
	// File is the main file (absolute path). Source overrides its content if non-nil.
	File   string `json:"file"`
	Source []byte `json:"src,omitempty"`
	HasSrc bool   `json:"hassrc,omitempty"`
	// compile only
	Out          string `json:"out,omitempty"`  // output file (.o or .ll by Kind)
	Kind         string `json:"kind,omitempty"` // "obj" | "ir"
	Opt          uint   `json:"opt,omitempty"`
	LinkModules  bool   `json:"lm,omitempty"`
	LinkListDefs bool   `json:"ll,omitempty"`
	// CheckRender: feed every diagnostic of the main file to ddperror.MakeAdvancedHandler (C07)
	CheckRender bool `json:"render,omitempty"`
	WantMods    bool `json:"wantmods,omitempty"`
}

type Resp struct {
	Err        string   `json:"err,omitempty"` // error returned by Parse/Compile ("" = nil)
	Faulty     bool     `json:"faulty"`        // module.Ast.Faulty (parse only; false if no module)
	HasModule  bool     `json:"hasmod"`
	Diags      []Diag   `json:"diags,omitempty"`
	Panic      string   `json:"panic,omitempty"` // a panic escaped Parse/Compile
	PanicSite  string   `json:"site,omitempty"`  // top-most frame inside the repository
	Stack      string   `json:"stack,omitempty"`
	Deps       []string `json:"deps,omitempty"`
	RenderErr  string   `json:"render,omitempty"`
	Internal   bool     `json:"internal,omitempty"`   // compile: error is a CompilerError (="Unerwarteter Fehler")
	Lits       []LitV   `json:"lits,omitempty"`       // op "lits": literal nodes of the main module in visiting order
	FaultyMods []string `json:"faultymods,omitempty"` // op "parse": modules of the import closure (other than the main module) whose Ast.Faulty is set
	Mods       []string `json:"mods,omitempty"`       // op "parse" with WantMods: file names of all modules of the import closure
}

// LitV is the value the parser assigned to one literal node.
type LitV struct {
	Kind string `json:"k"` // int float bool char string
	Src  string `json:"s"` // token literal
	I    int64  `json:"i,omitempty"`
	F    uint64 `json:"f,omitempty"` // math.Float64bits
	B    bool   `json:"b,omitempty"`
	R    []rune `json:"r,omitempty"`
}

type litCollector struct{ out *[]LitV }

func (litCollector) Visitor() {}
func (c litCollector) VisitIntLit(e *ast.IntLit) ast.VisitResult {
	*c.out = append(*c.out, LitV{Kind: "int", Src: e.Literal.Literal, I: e.Value})
	return ast.VisitRecurse
}
func (c litCollector) VisitFloatLit(e *ast.FloatLit) ast.VisitResult {
	*c.out = append(*c.out, LitV{Kind: "float", Src: e.Literal.Literal, F: math.Float64bits(e.Value)})
	return ast.VisitRecurse
}
func (c litCollector) VisitBoolLit(e *ast.BoolLit) ast.VisitResult {
	*c.out = append(*c.out, LitV{Kind: "bool", Src: e.Literal.Literal, B: e.Value})
	return ast.VisitRecurse
}
func (c litCollector) VisitCharLit(e *ast.CharLit) ast.VisitResult {
	*c.out = append(*c.out, LitV{Kind: "char", Src: e.Literal.Literal, R: []rune{e.Value}})
	return ast.VisitRecurse
}
func (c litCollector) VisitStringLit(e *ast.StringLit) ast.VisitResult {
	*c.out = append(*c.out, LitV{Kind: "string", Src: e.Literal.Literal, R: []rune(e.Value)})
	return ast.VisitRecurse
}

func (r *Resp) NErrors() int {
	n := 0
	for _, d := range r.Diags {
		if d.Level == 2 {
			n++
		}
	}
	return n
}

var frameRe = regexp.MustCompile(`(?m)^(github\.com/DDP-Projekt/Kompilierer/\S+?)\(.*\n\s+(\S+?/Kompilierer/|/repo/)?(\S+\.go):(\d+)`)

// Site extracts the top-most repository frame "pkg.func" from a Go stack trace, skipping the
// panic wrappers themselves.
func Site(stack string) string {
	for _, m := range frameRe.FindAllStringSubmatch(stack, -1) {
		fn := m[1]
		if strings.Contains(fn, "panic_wrapper") || strings.Contains(fn, "panicWrapper") {
			continue
		}
		fn = strings.TrimPrefix(fn, "github.com/DDP-Projekt/Kompilierer/")
		return fn
	}
	return "unknown"
}

func Handle(q *Req) (r Resp) {
	var diags []Diag
	collect := func(e ddperror.Error) {
		if len(diags) < 2000 {
			diags = append(diags, Diag{int(e.Code), int(e.Level), e.File, e.Range.Start.Line, e.Range.Start.Column, e.Range.End.Line, e.Range.End.Column, e.Msg})
		}
	}
	src := q.Source
	if !q.HasSrc {
		src = nil
	} else if src == nil {
		src = []byte{} // omitempty dropped an empty source
	}
	handler := ddperror.Handler(collect)
	if q.CheckRender {
		text := src
		if text == nil {
			text, _ = os.ReadFile(q.File)
		}
		render := ddperror.MakeAdvancedHandler(q.File, text, io.Discard)
		handler = func(e ddperror.Error) {
			collect(e)
			func() {
				defer func() {
					if p := recover(); p != nil && r.RenderErr == "" {
						r.RenderErr = fmt.Sprintf("renderer panicked on %v: %v", e.Range, p)
					}
				}()
				render(e)
			}()
		}
	}
	defer func() {
		if p := recover(); p != nil {
			st := string(debug.Stack())
			r.Panic = fmt.Sprint(p)
			if ce, ok := p.(*compiler.CompilerError); ok {
				r.Panic = ce.Msg
				st = string(ce.StackTrace)
				r.Internal = true
			}
			if pe, ok := p.(*parser.ParserError); ok {
				r.Panic = pe.Msg
				st = string(pe.StackTrace)
			}
			if len(r.Panic) > 2000 {
				r.Panic = r.Panic[:2000]
			}
			r.PanicSite = Site(st)
			if len(st) > 6000 {
				st = st[:6000]
			}
			r.Stack = st
		}
		r.Diags = diags
	}()
	switch q.Op {
	case "parse", "lits":
		if src == nil {
			var err error
			src, err = os.ReadFile(q.File)
			if err != nil {
				r.Err = "read: " + err.Error()
				return
			}
		}
		mods := map[string]*ast.Module{}
		mod, err := parser.Parse(parser.Options{FileName: q.File, Source: src, ErrorHandler: handler, Modules: mods})
		if q.WantMods {
			for name := range mods {
				r.Mods = append(r.Mods, name)
			}
			sort.Strings(r.Mods)
		}
		for name, m := range mods {
			if m != nil && m != mod && m.Ast != nil && m.Ast.Faulty {
				r.FaultyMods = append(r.FaultyMods, name)
			}
		}
		sort.Strings(r.FaultyMods)
		if err != nil {
			r.Err = err.Error()
			if r.Err == "" {
				r.Err = "error"
			}
			if pe, ok := err.(*parser.ParserError); ok {
				r.Internal = true
				r.PanicSite = Site(string(pe.StackTrace))
			}
		}
		if mod != nil && mod.Ast != nil {
			r.HasModule = true
			r.Faulty = mod.Ast.Faulty
			if q.Op == "lits" {
				ast.VisitModule(mod, litCollector{&r.Lits})
			}
		}
	case "compile":
		if src == nil {
			var err error
			src, err = os.ReadFile(q.File)
			if err != nil {
				r.Err = "read: " + err.Error()
				return
			}
		}
		var buf bytes.Buffer
		kind := compiler.OutputObj
		compiler.Comments_Enabled = false
		if q.Kind == "ir" {
			kind = compiler.OutputIR
			compiler.Comments_Enabled = true
		}
		res, err := compiler.Compile(compiler.Options{FileName: q.File, Source: src, To: &buf, OutputType: kind, ErrorHandler: handler,
			DeleteIntermediateFiles: true, LinkInModules: q.LinkModules, LinkInListDefs: q.LinkListDefs, OptimizationLevel: q.Opt})
		if err != nil {
			r.Err = err.Error()
			if len(r.Err) > 4000 {
				r.Err = r.Err[:4000]
			}
			if _, ok := err.(*compiler.CompilerError); ok {
				r.Internal = true
			}
			return
		}
		if res != nil {
			for d := range res.Dependencies {
				r.Deps = append(r.Deps, d)
			}
			sort.Strings(r.Deps)
		}
		if q.Out != "" {
			if err := os.WriteFile(q.Out, buf.Bytes(), 0o644); err != nil {
				r.Err = "write: " + err.Error()
			}
		}
	default:
		r.Err = "bad op"
	}
	return
}
