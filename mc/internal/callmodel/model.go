// Package aliasmodel is the reference model of property C09, written from the property text:
//
//	At every call site the invoked function or constructor is the one whose declared alias pattern
//	matches the tokens at that position with the greatest length among those whose parameter types
//	equal the argument types; on equal length a non-generic declaration is preferred over a generic
//	one and, among those, the one with more Referenz parameters; arguments are bound to parameters by
//	the placeholder names in the alias, not by their order. User-defined operator overloads are
//	selected by the same exact-type rule, the built-in meaning applies otherwise, and the negated
//	form of an alias yields the logical negation of the call.
//
// It knows nothing about tries, sorting or caches. A call site is a sequence of units; a unit is a
// word, or one argument (a single token, a negative literal, a parenthesised group). The result is
// the SET of admissible (alias, binding) pairs: where the text leaves candidates unordered every
// one of them is admissible.
package callmodel

import (
	"sort"
	"strings"
)

// Param is one parameter of a declaration (function parameter or struct field used by an alias).
type Param struct {
	Name    string
	Type    string // concrete type name, or the name of the type parameter if Generic
	Generic bool
	Ref     bool
	List    bool // the parameter is a list of Type ("T Liste", "Kom Liste"); used by operator overloads only
}

// Tok is one element of an alias pattern: a word or a placeholder <Param>.
type Tok struct {
	Word  string
	Param string
}

// Decl is a function or a struct (Kombination) with its alias patterns.
type Decl struct {
	Name     string
	Struct   bool
	Imported bool
	Params   []Param // declaration order (function parameters / struct fields)
	Aliases  []*Alias
}

func (d *Decl) Param(name string) (Param, bool) {
	for _, p := range d.Params {
		if p.Name == name {
			return p, true
		}
	}
	return Param{}, false
}

// IsGeneric: the declaration has at least one parameter of a type-parameter type.
func (d *Decl) IsGeneric() bool {
	for _, p := range d.Params {
		if p.Generic {
			return true
		}
	}
	return false
}

// Alias is one way of calling Decl. Negated: the alias is the negated form (result is "nicht call").
type Alias struct {
	Decl    *Decl
	Pattern []Tok
	Negated bool
}

func (a *Alias) String() string {
	var sb strings.Builder
	for i, t := range a.Pattern {
		if i > 0 {
			sb.WriteByte(' ')
		}
		if t.Param != "" {
			sb.WriteString("<" + t.Param + ">")
		} else {
			sb.WriteString(t.Word)
		}
	}
	return sb.String()
}

// refs counts the Referenz parameters among the placeholders of the alias.
func (a *Alias) refs() int {
	n := 0
	for _, t := range a.Pattern {
		if t.Param != "" {
			if p, ok := a.Decl.Param(t.Param); ok && p.Ref {
				n++
			}
		}
	}
	return n
}

// Key identifies the alias the way "the same alias declared twice" is meant (C20): the word
// sequence with every placeholder replaced by its parameter type. Two aliases with equal keys
// cannot coexist; such populations are outside C09.
func (a *Alias) Key() string {
	var sb strings.Builder
	for i, t := range a.Pattern {
		if i > 0 {
			sb.WriteByte(' ')
		}
		if t.Param != "" {
			p, _ := a.Decl.Param(t.Param)
			sb.WriteString("<" + p.Type)
			if p.Generic {
				sb.WriteString("?")
			}
			if p.Ref {
				sb.WriteString("&")
			}
			sb.WriteString(">")
		} else {
			sb.WriteString(t.Word)
		}
	}
	return sb.String()
}

// Unit is one element of a call-site token sequence.
type Unit struct {
	Text       string // source text, also the canonical rendering of the argument
	Word       bool   // may match a word of a pattern (identifiers and keywords)
	Arg        bool   // may stand for a placeholder (single token / negative literal / parenthesised group)
	Type       string // type of the argument expression; "" = the expression has no type (undeclared name)
	Assignable bool   // may be passed to a Referenz parameter
}

// Candidate is one admissible resolution: the alias and, for every placeholder name, the index
// of the unit bound to it.
type Candidate struct {
	Alias   *Alias
	Binding map[string]int
}

type Verdict struct {
	// Matching: aliases whose pattern matches a prefix of the units (types ignored).
	Matching []*Alias
	// TypeOK: the subset of Matching whose parameter types equal the argument types.
	TypeOK []Candidate
	// Admissible: the best-ranked members of TypeOK.
	Admissible []Candidate
	// Unspecified is non-empty when the property text does not determine the outcome: an argument
	// is an undeclared name (it has no type) and the result depends on whether "no type" may stand
	// for a type parameter. Such call sites are excluded.
	Unspecified string
}

// match reports whether the pattern of a matches a prefix of units, and the binding.
func match(a *Alias, units []Unit) (map[string]int, bool) {
	if len(a.Pattern) > len(units) {
		return nil, false
	}
	b := map[string]int{}
	for i, t := range a.Pattern {
		u := units[i]
		if t.Param != "" {
			if !u.Arg {
				return nil, false
			}
			b[t.Param] = i
		} else if !u.Word || u.Text != t.Word {
			return nil, false
		}
	}
	return b, true
}

// typesEqual: every bound argument has exactly the parameter's type; all occurrences of a type
// parameter stand for one type; Referenz parameters need an assignable argument.
func typesEqual(a *Alias, units []Unit, b map[string]int, untypedIsAType bool) bool {
	generic := map[string]string{}
	for _, t := range a.Pattern {
		if t.Param == "" {
			continue
		}
		p, ok := a.Decl.Param(t.Param)
		if !ok {
			return false
		}
		u := units[b[t.Param]]
		if u.Type == "" {
			if !untypedIsAType || !p.Generic {
				return false
			}
			u.Type, u.Assignable = "<no type>", true // a bare name is syntactically assignable
		}
		if p.Ref && !u.Assignable {
			return false
		}
		if p.Generic {
			if g, seen := generic[p.Type]; seen {
				if g != u.Type {
					return false
				}
			} else {
				generic[p.Type] = u.Type
			}
		} else if p.Type != u.Type {
			return false
		}
	}
	return true
}

// generics counts the parameters of a type-parameter type among the placeholders of the alias.
func (a *Alias) generics() int {
	n := 0
	for _, t := range a.Pattern {
		if t.Param != "" {
			if p, ok := a.Decl.Param(t.Param); ok && p.Generic {
				n++
			}
		}
	}
	return n
}

// better reports whether x is strictly preferred over y by the property text.
// byCount: "non-generic before generic" is read as "fewer generic parameters first" (the reading of
// the implementation's comments); otherwise only generic / non-generic is distinguished.
func better(x, y *Alias, byCount bool) bool {
	if len(x.Pattern) != len(y.Pattern) {
		return len(x.Pattern) > len(y.Pattern)
	}
	if byCount {
		if gx, gy := x.generics(), y.generics(); gx != gy {
			return gx < gy
		}
	} else if gx, gy := x.Decl.IsGeneric(), y.Decl.IsGeneric(); gx != gy {
		return !gx
	}
	return x.refs() > y.refs()
}

func best(cs []Candidate, byCount bool) []Candidate {
	var out []Candidate
	for _, c := range cs {
		top := true
		for _, d := range cs {
			if better(d.Alias, c.Alias, byCount) {
				top = false
				break
			}
		}
		if top {
			out = append(out, c)
		}
	}
	return out
}

// Resolve applies the rule to the aliases in scope at a call position.
func Resolve(aliases []*Alias, units []Unit) Verdict {
	v := resolve(aliases, units, false)
	w := resolve(aliases, units, true)
	same := len(v.Admissible) == len(w.Admissible)
	for i := 0; same && i < len(v.Admissible); i++ {
		same = v.Admissible[i].Alias == w.Admissible[i].Alias
	}
	if !same {
		v.Unspecified = "an undeclared name is used as argument and the outcome depends on whether it may stand for a type parameter"
	}
	return v
}

func resolve(aliases []*Alias, units []Unit, untypedIsAType bool) Verdict {
	var v Verdict
	for _, a := range aliases {
		b, ok := match(a, units)
		if !ok {
			continue
		}
		v.Matching = append(v.Matching, a)
		if typesEqual(a, units, b, untypedIsAType) {
			v.TypeOK = append(v.TypeOK, Candidate{a, b})
		}
	}
	// The text orders "non-generic before generic" only. Two generic candidates with a different
	// NUMBER of generic parameters are therefore tied (both admissible) - unless ranking them by that
	// number would pick a candidate that the coarse reading rules out (fewer generic parameters but
	// also fewer Referenz parameters): then the text does not determine the outcome.
	v.Admissible = best(v.TypeOK, false)
	for _, c := range best(v.TypeOK, true) {
		in := false
		for _, d := range v.Admissible {
			if d.Alias == c.Alias {
				in = true
			}
		}
		if !in {
			v.Unspecified = "candidates differ in the number of generic parameters and in the number of Referenz parameters in opposite directions"
		}
	}
	return v
}

// Describe renders a verdict for replay files.
func (v Verdict) Describe(units []Unit) string {
	var sb strings.Builder
	line := func(title string, as []string) {
		sort.Strings(as)
		sb.WriteString(title + ":")
		if len(as) == 0 {
			sb.WriteString(" (none)")
		}
		for _, s := range as {
			sb.WriteString("\n  " + s)
		}
		sb.WriteByte('\n')
	}
	var m, t, ad []string
	for _, a := range v.Matching {
		m = append(m, a.Decl.Name+" \""+a.String()+"\"")
	}
	cand := func(c Candidate) string {
		var bs []string
		for k, i := range c.Binding {
			bs = append(bs, k+"="+units[i].Text)
		}
		sort.Strings(bs)
		s := c.Alias.Decl.Name + " \"" + c.Alias.String() + "\" {" + strings.Join(bs, ", ") + "}"
		if c.Alias.Negated {
			s += " negated"
		}
		return s
	}
	for _, c := range v.TypeOK {
		t = append(t, cand(c))
	}
	for _, c := range v.Admissible {
		ad = append(ad, cand(c))
	}
	line("aliases whose pattern matches a prefix of the tokens", m)
	line("of these, parameter types equal the argument types", t)
	line("admissible (greatest length; non-generic before generic; more Referenz parameters)", ad)
	if v.Unspecified != "" {
		sb.WriteString("UNSPECIFIED: " + v.Unspecified + "\n")
	}
	return sb.String()
}

// ---- operator overloads ----

// Overload is a function overloading an operator; parameters are positional.
type Overload struct {
	Name   string
	Params []Param
}

func (o *Overload) isGeneric() bool {
	for _, p := range o.Params {
		if p.Generic {
			return true
		}
	}
	return false
}

func (o *Overload) generics() int {
	n := 0
	for _, p := range o.Params {
		if p.Generic {
			n++
		}
	}
	return n
}

func (o *Overload) refs() int {
	n := 0
	for _, p := range o.Params {
		if p.Ref {
			n++
		}
	}
	return n
}

// Operand of an operator application.
type Operand struct {
	Text       string
	Type       string
	Assignable bool
	UserType   bool // the type is a Kombination
}

type OverloadVerdict struct {
	TypeOK     []int // indices of overloads whose parameter types equal the operand types
	Admissible []int // best ranked of these; empty = the built-in meaning applies
	// Unspecified: (a) the only admissible overloads are generic and no operand has a user-defined
	// type: the implementation documents ("generics can only overload operators for user defined
	// types") that generic overloads never capture purely built-in operand types and the property
	// text is silent on it; (b) the two readings of "non-generic before generic" contradict each other.
	Unspecified bool
}

func ResolveOverload(ovls []*Overload, ops []Operand) OverloadVerdict {
	var v OverloadVerdict
	for i, o := range ovls {
		if len(o.Params) != len(ops) {
			continue
		}
		generic := map[string]string{}
		ok := true
		for k, p := range o.Params {
			u := ops[k]
			if u.Type == "" || (p.Ref && !u.Assignable) {
				ok = false
				break
			}
			ut := u.Type
			if p.List { // a list parameter takes a list operand; what is compared / bound is the element type
				if !strings.HasSuffix(ut, " Liste") {
					ok = false
					break
				}
				ut = strings.TrimSuffix(ut, " Liste")
			}
			if p.Generic {
				if g, seen := generic[p.Type]; seen {
					if g != ut {
						ok = false
						break
					}
				} else {
					generic[p.Type] = ut
				}
			} else if p.Type != ut {
				ok = false
				break
			}
		}
		if ok {
			v.TypeOK = append(v.TypeOK, i)
		}
	}
	better := func(x, y *Overload, byCount bool) bool {
		if byCount {
			if x.generics() != y.generics() {
				return x.generics() < y.generics()
			}
		} else if x.isGeneric() != y.isGeneric() {
			return !x.isGeneric()
		}
		return x.refs() > y.refs()
	}
	top := func(byCount bool) []int {
		var out []int
		for _, i := range v.TypeOK {
			best := true
			for _, j := range v.TypeOK {
				if better(ovls[j], ovls[i], byCount) {
					best = false
					break
				}
			}
			if best {
				out = append(out, i)
			}
		}
		return out
	}
	v.Admissible = top(false)
	for _, i := range top(true) {
		in := false
		for _, j := range v.Admissible {
			if i == j {
				in = true
			}
		}
		if !in { // see Resolve: the two readings of "non-generic before generic" contradict each other
			v.Unspecified = true
		}
	}
	if len(v.Admissible) > 0 && ovls[v.Admissible[0]].isGeneric() {
		user := false
		for _, u := range ops {
			if u.UserType {
				user = true
			}
		}
		if !user {
			v.Unspecified = true
		}
	}
	return v
}
