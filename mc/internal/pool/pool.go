// Package pool: sacrificial worker processes. The driver re-executes its own binary as
// `ddpmc worker <kind>`; requests/responses are JSON lines (request on the worker's stdin, response
// on fd 3). A worker that dies (stack overflow, fatal error, OOM) or exceeds the per-request deadline
// is reported to the caller and replaced by a fresh one.
package pool

import (
	"bufio"
	"bytes"
	"encoding/json"
	"fmt"
	"io"
	"os"
	"os/exec"
	"runtime"
	"sync"
	"syscall"
	"time"
)

type Status int

const (
	OK Status = iota
	Died
	Timeout
)

func (s Status) String() string { return [...]string{"ok", "died", "timeout"}[s] }

type worker struct {
	cmd    *exec.Cmd
	in     io.WriteCloser
	out    *bufio.Reader
	outF   *os.File
	stderr *tail
}

type tail struct {
	mu  sync.Mutex
	buf []byte
}

func (t *tail) Write(p []byte) (int, error) {
	t.mu.Lock()
	t.buf = append(t.buf, p...)
	if len(t.buf) > 1<<16 {
		t.buf = t.buf[len(t.buf)-1<<15:]
	}
	t.mu.Unlock()
	return len(p), nil
}
func (t *tail) String() string { t.mu.Lock(); defer t.mu.Unlock(); return string(t.buf) }

type Pool struct {
	kind   string
	args   []string
	idle   chan *worker
	n      int
	MemKB  int // ulimit -v for workers (0 = 4 GB)
	// Exe overrides the worker executable (default: this binary). Used by C16, whose workers are the
	// separately built ddpmc16 (same sources, compiled with the map-order/sort overlay).
	Exe string
	closed bool
}

func New(kind string, n int, args ...string) *Pool {
	if n <= 0 {
		n = runtime.NumCPU()
	}
	p := &Pool{kind: kind, args: args, idle: make(chan *worker, n), n: n}
	for i := 0; i < n; i++ {
		p.idle <- nil // started lazily
	}
	return p
}

func (p *Pool) N() int { return p.n }

func (p *Pool) start() (*worker, error) {
	exe, err := os.Executable()
	if err != nil {
		return nil, err
	}
	if p.Exe != "" {
		exe = p.Exe
	}
	mem := p.MemKB
	if mem == 0 {
		mem = 4 << 20
	}
	// ulimit through sh so that the Go runtime of the worker itself is limited
	script := fmt.Sprintf("ulimit -v %d; ulimit -c 0; exec \"$0\" worker \"$@\"", mem)
	cmd := exec.Command("/bin/sh", append([]string{"-c", script, exe, p.kind}, p.args...)...)
	cmd.Env = append(os.Environ(), "GOMAXPROCS=2", "GOTRACEBACK=single")
	in, err := cmd.StdinPipe()
	if err != nil {
		return nil, err
	}
	r, w, err := os.Pipe()
	if err != nil {
		return nil, err
	}
	cmd.ExtraFiles = []*os.File{w}
	t := &tail{}
	cmd.Stderr = t
	cmd.Stdout = t
	cmd.SysProcAttr = &syscall.SysProcAttr{Setpgid: true}
	if err := cmd.Start(); err != nil {
		return nil, err
	}
	w.Close()
	return &worker{cmd: cmd, in: in, out: bufio.NewReaderSize(r, 1<<20), outF: r, stderr: t}, nil
}

func (w *worker) kill() {
	if w == nil {
		return
	}
	if w.cmd.Process != nil {
		syscall.Kill(-w.cmd.Process.Pid, syscall.SIGKILL)
	}
	w.in.Close()
	w.cmd.Wait()
	w.outF.Close()
}

// Do sends req to an idle worker and decodes the answer into resp.
// On Died/Timeout the returned string holds the tail of the worker's stderr.
func (p *Pool) Do(req, resp any, timeout time.Duration) (Status, string) {
	w := <-p.idle
	if w == nil {
		var err error
		w, err = p.start()
		if err != nil {
			p.idle <- nil
			return Died, "cannot start worker: " + err.Error()
		}
	}
	b, _ := json.Marshal(req)
	b = append(b, '\n')
	type rd struct {
		line []byte
		err  error
	}
	ch := make(chan rd, 1)
	go func() {
		if _, err := w.in.Write(b); err != nil {
			ch <- rd{nil, err}
			return
		}
		line, err := w.out.ReadBytes('\n')
		ch <- rd{line, err}
	}()
	select {
	case r := <-ch:
		if r.err != nil {
			w.kill()
			log := w.stderr.String()
			p.idle <- nil
			return Died, log
		}
		if err := json.Unmarshal(bytes.TrimSpace(r.line), resp); err != nil {
			w.kill()
			p.idle <- nil
			return Died, "bad response: " + err.Error() + ": " + string(r.line)
		}
		p.idle <- w
		return OK, ""
	case <-time.After(timeout):
		w.kill()
		<-ch
		log := w.stderr.String()
		p.idle <- nil
		return Timeout, log
	}
}

func (p *Pool) Close() {
	for i := 0; i < p.n; i++ {
		w := <-p.idle
		if w != nil {
			w.in.Close()
			done := make(chan struct{})
			go func() { w.cmd.Wait(); close(done) }()
			select {
			case <-done:
			case <-time.After(2 * time.Second):
				w.kill()
			}
			w.outF.Close()
		}
	}
}

// Serve is the worker side: decode requests of type Q, answer with handler's result.
func Serve[Q any, R any](handler func(q *Q) R) {
	in := bufio.NewReaderSize(os.Stdin, 1<<20)
	out := os.NewFile(3, "resp")
	enc := bufio.NewWriter(out)
	for {
		line, err := in.ReadBytes('\n')
		if len(line) > 0 {
			var q Q
			if e := json.Unmarshal(line, &q); e != nil {
				fmt.Fprintln(os.Stderr, "worker: bad request:", e)
				os.Exit(3)
			}
			r := handler(&q)
			b, _ := json.Marshal(r)
			enc.Write(b)
			enc.WriteByte('\n')
			enc.Flush()
		}
		if err != nil {
			return
		}
	}
}
