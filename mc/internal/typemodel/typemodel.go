// Package typemodel: the reference model of DDP type equivalence used by C14.
//
// It knows nothing about package ddptypes. A type is a Term; its normal form expands every alias
// (everywhere, also inside lists and behind further aliases), keeps lists structural and keeps
// Kombinationen and type definitions nominal (identified by the declaration that created them).
// Two types are equivalent iff their normal forms are the same string.
package typemodel

import "strconv"

type Kind int

const (
	Prim   Kind = iota // one of the six primitive types
	Any                // Variable
	Void               // 'nichts' (not a member of the closure; only a source type of positions)
	Struct             // a Kombination, nominal
	List               // list-of, structural
	Alias              // alias-of, transparent
	Def                // definition-of, nominal / opaque
)

// indices of the primitive types
const (
	Zahl = iota
	Kommazahl
	Byte
	Wahrheitswert
	Buchstabe
	Text
)

type Gender int

const (
	Maskulin Gender = iota
	Feminin
	Neutrum
	NoGender
)

var PrimNames = [...]string{"Zahl", "Kommazahl", "Byte", "Wahrheitswert", "Buchstabe", "Text"}

type Term struct {
	Kind  Kind
	P     int    // Prim: which primitive
	ID    int    // Struct/Alias/Def: identity of the declaration
	Of    *Term  // List: element; Alias: target; Def: base
	G     Gender // declared gender of Struct/Alias/Def
	Depth int    // number of constructor applications above a base type
	nf    string // normal form
	full  string // complete structural spelling (the explorer's state key)
	deep  string // cached DeepNF
	shape string // cached Shape
}

func NewPrim(p int) *Term { return fin(&Term{Kind: Prim, P: p}) }
func NewAny() *Term       { return fin(&Term{Kind: Any}) }
func NewVoid() *Term      { return fin(&Term{Kind: Void}) }
func NewStruct(id int, g Gender) *Term {
	return fin(&Term{Kind: Struct, ID: id, G: g})
}
func NewList(of *Term) *Term { return fin(&Term{Kind: List, Of: of, Depth: of.Depth + 1}) }
func NewAlias(id int, g Gender, of *Term) *Term {
	return fin(&Term{Kind: Alias, ID: id, G: g, Of: of, Depth: of.Depth + 1})
}
func NewDef(id int, g Gender, of *Term) *Term {
	return fin(&Term{Kind: Def, ID: id, G: g, Of: of, Depth: of.Depth + 1})
}

func fin(t *Term) *Term {
	switch t.Kind {
	case Prim:
		t.nf = "P" + strconv.Itoa(t.P)
		t.full = t.nf
	case Any:
		t.nf, t.full = "V", "V"
	case Void:
		t.nf, t.full = "nichts", "nichts"
	case Struct:
		t.nf = "S" + strconv.Itoa(t.ID)
		t.full = t.nf
	case List:
		t.nf = "L(" + t.Of.nf + ")"
		t.full = "L(" + t.Of.full + ")"
	case Alias:
		t.nf = t.Of.nf // transparent
		t.full = "A" + strconv.Itoa(t.ID) + "(" + t.Of.full + ")"
	case Def:
		t.nf = "D" + strconv.Itoa(t.ID) // opaque: the base does not take part
		t.full = "D" + strconv.Itoa(t.ID) + "(" + t.Of.full + ")"
	}
	t.deep, t.shape = t.deepNF(), t.mkShape()
	return t
}

// NF is the normal form; equal strings <=> equivalent types.
func (t *Term) NF() string { return t.nf }

// Full spells the term completely (aliases visible).
func (t *Term) Full() string { return t.full }

// Equiv is the model's type equivalence.
func Equiv(a, b *Term) bool { return a.nf == b.nf }

// Head strips aliases at the top.
func (t *Term) Head() *Term {
	for t.Kind == Alias {
		t = t.Of
	}
	return t
}

func (t *Term) IsNumeric() bool {
	h := t.Head()
	return h.Kind == Prim && (h.P == Zahl || h.P == Kommazahl || h.P == Byte)
}
func (t *Term) IsPrimitive() bool { return t.Head().Kind == Prim }
func (t *Term) IsList() bool      { return t.Head().Kind == List }
func (t *Term) IsStruct() bool    { return t.Head().Kind == Struct }
func (t *Term) IsAny() bool       { return t.Head().Kind == Any }
func (t *Term) IsVoid() bool      { return t.Head().Kind == Void }
func (t *Term) IsDef() bool       { return t.Head().Kind == Def }

// Base is the base type of a definition (seen through aliases), nil otherwise.
func (t *Term) Base() *Term {
	if h := t.Head(); h.Kind == Def {
		return h.Of
	}
	return nil
}

// DeepNF additionally strips definitions everywhere (what the doc comment of ddptypes.DeepEqual
// describes: "the same type throughout TypeAliases and TypeDefs and also List Types").
func (t *Term) DeepNF() string { return t.deep }

func (t *Term) deepNF() string {
	switch t.Kind {
	case Alias, Def:
		return t.Of.deep
	case List:
		return "L(" + t.Of.deep + ")"
	}
	return t.nf
}

// Gender is the grammatical gender an article in front of the type has to agree with.
func (t *Term) Gender() Gender {
	switch t.Kind {
	case Prim:
		if t.P == Zahl || t.P == Kommazahl {
			return Feminin
		}
		return Maskulin
	case Any, List:
		return Feminin
	case Void:
		return NoGender
	}
	return t.G
}

// Shape abstracts identities and base types away: P (primitive), N (numeric primitive is still P),
// V, S, L(.), A(.), D(.) — used for stable violation keys and coverage counting.
func (t *Term) Shape() string { return t.shape }

func (t *Term) mkShape() string {
	switch t.Kind {
	case Prim:
		return "P"
	case Any:
		return "V"
	case Void:
		return "nichts"
	case Struct:
		return "S"
	case List:
		return "L(" + t.Of.shape + ")"
	case Alias:
		return "A(" + t.Of.shape + ")"
	}
	return "D(" + t.Of.shape + ")"
}

// ---- positions -------------------------------------------------------------------------------

type Verdict int

const (
	Reject Verdict = iota
	Accept
	Unspecified // the property text does not determine the outcome
)

func (v Verdict) String() string { return [...]string{"reject", "accept", "unspecified"}[v] }

func b2v(b bool) Verdict {
	if b {
		return Accept
	}
	return Reject
}

// Assignable: initialisation `Der T x ist <S>.` and assignment `Speichere <S> in x.` accept exactly
// equivalent types, any numeric for any numeric, and any value but 'nichts' for Variable.
func Assignable(s, t *Term) Verdict {
	if s.IsVoid() {
		return Reject
	}
	return b2v(Equiv(s, t) || (s.IsNumeric() && t.IsNumeric()) || t.IsAny())
}

// Castable: `<S> als T`. The property fixes only the casts that involve a type definition: it converts
// only to and from its own base type. Casts from/to Variable, the identity cast and the cast table
// among non-definitions are not part of the property.
func Castable(s, t *Term) Verdict {
	if s.IsVoid() || s.IsAny() || t.IsAny() {
		return Unspecified
	}
	if !s.IsDef() && !t.IsDef() {
		return Unspecified
	}
	if Equiv(s, t) {
		return Unspecified
	}
	ok := false
	if b := s.Base(); b != nil && Equiv(b, t) {
		ok = true
	}
	if b := t.Base(); b != nil && Equiv(b, s) {
		ok = true
	}
	return b2v(ok)
}

// Passable: a value argument for a parameter of type T / `Gib <S> zurück.` in a function returning T.
// Equivalent types are accepted (an alias is its target everywhere); a pair that is not even
// assignable is rejected (a definition converts only explicitly). Whether the numeric and the
// Variable escape of assignments also apply here is not stated by the property.
func Passable(s, t *Term) Verdict {
	if Equiv(s, t) {
		return Accept
	}
	if s.IsVoid() {
		return Unspecified
	}
	if (s.IsNumeric() && t.IsNumeric()) || t.IsAny() {
		return Unspecified
	}
	return Reject
}

// TrueNF: aliases and definitions stripped at the top (not inside lists).
func (t *Term) TrueNF() string {
	for t.Kind == Alias || t.Kind == Def {
		t = t.Of
	}
	return t.nf
}

// Relation names how S and T are related; used for stable violation keys.
func Relation(s, t *Term) string {
	switch {
	case Equiv(s, t):
		return "equivalent"
	case s.Base() != nil && Equiv(s.Base(), t):
		return "definition-to-own-base"
	case t.Base() != nil && Equiv(t.Base(), s):
		return "own-base-to-definition"
	case s.IsNumeric() && t.IsNumeric():
		return "both-numeric"
	case t.IsAny():
		return "target-Variable"
	case s.IsAny():
		return "source-Variable"
	case (s.IsDef() || t.IsDef()) && s.TrueNF() == t.TrueNF():
		return "definitions-with-common-root-but-not-base" // sibling definitions, or a definition and its base's base
	case s.IsDef() || t.IsDef():
		return "unrelated-definition"
	case s.DeepNF() == t.DeepNF():
		return "differ-by-definition-inside-list"
	}
	return "unrelated"
}
