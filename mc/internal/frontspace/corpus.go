package frontspace

import (
	"embed"
	"fmt"
	"os"
	"os/exec"
	"path/filepath"
	"sort"
	"strings"
	"unicode/utf8"

	"ddpmc/internal/ev"

	"github.com/DDP-Projekt/Kompilierer/src/scanner"
	"github.com/DDP-Projekt/Kompilierer/src/token"
)

func writeFiles(dir string, files map[string]string) {
	for n, s := range files {
		p := filepath.Join(dir, n)
		os.MkdirAll(filepath.Dir(p), 0o755)
		if err := os.WriteFile(p, []byte(s), 0o644); err != nil {
			panic(err)
		}
	}
}

// Prog is one corpus program: a main file inside a root directory (a scratch copy of the golden's
// whole top-level directory, so that relative imports resolve), tokenised by the real scanner.
type Prog struct {
	Name    string // e.g. "golden/structs/imports/imports.ddp"
	Root    string
	MainRel string
	Text    []byte
	Toks    []Span // every token except EOF (comments included), as byte ranges of Text
	Lines   []Span // byte range of every line including its line break
	Chunks  []Span // top-level line chunks ("statements"): maximal runs of lines starting at an unindented line
	Small   bool   // donor of splices / CLI seeds
}

type Span struct{ S, E int }

// tokenize runs the real scanner and converts the (line, column-in-code-points) ranges to byte offsets.
func tokenize(text []byte) ([]Span, bool) {
	if !utf8.Valid(text) {
		return nil, false
	}
	toks, err := scanner.Scan(scanner.Options{FileName: "corpus.ddp", Source: text, ScannerMode: scanner.ModeNone})
	if err != nil {
		return nil, false
	}
	// byte offset of every (line, col)
	type lc struct{ l, c uint }
	off := map[lc]int{}
	l, c := uint(1), uint(1)
	for i := 0; i < len(text); {
		off[lc{l, c}] = i
		r, w := utf8.DecodeRune(text[i:])
		i += w
		if r == '\n' {
			l++
			c = 1
		} else {
			c++
		}
	}
	off[lc{l, c}] = len(text)
	var out []Span
	for _, t := range toks {
		if t.Type == token.EOF {
			continue
		}
		s, ok1 := off[lc{t.Range.Start.Line, t.Range.Start.Column}]
		e, ok2 := off[lc{t.Range.End.Line, t.Range.End.Column}]
		if !ok1 || !ok2 || s >= e {
			return nil, false // C13's business; such a file is left out of the corpus
		}
		out = append(out, Span{s, e})
	}
	return out, true
}

func lineSpans(text []byte) []Span {
	var out []Span
	s := 0
	for i, b := range text {
		if b == '\n' {
			out = append(out, Span{s, i + 1})
			s = i + 1
		}
	}
	if s < len(text) {
		out = append(out, Span{s, len(text)})
	}
	return out
}

// chunks: a chunk starts at every non-blank line whose first byte is not blank and that does not
// continue the previous declaration ("Und kann so benutzt werden", "Sonst", "Wenn aber").
func chunkSpans(text []byte, lines []Span) []Span {
	var out []Span
	start := -1
	for _, ln := range lines {
		t := string(text[ln.S:ln.E])
		trim := strings.TrimSpace(t)
		begins := trim != "" && t[0] != ' ' && t[0] != '\t' && t[0] != '\r' &&
			!strings.HasPrefix(trim, "Und ") && !strings.HasPrefix(trim, "Sonst") && !strings.HasPrefix(trim, "Wenn aber")
		if begins {
			if start >= 0 {
				out = append(out, Span{start, ln.S})
			}
			start = ln.S
		}
	}
	if start >= 0 {
		out = append(out, Span{start, len(text)})
	}
	return out
}

// LoadCorpus copies the corpus into scratch and tokenises every program.
// goldens: every top-level directory of tests/testdata/kddp; examples; nDuden smallest Duden files.
func LoadCorpus(scratch string, nDuden int) ([]*Prog, error) {
	var progs []*Prog
	add := func(kind, root, rel string) {
		b, err := os.ReadFile(filepath.Join(root, rel))
		if err != nil {
			return
		}
		toks, ok := tokenize(b)
		if !ok {
			return
		}
		p := &Prog{Name: kind + "/" + rel, Root: root, MainRel: rel, Text: b, Toks: toks}
		p.Lines = lineSpans(b)
		p.Chunks = chunkSpans(b, p.Lines)
		progs = append(progs, p)
	}
	gsrc := filepath.Join(ev.Repo, "tests/testdata/kddp")
	tops, err := os.ReadDir(gsrc)
	if err != nil {
		return nil, err
	}
	for _, d := range tops {
		if !d.IsDir() {
			continue
		}
		dst := filepath.Join(scratch, "golden", d.Name())
		os.MkdirAll(filepath.Dir(dst), 0o755)
		if out, err := exec.Command("cp", "-r", filepath.Join(gsrc, d.Name()), dst).CombinedOutput(); err != nil {
			return nil, fmt.Errorf("cp: %v %s", err, out)
		}
		var rels []string
		filepath.Walk(dst, func(p string, info os.FileInfo, err error) error {
			if err == nil && !info.IsDir() && strings.HasSuffix(p, ".ddp") {
				r, _ := filepath.Rel(dst, p)
				rels = append(rels, r)
			}
			return nil
		})
		sort.Strings(rels)
		for _, r := range rels {
			add("golden/"+d.Name(), dst, r)
		}
	}
	// examples (flat files; the Rechner sub-project is left out)
	exdst := filepath.Join(scratch, "examples")
	os.MkdirAll(exdst, 0o755)
	exs, _ := filepath.Glob(filepath.Join(ev.Repo, "examples", "*.ddp"))
	sort.Strings(exs)
	for _, e := range exs {
		b, err := os.ReadFile(e)
		if err != nil {
			continue
		}
		os.WriteFile(filepath.Join(exdst, filepath.Base(e)), b, 0o644)
		add("examples", exdst, filepath.Base(e))
	}
	// a handful of small Duden files (smallest first)
	type fs struct {
		p string
		n int64
	}
	var ds []fs
	dud, _ := filepath.Glob(filepath.Join(ev.Repo, "lib/stdlib/Duden", "*.ddp"))
	for _, d := range dud {
		if st, err := os.Stat(d); err == nil {
			ds = append(ds, fs{d, st.Size()})
		}
	}
	sort.Slice(ds, func(i, j int) bool {
		if ds[i].n != ds[j].n {
			return ds[i].n < ds[j].n
		}
		return ds[i].p < ds[j].p
	})
	ddst := filepath.Join(scratch, "duden")
	os.MkdirAll(ddst, 0o755)
	for i := 0; i < nDuden && i < len(ds); i++ {
		b, _ := os.ReadFile(ds[i].p)
		os.WriteFile(filepath.Join(ddst, filepath.Base(ds[i].p)), b, 0o644)
		add("duden", ddst, filepath.Base(ds[i].p))
	}
	// donors / seeds: the 12 smallest programs
	idx := make([]int, len(progs))
	for i := range idx {
		idx[i] = i
	}
	sort.SliceStable(idx, func(a, b int) bool { return len(progs[idx[a]].Text) < len(progs[idx[b]].Text) })
	for k := 0; k < 12 && k < len(idx); k++ {
		progs[idx[k]].Small = true
	}
	// hand-written valid programs on the silent-failure paths of the front end (overload probing with
	// a failing generic instantiation, EvaluateSilent, expressionOrErr, reference-then-value fallback):
	// added after the donor selection so that the donor set stays the one of the repository's corpus.
	xdst := filepath.Join(scratch, "extra")
	os.MkdirAll(xdst, 0o755)
	xs, _ := extraFS.ReadDir("extra")
	for _, x := range xs {
		b, err := extraFS.ReadFile("extra/" + x.Name())
		if err != nil || !strings.HasSuffix(x.Name(), ".ddp") {
			continue
		}
		os.WriteFile(filepath.Join(xdst, x.Name()), b, 0o644)
		add("extra", xdst, x.Name())
	}
	return progs, nil
}

//go:embed extra/*.ddp
var extraFS embed.FS

// Edit kinds of the mutation space.
const (
	EdDelete = iota
	EdDuplicate
	EdSwap
	EdTruncate
	EdDeleteLine
	EdIndentLine
	EdDedentLine
	EdReplace // x structural token
	EdSplice  // chunk j of donor into chunk boundary i
	EdByteFF  // byte k replaced by 0xFF (stride)
	EdCutMultibyte
	nEd
)

var EditNames = [...]string{"delete-token", "duplicate-token", "swap-tokens", "truncate-after-token", "delete-line", "indent-line", "dedent-line", "replace-token", "splice-chunk", "byte-0xFF", "cut-inside-multibyte"}

// MutSpace: all single edits of one kind over the whole corpus.
type MutSpace struct {
	Kind    int
	Progs   []*Prog
	Repl    []string // EdReplace
	Donors  []Span2  // EdSplice: (prog index, chunk index)
	Stride  int      // EdByteFF
	offs    []int64  // offs[p] = first index of prog p
	mbStart [][]int  // EdCutMultibyte: offsets of multi-byte characters per prog
}

type Span2 struct{ P, C int }

func NewMutSpace(kind int, progs []*Prog, stride int) *MutSpace {
	s := &MutSpace{Kind: kind, Progs: progs, Stride: stride}
	if stride < 1 {
		s.Stride = 1
	}
	if kind == EdReplace {
		s.Repl = StructuralTokens()
	}
	if kind == EdSplice {
		for pi, p := range progs {
			if p.Small {
				for ci := range p.Chunks {
					s.Donors = append(s.Donors, Span2{pi, ci})
				}
			}
		}
	}
	n := int64(0)
	for _, p := range progs {
		s.offs = append(s.offs, n)
		var mb []int
		if kind == EdCutMultibyte {
			for i := 0; i < len(p.Text); {
				_, w := utf8.DecodeRune(p.Text[i:])
				if w > 1 {
					mb = append(mb, i)
				}
				i += w
			}
		}
		s.mbStart = append(s.mbStart, mb)
		n += s.count(p, len(mb))
	}
	s.offs = append(s.offs, n)
	return s
}

func (s *MutSpace) count(p *Prog, nmb int) int64 {
	switch s.Kind {
	case EdDelete, EdDuplicate, EdTruncate:
		return int64(len(p.Toks))
	case EdSwap:
		if len(p.Toks) < 2 {
			return 0
		}
		return int64(len(p.Toks) - 1)
	case EdDeleteLine, EdIndentLine, EdDedentLine:
		return int64(len(p.Lines))
	case EdReplace:
		return int64(len(p.Toks)) * int64(len(s.Repl))
	case EdSplice:
		return int64(len(p.Chunks)+1) * int64(len(s.Donors))
	case EdByteFF:
		return int64((len(p.Text) + s.Stride - 1) / s.Stride)
	case EdCutMultibyte:
		return int64(nmb)
	}
	return 0
}

func (s *MutSpace) Name() string { return "mutants_" + EditNames[s.Kind] }
func (s *MutSpace) Len() int64   { return s.offs[len(s.offs)-1] }

func cat(parts ...[]byte) []byte {
	n := 0
	for _, p := range parts {
		n += len(p)
	}
	out := make([]byte, 0, n)
	for _, p := range parts {
		out = append(out, p...)
	}
	return out
}

// Mutant returns (program, edited text, description); ok=false when the edit does not apply
// (dedent of a line that is not indented).
func (s *MutSpace) Mutant(i int64) (p *Prog, out []byte, note string, ok bool) {
	pi := sort.Search(len(s.Progs), func(k int) bool { return s.offs[k+1] > i })
	p = s.Progs[pi]
	k := int(i - s.offs[pi])
	T := p.Text
	switch s.Kind {
	case EdDelete:
		t := p.Toks[k]
		return p, cat(T[:t.S], T[t.E:]), fmt.Sprintf("delete token %d %q", k, T[t.S:t.E]), true
	case EdDuplicate:
		t := p.Toks[k]
		return p, cat(T[:t.E], []byte(" "), T[t.S:t.E], T[t.E:]), fmt.Sprintf("duplicate token %d %q", k, T[t.S:t.E]), true
	case EdSwap:
		a, b := p.Toks[k], p.Toks[k+1]
		return p, cat(T[:a.S], T[b.S:b.E], T[a.E:b.S], T[a.S:a.E], T[b.E:]), fmt.Sprintf("swap tokens %d/%d %q %q", k, k+1, T[a.S:a.E], T[b.S:b.E]), true
	case EdTruncate:
		t := p.Toks[k]
		return p, cat(T[:t.E]), fmt.Sprintf("truncate after token %d %q", k, T[t.S:t.E]), true
	case EdDeleteLine:
		l := p.Lines[k]
		return p, cat(T[:l.S], T[l.E:]), fmt.Sprintf("delete line %d", k+1), true
	case EdIndentLine:
		l := p.Lines[k]
		return p, cat(T[:l.S], []byte("\t"), T[l.S:]), fmt.Sprintf("indent line %d", k+1), true
	case EdDedentLine:
		l := p.Lines[k]
		switch {
		case l.E > l.S && T[l.S] == '\t':
			return p, cat(T[:l.S], T[l.S+1:]), fmt.Sprintf("dedent line %d", k+1), true
		case l.E-l.S >= 4 && string(T[l.S:l.S+4]) == "    ":
			return p, cat(T[:l.S], T[l.S+4:]), fmt.Sprintf("dedent line %d", k+1), true
		}
		return p, nil, "", false
	case EdReplace:
		ti, ri := k/len(s.Repl), k%len(s.Repl)
		t := p.Toks[ti]
		return p, cat(T[:t.S], []byte(s.Repl[ri]), T[t.E:]), fmt.Sprintf("replace token %d %q by %q", ti, T[t.S:t.E], s.Repl[ri]), true
	case EdSplice:
		pos, di := k/len(s.Donors), k%len(s.Donors)
		d := s.Donors[di]
		dp := s.Progs[d.P]
		ch := dp.Text[dp.Chunks[d.C].S:dp.Chunks[d.C].E]
		at := len(T)
		if pos < len(p.Chunks) {
			at = p.Chunks[pos].S
		}
		mid := ch
		if len(mid) > 0 && mid[len(mid)-1] != '\n' {
			mid = cat(mid, []byte("\n"))
		}
		pre := T[:at]
		if at > 0 && T[at-1] != '\n' {
			pre = cat(pre, []byte("\n"))
		}
		return p, cat(pre, mid, T[at:]), fmt.Sprintf("splice chunk %d of %s before chunk %d", d.C, dp.Name, pos), true
	case EdByteFF:
		o := k * s.Stride
		out := cat(T)
		out[o] = 0xFF
		return p, out, fmt.Sprintf("byte %d replaced by 0xFF", o), true
	case EdCutMultibyte:
		o := s.mbStart[pi][k]
		return p, cat(T[:o+1]), fmt.Sprintf("truncated inside the multi-byte character at byte %d", o), true
	}
	return p, nil, "", false
}

func (s *MutSpace) Get(i int64) (*Case, func()) {
	p, out, note, ok := s.Mutant(i)
	if !ok {
		return nil, nil
	}
	return &Case{Space: s.Name(), ID: fmt.Sprintf("%d:%s", i, p.Name), Root: p.Root, MainRel: p.MainRel, Source: out, Note: p.Name + ": " + note}, nil
}

// IdentSpace: every corpus program unmodified (conformance of the harness: must parse without crash).
type IdentSpace struct{ Progs []*Prog }

func (s *IdentSpace) Name() string { return "corpus_unmodified" }
func (s *IdentSpace) Len() int64   { return int64(len(s.Progs)) }
func (s *IdentSpace) Get(i int64) (*Case, func()) {
	p := s.Progs[i]
	return &Case{Space: s.Name(), ID: p.Name, Root: p.Root, MainRel: p.MainRel, Source: p.Text, Note: p.Name}, nil
}
