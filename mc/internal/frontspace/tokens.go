package frontspace

import (
	"fmt"
)

// Prelude is a small well-formed program in front of the explored token sequence: one declared
// variable (x), one declared function (f) with an alias, so that paths behind name resolution and
// alias matching are reachable. It has no imports (a parse costs ~100 µs instead of milliseconds).
const Prelude = "Die Zahl x ist 1.\n" +
	"Die Funktion f mit dem Parameter a vom Typ Zahl, gibt eine Zahl zurück, macht:\n" +
	"\tGib a zurück.\n" +
	"Und kann so benutzt werden:\n" +
	"\t\"f <a>\"\n"

// PreludeDuden additionally imports Duden/Ausgabe (large alias population, imported declarations).
const PreludeDuden = "Binde \"Duden/Ausgabe\" ein.\n" + Prelude

// Layouts: how tokens are separated.
var Layouts = []struct{ Name, Sep string }{
	{"space", " "},
	{"newline", "\n"},
	{"newline+tab", "\n\t"},
}

// Context embeds the explored token sequence into a well-formed surrounding, so that the sequence is
// parsed by a deeper production (loop body, function body, parameter list, alias pattern ...).
type Context struct {
	Name     string
	Pre      string
	Post     string
	Sentence bool   // the sequence starts a sentence (keywords are capitalised)
	Indent   string // written after every line break between the tokens (keeps the sequence inside a block)
}

const funcG = "Die Funktion g gibt nichts zurück, macht:\n\t"
const funcGEnd = "\nUnd kann so benutzt werden:\n\t\"g\"\n"

// Contexts of the token space. "bare" and "prelude" are the two of the task description; the others
// put the sequence where the parser dereferences the result of a sub-parse.
var Contexts = []Context{
	{Name: "bare", Sentence: true},
	{Name: "prelude", Pre: Prelude, Sentence: true},
	{Name: "import", Pre: "Binde ", Post: " ein.\n"},
	{Name: "var-type", Pre: Prelude + "Die ", Post: " z ist x.\n"},
	{Name: "if-then", Pre: Prelude + "Wenn wahr, "},
	{Name: "if-else", Pre: Prelude + "Wenn wahr, x ist 2.\nSonst "},
	{Name: "while-body", Pre: Prelude + "Solange wahr, "},
	{Name: "for-body", Pre: Prelude + "Für jede Zahl i von 1 bis 2, "},
	{Name: "for-in-body", Pre: Prelude + "Für jeden Buchstaben b in \"ab\", "},
	{Name: "block", Pre: Prelude + "Wenn wahr, dann:\n\t", Sentence: true, Indent: "\t"},
	{Name: "func-body", Pre: Prelude + funcG, Post: funcGEnd, Sentence: true, Indent: "\t"},
	{Name: "paren-expr", Pre: Prelude + "Speichere (", Post: ") in x.\n"},
	{Name: "param-type", Pre: Prelude + "Die Funktion g mit dem Parameter p vom Typ ", Post: ", gibt nichts zurück, macht:\n\tVerlasse die Funktion.\nUnd kann so benutzt werden:\n\t\"g <p>\"\n"},
	{Name: "return-type", Pre: Prelude + "Die Funktion g gibt ", Post: " zurück, macht:\n\tVerlasse die Funktion.\nUnd kann so benutzt werden:\n\t\"g\"\n"},
	{Name: "struct-field", Pre: Prelude + "Wir nennen die Kombination aus\n\tder Zahl a mit Standardwert 0,\n\t", Post: "\neinen Punkt, und erstellen sie so:\n\t\"ein Punkt\"\n", Indent: "\t"},
	{Name: "struct-alias", Pre: Prelude + "Wir nennen die Kombination aus\n\tder Zahl a mit Standardwert 0,\neinen Punkt, und erstellen sie so:\n\t", Indent: "\t"},
	{Name: "alias-pattern", Pre: Prelude + "Der Alias \"", Post: "\" steht für die Funktion f.\nDie Zahl nachher ist x plus 1.\n"},
	{Name: "alias-target", Pre: Prelude + "Der Alias \"h <a>\" steht für ", Post: ".\n"},
	{Name: "generic-func", Pre: Prelude + "Die generische Funktion g mit dem Parameter p vom Typ T, gibt ", Post: " zurück, macht:\n\tGib p zurück.\nUnd kann so benutzt werden:\n\t\"g <p>\"\nSchreibe (g 1).\n"},
	{Name: "prelude+Duden", Pre: PreludeDuden, Sentence: true},
}

func ContextByName(n string) Context {
	for _, c := range Contexts {
		if c.Name == n {
			return c
		}
	}
	panic("unknown context " + n)
}

// TokenSpace: all sequences of exactly L tokens over an alphabet, in a given layout, inside a context.
type TokenSpace struct {
	Alpha  []Tok
	L      int
	Layout int
	Ctx    Context
	Root   string // scratch directory; the main file is Root/t.ddp (never written: the source is sent)
	n      int64
}

func NewTokenSpace(alpha []Tok, L, layout int, ctx string, root string) *TokenSpace {
	n := int64(1)
	for k := 0; k < L; k++ {
		n *= int64(len(alpha))
	}
	return &TokenSpace{Alpha: alpha, L: L, Layout: layout, Ctx: ContextByName(ctx), Root: root, n: n}
}

func (s *TokenSpace) Name() string {
	return fmt.Sprintf("tokens_len%d_a%d_%s_%s", s.L, len(s.Alpha), Layouts[s.Layout].Name, s.Ctx.Name)
}
func (s *TokenSpace) Len() int64 { return s.n }

func (s *TokenSpace) Seq(i int64) []Tok {
	A := int64(len(s.Alpha))
	seq := make([]Tok, s.L)
	for k := s.L - 1; k >= 0; k-- {
		seq[k] = s.Alpha[i%A]
		i /= A
	}
	return seq
}

func (s *TokenSpace) Text(i int64) string {
	sep := Layouts[s.Layout].Sep
	if s.Layout > 0 {
		sep += s.Ctx.Indent
	}
	return s.Ctx.Pre + Render(s.Seq(i), sep, s.Ctx.Sentence) + s.Ctx.Post
}

func (s *TokenSpace) Get(i int64) (*Case, func()) {
	return &Case{Space: s.Name(), ID: fmt.Sprint(i), Root: s.Root, MainRel: "t.ddp", Source: []byte(s.Text(i)), Extra: map[string]string{}}, nil
}

// ByteSpace: all byte strings of length <= maxLen over a byte alphabet (valid and invalid UTF-8), as the
// main file, or as the imported module B of the main file `Binde "B" ein.`.
type ByteSpace struct {
	Alpha    []byte
	MaxLen   int
	AsImport bool
	Root     string
	slots    chan string
	offs     []int64 // offs[L] = index of the first string of length L
}

var ByteAlphabet = []byte{'a', '"', '[', 0x80, 0xC3, 0xA4, 0xE2, 0xF0, 0xFF, '\n'}

func NewByteSpace(maxLen int, asImport bool, root string, slots chan string) *ByteSpace {
	s := &ByteSpace{Alpha: ByteAlphabet, MaxLen: maxLen, AsImport: asImport, Root: root, slots: slots}
	n, p := int64(0), int64(1)
	for L := 0; L <= maxLen; L++ {
		s.offs = append(s.offs, n)
		n += p
		p *= int64(len(s.Alpha))
	}
	s.offs = append(s.offs, n)
	return s
}

func (s *ByteSpace) Name() string {
	if s.AsImport {
		return fmt.Sprintf("bytes_le%d_imported", s.MaxLen)
	}
	return fmt.Sprintf("bytes_le%d_main", s.MaxLen)
}
func (s *ByteSpace) Len() int64 { return s.offs[len(s.offs)-1] }

func (s *ByteSpace) Bytes(i int64) []byte {
	L := 0
	for L+1 < len(s.offs)-1 && i >= s.offs[L+1] {
		L++
	}
	i -= s.offs[L]
	b := make([]byte, L)
	A := int64(len(s.Alpha))
	for k := L - 1; k >= 0; k-- {
		b[k] = s.Alpha[i%A]
		i /= A
	}
	return b
}

func (s *ByteSpace) Get(i int64) (*Case, func()) {
	b := s.Bytes(i)
	if !s.AsImport {
		return &Case{Space: s.Name(), ID: fmt.Sprintf("%d:%q", i, b), Root: s.Root, MainRel: "t.ddp", Source: b, Extra: map[string]string{}}, nil
	}
	dir := <-s.slots
	files := map[string]string{"B.ddp": string(b)}
	writeCached(dir, files)
	return &Case{Space: s.Name(), ID: fmt.Sprintf("%d:%q", i, b), Root: dir, MainRel: "A.ddp", Source: []byte("Binde \"B\" ein.\n"), Extra: files}, func() { s.slots <- dir }
}
