package frontspace

import (
	"fmt"
	"os"
	"path/filepath"
	"strings"
)

// Plan is the ordered list of spaces of one tier. Cheap, shallow spaces come first so that a run
// that hits its internal deadline has completed whole spaces (reported as the largest bound completed).
type Plan struct {
	Spaces []Space
	Progs  []*Prog
	Bounds map[string]any
}

// Tokenize exposes the scanner-based tokenisation (byte spans) for the CLI seeds of C07.
func Tokenize(text []byte) ([]Span, bool) { return tokenize(text) }

// NewPlan builds the spaces of DESIGN §5 C03 for the tier inside scratch.
func NewPlan(tier, scratch string) (*Plan, error) {
	full, red := FullAlphabet(), ReducedAlphabet()
	nDuden := 2
	if tier == "thorough" {
		nDuden = 6
	}
	progs, err := LoadCorpus(filepath.Join(scratch, "corpus"), nDuden)
	if err != nil {
		return nil, err
	}
	slots := NewSlots(filepath.Join(scratch, "imp"), BatchPool().N()*MaxBatch+8)
	troot := filepath.Join(scratch, "tok")
	broot := filepath.Join(scratch, "bytes")
	os.MkdirAll(troot, 0o755)
	os.MkdirAll(broot, 0o755)
	p := &Plan{Progs: progs, Bounds: map[string]any{}}
	add := func(s Space) { p.Spaces = append(p.Spaces, s) }
	tok := func(alpha []Tok, L, lay int, ctx string) { add(NewTokenSpace(alpha, L, lay, ctx, troot)) }

	// (3) byte strings
	add(NewByteSpace(3, false, broot, slots))
	add(NewByteSpace(3, true, broot, slots))
	// (4) a small import space first: 2 files, one form per arrangement (cycles, self-imports, directories)
	add(NewImportSpace(2, FormPerArrangement, slots))
	// (1) token sequences, full alphabet up to length 2: every context in the one-line layout,
	// bare/prelude/block/func-body also in the line-break layouts
	var short []Space
	for L := 0; L <= 1; L++ {
		for _, cx := range Contexts {
			short = append(short, NewTokenSpace(full, L, 0, cx.Name, troot))
		}
	}
	add(NewConcat(fmt.Sprintf("tokens_len0-1_a%d_space_all-contexts", len(full)), short...))
	add(&IdentSpace{progs})
	for _, cx := range Contexts {
		if cx.Name != "prelude+Duden" {
			tok(full, 2, 0, cx.Name)
		}
	}
	// (2) corpus edits
	add(NewMutSpace(EdDelete, progs, 1))
	add(NewMutSpace(EdSwap, progs, 1))
	// (4) import arrangements
	add(NewImportSpace(2, FormPerImport, slots))
	for _, lay := range []int{1, 2} {
		for _, cx := range []string{"bare", "prelude", "block", "func-body"} {
			tok(full, 2, lay, cx)
		}
	}
	add(NewMutSpace(EdDuplicate, progs, 1))
	add(NewMutSpace(EdTruncate, progs, 1))
	add(NewMutSpace(EdCutMultibyte, progs, 1))
	if tier == "quick" {
		add(NewMutSpace(EdByteFF, progs, 16))
		// (1) length 3 over the reduced alphabet
		tok(red, 3, 0, "prelude")
		tok(red, 3, 2, "bare")
		tok(red, 3, 0, "if-then")
		p.Bounds["token_sequences"] = fmt.Sprintf("length<=2 over the full alphabet in %d contexts (one line) + 4 contexts x 2 line-break layouts; length 3 over the reduced alphabet in 3 context/layout combinations", len(Contexts))
		p.Bounds["corpus_edits"] = "delete/duplicate/swap/truncate at every token; 0xFF at every 16th byte; cut inside every multi-byte character"
		p.Bounds["import_arrangements"] = "2 files (+ fixed C, directories D, K, missing M), lists of <=2 imports, form chosen per import"
	} else {
		for _, k := range []int{EdDeleteLine, EdIndentLine, EdDedentLine} {
			add(NewMutSpace(k, progs, 1))
		}
		add(NewMutSpace(EdSplice, progs, 1))
		for _, cx := range Contexts {
			if cx.Name != "prelude+Duden" {
				tok(red, 3, 0, cx.Name)
			}
		}
		tok(red, 3, 2, "bare")
		add(NewMutSpace(EdByteFF, progs, 1))
		add(NewMutSpace(EdReplace, progs, 1))
		core := CoreAlphabet()
		tok(core, 4, 0, "prelude")
		tok(core, 4, 2, "bare")
		tok(full, 2, 0, "prelude+Duden")
		tok(full, 3, 0, "prelude")
		tok(full, 3, 2, "bare")
		tok(full, 3, 0, "if-then")
		add(NewImportSpace(3, FormPerArrangement, slots))
		add(NewImportSpace(3, FormPerFile, slots))
		p.Bounds["alphabet_core"] = len(core)
		p.Bounds["token_sequences"] = fmt.Sprintf("length<=2 over the full alphabet in %d contexts; length 3 over the reduced alphabet in every context and over the full alphabet in prelude (one line), bare (newline+tab), if-then; length 4 over the core alphabet (prelude one line, bare newline+tab)", len(Contexts))
		p.Bounds["corpus_edits"] = "delete/duplicate/swap/truncate/replace-by-44-structural-tokens at every token; delete/indent/dedent every line; every top-level chunk of the 12 smallest programs spliced before every top-level chunk of every program; 0xFF at every byte; cut inside every multi-byte character"
		p.Bounds["import_arrangements"] = "2 files, form per import; 3 files, form per arrangement and form per file"
	}
	p.Bounds["alphabet_full"] = len(full)
	p.Bounds["alphabet_reduced"] = len(red)
	p.Bounds["corpus_programs"] = len(progs)
	p.Bounds["byte_alphabet"] = "a \" [ 0x80 0xC3 0xA4 0xE2 0xF0 0xFF \\n, length<=3, as main file and as imported module"
	// development aid: VERIF_SPACES=prefix,prefix keeps only matching spaces (the run is then reported capped)
	if f := os.Getenv("VERIF_SPACES"); f != "" {
		var keep []Space
		for _, s := range p.Spaces {
			for _, pref := range strings.Split(f, ",") {
				if strings.HasPrefix(s.Name(), pref) {
					keep = append(keep, s)
					break
				}
			}
		}
		p.Spaces = keep
		p.Bounds["filtered_by_VERIF_SPACES"] = f
	}
	return p, nil
}
