// Package frontspace: the bounded input spaces of C03/C07 (DESIGN §5 C03 "Space" 1-4) as deterministic
// index -> case functions, plus the executor that runs one case on the REAL frontend inside a
// sacrificial worker process. Both checks enumerate the same spaces but apply their own oracle.
package frontspace

import (
	"sort"
	"strings"
	"unicode"
	"unicode/utf8"

	"github.com/DDP-Projekt/Kompilierer/src/token"
)

// Tok is one letter of the token alphabet.
type Tok struct {
	Type    token.TokenType
	Text    string // source spelling
	Keyword bool   // spelled by a keyword (is capitalised at the start of a sentence)
}

// FullAlphabet returns one spelling for every keyword token type of token.KeywordMap (the shortest,
// ties broken alphabetically, so umlaut spellings win over transliterations) followed by one
// representative of every other token class.
func FullAlphabet() []Tok {
	best := map[token.TokenType]string{}
	for w, t := range token.KeywordMap {
		b, ok := best[t]
		if !ok || utf8.RuneCountInString(w) < utf8.RuneCountInString(b) || (utf8.RuneCountInString(w) == utf8.RuneCountInString(b) && w < b) {
			best[t] = w
		}
	}
	var types []int
	for t := range best {
		types = append(types, int(t))
	}
	sort.Ints(types)
	var a []Tok
	for _, t := range types {
		a = append(a, Tok{token.TokenType(t), best[token.TokenType(t)], true})
	}
	a = append(a,
		Tok{token.INT, "1", false},
		Tok{token.FLOAT, "2,5", false},
		Tok{token.STRING, "\"s\"", false},
		Tok{token.STRING, "\"g <p>\"", false}, // a text that is also a well-formed alias pattern
		Tok{token.ALIAS_PARAMETER, "<a>", false}, // a placeholder (inside an alias string) / three symbols elsewhere
		Tok{token.CHAR, "'c'", false},
		Tok{token.IDENTIFIER, "x", false}, // declared variable (by the prelude)
		Tok{token.IDENTIFIER, "f", false}, // declared function (by the prelude), also the word of its alias
		Tok{token.IDENTIFIER, "y", false}, // never declared
		Tok{token.SYMBOL, "?", false},
		Tok{token.NEGATE, "-", false},
		Tok{token.DOT, ".", false},
		Tok{token.COMMA, ",", false},
		Tok{token.COLON, ":", false},
		Tok{token.LPAREN, "(", false},
		Tok{token.RPAREN, ")", false},
		Tok{token.ELIPSIS, "...", false},
		Tok{token.COMMENT, "[k]", false},
	)
	return a
}

// reducedTypes: statement/declaration starters and the structural tokens the recovery paths look at.
var reducedTypes = []token.TokenType{
	token.DER, token.DIE, token.DAS, token.WIR, token.ALIAS, token.FUNKTION, token.OEFFENTLICHE, token.GENERISCHE,
	token.KONSTANTE, token.BINDE, token.WENN, token.DANN, token.SONST, token.ABER, token.SOLANGE, token.MACHE,
	token.WIEDERHOLE, token.FÜR, token.JEDE, token.GIB, token.ZURÜCK, token.VERLASSE, token.FAHRE, token.SPEICHERE,
	token.ERHÖHE, token.NEGIERE, token.IN, token.IST, token.VON, token.BIS, token.ZAHL, token.TEXT, token.LISTE,
	token.ZAHLEN, token.REFERENZ, token.NENNEN, token.DEFINIEREN, token.KOMBINATION, token.AUS, token.MIT,
	token.STANDARDWERT, token.UND, token.ODER, token.NICHT, token.ALS, token.AN, token.STELLE, token.COUNT_MAL,
	token.EINE, token.STEHT, token.TYP, token.PARAMETER, token.PLUS, token.FALLS, token.TRUE, token.EXTERN,
}

// ReducedAlphabet is the ~70 token sub-alphabet used for the longest sequences.
func ReducedAlphabet() []Tok {
	want := map[token.TokenType]bool{}
	for _, t := range reducedTypes {
		want[t] = true
	}
	var a []Tok
	for _, t := range FullAlphabet() {
		if !t.Keyword || want[t.Type] {
			if t.Type == token.FLOAT || t.Type == token.SYMBOL || t.Type == token.COMMENT {
				continue
			}
			a = append(a, t)
		}
	}
	return a
}

var coreTypes = []token.TokenType{
	token.DER, token.DIE, token.WIR, token.ALIAS, token.FUNKTION, token.BINDE, token.WENN, token.DANN, token.SONST,
	token.SOLANGE, token.MACHE, token.FÜR, token.JEDE, token.GIB, token.ZURÜCK, token.SPEICHERE, token.IN, token.IST,
	token.VON, token.BIS, token.ZAHL, token.LISTE, token.UND, token.NICHT, token.ALS, token.COUNT_MAL, token.EINE,
	token.STEHT, token.NENNEN,
}

// CoreAlphabet is the ~40 token alphabet of the longest (length 4) sequences.
func CoreAlphabet() []Tok {
	want := map[token.TokenType]bool{}
	for _, t := range coreTypes {
		want[t] = true
	}
	var a []Tok
	for _, t := range ReducedAlphabet() {
		if t.Keyword && want[t.Type] {
			a = append(a, t)
		} else if !t.Keyword {
			switch t.Text {
			case "1", "\"s\"", "x", "f", "y", ".", ",", ":", "(", ")", "-":
				a = append(a, t)
			}
		}
	}
	return a
}

// StructuralTokens: the replacement tokens of the corpus mutation "replace token i by each of ~40 structural tokens".
func StructuralTokens() []string {
	return []string{".", ",", ":", "(", ")", "...", "-", "\"s\"", "'c'", "1", "2,5", "x", "?", "[k]",
		"Der", "Die", "Das", "Wir", "Alias", "Funktion", "Binde", "Wenn", "dann", "Sonst", "aber", "Solange", "Mache", "Wiederhole",
		"Für", "jede", "Gib", "zurück", "Verlasse", "Speichere", "in", "ist", "von", "Zahl", "Liste", "und", "nicht", "als", "Mal", "macht"}
}

func capitalize(s string) string {
	r, w := utf8.DecodeRuneInString(s)
	return string(unicode.ToUpper(r)) + s[w:]
}

// Render turns a token sequence into source text. sep is written between tokens. Keywords at the
// beginning of a sentence (start of text, after '.' or ':') are capitalised the way the scanner's
// strict mode demands, so that the sequence itself - not its capitalisation - is what is explored
// (lower-case sentence starts are covered by the mutation and byte spaces).
func Render(seq []Tok, sep string, sentenceStart bool) string {
	var sb strings.Builder
	for i, t := range seq {
		if i > 0 {
			sb.WriteString(sep)
		}
		s := t.Text
		if t.Keyword && sentenceStart {
			s = capitalize(s)
		}
		sb.WriteString(s)
		if t.Type != token.COMMENT {
			sentenceStart = t.Type == token.DOT || t.Type == token.COLON
		}
	}
	return sb.String()
}
