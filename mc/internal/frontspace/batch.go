package frontspace

import (
	"sync"
	"sync/atomic"
	"time"

	"ddpmc/internal/fe"
	"ddpmc/internal/par"
	"ddpmc/internal/pool"
)

// Batched execution. One request/response round trip per case costs two scheduler wake-ups, which
// dominates the ~100 µs parse when the machine is shared. A batch request carries up to 32 fe.Req
// that the worker answers one after the other with fe.Handle (the same worker process would have
// served them one after the other anyway). If a batch worker dies or misses the deadline, every
// case of the batch is re-executed alone (Executor.Exec, a batch of one with the retry rule) - that
// run, not the batch, decides the verdict of each case. The workers are an own kind ("febatch") of
// the shared pool package: they answer with fe.Handle like the "fe" workers of rx.CompPool() but cap
// the goroutine stack at 64 MB instead of Go's 1 GB, so that runaway recursion is reported after a
// fraction of a second instead of tens of seconds on a loaded machine.

type BatchReq struct {
	Reqs []fe.Req `json:"reqs"`
}
type BatchResp struct {
	Resps  []fe.Resp `json:"resps"`
	Micros []int64   `json:"us"`
}

// BatchHandle is the worker side (registered as worker kind "febatch" in cmd/ddpmc).
func BatchHandle(q *BatchReq) BatchResp {
	var r BatchResp
	for i := range q.Reqs {
		t0 := time.Now()
		r.Resps = append(r.Resps, fe.Handle(&q.Reqs[i]))
		r.Micros = append(r.Micros, time.Since(t0).Microseconds())
	}
	return r
}

var (
	batchOnce sync.Once
	batchPool *pool.Pool
)

func BatchPool() *pool.Pool {
	batchOnce.Do(func() { batchPool = pool.New("febatch", 0) })
	return batchPool
}

const MaxBatch = 32

// ExecBatch runs the cases; outcomes are in the same order.
func (x *Executor) ExecBatch(cases []*Case) ([]*Outcome, bool) {
	out := make([]*Outcome, len(cases))
	if len(cases) > 1 {
		q := BatchReq{}
		for _, c := range cases {
			x.prepare(c)
			q.Reqs = append(q.Reqs, fe.Req{Op: "parse", File: c.Main(), Source: c.Source, HasSrc: true, CheckRender: true})
		}
		var resp BatchResp
		st, log := BatchPool().Do(&q, &resp, x.Deadline())
		atomic.AddInt64(&x.Batches, 1)
		if st != pool.OK || len(resp.Resps) != len(cases) {
			atomic.AddInt64(&x.BatchesFailed, 1)
			x.mu.Lock()
			x.LastBatchLog = st.String() + ": " + log
			x.mu.Unlock()
		}
		if st == pool.OK && len(resp.Resps) == len(cases) {
			for i := range cases {
				o := &Outcome{Status: pool.OK, Resp: resp.Resps[i], Dur: time.Duration(resp.Micros[i]) * time.Microsecond}
				x.classify(o)
				out[i] = o
			}
			return out, true
		}
	}
	for i, c := range cases {
		if x.HangStorm() {
			out[i] = &Outcome{Skipped: true}
			continue
		}
		out[i] = x.Exec(c)
	}
	return out, len(cases) <= 1
}

// Explore runs fn on every case of sp, sharded over all cores with par.Range (the pools hand every
// goroutine an idle worker); returns the number of indices completed.
func Explore(sp Space, x *Executor, stop func() bool, fn func(c *Case, o *Outcome)) int64 {
	n := sp.Len()
	chunk := int64(256)
	if n < 16*256*4 {
		chunk = n/64 + 1
	}
	bsize := int64(MaxBatch) // adaptive: halves when a batch dies, grows back after 8 clean batches
	var clean, processed int64
	par.Range(n, chunk, stop, func(lo, hi int64) {
		for i := lo; i < hi; {
			if (stop != nil && stop()) || x.HangStorm() {
				return // budget exhausted inside a chunk: the rest of the chunk is not counted
			}
			first := i
			k := atomic.LoadInt64(&bsize)
			var cases []*Case
			var rel []func()
			for ; i < hi && int64(len(cases)) < k; i++ {
				c, r := sp.Get(i)
				if c == nil {
					continue
				}
				cases = append(cases, c)
				rel = append(rel, r)
			}
			if len(cases) == 0 {
				atomic.AddInt64(&processed, i-first)
				continue
			}
			outs, ok := x.ExecBatch(cases)
			if !ok {
				atomic.StoreInt64(&clean, 0)
				if k > 1 {
					atomic.CompareAndSwapInt64(&bsize, k, k/2)
				}
			} else if atomic.AddInt64(&clean, 1)%8 == 0 && k < MaxBatch {
				atomic.CompareAndSwapInt64(&bsize, k, k*2)
			}
			for j, c := range cases {
				if !outs[j].Skipped {
					fn(c, outs[j])
				}
				if rel[j] != nil {
					rel[j]()
				}
			}
			atomic.AddInt64(&processed, i-first)
		}
	})
	return atomic.LoadInt64(&processed)
}
