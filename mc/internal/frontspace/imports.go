package frontspace

import (
	"fmt"
	"os"
	"path/filepath"
	"strings"
	"sync"
)

// Import arrangements (space 4). Files A, B, C live in one directory together with
//
//	D/        a directory of modules (D/E.ddp, D/sub/F.ddp)            - clean directory import
//	K/        a directory whose module K/G.ddp imports "../A"          - a cycle through a directory
//	M         a name for which neither M.ddp nor M/ exists              - missing file
//
// Every file's import list is an ordered list of <= 2 items; an item is a target out of
// {A, B, C, M, D, K} (the file itself is among them: self-import) in one of four forms.
var ImpTargets = []string{"A", "B", "C", "M", "D", "K"}

const (
	FormWhole     = iota // Binde "B" ein.
	FormSelective        // Binde xB aus "B" ein.
	FormAll              // Binde alle Module aus "B" ein.
	FormRecursive        // Binde rekursiv alle Module aus "B" ein.
	nForms
)

var FormNames = [...]string{"whole", "selective", "alle-Module", "rekursiv-alle-Module"}

func importLine(target string, form int) string {
	switch form {
	case FormWhole:
		return fmt.Sprintf("Binde \"%s\" ein.\n", target)
	case FormSelective:
		return fmt.Sprintf("Binde x%s aus \"%s\" ein.\n", target, target)
	case FormAll:
		return fmt.Sprintf("Binde alle Module aus \"%s\" ein.\n", target)
	default:
		return fmt.Sprintf("Binde rekursiv alle Module aus \"%s\" ein.\n", target)
	}
}

// body of a module named n: a public variable and a public function with an alias, names unique per module
func moduleBody(n string) string {
	return fmt.Sprintf("Die öffentliche Zahl x%s ist 1.\n"+
		"Die öffentliche Funktion f%s gibt eine Zahl zurück, macht:\n"+
		"\tGib x%s zurück.\n"+
		"Und kann so benutzt werden:\n"+
		"\t\"hole %s\"\n", n, n, n, n)
}

// StaticImportFiles are the files every arrangement directory contains besides A, B, C.
func StaticImportFiles() map[string]string {
	return map[string]string{
		"D/E.ddp":     moduleBody("D"),
		"D/sub/F.ddp": moduleBody("F"),
		"D/notes.txt": "kein Modul\n",
		"K/G.ddp":     "Binde \"../A\" ein.\n" + moduleBody("K"),
	}
}

// an import list is coded as a number: 0 = empty, then single items, then ordered pairs
type impCoder struct {
	items int // number of distinct items
}

func (c impCoder) count() int64 { return 1 + int64(c.items) + int64(c.items)*int64(c.items) }
func (c impCoder) decode(i int64) []int {
	if i == 0 {
		return nil
	}
	i--
	if i < int64(c.items) {
		return []int{int(i)}
	}
	i -= int64(c.items)
	return []int{int(i / int64(c.items)), int(i % int64(c.items))}
}

// ImportSpace enumerates arrangements.
//
//	Files:     number of files with free import lists (2: A,B with targets {A,B,M,D,K}; 3: A,B,C with all 6)
//	Mode: the form is chosen per import item, once per file, or once per arrangement
type ImportSpace struct {
	NFiles    int
	Mode      int
	PerImport bool
	targets   []string
	coder     impCoder
	perFile   int64
	slots     chan string
}

const (
	FormPerImport = iota
	FormPerFile
	FormPerArrangement
)

func NewImportSpace(nfiles int, mode int, slots chan string) *ImportSpace {
	perImport := mode == FormPerImport
	s := &ImportSpace{NFiles: nfiles, Mode: mode, PerImport: perImport, slots: slots}
	s.targets = ImpTargets
	if nfiles == 2 {
		s.targets = []string{"A", "B", "M", "D", "K"}
	}
	if perImport {
		s.coder = impCoder{len(s.targets) * nForms}
		s.perFile = s.coder.count()
	} else if mode == FormPerFile {
		s.coder = impCoder{len(s.targets)}
		// empty list once, every non-empty list in each form
		s.perFile = 1 + (s.coder.count()-1)*nForms
	} else {
		s.coder = impCoder{len(s.targets)}
		s.perFile = s.coder.count()
	}
	return s
}

func (s *ImportSpace) Name() string {
	m := [...]string{"form-per-import", "form-per-file", "form-per-arrangement"}[s.Mode]
	return fmt.Sprintf("imports_%dfiles_%s", s.NFiles, m)
}

func (s *ImportSpace) Len() int64 {
	n := int64(1)
	for k := 0; k < s.NFiles; k++ {
		n *= s.perFile
	}
	if s.Mode == FormPerArrangement {
		n *= nForms
	}
	return n
}

// fileText decodes the import list number j of the file named name.
func (s *ImportSpace) fileText(name string, j int64, gform int) string {
	var sb strings.Builder
	if s.Mode == FormPerArrangement {
		for _, it := range s.coder.decode(j) {
			sb.WriteString(importLine(s.targets[it], gform))
		}
	} else if s.PerImport {
		for _, it := range s.coder.decode(j) {
			sb.WriteString(importLine(s.targets[it/nForms], it%nForms))
		}
	} else if j > 0 {
		j--
		form := int(j % nForms)
		for _, it := range s.coder.decode(j/nForms + 1) {
			sb.WriteString(importLine(s.targets[it], form))
		}
	}
	sb.WriteString(moduleBody(name))
	return sb.String()
}

func (s *ImportSpace) Arrangement(i int64) map[string]string {
	files := map[string]string{}
	names := []string{"A", "B", "C"}
	gform := 0
	if s.Mode == FormPerArrangement {
		gform = int(i % nForms)
		i /= nForms
	}
	for k := 0; k < 3; k++ {
		if k < s.NFiles {
			files[names[k]+".ddp"] = s.fileText(names[k], i%s.perFile, gform)
			i /= s.perFile
		} else {
			files[names[k]+".ddp"] = moduleBody(names[k])
		}
	}
	return files
}

func (s *ImportSpace) Get(i int64) (*Case, func()) {
	files := s.Arrangement(i)
	dir := <-s.slots
	writeCached(dir, files)
	all := StaticImportFiles()
	for k, v := range files {
		all[k] = v
	}
	return &Case{Space: s.Name(), ID: fmt.Sprint(i), Root: dir, MainRel: "A.ddp", Source: []byte(files["A.ddp"]), Extra: all}, func() { s.slots <- dir }
}

// NewSlots creates n private directories (each pre-populated with the static import files) that
// cases needing files on disk borrow for their lifetime.
func NewSlots(base string, n int) chan string {
	ch := make(chan string, n)
	for k := 0; k < n; k++ {
		d := filepath.Join(base, fmt.Sprintf("slot%02d", k))
		os.MkdirAll(d, 0o755)
		writeFiles(d, StaticImportFiles())
		ch <- d
	}
	return ch
}

// writeCached writes only the files whose content differs from what this slot directory holds
// (consecutive arrangements differ in one file most of the time).
var slotCache sync.Map // dir+"/"+name -> content

func writeCached(dir string, files map[string]string) {
	for n, c := range files {
		k := dir + "/" + n
		if old, ok := slotCache.Load(k); ok && old.(string) == c {
			continue
		}
		writeFiles(dir, map[string]string{n: c})
		slotCache.Store(k, c)
	}
}
