package frontspace

import (
	"encoding/json"
	"os"
	"path/filepath"
	"regexp"
	"sort"
	"strings"
	"sync"
	"sync/atomic"
	"time"

	"ddpmc/internal/fe"
	"ddpmc/internal/pool"
	"ddpmc/internal/rx"
)

// Case is one element of a space: a main file (absolute path + the text that is sent as its source)
// inside a root directory that holds every other file the case can reach (imports).
type Case struct {
	Space   string // name of the space
	ID      string // stable identity inside the space (index / edit description)
	Root    string // absolute directory of the case
	MainRel string // main file relative to Root
	Source  []byte // text of the main file
	// Extra returns the files of the case other than the main file (relative to Root); nil = walk Root.
	Extra map[string]string
	// Note is a human readable description of the edit
	Note string
	// Weight classes the case for the evidence (e.g. token sequence that reaches a declaration)
	Tags uint32
}

func (c *Case) Main() string { return filepath.Join(c.Root, c.MainRel) }

// Files collects every file of the case for a replay directory.
func (c *Case) Files() map[string]string {
	out := map[string]string{}
	if c.Extra != nil {
		for k, v := range c.Extra {
			out["files/"+k] = v
		}
	} else {
		filepath.Walk(c.Root, func(p string, info os.FileInfo, err error) error {
			if err != nil || info.IsDir() || info.Size() > 1<<20 {
				return nil
			}
			rel, _ := filepath.Rel(c.Root, p)
			if b, e := os.ReadFile(p); e == nil {
				out["files/"+rel] = string(b)
			}
			return nil
		})
	}
	out["files/"+c.MainRel] = string(c.Source)
	meta, _ := json.MarshalIndent(map[string]string{"space": c.Space, "id": c.ID, "main": c.MainRel, "note": c.Note}, "", " ")
	out["case.json"] = string(meta)
	return out
}

// LoadReplay materialises a replay directory written from Case.Files() into a fresh scratch root.
func LoadReplay(dir string) (*Case, func(), error) {
	b, err := os.ReadFile(filepath.Join(dir, "case.json"))
	if err != nil {
		return nil, nil, err
	}
	var meta map[string]string
	if err := json.Unmarshal(b, &meta); err != nil {
		return nil, nil, err
	}
	root := rx.Scratch("replay")
	src := filepath.Join(dir, "files")
	err = filepath.Walk(src, func(p string, info os.FileInfo, err error) error {
		if err != nil {
			return err
		}
		rel, _ := filepath.Rel(src, p)
		if info.IsDir() {
			return os.MkdirAll(filepath.Join(root, rel), 0o755)
		}
		data, e := os.ReadFile(p)
		if e != nil {
			return e
		}
		os.MkdirAll(filepath.Dir(filepath.Join(root, rel)), 0o755)
		return os.WriteFile(filepath.Join(root, rel), data, 0o644)
	})
	if err != nil {
		os.RemoveAll(root)
		return nil, nil, err
	}
	main, err := os.ReadFile(filepath.Join(root, meta["main"]))
	if err != nil {
		os.RemoveAll(root)
		return nil, nil, err
	}
	c := &Case{Space: meta["space"], ID: meta["id"], Root: root, MainRel: meta["main"], Source: main, Note: meta["note"]}
	return c, func() { os.RemoveAll(root) }, nil
}

// Space is a finite, deterministically indexed set of cases.
type Space interface {
	Name() string
	Len() int64
	// Get materialises case i (writing files if the case needs them on disk). The returned function
	// (may be nil) releases what the case holds. A nil case = the edit does not apply at this index.
	Get(i int64) (*Case, func())
}

// Outcome of running one case on the real frontend.
type Outcome struct {
	Status pool.Status
	Resp   fe.Resp
	Log    string // tail of the worker's stderr when it died / was killed
	Dur    time.Duration
	// Kind is "" when Parse returned normally (module or error value), otherwise
	// panic | died | hang | internal-error
	Kind string
	Site string // top-most repository frame of the crash ("parser/statements.go:ifStatement")
	// Timeouts counts attempts that hit the deadline (a case only counts as hang after 3)
	Timeouts int
	// Skipped: not executed because the run is in a hang storm (see Executor.HangStorm)
	Skipped bool
}

// Executor runs cases through the shared frontend worker pool and keeps the timing statistics the
// hang rule needs: deadline = max(30 s, 2000 x median case time).
type Executor struct {
	hist    [40]int64 // log2(µs) histogram of completed cases
	n       int64
	MinDead time.Duration
	mu      sync.Mutex
	// statistics of the batched path
	Batches, BatchesFailed int64
	// Hangs counts cases classified as hang. Every hanging case blocks a worker for 3 deadlines; after
	// MaxHangs of them the exploration stops (the run is reported capped, the hangs are reported).
	Hangs        int64
	LastBatchLog string
}

func NewExecutor() *Executor { return &Executor{MinDead: 30 * time.Second} }

const MaxHangs = 3

func (x *Executor) HangStorm() bool { return atomic.LoadInt64(&x.Hangs) >= MaxHangs }

func (x *Executor) record(d time.Duration) {
	us := d.Microseconds()
	b := 0
	for us > 0 && b < len(x.hist)-1 {
		us >>= 1
		b++
	}
	atomic.AddInt64(&x.hist[b], 1)
	atomic.AddInt64(&x.n, 1)
}

// Median returns (an upper bound of the bucket of) the median case duration.
func (x *Executor) Median() time.Duration {
	n := atomic.LoadInt64(&x.n)
	if n == 0 {
		return 0
	}
	var acc int64
	for b := range x.hist {
		acc += atomic.LoadInt64(&x.hist[b])
		if acc*2 >= n {
			return time.Duration(int64(1)<<uint(b)) * time.Microsecond
		}
	}
	return 0
}

func (x *Executor) Deadline() time.Duration {
	d := 2000 * x.Median()
	if d < x.MinDead {
		d = x.MinDead
	}
	return d
}

// Exec runs the case; a Timeout is retried twice on fresh workers before it counts as a hang.
func (x *Executor) prepare(c *Case) {
	if len(c.Source) == 0 {
		// fe.Req cannot carry an empty (non-nil) source: the worker reads the file instead
		main := c.Main()
		os.MkdirAll(filepath.Dir(main), 0o755)
		os.WriteFile(main, nil, 0o644)
	}
}

func (x *Executor) Exec(c *Case) *Outcome {
	main := c.Main()
	x.prepare(c)
	q := &BatchReq{Reqs: []fe.Req{{Op: "parse", File: main, Source: c.Source, HasSrc: true, CheckRender: true}}}
	o := &Outcome{}
	for attempt := 0; attempt < 3; attempt++ {
		var resp BatchResp
		t0 := time.Now()
		st, log := BatchPool().Do(q, &resp, x.Deadline())
		o.Status, o.Log, o.Dur = st, log, time.Since(t0)
		if st == pool.OK && len(resp.Resps) == 1 {
			o.Resp = resp.Resps[0]
			o.Dur = time.Duration(resp.Micros[0]) * time.Microsecond
		} else if st == pool.OK {
			o.Status, o.Log = pool.Died, "worker answered a malformed batch"
		}
		if st == pool.Timeout {
			o.Timeouts++
			continue
		}
		break
	}
	x.classify(o)
	return o
}

func (x *Executor) classify(o *Outcome) {
	switch {
	case o.Status == pool.Timeout:
		o.Kind, o.Site = "hang", "unknown"
		atomic.AddInt64(&x.Hangs, 1)
	case o.Status == pool.Died:
		o.Kind, o.Site = "died", DiedSite(o.Log)
	case o.Resp.Panic != "":
		o.Kind, o.Site = "panic", Site(o.Resp.Stack)
	case o.Resp.Internal:
		// a *ParserError handed back as error value: a recovered crash
		o.Kind, o.Site = "internal-error", Site(o.Resp.Err)
	default:
		x.record(o.Dur)
	}
}

var funcLineRe = regexp.MustCompile(`(?m)^(github\.com/DDP-Projekt/Kompilierer/[^\n]*)\n\t(\S+\.go):(\d+)`)

type frame struct{ fn, file string }

// frames lists the repository frames of a Go stack trace top-down as (function, file relative to src/).
func frames(stack string) []frame {
	var out []frame
	for _, m := range funcLineRe.FindAllStringSubmatch(stack, -1) {
		fn := strings.TrimPrefix(m[1], "github.com/DDP-Projekt/Kompilierer/")
		// cut the argument list: the last '(' that opens the arguments
		if i := strings.LastIndex(fn, "("); i > 0 {
			fn = fn[:i]
		}
		// drop the package path, keep receiver-less function name
		if i := strings.LastIndex(fn, "/"); i >= 0 {
			fn = fn[i+1:]
		}
		// "parser.(*parser).ifStatement" -> "ifStatement"; "parser.Parse" -> "Parse"; closures keep ".func1"
		if i := strings.Index(fn, "."); i >= 0 {
			fn = fn[i+1:]
		}
		if strings.HasPrefix(fn, "(") {
			if j := strings.Index(fn, ")."); j >= 0 {
				fn = fn[j+2:]
			}
		}
		fn = strings.TrimSuffix(fn, "[...]")
		file := m[2]
		if i := strings.Index(file, "/src/"); i >= 0 {
			file = file[i+5:]
		} else if i := strings.Index(file, "/cmd/"); i >= 0 {
			file = file[i+1:]
		} else {
			file = filepath.Base(file)
		}
		out = append(out, frame{fn, file})
	}
	return out
}

func isWrapper(fn string) bool {
	return strings.Contains(fn, "panic_wrapper") || strings.Contains(fn, "panicWrapper") || fn == "panic"
}

// Site names the top-most repository frame of a stack trace, skipping the panic wrappers/helpers:
// "parser/statements.go:ifStatement". Line numbers are left out so that the key survives unrelated edits.
func Site(stack string) string {
	for _, f := range frames(stack) {
		if isWrapper(f.fn) {
			continue
		}
		return f.file + ":" + f.fn
	}
	return "unknown"
}

// DiedSite names the crash site of a worker that died. For a stack overflow the top frame is
// whichever member of the recursion cycle happened to hit the limit, so the alphabetically smallest
// function among the top frames is used: one key per recursion cycle.
func DiedSite(log string) string {
	f := strings.Index(log, "fatal error")
	if f < 0 {
		f = 0
	}
	// the goroutine that was running is printed first after the fatal error line
	if i := strings.Index(log[f:], "\ngoroutine "); i >= 0 && (strings.Contains(log, "stack overflow") || strings.Contains(log, "fatal error")) {
		g := log[f+i+1:]
		if j := strings.Index(g, "\ngoroutine "); j >= 0 {
			g = g[:j]
		}
		fs := frames(g)
		if strings.Contains(log, "stack overflow") || strings.Contains(log, "stack exceeds") {
			if len(fs) > 24 {
				fs = fs[:24]
			}
			var names []string
			for _, f := range fs {
				if !isWrapper(f.fn) {
					names = append(names, f.file+":"+f.fn)
				}
			}
			if len(names) > 0 {
				sort.Strings(names)
				return names[0]
			}
		}
		for _, f := range fs {
			if !isWrapper(f.fn) {
				return f.file + ":" + f.fn
			}
		}
	}
	s := Site(log)
	if s == "unknown" {
		switch {
		case strings.Contains(log, "out of memory") || strings.Contains(log, "cannot allocate memory"):
			return "out-of-memory"
		case strings.Contains(log, "stack overflow"):
			return "stack-overflow"
		}
	}
	return s
}

// Concat presents several small spaces as one index range (avoids per-space fan-out overhead).
type Concat struct {
	Label string
	Parts []Space
	offs  []int64
}

func NewConcat(label string, parts ...Space) *Concat {
	c := &Concat{Label: label, Parts: parts}
	n := int64(0)
	for _, p := range parts {
		c.offs = append(c.offs, n)
		n += p.Len()
	}
	c.offs = append(c.offs, n)
	return c
}
func (c *Concat) Name() string { return c.Label }
func (c *Concat) Len() int64   { return c.offs[len(c.offs)-1] }
func (c *Concat) Get(i int64) (*Case, func()) {
	k := sort.Search(len(c.Parts), func(k int) bool { return c.offs[k+1] > i })
	return c.Parts[k].Get(i - c.offs[k])
}
