// Package par: deterministic sharding of index spaces over goroutines.
package par

import (
	"runtime"
	"sync"
	"sync/atomic"
)

// Range calls fn(i) for every i in [0,n) on all cores, in chunks. fn must be goroutine-safe.
// stop() is polled between chunks; returns the number of indices completed (== n when not stopped,
// completed chunks otherwise).
func Range(n int64, chunk int64, stop func() bool, fn func(lo, hi int64)) int64 {
	if chunk <= 0 {
		chunk = 1
	}
	var next, done int64
	var wg sync.WaitGroup
	w := runtime.NumCPU()
	for k := 0; k < w; k++ {
		wg.Add(1)
		go func() {
			defer wg.Done()
			for {
				if stop != nil && stop() {
					return
				}
				lo := atomic.AddInt64(&next, chunk) - chunk
				if lo >= n {
					return
				}
				hi := lo + chunk
				if hi > n {
					hi = n
				}
				fn(lo, hi)
				atomic.AddInt64(&done, hi-lo)
			}
		}()
	}
	wg.Wait()
	return done
}

// Each runs fn over items with w workers.
func Each[T any](items []T, w int, fn func(i int, it T)) {
	if w <= 0 {
		w = runtime.NumCPU()
	}
	var next int64
	var wg sync.WaitGroup
	for k := 0; k < w; k++ {
		wg.Add(1)
		go func() {
			defer wg.Done()
			for {
				i := int(atomic.AddInt64(&next, 1) - 1)
				if i >= len(items) {
					return
				}
				fn(i, items[i])
			}
		}()
	}
	wg.Wait()
}
