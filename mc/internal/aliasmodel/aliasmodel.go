// Package aliasmodel: vocabulary, reference model and state checks for C20 (alias trie).
//
// The implementation under test is the real at.Trie[*token.Token, int] created with the parser's own
// key predicates (tokenEqual, tokenLess). The reference is a plain list of the inserted keys with
// linear search; it never orders anything, so it cannot share the suspected defect (an ordering that is
// not consistent with the equality).
package aliasmodel

import (
	"fmt"
	"sort"
	"strings"

	"github.com/DDP-Projekt/Kompilierer/src/ddptypes"
	at "github.com/DDP-Projekt/Kompilierer/src/parser/alias_trie"
	"github.com/DDP-Projekt/Kompilierer/src/token"
)

type Pred = func(a, b *token.Token) bool

type Trie = at.Trie[*token.Token, int]

// VTok is one vocabulary token. Ins is the pointer used inside inserted keys, Qry a different pointer
// with the same content used for lookups (the parser also scans every alias anew, so the pointer
// short-cut of tokenEqual never fires between a declaration and a later declaration).
type VTok struct {
	Name  string
	Param bool
	// Class: identity of (IsReference, underlying type identity) assigned by construction. Two
	// placeholders are the same parameter type iff their classes are equal (type aliases share the
	// class of their underlying type). 0 for non-placeholders.
	Class int
	// Print: everything the printed form of the parameter type shows (reference?, list?, name).
	Print string
	Ins   *token.Token
	Qry   *token.Token
}

func mk(name string, typ token.TokenType, lit string) *VTok {
	return &VTok{Name: name, Ins: &token.Token{Type: typ, Literal: lit}, Qry: &token.Token{Type: typ, Literal: lit}}
}

func mkParam(pname string, tname string, class int, t ddptypes.Type, ref bool) *VTok {
	a, b := ddptypes.ParameterType{Type: t, IsReference: ref}, ddptypes.ParameterType{Type: t, IsReference: ref}
	lit := "<" + pname + ">"
	if ref {
		class += 1000
	}
	return &VTok{Name: "<" + pname + ":" + tname + ">", Param: true, Class: class,
		Print: fmt.Sprintf("ref=%v list=%v %s", ref, ddptypes.IsList(t), ddptypes.GetUnderlying(t).String()),
		Ins:   &token.Token{Type: token.ALIAS_PARAMETER, Literal: lit, AliasInfo: &a},
		Qry:   &token.Token{Type: token.ALIAS_PARAMETER, Literal: lit, AliasInfo: &b}}
}

// The type zoo. K1 and K2 are two different Kombinationen that are both called "K" (as declared by two
// modules), KDef is a type definition called "K".
var (
	tAlias  = &ddptypes.TypeAlias{Name: "Hausnummer", Underlying: ddptypes.ZAHL, GramGender: ddptypes.FEMININ}
	tLAlias = &ddptypes.TypeAlias{Name: "Zahlenreihe", Underlying: ddptypes.ListType{ElementType: ddptypes.ZAHL}, GramGender: ddptypes.FEMININ}
	tDef    = &ddptypes.TypeDef{Name: "Nummer", Underlying: ddptypes.ZAHL, GramGender: ddptypes.FEMININ}
	tK1     = &ddptypes.StructType{Name: "K", GramGender: ddptypes.FEMININ, Fields: []ddptypes.StructField{{Name: "x", Type: ddptypes.ZAHL}}}
	tK2     = &ddptypes.StructType{Name: "K", GramGender: ddptypes.FEMININ, Fields: []ddptypes.StructField{{Name: "y", Type: ddptypes.TEXT}}}
	tKDef   = &ddptypes.TypeDef{Name: "K", Underlying: ddptypes.ZAHL, GramGender: ddptypes.FEMININ}
)

func list(t ddptypes.Type) ddptypes.Type { return ddptypes.ListType{ElementType: t} }

// all tokens by short name
func zoo() map[string]*VTok {
	m := map[string]*VTok{}
	add := func(short string, v *VTok) { m[short] = v }
	add("foo", mk("foo", token.IDENTIFIER, "foo"))
	add("bar", mk("bar", token.IDENTIFIER, "bar"))
	add("1", mk("1", token.INT, "1"))
	add("+", mk("+", token.SYMBOL, "+"))
	add("der", mk("der", token.DER, "der"))
	add("Zahl", mkParam("a", "Zahl", 1, ddptypes.ZAHL, false))
	add("bZahl", mkParam("b", "Zahl", 1, ddptypes.ZAHL, false)) // other parameter name, same type
	add("ZahlRef", mkParam("a", "Zahl Referenz", 1, ddptypes.ZAHL, true))
	add("Text", mkParam("a", "Text", 2, ddptypes.TEXT, false))
	add("Buchstabe", mkParam("a", "Buchstabe", 3, ddptypes.BUCHSTABE, false))
	add("ZahlL", mkParam("a", "Zahlen Liste", 4, list(ddptypes.ZAHL), false))
	add("TextL", mkParam("a", "Text Liste", 5, list(ddptypes.TEXT), false))
	add("Alias", mkParam("a", "alias(Hausnummer=Zahl)", 1, tAlias, false))
	add("AliasL", mkParam("a", "alias(Hausnummer=Zahl) Liste", 4, list(tAlias), false))
	add("LAlias", mkParam("a", "alias(Zahlenreihe=Zahlen Liste)", 4, tLAlias, false)) // a named alias OF a list type
	add("Def", mkParam("a", "typedef(Nummer:Zahl)", 6, tDef, false))
	add("DefL", mkParam("a", "typedef(Nummer:Zahl) Liste", 7, list(tDef), false))
	add("K1", mkParam("a", "K#1", 8, tK1, false))
	add("K2", mkParam("a", "K#2", 9, tK2, false))
	add("KDef", mkParam("a", "typedef(K:Zahl)", 10, tKDef, false))
	add("K1L", mkParam("a", "K#1 Liste", 11, list(tK1), false))
	add("K2L", mkParam("a", "K#2 Liste", 12, list(tK2), false))
	add("KDefL", mkParam("a", "typedef(K:Zahl) Liste", 13, list(tKDef), false))
	add("K1Ref", mkParam("a", "K#1 Referenz", 8, tK1, true))
	add("K2Ref", mkParam("a", "K#2 Referenz", 9, tK2, true))
	add("Var", mkParam("a", "Variable", 14, ddptypes.VARIABLE, false))
	return m
}

var vocabularies = map[string][]string{
	"full": {"foo", "bar", "1", "+", "der", "Zahl", "bZahl", "ZahlRef", "Text", "Buchstabe", "ZahlL", "TextL", "Alias", "AliasL", "LAlias", "Def", "DefL",
		"K1", "K2", "KDef", "K1L", "K2L", "KDefL", "K1Ref", "K2Ref", "Var"},
	"R4":  {"foo", "Zahl", "K1", "K2"},
	"R5":  {"foo", "Zahl", "K1", "K2", "K1L"},
	"R6":  {"foo", "bar", "Zahl", "K1", "K2", "KDef"},
	"R7":  {"foo", "bar", "Zahl", "Alias", "K1", "K2", "KDef"},
	"R10": {"foo", "bar", "1", "Zahl", "Alias", "ZahlRef", "K1", "K2", "KDef", "K2L"},
}

// Space is one bounded exploration space: a vocabulary, all keys up to KeyLen over it and all call
// streams up to StreamLen over the call alphabet.
type Space struct {
	Name      string
	VocName   string
	KeyLen    int
	StreamLen int
	Voc       []*VTok
	Keys      [][]uint8 // the key universe; a key is a list of vocabulary indices
	Calls     []*token.Token
	CallNames []string
	Streams   [][]uint8
	Eq, Less  Pred
	eqm       [][]bool // eqm[q][s] = Eq(Voc[q].Qry, Voc[s].Ins)
	ceq       [][]bool // ceq[c][s] = Eq(Calls[c], Voc[s].Ins)
	argLike   []bool   // call token c is accepted by a placeholder
	eof       *token.Token
	idx       map[*token.Token]int
	qryKeys   [][]*token.Token
	insKeys   [][]*token.Token
	strToks   [][]*token.Token
	strArg    [][]bool
}

func NewSpace(name, vocName string, keyLen, streamLen int, eq, less Pred) *Space {
	z := zoo()
	sp := &Space{Name: name, VocName: vocName, KeyLen: keyLen, StreamLen: streamLen, Eq: eq, Less: less, eof: &token.Token{Type: token.EOF}}
	for _, n := range vocabularies[vocName] {
		v, ok := z[n]
		if !ok {
			panic("unknown vocabulary token " + n)
		}
		sp.Voc = append(sp.Voc, v)
	}
	n := len(sp.Voc)
	var gen func(prefix []uint8, l int)
	for L := 1; L <= keyLen; L++ {
		gen = func(prefix []uint8, l int) {
			if l == 0 {
				sp.Keys = append(sp.Keys, append([]uint8(nil), prefix...))
				return
			}
			for i := 0; i < n; i++ {
				gen(append(prefix, uint8(i)), l-1)
			}
		}
		gen(nil, L)
	}
	// call alphabet: what can stand at a call site
	for _, c := range []struct {
		n string
		t token.TokenType
	}{{"foo", token.IDENTIFIER}, {"bar", token.IDENTIFIER}, {"1", token.INT}, {"+", token.SYMBOL}, {"der", token.DER}} {
		sp.Calls = append(sp.Calls, &token.Token{Type: c.t, Literal: c.n})
		sp.CallNames = append(sp.CallNames, c.n)
		switch c.t {
		case token.INT, token.FLOAT, token.TRUE, token.FALSE, token.CHAR, token.STRING, token.IDENTIFIER, token.SYMBOL:
			sp.argLike = append(sp.argLike, true)
		default:
			sp.argLike = append(sp.argLike, false)
		}
	}
	nc := len(sp.Calls)
	for L := 1; L <= streamLen; L++ {
		gen = func(prefix []uint8, l int) {
			if l == 0 {
				sp.Streams = append(sp.Streams, append([]uint8(nil), prefix...))
				return
			}
			for i := 0; i < nc; i++ {
				gen(append(prefix, uint8(i)), l-1)
			}
		}
		gen(nil, L)
	}
	sp.idx = map[*token.Token]int{}
	for i, v := range sp.Voc {
		sp.idx[v.Ins] = i
	}
	for _, k := range sp.Keys {
		q, in := make([]*token.Token, len(k)), make([]*token.Token, len(k))
		for i, v := range k {
			q[i], in[i] = sp.Voc[v].Qry, sp.Voc[v].Ins
		}
		sp.qryKeys, sp.insKeys = append(sp.qryKeys, q), append(sp.insKeys, in)
	}
	for _, st := range sp.Streams {
		t, a := make([]*token.Token, len(st)), make([]bool, len(st))
		for i, c := range st {
			t[i], a[i] = sp.Calls[c], sp.argLike[c]
		}
		sp.strToks, sp.strArg = append(sp.strToks, t), append(sp.strArg, a)
	}
	sp.eqm = make([][]bool, n)
	for q := range sp.eqm {
		sp.eqm[q] = make([]bool, n)
		for s := range sp.eqm[q] {
			sp.eqm[q][s] = eq(sp.Voc[q].Qry, sp.Voc[s].Ins)
		}
	}
	sp.ceq = make([][]bool, nc)
	for c := range sp.ceq {
		sp.ceq[c] = make([]bool, n)
		for s := range sp.ceq[c] {
			sp.ceq[c][s] = eq(sp.Calls[c], sp.Voc[s].Ins)
		}
	}
	return sp
}

func (sp *Space) KeyString(k []uint8) string {
	var p []string
	for _, i := range k {
		p = append(p, sp.Voc[i].Name)
	}
	return strings.Join(p, " ")
}

func (sp *Space) HistString(h []uint16) string {
	var p []string
	for _, k := range h {
		p = append(p, "["+sp.KeyString(sp.Keys[k])+"]")
	}
	return strings.Join(p, ", ")
}

func (sp *Space) StreamString(s []uint8) string {
	var p []string
	for _, i := range s {
		p = append(p, sp.CallNames[i])
	}
	return strings.Join(p, " ")
}

// ---- reference model: the list of inserted keys -----------------------------------------------

// refContains: is q a path of the trie (prefix of an inserted key) and which value sits exactly at q.
func (sp *Space) refContains(h []uint16, q []uint8) (found bool, val int) {
	for _, ki := range h {
		s := sp.Keys[ki]
		if len(s) < len(q) {
			continue
		}
		ok := true
		for i := range q {
			if !sp.eqm[q[i]][s[i]] {
				ok = false
				break
			}
		}
		if ok {
			found = true
			if len(s) == len(q) {
				val = int(ki) + 1
			}
		}
	}
	return
}

// RefDeclared: would a declaration of key q be a duplicate (an equal key carries a value)?
func (sp *Space) RefDeclared(h []uint16, q uint16) bool {
	_, v := sp.refContains(h, sp.Keys[q])
	return v != 0
}

// refSearch: values of all inserted keys that match a prefix of the call stream.
// exact=false: placeholders accept any single argument-like token (alias.go); exact=true: stream of
// vocabulary tokens compared with the key predicate only.
func (sp *Space) refSearch(h []uint16, stream []uint8, exact bool) []int {
	var out []int
	for _, ki := range h {
		s := sp.Keys[ki]
		if len(s) > len(stream) {
			continue
		}
		ok := true
		for i := range s {
			if exact {
				ok = sp.eqm[stream[i]][s[i]]
			} else if sp.Voc[s[i]].Param {
				ok = sp.argLike[stream[i]]
			} else {
				ok = sp.ceq[stream[i]][s[i]]
			}
			if !ok {
				break
			}
		}
		if ok {
			out = append(out, int(ki)+1)
		}
	}
	if len(out) > 1 {
		sort.Ints(out)
	}
	return out
}

// ---- the implementation side -------------------------------------------------------------------

// Build replays an insertion history on a fresh real trie.
func (sp *Space) Build(h []uint16) (tr *Trie, pan any) {
	defer func() {
		if r := recover(); r != nil {
			pan = r
		}
	}()
	tr = at.New[*token.Token, int](sp.Eq, sp.Less)
	for _, ki := range h {
		tr.Insert(sp.insKeys[ki], int(ki)+1)
	}
	return
}

type node struct {
	tok      int // vocabulary index, -1 root
	depth    int
	hasValue bool
	value    int
	nch      int
}

func (sp *Space) walk(tr *Trie) []node {
	idx := sp.idx
	ns := make([]node, 0, 16)
	tr.VerifWalk(func(depth int, key *token.Token, hasValue bool, value int, nch int) {
		t := -1
		if depth > 0 {
			var ok bool
			if t, ok = idx[key]; !ok {
				t = -2
			}
		}
		ns = append(ns, node{t, depth, hasValue, value, nch})
	})
	return ns
}

// Canon: the full pre-order walk including child order, node keys (vocabulary index) and values.
// Every operation of the trie reads nothing but this (plus the pure key predicates), so two tries
// with the same Canon behave identically under every future operation sequence.
func canonOf(ns []node) string {
	b := make([]byte, 0, len(ns)*4)
	for _, n := range ns {
		v := 0
		if n.hasValue {
			v = n.value + 1
		}
		b = append(b, byte(n.tok+2), byte(v>>8), byte(v), byte(n.nch))
	}
	return string(b)
}

func (sp *Space) Canon(tr *Trie) string { return canonOf(sp.walk(tr)) }

// searcher drives the real Search with the parser's generator (alias.go:alias): a cursor into the call
// stream that is remembered per node index; placeholders swallow one argument-like token, everything
// else is compared with the next stream token. One searcher is reused for all searches of a state.
type searcher struct {
	sp      *Space
	stream  []*token.Token
	argLike []bool
	exact   bool
	cur     int
	start   []int
	gen     at.TrieKeyGen[*token.Token]
}

func (sp *Space) newSearcher() *searcher {
	s := &searcher{sp: sp, start: make([]int, 0, 32)}
	s.gen = func(nodeIndex int, tok *token.Token) (*token.Token, bool) {
		if nodeIndex < len(s.start) {
			if i := s.start[nodeIndex]; i == -1 {
				s.start[nodeIndex] = s.cur
			} else {
				s.cur = i
			}
		} else {
			for n := nodeIndex - len(s.start) + 1; n > 0; n-- {
				s.start = append(s.start, -1)
			}
			s.start[nodeIndex] = s.cur
		}
		if !s.exact && tok.Type == token.ALIAS_PARAMETER {
			// peek: only single-token arguments occur in the call alphabet
			if s.cur < len(s.stream) && s.argLike[s.cur] {
				s.cur++
				return tok, true
			}
		}
		// advance
		if s.cur >= len(s.stream) {
			return sp.eof, true
		}
		s.cur++
		return s.stream[s.cur-1], true
	}
	return s
}

func (s *searcher) run(tr *Trie, stream []*token.Token, argLike []bool, exact bool) (vals []int, pan any) {
	defer func() {
		if r := recover(); r != nil {
			pan = r
		}
	}()
	s.stream, s.argLike, s.exact, s.cur, s.start = stream, argLike, exact, 0, s.start[:0]
	vals = tr.Search(s.gen)
	if len(vals) > 1 {
		sort.Ints(vals)
	}
	return
}

type Failure struct {
	Kind   string // contains-miss, contains-phantom, contains-value, duplicate-sibling, search-panic, search-mismatch, insert-panic, walk-mismatch, copy-differs
	Detail string
	// PrintAlike: some node of the trie has two children whose placeholder types are different
	// types that print alike (the population for which tokenLess cannot order what tokenEqual separates)
	PrintAlike bool
}

func eqInts(a, b []int) bool {
	if len(a) != len(b) {
		return false
	}
	for i := range a {
		if a[i] != b[i] {
			return false
		}
	}
	return true
}

// Check replays h and compares the real trie with the reference on every observation of the space.
// It returns the canonical form of the reached state and all disagreements (at most one per kind).
func (sp *Space) Check(h []uint16, full bool) (canon string, fails []Failure, nobs int64) {
	add := func(kind, detail string) {
		for _, f := range fails {
			if f.Kind == kind {
				return
			}
		}
		fails = append(fails, Failure{Kind: kind, Detail: detail})
	}
	tr, pan := sp.Build(h)
	if pan != nil {
		add("insert-panic", fmt.Sprint(pan))
		return "", fails, 1
	}
	ns := sp.walk(tr)
	canon = canonOf(ns)
	if !full {
		return canon, nil, 0
	}
	// sibling uniqueness + print-alike classification + value bookkeeping
	printAlike := false
	{
		var stack [][]int // children (vocab idx) per open depth
		stack = append(stack, nil)
		vals := []int{}
		for _, n := range ns {
			if n.hasValue {
				vals = append(vals, n.value)
			}
			if n.depth == 0 {
				continue
			}
			stack = stack[:n.depth]
			sib := stack[n.depth-1]
			for _, o := range sib {
				if n.tok >= 0 && o >= 0 {
					if sp.eqm[n.tok][o] || sp.eqm[o][n.tok] {
						add("duplicate-sibling", fmt.Sprintf("one node has two children with equal keys %s and %s", sp.Voc[o].Name, sp.Voc[n.tok].Name))
					}
					a, b := sp.Voc[n.tok], sp.Voc[o]
					if a.Param && b.Param && a.Class != b.Class && a.Print == b.Print {
						printAlike = true
					}
				}
			}
			stack[n.depth-1] = append(sib, n.tok)
			stack = append(stack, nil)
		}
		sort.Ints(vals)
		want := make([]int, len(h))
		for i, k := range h {
			want[i] = int(k) + 1
		}
		sort.Ints(want)
		if !eqInts(vals, want) {
			add("walk-mismatch", fmt.Sprintf("values stored in the trie %v, inserted %v", vals, want))
		}
		nobs++
	}
	// Contains for every key of the universe
	for qi, q := range sp.Keys {
		got, gv := tr.Contains(sp.qryKeys[qi])
		want, wv := sp.refContains(h, q)
		nobs++
		switch {
		case want && !got:
			add("contains-miss", fmt.Sprintf("Contains([%s]) = false, but that path was inserted", sp.KeyString(q)))
		case !want && got:
			add("contains-phantom", fmt.Sprintf("Contains([%s]) = true, but no such path was inserted", sp.KeyString(q)))
		case want && got && gv != wv:
			add("contains-value", fmt.Sprintf("Contains([%s]) returned value %d, expected %d", sp.KeyString(q), gv, wv))
		}
	}
	// Search: enumerate everything through the exported API (generator answers with the child key itself)
	{
		var all []int
		var p any
		func() {
			defer func() { p = recover() }()
			all = tr.Search(func(_ int, k *token.Token) (*token.Token, bool) { return k, true })
		}()
		nobs++
		if p != nil {
			add("search-panic", fmt.Sprintf("Search(match-all) panicked: %v", p))
		} else {
			sort.Ints(all)
			want := make([]int, len(h))
			for i, k := range h {
				want[i] = int(k) + 1
			}
			sort.Ints(want)
			if !eqInts(all, want) {
				add("search-mismatch", fmt.Sprintf("Search(match-all) returned %v, inserted %v", all, want))
			}
		}
	}
	// Search for every call stream, with the parser's generator
	// a panic inside Search is a hardware fault (nil dereference) that costs a signal round trip: once
	// a state is known to make Search panic, the remaining searches of THIS state are skipped
	srch := sp.newSearcher()
	panicked := false
	for _, f := range fails {
		panicked = panicked || f.Kind == "search-panic"
	}
	for si, s := range sp.Streams {
		if panicked {
			break
		}
		got, p := srch.run(tr, sp.strToks[si], sp.strArg[si], false)
		nobs++
		if p != nil {
			add("search-panic", fmt.Sprintf("Search(call %q) panicked: %v", sp.StreamString(s), p))
			panicked = true
			continue
		}
		if want := sp.refSearch(h, s, false); !eqInts(got, want) {
			add("search-mismatch", fmt.Sprintf("Search(call %q) returned values %v, expected %v", sp.StreamString(s), got, want))
		}
	}
	// exact search for every key of the universe (stream of vocabulary tokens, key predicate only)
	for qi, q := range sp.Keys {
		if panicked {
			break
		}
		got, p := srch.run(tr, sp.qryKeys[qi], nil, true)
		nobs++
		if p != nil {
			add("search-panic", fmt.Sprintf("Search(exact [%s]) panicked: %v", sp.KeyString(q), p))
			panicked = true
			continue
		}
		if want := sp.refSearch(h, q, true); !eqInts(got, want) {
			add("search-mismatch", fmt.Sprintf("Search(exact [%s]) returned values %v, expected %v", sp.KeyString(q), got, want))
		}
	}
	// Copy (used for generic instantiation contexts) must reproduce the state
	{
		var cp *Trie
		var p any
		func() {
			defer func() { p = recover() }()
			cp = at.Copy(tr)
		}()
		nobs++
		if p != nil {
			add("copy-differs", fmt.Sprintf("Copy panicked: %v", p))
		} else if c2 := sp.Canon(cp); c2 != canon {
			add("copy-differs", "Copy of the trie has a different structure than the original")
		}
	}
	for i := range fails {
		fails[i].PrintAlike = printAlike
	}
	return canon, fails, nobs
}

// Dump renders the trie reached by h (for WHAT.txt).
func (sp *Space) Dump(h []uint16) string {
	tr, pan := sp.Build(h)
	if pan != nil {
		return fmt.Sprint("insert panicked: ", pan)
	}
	var sb strings.Builder
	for _, n := range sp.walk(tr) {
		name := "(root)"
		if n.tok >= 0 {
			name = sp.Voc[n.tok].Name
		}
		fmt.Fprintf(&sb, "%s%s", strings.Repeat("  ", n.depth), name)
		if n.hasValue {
			fmt.Fprintf(&sb, " = key#%d", n.value-1)
		}
		sb.WriteString("\n")
	}
	return sb.String()
}
