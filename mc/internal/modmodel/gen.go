package modmodel

import (
	"fmt"
	"strings"
)

// ---- the fixed, label-independent menu ---------------------------------------------------
//
// Library module x (directory x/, file x/mod.ddp — ALL library files have the same base name)
// declares
//
//	public, name carries the label:  oeff_f_x (function), oeff_v_x, abh_v_x (variables),
//	                                 oeff_k_x (constant), OeffTyp_x (Kombination: public field
//	                                 oeff_feld, private field priv_feld)
//	private, SAME name in every module (main included):
//	                                 priv_f, melde_init (functions), priv_v, teil_<i> (variables),
//	                                 priv_k (constant), PrivTyp (Kombination, same field names)
//	SAME name in every module, public in some and private in others:
//	                                 gem_f (function), gem_v (variable): public in a library
//	                                 module that no import statement imports as a whole (W, D),
//	                                 private otherwise and in main. No selective list ever names
//	                                 them, so they are never granted to anybody.
//
// Field names (oeff_feld, priv_feld) are the same in every Kombination of every module.
// Public names must differ between modules that can be imported together: the implementation
// rejects a name that enters a scope twice, and the property does not say what should happen
// then, so the menu avoids it (what remains — the same module's name imported twice by one
// module — is detected by Clash and excluded from the acceptance oracle).

// Kind of a public, label-carrying name.
type Kind uint8

const (
	KF Kind = iota // oeff_f_x
	KV             // oeff_v_x
	KA             // abh_v_x
	KK             // oeff_k_x
	KT             // OeffTyp_x
	NKinds
)

var kindPrefix = [...]string{"oeff_f_", "oeff_v_", "abh_v_", "oeff_k_", "OeffTyp_"}

// Name of the public declaration of kind k in library module m.
func Name(k Kind, m int) string { return kindPrefix[k] + Label(m) }

// Listed returns the kinds an import of form f grants, in the order they are written.
func Listed(f Form) []Kind {
	switch f {
	case W, D:
		return []Kind{KF, KV, KA, KK, KT}
	case S1:
		return []Kind{KF}
	case S2:
		return []Kind{KV, KA}
	case S3:
		return []Kind{KK, KT, KF}
	}
	return nil
}

// numeric base values; all differ between modules and between declarations
func base(m int) int               { return 1000 * m }   // value returned by melde_init = oeff_v_x
func cPrivV(m int) int             { return 100*m + 11 } // priv_v
func cPrivK(m int) int             { return 100*m + 12 } // priv_k
func cOeffK(m int) int             { return 100*m + 13 } // oeff_k_x
func cOeffFeld(m int) int          { return 100*m + 14 } // OeffTyp_x.oeff_feld
func cPrivFeld(m int) int          { return 100*m + 15 } // OeffTyp_x.priv_feld
func cPTOeffFeld(m int) int        { return 100*m + 16 } // PrivTyp.oeff_feld
func cPTPrivFeld(m int) int        { return 100*m + 17 } // PrivTyp.priv_feld
func cPrivOp(m int) int            { return 7000 + m }   // result of the private overload of "verkettet mit" in library module m
func cGemV(m int) int              { return 100*m + 18 } // gem_v
func fReturn(m int, oeffV int) int { return oeffV + cPrivV(m) + cPrivK(m) + cGemV(m) + cPTPrivFeld(m) }

// importPath is the text inside the quotes of an import of module `to` written in module `from`.
func importPath(from, to int, f Form) string {
	up := ""
	if from != 0 {
		up = "../"
	}
	if to == 0 {
		return up + "main"
	}
	if f == D {
		return up + Label(to)
	}
	return up + Label(to) + "/mod"
}

// ImportStmt renders one import statement.
func ImportStmt(from int, e Edge) string {
	p := importPath(from, e.To, e.Form)
	if e.To == 0 {
		return fmt.Sprintf("Binde \"%s\" ein.", p)
	}
	switch e.Form {
	case W:
		return fmt.Sprintf("Binde \"%s\" ein.", p)
	case D:
		return fmt.Sprintf("Binde alle Module aus \"%s\" ein.", p)
	}
	ks := Listed(e.Form)
	var names []string
	for _, k := range ks {
		names = append(names, Name(k, e.To))
	}
	var list string
	switch len(names) {
	case 1:
		list = names[0]
	case 2:
		list = names[0] + " und " + names[1]
	default:
		list = strings.Join(names[:len(names)-1], ", ") + " und " + names[len(names)-1]
	}
	return fmt.Sprintf("Binde %s aus \"%s\" ein.", list, p)
}

// FileName of module m relative to the program directory.
func FileName(m int) string {
	if m == 0 {
		return "main.ddp"
	}
	return Label(m) + "/mod.ddp"
}

// GemPublic: is gem_f/gem_v of library module m public in graph g?
func (g Graph) GemPublic(m int) bool {
	if m == 0 {
		return false
	}
	for _, l := range g.Imp {
		for _, e := range l {
			if e.To == m && (e.Form == W || e.Form == D) {
				return false
			}
		}
	}
	return true
}

func pub(b bool, fem bool) string {
	// "Die öffentliche Zahl" / "Die öffentliche Funktion" / "Die öffentliche Konstante"
	if b {
		return "öffentliche "
	}
	return ""
}

// term is the initialiser of teil_<i>: it reads what import statement i (1-based) of module m
// grants, so that the values of m's globals depend on the imported module being initialised.
// bare: do not use imported names at all (used for cyclic graphs, see Files).
func term(i int, e Edge, bare bool) (decl string, expr string) {
	if bare || e.To == 0 {
		return "", "0"
	}
	has := map[Kind]bool{}
	for _, k := range Listed(e.Form) {
		has[k] = true
	}
	var parts []string
	if has[KV] {
		parts = append(parts, Name(KV, e.To))
	}
	if has[KA] {
		parts = append(parts, Name(KA, e.To))
	}
	if has[KK] {
		parts = append(parts, Name(KK, e.To))
	}
	if has[KT] {
		decl = fmt.Sprintf("Der %s s_%d ist ein neuer %s.\n", Name(KT, e.To), i, Name(KT, e.To))
		parts = append(parts, fmt.Sprintf("(oeff_feld von s_%d)", i))
	}
	if has[KF] { // the only call of the expression: no evaluation-order question
		parts = append(parts, Name(KF, e.To))
	}
	return decl, strings.Join(parts, " plus ")
}

// commonDecls: the private same-named declarations every module (main included) has, and gem_*.
func commonDecls(sb *strings.Builder, m int, gemPublic bool) {
	L := Label(m)
	fmt.Fprintf(sb, "Die Zahl priv_v ist %d.\n", cPrivV(m))
	fmt.Fprintf(sb, "Die Konstante priv_k ist %d.\n", cPrivK(m))
	fmt.Fprintf(sb, "Die %sZahl gem_v ist %d.\n\n", pub(gemPublic, true), cGemV(m))
	fmt.Fprintf(sb, "Die Funktion priv_f gibt nichts zurück, macht:\n\tSchreibe \"priv_f aus %s\" auf eine Zeile.\nUnd kann so benutzt werden:\n\t\"priv_f\"\n\n", L)
	fmt.Fprintf(sb, "Die %sFunktion gem_f gibt nichts zurück, macht:\n\tSchreibe \"gem_f aus %s\" auf eine Zeile.\nUnd kann so benutzt werden:\n\t\"gem_f\"\n\n", pub(gemPublic, true), L)
	fmt.Fprintf(sb, "Wir nennen die Kombination aus\n\tder öffentlichen Zahl oeff_feld mit Standardwert %d,\n\tder Zahl priv_feld mit Standardwert %d,\neinen PrivTyp, und erstellen sie so:\n\t\"ein neuer PrivTyp\"\n\n", cPTOeffFeld(m), cPTPrivFeld(m))
}

// OutFile is the shared output module every module imports first (as a whole, through two
// different spellings of its path: "aus/mod" from main, "../aus/mod" from library modules). It
// declares the three stdlib output primitives and the two "auf eine Zeile" wrappers exactly as
// Duden/Ausgabe does; it has no globals and prints nothing itself. (Duden/Ausgabe itself is not
// used because parsing its 40 aliased functions into every module dominates the cost of a state;
// the goldens cover the Duden path.)
const OutFile = "aus/mod.ddp"

const OutSource = `Die öffentliche Funktion Schreibe_Zahl mit dem Parameter p1 vom Typ Zahl, gibt nichts zurück,
ist in "libddpstdlib.a" definiert
und kann so benutzt werden:
	"Schreibe <p1>"

Die öffentliche Funktion Schreibe_Buchstabe mit dem Parameter p1 vom Typ Buchstabe, gibt nichts zurück,
ist in "libddpstdlib.a" definiert
und kann so benutzt werden:
	"Schreibe <p1>"

Die öffentliche Funktion Schreibe_Text mit dem Parameter p1 vom Typ Text, gibt nichts zurück,
ist in "libddpstdlib.a" definiert
und kann so benutzt werden:
	"Schreibe <p1>"

Die öffentliche Funktion Schreibe_Zeile_Zahl mit dem Parameter p1 vom Typ Zahl, gibt nichts zurück, macht:
	Schreibe p1.
	Schreibe '\n'.
Und kann so benutzt werden:
	"Schreibe <p1> auf eine Zeile"

Die öffentliche Funktion Schreibe_Zeile_Text mit dem Parameter p1 vom Typ Text, gibt nichts zurück, macht:
	Schreibe p1.
	Schreibe '\n'.
Und kann so benutzt werden:
	"Schreibe <p1> auf eine Zeile"
`

func outImport(from int) string {
	if from == 0 {
		return "Binde \"aus/mod\" ein.\n"
	}
	return "Binde \"../aus/mod\" ein.\n"
}

// ModuleSource renders library module m of graph g.
func ModuleSource(g Graph, m int, bare bool) string {
	L := Label(m)
	var sb strings.Builder
	sb.WriteString(outImport(m))
	for _, e := range g.Imp[m] {
		sb.WriteString(ImportStmt(m, e))
		sb.WriteByte('\n')
	}
	sb.WriteByte('\n')
	commonDecls(&sb, m, g.GemPublic(m))
	fmt.Fprintf(&sb, "Die öffentliche Konstante %s ist %d.\n\n", Name(KK, m), cOeffK(m))
	fmt.Fprintf(&sb, "Wir nennen die öffentliche Kombination aus\n\tder öffentlichen Zahl oeff_feld mit Standardwert %d,\n\tder Zahl priv_feld mit Standardwert %d,\neinen %s, und erstellen sie so:\n\t\"ein neuer %s\"\n\n", cOeffFeld(m), cPrivFeld(m), Name(KT, m), Name(KT, m))
	fmt.Fprintf(&sb, "Die Funktion melde_init gibt eine Zahl zurück, macht:\n\tSchreibe \"init %s\" auf eine Zeile.\n\tGib %d zurück.\nUnd kann so benutzt werden:\n\t\"melde_init\"\n\n", L, base(m))
	fmt.Fprintf(&sb, "Die öffentliche Zahl %s ist melde_init.\n\n", Name(KV, m))
	// a private operator overload on built-in operand types, the same in every library module: it must
	// apply inside its own module (oeff_f_x prints its result) and nowhere else (main prints the length
	// of the built-in concatenation)
	fmt.Fprintf(&sb, "Die Funktion priv_op mit den Parametern a und b vom Typ Zahl und Zahl, gibt eine Zahl zurück, macht:\n\tGib %d zurück.\nUnd überlädt den \"verkettet mit\" Operator.\n\n", cPrivOp(m))
	fmt.Fprintf(&sb, "Die öffentliche Funktion %s gibt eine Zahl zurück, macht:\n\tSchreibe \"oeff_f aus %s\" auf eine Zeile.\n\tpriv_f.\n\tgem_f.\n\tSchreibe (1 verkettet mit 2) auf eine Zeile.\n\tDer PrivTyp p ist ein neuer PrivTyp.\n\tGib %s plus priv_v plus priv_k plus gem_v plus (priv_feld von p) zurück.\nUnd kann so benutzt werden:\n\t\"%s\"\n\n",
		Name(KF, m), L, Name(KV, m), Name(KF, m))
	sum := "1"
	for i, e := range g.Imp[m] {
		decl, expr := term(i+1, e, bare)
		sb.WriteString(decl)
		fmt.Fprintf(&sb, "Die Zahl teil_%d ist %s.\n", i+1, expr)
		sum += fmt.Sprintf(" plus teil_%d", i+1)
	}
	fmt.Fprintf(&sb, "Die öffentliche Zahl %s ist %s.\n\n", Name(KA, m), sum)
	fmt.Fprintf(&sb, "Schreibe \"top %s\" auf eine Zeile.\n", L)
	return sb.String()
}

// useStmts: the statements with which main observes a granted name.
func useStmts(k Kind, m int, i int) string {
	n := Name(k, m)
	if k == KT {
		return fmt.Sprintf("Der %s h_%d ist ein neuer %s.\nSchreibe (oeff_feld von h_%d) auf eine Zeile.\n", n, i, n, i)
	}
	return fmt.Sprintf("Schreibe %s auf eine Zeile.\n", n)
}

// MainSource renders the observing main module: a marker after every import statement, then
// every granted name is used, then main's own same-named private declarations.
func MainSource(g Graph, bare bool) string {
	var sb strings.Builder
	sb.WriteString(outImport(0))
	for i, e := range g.Imp[0] {
		sb.WriteString(ImportStmt(0, e))
		fmt.Fprintf(&sb, "\nSchreibe \"nach %d\" auf eine Zeile.\n", i+1)
	}
	sb.WriteByte('\n')
	commonDecls(&sb, 0, false)
	if !bare {
		for i, e := range g.Imp[0] {
			if e.To == 0 {
				continue
			}
			for _, k := range Listed(e.Form) {
				sb.WriteString(useStmts(k, e.To, i+1))
			}
		}
	}
	sb.WriteString("priv_f.\ngem_f.\nSchreibe priv_v auf eine Zeile.\nSchreibe priv_k auf eine Zeile.\nSchreibe gem_v auf eine Zeile.\nDer PrivTyp p ist ein neuer PrivTyp.\nSchreibe (priv_feld von p) auf eine Zeile.\nSchreibe (die Länge von (1 verkettet mit 2)) auf eine Zeile.\nSchreibe \"ende\" auf eine Zeile.\n")
	return sb.String()
}

// Files materialises g: main.ddp and x/mod.ddp for every library module reachable from main.
// bare = no module uses any imported name (for cyclic graphs: then the cycle is the ONLY reason
// to reject the program).
func Files(g Graph, bare bool) map[string]string {
	reach := g.Reach()
	out := map[string]string{FileName(0): MainSource(g, bare), OutFile: OutSource}
	for m := 1; m <= g.N(); m++ {
		if reach[m] {
			out[FileName(m)] = ModuleSource(g, m, bare)
		}
	}
	return out
}

// ---- the second family: ONE use of a name that must not be visible ------------------------

// Neg is one ill-formed variant of an acyclic program: module In gets one extra statement that
// uses a name no import of In grants.
type Neg struct {
	In   int    // module that contains the use (0 = main)
	Name string // the name used
	Kind string // violation kind if the program is accepted: private-visible | unlisted-visible
	Why  string
	Stmt string // statement(s) appended
}

// negMain renders main for a negative variant: the imports and exactly one use; main declares
// nothing itself.
func NegMainSource(g Graph, stmt string) string {
	var sb strings.Builder
	sb.WriteString(outImport(0))
	for _, e := range g.Imp[0] {
		sb.WriteString(ImportStmt(0, e))
		sb.WriteByte('\n')
	}
	sb.WriteString(stmt)
	return sb.String()
}

// NegModuleSource renders library module m with the forbidden use placed before the top-level
// statement.
func NegModuleSource(g Graph, m int, stmt string) string {
	src := ModuleSource(g, m, false)
	marker := "Schreibe \"top " + Label(m) + "\""
	i := strings.LastIndex(src, marker)
	return src[:i] + stmt + src[i:]
}

func useOfVar(n string) string  { return "Schreibe " + n + " auf eine Zeile.\n" }
func useOfFunc(n string) string { return n + ".\n" }
func useOfType(n string) string { return "Der " + n + " neg_t ist ein neuer " + n + ".\n" }
