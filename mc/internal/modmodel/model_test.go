package modmodel

import (
	"os"
	"path/filepath"
	"strings"
	"testing"
)

func mustParse(t *testing.T, s string) Graph {
	g, ok := Parse(s)
	if !ok || g.String() != s {
		t.Fatalf("parse %q -> %q %v", s, g.String(), ok)
	}
	return g
}

func TestCanonAndCycles(t *testing.T) {
	g := mustParse(t, "main[W>c] a[] b[] c[S1>b]")
	if got := g.Canon().String(); got != "main[W>a] a[S1>b] b[] c[]" {
		t.Fatalf("canon: %s", got)
	}
	for s, want := range map[string]bool{
		"main[W>a] a[W>a] b[]":       true,
		"main[W>main] a[] b[]":       true,
		"main[W>a] a[W>b] b[W>main]": true,
		"main[W>a,W>b] a[W>b] b[]":   false,
		"main[W>a] a[] b[W>b]":       false, // the self-import of b is never read
		"main[W>a] a[D>b] b[S2>a]":   true,
		"main[S1>a,S2>a] a[] b[]":    false,
	} {
		if got := mustParse(t, s).Cyclic(); got != want {
			t.Errorf("Cyclic(%s) = %v", s, got)
		}
	}
	if !mustParse(t, "main[W>a,D>a] a[]").Clash() || mustParse(t, "main[S1>a,S2>a] a[]").Clash() || !mustParse(t, "main[S1>a,S3>a] a[]").Clash() {
		t.Error("Clash")
	}
}

func TestPredictAndJudge(t *testing.T) {
	g := mustParse(t, "main[W>a,W>b] a[W>b,W>c] b[W>c] c[]")
	p := Predict(g)
	var inits []string
	for _, l := range p.Lines {
		if strings.HasPrefix(l, "init ") || strings.HasPrefix(l, "nach ") {
			inits = append(inits, l)
		}
	}
	if got := strings.Join(inits, ","); got != "init c,init b,init a,nach 1,nach 2" {
		t.Fatalf("order: %s", got)
	}
	if v := Judge(g, p, p.Stdout()); v.Kind != "" || v.Deviates {
		t.Fatalf("self: %+v", v)
	}
	mut := func(f func(ls []string) []string) string {
		return strings.Join(f(append([]string(nil), p.Lines...)), "\n") + "\n"
	}
	idx := func(ls []string, s string) int {
		for i, l := range ls {
			if l == s {
				return i
			}
		}
		t.Fatalf("no line %q", s)
		return -1
	}
	cases := map[string]string{
		"init-twice": mut(func(ls []string) []string {
			i := idx(ls, "nach 1")
			return append(ls[:i+1], append([]string{"init b"}, ls[i+1:]...)...)
		}),
		"init-missing": mut(func(ls []string) []string { i := idx(ls, "init c"); return append(ls[:i], ls[i+1:]...) }),
		"toplevel-executed": mut(func(ls []string) []string {
			i := idx(ls, "nach 1")
			return append(ls[:i], append([]string{"top a"}, ls[i:]...)...)
		}),
		"init-order": mut(func(ls []string) []string {
			i, j := idx(ls, "init c"), idx(ls, "init b")
			ls[i], ls[j] = ls[j], ls[i]
			return ls
		}),
		"wrong-module-object": mut(func(ls []string) []string { i := idx(ls, "priv_f aus main"); ls[i] = "priv_f aus a"; return ls }),
	}
	for want, out := range cases {
		if v := Judge(g, p, out); v.Kind != want {
			t.Errorf("%s: got %+v", want, v)
		}
	}
	// init after the marker of its import
	late := mut(func(ls []string) []string {
		i, j := idx(ls, "init a"), idx(ls, "nach 1")
		ls[i], ls[j] = ls[j], ls[i]
		return ls
	})
	if v := Judge(g, p, late); v.Kind != "init-order" {
		t.Errorf("late: %+v", v)
	}
	// a value that betrays a wrong order
	val := mut(func(ls []string) []string { i := idx(ls, "ende"); ls[i-8] = ls[i-8] + "0"; return ls })
	if v := Judge(g, p, val); v.Kind == "" {
		t.Errorf("val: %+v", v)
	}
	// independent siblings in another order: allowed by the property
	g2 := mustParse(t, "main[W>a] a[S2>b,S2>c] b[] c[]")
	p2 := Predict(g2)
	swapped := strings.Replace(strings.Replace(strings.Replace(p2.Stdout(), "init b\n", "X\n", 1), "init c\n", "init b\n", 1), "X\n", "init c\n", 1)
	if v := Judge(g2, p2, swapped); v.Kind != "" || !v.Deviates {
		t.Errorf("siblings: %+v", v)
	}
}

func TestNegs(t *testing.T) {
	g := mustParse(t, "main[S1>a] a[W>b] b[]")
	names := map[string]string{}
	for _, n := range Negs(g, true) {
		names[Label(n.In)+":"+n.Name] = n.Kind
	}
	for _, w := range []string{"main:priv_f", "main:gem_f", "main:oeff_v_a", "main:OeffTyp_a", "main:oeff_f_b", "b:oeff_f_a"} {
		if _, ok := names[w]; !ok {
			t.Errorf("missing negative variant %s (have %v)", w, names)
		}
	}
	for _, w := range []string{"main:oeff_f_a", "a:oeff_f_b", "a:oeff_v_b"} {
		if _, ok := names[w]; ok {
			t.Errorf("granted name %s listed as invisible", w)
		}
	}
	if names["main:gem_f"] != "unlisted-visible" {
		t.Errorf("gem_f kind %s", names["main:gem_f"])
	}
}

// TestDump writes Files(g) for C10_DUMP_GRAPH into C10_DUMP_DIR/program (+ graph.txt), so that a
// replay directory can be made by hand.
func TestDump(t *testing.T) {
	dir, gs := os.Getenv("C10_DUMP_DIR"), os.Getenv("C10_DUMP_GRAPH")
	if dir == "" {
		t.Skip()
	}
	g := mustParse(t, gs)
	for n, s := range Files(g, false) {
		p := filepath.Join(dir, "program", n)
		os.MkdirAll(filepath.Dir(p), 0o755)
		os.WriteFile(p, []byte(s), 0o644)
	}
	os.WriteFile(filepath.Join(dir, "graph.txt"), []byte(g.String()+"\n"), 0o644)
	os.WriteFile(filepath.Join(dir, "expected_stdout.txt"), []byte(Predict(g).Stdout()), 0o644)
}
