// Package modmodel: reference model of the DDP module system for property C10.
//
// A state is an IMPORT GRAPH: node 0 is the main module, nodes 1..N are the library modules
// "a", "b", … Every node has an ORDERED list of import statements; an import statement names a
// target module and a form (whole module, directory, one of three selective lists). The package
//   - enumerates graphs (successors = append one import statement to one reachable module),
//   - canonicalises them (relabelings of the library modules are merged),
//   - materialises a graph as real source files (gen.go), and
//   - predicts what the property demands of the implementation on these files (model.go).
//
// Nothing in here looks at the implementation.
package modmodel

import (
	"runtime"
	"sort"
	"strings"
	"sync"
)

// Form of an import statement.
type Form uint8

const (
	W  Form = iota // Binde "x/mod" ein.
	D              // Binde alle Module aus "x" ein.           (the directory x holds exactly x/mod.ddp)
	S1             // Binde oeff_f_x aus "x/mod" ein.
	S2             // Binde oeff_v_x und abh_v_x aus "x/mod" ein.
	S3             // Binde oeff_k_x, OeffTyp_x und oeff_f_x aus "x/mod" ein.
	NForms
)

var formNames = [...]string{"W", "D", "S1", "S2", "S3"}

func (f Form) String() string { return formNames[f] }

// Edge = one import statement.
type Edge struct {
	To   int // 0 = main, 1.. = library module
	Form Form
}

// Graph: Imp[m] is the ordered import list of module m; len(Imp) = N+1.
type Graph struct {
	Imp [][]Edge
}

func New(n int) Graph { return Graph{Imp: make([][]Edge, n+1)} }

func (g Graph) N() int { return len(g.Imp) - 1 }

func (g Graph) Clone() Graph {
	h := Graph{Imp: make([][]Edge, len(g.Imp))}
	for i, l := range g.Imp {
		h.Imp[i] = append([]Edge(nil), l...)
	}
	return h
}

func (g Graph) Edges() int {
	n := 0
	for _, l := range g.Imp {
		n += len(l)
	}
	return n
}

// Label of a module: main, a, b, c, d.
func Label(m int) string {
	if m == 0 {
		return "main"
	}
	return string(rune('a' + m - 1))
}

// String: the adjacency description, e.g. "main[W>a,S1>b] a[W>b] b[] c[]".
func (g Graph) String() string {
	var sb strings.Builder
	for m, l := range g.Imp {
		if m > 0 {
			sb.WriteByte(' ')
		}
		sb.WriteString(Label(m))
		sb.WriteByte('[')
		for i, e := range l {
			if i > 0 {
				sb.WriteByte(',')
			}
			sb.WriteString(e.Form.String())
			sb.WriteByte('>')
			sb.WriteString(Label(e.To))
		}
		sb.WriteByte(']')
	}
	return sb.String()
}

// Parse is the inverse of String (used by replay).
func Parse(s string) (Graph, bool) {
	parts := strings.Fields(strings.TrimSpace(s))
	if len(parts) == 0 {
		return Graph{}, false
	}
	g := New(len(parts) - 1)
	lab := map[string]int{}
	for m := range parts {
		lab[Label(m)] = m
	}
	for m, p := range parts {
		want := Label(m) + "["
		if !strings.HasPrefix(p, want) || !strings.HasSuffix(p, "]") {
			return Graph{}, false
		}
		body := p[len(want) : len(p)-1]
		if body == "" {
			continue
		}
		for _, es := range strings.Split(body, ",") {
			ft := strings.SplitN(es, ">", 2)
			if len(ft) != 2 {
				return Graph{}, false
			}
			f := -1
			for i, n := range formNames {
				if n == ft[0] {
					f = i
				}
			}
			t, ok := lab[ft[1]]
			if f < 0 || !ok {
				return Graph{}, false
			}
			g.Imp[m] = append(g.Imp[m], Edge{t, Form(f)})
		}
	}
	return g, true
}

// permute applies the relabeling p (p[0] == 0) to g.
func (g Graph) permute(p []int) Graph {
	h := Graph{Imp: make([][]Edge, len(g.Imp))}
	for m, l := range g.Imp {
		nl := make([]Edge, len(l))
		for i, e := range l {
			nl[i] = Edge{p[e.To], e.Form}
		}
		h.Imp[p[m]] = nl
	}
	return h
}

func permutations(n int) [][]int {
	// all permutations of 0..n that fix 0
	var out [][]int
	cur := make([]int, n+1)
	used := make([]bool, n+1)
	var rec func(i int)
	rec = func(i int) {
		if i > n {
			out = append(out, append([]int(nil), cur...))
			return
		}
		for v := 1; v <= n; v++ {
			if !used[v] {
				used[v] = true
				cur[i] = v
				rec(i + 1)
				used[v] = false
			}
		}
	}
	rec(1)
	return out
}

var permCache = map[int][][]int{}

func init() {
	for n := 0; n <= 5; n++ {
		permCache[n] = permutations(n)
	}
}

// Canon returns the canonical representative of g's orbit under relabelings of the library
// modules (main stays main): the relabeling whose String() is smallest.
//
// Why merging relabelings is sound: gen.go produces the files of module x from ONE menu in which
// the label x occurs only as a suffix of names, in printed texts, in the directory name and as a
// multiple of the numeric base values; it never branches on the label. So for every relabeling p,
// Files(p·g) is Files(g) with the labels renamed by p throughout, and the model's prediction is
// renamed the same way. The implementation may only depend on the labels through (a) the order
// of map iteration / sorting by path or name, which C16 owns, and (b) the lexical order of file
// names inside ONE directory, which cannot occur here because every module has its own
// directory. Hence g and p·g are the same experiment up to renaming, and one of them is run.
func (g Graph) Canon() Graph {
	best := g
	bs := g.String()
	for _, p := range permCache[g.N()] {
		h := g.permute(p)
		if s := h.String(); s < bs {
			best, bs = h, s
		}
	}
	return best
}

// Reach returns the modules reachable from main through imports (main included), as a set.
func (g Graph) Reach() []bool {
	seen := make([]bool, len(g.Imp))
	var dfs func(m int)
	dfs = func(m int) {
		if seen[m] {
			return
		}
		seen[m] = true
		for _, e := range g.Imp[m] {
			dfs(e.To)
		}
	}
	dfs(0)
	return seen
}

// Cyclic: does the part reachable from main contain a cycle (self-imports and cycles through
// main included)?
func (g Graph) Cyclic() bool {
	state := make([]int, len(g.Imp)) // 0 new, 1 on stack, 2 done
	var dfs func(m int) bool
	dfs = func(m int) bool {
		state[m] = 1
		for _, e := range g.Imp[m] {
			if state[e.To] == 1 {
				return true
			}
			if state[e.To] == 0 && dfs(e.To) {
				return true
			}
		}
		state[m] = 2
		return false
	}
	return dfs(0)
}

// Bounds of the explored space.
type Bounds struct {
	Modules  int    // library modules (main not counted)
	MaxList  int    // import statements per module
	MaxEdges int    // import statements in the whole graph
	Forms    []Form // forms of an import of a library module (main is always imported as W)
	// ExpandCyclic: also append imports to graphs that already contain a cycle (they stay cyclic).
	ExpandCyclic bool
}

// Succ returns the successors of g: one import statement appended to the list of a module that
// is reachable from main (an import in an unreachable module is never read by anybody, it would
// not be a different experiment). Targets: every library module, the module itself, and main.
func (g Graph) Succ(b Bounds) []Graph {
	if g.Edges() >= b.MaxEdges {
		return nil
	}
	if !b.ExpandCyclic && g.Cyclic() {
		return nil
	}
	reach := g.Reach()
	var out []Graph
	for m := 0; m <= g.N(); m++ {
		if !reach[m] || len(g.Imp[m]) >= b.MaxList {
			continue
		}
		for t := 0; t <= g.N(); t++ {
			forms := b.Forms
			if t == 0 {
				forms = []Form{W} // main has no public names to list and no directory of its own
			}
			for _, f := range forms {
				h := g.Clone()
				h.Imp[m] = append(h.Imp[m], Edge{t, f})
				out = append(out, h)
			}
		}
	}
	return out
}

// Level is one BFS level.
type Level struct {
	Depth  int
	States []Graph // canonical, sorted by String()
	Trans  int64   // transitions generated from the previous level
}

// BFS explores all graphs within the bounds, level by level (level d = graphs with d imports).
// visit is called once per level; returning false stops the search.
func BFS(b Bounds, visit func(Level) bool) {
	cur := []Graph{New(b.Modules)}
	if !visit(Level{0, cur, 0}) {
		return
	}
	for d := 1; d <= b.MaxEdges; d++ {
		// successors of the whole level, canonicalised on all cores; the result is a sorted set,
		// so the schedule does not influence it
		w := runtime.NumCPU()
		locals := make([]map[string]Graph, w)
		counts := make([]int64, w)
		var wg sync.WaitGroup
		for k := 0; k < w; k++ {
			wg.Add(1)
			go func(k int) {
				defer wg.Done()
				seen := map[string]Graph{}
				for i := k; i < len(cur); i += w {
					for _, h := range cur[i].Succ(b) {
						counts[k]++
						c := h.Canon()
						s := c.String()
						if _, ok := seen[s]; !ok {
							seen[s] = c
						}
					}
				}
				locals[k] = seen
			}(k)
		}
		wg.Wait()
		seen := map[string]Graph{}
		var trans int64
		for k := 0; k < w; k++ {
			trans += counts[k]
			for s, c := range locals[k] {
				seen[s] = c
			}
		}
		keys := make([]string, 0, len(seen))
		for k := range seen {
			keys = append(keys, k)
		}
		sort.Strings(keys)
		next := make([]Graph, len(keys))
		for i, k := range keys {
			next[i] = seen[k]
		}
		if len(next) == 0 {
			return
		}
		if !visit(Level{d, next, trans}) {
			return
		}
		cur = next
	}
}

// Shape erases the forms (all imports become W) and canonicalises: the isomorphism class of the
// bare directed multigraph with ordered import lists.
func (g Graph) Shape() string {
	h := g.Clone()
	for _, l := range h.Imp {
		for i := range l {
			l[i].Form = W
		}
	}
	return h.Canon().String()
}
