package modmodel

import (
	"fmt"
	"sort"
	"strconv"
	"strings"
)

// ---- static part: what is visible where ---------------------------------------------------

// Granted returns the public names the import statements of module m make visible in m
// (name -> module that declares it), and whether some name is granted twice. The property only
// speaks about DIRECT imports: "importing a module makes visible exactly ITS public declarations
// - all of them, or exactly the listed names"; nothing is re-exported.
func (g Graph) Granted(m int) (names map[string]int, twice bool) {
	names = map[string]int{}
	for _, e := range g.Imp[m] {
		if e.To == 0 {
			continue // main declares nothing public
		}
		for _, k := range Listed(e.Form) {
			n := Name(k, e.To)
			if _, ok := names[n]; ok {
				twice = true
			}
			names[n] = e.To
		}
	}
	return
}

// Clash: some reachable module is granted the same name by two of its import statements (e.g.
// the same module imported as a whole twice). The implementation answers "name already exists";
// neither the property nor a golden says whether such a program is well-formed, so these graphs
// are not judged for acceptance (they are still fed to the frontend: it must not crash).
func (g Graph) Clash() bool {
	reach := g.Reach()
	for m := range g.Imp {
		if reach[m] {
			if _, tw := g.Granted(m); tw {
				return true
			}
		}
	}
	return false
}

// ---- dynamic part: what the program must print ---------------------------------------------

// Prediction of the run of Files(g,false) for an acyclic, clash-free g.
type Prediction struct {
	Lines     []string // complete stdout, line by line
	MainStart int      // index of the first line after the last "nach <i>" marker
	MainTag   []string // for Lines[MainStart+j]: "obj" (a line naming a module), "order" (a value that depends on the initialisation order), "val" (other value), "end"
}

func (p Prediction) Stdout() string { return strings.Join(p.Lines, "\n") + "\n" }

type sim struct {
	g     Graph
	done  []bool
	oeffV []int // current value of oeff_v_x (0 = not initialised: a global that was not yet assigned)
	abhV  []int
	out   []string
}

func (s *sim) say(format string, a ...any) { s.out = append(s.out, fmt.Sprintf(format, a...)) }

// call of oeff_f_x
func (s *sim) callF(x int) int {
	L := Label(x)
	s.say("oeff_f aus %s", L)
	s.say("priv_f aus %s", L)
	s.say("gem_f aus %s", L)
	s.say("%d", cPrivOp(x))
	return fReturn(x, s.oeffV[x])
}

// the global initialisers of module m, in source order
func (s *sim) initModule(m int) {
	s.say("init %s", Label(m))
	s.oeffV[m] = base(m)
	sum := 1
	for _, e := range s.g.Imp[m] {
		has := map[Kind]bool{}
		for _, k := range Listed(e.Form) {
			has[k] = true
		}
		t := 0
		if has[KV] {
			t += s.oeffV[e.To]
		}
		if has[KA] {
			t += s.abhV[e.To]
		}
		if has[KK] {
			t += cOeffK(e.To)
		}
		if has[KT] {
			t += cOeffFeld(e.To)
		}
		if has[KF] {
			t += s.callF(e.To)
		}
		sum += t
	}
	s.abhV[m] = sum
}

// ensure: every not yet initialised module reachable from m, dependencies first, each once
func (s *sim) ensure(m int) {
	if s.done[m] {
		return
	}
	s.done[m] = true // g is acyclic: no module is met again before it is finished
	for _, e := range s.g.Imp[m] {
		s.ensure(e.To)
	}
	s.initModule(m)
}

// Predict: the property, executed. For each import statement of main, in order: the global
// initialisers of every reachable, not yet initialised module run exactly once, after those of
// the modules it imports (depth-first in import order — the one order that is also a valid
// answer to "before any code of the importer that follows the import"); then main's code.
// Top-level statements of library modules never run.
func Predict(g Graph) Prediction {
	n := len(g.Imp)
	s := &sim{g: g, done: make([]bool, n), oeffV: make([]int, n), abhV: make([]int, n)}
	for i, e := range g.Imp[0] {
		s.ensure(e.To)
		s.say("nach %d", i+1)
	}
	p := Prediction{MainStart: len(s.out)}
	// tag labels all main-section lines said since the previous call
	tag := func(t string) {
		for len(p.MainTag) < len(s.out)-p.MainStart {
			p.MainTag = append(p.MainTag, t)
		}
	}
	for _, e := range g.Imp[0] {
		for _, k := range Listed(e.Form) {
			switch k {
			case KF:
				v := s.callF(e.To)
				tag("obj")
				s.say("%d", v)
				tag("order")
			case KV:
				s.say("%d", s.oeffV[e.To])
				tag("order")
			case KA:
				s.say("%d", s.abhV[e.To])
				tag("order")
			case KK:
				s.say("%d", cOeffK(e.To))
				tag("val")
			case KT:
				s.say("%d", cOeffFeld(e.To))
				tag("val")
			}
		}
	}
	s.say("priv_f aus main")
	s.say("gem_f aus main")
	tag("obj")
	s.say("%d", cPrivV(0))
	s.say("%d", cPrivK(0))
	s.say("%d", cGemV(0))
	s.say("%d", cPTPrivFeld(0))
	s.say("2") // die Länge von (1 verkettet mit 2): no private overload of a library module applies in main
	tag("val")
	s.say("ende")
	tag("end")
	p.Lines = s.out
	return p
}

// Verdict of Judge.
type Verdict struct {
	Kind   string // "" = the property holds on this run
	Detail string
	// Deviates: the output differs from Predict but every requirement of the property is met
	// (another dependency-respecting order); not a violation.
	Deviates bool
}

// Judge checks an observed stdout against what the PROPERTY requires (not against the particular
// order Predict chose): exactly-once, dependencies first, before the marker of the import, no
// top-level statement of a library module, and main's own section equal to the prediction.
func Judge(g Graph, p Prediction, stdout string) Verdict {
	if stdout == p.Stdout() {
		return Verdict{}
	}
	lines := strings.Split(strings.TrimSuffix(stdout, "\n"), "\n")
	if stdout == "" {
		lines = nil
	}
	initPos := map[string][]int{}
	marker := map[int]int{}
	lastMarker := -1
	for i, l := range lines {
		switch {
		case strings.HasPrefix(l, "top "):
			return Verdict{Kind: "toplevel-executed", Detail: fmt.Sprintf("line %d %q: a top-level statement of an imported module was executed", i+1, l)}
		case strings.HasPrefix(l, "init "):
			initPos[l[5:]] = append(initPos[l[5:]], i)
		case strings.HasPrefix(l, "nach "):
			if k, err := strconv.Atoi(l[5:]); err == nil {
				if _, dup := marker[k]; !dup {
					marker[k] = i
				}
				lastMarker = i
			}
		}
	}
	reach := g.Reach()
	for m := 1; m <= g.N(); m++ {
		L := Label(m)
		switch c := len(initPos[L]); {
		case reach[m] && c == 0:
			return Verdict{Kind: "init-missing", Detail: "the initialisers of module " + L + " never ran"}
		case c > 1:
			return Verdict{Kind: "init-twice", Detail: fmt.Sprintf("the initialisers of module %s ran %d times", L, c)}
		}
	}
	for m := 1; m <= g.N(); m++ {
		if !reach[m] {
			continue
		}
		for _, e := range g.Imp[m] {
			if e.To != 0 && initPos[Label(e.To)][0] > initPos[Label(m)][0] {
				return Verdict{Kind: "init-order", Detail: fmt.Sprintf("module %s was initialised before %s, which it imports", Label(m), Label(e.To))}
			}
		}
	}
	for i, e := range g.Imp[0] {
		mp, ok := marker[i+1]
		if !ok {
			return Verdict{Kind: "init-order", Detail: fmt.Sprintf("the statement after import %d of main did not run (marker missing)", i+1)}
		}
		sub := Graph{Imp: g.Imp}.reachFrom(e.To)
		for m := 1; m <= g.N(); m++ {
			if sub[m] && initPos[Label(m)][0] > mp {
				return Verdict{Kind: "init-order", Detail: fmt.Sprintf("module %s (reachable through import %d of main) was initialised after the code that follows this import", Label(m), i+1)}
			}
		}
	}
	// main's own section
	got := lines[lastMarker+1:]
	want := p.Lines[p.MainStart:]
	for j := 0; j < len(want) || j < len(got); j++ {
		var w, o string
		tg := "end"
		if j < len(want) {
			w, tg = want[j], p.MainTag[j]
		}
		if j < len(got) {
			o = got[j]
		}
		if w != o {
			kind := "wrong-module-object"
			if tg == "order" {
				kind = "init-order"
			}
			return Verdict{Kind: kind, Detail: fmt.Sprintf("main's own output, line %d: expected %q, observed %q", j+1, w, o)}
		}
	}
	// initialisation phase: the lines printed by functions called from initialisers
	a := append([]string(nil), lines[:lastMarker+1]...)
	b := append([]string(nil), p.Lines[:p.MainStart]...)
	sort.Strings(a)
	sort.Strings(b)
	if strings.Join(a, "\n") != strings.Join(b, "\n") {
		return Verdict{Kind: "wrong-module-object", Detail: "the functions called from global initialisers did not print what their own modules print"}
	}
	return Verdict{Deviates: true}
}

func (g Graph) reachFrom(m int) []bool {
	seen := make([]bool, len(g.Imp))
	var dfs func(m int)
	dfs = func(m int) {
		if seen[m] {
			return
		}
		seen[m] = true
		for _, e := range g.Imp[m] {
			dfs(e.To)
		}
	}
	dfs(m)
	return seen
}

// ---- the negative family -------------------------------------------------------------------

// Negs lists the ill-formed variants of an acyclic, clash-free g. full=false restricts the
// variants inside library modules to function and variable names.
func Negs(g Graph, full bool) []Neg {
	var out []Neg
	reach := g.Reach()
	granted, _ := g.Granted(0)
	importsLib := false
	anyGemPublic := false
	for _, e := range g.Imp[0] {
		if e.To != 0 {
			importsLib = true
			if g.GemPublic(e.To) {
				anyGemPublic = true
			}
		}
	}
	if importsLib {
		priv := func(name, stmt string) {
			out = append(out, Neg{In: 0, Name: name, Kind: "private-visible", Why: "private in every module", Stmt: stmt})
		}
		priv("priv_f", useOfFunc("priv_f"))
		priv("melde_init", useOfVar("melde_init"))
		priv("priv_v", useOfVar("priv_v"))
		priv("priv_k", useOfVar("priv_k"))
		priv("PrivTyp", useOfType("PrivTyp"))
		// teil_1 exists in an imported module that itself imports something
		for _, e := range g.Imp[0] {
			if e.To != 0 && len(g.Imp[e.To]) > 0 {
				priv("teil_1", useOfVar("teil_1"))
				break
			}
		}
		gk, gw := "private-visible", "private in every imported module"
		if anyGemPublic {
			gk, gw = "unlisted-visible", "public in a selectively imported module but not listed"
		}
		out = append(out, Neg{In: 0, Name: "gem_f", Kind: gk, Why: gw, Stmt: useOfFunc("gem_f")})
		out = append(out, Neg{In: 0, Name: "gem_v", Kind: gk, Why: gw, Stmt: useOfVar("gem_v")})
		// the private field of every granted public Kombination
		seen := map[int]bool{}
		for _, e := range g.Imp[0] {
			if e.To == 0 || seen[e.To] {
				continue
			}
			for _, k := range Listed(e.Form) {
				if k == KT {
					seen[e.To] = true
					n := Name(KT, e.To)
					out = append(out, Neg{In: 0, Name: n + ".priv_feld", Kind: "private-visible", Why: "private field of a public Kombination",
						Stmt: "Der " + n + " neg_s ist ein neuer " + n + ".\nSchreibe (priv_feld von neg_s) auf eine Zeile.\n"})
				}
			}
		}
	}
	foreign := func(in int, granted map[string]int, kinds []Kind) {
		direct := map[int]bool{}
		for _, e := range g.Imp[in] {
			direct[e.To] = true
		}
		for y := 1; y <= g.N(); y++ {
			if !reach[y] || y == in {
				continue
			}
			for _, k := range kinds {
				n := Name(k, y)
				if _, ok := granted[n]; ok {
					continue
				}
				why := "public in " + Label(y) + ", which " + Label(in) + " does not import itself (nothing is re-exported)"
				if direct[y] {
					why = "public in " + Label(y) + " but not in the list of the selective import"
				}
				stmt := useOfVar(n)
				if k == KT {
					stmt = useOfType(n)
				}
				out = append(out, Neg{In: in, Name: n, Kind: "unlisted-visible", Why: why, Stmt: stmt})
			}
		}
	}
	all := []Kind{KF, KV, KA, KK, KT}
	foreign(0, granted, all)
	for m := 1; m <= g.N(); m++ {
		if !reach[m] {
			continue
		}
		gr, _ := g.Granted(m)
		if full {
			foreign(m, gr, all)
		} else {
			foreign(m, gr, []Kind{KF, KV})
		}
	}
	return out
}
