package dudenmodel

import (
	"strconv"
	"strings"
)

// ---- Duden/Texte -------------------------------------------------------------------------------
// A Text is a sequence of code points; every length and index below counts code points.

func rs(s string) []rune { return []rune(s) }

// Len = "die Länge von t"
func Len(s string) int64 { return int64(len(rs(s))) }

// Erster_Buchstabe: "Gibt den ersten Buchstaben von dem gegebenen Text zurück." (empty Text: Offen)
func ErsterBuchstabe(t string) (rune, Dom) { return NterBuchstabe(1, t) }

// Nter_Buchstabe: "Gibt den enten Buchstaben von dem gegebenen Text zurück." (1 <= n <= Länge)
func NterBuchstabe(n int64, t string) (rune, Dom) {
	r := rs(t)
	if n < 1 || n > int64(len(r)) {
		return 0, Offen
	}
	return r[n-1], Def
}

// Letzter_Buchstabe
func LetzterBuchstabe(t string) (rune, Dom) { return NterBuchstabe(Len(t), t) }

// Entferne_Anzahl_Vorne(_Mutierend): "Entfernt eine feste Anzahl von Buchstaben vom Anfang ... Ist die
// Länge des Textes kürzer als die zu löschende Anzahl ... leeren Text ... Anzahl kleiner als 0 wird wie 0 gewertet."
func EntferneVorne(t string, n int64) string {
	r := rs(t)
	if n < 0 {
		n = 0
	}
	if n >= int64(len(r)) {
		return ""
	}
	return string(r[n:])
}

// Entferne_Anzahl_Hinten(_Mutierend)
func EntferneHinten(t string, n int64) string {
	r := rs(t)
	if n < 0 {
		n = 0
	}
	if n >= int64(len(r)) {
		return ""
	}
	return string(r[:int64(len(r))-n])
}

// Trim_Anfang(_Wert): "Entfernt alle gegebenen Buchstaben vom Anfang eines gegebenen Textes."
func TrimAnfang(t string, z rune) string {
	r := rs(t)
	for len(r) > 0 && r[0] == z {
		r = r[1:]
	}
	return string(r)
}

// Trim_Ende(_Wert)
func TrimEnde(t string, z rune) string {
	r := rs(t)
	for len(r) > 0 && r[len(r)-1] == z {
		r = r[:len(r)-1]
	}
	return string(r)
}

// Trim(_Wert): "... vom Anfang und Ende ..."
func Trim(t string, z rune) string { return TrimEnde(TrimAnfang(t, z), z) }

// Text_Enthält_Buchstabe
func EnthaeltBuchstabe(t string, z rune) bool { return strings.ContainsRune(t, z) }

// Text_Anzahl_Buchstabe: "wie oft der gegebenen Text den gegebenen Buchstaben enthält"
func AnzahlBuchstabe(t string, z rune) int64 {
	n := int64(0)
	for _, c := range t {
		if c == z {
			n++
		}
	}
	return n
}

func hasAt(r, s []rune, i int) bool {
	if i+len(s) > len(r) {
		return false
	}
	for j := range s {
		if r[i+j] != s[j] {
			return false
		}
	}
	return true
}

// Text_Enthält_Text: "ob der gegebene Text (text) den Subtext (suchText) enthält". An empty suchText is
// Offen (the upstream golden answers falsch unless both are empty, the mathematical reading is wahr).
func EnthaeltText(t, s string) (bool, Dom) {
	if s == "" {
		return false, Offen
	}
	return strings.Contains(t, s), Def
}

// Text_Anzahl_Text: "wie oft der gegebene Text den Subtext enthält" (every start position counts)
func AnzahlText(t, s string) (int64, Dom) {
	if s == "" {
		return 0, Offen
	}
	r, q := rs(t), rs(s)
	n := int64(0)
	for i := range r {
		if hasAt(r, q, i) {
			n++
		}
	}
	return n, Def
}

// Text_Anzahl_Text_Nicht_Überlappend: "... nicht überlappend enthält": the largest number of pairwise
// disjoint occurrences, which the left-to-right scan attains.
func AnzahlTextNichtUeberlappend(t, s string) (int64, Dom) {
	if s == "" {
		return 0, Offen
	}
	return int64(strings.Count(t, s)), Def
}

// Beginnt_Mit_Buchstabe
func BeginntMitBuchstabe(t string, z rune) bool { r := rs(t); return len(r) > 0 && r[0] == z }

// Endet_Mit_Buchstabe
func EndetMitBuchstabe(t string, z rune) bool { r := rs(t); return len(r) > 0 && r[len(r)-1] == z }

// Beginnt_Mit_Text (empty suchText: Offen)
func BeginntMitText(t, s string) (bool, Dom) {
	if s == "" {
		return false, Offen
	}
	return strings.HasPrefix(t, s), Def
}

// Endet_Mit_Text
func EndetMitText(t, s string) (bool, Dom) {
	if s == "" {
		return false, Offen
	}
	return strings.HasSuffix(t, s), Def
}

// Text_In_Text_Einfügen / Buchstabe_In_Text_Einfügen: "Fügt einen Text in einen anderen an dem
// gegebenen Index ein": afterwards elm starts at position index (golden: 'h' at 2 of "aaaa" -> "ahaaa").
// 1 <= index <= Länge; everything else Offen (no Laufzeitfehler is promised).
func InTextEinfuegen(t string, idx int64, elm string) (string, Dom) {
	r := rs(t)
	if idx < 1 || idx > int64(len(r)) {
		return "", Offen
	}
	return string(r[:idx-1]) + elm + string(r[idx-1:]), Def
}

// Lösche_Text: "Entfernt den Buchstaben an der Stelle index vom Text" (1 <= index <= Länge)
func LoescheText(t string, idx int64) (string, Dom) { return LoescheTextBereich(t, idx, idx) }

// Lösche_Text_Bereich: "Entfernt einen Bereich vom Text", alias "im Bereich von <start> bis <end>",
// both ends inclusive (golden). 1 <= start <= end <= Länge.
func LoescheTextBereich(t string, start, end int64) (string, Dom) {
	r := rs(t)
	if start < 1 || end > int64(len(r)) || start > end {
		return "", Offen
	}
	return string(r[:start-1]) + string(r[end:]), Def
}

// Fülle_Text: "Füllt den Text mit dem gegebenen Buchstaben"
func FuelleText(t string, z rune) string { return strings.Repeat(string(z), len(rs(t))) }

// Buchstaben_Text(Ref)_BuchstabenListe
func Buchstaben(t string) []rune { return rs(t) }

// Buchstaben_Text(Ref)_TextListe
func BuchstabenAlsTexte(t string) []string {
	out := []string{}
	for _, c := range t {
		out = append(out, string(c))
	}
	return out
}

// Text_Index_Von_Buchstabe(_Ref): "den ersten index des gegebenen Buchstaben im Text ... oder -1"
func IndexVonBuchstabe(t string, z rune) int64 {
	for i, c := range rs(t) {
		if c == z {
			return int64(i + 1)
		}
	}
	return -1
}

// Text_Index_Von_Text: "den ersten index des gegebenen Text im Text ... oder -1". An empty elm in a
// non-empty Text is found at 1 (golden, and the usual convention); both empty: Offen.
func IndexVonText(t, s string) (int64, Dom) {
	if s == "" {
		if t == "" {
			return 0, Offen
		}
		return 1, Def
	}
	r, q := rs(t), rs(s)
	for i := range r {
		if hasAt(r, q, i) {
			return int64(i + 1), Def
		}
	}
	return -1, Def
}

// Text_Ist_Zahl(_Ref): "ob ein Text in eine Zahl umgewandelt werden kann". Determined for Texte that
// are a decimal integer with optional sign (wahr) and for Texte without any digit (falsch).
func TextIstZahl(t string) (bool, Dom) {
	digits, other := 0, 0
	for i, c := range rs(t) {
		switch {
		case c >= '0' && c <= '9':
			digits++
		case i == 0 && (c == '+' || c == '-'):
		default:
			other++
		}
	}
	switch {
	case digits > 0 && other == 0:
		return true, Def
	case digits == 0:
		return false, Def
	}
	return false, Offen
}

// Großschreiben(_Wert): "Wandelt jeden Buchstaben ... in die groß geschriebene Variante"
func Grossschreiben(t string) (string, Dom) {
	out := []rune{}
	for _, c := range t {
		g, d := Grossgeschrieben(c)
		if d != Def {
			return "", d
		}
		out = append(out, g)
	}
	return string(out), Def
}

// Kleinschreiben(_Wert)
func Kleinschreiben(t string) (string, Dom) {
	out := []rune{}
	for _, c := range t {
		g, d := Kleingeschrieben(c)
		if d != Def {
			return "", d
		}
		out = append(out, g)
	}
	return string(out), Def
}

// Polster_Links: f("hallo", ' ', 8) -> "   hallo", f("programm", ' ', 8) -> "programm", f("", 'o', 8) -> "oooooooo"
func PolsterLinks(t string, z rune, n int64) string {
	if d := n - Len(t); d > 0 {
		return strings.Repeat(string(z), int(d)) + t
	}
	return t
}

// Polster_Rechts
func PolsterRechts(t string, z rune, n int64) string {
	if d := n - Len(t); d > 0 {
		return t + strings.Repeat(string(z), int(d))
	}
	return t
}

// Spalte: "Spaltet den gegebenen Text anhand des angegebenen Buchstaben in Teiltexte."
// ("aaaaaa" an 'a' -> 7 leere Texte, golden). The empty Text is Offen (no Teiltext or one empty Teiltext).
func Spalte(t string, z rune) ([]string, Dom) {
	if t == "" {
		return nil, Offen
	}
	return strings.Split(t, string(z)), Def
}

// Spalte_Text: "... anhand des angegebenen Textes in Teiltexte": occurrences are taken left to right
// without overlap ("hahahaha" an "haha" -> "", "", ""); an empty trenntext yields the single letters
// (golden "abcd" an "" -> a, b, c, d). The empty Text is Offen.
func SpalteText(t, s string) ([]string, Dom) {
	if t == "" {
		return nil, Offen
	}
	if s == "" {
		return BuchstabenAlsTexte(t), Def
	}
	return strings.Split(t, s), Def
}

// Finde_Subtext: "Gibt alle Indizes des gegebenen Subtextes im Text zurück." Determined when no two
// occurrences overlap (otherwise "alle" could mean every start position or the disjoint ones: Offen).
func FindeSubtext(t, s string) ([]int64, Dom) {
	if s == "" {
		return nil, Offen
	}
	r, q := rs(t), rs(s)
	out := []int64{}
	last := -len(q)
	for i := range r {
		if hasAt(r, q, i) {
			if i < last+len(q) {
				return nil, Offen
			}
			out = append(out, int64(i+1))
			last = i
		}
	}
	return out, Def
}

// Verbinden_*: "Verkettet alle Elemente der Liste mit dem Trennzeichen", f(["hi", "", "yo"], '-') -> "hi--yo"
func Verbinden(l []string, z rune) string { return strings.Join(l, string(z)) }

// Hamming_Distanz: number of positions that differ; "Wenn die Länge der beiden Texte ungleich ist, wird -1 zurückgegeben"
func HammingDistanz(a, b string) int64 {
	x, y := rs(a), rs(b)
	if len(x) != len(y) {
		return -1
	}
	n := int64(0)
	for i := range x {
		if x[i] != y[i] {
			n++
		}
	}
	return n
}

// Levenshtein_Distanz: the edit distance (insert, delete, substitute, each of cost 1), computed here by
// the plain recursive definition with memoisation.
func LevenshteinDistanz(a, b string) int64 {
	x, y := rs(a), rs(b)
	memo := map[[2]int]int64{}
	var d func(i, j int) int64
	d = func(i, j int) int64 {
		if i == 0 {
			return int64(j)
		}
		if j == 0 {
			return int64(i)
		}
		k := [2]int{i, j}
		if v, ok := memo[k]; ok {
			return v
		}
		sub := d(i-1, j-1)
		if x[i-1] != y[j-1] {
			sub++
		}
		v := min(d(i-1, j)+1, d(i, j-1)+1, sub)
		memo[k] = v
		return v
	}
	return d(len(x), len(y))
}

// Vergleiche_Text: 0 if equal; the sign of (first differing letter of text1 - that of text2); a proper
// prefix: "-1 wenn text2 und 1 wenn text1 länger ist". exact tells whether the value itself (not only
// its sign) is documented.
func VergleicheText(a, b string) (sign int64, exact bool) {
	x, y := rs(a), rs(b)
	for i := 0; i < len(x) && i < len(y); i++ {
		if x[i] != y[i] {
			if x[i] > y[i] {
				return 1, false
			}
			return -1, false
		}
	}
	switch {
	case len(x) < len(y):
		return -1, true
	case len(x) > len(y):
		return 1, true
	}
	return 0, true
}

// Spalten_Spaltmenge_Text*: "Spaltet text anhand der gegebenen Spaltmenge in Teiltexte.
// text = "Hallo\n\rWelt\n!", spaltmenge = "\n\r" -> ["Hallo", "Welt", "!"]": maximal runs of letters
// outside the set. An empty Spaltmenge is Offen.
func SpalteMenge(t string, menge []rune) ([]string, Dom) {
	if len(menge) == 0 {
		return nil, Offen
	}
	out := strings.FieldsFunc(t, func(c rune) bool {
		for _, m := range menge {
			if m == c {
				return true
			}
		}
		return false
	})
	if out == nil {
		out = []string{}
	}
	return out, Def
}

// Text_Worte(_Ref): "die von leerzeichen getrennten Worte in text. Leerzeichen: ' ', '\n', '\t', '\r',
// 13 als Buchstabe, 14 als Buchstabe."
func TextWorte(t string) []string {
	out, _ := SpalteMenge(t, []rune{' ', '\n', '\t', '\r', 13, 14})
	return out
}

// Text_Zu_ByteListe(_Wert): the UTF-8 encoding of the Text
func TextZuBytes(t string) []byte { return []byte(t) }

// ByteListe_Zu_Text(_Wert): inverse, for byte lists that are valid UTF-8 without NUL
func BytesZuText(b []byte) string { return string(b) }

// ---- helpers for the harness ---------------------------------------------------------------------

// ZahlAlsText is "z als Text".
func ZahlAlsText(z int64) string { return strconv.FormatInt(z, 10) }
