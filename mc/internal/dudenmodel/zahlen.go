package dudenmodel

import (
	"math"
	"math/big"
	"sort"
	"strconv"
	"strings"
)

// ---- Duden/Sortierung ----------------------------------------------------------------------------

// Quicksort(_Ref): "sortiert" = the ascending rearrangement under the built-in order of the element type.
func Sortiert[T int64 | float64 | rune | byte](l []T) []T {
	out := cp(l)
	sort.SliceStable(out, func(i, j int) bool { return out[i] < out[j] })
	return out
}

// ---- Duden/Zahlen ----------------------------------------------------------------------------------

// Konstanten: name -> value, written from the German number words.
var ZahlKonstanten = map[string]int64{
	"Null": 0, "null": 0,
	"Zwei": 2, "zwei": 2, "zweite": 2, "zweiten": 2,
	"Drei": 3, "drei": 3, "dritte": 3, "dritten": 3,
	"Vier": 4, "vier": 4, "vierte": 4, "vierten": 4,
	"Fünf": 5, "fünf": 5, "fünfte": 5, "fünften": 5,
	"Sechs": 6, "sechs": 6, "sechste": 6, "sechsten": 6,
	"Sieben": 7, "sieben": 7, "siebte": 7, "siebten": 7,
	"Acht": 8, "acht": 8, "achte": 8, "achten": 8,
	"Neun": 9, "neun": 9, "neunte": 9, "neunten": 9,
	"Zehn": 10, "zehn": 10, "zehnte": 10, "zehnten": 10,
	"Elf": 11, "elf": 11, "elfte": 11, "elften": 11,
	"Zwölf": 12, "zwölf": 12, "zwölfte": 12, "zwölften": 12,
	"Einhundert": 100, "Hundert": 100, "hundert": 100,
	"Eintausend": 1000, "Tausend": 1000, "tausend": 1000,
	"Zehntausend": 10000, "zehntausend": 10000,
	"Einhunderttausend": 100000, "einhunderttausend": 100000,
	"Million": 1000000,
}

// Zahl_Eins aliases
var EinsAliase = []string{"Eins", "eins", "erste", "ersten"}

var KommazahlKonstanten = map[string]float64{"einhalb": 0.5, "halb": 0.5, "anderthalb": 1.5, "eineinhalb": 1.5}

// Zahl_Bruch_*: "Gibt <n> durch k zurück."
var Brueche = map[string]int64{"Halbe": 2, "Drittel": 3, "Viertel": 4, "Fünftel": 5, "Sechstel": 6, "Siebtel": 7,
	"Achtel": 8, "Neuntel": 9, "Zehntel": 10, "Elftel": 11, "Zwölftel": 12}

func Bruch(n, k int64) float64 { return float64(n) / float64(k) }

// MaxZahl: "Gibt 9223372036854775807 zurück."  MinZahl: "Gibt -9223372036854775807 zurück."
const MaxZahl = int64(9223372036854775807)
const MinZahlLautDoku = int64(-9223372036854775807)

// MaxKommazahl: "Gibt (2−2^−31) · 2^1023 zurück."
func MaxKommazahl() float64 { return (2 - math.Ldexp(1, -31)) * math.Ldexp(1, 1023) }

// EpsilonPos: "Gibt 2^-1022 zurück."
func EpsilonPos() float64 { return math.Ldexp(1, -1022) }

// Hex_Zu_Zahl: value of a Text of hexadecimal digits (either case); anything else is Offen.
func HexZuZahl(h string) (int64, Dom) {
	if h == "" || len(h) > 15 {
		return 0, Offen
	}
	v := int64(0)
	for _, c := range h {
		d := strings.IndexRune("0123456789abcdef", c)
		if d < 0 {
			d = strings.IndexRune("0123456789ABCDEF", c)
		}
		if d < 0 {
			return 0, Offen
		}
		v = v*16 + int64(d)
	}
	return v, Def
}

// Zahl_Zu_Hex: upper-case digits without prefix, "-" in front of negative numbers (golden: 75 -> 4B).
func ZahlZuHex(z int64) (string, Dom) {
	if z == math.MinInt64 {
		return "", Offen
	}
	if z < 0 {
		return "-" + strings.ToUpper(strconv.FormatInt(-z, 16)), Def
	}
	return strings.ToUpper(strconv.FormatInt(z, 16)), Def
}

// ---- Duden/Statistik -------------------------------------------------------------------------------

// Höchste_ListeZ/K: "den höchsten Wert der ... Liste" (empty list: Offen)
func Hoechste[T Num](l []T) (T, Dom) {
	if len(l) == 0 {
		return 0, Offen
	}
	m := l[0]
	for _, x := range l {
		if x > m {
			m = x
		}
	}
	return m, Def
}

// Kleinste_ListeZ/K
func Kleinste[T Num](l []T) (T, Dom) {
	if len(l) == 0 {
		return 0, Offen
	}
	m := l[0]
	for _, x := range l {
		if x < m {
			m = x
		}
	}
	return m, Def
}

// Zwischen_Liste: "die Summe der relativen Häufigkeiten aller Zahlen zwischen x und y" (both bounds
// included, golden); x <= y, non-empty list.
func ZwischenListe(x, y float64, l []float64) (float64, Dom) {
	if len(l) == 0 || x > y {
		return 0, Offen
	}
	n := 0
	for _, z := range l {
		if z >= x && z <= y {
			n++
		}
	}
	return float64(n) / float64(len(l)), Def
}

// Absolute_Häufigkeit
func AbsoluteHaeufigkeit(l []float64, x float64) int64 {
	n := int64(0)
	for _, z := range l {
		if z == x {
			n++
		}
	}
	return n
}

// Relative_Häufigkeit (non-empty list)
func RelativeHaeufigkeit(l []float64, x float64) (float64, Dom) {
	if len(l) == 0 {
		return 0, Offen
	}
	return float64(AbsoluteHaeufigkeit(l, x)) / float64(len(l)), Def
}

// Mittelwert: "(arithmetisches Mittel)" (non-empty list)
func Mittelwert(l []float64) (float64, Dom) {
	if len(l) == 0 {
		return 0, Offen
	}
	return SummeListe(l) / float64(len(l)), Def
}

// Median / Zentralwert: "Es muss eine sortierte Liste übergeben werden!" — the middle element, or the
// mean of the two middle elements. Unsorted or empty lists are Offen.
func Median(l []float64) (float64, Dom) {
	if len(l) == 0 || !sort.Float64sAreSorted(l) {
		return 0, Offen
	}
	n := len(l)
	if n%2 == 1 {
		return l[n/2], Def
	}
	return (l[n/2-1] + l[n/2]) / 2, Def
}

// Modalwert: "eine Liste der am häufigsten auftretenden Kommazahlen ... eine leere Liste ... falls die
// gegebene Liste leer ist" (in order of first appearance, golden: 3, 1).
func Modalwert(l []float64) []float64 {
	best := int64(0)
	for _, z := range l {
		best = max(best, AbsoluteHaeufigkeit(l, z))
	}
	out := []float64{}
	for _, z := range l {
		if AbsoluteHaeufigkeit(l, z) == best && !Enthaelt(out, z) {
			out = append(out, z)
		}
	}
	return out
}

// Spannweite: "die Differenz des höchsten und niedristen Wertes" (non-empty list)
func Spannweite(l []float64) (float64, Dom) {
	if len(l) == 0 {
		return 0, Offen
	}
	h, _ := Hoechste(l)
	k, _ := Kleinste(l)
	return h - k, Def
}

// ---- Duden/Zeichen ---------------------------------------------------------------------------------

func in(c rune, lo, hi rune) bool { return c >= lo && c <= hi }

// ZeichenDomain: the case predicates are determined for ASCII and Latin-1 except the three letter-like
// signs ª µ º, and for non-letters; letters of other scripts ("es gibt noch viel mehr") are Offen.
func caseDom(c rune) Dom {
	if c == 170 || c == 181 || c == 186 {
		return Offen
	}
	if c <= 255 || c == '€' || c == 0x1F600 {
		return Def
	}
	return Offen
}

// Ist_Leer: "ein Leerzeichen (' '), eine neue Zeile ('\n'), ein Tabulator ('\t') oder ein Wagenrücklauf ('\r')"
func IstLeerZeichen(c rune) bool { return c == ' ' || c == '\n' || c == '\t' || c == '\r' }

// Ist_Groß: "wenn der Buchstabe b groß ist"
func IstGross(c rune) (bool, Dom) {
	return in(c, 'A', 'Z') || in(c, 0xC0, 0xD6) || in(c, 0xD8, 0xDE), caseDom(c)
}

// Ist_Klein: "wenn der Buchstabe b klein ist"
func IstKlein(c rune) (bool, Dom) {
	return in(c, 'a', 'z') || in(c, 0xDF, 0xF6) || in(c, 0xF8, 0xFF), caseDom(c)
}

// Ist_Leerzeichen
func IstLeerzeichen(c rune) bool { return c == ' ' }

// Buchstabe_Ist_Ziffer: "(Code 48-57)"
func IstZiffer(c rune) bool { return in(c, 48, 57) }

// Ist_Kontroll: "(Code 0-31)"
func IstKontroll(c rune) bool { return in(c, 0, 31) }

// Ist_Lateinischer_Buchstabe: "(a-Z)"
func IstLateinisch(c rune) bool { return in(c, 'a', 'z') || in(c, 'A', 'Z') }

// Ist_Lateinischer_Buchstabe_Oder_Zahl
func IstLateinischOderZahl(c rune) bool { return IstLateinisch(c) || IstZiffer(c) }

// Ist_Deutscher_Buchstabe: "(a-Z, äöü, ÄÖÜ und ß)"
func IstDeutsch(c rune) bool { return IstLateinisch(c) || strings.ContainsRune("äöüÄÖÜß", c) }

// Ist_Deutscher_Buchstabe_Oder_Zahl
func IstDeutschOderZahl(c rune) bool { return IstDeutsch(c) || IstZiffer(c) }

// Großgeschrieben: "als großgeschriebe Variante ... den selben Buchstaben ... wenn es schon
// großgeschrieben ist oder kein deutscher Buchstabe ... ist." ß has no such variant in the alphabet of
// Ist_Deutscher_Buchstabe: Offen.
func Grossgeschrieben(c rune) (rune, Dom) {
	switch {
	case c == 'ß':
		return 0, Offen
	case in(c, 'a', 'z'):
		return c - 32, Def
	case c == 'ä':
		return 'Ä', Def
	case c == 'ö':
		return 'Ö', Def
	case c == 'ü':
		return 'Ü', Def
	}
	return c, Def
}

// Kleingeschrieben
func Kleingeschrieben(c rune) (rune, Dom) {
	switch {
	case in(c, 'A', 'Z'):
		return c + 32, Def
	case c == 'Ä':
		return 'ä', Def
	case c == 'Ö':
		return 'ö', Def
	case c == 'Ü':
		return 'ü', Def
	}
	return c, Def
}

// ---- Duden/Mathe -----------------------------------------------------------------------------------

const (
	PI  = 3.141592653589793
	E   = 2.718281828459045
	TAU = 6.283185307179586
	PHI = 1.618033988749895
)

func Max[T Num](a, b T) T {
	if a >= b {
		return a
	}
	return b
}
func Min[T Num](a, b T) T {
	if a <= b {
		return a
	}
	return b
}
func Max3[T Num](a, b, c T) T { return Max(Max(a, b), c) }
func Min3[T Num](a, b, c T) T { return Min(Min(a, b), c) }

// Clamp: "wert > max -> max; wert < min -> min; min < wert < max -> wert" (min > max: Offen)
func Clamp[T Num](wert, mx, mn T) (T, Dom) {
	if mn > mx {
		return 0, Offen
	}
	return Min(Max(wert, mn), mx), Def
}

func Sign[T Num](w T) int64 {
	switch {
	case w < 0:
		return -1
	case w > 0:
		return 1
	}
	return 0
}

// Floor: "Rundet wert nach unten."  Ceil: "Rundet wert nach oben."  Trunc: "Schneidet alle Kommastellen von wert ab."
func Floor(w float64) float64 { return math.Floor(w) }
func Ceil(w float64) float64  { return math.Ceil(w) }
func Trunc(w float64) float64 { return math.Trunc(w) }

// Runden: "Rundet die gegebene Zahl auf n Stellen. n < 0 ist undefiniertes Verhalten." The exact binary
// value of wert is rounded to n decimal places; an exact tie is rounded away from zero for positive
// values (golden: 0,5 -> 1) and is Offen for negative ones. The result is the double nearest to that decimal.
func Runden(w float64, n int64) (float64, Dom) {
	if n < 0 || n > 15 {
		return 0, Offen
	}
	x := new(big.Rat).SetFloat64(w)
	scale := new(big.Rat).SetInt(new(big.Int).Exp(big.NewInt(10), big.NewInt(n), nil))
	x.Mul(x, scale)
	fl := new(big.Int).Div(x.Num(), x.Denom()) // floor
	frac := new(big.Rat).Sub(x, new(big.Rat).SetInt(fl))
	switch frac.Cmp(big.NewRat(1, 2)) {
	case 1:
		fl.Add(fl, big.NewInt(1))
	case 0:
		if w < 0 {
			return 0, Offen
		}
		fl.Add(fl, big.NewInt(1))
	}
	r, _ := new(big.Rat).Quo(new(big.Rat).SetInt(fl), scale).Float64()
	return r, Def
}

// Bogenmaß_Zu_Grad: "r = w * 180 / PI"
func BogenmassZuGrad(w float64) float64 { return w * 180 / PI }

// Grad_Zu_Bogenmaß(_Zahl): "r = w / 180 * PI"
func GradZuBogenmass(w float64) float64 { return w / 180 * PI }

// Größter_Gemeinsamer_Teiler (a, b >= 0, not both 0)
func GGT(a, b int64) (int64, Dom) {
	if a < 0 || b < 0 || (a == 0 && b == 0) {
		return 0, Offen
	}
	g := int64(0)
	for d := int64(1); d <= Max(a, b); d++ {
		if a%d == 0 && b%d == 0 {
			g = d
		}
	}
	return g, Def
}

// Kleinster_Gemeinsamer_Teiler, alias "das kleinste gemeinsame Vielfache von <a> und <b>" (a, b >= 1)
func KGV(a, b int64) (int64, Dom) {
	if a < 1 || b < 1 {
		return 0, Offen
	}
	for m := Max(a, b); ; m++ {
		if m%a == 0 && m%b == 0 {
			return m, Def
		}
	}
}

// Ist_Teilbar: "Ob divident modulo divisor = 0 ist." (divisor 0: Offen)
func IstTeilbar(a, b int64) (bool, Dom) {
	if b == 0 {
		return false, Offen
	}
	return a%b == 0, Def
}

func istPrim(p int64) bool {
	if p < 2 {
		return false
	}
	for d := int64(2); d*d <= p; d++ {
		if p%d == 0 {
			return false
		}
	}
	return true
}

// Primfaktorzerlegung: "eine Zahlen Liste von allen Primfaktoren der Zahl" (with multiplicity, ascending; z >= 2)
func Primfaktoren(z int64) ([]int64, Dom) {
	if z < 2 {
		return nil, Offen
	}
	out := []int64{}
	for p := int64(2); p <= z; p++ {
		if !istPrim(p) {
			continue
		}
		for q := z; q%p == 0; q /= p {
			out = append(out, p)
		}
	}
	return out, Def
}

// Teilerzerlegung: all divisors of z, largest first (golden: 54, 27, 18, 9, 6, 3, 2, 1); z >= 1
func Teiler(z int64) ([]int64, Dom) {
	if z < 1 {
		return nil, Offen
	}
	out := []int64{}
	for d := z; d >= 1; d-- {
		if z%d == 0 {
			out = append(out, d)
		}
	}
	return out, Def
}

// Ganze_Zahl: "ob die gegebene Kommazahl eine ganze Zahl ist"
func GanzeZahl(x float64) bool { return x == math.Trunc(x) }

// Gerade_Zahl: "(x mod 2 = 0)"
func GeradeZahl(x int64) bool { return x%2 == 0 }

// Gerade_Kommazahl: "((int)x mod 2 = 0)"
func GeradeKommazahl(x float64) bool { return int64(x)%2 == 0 }

// Fakultät: "(x!)" for 0 <= x <= 20
func Fakultaet(x int64) (int64, Dom) {
	if x < 0 || x > 20 {
		return 0, Offen
	}
	f := int64(1)
	for i := int64(2); i <= x; i++ {
		f *= i
	}
	return f, Def
}
