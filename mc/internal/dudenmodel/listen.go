// Package dudenmodel: reference model of the pure Duden functions (C17).
//
// One pure Go function per covered Duden function, written from the DOC COMMENT of the function
// (lib/stdlib/Duden/*.ddp) and the plain mathematical meaning of the operation — never from the
// DDP / C implementation. Lists are Go slices, Texte are []rune (code-point sequences), indices are
// 1-based as in DDP. Where the documentation promises a Laufzeitfehler the model returns Fehler,
// where it leaves the outcome open it returns Offen (the caller excludes and counts those).
package dudenmodel

// Dom classifies an argument tuple.
type Dom int

const (
	Def    Dom = iota // inside the documented domain: the result is determined
	Fehler            // the documentation promises a Laufzeitfehler
	Offen             // the documentation does not determine the outcome
)

func cp[T any](l []T) []T { return append([]T{}, l...) }

// ---- Duden/Listen ------------------------------------------------------------------------------

// Leere_Liste: "Löscht alle ... aus der gegebenen Liste."
func Leere[T any](l []T) []T { return []T{} }

// Hinzufügen_Liste: "Fügt ein Element ans Ende der gegeben Liste an."
func Hinzufuegen[T any](l []T, e T) []T { return append(cp(l), e) }

// Hinzufügen_Liste_Liste: "Fügt eine Liste ans Ende der gegeben Liste an."
func HinzufuegenListe[T any](l, o []T) []T { return append(cp(l), o...) }

// Einfügen_Liste: "Fügt ein Element vor einem Index in der gegebenen Liste ein. Ist der Index
// invalide wird ein Laufzeitfehler ausgelöst". Indices of the list are 1..len; len+1 ("before the
// end") is neither called valid nor invalid by the text: Offen.
func Einfuegen[T any](l []T, idx int64, e T) ([]T, Dom) {
	return EinfuegenBereich(l, idx, []T{e})
}

// Einfügen_Bereich_Liste: "Fügt eine Liste vor einem Index in der gegebenen Liste ein. ..."
func EinfuegenBereich[T any](l []T, idx int64, r []T) ([]T, Dom) {
	n := int64(len(l))
	switch {
	case idx == n+1:
		return nil, Offen
	case idx < 1 || idx > n:
		return nil, Fehler
	}
	out := cp(l[:idx-1])
	out = append(out, r...)
	return append(out, l[idx-1:]...), Def
}

// Voranstellen_Liste: "Fügt ein Element an Anfang der gegeben Liste an."
func Voranstellen[T any](l []T, e T) []T { return append([]T{e}, l...) }

// Voranstellen_Liste_Liste: "Fügt eine Liste an Anfang der gegeben Liste an."
func VoranstellenListe[T any](l, o []T) []T { return append(cp(o), l...) }

// Lösche_Element: "Entfernt das Element an dem gegeben Index aus der gegeben Liste. Ist der Index
// invalide wird ein Laufzeitfehler ausgelöst"
func LoescheElement[T any](l []T, idx int64) ([]T, Dom) {
	if idx < 1 || idx > int64(len(l)) {
		return nil, Fehler
	}
	return append(cp(l[:idx-1]), l[idx:]...), Def
}

// Lösche_Bereich: "Entfernt alle Elemente aus der Liste im Bereich [start, end] (inklusiv). Ist der
// Index invalide wird ein Laufzeitfehler ausgelöst". Two valid indices in the wrong order describe
// an empty interval; whether that is "invalide" is not said: Offen.
func LoescheBereich[T any](l []T, start, end int64) ([]T, Dom) {
	n := int64(len(l))
	if start < 1 || start > n || end < 1 || end > n {
		return nil, Fehler
	}
	if start > end {
		return nil, Offen
	}
	return append(cp(l[:start-1]), l[end:]...), Def
}

// Füllen_Liste: "Füllt die gegebene Liste mit dem gegebenen Wert."
func Fuellen[T any](l []T, e T) []T {
	out := make([]T, len(l))
	for i := range out {
		out[i] = e
	}
	return out
}

// Index_Von_Element(_Ref): "Gibt den Index des gegebenen Wertes aus der Liste zurück oder -1 wenn
// der Wert nicht in der Liste vorhanden ist." (the index = the first one, assumption A1)
func IndexVon[T comparable](l []T, e T) int64 {
	for i, x := range l {
		if x == e {
			return int64(i + 1)
		}
	}
	return -1
}

// Enthält_Wert(_Ref): "Gibt zurück ob der Wert in der Liste vorhanden ist."
func Enthaelt[T comparable](l []T, e T) bool { return IndexVon(l, e) != -1 }

// Ist_Leer_Liste(_Ref): "Gibt zurück ob die Liste leer ist."
func IstLeer[T any](l []T) bool { return len(l) == 0 }

// Erste_N_Elemente_Liste(_Ref): "Gibt liste bis zum n. Element zurück." The n. Element exists for
// 1 <= n <= len; anything else is Offen.
func ErsteN[T any](l []T, n int64) ([]T, Dom) {
	if n < 1 || n > int64(len(l)) {
		return nil, Offen
	}
	return cp(l[:n]), Def
}

// Letzten_N_Elemente_Liste(_Ref): alias "die letzten <n> Elemente von <liste>" (the formula in the
// doc comment is off by one against name, alias and upstream golden; the alias is taken). 1 <= n <= len.
func LetzteN[T any](l []T, n int64) ([]T, Dom) {
	if n < 1 || n > int64(len(l)) {
		return nil, Offen
	}
	return cp(l[int64(len(l))-n:]), Def
}

// Liste_Spiegeln(_Ref): "Gibt die Liste gespiegelt zurück."
func Spiegeln[T any](l []T) []T {
	out := make([]T, len(l))
	for i, x := range l {
		out[len(l)-1-i] = x
	}
	return out
}

type Num interface{ ~int64 | ~float64 }

// Summe_Liste: "f(l) = e1 + e2 + e3 + ... + en"
func SummeListe[T Num](l []T) T {
	var s T
	for _, x := range l {
		s += x
	}
	return s
}

// Produkt_Liste: "f(l) = e1 * e2 * e3 * ... * en; f({}) = 0"
func ProduktListe[T Num](l []T) T {
	if len(l) == 0 {
		return 0
	}
	var p T = 1
	for _, x := range l {
		p *= x
	}
	return p
}

func elementweise[T, R any](a, b []T, f func(x, y T) R) ([]R, Dom) {
	if len(a) != len(b) { // "Beide Listen müssen gleich lang sein."
		return nil, Offen
	}
	out := make([]R, len(a))
	for i := range a {
		out[i] = f(a[i], b[i])
	}
	return out, Def
}

// Elementweise_Summe: "Berechnet die Summe jedes Elements aus l1 mit l2."
func ElementweiseSumme[T Num](a, b []T) ([]T, Dom) {
	return elementweise(a, b, func(x, y T) T { return x + y })
}

// Elementweise_Differenz
func ElementweiseDifferenz[T Num](a, b []T) ([]T, Dom) {
	return elementweise(a, b, func(x, y T) T { return x - y })
}

// Elementweise_Produkt
func ElementweiseProdukt[T Num](a, b []T) ([]T, Dom) {
	return elementweise(a, b, func(x, y T) T { return x * y })
}

// Elementweise_Quotient: "Berechnet den Quotient jedes Elements aus l1 mit l2." (a Kommazahlen Liste;
// a zero divisor is Offen)
func ElementweiseQuotient[T Num](a, b []T) ([]float64, Dom) {
	for _, y := range b {
		if y == 0 {
			return nil, Offen
		}
	}
	return elementweise(a, b, func(x, y T) float64 { return float64(x) / float64(y) })
}

// Aneinandergehängt_Buchstabe(_Ref): "Verkettet alle Buchstaben der gegebenen Liste zu einem Text"
func Aneinandergehaengt(l []rune) []rune { return cp(l) }

// Verketten_Text_Liste(_Ref): "Verkettet alle Texte in der gegebenen Text liste."
func VerkettenTextListe(l []string) string {
	s := ""
	for _, t := range l {
		s += t
	}
	return s
}

// Elementweise_Verketten_Text(_Ref): "Verkettet jedes Element aus l1 mit l2. Beide Listen müssen gleich lang sein."
func ElementweiseVerketten(a, b []string) ([]string, Dom) {
	return elementweise(a, b, func(x, y string) string { return x + y })
}

// Aufsteigende_Zahlen: "aufsteigenden Zahlen von start bis end (beide inklusiv)"; start > ende is Offen.
func AufsteigendeZahlen(start, ende int64) ([]int64, Dom) {
	if start > ende {
		return nil, Offen
	}
	out := []int64{}
	for i := start; i <= ende; i++ {
		out = append(out, i)
	}
	return out, Def
}

// Absteigende_Zahlen: "absteigenden Zahlen von start bis end (beide inklusiv)", f(10, 1) = {10, …, 1};
// start < ende is Offen (the third example of the doc comment is a copy of the ascending one).
func AbsteigendeZahlen(start, ende int64) ([]int64, Dom) {
	if start < ende {
		return nil, Offen
	}
	out := []int64{}
	for i := start; i >= ende; i-- {
		out = append(out, i)
	}
	return out, Def
}
