package cdm

/*
#cgo LDFLAGS: -lm
#include <stdio.h>
#include <math.h>
#include <stdlib.h>
static void fmt_g16(double v, char *buf) { snprintf(buf, 64, "%.16g", v); }
static double c_pow(double a, double b) { return pow(a, b); }
static double c_log10(double a) { return log10(a); }
*/
import "C"

import (
	"fmt"
	"math"
	"strconv"
	"strings"
	"unicode/utf8"
)

// Unspecified is panicked when the reference semantics does not determine the outcome.
type Unspecified struct{ Why string }

type rtError struct{ msg string }
type breakSig struct{}
type contSig struct{}
type retSig struct {
	v Value
	t *Type // static type of the returned expression
}

// Outcome of running a program under the reference semantics.
type Outcome struct {
	Stdout string
	Exit   int  // 0, or 1 after a Laufzeitfehler
	RtErr  bool // stopped with a Laufzeitfehler
	Steps  int
}

type ref interface {
	get() Value
	set(Value)
}
type cell struct{ v Value }

func (c *cell) get() Value  { return c.v }
func (c *cell) set(v Value) { c.v = v }

type elemRef struct {
	l *ListV
	i int
}

func (r elemRef) get() Value  { return r.l.El[r.i] }
func (r elemRef) set(v Value) { r.l.El[r.i] = v }

type fieldRef struct {
	s *StructV
	i int
}

func (r fieldRef) get() Value  { return r.s.Fl[r.i] }
func (r fieldRef) set(v Value) { r.s.Fl[r.i] = v }

// charRef: a Buchstabe inside a Text (assignment "Speichere c in t an der Stelle i")
type charRef struct {
	t ref
	i int
}

func (r charRef) get() Value { return r.t.get().([]rune)[r.i] }
func (r charRef) set(v Value) {
	rs := append([]rune{}, r.t.get().([]rune)...)
	rs[r.i] = v.(rune)
	r.t.set(rs)
}

type env struct {
	vars   map[string]ref
	parent *env
}

func (e *env) lookup(n string) ref {
	for x := e; x != nil; x = x.parent {
		if r, ok := x.vars[n]; ok {
			return r
		}
	}
	panic("cdm: unknown variable " + n)
}

type Machine struct {
	out      strings.Builder
	steps    int
	MaxSteps int
	globals  *env
	args     []string
}

func FormatFloat(v float64) string {
	if math.IsInf(v, 1) {
		return "Unendlich"
	}
	if math.IsInf(v, -1) {
		return "-Unendlich"
	}
	if math.IsNaN(v) {
		return "Keine Zahl (NaN)"
	}
	var buf [64]C.char
	C.fmt_g16(C.double(v), &buf[0])
	return strings.Replace(C.GoString(&buf[0]), ".", ",", 1)
}

func Pow(a, b float64) float64 { return float64(C.c_pow(C.double(a), C.double(b))) }
func Log10(a float64) float64  { return float64(C.c_log10(C.double(a))) }

// Show renders a scalar value the way the Duden's Schreibe functions do.
func Show(v Value) string {
	switch x := v.(type) {
	case int64:
		return strconv.FormatInt(x, 10)
	case float64:
		return FormatFloat(x)
	case uint8:
		return strconv.Itoa(int(x))
	case bool:
		if x {
			return "wahr"
		}
		return "falsch"
	case rune:
		if !utf8.ValidRune(x) || x == 0 {
			panic(Unspecified{"printing a Buchstabe that is not a printable scalar value"})
		}
		return string(x)
	case []rune:
		for _, r := range x {
			if r == 0 {
				panic(Unspecified{"NUL inside a Text"})
			}
		}
		return string(x)
	}
	panic(fmt.Sprintf("Show: %T", v))
}

// Run executes the program under the reference semantics.
func (pr *Program) Run() (o Outcome, unspec *Unspecified) {
	m := &Machine{MaxSteps: 2_000_000, args: pr.Args}
	defer func() {
		if r := recover(); r != nil {
			switch x := r.(type) {
			case rtError:
				o = Outcome{Stdout: m.out.String(), Exit: 1, RtErr: true, Steps: m.steps}
			case Unspecified:
				unspec = &x
			default:
				panic(r)
			}
		}
	}()
	m.globals = &env{vars: map[string]ref{}}
	sig := m.block(m.globals, append(append([]Stmt{}, pr.Pre...), pr.Main...), false)
	if sig != nil {
		if _, ok := sig.(retSig); !ok {
			panic("cdm: break/continue escaped main")
		}
	}
	return Outcome{Stdout: m.out.String(), Steps: m.steps}, nil
}

func (m *Machine) tick() {
	m.steps++
	if m.steps > m.MaxSteps {
		panic(Unspecified{"step budget exceeded (non-terminating or too long)"})
	}
}

// block runs statements in a fresh scope (newScope) and returns a control signal or nil.
func (m *Machine) block(e *env, body []Stmt, newScope bool) any {
	if newScope {
		e = &env{vars: map[string]ref{}, parent: e}
	}
	for _, s := range body {
		if sig := m.stmt(e, s); sig != nil {
			return sig
		}
	}
	return nil
}

func truth(v Value) bool { return v.(bool) }

func (m *Machine) stmt(e *env, s Stmt) any {
	m.tick()
	switch x := s.(type) {
	case *VarDecl:
		v := m.eval(e, x.Init)
		e.vars[x.Name] = &cell{Convert(Copy(v), x.Init.Ty(), x.T)}
	case *Assign:
		v := Copy(m.eval(e, x.Val))
		r := m.lref(e, x.Target)
		r.set(Convert(v, x.Val.Ty(), x.Target.Ty()))
	case *Compound:
		m.compound(e, x)
	case *If:
		if truth(m.eval(e, x.Cond)) {
			return m.block(e, x.Then, true)
		} else if x.Else != nil {
			return m.block(e, x.Else, true)
		}
	case *While:
		for truth(m.eval(e, x.Cond)) {
			m.tick()
			sig := m.block(e, x.Body, true)
			if _, ok := sig.(breakSig); ok {
				break
			}
			if _, ok := sig.(retSig); ok {
				return sig
			}
		}
	case *DoWhile:
		for {
			m.tick()
			sig := m.block(e, x.Body, true)
			if _, ok := sig.(breakSig); ok {
				break
			}
			if _, ok := sig.(retSig); ok {
				return sig
			}
			if !truth(m.eval(e, x.Cond)) {
				break
			}
		}
	case *Repeat:
		n := toInt(m.eval(e, x.N))
		if n < 0 {
			panic(Unspecified{"negative repeat count"})
		}
		for i := int64(0); i < n; i++ {
			m.tick()
			sig := m.block(e, x.Body, true)
			if _, ok := sig.(breakSig); ok {
				break
			}
			if _, ok := sig.(retSig); ok {
				return sig
			}
		}
	case *For:
		return m.forLoop(e, x)
	case *ForEach:
		return m.forEach(e, x)
	case *Break:
		return breakSig{}
	case *Continue:
		return contSig{}
	case *Return:
		if x.X == nil {
			return retSig{nil, nil}
		}
		return retSig{Copy(m.eval(e, x.X)), x.X.Ty()}
	case *ExprStmt:
		m.eval(e, x.X)
	case *Print:
		m.out.WriteString(Show(m.eval(e, x.X)))
	case *Todo:
		panic(rtError{"..."})
	case *FuncDecl, *FuncDef:
		// text only
	default:
		panic(fmt.Sprintf("cdm stmt: %T", s))
	}
	return nil
}

func toInt(v Value) int64 {
	switch x := v.(type) {
	case int64:
		return x
	case uint8:
		return int64(x)
	}
	panic(fmt.Sprintf("toInt: %T", v))
}

func toFloat(v Value) float64 {
	switch x := v.(type) {
	case int64:
		return float64(x)
	case uint8:
		return float64(x)
	case float64:
		return x
	}
	panic(fmt.Sprintf("toFloat: %T", v))
}

// Convert implements the implicit numeric conversion at initialisation / assignment / argument / return
// and the wrapping of a value into a Variable.
func Convert(v Value, from, to *Type) Value {
	if to.K == KAny && from.K != KAny {
		return &AnyV{T: from, V: v}
	}
	if !from.IsNum() || !to.IsNum() || from.K == to.K {
		return v
	}
	return numCast(v, to)
}

func numCast(v Value, to *Type) Value {
	switch to.K {
	case KZahl:
		switch x := v.(type) {
		case int64:
			return x
		case uint8:
			return int64(x)
		case float64:
			if math.IsNaN(x) || x >= 9223372036854775808.0 || x < -9223372036854775808.0 {
				panic(Unspecified{"Kommazahl out of Zahl range converted to Zahl"})
			}
			return int64(x)
		}
	case KKomma:
		return toFloat(v)
	case KByte:
		switch x := v.(type) {
		case int64:
			return uint8(x) // low 8 bits (assumption, DESIGN §3)
		case uint8:
			return x
		case float64:
			if math.IsNaN(x) || x < 0 || x >= 256 {
				panic(Unspecified{"Kommazahl outside 0..255 converted to Byte"})
			}
			return uint8(x)
		}
	}
	panic("numCast")
}

func (m *Machine) forLoop(e *env, x *For) any {
	scope := &env{vars: map[string]ref{}, parent: e}
	from := Convert(m.eval(e, x.From), x.From.Ty(), x.T)
	c := &cell{from}
	scope.vars[x.Var] = c
	if x.T.K == KKomma {
		idx := from.(float64)
		for {
			m.tick()
			step := 1.0
			if x.Step != nil {
				step = toFloat(m.eval(scope, x.Step))
			}
			to := toFloat(m.eval(scope, x.To))
			if step == 0 || math.IsNaN(step) {
				panic(Unspecified{"zero step"})
			}
			if step < 0 && !(idx >= to) || step > 0 && !(idx <= to) {
				break
			}
			sig := m.block(scope, x.Body, true)
			if _, ok := sig.(breakSig); ok {
				break
			}
			if _, ok := sig.(retSig); ok {
				return sig
			}
			if c.v.(float64) != idx {
				panic(Unspecified{"loop variable assigned in body"})
			}
			idx += step
			c.v = idx
		}
		return nil
	}
	idx := toInt(from)
	for {
		m.tick()
		step := int64(1)
		if x.Step != nil {
			sv := m.eval(scope, x.Step)
			if f, ok := sv.(float64); ok {
				_ = f
				panic(Unspecified{"Kommazahl step for an integer loop"})
			}
			step = toInt(sv)
		}
		tv := m.eval(scope, x.To)
		if _, ok := tv.(float64); ok {
			panic(Unspecified{"Kommazahl bound for an integer loop"})
		}
		to := toInt(tv)
		if step == 0 {
			panic(Unspecified{"zero step"})
		}
		if step < 0 && !(idx >= to) || step > 0 && !(idx <= to) {
			break
		}
		sig := m.block(scope, x.Body, true)
		if _, ok := sig.(breakSig); ok {
			break
		}
		if _, ok := sig.(retSig); ok {
			return sig
		}
		if toInt(c.v) != idx && !(x.T.K == KByte && int64(uint8(idx)) == toInt(c.v)) {
			panic(Unspecified{"loop variable assigned in body"})
		}
		if (step > 0 && idx > math.MaxInt64-step) || (step < 0 && idx < math.MinInt64-step) {
			panic(Unspecified{"loop counter overflow"})
		}
		idx += step
		if x.T.K == KByte {
			c.v = uint8(idx)
		} else {
			c.v = idx
		}
	}
	return nil
}

func (m *Machine) forEach(e *env, x *ForEach) any {
	src := Copy(m.eval(e, x.In)) // the source is evaluated once; later changes are not observed
	var items []Value
	switch s := src.(type) {
	case []rune:
		for _, r := range s {
			items = append(items, r)
		}
	case *ListV:
		items = s.El
	default:
		panic("forEach source")
	}
	for i, it := range items {
		m.tick()
		scope := &env{vars: map[string]ref{}, parent: e}
		scope.vars[x.Var] = &cell{Copy(it)}
		if x.Idx != "" {
			scope.vars[x.Idx] = &cell{int64(i + 1)}
		}
		sig := m.block(scope, x.Body, true)
		if _, ok := sig.(breakSig); ok {
			break
		}
		if _, ok := sig.(retSig); ok {
			return sig
		}
	}
	return nil
}

func (m *Machine) compound(e *env, x *Compound) {
	r := m.lref(e, x.Target)
	tt := x.Target.Ty()
	cur := r.get()
	var res Value
	var rt *Type
	switch x.Op {
	case "negiere":
		switch c := cur.(type) {
		case bool:
			r.set(!c)
		case int64:
			r.set(-c)
		case float64:
			r.set(-c)
		default:
			panic(Unspecified{"Negiere on this type"})
		}
		return
	case "erhoehe":
		res, rt = arith("plus", cur, tt, m.eval(e, x.Val), x.Val.Ty())
	case "verringere":
		res, rt = arith("minus", cur, tt, m.eval(e, x.Val), x.Val.Ty())
	case "vervielfache":
		res, rt = arith("mal", cur, tt, m.eval(e, x.Val), x.Val.Ty())
	case "teile":
		res, rt = arith("durch", cur, tt, m.eval(e, x.Val), x.Val.Ty())
	case "shl", "shr":
		res, rt = shift(x.Op, cur, tt, m.eval(e, x.Val))
	default:
		panic("compound op")
	}
	r.set(Convert(res, rt, tt))
}

// lref resolves an lvalue expression to a reference.
func (m *Machine) lref(e *env, t Expr) ref {
	switch x := t.(type) {
	case *Var:
		return e.lookup(x.Name)
	case *FieldOf:
		base := m.lref(e, x.X)
		s := base.get().(*StructV)
		for i, f := range s.T.Fields {
			if f.Name == x.Name {
				return fieldRef{s, i}
			}
		}
		panic("no field " + x.Name)
	case *Bin:
		if x.Op == "index" {
			base := m.lref(e, x.L)
			idx := toInt(m.eval(e, x.R))
			switch c := base.get().(type) {
			case *ListV:
				if idx < 1 || idx > int64(len(c.El)) {
					panic(rtError{"index"})
				}
				return elemRef{c, int(idx - 1)}
			case []rune:
				if idx < 1 || idx > int64(len(c)) {
					panic(rtError{"index"})
				}
				return charRef{base, int(idx - 1)}
			}
		}
	}
	panic(fmt.Sprintf("lref: %T", t))
}

// ArithType gives the static result type of plus/minus/mal (typing table of the checker with the
// Zahl/Byte mix resolved to Zahl, see DESIGN §5 C01 finding).
func ArithType(op string, a, b *Type) *Type {
	switch op {
	case "durch", "hoch", "log", "wurzel":
		return Komma
	case "modulo", "logund", "logoder", "logxor":
		if a.K == KByte && b.K == KByte {
			return Byte
		}
		return Zahl
	}
	if a.K == KKomma || b.K == KKomma {
		return Komma
	}
	if a.K == KByte && b.K == KByte {
		return Byte
	}
	return Zahl
}

func arith(op string, a Value, at *Type, b Value, bt *Type) (Value, *Type) {
	rt := ArithType(op, at, bt)
	switch op {
	case "durch":
		return toFloat(a) / toFloat(b), rt
	case "hoch":
		return Pow(toFloat(a), toFloat(b)), rt
	case "wurzel":
		return Pow(toFloat(a), 1.0/toFloat(b)), rt
	case "log":
		return Log10(toFloat(a)) / Log10(toFloat(b)), rt
	}
	switch rt.K {
	case KKomma:
		x, y := toFloat(a), toFloat(b)
		switch op {
		case "plus":
			return x + y, rt
		case "minus":
			return x - y, rt
		case "mal":
			return x * y, rt
		}
	case KByte:
		x, y := a.(uint8), b.(uint8)
		switch op {
		case "plus":
			return x + y, rt
		case "minus":
			return x - y, rt
		case "mal":
			return x * y, rt
		case "modulo":
			if y == 0 {
				panic(Unspecified{"modulo 0"})
			}
			return x % y, rt
		case "logund":
			return x & y, rt
		case "logoder":
			return x | y, rt
		case "logxor":
			return x ^ y, rt
		}
	case KZahl:
		x, y := toInt(a), toInt(b)
		switch op {
		case "plus":
			return x + y, rt
		case "minus":
			return x - y, rt
		case "mal":
			return x * y, rt
		case "modulo":
			if y == 0 || (x == math.MinInt64 && y == -1) {
				panic(Unspecified{"modulo 0 / MIN modulo -1"})
			}
			return x % y, rt
		case "logund":
			return x & y, rt
		case "logoder":
			return x | y, rt
		case "logxor":
			return x ^ y, rt
		}
	}
	panic("arith " + op)
}

func shift(op string, a Value, at *Type, b Value) (Value, *Type) {
	n := toInt(b)
	switch x := a.(type) {
	case int64:
		if n < 0 || n > 63 {
			panic(Unspecified{"shift count outside 0..63"})
		}
		if op == "shl" {
			return x << uint(n), at
		}
		if x < 0 {
			panic(Unspecified{"right shift of a negative Zahl"})
		}
		return x >> uint(n), at
	case uint8:
		if n < 0 || n > 7 {
			panic(Unspecified{"shift count outside 0..7"})
		}
		if op == "shl" {
			return x << uint(n), at
		}
		return x >> uint(n), at
	}
	panic("shift")
}

func cmpNum(op string, a, b Value) bool {
	_, af := a.(float64)
	_, bf := b.(float64)
	if af || bf {
		x, y := toFloat(a), toFloat(b)
		switch op {
		case "kleiner":
			return x < y
		case "kleinergleich":
			return x <= y
		case "groesser":
			return x > y
		case "groessergleich":
			return x >= y
		}
	}
	x, y := toInt(a), toInt(b)
	switch op {
	case "kleiner":
		return x < y
	case "kleinergleich":
		return x <= y
	case "groesser":
		return x > y
	case "groessergleich":
		return x >= y
	}
	panic("cmpNum")
}

func (m *Machine) eval(e *env, ex Expr) Value {
	m.tick()
	switch x := ex.(type) {
	case *Lit:
		return x.V
	case *Var:
		return e.lookup(x.Name).get()
	case *Un:
		v := m.eval(e, x.X)
		switch x.Op {
		case "betrag":
			switch c := v.(type) {
			case int64:
				if c < 0 {
					return -c
				}
				return c
			case float64:
				if c < 0 {
					return 0 - c
				}
				return c
			case uint8:
				return int64(c)
			}
		case "neg":
			switch c := v.(type) {
			case int64:
				return -c
			case float64:
				return -c
			case uint8:
				return -int64(c)
			}
		case "nicht":
			return !v.(bool)
		case "lognicht":
			switch c := v.(type) {
			case int64:
				return ^c
			case uint8:
				return ^c
			}
		case "laenge":
			switch c := v.(type) {
			case []rune:
				return int64(len(c))
			case *ListV:
				return int64(len(c.El))
			}
		}
		panic("cdm un " + x.Op)
	case *Bin:
		return m.bin(e, x)
	case *Ter:
		switch x.Op {
		case "falls":
			if truth(m.eval(e, x.B)) {
				return m.eval(e, x.A)
			}
			return m.eval(e, x.C)
		case "zwischen":
			a, b, c := m.eval(e, x.A), m.eval(e, x.B), m.eval(e, x.C)
			return cmpNum("groesser", a, b) && cmpNum("kleiner", a, c) || cmpNum("groesser", a, c) && cmpNum("kleiner", a, b)
		case "slice":
			a, b, c := m.eval(e, x.A), toInt(m.eval(e, x.B)), toInt(m.eval(e, x.C))
			return slice(a, b, c)
		}
	case *Cast:
		return m.cast(m.eval(e, x.X), x.X.Ty(), x.T)
	case *ListLit:
		l := &ListV{T: x.T}
		for _, el := range x.El {
			l.El = append(l.El, Copy(m.eval(e, el)))
		}
		return l
	case *ListN:
		n := toInt(m.eval(e, x.N))
		v := m.eval(e, x.V)
		if n < 0 {
			panic(Unspecified{"negative list size"})
		}
		if n > 100000 {
			panic(Unspecified{"huge list"})
		}
		l := &ListV{T: x.T}
		for i := int64(0); i < n; i++ {
			l.El = append(l.El, Copy(v))
		}
		return l
	case *Call:
		return m.call(e, x)
	case *FieldOf:
		s := m.eval(e, x.X).(*StructV)
		for i, f := range s.T.Fields {
			if f.Name == x.Name {
				return s.Fl[i]
			}
		}
		panic("no field")
	case *StructLit:
		s := &StructV{T: x.T}
		for i, a := range x.Args {
			s.Fl = append(s.Fl, Convert(Copy(m.eval(e, a)), a.Ty(), x.T.Fields[i].T))
		}
		return s
	case *TypeCheck:
		a := m.eval(e, x.X).(*AnyV)
		r := a.T != nil && a.T.Eq(x.Chk)
		if x.Neg {
			return !r
		}
		return r
	case *DefaultOf:
		return DefaultValue(x.T)
	case *RawLit:
		return x.V
	case *Arg:
		if x.I >= len(m.args) {
			panic(rtError{"missing argument"})
		}
		n, ok := parseIntText(m.args[x.I])
		if !ok {
			panic(Unspecified{"argument is not a plain integer"})
		}
		return n
	}
	panic(fmt.Sprintf("cdm eval: %T", ex))
}

// DefaultValue: "der Standardwert von …" (for structs: the declared field defaults)
func DefaultValue(t *Type) Value {
	if t.K == KStruct {
		s := &StructV{T: t}
		for _, f := range t.Fields {
			s.Fl = append(s.Fl, FieldDefault(f.T))
		}
		return s
	}
	return Default(t)
}

// FieldDefault is the default the printer writes into struct declarations.
func FieldDefault(t *Type) Value {
	if t.K == KChar {
		return rune(' ')
	}
	return DefaultValue(t)
}

func slice(a Value, i1, i2 int64) Value {
	n := int64(0)
	switch c := a.(type) {
	case []rune:
		n = int64(len(c))
	case *ListV:
		n = int64(len(c.El))
	}
	if n == 0 {
		switch c := a.(type) {
		case []rune:
			return []rune{}
		case *ListV:
			return &ListV{T: c.T}
		}
	}
	cl := func(i int64) int64 {
		if i < 1 {
			i = 1
		}
		if i > n {
			i = n
		}
		return i
	}
	i1, i2 = cl(i1), cl(i2)
	if i2 < i1 {
		panic(rtError{"slice"})
	}
	switch c := a.(type) {
	case []rune:
		return append([]rune{}, c[i1-1:i2]...)
	case *ListV:
		l := &ListV{T: c.T}
		for _, el := range c.El[i1-1 : i2] {
			l.El = append(l.El, Copy(el))
		}
		return l
	}
	panic("slice")
}

func (m *Machine) bin(e *env, x *Bin) Value {
	switch x.Op {
	case "und":
		if !truth(m.eval(e, x.L)) {
			return false
		}
		return truth(m.eval(e, x.R))
	case "oder":
		if truth(m.eval(e, x.L)) {
			return true
		}
		return truth(m.eval(e, x.R))
	}
	a := m.eval(e, x.L)
	b := m.eval(e, x.R)
	lt, rt := x.L.Ty(), x.R.Ty()
	switch x.Op {
	case "xor":
		return a.(bool) != b.(bool)
	case "plus", "minus", "mal", "durch", "modulo", "hoch", "log", "wurzel", "logund", "logoder", "logxor":
		v, _ := arith(x.Op, a, lt, b, rt)
		return v
	case "shl", "shr":
		v, _ := shift(x.Op, a, lt, b)
		return v
	case "gleich":
		return Equal(a, b)
	case "ungleich":
		return !Equal(a, b)
	case "kleiner", "kleinergleich", "groesser", "groessergleich":
		return cmpNum(x.Op, a, b)
	case "verkettet":
		if x.T.K == KText {
			var rs []rune
			for _, v := range []Value{a, b} {
				switch c := v.(type) {
				case []rune:
					rs = append(rs, c...)
				case rune:
					rs = append(rs, c)
				}
			}
			if rs == nil {
				rs = []rune{}
			}
			return rs
		}
		l := &ListV{T: x.T}
		for i, v := range []Value{a, b} {
			if []*Type{lt, rt}[i].Eq(x.T) { // a list operand
				for _, el := range v.(*ListV).El {
					l.El = append(l.El, Copy(el))
				}
			} else { // an element operand (possibly itself a list, for nested lists)
				l.El = append(l.El, Copy(v))
			}
		}
		return l
	case "index":
		i := toInt(b)
		switch c := a.(type) {
		case []rune:
			if i < 1 || i > int64(len(c)) {
				panic(rtError{"index"})
			}
			return c[i-1]
		case *ListV:
			if i < 1 || i > int64(len(c.El)) {
				panic(rtError{"index"})
			}
			return c.El[i-1]
		}
	case "ab":
		n := int64(0)
		switch c := a.(type) {
		case []rune:
			n = int64(len(c))
		case *ListV:
			n = int64(len(c.El))
		}
		return slice(a, toInt(b), n)
	case "bis":
		return slice(a, 1, toInt(b))
	}
	panic(fmt.Sprintf("cdm bin %s on %T / %T: %s", x.Op, a, b, Src(x)))
}

func (m *Machine) call(e *env, x *Call) Value {
	f := x.F
	scope := &env{vars: map[string]ref{}, parent: m.globals}
	// arguments are evaluated left to right in the order of the alias (= parameter order here)
	for i, p := range f.Params {
		if p.Ref {
			scope.vars[p.Name] = m.lref(e, x.Args[i])
		} else {
			scope.vars[p.Name] = &cell{Convert(Copy(m.eval(e, x.Args[i])), x.Args[i].Ty(), p.T)}
		}
	}
	sig := m.block(scope, f.Body, false)
	if r, ok := sig.(retSig); ok {
		if r.v == nil {
			return nil
		}
		return Convert(r.v, r.t, f.Ret)
	}
	if f.Ret.K != KVoid {
		panic("cdm: value function fell off its end")
	}
	return nil
}

func parseIntText(s string) (int64, bool) {
	v, err := strconv.ParseInt(s, 10, 64)
	return v, err == nil
}

func (m *Machine) cast(v Value, from, to *Type) Value {
	if to.K == KAny {
		if from.K == KAny {
			return v
		}
		return &AnyV{T: from, V: Copy(v)}
	}
	if from.K == KAny {
		a := v.(*AnyV)
		if a.T == nil || !a.T.Eq(to) {
			panic(rtError{"bad cast"})
		}
		return Copy(a.V)
	}
	if to.K == KList {
		if from.K == KList {
			return v
		}
		return &ListV{T: to, El: []Value{Copy(v)}}
	}
	if to.K == KStruct {
		return v
	}
	switch to.K {
	case KZahl:
		switch c := v.(type) {
		case int64, uint8, float64:
			return numCast(v, Zahl)
		case bool:
			if c {
				return int64(1)
			}
			return int64(0)
		case rune:
			return int64(c)
		case []rune:
			if n, ok := parseIntText(string(c)); ok && !strings.HasPrefix(string(c), "+") {
				return n
			}
			panic(Unspecified{"Text that is not a plain integer numeral converted to Zahl"})
		}
	case KKomma:
		switch c := v.(type) {
		case int64, uint8, float64:
			return numCast(v, Komma)
		case []rune:
			s := string(c)
			ok := len(s) > 0
			seenComma := false
			for i, r := range s {
				if r == '-' && i == 0 && len(s) > 1 {
					continue
				}
				if r == ',' && !seenComma && i > 0 && i < len(s)-1 {
					seenComma = true
					continue
				}
				if r < '0' || r > '9' {
					ok = false
				}
			}
			if !ok || len(s) > 15 {
				panic(Unspecified{"Text that is not a plain short decimal numeral converted to Kommazahl"})
			}
			f, err := strconv.ParseFloat(strings.Replace(s, ",", ".", 1), 64)
			if err != nil {
				panic(Unspecified{"unparsable"})
			}
			return f
		}
	case KByte:
		switch v.(type) {
		case int64, uint8, float64:
			return numCast(v, Byte)
		}
	case KBool:
		switch c := v.(type) {
		case int64:
			return c != 0
		case uint8:
			return c != 0
		case bool:
			return c
		}
	case KChar:
		switch c := v.(type) {
		case int64:
			if c < 0 || c > 0x10FFFF || !utf8.ValidRune(rune(c)) {
				panic(Unspecified{"Zahl that is not a Unicode scalar value converted to Buchstabe"})
			}
			return rune(c)
		case uint8:
			return rune(c)
		case rune:
			return c
		}
	case KText:
		switch c := v.(type) {
		case int64, float64, uint8, bool:
			return []rune(Show(v))
		case rune:
			return []rune{c}
		case []rune:
			return c
		}
	}
	panic(fmt.Sprintf("cdm cast %s -> %s", from, to))
}

// FinalValue runs the program and returns the value a global variable holds at the end
// (false if the run was unspecified or ended in a runtime error).
func (pr *Program) FinalValue(name string) (v Value, ok bool) {
	m := &Machine{MaxSteps: 2_000_000}
	defer func() {
		if r := recover(); r != nil {
			switch r.(type) {
			case rtError, Unspecified:
				v, ok = nil, false
			default:
				panic(r)
			}
		}
	}()
	m.globals = &env{vars: map[string]ref{}}
	m.block(m.globals, append(append([]Stmt{}, pr.Pre...), pr.Main...), false)
	r, found := m.globals.vars[name]
	if !found {
		return nil, false
	}
	return r.get(), true
}
