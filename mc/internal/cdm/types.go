// Package cdm is the core-DDP model: a small typed AST, a printer that emits DDP source (the only
// place that knows the German surface syntax) and a boring tree-walking reference evaluator.
// Authority of the semantics: DESIGN.md §3.
package cdm

import (
	"fmt"
)

type Kind int

const (
	KZahl Kind = iota
	KKomma
	KByte
	KBool
	KChar
	KText
	KList
	KStruct
	KAny
	KVoid
)

type Type struct {
	K      Kind
	Elem   *Type    // list element
	Name   string   // struct name
	Fields []Field  // struct fields
	Gender string   // struct: "m","f","n"
	Alias  string   // non-empty: a declared type alias name for this type ("Wir nennen … auch …")
	Def    string   // non-empty: a type definition ("Wir definieren … als …"): a new nominal type over this representation
	DefG   string   // gender of the defined name
}

// DefOf returns the type definition `name` (gender g) over under. Values are those of under; the type
// is a different one (conversions in both directions are explicit, a Variable holding one is not the other).
func DefOf(name, g string, under *Type) *Type {
	t := *under
	t.Alias, t.Def, t.DefG = "", name, g
	return &t
}

// Under returns the type a definition was made from (the type itself otherwise).
func (t *Type) Under() *Type {
	if t.Def == "" {
		return t
	}
	u := *t
	u.Def, u.DefG = "", ""
	if u.K == KList {
		return ListOf(t.Elem)
	}
	switch u.K {
	case KZahl:
		return Zahl
	case KKomma:
		return Komma
	case KByte:
		return Byte
	case KBool:
		return Bool
	case KChar:
		return Char
	case KText:
		return Text
	}
	return &u
}

type Field struct {
	Name string
	T    *Type
}

var (
	Zahl  = &Type{K: KZahl}
	Komma = &Type{K: KKomma}
	Byte  = &Type{K: KByte}
	Bool  = &Type{K: KBool}
	Char  = &Type{K: KChar}
	Text  = &Type{K: KText}
	Any   = &Type{K: KAny}
	Void  = &Type{K: KVoid}
)

var listCache = map[*Type]*Type{}

func ListOf(t *Type) *Type {
	if l, ok := listCache[t]; ok {
		return l
	}
	l := &Type{K: KList, Elem: t}
	listCache[t] = l
	return l
}

func (t *Type) Eq(o *Type) bool {
	if t == o {
		return true
	}
	if t.Def != o.Def {
		return false
	}
	if t.K != o.K {
		return false
	}
	switch t.K {
	case KList:
		return t.Elem.Eq(o.Elem)
	case KStruct:
		return t.Name == o.Name
	}
	return true
}

func (t *Type) IsNum() bool  { return t.K == KZahl || t.K == KKomma || t.K == KByte }
func (t *Type) IsInt() bool  { return t.K == KZahl || t.K == KByte }
func (t *Type) IsPrim() bool { return t.K <= KText }

// Name as written in a type position ("Zahl", "Zahlen Liste", "Text Listen Liste"…).
func (t *Type) String() string {
	if t.Def != "" {
		return t.Def
	}
	if t.Alias != "" {
		return t.Alias
	}
	switch t.K {
	case KZahl:
		return "Zahl"
	case KKomma:
		return "Kommazahl"
	case KByte:
		return "Byte"
	case KBool:
		return "Wahrheitswert"
	case KChar:
		return "Buchstabe"
	case KText:
		return "Text"
	case KAny:
		return "Variable"
	case KVoid:
		return "nichts"
	case KStruct:
		return t.Name
	case KList:
		switch t.Elem.K {
		case KZahl:
			return "Zahlen Liste"
		case KKomma:
			return "Kommazahlen Liste"
		case KChar:
			return "Buchstaben Liste"
		case KAny:
			return "Variablen Liste"
		}
		if t.Elem.Alias != "" {
			return t.Elem.Alias + " Liste"
		}
		return t.Elem.String() + " Liste"
	}
	return "?"
}

// gender: m / f / n
func (t *Type) G() string {
	if t.Def != "" {
		return t.DefG
	}
	switch t.K {
	case KZahl, KKomma, KList, KAny:
		return "f"
	case KStruct:
		return t.Gender
	}
	return "m"
}

// Nominative article + type for declarations: "Die Zahl", "Der Text", "Das X".
func (t *Type) Decl() string {
	return map[string]string{"m": "Der", "f": "Die", "n": "Das"}[t.G()] + " " + t.String()
}

// "jede Zahl" / "jeden Text" / "jedes X"
func (t *Type) Each() string {
	s := t.String()
	if t.K == KChar {
		s = "Buchstaben"
	}
	return map[string]string{"m": "jeden", "f": "jede", "n": "jedes"}[t.G()] + " " + s
}

// accusative with indefinite article for return types / type checks: "eine Zahl", "einen Text", "ein X"
func (t *Type) Akk() string {
	s := t.String()
	if t.K == KChar && t.Def == "" {
		s = "Buchstaben"
	}
	return map[string]string{"m": "einen", "f": "eine", "n": "ein"}[t.G()] + " " + s
}

// nominative indefinite, used by type checks "x ein Text ist" / "x eine Zahl ist"
func (t *Type) Nom() string {
	return map[string]string{"m": "ein", "f": "eine", "n": "ein"}[t.G()] + " " + t.String()
}

// dative with definite article for struct fields: "der Zahl x", "dem Text t"
func (t *Type) Dat() string {
	return map[string]string{"m": "dem", "f": "der", "n": "dem"}[t.G()] + " " + t.String()
}

// dative indefinite for "der Standardwert von einer Zahl" / "einem Text"
func (t *Type) DatIndef() string {
	return map[string]string{"m": "einem", "f": "einer", "n": "einem"}[t.G()] + " " + t.String()
}

// parameter type spelling: value → t.String(); reference → "Zahlen Referenz", …
func (t *Type) Param(ref bool) string {
	if !ref {
		return t.String()
	}
	switch t.K {
	case KZahl, KKomma:
		return t.String() + "en Referenz"
	case KChar:
		return "Buchstaben Referenz"
	case KList, KAny:
		return t.String() + "n Referenz"
	}
	return t.String() + " Referenz"
}

// ---------------------------------------------------------------- values

// Value is one of: int64 (Zahl), float64 (Kommazahl), uint8 (Byte), bool, rune (Buchstabe),
// []rune (Text), *ListV, *StructV, *AnyV
type Value any

type ListV struct {
	T  *Type // list type
	El []Value
}
type StructV struct {
	T  *Type
	Fl []Value
}
type AnyV struct {
	T *Type // held type; nil = holds nothing
	V Value
}

func Copy(v Value) Value {
	switch x := v.(type) {
	case []rune:
		return append([]rune{}, x...)
	case *ListV:
		n := &ListV{T: x.T, El: make([]Value, len(x.El))}
		for i, e := range x.El {
			n.El[i] = Copy(e)
		}
		return n
	case *StructV:
		n := &StructV{T: x.T, Fl: make([]Value, len(x.Fl))}
		for i, e := range x.Fl {
			n.Fl[i] = Copy(e)
		}
		return n
	case *AnyV:
		return &AnyV{T: x.T, V: Copy(x.V)}
	}
	return v
}

// Default value of a type ("Standardwert").
func Default(t *Type) Value {
	switch t.K {
	case KZahl:
		return int64(0)
	case KKomma:
		return float64(0)
	case KByte:
		return uint8(0)
	case KBool:
		return false
	case KChar:
		return rune(0)
	case KText:
		return []rune{}
	case KList:
		return &ListV{T: t}
	case KAny:
		return &AnyV{}
	}
	panic(fmt.Sprint("no default for ", t))
}

func Equal(a, b Value) bool {
	switch x := a.(type) {
	case int64:
		return x == b.(int64)
	case float64:
		return x == b.(float64)
	case uint8:
		return x == b.(uint8)
	case bool:
		return x == b.(bool)
	case rune:
		return x == b.(rune)
	case []rune:
		y := b.([]rune)
		if len(x) != len(y) {
			return false
		}
		for i := range x {
			if x[i] != y[i] {
				return false
			}
		}
		return true
	case *ListV:
		y := b.(*ListV)
		if len(x.El) != len(y.El) {
			return false
		}
		for i := range x.El {
			if !Equal(x.El[i], y.El[i]) {
				return false
			}
		}
		return true
	case *StructV:
		y := b.(*StructV)
		for i := range x.Fl {
			if !Equal(x.Fl[i], y.Fl[i]) {
				return false
			}
		}
		return true
	case *AnyV:
		y := b.(*AnyV)
		if x.T == nil || y.T == nil {
			return x.T == nil && y.T == nil
		}
		return x.T.Eq(y.T) && Equal(x.V, y.V)
	}
	panic("Equal: bad value")
}
