package cdm

// ---------------------------------------------------------------- expressions

type Expr interface{ Ty() *Type }

type Lit struct {
	T *Type
	V Value
}
type Var struct {
	Name string
	T    *Type
}

// Un ops: "betrag" "neg" "nicht" "lognicht" "laenge"
type Un struct {
	Op string
	X  Expr
	T  *Type
}

// Bin ops: plus minus mal durch modulo hoch log und oder xor logund logoder logxor shl shr
// gleich ungleich kleiner kleinergleich groesser groessergleich verkettet index ab bis
type Bin struct {
	Op   string
	L, R Expr
	T    *Type
}

// Ter ops: "slice" (A im Bereich von B bis C), "zwischen" (A zwischen B und C), "falls" (A, falls B, ansonsten C)
type Ter struct {
	Op      string
	A, B, C Expr
	T       *Type
}
type Cast struct {
	X Expr
	T *Type
}

// ListLit: non-empty "eine Liste, die aus … besteht", empty "eine leere T Liste"
type ListLit struct {
	T  *Type
	El []Expr
}

// ListN: "N Mal V"
type ListN struct {
	T    *Type
	N, V Expr
}
type Call struct {
	F    *Func
	Args []Expr
}

// FieldOf: "<Name> von <X>"
type FieldOf struct {
	Name string
	X    Expr
	T    *Type
}

// StructLit: constructor alias of the struct with all fields given
type StructLit struct {
	T    *Type
	Args []Expr // in field order
}

// TypeCheck: "X ein T ist" on a Variable
type TypeCheck struct {
	X   Expr
	Chk *Type
	Neg bool
}
type DefaultOf struct{ T *Type }

// RawLit: a literal in a given spelling (C19): prints Raw verbatim, denotes V
type RawLit struct {
	Raw string
	T   *Type
	V   Value
}

func (e *RawLit) Ty() *Type { return e.T }

// Arg: the I-th (0-based) command line argument converted to a Zahl — an input the optimiser cannot see
type Arg struct{ I int }

func (e *Lit) Ty() *Type       { return e.T }
func (e *Var) Ty() *Type       { return e.T }
func (e *Un) Ty() *Type        { return e.T }
func (e *Bin) Ty() *Type       { return e.T }
func (e *Ter) Ty() *Type       { return e.T }
func (e *Cast) Ty() *Type      { return e.T }
func (e *ListLit) Ty() *Type   { return e.T }
func (e *ListN) Ty() *Type     { return e.T }
func (e *Call) Ty() *Type      { return e.F.Ret }
func (e *FieldOf) Ty() *Type   { return e.T }
func (e *StructLit) Ty() *Type { return e.T }
func (e *TypeCheck) Ty() *Type { return Bool }
func (e *DefaultOf) Ty() *Type { return e.T }
func (e *Arg) Ty() *Type       { return Zahl }

// ---------------------------------------------------------------- statements

type Stmt interface{}

type VarDecl struct {
	Name string
	T    *Type
	Init Expr
}

// Assign: Target is an lvalue expression: *Var, *Bin{Op:"index"}, *FieldOf
type Assign struct {
	Target Expr
	Val    Expr
}

// Compound: Op in erhoehe verringere vervielfache teile shl shr negiere
type Compound struct {
	Op     string
	Target Expr
	Val    Expr
}
type If struct {
	Cond Expr
	Then []Stmt
	Else []Stmt // nil = none; a single *If prints as "Wenn aber"
}
type While struct {
	Cond Expr
	Body []Stmt
}
type DoWhile struct {
	Body []Stmt
	Cond Expr
}
type Repeat struct {
	N    Expr
	Body []Stmt
}
type For struct {
	Var            string
	T              *Type
	From, To, Step Expr // Step may be nil
	Body           []Stmt
}
type ForEach struct {
	Var  string
	T    *Type
	Idx  string // "" = none
	In   Expr
	Body []Stmt
}
type Break struct{}
type Continue struct{}
type Return struct{ X Expr } // X nil: "Verlasse die Funktion"
type ExprStmt struct{ X Expr }

// Print: writes the value with the type-specific extern function (no newline)
type Print struct{ X Expr }
type Todo struct{}

// ---------------------------------------------------------------- declarations

type Param struct {
	Name string
	T    *Type
	Ref  bool
}
type Func struct {
	Name   string
	Params []Param
	Ret    *Type
	Body   []Stmt
	// Forward: the declaration is printed as a forward declaration ("wird später definiert"); the body is
	// printed where a *FuncDef statement of this function stands (C08 callee shapes)
	Forward bool
}

// FuncDecl / FuncDef: top-level statements that only print — the declaration of F (complete, or forward if
// F.Forward) resp. the definition "Die Funktion F macht:" of a forward-declared F — at this place of the
// program text. The evaluator ignores them: a Call reaches its *Func directly, whatever the textual order.
type FuncDecl struct{ F *Func }
type FuncDef struct{ F *Func }

type Program struct {
	Aliases []*Type // nested list element aliases etc. (Type.Alias set)
	Structs []*Type
	Pre     []Stmt // global declarations that functions refer to (printed and executed before everything else)
	Funcs   []*Func
	Main    []Stmt
	Args    []string // command line arguments the reference run uses (see Arg)
	UsesArgs bool
}
