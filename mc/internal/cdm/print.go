package cdm

import (
	"fmt"
	"math"
	"strconv"
	"strings"
)

// ---------------------------------------------------------------- literals

func FloatLit(v float64) string {
	s := strconv.FormatFloat(math.Abs(v), 'f', -1, 64)
	if !strings.Contains(s, ".") {
		s += ".0"
	}
	s = strings.Replace(s, ".", ",", 1)
	if v < 0 || (v == 0 && math.Signbit(v)) {
		return "-" + s
	}
	return s
}

func CharLit(r rune) string {
	switch r {
	case '\n':
		return `'\n'`
	case '\t':
		return `'\t'`
	case '\r':
		return `'\r'`
	case '\a':
		return `'\a'`
	case '\b':
		return `'\b'`
	case '\\':
		return `'\\'`
	case '\'':
		return `'\''`
	}
	return "'" + string(r) + "'"
}

func TextLit(rs []rune) string {
	var sb strings.Builder
	sb.WriteByte('"')
	for _, r := range rs {
		switch r {
		case '\n':
			sb.WriteString(`\n`)
		case '\t':
			sb.WriteString(`\t`)
		case '\r':
			sb.WriteString(`\r`)
		case '\a':
			sb.WriteString(`\a`)
		case '\b':
			sb.WriteString(`\b`)
		case '\\':
			sb.WriteString(`\\`)
		case '"':
			sb.WriteString(`\"`)
		default:
			sb.WriteRune(r)
		}
	}
	sb.WriteByte('"')
	return sb.String()
}

func litSrc(t *Type, v Value) string {
	switch x := v.(type) {
	case int64:
		if x == math.MinInt64 {
			return "(-9223372036854775807 minus 1)"
		}
		return strconv.FormatInt(x, 10)
	case float64:
		return FloatLit(x)
	case uint8:
		// there is no Byte literal: a Zahl literal converted
		return fmt.Sprintf("(%d als Byte)", x)
	case bool:
		if x {
			return "wahr"
		}
		return "falsch"
	case rune:
		return CharLit(x)
	case []rune:
		return TextLit(x)
	}
	panic(fmt.Sprintf("litSrc: %T", v))
}

// ---------------------------------------------------------------- expressions

func atom(e Expr) bool {
	switch x := e.(type) {
	case *Var:
		return true
	case *Lit:
		switch v := x.V.(type) {
		case int64:
			return v >= 0
		case float64:
			return v >= 0 && !math.Signbit(v)
		case uint8:
			return true // already parenthesised
		}
		return true
	}
	return false
}

// P prints e so that it can stand as an operand: compound expressions are parenthesised.
func P(e Expr) string {
	if atom(e) {
		return Src(e)
	}
	return "(" + Src(e) + ")"
}

var binWord = map[string]string{"plus": "plus", "minus": "minus", "mal": "mal", "durch": "durch", "modulo": "modulo", "hoch": "hoch",
	"und": "und", "oder": "oder", "logund": "logisch und", "logoder": "logisch oder", "logxor": "logisch kontra", "verkettet": "verkettet mit"}

// Src prints e without outer parentheses.
func Src(e Expr) string {
	switch x := e.(type) {
	case *Lit:
		return litSrc(x.T, x.V)
	case *Var:
		return x.Name
	case *Un:
		switch x.Op {
		case "betrag":
			return "der Betrag von " + P(x.X)
		case "neg":
			return "-" + P(x.X)
		case "nicht":
			return "nicht " + P(x.X)
		case "lognicht":
			return "logisch nicht " + P(x.X)
		case "laenge":
			return "die Länge von " + P(x.X)
		}
	case *Bin:
		if w, ok := binWord[x.Op]; ok {
			return P(x.L) + " " + w + " " + P(x.R)
		}
		switch x.Op {
		case "log":
			return "der Logarithmus von " + P(x.L) + " zur Basis " + P(x.R)
		case "wurzel": // L = radicand, R = degree
			return "die " + P(x.R) + ". Wurzel von " + P(x.L)
		case "xor":
			return "entweder " + P(x.L) + ", oder " + P(x.R)
		case "shl":
			return P(x.L) + " um " + P(x.R) + " Bit nach Links verschoben"
		case "shr":
			return P(x.L) + " um " + P(x.R) + " Bit nach Rechts verschoben"
		case "gleich":
			return P(x.L) + " gleich " + P(x.R) + " ist"
		case "ungleich":
			return P(x.L) + " ungleich " + P(x.R) + " ist"
		case "kleiner":
			return P(x.L) + " kleiner als " + P(x.R) + " ist"
		case "kleinergleich":
			return P(x.L) + " kleiner als, oder " + P(x.R) + " ist"
		case "groesser":
			return P(x.L) + " größer als " + P(x.R) + " ist"
		case "groessergleich":
			return P(x.L) + " größer als, oder " + P(x.R) + " ist"
		case "index":
			return P(x.L) + " an der Stelle " + P(x.R)
		case "ab":
			return P(x.L) + " ab dem " + P(x.R) + ". Element"
		case "bis":
			return P(x.L) + " bis zum " + P(x.R) + ". Element"
		}
	case *Ter:
		switch x.Op {
		case "slice":
			return P(x.A) + " im Bereich von " + P(x.B) + " bis " + P(x.C)
		case "zwischen":
			return P(x.A) + " zwischen " + P(x.B) + " und " + P(x.C) + " ist"
		case "falls":
			return P(x.A) + ", falls " + P(x.B) + ", ansonsten " + P(x.C)
		}
	case *Cast:
		return P(x.X) + " als " + x.T.String()
	case *ListLit:
		if len(x.El) == 0 {
			return "eine leere " + x.T.String()
		}
		parts := make([]string, len(x.El))
		for i, el := range x.El {
			parts[i] = P(el)
		}
		return "eine Liste, die aus " + strings.Join(parts, ", ") + " besteht"
	case *ListN:
		return P(x.N) + " Mal " + P(x.V)
	case *Call:
		s := x.F.Name
		for _, a := range x.Args {
			s += " " + argSrc(a)
		}
		return s
	case *FieldOf:
		return x.Name + " von " + P(x.X)
	case *StructLit:
		s := "neu_" + x.T.Name
		for _, a := range x.Args {
			s += " " + argSrc(a)
		}
		return s
	case *TypeCheck:
		art := map[string]string{"m": "ein", "f": "eine", "n": "ein"}[x.Chk.G()]
		if x.Neg {
			art = "k" + art
		}
		return P(x.X) + " " + art + " " + x.Chk.String() + " ist"
	case *DefaultOf:
		return "der Standardwert von " + x.T.DatIndef()
	case *RawLit:
		return x.Raw
	case *Arg:
		return fmt.Sprintf("((die Befehlszeilenargumente) an der Stelle %d) als Zahl", x.I+2)
	}
	panic(fmt.Sprintf("Src: unhandled %T %+v", e, e))
}

// an alias argument must be a single token, -token or a parenthesised group
func argSrc(a Expr) string {
	if v, ok := a.(*Var); ok {
		return v.Name
	}
	if l, ok := a.(*Lit); ok {
		switch l.V.(type) {
		case uint8:
			return litSrc(l.T, l.V) // already "(n als Byte)"
		case int64:
			if l.V.(int64) == math.MinInt64 {
				return litSrc(l.T, l.V)
			}
		}
		if atom(a) {
			return Src(a)
		}
	}
	return "(" + Src(a) + ")"
}

// Lvalue prints an assignment target (restricted syntax, see parser.assigneable).
func Lvalue(e Expr) string {
	switch x := e.(type) {
	case *Var:
		return x.Name
	case *FieldOf:
		return x.Name + " von " + lvalueInner(x.X)
	case *Bin:
		if x.Op == "index" {
			// nested indexing is written  l an der Stelle i, an der Stelle j
			if inner, ok := x.L.(*Bin); ok && inner.Op == "index" {
				return Lvalue(inner) + ", an der Stelle " + P(x.R)
			}
			return Lvalue(x.L) + " an der Stelle " + P(x.R)
		}
	}
	panic(fmt.Sprintf("Lvalue: unhandled %T", e))
}

func lvalueInner(e Expr) string {
	switch x := e.(type) {
	case *Var:
		return x.Name
	case *FieldOf:
		return x.Name + " von " + lvalueInner(x.X)
	}
	return "(" + Lvalue(e) + ")"
}

// ---------------------------------------------------------------- statements

type printer struct {
	sb strings.Builder
}

func (p *printer) line(ind int, s string) {
	p.sb.WriteString(strings.Repeat("\t", ind))
	p.sb.WriteString(s)
	p.sb.WriteByte('\n')
}

func printStmtName(t *Type) string {
	switch t.K {
	case KZahl:
		return "die Zahl"
	case KKomma:
		return "die Kommazahl"
	case KByte:
		return "den Byte"
	case KBool:
		return "den Wahrheitswert"
	case KChar:
		return "den Buchstaben"
	case KText:
		return "den Text"
	}
	panic("Print of non-scalar " + t.String())
}

func (p *printer) block(ind int, body []Stmt) {
	if len(body) == 0 {
		// an empty block is not expressible: emit a no-op
		p.line(ind, "Schreibe den Text \"\".")
		return
	}
	for _, s := range body {
		p.stmt(ind, s)
	}
}

func (p *printer) stmt(ind int, s Stmt) {
	switch x := s.(type) {
	case *VarDecl:
		p.line(ind, x.T.Decl()+" "+x.Name+" ist "+Src(x.Init)+".")
	case *Assign:
		p.line(ind, "Speichere "+Src(x.Val)+" in "+Lvalue(x.Target)+".")
	case *Compound:
		t := Lvalue(x.Target)
		switch x.Op {
		case "erhoehe":
			p.line(ind, "Erhöhe "+t+" um "+Src(x.Val)+".")
		case "verringere":
			p.line(ind, "Verringere "+t+" um "+Src(x.Val)+".")
		case "vervielfache":
			p.line(ind, "Vervielfache "+t+" um "+Src(x.Val)+".")
		case "teile":
			p.line(ind, "Teile "+t+" durch "+Src(x.Val)+".")
		case "shl":
			p.line(ind, "Verschiebe "+t+" um "+Src(x.Val)+" Bit nach Links.")
		case "shr":
			p.line(ind, "Verschiebe "+t+" um "+Src(x.Val)+" Bit nach Rechts.")
		case "negiere":
			p.line(ind, "Negiere "+t+".")
		default:
			panic("compound " + x.Op)
		}
	case *If:
		p.ifChain(ind, x, "Wenn ")
	case *While:
		p.line(ind, "Solange "+Src(x.Cond)+", mache:")
		p.block(ind+1, x.Body)
	case *DoWhile:
		p.line(ind, "Mache:")
		p.block(ind+1, x.Body)
		p.line(ind, "Solange "+Src(x.Cond)+".")
	case *Repeat:
		p.line(ind, "Wiederhole:")
		p.block(ind+1, x.Body)
		p.line(ind, Src(x.N)+" Mal.")
	case *For:
		h := "Für " + x.T.Each() + " " + x.Var + " von " + Src(x.From) + " bis " + Src(x.To)
		if x.Step != nil {
			h += " mit Schrittgröße " + Src(x.Step)
		}
		p.line(ind, h+", mache:")
		p.block(ind+1, x.Body)
	case *ForEach:
		h := "Für " + x.T.Each() + " " + x.Var
		if x.Idx != "" {
			h += " mit Index " + x.Idx
		}
		p.line(ind, h+" in "+Src(x.In)+", mache:")
		p.block(ind+1, x.Body)
	case *Break:
		p.line(ind, "Verlasse die Schleife.")
	case *Continue:
		p.line(ind, "Fahre mit der Schleife fort.")
	case *Return:
		if x.X == nil {
			p.line(ind, "Verlasse die Funktion.")
		} else {
			p.line(ind, "Gib "+Src(x.X)+" zurück.")
		}
	case *ExprStmt:
		p.line(ind, Src(x.X)+".")
	case *Print:
		p.line(ind, "Schreibe "+printStmtName(x.X.Ty())+" "+P(x.X)+".")
	case *Todo:
		p.line(ind, "...")
	case *FuncDecl:
		if ind != 0 {
			panic("FuncDecl below the top level")
		}
		p.funcDecl(x.F)
	case *FuncDef:
		if ind != 0 {
			panic("FuncDef below the top level")
		}
		p.funcDef(x.F)
	default:
		panic(fmt.Sprintf("stmt: unhandled %T", s))
	}
}

func (p *printer) ifChain(ind int, x *If, head string) {
	p.line(ind, head+Src(x.Cond)+", dann:")
	p.block(ind+1, x.Then)
	if x.Else == nil {
		return
	}
	if len(x.Else) == 1 {
		if e, ok := x.Else[0].(*If); ok {
			p.ifChain(ind, e, "Wenn aber ")
			return
		}
	}
	p.line(ind, "Sonst:")
	p.block(ind+1, x.Else)
}

func join(names []string) string {
	if len(names) == 1 {
		return names[0]
	}
	return strings.Join(names[:len(names)-1], ", ") + " und " + names[len(names)-1]
}

// funcDecl prints the declaration of f: complete, or a forward declaration if f.Forward.
func (p *printer) funcDecl(f *Func) {
	h := "Die Funktion " + f.Name
	if len(f.Params) == 1 {
		h += " mit dem Parameter " + f.Params[0].Name + " vom Typ " + f.Params[0].T.Param(f.Params[0].Ref)
	} else if len(f.Params) > 1 {
		var ns, ts []string
		for _, pa := range f.Params {
			ns = append(ns, pa.Name)
			ts = append(ts, pa.T.Param(pa.Ref))
		}
		h += " mit den Parametern " + join(ns) + " vom Typ " + join(ts)
	}
	if len(f.Params) > 0 {
		h += ","
	}
	if f.Ret.K == KVoid {
		h += " gibt nichts zurück,"
	} else {
		h += " gibt " + f.Ret.Akk() + " zurück,"
	}
	a := f.Name
	for _, pa := range f.Params {
		a += " <" + pa.Name + ">"
	}
	if f.Forward {
		p.line(0, h)
		p.line(0, "wird später definiert")
		p.line(0, "und kann so benutzt werden:")
		p.line(1, "\""+a+"\"")
		p.line(0, "")
		return
	}
	p.line(0, h+" macht:")
	p.block(1, f.Body)
	p.line(0, "Und kann so benutzt werden:")
	p.line(1, "\""+a+"\"")
	p.line(0, "")
}

// funcDef prints the definition of a forward-declared function.
func (p *printer) funcDef(f *Func) {
	p.line(0, "Die Funktion "+f.Name+" macht:")
	p.block(1, f.Body)
	p.line(0, "")
}

// Source renders the whole program.
func (pr *Program) Source() string {
	p := &printer{}
	p.line(0, "Binde \"Duden/Ausgabe\" ein.")
	if pr.UsesArgs {
		p.line(0, "Binde Befehlszeilenargumente aus \"Duden/Laufzeit\" ein.")
	}
	p.line(0, "")
	for _, a := range pr.Aliases {
		if a.Def != "" {
			p.line(0, "Wir definieren "+map[string]string{"m": "einen", "f": "eine", "n": "ein"}[a.G()]+" "+a.Def+" als "+a.Under().Akk()+".")
			continue
		}
		base := *a
		base.Alias = ""
		p.line(0, "Wir nennen "+(&base).Akk()+" auch "+map[string]string{"m": "einen", "f": "eine", "n": "ein"}[a.G()]+" "+a.Alias+".")
	}
	for _, st := range pr.Structs {
		p.line(0, "Wir nennen die Kombination aus")
		for _, f := range st.Fields {
			p.line(1, f.T.Dat()+" "+f.Name+" mit Standardwert "+Src(defaultExpr(f.T))+",")
		}
		art := map[string]string{"m": "einen", "f": "eine", "n": "ein"}[st.G()]
		p.line(0, art+" "+st.Name+", und erstellen sie so:")
		s := "neu_" + st.Name
		for _, f := range st.Fields {
			s += " <" + f.Name + ">"
		}
		p.line(1, "\"leer_"+st.Name+"\" oder")
		p.line(1, "\""+s+"\"")
		p.line(0, "")
	}
	for _, s := range pr.Pre {
		p.stmt(0, s)
	}
	for _, f := range pr.Funcs {
		p.funcDecl(f)
	}
	for _, s := range pr.Main {
		p.stmt(0, s)
	}
	return p.sb.String()
}

// defaultExpr: an expression denoting the default value of t (used for struct field defaults)
func defaultExpr(t *Type) Expr {
	switch t.K {
	case KZahl, KKomma, KBool, KChar, KText:
		v := Default(t)
		if t.K == KChar {
			v = rune(' ')
		}
		return &Lit{T: t, V: v}
	case KByte:
		return &Lit{T: Zahl, V: int64(0)}
	}
	return &DefaultOf{T: t}
}
