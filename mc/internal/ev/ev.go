// Package ev: run context shared by all checks: counters, violations, known
// findings, replay artefacts, evidence file.
package ev

import (
	"encoding/json"
	"fmt"
	"os"
	"path/filepath"
	"regexp"
	"sort"
	"strconv"
	"strings"
	"sync"
	"time"
)

var Verif = envOr("VERIF", "/verif")
var Repo = envOr("REPO", "/repo")
var Build = envOr("VERIF_BUILD", filepath.Join(Verif, ".build"))

// Out is where evidence/ and replays/ are written (the mutant self-test redirects it).
var Out = envOr("VERIF_OUT", Verif)

func envOr(k, d string) string {
	if v := os.Getenv(k); v != "" {
		return v
	}
	return d
}

type Finding struct {
	Property string `json:"property"`
	Key      string `json:"key"`
	Status   string `json:"status"` // known | fixed
	Commit   string `json:"commit,omitempty"`
	What     string `json:"what"`
}

type Ctx struct {
	ID    string
	Tier  string
	Seed  int
	Start time.Time
	// Deadline is the internal budget; checks poll Expired() between shards
	Deadline time.Time

	mu          sync.Mutex
	cov         map[string]any
	counters    map[string]int64
	samples     []any
	assumptions []string
	viol        map[string]string // key -> replay dir (unlisted violations)
	knownSeen   map[string]int
	known       map[string]Finding
	exhaustive  bool
	capNote     []string
	broken      []string
}

func New(id, tier string) *Ctx {
	seed, _ := strconv.Atoi(os.Getenv("VERIF_SEED"))
	c := &Ctx{ID: id, Tier: tier, Seed: seed, Start: time.Now(), cov: map[string]any{}, counters: map[string]int64{},
		viol: map[string]string{}, knownSeen: map[string]int{}, known: map[string]Finding{}, exhaustive: true}
	b, err := os.ReadFile(filepath.Join(Verif, "known_findings.json"))
	if err == nil {
		var fs []Finding
		if err := json.Unmarshal(b, &fs); err != nil {
			fmt.Fprintln(os.Stderr, "known_findings.json unreadable:", err)
			os.Exit(2)
		}
		for _, f := range fs {
			if f.Property == id && f.Status == "known" {
				c.known[f.Key] = f
			}
		}
	}
	return c
}

// Budget sets the internal deadline (seconds); VERIF_BUDGET_S overrides.
func (c *Ctx) Budget(sec int) {
	if v, err := strconv.Atoi(os.Getenv("VERIF_BUDGET_S")); err == nil && v > 0 {
		sec = v
	}
	c.Deadline = c.Start.Add(time.Duration(sec) * time.Second)
}

func (c *Ctx) Expired() bool { return !c.Deadline.IsZero() && time.Now().After(c.Deadline) }

// Capped records that some part of the space was not completed.
func (c *Ctx) Capped(note string) {
	c.mu.Lock()
	defer c.mu.Unlock()
	c.exhaustive = false
	if len(c.capNote) < 20 {
		c.capNote = append(c.capNote, note)
	}
}

// Broken records an infrastructure failure: the run exits 2, never a violation.
func (c *Ctx) Broken(note string) {
	c.mu.Lock()
	defer c.mu.Unlock()
	c.broken = append(c.broken, note)
	fmt.Fprintln(os.Stderr, "BROKEN:", note)
}

func (c *Ctx) Add(name string, n int64) {
	c.mu.Lock()
	c.counters[name] += n
	c.mu.Unlock()
}

func (c *Ctx) Get(name string) int64 {
	c.mu.Lock()
	defer c.mu.Unlock()
	return c.counters[name]
}

func (c *Ctx) Set(name string, v any) {
	c.mu.Lock()
	c.cov[name] = v
	c.mu.Unlock()
}

func (c *Ctx) Assume(s ...string) {
	c.mu.Lock()
	c.assumptions = append(c.assumptions, s...)
	c.mu.Unlock()
}

// Sample keeps up to max samples overall.
func (c *Ctx) Sample(s any) {
	c.mu.Lock()
	if len(c.samples) < 12 {
		c.samples = append(c.samples, s)
	}
	c.mu.Unlock()
}

var unsafeRe = regexp.MustCompile(`[^A-Za-z0-9_.@,+=-]+`)

// Violation reports a property violation identified by key. files are written
// into the replay directory (name -> content). Returns true if it was new.
func (c *Ctx) Violation(key, what string, files map[string]string) bool {
	c.mu.Lock()
	defer c.mu.Unlock()
	if f, ok := c.known[key]; ok {
		if c.knownSeen[key] == 0 {
			fmt.Printf("KNOWN-FINDING: property=%s %s %s\n", c.ID, key, f.What)
		}
		c.knownSeen[key]++
		return false
	}
	if _, ok := c.viol[key]; ok {
		return false
	}
	if len(c.viol) >= 50 { // do not flood; count only
		c.viol[key] = ""
		return false
	}
	name := unsafeRe.ReplaceAllString(key, "_")
	if len(name) > 120 {
		name = name[:120]
	}
	dir := filepath.Join(Out, "replays", c.ID, name)
	os.MkdirAll(dir, 0o755)
	if files == nil {
		files = map[string]string{}
	}
	files["WHAT.txt"] = "property=" + c.ID + "\nkey=" + key + "\n" + what + "\n"
	files["replay.sh"] = "#!/bin/sh\nexec " + Verif + "/run " + c.ID + " replay " + dir + "\n"
	for n, s := range files {
		p := filepath.Join(dir, n)
		os.MkdirAll(filepath.Dir(p), 0o755)
		os.WriteFile(p, []byte(s), 0o755)
	}
	c.viol[key] = dir
	fmt.Printf("VIOLATION property=%s replay=%s\n", c.ID, dir)
	w := what
	if len(w) > 600 {
		w = w[:600] + "…"
	}
	fmt.Printf("  key=%s\n  %s\n", key, strings.ReplaceAll(w, "\n", "\n  "))
	return true
}

// IsKnown tells whether key is a listed known finding (without reporting).
func (c *Ctx) IsKnown(key string) bool {
	c.mu.Lock()
	defer c.mu.Unlock()
	_, ok := c.known[key]
	return ok
}

// Finish writes the evidence file and returns the exit code.
func (c *Ctx) Finish() int {
	c.mu.Lock()
	defer c.mu.Unlock()
	cov := map[string]any{}
	for k, v := range c.counters {
		cov[k] = v
	}
	for k, v := range c.cov {
		cov[k] = v
	}
	if len(c.samples) == 0 {
		c.samples = []any{"(no sample recorded)"}
	}
	cov["samples"] = c.samples
	cov["exhaustive"] = c.exhaustive && len(c.broken) == 0
	if len(c.capNote) > 0 {
		cov["caps_hit"] = c.capNote
	}
	ks := []string{}
	for k := range c.knownSeen {
		ks = append(ks, k)
	}
	sort.Strings(ks)
	cov["known_findings_reobserved"] = ks
	vk := []string{}
	for k := range c.viol {
		vk = append(vk, k)
	}
	sort.Strings(vk)
	cov["violation_keys"] = vk
	e := map[string]any{
		"property_id": c.ID, "tier": c.Tier, "seed": c.Seed, "level": "model_checking",
		"coverage": cov, "assumptions": c.assumptions, "wall_s": time.Since(c.Start).Seconds(),
		"violations": len(c.viol),
	}
	if c.assumptions == nil {
		e["assumptions"] = []string{}
	}
	b, _ := json.MarshalIndent(e, "", " ")
	os.MkdirAll(filepath.Join(Out, "evidence"), 0o755)
	tmp := filepath.Join(Out, "evidence", c.ID+".json.tmp")
	os.WriteFile(tmp, b, 0o644)
	os.Rename(tmp, filepath.Join(Out, "evidence", c.ID+".json"))
	fmt.Printf("%s %s: states=%v transitions=%v violations=%d known=%d exhaustive=%v wall=%.1fs\n", c.ID, c.Tier,
		cov["states"], cov["transitions"], len(c.viol), len(c.knownSeen), cov["exhaustive"], time.Since(c.Start).Seconds())
	if len(c.broken) > 0 {
		return 2
	}
	if len(c.viol) > 0 {
		return 1
	}
	return 0
}
