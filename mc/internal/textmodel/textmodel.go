// Package textmodel: reference model of C12 — a Text is a []rune, nothing else.
// It interprets the same postfix programs the C driver (c/rt_text.c) executes on the real runtime.
// Deliberately boring: no byte arithmetic besides Go's unicode/utf8 for the expected encoding.
package textmodel

import (
	"encoding/hex"
	"fmt"
	"strconv"
	"strings"
	"unicode/utf8"
)

// Sigma holds one representative per UTF-8 encoding length (1..4 bytes).
var Sigma = []rune{'a', 'ä', '€', '😀'}

// Twin maps every symbol to a different symbol of the SAME encoding length (for inequality checks).
var Twin = map[rune]rune{'a': 'b', 'ä': 'ö', '€': '₭', '😀': '😁'}

// ValidScalar: Unicode scalar value that a NUL-terminated text can hold.
func ValidScalar(c int64) bool {
	return c > 0 && c <= 0x10FFFF && !(c >= 0xD800 && c <= 0xDFFF)
}

func Width(r rune) int { return utf8.RuneLen(r) }

func Enc(rs []rune) []byte { return []byte(string(rs)) }

// K returns the token pushing the literal.
func K(rs []rune) string { return "K" + hex.EncodeToString(Enc(rs)) }

// Outcome of a program.
type Outcome struct {
	Stack [][]rune // final stack, top last
	Eq    []bool   // results of EQ in order
	// OutOfDomain: some operation was applied outside the domain the property speaks about
	// (index/replace outside 1..len, slice with i<1, i>len or j<i on a non-empty text, invalid character).
	OutOfDomain bool
	LastOp      string // class of the last stack-changing operation: const, str·str, str·char, char·str, slice, replace-shrink|grow|same, copy
}

func (o Outcome) Top() []rune {
	if len(o.Stack) == 0 {
		return nil
	}
	return o.Stack[len(o.Stack)-1]
}

// SliceInDomain: the indices for which goldens and the statement determine the result:
// 1 <= i <= j, i <= len, j <= len+1 (an upper index beyond the end is clamped, see the slicing golden);
// on the empty text every 1 <= i <= j gives the empty text.
func SliceInDomain(n, i, j int) bool {
	if n == 0 {
		return i >= 1 && i <= j
	}
	return i >= 1 && i <= j && i <= n
}

func Slice(s []rune, i, j int) []rune {
	if len(s) == 0 {
		return []rune{}
	}
	if j > len(s) {
		j = len(s)
	}
	return append([]rune{}, s[i-1:j]...)
}

// Eval interprets a program (tokens separated by blanks).
func Eval(prog string) (Outcome, error) {
	var o Outcome
	pop := func() ([]rune, error) {
		if len(o.Stack) == 0 {
			return nil, fmt.Errorf("stack underflow")
		}
		t := o.Stack[len(o.Stack)-1]
		o.Stack = o.Stack[:len(o.Stack)-1]
		return t, nil
	}
	push := func(r []rune) { o.Stack = append(o.Stack, r) }
	cp := func(s string) (int64, error) { return strconv.ParseInt(s, 16, 64) }
	for _, tok := range strings.Fields(prog) {
		switch {
		case tok == "SS":
			b, e1 := pop()
			a, e2 := pop()
			if e1 != nil || e2 != nil {
				return o, fmt.Errorf("SS: underflow")
			}
			push(append(append([]rune{}, a...), b...))
			o.LastOp = "str·str"
		case tok == "D":
			a, err := pop()
			if err != nil {
				return o, err
			}
			push(append([]rune{}, a...))
			o.LastOp = "copy"
		case tok == "EQ":
			b, e1 := pop()
			a, e2 := pop()
			if e1 != nil || e2 != nil {
				return o, fmt.Errorf("EQ: underflow")
			}
			o.Eq = append(o.Eq, string(a) == string(b))
		case strings.HasPrefix(tok, "K"):
			b, err := hex.DecodeString(tok[1:])
			if err != nil || !utf8.Valid(b) {
				return o, fmt.Errorf("bad literal %q", tok)
			}
			push([]rune(string(b)))
			o.LastOp = "const"
		case strings.HasPrefix(tok, "H"):
			c, err := cp(tok[1:])
			if err != nil {
				return o, err
			}
			if ValidScalar(c) {
				push([]rune{rune(c)})
			} else {
				o.OutOfDomain = true
				push([]rune{})
			}
			o.LastOp = "char→text"
		case strings.HasPrefix(tok, "SC"), strings.HasPrefix(tok, "CS"):
			c, err := cp(tok[2:])
			if err != nil {
				return o, err
			}
			a, err := pop()
			if err != nil {
				return o, err
			}
			if !ValidScalar(c) {
				o.OutOfDomain = true
				push(a)
			} else if tok[0] == 'S' {
				push(append(append([]rune{}, a...), rune(c)))
			} else {
				push(append([]rune{rune(c)}, a...))
			}
			if tok[0] == 'S' {
				o.LastOp = "str·char"
			} else {
				o.LastOp = "char·str"
			}
		case strings.HasPrefix(tok, "SL"):
			var i, j int
			if _, err := fmt.Sscanf(tok[2:], "%d,%d", &i, &j); err != nil {
				return o, err
			}
			a, err := pop()
			if err != nil {
				return o, err
			}
			if !SliceInDomain(len(a), i, j) {
				o.OutOfDomain = true
				push(a)
			} else {
				push(Slice(a, i, j))
			}
			o.LastOp = "slice"
		case strings.HasPrefix(tok, "R"):
			parts := strings.SplitN(tok[1:], ",", 2)
			if len(parts) != 2 {
				return o, fmt.Errorf("bad token %q", tok)
			}
			i, err := strconv.Atoi(parts[0])
			if err != nil {
				return o, err
			}
			c, err := cp(parts[1])
			if err != nil {
				return o, err
			}
			if len(o.Stack) == 0 {
				return o, fmt.Errorf("R: underflow")
			}
			top := o.Stack[len(o.Stack)-1]
			if i < 1 || i > len(top) || !ValidScalar(c) {
				o.OutOfDomain = true
				continue
			}
			old := top[i-1]
			n := append([]rune{}, top...)
			n[i-1] = rune(c)
			o.Stack[len(o.Stack)-1] = n
			switch {
			case Width(rune(c)) < Width(old):
				o.LastOp = "replace-shrink"
			case Width(rune(c)) > Width(old):
				o.LastOp = "replace-grow"
			default:
				o.LastOp = "replace-same"
			}
		default:
			return o, fmt.Errorf("unknown token %q", tok)
		}
	}
	return o, nil
}

// Words returns every word over Sigma of length 0..n in a fixed order (by length, then Sigma order).
func Words(n int) [][]rune {
	out := [][]rune{{}}
	prev := [][]rune{{}}
	for l := 1; l <= n; l++ {
		var cur [][]rune
		for _, p := range prev {
			for _, s := range Sigma {
				cur = append(cur, append(append([]rune{}, p...), s))
			}
		}
		out = append(out, cur...)
		prev = cur
	}
	return out
}
