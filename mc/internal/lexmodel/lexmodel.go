// Package lexmodel is a second scanner written from the lexical rules stated in property C13.
// It is deliberately table-driven and boring; it works on []rune, never on bytes.
package lexmodel

import "strings"

type Kind int

const (
	KEOF Kind = iota
	KIdent
	KKeyword // Name holds the canonical keyword
	KInt
	KFloat
	KString
	KChar
	KComment
	KSymbol
	KAliasParam
	KNegate
	KDot
	KComma
	KColon
	KLParen
	KRParen
	KEllipsis
	KIllegal // unterminated text / character literal
)

type Tok struct {
	Kind       Kind
	Name       string // keyword canonical name
	Start, End int    // rune offsets [Start,End)
	Line, Col  int    // 1-based position of Start
	ELine      int    // position of End (exclusive)
	ECol       int
	Indent     int
	IndentSpec bool // false when the rules leave the indent of this token open
	KindSpec   bool // false when the rules leave the kind open (unterminated comment, malformed placeholder)
	Malformed  bool // a diagnostic is required for this token (unknown escape, character literal of wrong length)
}

func isDigit(r rune) bool { return r >= '0' && r <= '9' }
func isAlpha(r rune) bool {
	return (r >= 'a' && r <= 'z') || (r >= 'A' && r <= 'Z') || strings.ContainsRune("ß_äÄöÖüÜ", r)
}
func isBlank(r rune) bool { return r == ' ' || r == '\t' || r == '\r' || r == '\n' }

// Scan tokenises src. line0/col0 are the coordinates of the first rune (1,1 for a file).
func Scan(src []rune, alias bool, line0, col0 int) []Tok {
	n := len(src)
	// line/col of every offset 0..n
	lines := make([]int, n+1)
	cols := make([]int, n+1)
	l, c := line0, col0
	for i := 0; i <= n; i++ {
		lines[i], cols[i] = l, c
		if i < n {
			if src[i] == '\n' {
				l++
				c = 1
			} else {
				c++
			}
		}
	}
	var out []Tok
	i := 0
	// indentation state: indent of the current physical line, valid only while no token of that
	// line has been produced by a multi-line literal
	lineIndent, indentKnown := 0, true
	atLineStart := true
	run := 0
	for {
		// blanks
		for i < n && isBlank(src[i]) {
			switch src[i] {
			case '\n':
				lineIndent, indentKnown, atLineStart, run = 0, true, true, 0
			case '\t':
				run = 0
				if atLineStart {
					lineIndent++
				}
			case ' ':
				run++
				if atLineStart && run == 4 {
					lineIndent++
					run = 0
				}
			default: // \r
				run = 0
			}
			i++
		}
		run = 0
		atLineStart = false
		t := Tok{Start: i, Line: lines[i], Col: cols[i], Indent: lineIndent, IndentSpec: indentKnown && !alias, KindSpec: true}
		if i >= n {
			t.Kind, t.End = KEOF, i
			t.ELine, t.ECol = lines[i], cols[i]
			out = append(out, t)
			return out
		}
		r := src[i]
		j := i + 1
		switch {
		case isAlpha(r):
			for j < n && (isAlpha(src[j]) || isDigit(src[j])) {
				j++
			}
			w := string(src[i:j])
			if name, ok := Keywords[w]; ok {
				t.Kind, t.Name = KKeyword, name
			} else if name, ok := Keywords[strings.ToLower(w)]; ok {
				t.Kind, t.Name = KKeyword, name
			} else {
				t.Kind = KIdent
			}
		case isDigit(r):
			for j < n && isDigit(src[j]) {
				j++
			}
			t.Kind = KInt
			if j+1 < n && src[j] == ',' && isDigit(src[j+1]) {
				j++
				for j < n && isDigit(src[j]) {
					j++
				}
				t.Kind = KFloat
			}
		case r == '-':
			t.Kind = KNegate
		case r == '.':
			t.Kind = KDot
			if j+1 < n && src[j] == '.' && src[j+1] == '.' {
				j += 2
				t.Kind = KEllipsis
			}
		case r == ',':
			t.Kind = KComma
		case r == ':':
			t.Kind = KColon
		case r == '(':
			t.Kind = KLParen
		case r == ')':
			t.Kind = KRParen
		case r == '"' || r == '\'':
			closed, backslash := false, false
			for j < n {
				if src[j] == r {
					closed = true
					j++
					break
				}
				if src[j] == '\\' {
					backslash = true
					if j+1 < n && strings.ContainsRune("abnrt\\", src[j+1]) || j+1 < n && src[j+1] == r {
						j += 2
						continue
					}
					t.Malformed = true // unknown escape
				}
				j++
			}
			if !closed {
				t.Kind = KIllegal
				t.Malformed = true
			} else if r == '"' {
				t.Kind = KString
			} else {
				t.Kind = KChar
				cnt := j - i
				if !(cnt == 3 || (cnt == 4 && backslash)) {
					t.Malformed = true
				}
			}
		case r == '[':
			depth := 1
			for j < n && depth > 0 {
				if src[j] == '[' {
					depth++
				} else if src[j] == ']' {
					depth--
				}
				j++
			}
			t.Kind = KComment
			if depth > 0 {
				t.KindSpec = false // unterminated comment: the rules do not say
			}
		case r == '<' && alias:
			// <name>
			ok := j < n && isAlpha(src[j])
			k := j
			for k < n && src[k] != '>' {
				if !(isAlpha(src[k]) || isDigit(src[k])) {
					ok = false
				}
				k++
			}
			if k < n {
				k++
			} else {
				ok = false
			}
			t.Kind, t.KindSpec, t.Malformed = KAliasParam, ok, !ok
			j = k
		default:
			t.Kind = KSymbol
		}
		t.End = j
		t.ELine, t.ECol = lines[j], cols[j]
		// a literal that contains a line break: what follows on its last line has no
		// "line start" of its own, the rules leave its indent open
		for k := i; k < j; k++ {
			if src[k] == '\n' {
				indentKnown = false
				t.IndentSpec = false
				break
			}
		}
		out = append(out, t)
		i = j
	}
}
