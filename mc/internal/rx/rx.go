// Package rx: E-EXEC of DESIGN §4 — compile (through the compile worker or the kddp CLI), link with
// the same gcc line cmd/internal/linker builds, and run under timeout / rlimit / output cap.
package rx

import (
	"bytes"
	"context"
	"fmt"
	"io"
	"os"
	"os/exec"
	"path/filepath"
	"strings"
	"sync"
	"syscall"
	"time"

	"ddpmc/internal/ev"
	"ddpmc/internal/fe"
	"ddpmc/internal/pool"
)

var (
	// DDP is the install tree built from the current /repo state (exported by ./run as DDPPATH)
	DDP    = envOr("DDPPATH", filepath.Join(ev.Build, "ddp"))
	Kddp   = filepath.Join(DDP, "bin", "kddp")
	Locale = filepath.Join(ev.Build, "locale")
	// VDir holds what was built from /verif for this state (ddpmc, C harness objects)
	VDir = envOr("VERIF_VDIR", ev.Build)
)

func envOr(k, d string) string {
	if v := os.Getenv(k); v != "" {
		return v
	}
	return d
}

var (
	compOnce sync.Once
	compPool *pool.Pool
)

// CompPool returns the shared compile/parse worker pool.
func CompPool() *pool.Pool {
	compOnce.Do(func() { compPool = pool.New("fe", 0) })
	return compPool
}

// Scratch returns a fresh private directory (caller removes it).
func Scratch(prefix string) string {
	base := os.Getenv("VERIF_TMP")
	if base == "" {
		base = filepath.Join(os.TempDir(), "ddpmc")
	}
	os.MkdirAll(base, 0o755)
	d, err := os.MkdirTemp(base, prefix)
	if err != nil {
		panic(err)
	}
	return d
}

// WriteFiles writes name->content below dir.
func WriteFiles(dir string, files map[string]string) {
	for n, s := range files {
		p := filepath.Join(dir, n)
		os.MkdirAll(filepath.Dir(p), 0o755)
		if err := os.WriteFile(p, []byte(s), 0o644); err != nil {
			panic(err)
		}
	}
}

type BuildOpts struct {
	Opt          uint
	NoLinkMods   bool // --module-linken=false (only for single-module programs unless caller links the rest)
	NoLinkLists  bool // --list-defs-linken=false
	Asan         bool // link against the -fsanitize=address runtime/stdlib
	ExtraLink    []string
	ExtraObjects []string
}

type BuildResult struct {
	OK       bool
	Stage    string // "" | "frontend" | "internal" | "died" | "timeout" | "link"
	Resp     fe.Resp
	Log      string
	Exe      string
	Obj      string
	Duration time.Duration
}

// Compile compiles file (absolute) to an object file through the in-process compiler worker.
func Compile(file, obj string, o BuildOpts) BuildResult {
	var resp fe.Resp
	st, log := CompPool().Do(&fe.Req{Op: "compile", File: file, Out: obj, Kind: "obj", Opt: o.Opt, LinkModules: !o.NoLinkMods, LinkListDefs: !o.NoLinkLists}, &resp, 120*time.Second)
	r := BuildResult{Resp: resp, Obj: obj}
	switch {
	case st == pool.Died:
		r.Stage, r.Log = "died", log
	case st == pool.Timeout:
		r.Stage, r.Log = "timeout", log
	case resp.Panic != "" || resp.Internal:
		r.Stage, r.Log = "internal", resp.Panic+"\n"+resp.Err+"\n"+resp.Stack
	case resp.Err != "":
		r.Stage, r.Log = "frontend", resp.Err
	default:
		r.OK = true
	}
	return r
}

// Link links obj (+deps) into exe with the line cmd/internal/linker uses.
func Link(obj, exe string, deps []string, o BuildOpts) (bool, string) {
	lib := filepath.Join(DDP, "lib")
	if o.Asan {
		lib = filepath.Join(DDP, "libasan")
	}
	args := []string{"-o", exe, "-O2", "-L" + lib, obj}
	args = append(args, o.ExtraObjects...)
	dir := filepath.Dir(obj)
	var libs []string
	for _, d := range deps {
		base := filepath.Base(d)
		switch base {
		case "libddpstdlib.a", "libddpruntime.a", "ddp_list_types_defs.o":
			continue
		}
		switch filepath.Ext(d) {
		case ".a", ".lib":
			args = append(args, "-L"+filepath.Dir(d))
			libs = append(libs, "-l:"+base)
		case ".o":
			args = append(args, d)
		case ".c":
			// unique per linked object: several links may run concurrently in one directory
			out := filepath.Join(dir, "ddpextern_"+strings.TrimSuffix(filepath.Base(obj), ".o")+"_"+strings.TrimSuffix(base, ".c")+fmt.Sprintf("_%d.o", len(args)))
			cargs := []string{"-O2", "-c", "-Wall", "-o", out, d, "-I" + filepath.Join(DDP, "lib", "runtime", "include"), "-I" + filepath.Join(DDP, "lib", "stdlib", "include")}
			if o.Asan {
				cargs = append(cargs, "-fsanitize=address", "-g")
			}
			if b, err := exec.Command("gcc", cargs...).CombinedOutput(); err != nil {
				return false, "extern c: " + string(b)
			}
			args = append(args, out)
		default:
			return false, "unexpected dependency " + d
		}
	}
	args = append(args, libs...)
	args = append(args, "-lddpstdlib")
	if o.NoLinkLists {
		args = append(args, filepath.Join(lib, "ddp_list_types_defs.o"))
	}
	args = append(args, "-lddpruntime", "-lm", filepath.Join(lib, "main.o"), "-lpcre2-8", "-larchive", "-lz", "-llzma", "-lbz2", "-llz4")
	if o.Asan {
		args = append(args, "-fsanitize=address")
	}
	args = append(args, o.ExtraLink...)
	b, err := exec.Command("gcc", args...).CombinedOutput()
	if err != nil {
		return false, string(b)
	}
	return true, ""
}

// Build = Compile + Link for the program whose main file is dir/main.
func Build(dir, main string, o BuildOpts) BuildResult {
	t0 := time.Now()
	file := filepath.Join(dir, main)
	obj := strings.TrimSuffix(file, ".ddp") + fmt.Sprintf(".O%d.o", o.Opt)
	exe := strings.TrimSuffix(file, ".ddp") + fmt.Sprintf(".O%d.exe", o.Opt)
	if o.Asan {
		exe += ".asan"
	}
	r := Compile(file, obj, o)
	if r.OK {
		ok, log := Link(obj, exe, r.Resp.Deps, o)
		if !ok {
			r.OK, r.Stage, r.Log = false, "link", log
		} else {
			r.Exe = exe
		}
	}
	r.Duration = time.Since(t0)
	return r
}

// CLI runs the kddp binary: kddp kompiliere <file> -o <out> <flags...>.
func CLI(dir string, args ...string) (exit int, stdout, stderr string, timedOut bool) {
	ctx, cancel := context.WithTimeout(context.Background(), 120*time.Second)
	defer cancel()
	cmd := exec.CommandContext(ctx, Kddp, args...)
	cmd.Dir = dir
	cmd.Env = Env()
	var so, se capBuf
	so.max, se.max = 1<<20, 1<<20
	cmd.Stdout, cmd.Stderr = &so, &se
	err := cmd.Run()
	if ctx.Err() != nil {
		return -1, so.String(), se.String(), true
	}
	if err != nil {
		if ee, ok := err.(*exec.ExitError); ok {
			return ee.ExitCode(), so.String(), se.String(), false
		}
		return -2, so.String(), err.Error(), false
	}
	return 0, so.String(), se.String(), false
}

func Env() []string {
	return []string{"PATH=" + os.Getenv("PATH"), "HOME=" + os.Getenv("HOME"), "DDPPATH=" + DDP, "LOCPATH=" + Locale, "TZ=UTC", "LANG=C",
		"ASAN_OPTIONS=detect_leaks=1:abort_on_error=0:exitcode=99:allocator_may_return_null=1", "TMPDIR=" + os.TempDir()}
}

type capBuf struct {
	bytes.Buffer
	max       int
	truncated bool
}

func (c *capBuf) Write(p []byte) (int, error) {
	if c.Len()+len(p) > c.max {
		room := c.max - c.Len()
		if room > 0 {
			c.Buffer.Write(p[:room])
		}
		c.truncated = true
		return 0, io.ErrShortWrite // closes the pipe: the child gets SIGPIPE/EPIPE instead of flooding us
	}
	return c.Buffer.Write(p)
}

// ReadFrom hides bytes.Buffer.ReadFrom: os/exec copies the child's output with io.Copy, which prefers
// the destination's ReadFrom and would bypass the cap in Write (a flooding program then fills memory
// until the timeout instead of being cut off and classified "flood").
func (c *capBuf) ReadFrom(r io.Reader) (n int64, err error) {
	buf := make([]byte, 32*1024)
	for {
		m, rerr := r.Read(buf)
		if m > 0 {
			if _, werr := c.Write(buf[:m]); werr != nil {
				return n, werr
			}
			n += int64(m)
		}
		if rerr == io.EOF {
			return n, nil
		}
		if rerr != nil {
			return n, rerr
		}
	}
}

type RunResult struct {
	Exit      int    // exit status, -1 if killed by signal / timeout
	Signal    string // name of the terminating signal, "" otherwise
	Stdout    string
	Stderr    string
	TimedOut  bool
	Truncated bool // output cap hit
	Infra     bool // the run itself failed for reasons outside the program (exec error, I/O wait expired): never evidence
}

// Class summarises how the program ended: "ok", "exit:N", "laufzeitfehler", "signal:X", "timeout", "flood".
func (r RunResult) Class() string {
	switch {
	case r.Truncated:
		return "flood"
	case r.TimedOut:
		return "timeout"
	case r.Signal != "":
		return "signal:" + r.Signal
	case r.Exit == 0:
		return "ok"
	case r.Exit == 1 && strings.Contains(r.Stderr, "Laufzeitfehler"):
		return "laufzeitfehler"
	}
	return fmt.Sprintf("exit:%d", r.Exit)
}

type RunOpts struct {
	Args    []string
	Stdin   string
	Timeout time.Duration // default 10 s
	MaxOut  int           // default 1 MB
	Dir     string
	Wrapper []string // e.g. valgrind ...
	NoLimit bool     // no ulimit -v (ASan needs a huge address space)
}

// Run executes a compiled program in the controlled environment.
func Run(exe string, o RunOpts) RunResult {
	if o.Timeout == 0 {
		o.Timeout = 10 * time.Second
	}
	if o.MaxOut == 0 {
		o.MaxOut = 1 << 20
	}
	argv := append(append([]string{}, o.Wrapper...), exe)
	argv = append(argv, o.Args...)
	ctx, cancel := context.WithTimeout(context.Background(), o.Timeout)
	defer cancel()
	var cmd *exec.Cmd
	if o.NoLimit {
		cmd = exec.CommandContext(ctx, argv[0], argv[1:]...)
	} else {
		cmd = exec.CommandContext(ctx, "/bin/sh", append([]string{"-c", "ulimit -v 4194304; ulimit -c 0; exec \"$0\" \"$@\""}, argv...)...)
	}
	cmd.Env = Env()
	cmd.Dir = o.Dir
	if cmd.Dir == "" {
		cmd.Dir = filepath.Dir(exe)
	}
	cmd.Stdin = strings.NewReader(o.Stdin)
	cmd.SysProcAttr = &syscall.SysProcAttr{Setpgid: true}
	cmd.Cancel = func() error { return syscall.Kill(-cmd.Process.Pid, syscall.SIGKILL) }
	cmd.WaitDelay = 2 * time.Second
	var so, se capBuf
	so.max, se.max = o.MaxOut, 1<<16
	cmd.Stdout, cmd.Stderr = &so, &se
	err := cmd.Run()
	r := RunResult{Stdout: so.String(), Stderr: se.String(), Truncated: so.truncated}
	if ctx.Err() != nil {
		r.TimedOut, r.Exit = true, -1
		return r
	}
	if err != nil {
		if ee, ok := err.(*exec.ExitError); ok {
			if ws, ok := ee.Sys().(syscall.WaitStatus); ok && ws.Signaled() {
				r.Signal, r.Exit = ws.Signal().String(), -1
				if so.truncated && ws.Signal() == syscall.SIGPIPE {
					r.Signal = ""
				}
				return r
			}
			r.Exit = ee.ExitCode()
			return r
		}
		r.Exit, r.Stderr, r.Infra = -2, r.Stderr+"\nrun error: "+err.Error(), true
	}
	return r
}

// BuildSeparate compiles every module of the import closure on its own (LinkInModules=false), as a
// user of `--module-linken=false` has to, and links the objects with gcc. The duplicate ddp_ddpmain
// of the non-main objects is removed with objcopy -N.
func BuildSeparate(dir, main string, o BuildOpts) BuildResult {
	t0 := time.Now()
	file := filepath.Join(dir, main)
	var pr fe.Resp
	st, log := CompPool().Do(&fe.Req{Op: "parse", File: file, WantMods: true}, &pr, 120*time.Second)
	r := BuildResult{Resp: pr}
	if st != pool.OK || pr.Panic != "" {
		r.Stage, r.Log = "died", log+pr.Panic
		return r
	}
	if pr.Err != "" || pr.Faulty {
		r.Stage, r.Log = "frontend", pr.Err
		return r
	}
	o.NoLinkMods = true
	tag := fmt.Sprintf("sepO%d", o.Opt)
	if o.NoLinkLists {
		tag += "nl"
	}
	mainObj := strings.TrimSuffix(file, ".ddp") + "." + tag + ".o"
	exe := strings.TrimSuffix(file, ".ddp") + "." + tag + ".exe"
	r = Compile(file, mainObj, o)
	if !r.OK {
		return r
	}
	deps := map[string]bool{}
	for _, d := range r.Resp.Deps {
		deps[d] = true
	}
	objs := []string{}
	for i, m := range pr.Mods {
		if filepath.Clean(m) == filepath.Clean(file) {
			continue
		}
		obj := filepath.Join(dir, fmt.Sprintf("mod%d.%s.o", i, tag))
		mr := Compile(m, obj, o)
		if !mr.OK {
			mr.Log = "module " + m + ": " + mr.Log
			return mr
		}
		if b, err := exec.Command("objcopy", "-N", "ddp_ddpmain", obj).CombinedOutput(); err != nil {
			r.OK, r.Stage, r.Log = false, "link", "objcopy: "+string(b)
			return r
		}
		for _, d := range mr.Resp.Deps {
			deps[d] = true
		}
		objs = append(objs, obj)
	}
	var dl []string
	for d := range deps {
		dl = append(dl, d)
	}
	o.ExtraObjects = append(append([]string{}, o.ExtraObjects...), objs...)
	ok, llog := Link(mainObj, exe, dl, o)
	for _, ob := range objs {
		os.Remove(ob)
	}
	if !ok {
		r.OK, r.Stage, r.Log = false, "link", llog
		return r
	}
	r.OK, r.Exe, r.Obj, r.Duration = true, exe, mainObj, time.Since(t0)
	return r
}

// RunRobust = Run, but a timeout or an infrastructure failure is retried once with a very generous
// limit, so that a loaded machine never looks like a hang or a crash of the program.
func RunRobust(exe string, o RunOpts) RunResult {
	r := Run(exe, o)
	if r.TimedOut || r.Infra {
		o.Timeout = 300 * time.Second
		r = Run(exe, o)
	}
	return r
}
