package main

// `ddpmc golden run` — infrastructure conformance: every upstream golden (tests/testdata/kddp/**,
// and the stdlib ones that build here) is compiled through the worker path and must print expected.txt.

import (
	"fmt"
	"io/fs"
	"os"
	"os/exec"
	"path/filepath"
	"sort"
	"strings"
	"sync"

	"ddpmc/internal/ev"
	"ddpmc/internal/par"
	"ddpmc/internal/rx"
)

type goldenCase struct {
	Name, Dir, Main, Expected, Input string
}

func listGoldens(root string) []goldenCase {
	var out []goldenCase
	filepath.WalkDir(root, func(path string, d fs.DirEntry, err error) error {
		if err != nil || !d.IsDir() {
			return nil
		}
		exp, e1 := os.ReadFile(filepath.Join(path, "expected.txt"))
		main := filepath.Join(path, filepath.Base(path)+".ddp")
		if _, e2 := os.Stat(main); e1 != nil || e2 != nil {
			return nil
		}
		in, _ := os.ReadFile(filepath.Join(path, "input.txt"))
		rel, _ := filepath.Rel(root, path)
		out = append(out, goldenCase{Name: rel, Dir: path, Main: filepath.Base(main), Expected: string(exp), Input: string(in)})
		return nil
	})
	sort.Slice(out, func(i, j int) bool { return out[i].Name < out[j].Name })
	return out
}

// copyTree copies the golden's top-level directory (so that relative imports keep working).
func copyTree(src, dst string) error {
	return exec.Command("cp", "-r", src, dst).Run()
}

func runGolden(args []string) int {
	roots := []string{filepath.Join(ev.Repo, "tests/testdata/kddp")}
	if len(args) > 0 && args[0] == "all" {
		roots = append(roots, filepath.Join(ev.Repo, "tests/testdata/stdlib"))
	}
	var mu sync.Mutex
	okN, bad := 0, []string{}
	for _, root := range roots {
		gs := listGoldens(root)
		par.Each(gs, 0, func(_ int, g goldenCase) {
			scratch := rx.Scratch("gold")
			defer os.RemoveAll(scratch)
			top := strings.Split(g.Name, string(filepath.Separator))[0]
			copyTree(filepath.Join(root, top), filepath.Join(scratch, top))
			dir := filepath.Join(scratch, g.Name)
			b := rx.Build(dir, g.Main, rx.BuildOpts{Opt: 1})
			msg := ""
			if !b.OK {
				msg = "build " + b.Stage + ": " + firstLines(b.Log, 3)
			} else {
				r := rx.RunRobust(b.Exe, rx.RunOpts{Stdin: g.Input, Dir: dir})
				if got := r.Stdout + r.Stderr; got != g.Expected || r.Exit != 0 {
					msg = fmt.Sprintf("output differs (exit %d class %s)", r.Exit, r.Class())
				}
			}
			mu.Lock()
			if msg == "" {
				okN++
			} else {
				bad = append(bad, g.Name+": "+msg)
			}
			mu.Unlock()
		})
	}
	sort.Strings(bad)
	fmt.Printf("goldens ok=%d bad=%d\n", okN, len(bad))
	for _, b := range bad {
		fmt.Println("  ", b)
	}
	return 0
}

func firstLines(s string, n int) string {
	ls := strings.Split(strings.TrimSpace(s), "\n")
	if len(ls) > n {
		ls = ls[:n]
	}
	return strings.Join(ls, " | ")
}

func init() {
	checks["golden"] = check{run: nil}
}
