package main

// C04 — statically ill-formed programs are never accepted.
// Shape S, fault enumeration: every seed program (well-formed, accepted by the real frontend) × every
// syntactic site where a fault class applies × exactly one injected fault; each injected program is
// given to the real frontend (parser.Parse in a sacrificial worker). Oracle: ≥1 error diagnostic and
// (module marked faulty or Parse returned an error); for one representative per (class, site kind) also
// the kddp binary: exit status ≠ 0 and no executable.

import (
	"fmt"
	"os"
	"path/filepath"
	"runtime"
	"sort"
	"strings"
	"sync"
	"time"

	"ddpmc/internal/batch"
	"ddpmc/internal/cdm"
	"ddpmc/internal/ev"
	"ddpmc/internal/faults"
	"ddpmc/internal/fe"
	"ddpmc/internal/par"
	"ddpmc/internal/pool"
	"ddpmc/internal/rx"

	"github.com/DDP-Projekt/Kompilierer/src/ddperror"
)

// c04Inj is one injected program in file form.
type c04Inj struct {
	class, kind, detail string
	whatFn              func() string
	what                string
	seed                string
	files               map[string]string // main.ddp (+ module files)
	control             map[string]string // nil or the files of the control program
	lazy                func() (files, control map[string]string)
	once                sync.Once
	isRep               bool // representative for the kddp run: keep the files
}

func (j *c04Inj) build() {
	j.once.Do(func() {
		if j.files == nil && j.lazy != nil {
			j.files, j.control = j.lazy()
		}
		if j.what == "" && j.whatFn != nil {
			j.what = j.whatFn()
		}
	})
}

func (j *c04Inj) key() string { return "C04:" + j.class + ":" + j.kind + ":" + j.detail }

// c04Seed: a well-formed program with a lazy enumeration of its single-fault variants.
type c04Seed struct {
	name  string
	text  bool // hand-written (possibly multi-module) seed: always executed completely, one request per program
	files map[string]string
	inj   func(st *faults.Stats) []*c04Inj
}

type c04Verdict struct {
	rejected bool
	crash    bool // panic / worker died / timeout: C03's business
	infra    bool
	nerr     int
	first    int // code of the first error diagnostic
	resp     fe.Resp
}

// c04Parse runs the real frontend on files (main.ddp is the entry). Single-file programs are passed in
// memory; multi-module programs are written to a private directory first.
func c04Parse(files map[string]string) c04Verdict {
	var req c04BatchReq
	req.Full = true
	if len(files) == 1 {
		req.Srcs = []string{files["main.ddp"]}
	} else {
		dir := rx.Scratch("c04p")
		defer os.RemoveAll(dir)
		rx.WriteFiles(dir, files)
		req.Srcs, req.Files = []string{""}, []string{filepath.Join(dir, "main.ddp")}
	}
	var v c04Verdict
	for attempt := 0; attempt < 2; attempt++ {
		var resp c04BatchResp
		st, _ := c04BatchPool().Do(&req, &resp, []time.Duration{90 * time.Second, 600 * time.Second}[attempt])
		v = c04Verdict{}
		if st == pool.Timeout && attempt == 0 {
			continue // loaded machine: once more with a very generous limit
		}
		if st != pool.OK || len(resp.Full) != 1 {
			v.crash = true
			return v
		}
		v.resp = resp.Full[0]
		if v.resp.Panic != "" || v.resp.Internal {
			v.crash = true
			return v
		}
		break
	}
	v.nerr = v.resp.NErrors()
	for _, d := range v.resp.Diags {
		if d.Level == 2 {
			v.first = d.Code
			break
		}
	}
	v.rejected = v.nerr >= 1 && (v.resp.Faulty || v.resp.Err != "")
	return v
}

func c04DiagText(r *fe.Resp) string {
	var sb strings.Builder
	fmt.Fprintf(&sb, "Parse error=%q Faulty=%v HasModule=%v diagnostics=%d\n", r.Err, r.Faulty, r.HasModule, len(r.Diags))
	for i, d := range r.Diags {
		if i == 8 {
			break
		}
		sb.WriteString("  " + d.String() + "\n")
	}
	return sb.String()
}

// expected rule(s) per class: only used for the evidence statistic "rejected by the rule the fault aims at"
func c04Expected(class string, code int) bool {
	c := ddperror.Code(code)
	switch class {
	case "undeclared", "outofscope":
		return c == ddperror.SEM_NAME_UNDEFINED
	case "redeclaration":
		return c == ddperror.SEM_NAME_ALREADY_DEFINED || c == ddperror.SEM_DEFINITION_ALREADY_DEFINED
	case "wrongtype":
		return c.IsTypeError()
	case "constant":
		return c == ddperror.SEM_CONSTANT_IS_NOT_ASSIGNABLE || c == ddperror.SEM_BAD_NAME_CONTEXT
	case "loopcontrol":
		return c == ddperror.SEM_BREAK_CONTINUE_NOT_IN_LOOP
	case "noreturn":
		return c == ddperror.SEM_MISSING_RETURN
	case "nonpublic":
		return c == ddperror.SEM_NAME_UNDEFINED || c == ddperror.TYP_PRIVATE_FIELD_ACCESS || c == ddperror.SYN_EXPECTED_TYPENAME || c == ddperror.SEM_UNKNOWN_TYPE
	case "gender":
		return c == ddperror.SYN_GENDER_MISMATCH
	}
	return false
}

var c04Assumptions = []string{
	"seeds are accepted by the unchanged frontend before anything is injected (otherwise discarded and counted in seeds_rejected); an injected program differs from its seed by one edit only, helper declarations (a fresh Konstante) are validated by a control program that must be accepted",
	"undeclared: the identifier c04_unbekannt is declared nowhere in the program or its imports, so every use of it is a use of an undeclared name. A declaration inserted before the (only) declaration of a name uses that name before it exists; names that are declared more than once in the seed are skipped.",
	"outofscope: the variable is declared exactly once in the whole program, inside a block / as a loop variable / as a parameter, and the inserted use stands after the end of that block, loop or function. No other declaration of the name exists, so no shadowing or import can make it visible there.",
	"redeclaration: the second declaration of the name is inserted into the very statement list that holds the first one (same block, same nesting depth), so both are in one scope; inner-block shadowing never applies. Parameter-vs-local relies on the parameters and the top level of the function body forming one scope (stated in the task, and what parseFunctionBody implements); loop variable vs. body-local is excluded as unspecified.",
	"wrongtype: the replaced expression is a literal of a category that is neither equivalent to the required type, nor numeric-for-numeric, nor supplied for a Variable (acceptability rule quoted in C14), and for operators it is outside the operand domain named by the operator's plain meaning (arithmetic/comparison: numbers; und/oder/nicht: Wahrheitswert; logisch/shift/index/count: whole numbers; Länge/Stelle/iteration: Text or list; von: Kombination). Sites where several operand types are admissible and the property text does not fix them (verkettet, als, type test, Variable operands, single-element list literals, Referenz arguments) are excluded and counted.",
	"constant: a name declared with `Die Konstante` is a Konstante; storing into it, into one of its elements, compound assignment, or binding it to a Referenz parameter would change it. The control program (declaration present, statement untouched) is accepted, so the only fault is the use as target.",
	"loopcontrol: the statement is inserted in a block whose chain of enclosing statements up to the function body / top level contains no loop, so there is no loop to leave or continue. Functions cannot be declared inside loops (only global functions exist), so 'function nested in a loop body' is not expressible.",
	"noreturn: the function returns a value and its last statement is, after the edit, not a return statement (deleted, wrapped into an if without else, wrapped into a loop, or followed by another statement). Functions ending in an if/else that returns in both branches or in `...` are not injected (property text does not decide them).",
	"nonpublic: the used name is declared without `öffentliche` in another module (or is a field declared without `öffentlichen`) and the importing module has no declaration of that name; it is reached neither by the whole-module import nor by any other import path of the seed. Listing a private name in a selective import requests a non-public declaration.",
	"gender: feminine types are Zahl, Kommazahl, every Liste and Variable; masculine are Byte, Wahrheitswert, Buchstabe, Text; Kombinationen, aliases and definitions have the gender of the article they were declared with. The written article belongs to a different gender and its word differs from the correct one in that grammatical case (ein/ein for m/n is never injected).",
}

type c04Stats struct {
	mu        sync.Mutex
	perClass  map[string]*[6]int64 // injected, rejected, expectedRule, accepted, crash, controlRejected
	otherCode map[string]int       // class:code of rejections by another rule
	keys      map[string]bool
	reps      map[string]*c04Inj // one representative per (class, kind)
	fst       faults.Stats
	seedRej   []string
	sampled   map[string]bool
	otherSmp  map[string]string
	parses    int64
	diags     int64
}

func (s *c04Stats) cls(c string) *[6]int64 {
	if s.perClass[c] == nil {
		s.perClass[c] = &[6]int64{}
	}
	return s.perClass[c]
}

// ---- batch worker: many single-file programs per request (the per-request overhead dominates a 50 µs parse)

type c04BatchReq struct {
	Srcs  []string `json:"srcs"`
	Files []string `json:"files,omitempty"` // Files[i] != "": parse that file from disk (multi-module program)
	Full  bool     `json:"full,omitempty"`  // return the complete fe.Resp of every program
}
type c04Mini struct {
	NErr     int    `json:"n"`
	First    int    `json:"c"`
	NDiag    int    `json:"d"`
	Faulty   bool   `json:"f"`
	Err      string `json:"e,omitempty"`
	Crash    bool   `json:"x,omitempty"`
	FirstMsg string `json:"m,omitempty"`
}
type c04BatchResp struct {
	R    []c04Mini `json:"r"`
	Full []fe.Resp `json:"full,omitempty"`
}

func c04Mini1(r *fe.Resp) c04Mini {
	m := c04Mini{NErr: r.NErrors(), NDiag: len(r.Diags), Faulty: r.Faulty, Err: r.Err, Crash: r.Panic != "" || r.Internal}
	for _, d := range r.Diags {
		if d.Level == 2 {
			m.First, m.FirstMsg = d.Code, d.String()
			break
		}
	}
	return m
}

var (
	c04PoolOnce sync.Once
	c04Pool     *pool.Pool
)

func c04BatchPool() *pool.Pool {
	c04PoolOnce.Do(func() { c04Pool = pool.New("c04fe", 0) })
	return c04Pool
}

// c04ParseBatch parses single-file programs; a lost batch (worker died / timeout) is redone one by one
// through the ordinary fe worker so that the culprit alone is classified as a crash.
func c04ParseBatch(srcs []string) []c04Mini {
	var resp c04BatchResp
	st, _ := c04BatchPool().Do(&c04BatchReq{Srcs: srcs}, &resp, 300*time.Second)
	if st == pool.OK && len(resp.R) == len(srcs) {
		return resp.R
	}
	out := make([]c04Mini, len(srcs))
	for i, s := range srcs {
		v := c04Parse(map[string]string{"main.ddp": s})
		out[i] = c04Mini1(&v.resp)
		out[i].Crash = v.crash
	}
	return out
}

func (m *c04Mini) clean() bool    { return !m.Crash && m.NErr == 0 && !m.Faulty && m.Err == "" }
func (m *c04Mini) rejected() bool { return m.NErr >= 1 && (m.Faulty || m.Err != "") }

// c04Plan: which injections of which seed are executed (quick: at most quota programs per key, evenly spread)
type c04Meta struct {
	seed, idx int
	key       string
}

func runC04(tier string) int {
	c := ev.New("C04", tier)
	c.Budget(map[string]int{"quick": 170, "thorough": 1500}[tier])
	defer c04BatchPool().Close()
	quota := map[string]int{"quick": 24, "thorough": 1 << 30}[tier]
	st := &c04Stats{perClass: map[string]*[6]int64{}, otherCode: map[string]int{}, keys: map[string]bool{}, reps: map[string]*c04Inj{}, sampled: map[string]bool{}, otherSmp: map[string]string{}}

	phases := map[string]float64{}
	t0 := time.Now()
	lap := func(name string) { phases[name] = time.Since(t0).Seconds(); t0 = time.Now() }
	// ---- phase A: seeds must be accepted
	seeds := append(c04TextSeeds(), c04CdmSeeds(tier)...)
	lap("generate_seeds")
	okSeed := make([]bool, len(seeds))
	var chunks [][]int
	for i := 0; i < len(seeds); {
		if len(seeds[i].files) > 1 {
			chunks = append(chunks, []int{i})
			i++
			continue
		}
		var ch []int
		for ; i < len(seeds) && len(seeds[i].files) == 1 && len(ch) < 32; i++ {
			ch = append(ch, i)
		}
		chunks = append(chunks, ch)
	}
	par.Each(chunks, 0, func(_ int, ch []int) {
		var ms []c04Mini
		if len(seeds[ch[0]].files) > 1 {
			sv := c04Parse(seeds[ch[0]].files)
			m := c04Mini1(&sv.resp)
			m.Crash = sv.crash
			ms = []c04Mini{m}
		} else {
			var srcs []string
			for _, i := range ch {
				srcs = append(srcs, seeds[i].files["main.ddp"])
			}
			ms = c04ParseBatch(srcs)
		}
		for n, i := range ch {
			if !ms[n].clean() {
				sv := c04Parse(seeds[i].files)
				st.mu.Lock()
				if len(st.seedRej) < 30 {
					st.seedRej = append(st.seedRej, seeds[i].name+": "+strings.TrimSpace(c04DiagText(&sv.resp)))
				}
				st.mu.Unlock()
				c.Add("seeds_rejected", 1)
				continue
			}
			okSeed[i] = true
		}
	})
	st.parses += int64(len(seeds))
	lap("parse_seeds")
	nSeedsOK := 0
	for _, ok := range okSeed {
		if ok {
			nSeedsOK++
		}
	}

	// ---- phase B: enumerate all sites of all seeds (metadata only), phase C: selection
	perSeed := make([][]*c04Inj, len(seeds))
	fsts := make([]faults.Stats, len(seeds))
	par.Each(seeds, 0, func(i int, sd *c04Seed) {
		if okSeed[i] {
			perSeed[i] = sd.inj(&fsts[i])
		}
	})
	var metas []c04Meta
	totalPerKey := map[string]int{}
	var enumerated int64
	for i := range seeds {
		st.fst.ExcludedUnspecified += fsts[i].ExcludedUnspecified
		st.fst.NotExpressible += fsts[i].NotExpressible
		st.fst.Shadowed += fsts[i].Shadowed
		for k, j := range perSeed[i] {
			j.seed = seeds[i].name
			metas = append(metas, c04Meta{i, k, j.key()})
			totalPerKey[j.key()]++
			enumerated++
		}
	}
	selected := make([][]int, len(seeds))
	seenPerKey := map[string]int{}
	takenPerKey := map[string]int{}
	var nSelected int64
	for _, m := range metas {
		n := seenPerKey[m.key]
		seenPerKey[m.key]++
		tot := totalPerKey[m.key]
		take := tot <= quota || seeds[m.seed].text
		if !take { // take the programs number floor(t*tot/quota), t = 0..quota-1: evenly spread over the seeds
			take = takenPerKey[m.key] < quota && n == takenPerKey[m.key]*tot/quota
		}
		if take {
			takenPerKey[m.key]++
			selected[m.seed] = append(selected[m.seed], m.idx)
			nSelected++
			j := perSeed[m.seed][m.idx]
			rk := j.class + ":" + j.kind
			if tier == "quick" { // one per (class, declaration / site family): kddp costs seconds on a loaded machine
				rk = j.class + ":" + strings.SplitN(j.kind, ":", 2)[0]
			}
			if st.reps[rk] == nil {
				st.reps[rk] = j
				j.isRep = true
			}
		}
	}
	// ---- phase E (runs beside phase D): the kddp binary on one representative per (class, site kind)
	var reps []*c04Inj
	for _, j := range st.reps {
		reps = append(reps, j)
	}
	sort.Slice(reps, func(a, b int) bool { return reps[a].key()+reps[a].seed < reps[b].key()+reps[b].seed })
	var nCLI int64
	var cmu sync.Mutex
	cliDone := make(chan struct{})
	go func() {
		defer close(cliDone)
		par.Each(reps, max(2, runtime.NumCPU()/2), func(_ int, j *c04Inj) {
			if c.Expired() {
				c.Capped("deadline reached: remaining kddp representatives skipped")
				return
			}
			j.build()
			ok, log, infra := c04CLI(j.files)
			if infra {
				c.Add("cli_infrastructure_failures", 1)
				return
			}
			cmu.Lock()
			nCLI++
			cmu.Unlock()
			if !ok {
				c04Report(c, j, "kddp", log)
			}
		})
	}()

	lap("enumerate_and_select")
	// ---- phase D: run
	type job struct {
		seed  int
		round int
		idxs  []int
	}
	var jobs []job
	for i, sel := range selected {
		if seeds[i].text {
			for _, k := range sel {
				jobs = append(jobs, job{i, 0, []int{k}})
			}
			continue
		}
		nch := (len(sel) + 47) / 48
		for r := 0; r < nch; r++ { // chunk r takes every nch-th site: every chunk mixes all fault classes
			var part []int
			for k := r; k < len(sel); k += nch {
				part = append(part, sel[k])
			}
			jobs = append(jobs, job{i, r, part})
		}
	}
	// first chunk of every seed first: a run that hits its deadline has still visited every seed
	sort.SliceStable(jobs, func(a, b int) bool { return jobs[a].round < jobs[b].round })
	par.Each(jobs, 0, func(_ int, jb job) {
		if c.Expired() {
			c.Capped("deadline reached: remaining injected programs skipped")
			return
		}
		var injs []*c04Inj
		var minis, ctl []c04Mini
		if seeds[jb.seed].text {
			j := perSeed[jb.seed][jb.idxs[0]]
			j.build()
			v := c04Parse(j.files)
			m := c04Mini1(&v.resp)
			m.Crash = v.crash
			injs, minis, ctl = []*c04Inj{j}, []c04Mini{m}, []c04Mini{{}}
			st.mu.Lock()
			st.parses++
			st.mu.Unlock()
		} else {
			var srcs []string
			var ctlAt []int
			for _, k := range jb.idxs {
				j := perSeed[jb.seed][k]
				j.build()
				injs = append(injs, j)
				srcs = append(srcs, j.files["main.ddp"])
				if j.control != nil {
					ctlAt = append(ctlAt, len(srcs))
					srcs = append(srcs, j.control["main.ddp"])
				} else {
					ctlAt = append(ctlAt, -1)
				}
			}
			all := c04ParseBatch(srcs)
			st.mu.Lock()
			st.parses += int64(len(srcs))
			st.mu.Unlock()
			pos := 0
			for n := range injs {
				minis = append(minis, all[pos])
				pos++
				if ctlAt[n] >= 0 {
					ctl = append(ctl, all[pos])
					pos++
				} else {
					ctl = append(ctl, c04Mini{})
				}
			}
		}
		for n, j := range injs {
			m := minis[n]
			if j.control != nil && !ctl[n].clean() {
				st.mu.Lock()
				st.cls(j.class)[5]++
				st.mu.Unlock()
				continue
			}
			st.mu.Lock()
			pc := st.cls(j.class)
			pc[0]++
			st.diags += int64(m.NDiag)
			st.keys[j.key()] = true
			switch {
			case m.Crash:
				pc[4]++
			case m.rejected():
				pc[1]++
				if c04Expected(j.class, m.First) {
					pc[2]++
				} else {
					oc := fmt.Sprintf("%s:%04d", j.class, m.First)
					st.otherCode[oc]++
					if _, seen := st.otherSmp[oc+" "+j.kind]; !seen && len(st.otherSmp) < 60 {
						st.otherSmp[oc+" "+j.kind] = j.seed + " | " + j.what + " | " + m.FirstMsg
					}
				}
			default:
				pc[3]++
			}
			doSample := !st.sampled[j.class] && m.rejected()
			if doSample {
				st.sampled[j.class] = true
			}
			st.mu.Unlock()
			if doSample {
				c.Sample(map[string]any{"class": j.class, "key": j.key(), "seed": j.seed, "injected": j.what, "first_error": m.FirstMsg})
			}
			if m.Crash || m.rejected() {
				if !j.isRep {
					j.files, j.control = nil, nil // free memory
				}
				continue
			}
			// accepted: re-run alone three times through the ordinary worker, results must be identical
			same := true
			var last c04Verdict
			for k := 0; k < 3; k++ {
				last = c04Parse(j.files)
				if last.crash || last.rejected {
					same = false
				}
			}
			if !same {
				c.Add("flaky_not_reported", 1)
				continue
			}
			c04Report(c, j, "frontend", c04DiagText(&last.resp))
		}
	})

	lap("run_injected")
	<-cliDone
	lap("kddp_representatives")
	c.Set("phase_seconds", phases)
	var total, rejected, accepted, crashes, expectedRule, ctlRej int64
	per := map[string]any{}
	for cl, a := range st.perClass {
		total += a[0]
		rejected += a[1]
		expectedRule += a[2]
		accepted += a[3]
		crashes += a[4]
		ctlRej += a[5]
		per[cl] = map[string]int64{"injected": a[0], "rejected": a[1], "rejected_by_aimed_rule": a[2], "accepted": a[3], "frontend_crash_not_reported": a[4], "control_rejected_discarded": a[5]}
	}
	sitesPerClass := map[string]int{}
	for _, m := range metas {
		sitesPerClass[strings.SplitN(m.key, ":", 3)[1]]++
	}
	c.Set("seeds", len(seeds))
	c.Set("seeds_accepted", nSeedsOK)
	if len(st.seedRej) > 0 {
		c.Set("seeds_rejected_samples", st.seedRej)
	}
	c.Set("sites_enumerated", enumerated)
	c.Set("sites_enumerated_per_class", sitesPerClass)
	c.Set("sites_selected", nSelected)
	c.Set("quota_per_key", quota)
	c.Set("per_class", per)
	c.Set("rejections_by_other_rule", st.otherCode)
	c.Set("rejections_by_other_rule_samples", st.otherSmp)
	c.Set("injected_programs", total)
	c.Set("injected_rejected", rejected)
	c.Set("injected_rejected_by_aimed_rule", expectedRule)
	c.Set("injected_accepted", accepted)
	c.Set("frontend_crashes_not_reported", crashes)
	c.Set("control_rejected_discarded", ctlRej)
	c.Set("excluded_unspecified", st.fst.ExcludedUnspecified)
	c.Set("excluded_not_expressible", st.fst.NotExpressible)
	c.Set("excluded_name_not_unique", st.fst.Shadowed)
	c.Set("site_kinds", len(st.reps))
	c.Set("kddp_representatives", nCLI)
	c.Set("states", total)
	c.Set("transitions", st.diags)
	c.Set("evaluations", st.parses+nCLI)
	c.Set("traces_validated_against_impl", total)
	c.Set("distinct_nontrivial", len(st.keys))
	c.Set("rule", "states = single-fault programs given to parser.Parse (each = seed + one injected fault at one site); transitions = diagnostics delivered for them; evaluations = all frontend runs (seeds, controls, injected) + kddp runs; distinct_nontrivial = distinct (fault class, site kind, detail) keys exercised. quick executes at most quota_per_key programs per key (evenly spread over the seeds in enumeration order), thorough executes every enumerated site")
	c.Set("bounds", map[string]any{"tier": tier, "seed_sources": "cdm generators genStmts/genFuncs/genC05/genC08 (+genCells/genShapes/genC06 in thorough), one seed per case key; hand-written multi-module / constant / alias / Kombination / forward-declaration / loop-form / scope seeds with marked sites",
		"replacements_per_wrongtype_site": 2, "faults_per_program": 1})
	c.Assume(c04Assumptions...)
	if total == 0 {
		c.Broken("no program was injected")
	}
	return c.Finish()
}

var c04RepMu sync.Mutex

func c04Report(c *ev.Ctx, j *c04Inj, stage, log string) {
	key := j.key()
	if stage == "kddp" {
		key += ":kddp"
	}
	files := map[string]string{}
	for n, s := range j.files {
		files[n] = s
	}
	files["INJECTED.txt"] = fmt.Sprintf("class: %s\nsite kind: %s\ndetail: %s\nseed: %s\ninjected: %s\n", j.class, j.kind, j.detail, j.seed, j.what)
	what := fmt.Sprintf("ill-formed program accepted by %s\nfault class %s, site %s (%s), seed %s\ninjected: %s\n%s\n--- main.ddp\n%s", stage, j.class, j.kind, j.detail, j.seed, j.what, log, j.files["main.ddp"])
	c.Violation(key, what, files)
}

// c04CLI: kddp kompiliere main.ddp -o main must fail and leave no executable. ok=false: accepted.
func c04CLI(files map[string]string) (ok bool, log string, infra bool) {
	for attempt := 0; attempt < 2; attempt++ {
		dir := rx.Scratch("c04cli")
		rx.WriteFiles(dir, files)
		exit, so, se, to := rx.CLI(dir, "kompiliere", "main.ddp", "-o", "main")
		_, statErr := os.Stat(filepath.Join(dir, "main"))
		os.RemoveAll(dir)
		if to || exit < 0 {
			infra = true
			continue
		}
		exists := statErr == nil
		if exit != 0 && !exists {
			return true, "", false
		}
		return false, fmt.Sprintf("kddp kompiliere main.ddp -o main: exit status %d, executable produced: %v\nstdout: %s\nstderr: %s", exit, exists, firstRunes(so, 400), firstRunes(se, 800)), false
	}
	return true, "", true
}

func replayC04(dir string) int {
	files := map[string]string{}
	ents, err := os.ReadDir(dir)
	if err != nil {
		fmt.Fprintln(os.Stderr, err)
		return 2
	}
	for _, e := range ents {
		if strings.HasSuffix(e.Name(), ".ddp") {
			b, _ := os.ReadFile(filepath.Join(dir, e.Name()))
			files[e.Name()] = string(b)
		}
	}
	if files["main.ddp"] == "" {
		fmt.Fprintln(os.Stderr, "no main.ddp in", dir)
		return 2
	}
	defer c04BatchPool().Close()
	if b, err := os.ReadFile(filepath.Join(dir, "INJECTED.txt")); err == nil {
		fmt.Print(string(b))
	}
	v := c04Parse(files)
	fmt.Print(c04DiagText(&v.resp))
	if v.crash {
		fmt.Println("C04 replay: the frontend crashed on this input (C03's business), no verdict")
		return 2
	}
	bad := false
	if !v.rejected {
		fmt.Printf("VIOLATION property=C04 replay=%s\n  the ill-formed program is accepted by the frontend\n", dir)
		bad = true
	}
	ok, log, infra := c04CLI(files)
	if infra {
		fmt.Println("kddp could not be run (infrastructure)")
	} else if !ok {
		fmt.Printf("VIOLATION property=C04 replay=%s\n  %s\n", dir, log)
		bad = true
	}
	if bad {
		return 1
	}
	fmt.Println("C04 replay: the program is rejected (frontend and kddp)")
	return 0
}

// ---------------------------------------------------------------- cdm seeds

func c04CdmSeeds(tier string) []*c04Seed {
	type src struct {
		name  string
		cases []*batch.Case
	}
	srcs := []src{{"stmts", genStmts()}, {"funcs", genFuncs()}, {"c05", genC05()}, {"c08", genC08()}}
	if tier == "thorough" {
		srcs = append(srcs, src{"cells", genCells(domQuick)}, src{"shapes", genShapes()}, src{"c06", genC06("quick")})
	}
	var out []*c04Seed
	for _, s := range srcs {
		seen := map[string]bool{}
		for n, cs := range s.cases {
			if seen[cs.Key] || cs.ArgSets != nil { // one seed per key: values do not matter statically
				continue
			}
			seen[cs.Key] = true
			if tier == "quick" && (s.name == "c05" || s.name == "c08") && n%4 != 0 { // the heap families repeat the same statement shapes
				continue
			}
			p, ok := faults.Prepare(batch.ProgramOf([]*batch.Case{cs}, false))
			if !ok {
				continue
			}
			name := s.name + ":" + cs.Key
			out = append(out, &c04Seed{name: name, files: map[string]string{"main.ddp": faults.Source(p)}, inj: func(st *faults.Stats) []*c04Inj {
				var injs []*c04Inj
				for _, j := range faults.Enumerate(p, st) {
					injs = append(injs, &c04Inj{class: j.Class, kind: j.Kind, detail: j.Detail, whatFn: j.What, lazy: func() (map[string]string, map[string]string) {
						prog, ctl := j.Build()
						files := map[string]string{"main.ddp": faults.Source(prog)}
						if ctl != nil {
							return files, map[string]string{"main.ddp": faults.Source(ctl)}
						}
						return files, nil
					}})
				}
				return injs
			}})
		}
	}
	return out
}

var _ = cdm.Zahl

func init() {
	checks["C04"] = check{runC04, replayC04}
	workers["c04fe"] = func([]string) {
		pool.Serve(func(q *c04BatchReq) c04BatchResp {
			var out c04BatchResp
			for i, s := range q.Srcs {
				rq := fe.Req{Op: "parse", File: "/nonexistent/c04/main.ddp", Source: []byte(s), HasSrc: true}
				if i < len(q.Files) && q.Files[i] != "" {
					rq = fe.Req{Op: "parse", File: q.Files[i]}
				}
				r := fe.Handle(&rq)
				out.R = append(out.R, c04Mini1(&r))
				if q.Full {
					r.Stack = ""
					out.Full = append(out.Full, r)
				}
			}
			return out
		})
	}
}
