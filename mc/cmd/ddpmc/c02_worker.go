package main

// C02 — a worker kind of its own: many small programs per request. One pipe round trip per program
// is dominated by scheduling latency on a loaded machine; the frontend call itself is ~0.1 ms.
// Every program goes through fe.Handle (the same call every other check uses).

import (
	"bytes"
	"fmt"
	"regexp"
	"runtime/debug"
	"strings"
	"sync"
	"time"

	"github.com/DDP-Projekt/Kompilierer/src/compiler"
	"github.com/DDP-Projekt/Kompilierer/src/compiler/llvm"
	"github.com/DDP-Projekt/Kompilierer/src/ddperror"

	"ddpmc/internal/fe"
	"ddpmc/internal/pool"
)

type c02ParseReq struct {
	Op      string   `json:"op,omitempty"` // "" = parse every source; "backend" = back end stages on Sources[0]
	File    string   `json:"file"`
	Sources []string `json:"srcs"`
	Dir     string   `json:"dir,omitempty"` // scratch directory (backend)
}

type c02ParseRes struct {
	OK      bool   `json:"ok"`
	Crashed bool   `json:"crashed,omitempty"`
	Diag    string `json:"diag,omitempty"`
}

type c02ParseResp struct {
	Res []c02ParseRes `json:"res"`
	// backend
	Stage string `json:"stage,omitempty"` // "" = compiled completely
	Msg   string `json:"msg,omitempty"`
	Log   string `json:"log,omitempty"`
	Line  int    `json:"line,omitempty"` // source line of the node a CompilerError names (0 = unknown)
}

// c02CompileOnce = the compile branch of fe.Handle (compiler.Compile exactly as cmd/kddp calls it),
// but it keeps the source line of the AST node a CompilerError names, so that a failure inside a
// batch program can be attributed to one candidate without bisection.
func c02CompileOnce(file string, src []byte, kind string, opt uint) (out []byte, stage, msg, log string, line int) {
	var buf bytes.Buffer
	otype := compiler.OutputObj
	compiler.Comments_Enabled = false
	if kind == "ir" {
		otype = compiler.OutputIR
		compiler.Comments_Enabled = true
	}
	classify := func(ce *compiler.CompilerError) {
		stage = "internal-error"
		msg = c02Norm(ce.Msg) + " @" + c02Site(string(ce.StackTrace))
		log = "Unerwarteter Fehler (CompilerError)\n" + ce.Msg + "\n" + tailStr(string(ce.StackTrace), 5000)
		if ce.Node != nil {
			line = int(ce.Node.GetRange().Start.Line)
		}
	}
	defer func() {
		if p := recover(); p != nil {
			if ce, ok := p.(*compiler.CompilerError); ok {
				classify(ce)
				return
			}
			st := string(debug.Stack())
			stage, msg, log = "internal-error", c02Norm(fmt.Sprint(p))+" @"+c02Site(st), "panic escaped compiler.Compile: "+fmt.Sprint(p)+"\n"+tailStr(st, 5000)
		}
	}()
	_, err := compiler.Compile(compiler.Options{FileName: file, Source: src, To: &buf, OutputType: otype, ErrorHandler: ddperror.EmptyHandler,
		DeleteIntermediateFiles: true, LinkInModules: false, LinkInListDefs: false, OptimizationLevel: opt})
	if err != nil {
		if ce, ok := err.(*compiler.CompilerError); ok {
			classify(ce)
			return
		}
		stage = "compile-error"
		if strings.Contains(err.Error(), "llvm") {
			stage = "llvm-rejects"
		}
		msg, log = c02Norm(err.Error()), tailStr(err.Error(), 4000)
		return
	}
	return buf.Bytes(), "", "", "", 0
}

// c02BackendInProcess: IR at -O0/-O2, LLVM's IR parser and verifier on that IR (what llvm-as does),
// object code at -O0/-O2.
func c02BackendInProcess(q *c02ParseReq) (out c02ParseResp) {
	src := []byte(q.Sources[0])
	for _, opt := range []uint{0, 2} {
		step := fmt.Sprintf("compile to ir at -O%d", opt)
		irText, stage, msg, log, line := c02CompileOnce(q.File, src, "ir", opt)
		if stage != "" {
			return c02ParseResp{Stage: stage, Msg: msg, Log: step + ": " + log, Line: line}
		}
		step = fmt.Sprintf("LLVM parser+verifier on the IR emitted at -O%d", opt)
		ctx := llvm.NewContext()
		mod, perr := llvm.ParseIRFromMemoryBuffer(llvm.NewMemoryBufferFromRangeCopy(irText), ctx)
		if perr != nil {
			ctx.Dispose()
			return c02ParseResp{Stage: "llvm-rejects", Msg: c02Norm(perr.Error()), Log: step + ": LLVM's IR parser rejects it:\n" + perr.Error() + "\n" + c02Context(perr.Error(), string(irText)), Line: c02GuessLine(perr.Error(), string(irText))}
		}
		verr := llvm.VerifyModule(mod, llvm.ReturnStatusAction)
		mod.Dispose()
		ctx.Dispose()
		if verr != nil {
			return c02ParseResp{Stage: "llvm-rejects", Msg: "verifier: " + c02Norm(verr.Error()), Log: step + ": LLVM's verifier rejects it:\n" + verr.Error(), Line: c02GuessLine(verr.Error(), string(irText))}
		}
		step = fmt.Sprintf("compile to obj at -O%d", opt)
		if _, stage, msg, log, line := c02CompileOnce(q.File, src, "obj", opt); stage != "" {
			return c02ParseResp{Stage: stage, Msg: msg, Log: step + ": " + log, Line: line}
		}
	}
	return out
}

var c02CommentRe = regexp.MustCompile(`^\s*; F [^,]*, (\d+):\d+:`)

// c02GuessLine maps an LLVM diagnostic to a source line: the diagnostic quotes the offending
// instruction; the IR (emitted with comments) names the source position of every node before its
// instructions. Only a hint for attributing a failure inside a batch program (the hint is checked).
func c02GuessLine(msg, ir string) int {
	ls := strings.Split(ir, "\n")
	for _, q := range strings.Split(msg, "\n")[1:] {
		q = strings.TrimSpace(q)
		if len(q) < 8 || strings.HasPrefix(q, "^") {
			continue
		}
		for i, l := range ls {
			if strings.TrimSpace(l) != q {
				continue
			}
			for j := i; j >= 0; j-- {
				if m := c02CommentRe.FindStringSubmatch(ls[j]); m != nil {
					n := 0
					fmt.Sscan(m[1], &n)
					return n
				}
			}
			break
		}
	}
	return 0
}

func c02Judge(resp *fe.Resp) c02ParseRes {
	if resp.Panic != "" || resp.Internal {
		return c02ParseRes{Crashed: true, Diag: resp.Panic}
	}
	d := ""
	if len(resp.Diags) > 0 {
		d = resp.Diags[0].String()
	}
	return c02ParseRes{OK: resp.Err == "" && !resp.Faulty && resp.HasModule && resp.NErrors() == 0, Diag: d}
}

func init() {
	workers["c02"] = func([]string) {
		pool.Serve(func(q *c02ParseReq) c02ParseResp {
			if q.Op == "backend" {
				return c02BackendInProcess(q)
			}
			var out c02ParseResp
			for _, s := range q.Sources {
				resp := fe.Handle(&fe.Req{Op: "parse", File: q.File, Source: []byte(s), HasSrc: true})
				out.Res = append(out.Res, c02Judge(&resp))
			}
			return out
		})
	}
}

var (
	c02PoolOnce sync.Once
	c02PoolV    *pool.Pool
)

func c02Pool() *pool.Pool {
	c02PoolOnce.Do(func() { c02PoolV = pool.New("c02", 0) })
	return c02PoolV
}

// c02ParseMany judges all sources; a worker that dies or times out on a chunk makes the chunk fall
// back to one request per program.
func c02ParseMany(srcs []string) []c02ParseRes {
	var resp c02ParseResp
	st, _ := c02Pool().Do(&c02ParseReq{File: "/nonexistent/c02/main.ddp", Sources: srcs}, &resp, 600*time.Second)
	if st == pool.OK && len(resp.Res) == len(srcs) {
		return resp.Res
	}
	out := make([]c02ParseRes, len(srcs))
	for i, s := range srcs {
		var r1 c02ParseResp
		st, log := c02Pool().Do(&c02ParseReq{File: "/nonexistent/c02/main.ddp", Sources: []string{s}}, &r1, 300*time.Second)
		if st == pool.OK && len(r1.Res) == 1 {
			out[i] = r1.Res[0]
		} else {
			out[i] = c02ParseRes{Crashed: true, Diag: st.String() + " " + tailStr(log, 200)}
		}
	}
	return out
}
