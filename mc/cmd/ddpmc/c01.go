package main

// C01 — compiled programs behave as DDP's evaluation rules prescribe (shape S).
// Families: operator cells (every operator × admissible operand types × operand forms × boundary
// values), shapes (precedence/associativity), statements, functions. Every case is evaluated by the
// reference model (cdm) and by the real compiler+runtime at several optimisation levels.

import (
	"fmt"
	"math"
	"os"
	"strings"

	"ddpmc/internal/batch"
	. "ddpmc/internal/cdm"
	"ddpmc/internal/ev"
)

type domain struct {
	Z []int64
	B []uint8
	K []float64
	C []rune
	T []string
}

var domFull = domain{
	Z: []int64{0, 1, -1, 2, 7, -8, 255, 256, 1 << 31, math.MaxInt64, math.MinInt64},
	B: []uint8{0, 1, 127, 128, 200, 255},
	K: []float64{0, 0.5, -1.5, 2, 1e10, 1e-5, 9007199254740992},
	C: []rune{'a', 'ä', '€', '😀', '\n'},
	T: []string{"", "a", "äö", "a€😀", "Hallo Welt"},
}

var domQuick = domain{
	Z: []int64{0, -1, 7, 256, math.MaxInt64, math.MinInt64},
	B: []uint8{0, 3, 200, 255},
	K: []float64{0, -1.5, 2, 1e10},
	C: []rune{'a', '€', '😀'},
	T: []string{"", "äö", "a€😀"},
}

func (d domain) values(t *Type) []Value {
	var out []Value
	switch t.K {
	case KZahl:
		for _, v := range d.Z {
			out = append(out, v)
		}
	case KByte:
		for _, v := range d.B {
			out = append(out, v)
		}
	case KKomma:
		for _, v := range d.K {
			out = append(out, v)
		}
	case KBool:
		out = []Value{true, false}
	case KChar:
		for _, v := range d.C {
			out = append(out, v)
		}
	case KText:
		for _, v := range d.T {
			out = append(out, []rune(v))
		}
	case KList:
		el := d.values(t.Elem)
		out = append(out, &ListV{T: t})
		out = append(out, &ListV{T: t, El: []Value{el[0]}})
		out = append(out, &ListV{T: t, El: []Value{el[1%len(el)]}})
		three := &ListV{T: t}
		for i := 0; i < 3; i++ {
			three.El = append(three.El, el[(i+1)%len(el)])
		}
		out = append(out, three)
		// same length, differs only in the last element
		three2 := &ListV{T: t, El: append([]Value{}, three.El...)}
		three2.El[2] = el[(3+2)%len(el)]
		if !Equal(three2, three) {
			out = append(out, three2)
		}
	case KStruct:
		out = append(out, DefaultValue(t))
		s := &StructV{T: t}
		for _, f := range t.Fields {
			vs := d.values(f.T)
			s.Fl = append(s.Fl, vs[len(vs)-1])
		}
		out = append(out, s)
	case KAny:
		out = append(out, &AnyV{T: Zahl, V: int64(7)}, &AnyV{T: Text, V: []rune("äö")}, &AnyV{T: Bool, V: true}, &AnyV{T: ListOf(Zahl), V: &ListV{T: ListOf(Zahl), El: []Value{int64(1), int64(2)}}})
	}
	return out
}

// valueExpr builds an expression (a temporary) denoting v.
func valueExpr(t *Type, v Value) Expr {
	switch x := v.(type) {
	case *ListV:
		l := &ListLit{T: t}
		for _, el := range x.El {
			l.El = append(l.El, valueExpr(t.Elem, el))
		}
		return l
	case *StructV:
		s := &StructLit{T: t}
		for i, f := range x.Fl {
			s.Args = append(s.Args, valueExpr(t.Fields[i].T, f))
		}
		return s
	case *AnyV:
		return &Cast{X: valueExpr(x.T, x.V), T: Any}
	case uint8:
		return &Cast{X: &Lit{T: Zahl, V: int64(x)}, T: Byte}
	}
	return &Lit{T: t, V: v}
}

func descValue(v Value) string {
	switch x := v.(type) {
	case []rune:
		return fmt.Sprintf("%q", string(x))
	case rune:
		return fmt.Sprintf("%q", x)
	case *ListV:
		s := "["
		for i, e := range x.El {
			if i > 0 {
				s += ","
			}
			s += descValue(e)
		}
		return s + "]"
	case *StructV:
		s := x.T.Name + "{"
		for i, e := range x.Fl {
			if i > 0 {
				s += ","
			}
			s += descValue(e)
		}
		return s + "}"
	case *AnyV:
		return "Variable(" + descValue(x.V) + ")"
	}
	return fmt.Sprint(v)
}

// operand produces the expression for one operand in the given form and the statements declaring it.
func operand(pfx string, i int, form byte, t *Type, v Value) (Expr, []Stmt) {
	if form == 'v' {
		name := fmt.Sprintf("%s_%c", pfx, 'a'+i)
		return &Var{Name: name, T: t}, []Stmt{&VarDecl{Name: name, T: t, Init: valueExpr(t, v)}}
	}
	return valueExpr(t, v), nil
}

var obsCounter int

// observe prints everything observable about expression e whose model value is v.
func observe(pfx string, e Expr, v Value) []Stmt {
	t := e.Ty()
	switch t.K {
	case KZahl, KKomma, KByte, KBool, KChar, KText:
		return batch.PrintLn(e)
	}
	obsCounter++
	name := fmt.Sprintf("%s_o%d", pfx, obsCounter)
	out := []Stmt{&VarDecl{Name: name, T: t, Init: e}}
	vr := &Var{Name: name, T: t}
	switch x := v.(type) {
	case *ListV:
		out = append(out, batch.PrintLn(&Un{Op: "laenge", X: vr, T: Zahl})...)
		for i, el := range x.El {
			out = append(out, observe(pfx, &Bin{Op: "index", L: vr, R: &Lit{T: Zahl, V: int64(i + 1)}, T: t.Elem}, el)...)
		}
	case *StructV:
		for i, f := range t.Fields {
			out = append(out, observe(pfx, &FieldOf{Name: f.Name, X: vr, T: f.T}, x.Fl[i])...)
		}
	case *AnyV:
		for _, ct := range []*Type{Zahl, Text, Bool, ListOf(Zahl), Komma} {
			out = append(out, batch.PrintLn(&TypeCheck{X: vr, Chk: ct})...)
		}
		if x.T != nil {
			out = append(out, observe(pfx, &Cast{X: vr, T: x.T}, x.V)...)
		}
	}
	return out
}

var prims = []*Type{Zahl, Komma, Byte, Bool, Char, Text}
var nums = []*Type{Zahl, Komma, Byte}
var ints = []*Type{Zahl, Byte}

var stP = &Type{K: KStruct, Name: "Punkt", Gender: "m", Fields: []Field{{"x", Zahl}, {"y", Komma}}}
var stQ = &Type{K: KStruct, Name: "Eintrag", Gender: "m", Fields: []Field{{"name", Text}, {"werte", ListOf(Zahl)}, {"b", Byte}}}

type cellGen struct {
	d     domain
	cases []*batch.Case
	n     int
}

func (g *cellGen) structsOf(ts ...*Type) []*Type {
	var out []*Type
	var walk func(t *Type)
	seen := map[string]bool{}
	walk = func(t *Type) {
		switch t.K {
		case KList:
			walk(t.Elem)
		case KStruct:
			for _, f := range t.Fields {
				walk(f.T)
			}
			if !seen[t.Name] {
				seen[t.Name] = true
				out = append(out, t)
			}
		}
	}
	for _, t := range ts {
		walk(t)
	}
	return out
}

// add builds one case: operands in the given forms, expression built by mk, result observed.
func (g *cellGen) add(key string, ts []*Type, forms string, vals []Value, mk func(ops []Expr) Expr) {
	g.n++
	pfx := fmt.Sprintf("v%d", g.n)
	var decls []Stmt
	var ops []Expr
	desc := key + " forms=" + forms + " values="
	for i := range ts {
		e, d := operand(pfx, i, forms[i], ts[i], vals[i])
		ops = append(ops, e)
		decls = append(decls, d...)
		desc += descValue(vals[i]) + " "
	}
	ex := mk(ops)
	if ex == nil {
		return
	}
	// model value (to shape the observation); unspecified / runtime error cases keep a plain print
	body := append([]Stmt{}, decls...)
	probe := &Program{Main: append(append([]Stmt{}, decls...), &VarDecl{Name: pfx + "_p", T: ex.Ty(), Init: ex})}
	val, ok := probeValue(probe, pfx+"_p")
	if ok {
		body = append(body, observe(pfx, ex, val)...)
	} else if ex.Ty().IsPrim() {
		body = append(body, batch.PrintLn(ex)...)
	} else {
		body = append(body, &VarDecl{Name: pfx + "_p", T: ex.Ty(), Init: ex})
	}
	g.cases = append(g.cases, &batch.Case{Key: key + ":" + forms, Desc: desc + "\n" + Src(ex), Structs: g.structsOf(append(append([]*Type{}, ts...), ex.Ty())...), Body: body})
}

// probeValue evaluates a program and returns the final value of a variable.
func probeValue(p *Program, name string) (Value, bool) {
	return p.FinalValue(name)
}

func formsFor(n int) []string {
	if n == 1 {
		return []string{"l", "v"}
	}
	if n == 2 {
		return []string{"ll", "lv", "vl", "vv"}
	}
	return []string{"lll", "vvv", "lvl", "vlv"}
}

func (g *cellGen) product(key string, ts []*Type, mk func(ops []Expr) Expr) {
	sets := make([][]Value, len(ts))
	for i, t := range ts {
		sets[i] = g.d.values(t)
	}
	idx := make([]int, len(ts))
	for {
		vals := make([]Value, len(ts))
		for i := range ts {
			vals[i] = sets[i][idx[i]]
		}
		for _, f := range formsFor(len(ts)) {
			g.add(key, ts, f, vals, mk)
		}
		k := 0
		for k < len(ts) {
			idx[k]++
			if idx[k] < len(sets[k]) {
				break
			}
			idx[k] = 0
			k++
		}
		if k == len(ts) {
			return
		}
	}
}

func tkey(op string, ts ...*Type) string {
	s := op + ":"
	for i, t := range ts {
		if i > 0 {
			s += ","
		}
		s += t.String()
	}
	return s
}

func genCells(d domain) []*batch.Case {
	g := &cellGen{d: d}
	// unary
	for _, t := range nums {
		rt := t
		if t.K == KByte {
			rt = Zahl
		}
		for _, op := range []string{"betrag", "neg"} {
			op, rt := op, rt
			g.product(tkey(op, t), []*Type{t}, func(o []Expr) Expr { return &Un{Op: op, X: o[0], T: rt} })
		}
	}
	g.product(tkey("nicht", Bool), []*Type{Bool}, func(o []Expr) Expr { return &Un{Op: "nicht", X: o[0], T: Bool} })
	for _, t := range ints {
		t := t
		g.product(tkey("lognicht", t), []*Type{t}, func(o []Expr) Expr { return &Un{Op: "lognicht", X: o[0], T: t} })
	}
	lenTypes := []*Type{Text}
	for _, p := range prims {
		lenTypes = append(lenTypes, ListOf(p))
	}
	lenTypes = append(lenTypes, ListOf(stP))
	for _, t := range lenTypes {
		g.product(tkey("laenge", t), []*Type{t}, func(o []Expr) Expr { return &Un{Op: "laenge", X: o[0], T: Zahl} })
	}
	// binary numeric
	for _, a := range nums {
		for _, b := range nums {
			for _, op := range []string{"plus", "minus", "mal", "durch", "hoch", "log", "wurzel"} {
				op := op
				rt := ArithType(op, a, b)
				g.product(tkey(op, a, b), []*Type{a, b}, func(o []Expr) Expr { return &Bin{Op: op, L: o[0], R: o[1], T: rt} })
			}
			for _, op := range []string{"kleiner", "kleinergleich", "groesser", "groessergleich"} {
				op := op
				g.product(tkey(op, a, b), []*Type{a, b}, func(o []Expr) Expr { return &Bin{Op: op, L: o[0], R: o[1], T: Bool} })
			}
		}
	}
	for _, a := range ints {
		for _, b := range ints {
			for _, op := range []string{"modulo", "logund", "logoder", "logxor"} {
				op := op
				rt := ArithType(op, a, b)
				g.product(tkey(op, a, b), []*Type{a, b}, func(o []Expr) Expr { return &Bin{Op: op, L: o[0], R: o[1], T: rt} })
			}
			for _, op := range []string{"shl", "shr"} {
				op, a := op, a
				g.productShift(tkey(op, a, b), a, b, op)
			}
		}
	}
	for _, op := range []string{"und", "oder", "xor"} {
		op := op
		g.product(tkey(op, Bool, Bool), []*Type{Bool, Bool}, func(o []Expr) Expr { return &Bin{Op: op, L: o[0], R: o[1], T: Bool} })
	}
	// equality on every type
	eqTypes := append([]*Type{}, prims...)
	for _, p := range prims {
		eqTypes = append(eqTypes, ListOf(p))
	}
	eqTypes = append(eqTypes, stP, stQ, ListOf(stP), Any, ListOf(Any))
	for _, t := range eqTypes {
		for _, op := range []string{"gleich", "ungleich"} {
			op := op
			g.product(tkey(op, t, t), []*Type{t, t}, func(o []Expr) Expr { return &Bin{Op: op, L: o[0], R: o[1], T: Bool} })
		}
	}
	// concatenation
	for _, p := range [][2]*Type{{Text, Text}, {Text, Char}, {Char, Text}} {
		g.product(tkey("verkettet", p[0], p[1]), []*Type{p[0], p[1]}, func(o []Expr) Expr { return &Bin{Op: "verkettet", L: o[0], R: o[1], T: Text} })
	}
	elemTypes := append(append([]*Type{}, prims...), stQ)
	for _, e := range elemTypes {
		l := ListOf(e)
		for _, p := range [][2]*Type{{l, l}, {l, e}, {e, l}, {e, e}} {
			if p[0].K != KList && p[1].K != KList && e.K == KText {
				continue // Text·Text is text concatenation
			}
			g.product(tkey("verkettet", p[0], p[1]), []*Type{p[0], p[1]}, func(o []Expr) Expr { return &Bin{Op: "verkettet", L: o[0], R: o[1], T: l} })
		}
	}
	// indexing and slicing with in-domain indices (out-of-domain: C06)
	contTypes := []*Type{Text}
	for _, e := range elemTypes {
		contTypes = append(contTypes, ListOf(e))
	}
	for _, ct := range contTypes {
		for _, it := range ints {
			g.productIndex(ct, it)
		}
	}
	// zwischen
	for _, a := range nums {
		for _, b := range nums {
			for _, c := range nums {
				g.product(tkey("zwischen", a, b, c), []*Type{a, b, c}, func(o []Expr) Expr { return &Ter{Op: "zwischen", A: o[0], B: o[1], C: o[2], T: Bool} })
			}
		}
	}
	// falls
	for _, t := range eqTypes {
		t := t
		g.product(tkey("falls", t, Bool, t), []*Type{t, Bool, t}, func(o []Expr) Expr { return &Ter{Op: "falls", A: o[0], B: o[1], C: o[2], T: t} })
	}
	// casts
	castTable := map[Kind][]*Type{
		KZahl: prims, KKomma: {Text, Zahl, Komma, Byte}, KByte: {Zahl, Komma, Byte}, KBool: {Zahl, Bool, Byte},
		KChar: {Zahl, Char, Byte}, KText: prims,
	}
	for _, to := range prims {
		for _, from := range castTable[to.K] {
			to := to
			g.productCast(from, to)
		}
	}
	for _, e := range elemTypes {
		l := ListOf(e)
		g.product(tkey("als", e, l), []*Type{e}, func(o []Expr) Expr { return &Cast{X: o[0], T: l} })
	}
	for _, t := range eqTypes {
		t := t
		if t.K == KAny {
			continue
		}
		// T -> Variable -> T round trip and a failing unwrap is C06's business
		g.product(tkey("als", t, Any, t), []*Type{t}, func(o []Expr) Expr { return &Cast{X: &Cast{X: o[0], T: Any}, T: t} })
	}
	return g.cases
}

func (g *cellGen) productShift(key string, a, b *Type, op string) {
	counts := []int64{0, 1, 7}
	if a.K == KZahl {
		counts = append(counts, 8, 63)
	}
	for _, av := range g.d.values(a) {
		for _, c := range counts {
			var bv Value = c
			if b.K == KByte {
				bv = uint8(c)
			}
			for _, f := range formsFor(2) {
				g.add(key, []*Type{a, b}, f, []Value{av, bv}, func(o []Expr) Expr { return &Bin{Op: op, L: o[0], R: o[1], T: a} })
			}
		}
	}
}

func (g *cellGen) productIndex(ct, it *Type) {
	rt := Char
	if ct.K == KList {
		rt = ct.Elem
	}
	for _, cv := range g.d.values(ct) {
		n := 0
		switch x := cv.(type) {
		case []rune:
			n = len(x)
		case *ListV:
			n = len(x.El)
		}
		mkI := func(i int) Value {
			if it.K == KByte {
				return uint8(i)
			}
			return int64(i)
		}
		for i := 1; i <= n; i++ {
			for _, f := range formsFor(2) {
				g.add(tkey("index", ct, it), []*Type{ct, it}, f, []Value{cv, mkI(i)}, func(o []Expr) Expr { return &Bin{Op: "index", L: o[0], R: o[1], T: rt} })
				g.add(tkey("ab", ct, it), []*Type{ct, it}, f, []Value{cv, mkI(i)}, func(o []Expr) Expr { return &Bin{Op: "ab", L: o[0], R: o[1], T: ct} })
				g.add(tkey("bis", ct, it), []*Type{ct, it}, f, []Value{cv, mkI(i)}, func(o []Expr) Expr { return &Bin{Op: "bis", L: o[0], R: o[1], T: ct} })
			}
			for j := i; j <= n+1; j++ {
				for _, f := range []string{"lll", "vvv"} {
					g.add(tkey("slice", ct, it, it), []*Type{ct, it, it}, f, []Value{cv, mkI(i), mkI(j)}, func(o []Expr) Expr { return &Ter{Op: "slice", A: o[0], B: o[1], C: o[2], T: ct} })
				}
			}
		}
		// clamping on both sides and the empty container
		for _, f := range []string{"lll", "vvv"} {
			g.add(tkey("slice", ct, it, it), []*Type{ct, it, it}, f, []Value{cv, mkI(0), mkI(n + 3)}, func(o []Expr) Expr { return &Ter{Op: "slice", A: o[0], B: o[1], C: o[2], T: ct} })
		}
	}
}

func (g *cellGen) productCast(from, to *Type) {
	vals := g.d.values(from)
	if from.K == KText && (to.K == KZahl || to.K == KKomma) {
		vals = nil
		for _, s := range []string{"0", "42", "-17", "9223372036854775807", "3,25", "-0,5", "abc", ""} {
			vals = append(vals, []rune(s))
		}
	}
	for _, v := range vals {
		for _, f := range formsFor(1) {
			g.add(tkey("als", from, to), []*Type{from}, f, []Value{v}, func(o []Expr) Expr { return &Cast{X: o[0], T: to} })
		}
	}
}

func runC01(tier string) int {
	c := ev.New("C01", tier)
	c.Budget(map[string]int{"quick": 420, "thorough": 3000}[tier])
	d, levels := domQuick, []uint{1, 2}
	if tier == "thorough" {
		d, levels = domFull, []uint{0, 1, 2}
	}
	fams := []struct {
		name  string
		cases []*batch.Case
	}{{"shape", genShapes()}, {"stmt", genStmts()}, {"func", genFuncs()}, {"effect", genEffects()}, {"cell", genCells(d)}}
	var total batch.Stats
	distinct := map[string]bool{}
	for _, f := range fams {
		cases := f.cases
		if flt := os.Getenv("VERIF_ONLY"); flt != "" { // development aid: restrict to keys containing flt (the run is then not exhaustive)
			var sel []*batch.Case
			for _, cs := range cases {
				if strings.Contains(f.name+":"+cs.Key, flt) {
					sel = append(sel, cs)
				}
			}
			cases = sel
			c.Capped("VERIF_ONLY=" + flt)
		}
		st := batch.Run(c, cases, batch.Opts{Prop: "C01", Family: f.name, Levels: levels, BatchSize: 40})
		c.Set("family_"+f.name, st)
		total.Cases += st.Cases
		total.Unspecified += st.Unspecified
		total.Solo += st.Solo
		total.Programs += st.Programs
		total.Builds += st.Builds
		total.Runs += st.Runs
		total.Failed += st.Failed
		for _, cs := range cases {
			distinct[f.name+":"+cs.Key] = true
		}
		if len(cases) > 0 {
			c.Sample(map[string]any{"family": f.name, "case": cases[len(cases)/3].Desc, "source": (&Program{Main: cases[len(cases)/3].Body}).Source()})
		}
	}
	c.Set("evaluations", total.Cases)
	c.Set("states", total.Cases-total.Unspecified)
	c.Set("transitions", total.Runs)
	c.Set("traces_validated_against_impl", total.Runs)
	c.Set("distinct_nontrivial", len(distinct))
	c.Set("programs", total.Programs)
	c.Set("rule", "case = one cdm program fragment (operator cell × operand forms × boundary values …); states = cases with a specified reference outcome, transitions = executions of compiled programs compared with the reference evaluation; distinct_nontrivial = distinct (operator, operand types, forms) cells")
	c.Set("bounds", map[string]any{"domain": d, "opt_levels": levels})
	c.Assume("reference semantics = mc/internal/cdm (DESIGN §3): Zahl/Byte wrap modulo 2^64/2^8, Zahl→Byte keeps low 8 bits, mixed Zahl/Byte arithmetic yields Zahl",
		"unspecified behaviour (shift counts out of range, modulo 0, out-of-range float→int …) is excluded and counted", "libc printf/pow/log10 shared by both sides")
	return c.Finish()
}

func replayC01(dir string) int {
	ok, msg := batch.ReplayDir(dir)
	if !ok {
		fmt.Printf("VIOLATION property=C01 replay=%s\n  %s\n", dir, msg)
		return 1
	}
	fmt.Println("C01 replay:", msg)
	return 0
}

func init() {
	checks["C01"] = check{runC01, replayC01}
	_ = os.Getenv
}
