package main

// C09 — second observation point: executables. Several populations (made disjoint by giving each
// its own words fooqK/barqK) are merged into one program in which every body prints its name and
// its arguments in declaration order; every complete, well-typed call site of every population is
// executed as `Schreibe (<call>) auf eine Zeile.` (functions; prints the result, so that the
// negation of negated aliases is visible) or as the initialiser of a struct variable whose fields
// are printed. The same program is also parsed by the c09 worker and judged at AST level.

import (
	"encoding/json"
	"fmt"
	"os"
	"path/filepath"
	"sort"
	"strings"

	am "ddpmc/internal/callmodel"
	"ddpmc/internal/par"
	"ddpmc/internal/rx"
)

var c09UnitValue = []string{"", "", "", "1", "-1", "5", "tt", "7", "s", "2"}

type c09E2ECase struct {
	W      int      `json:"w"` // index of the population in the group
	Seq    []int    `json:"seq"`
	Marker int      `json:"marker"`
	Line   uint     `json:"line"`
	Col    uint     `json:"col"`
	Alts   []string `json:"alts"` // admissible outputs
	Site   string   `json:"site"`
	Pop    string   `json:"pop"`
}

type c09E2EGroup struct {
	worlds []*c09World
	main   string
	mod    string
	from   uint
	cases  []c09E2ECase
}

func c09MaxPat(w *c09World) int {
	m := 0
	for _, a := range w.aliases {
		if len(a.Pattern) > m {
			m = len(a.Pattern)
		}
	}
	return m
}

// c09E2EBuild composes the merged program of a group of populations.
func c09E2EBuild(pops []c09Pop) *c09E2EGroup {
	g := &c09E2EGroup{}
	var sb, mb strings.Builder
	sb.WriteString("Binde \"Duden/Ausgabe\" ein.\n")
	mb.WriteString("Binde \"Duden/Ausgabe\" ein.\n")
	anyImp := false
	for k, p := range pops {
		w := c09Build(p, fmt.Sprintf("q%d", k+1))
		g.worlds = append(g.worlds, w)
		for _, e := range p {
			if e.imported {
				anyImp = true
			}
		}
	}
	if anyImp {
		sb.WriteString("Binde \"m\" ein.\n")
	}
	sb.WriteString("Die Zahl x ist 5.\nDer Text t ist \"tt\".\n")
	for _, w := range g.worlds {
		for i, e := range w.pop {
			if e.imported {
				mb.WriteString(w.declText(i, true))
			} else {
				sb.WriteString(w.declText(i, true))
			}
		}
	}
	if anyImp {
		g.mod = mb.String()
	}
	g.from = uint(strings.Count(sb.String(), "\n") + 1)
	line := g.from
	marker := 0
	for wi, w := range g.worlds {
		us := w.units()
		maxLen := c09MaxPat(w)
		for _, seq := range c09Sites(maxLen, 0, false) {
			units := make([]am.Unit, len(seq))
			for i, k := range seq {
				units[i] = us[k].Unit
			}
			v := am.Resolve(w.aliases, units)
			if v.Unspecified != "" || len(v.Admissible) == 0 {
				continue
			}
			ok, strukt := true, v.Admissible[0].Alias.Decl.Struct
			var alts []string
			for _, c := range v.Admissible {
				if len(c.Alias.Pattern) != len(seq) || c.Alias.Decl.Struct != strukt {
					ok = false
				}
				d := c.Alias.Decl
				var vals []string
				for _, p := range d.Params {
					if idx, bound := c.Binding[p.Name]; bound {
						vals = append(vals, c09UnitValue[seq[idx]])
					} else if p.Type == "Zahl" {
						vals = append(vals, "0")
					} else {
						vals = append(vals, "")
					}
				}
				out := d.Name + "(" + strings.Join(vals, ",") + ")\n"
				if !strukt {
					if c.Alias.Negated {
						out += "falsch\n"
					} else {
						out += "wahr\n"
					}
				}
				alts = append(alts, out)
			}
			if !ok {
				continue
			}
			marker++
			call := c09SiteText(us, seq)
			fmt.Fprintf(&sb, "Schreibe \"#%d\" auf eine Zeile.\n", marker)
			line++
			cs := c09E2ECase{W: wi, Seq: seq, Marker: marker, Line: line, Alts: alts, Site: call, Pop: w.pop.id()}
			if strukt {
				d := v.Admissible[0].Alias.Decl
				pre := fmt.Sprintf("Der %s p%d ist ", d.Name, marker)
				cs.Col = uint(len(pre) + 1)
				sb.WriteString(pre + call + ".\n")
				fmt.Fprintf(&sb, "Schreibe \"%s(\".\n", d.Name)
				for i, p := range d.Params {
					if i > 0 {
						sb.WriteString("Schreibe \",\".\n")
					}
					fmt.Fprintf(&sb, "Schreibe (%s von p%d).\n", p.Name, marker)
				}
				sb.WriteString("Schreibe \")\" auf eine Zeile.\n")
				line += uint(2 + 2*len(d.Params) - 1 + 1)
			} else {
				t, col := c09Stmt_(formNested, marker, call)
				cs.Col = col
				sb.WriteString(t)
				line++
			}
			g.cases = append(g.cases, cs)
		}
	}
	g.main = sb.String()
	return g
}

func c09SplitMarkers(out string) map[int]string {
	res := map[int]string{}
	cur := -1
	for _, l := range strings.SplitAfter(out, "\n") {
		var n int
		if strings.HasPrefix(l, "#") {
			if _, err := fmt.Sscanf(strings.TrimSpace(l), "#%d", &n); err == nil {
				cur = n
				res[cur] = ""
				continue
			}
		}
		if cur >= 0 {
			res[cur] += l
		}
	}
	return res
}

func c09E2EKind(cs c09E2ECase, got string) string {
	name := func(s string) string {
		if i := strings.Index(s, "("); i >= 0 {
			return s[:i]
		}
		return s
	}
	first := func(s string) string { return strings.SplitN(s, "\n", 2)[0] }
	for _, a := range cs.Alts {
		if name(a) == name(got) {
			if first(a) == first(got) {
				return "missing-negation"
			}
			return "wrong-binding"
		}
	}
	return "wrong-callee"
}

func c09E2E(r *c09Run, pops []*c09World, tier string) {
	c := r.c
	const groupSize = 16
	var groups [][]c09Pop
	for i := 0; i < len(pops); i += groupSize {
		j := i + groupSize
		if j > len(pops) {
			j = len(pops)
		}
		var g []c09Pop
		for _, w := range pops[i:j] {
			g = append(g, w.pop)
		}
		groups = append(groups, g)
	}
	var done int64
	par.Each(groups, 0, func(gi int, gp []c09Pop) {
		if c.Expired() {
			return
		}
		g := c09E2EBuild(gp)
		if len(g.cases) == 0 {
			c.Add("e2e_populations", int64(len(gp)))
			return
		}
		dir := filepath.Join(r.scratch, fmt.Sprintf("e2e%d", gi))
		files := map[string]string{"main.ddp": g.main}
		if g.mod != "" {
			files["m.ddp"] = g.mod
		}
		rx.WriteFiles(dir, files)
		report := func(cs c09E2ECase, kind, what string, extra map[string]string) {
			fs := map[string]string{"main.ddp": g.main, "expected.txt": strings.Join(cs.Alts, "--- or ---\n"), "observed.txt": what + "\n"}
			if g.mod != "" {
				fs["m.ddp"] = g.mod
			}
			for k, v := range extra {
				fs[k] = v
			}
			w := g.worlds[cs.W]
			units := make([]am.Unit, len(cs.Seq))
			for i, k := range cs.Seq {
				units[i] = w.units()[k].Unit
			}
			fs["model_verdict.txt"] = "call tokens: " + cs.Site + " (line " + fmt.Sprint(cs.Line) + ")\n" + am.Resolve(w.aliases, units).Describe(units)
			cj, _ := json.Marshal(cs)
			fs["e2ecase.json"] = string(cj)
			pj, _ := json.Marshal(popsJSON(gp))
			fs["e2epops.json"] = string(pj)
			plain := strings.ReplaceAll(strings.ReplaceAll(cs.Site, fmt.Sprintf("fooq%d", cs.W+1), "foo"), fmt.Sprintf("barq%d", cs.W+1), "bar")
			c.Violation(fmt.Sprintf("C09:%s:%s:%s:e2e", kind, cs.Pop, plain), fmt.Sprintf("population %s (words suffixed q%d), call `%s`: %s", cs.Pop, cs.W+1, cs.Site, what), fs)
			r.mu.Lock()
			r.kinds[kind]++
			r.mu.Unlock()
		}
		// (1) AST level on the very same program
		main := filepath.Join(dir, "main.ddp")
		resp, err := c09Do(&c09Req{File: main, Header: g.main, Tails: []string{""}, FromLine: g.from})
		if err != nil {
			c.Broken("e2e group " + fmt.Sprint(gi) + ": " + err.Error())
			return
		}
		o := &resp.Out[0]
		l := c09Split(o, g.from, main)
		if o.Panic != "" || len(l.head) > 0 {
			c.Broken(fmt.Sprintf("e2e group %d: declarations rejected: %s %v", gi, o.Panic, l.head))
			return
		}
		var union []*am.Alias
		for _, w := range g.worlds {
			union = append(union, w.aliases...)
		}
		astBad := map[int]bool{}
		for _, cs := range g.cases {
			w := *g.worlds[cs.W]
			w.aliases = union
			j := c09Judge(&w, w.units(), c09Case{seq: cs.Seq, form: formNested, line: cs.Line, col: cs.Col}, l.stmts[cs.Line], l.nerr[cs.Line], l.first[cs.Line])
			if j.kind != "" {
				// confirm twice more
				same := true
				for k := 0; k < 2 && same; k++ {
					resp2, err2 := c09Do(&c09Req{File: main, Header: g.main, Tails: []string{""}, FromLine: g.from})
					if err2 != nil {
						same = false
						break
					}
					l2 := c09Split(&resp2.Out[0], g.from, main)
					j2 := c09Judge(&w, w.units(), c09Case{seq: cs.Seq, form: formNested, line: cs.Line, col: cs.Col}, l2.stmts[cs.Line], l2.nerr[cs.Line], l2.first[cs.Line])
					same = j2.kind == j.kind && j2.what == j.what
				}
				if same {
					astBad[cs.Marker] = true
					report(cs, j.kind, "AST level: "+j.what, nil)
				} else {
					c.Add("unstable_not_reported", 1)
				}
			}
		}
		c.Add("e2e_ast_call_sites", int64(len(g.cases)))
		// (2) compile, link, run
		b := rx.Build(dir, "main.ddp", rx.BuildOpts{Opt: 1})
		if !b.OK {
			if b.Stage == "frontend" && len(astBad) > 0 {
				c.Add("e2e_groups_rejected_after_ast_finding", 1)
				return
			}
			if b.Stage == "frontend" {
				// a complete well-typed call was rejected by the compiler although the parse above accepted it
				c.Broken(fmt.Sprintf("e2e group %d: compile failed (%s): %s", gi, b.Stage, lastLines(b.Log, 3)))
				return
			}
			c.Broken(fmt.Sprintf("e2e group %d: build failed at %s: %s", gi, b.Stage, lastLines(b.Log, 3)))
			return
		}
		run := rx.RunRobust(b.Exe, rx.RunOpts{})
		if run.Class() != "ok" {
			// could be infrastructure; try once more before deciding
			run = rx.RunRobust(b.Exe, rx.RunOpts{})
		}
		if run.Class() != "ok" {
			c.Broken(fmt.Sprintf("e2e group %d: program ended with %s: %s", gi, run.Class(), lastLines(run.Stderr, 3)))
			return
		}
		got := c09SplitMarkers(run.Stdout)
		for _, cs := range g.cases {
			okOut := false
			for _, a := range cs.Alts {
				if got[cs.Marker] == a {
					okOut = true
				}
			}
			if okOut || astBad[cs.Marker] {
				continue
			}
			// re-execute twice: must be identical
			stable := true
			for k := 0; k < 2; k++ {
				r2 := rx.RunRobust(b.Exe, rx.RunOpts{})
				if r2.Stdout != run.Stdout {
					stable = false
				}
			}
			if !stable {
				c.Add("unstable_not_reported", 1)
				continue
			}
			report(cs, c09E2EKind(cs, got[cs.Marker]), fmt.Sprintf("run time: the program printed %q, admissible: %q", got[cs.Marker], cs.Alts), map[string]string{"stdout.txt": run.Stdout})
		}
		c.Add("e2e_call_sites", int64(len(g.cases)))
		c.Add("e2e_populations", int64(len(gp)))
		c.Add("e2e_executables", 1)
		os.RemoveAll(dir)
		r.mu.Lock()
		done++
		r.mu.Unlock()
	})
	if int(done) < len(groups) && c.Expired() {
		c.Capped(fmt.Sprintf("end-to-end: %d of %d executables", done, len(groups)))
	}
	c.Set("e2e_group_size", groupSize)
}

func popsJSON(ps []c09Pop) [][]c09EntryJSON {
	var out [][]c09EntryJSON
	for _, p := range ps {
		out = append(out, p.toJSON())
	}
	return out
}

// c09ReplayE2E rebuilds and runs the merged program of a replay directory and checks one marker.
func c09ReplayE2E(dir string) int {
	var cs c09E2ECase
	var pj [][]c09EntryJSON
	b1, e1 := os.ReadFile(filepath.Join(dir, "e2ecase.json"))
	b2, e2 := os.ReadFile(filepath.Join(dir, "e2epops.json"))
	if e1 != nil || e2 != nil || json.Unmarshal(b1, &cs) != nil || json.Unmarshal(b2, &pj) != nil {
		fmt.Println("unreadable e2e case")
		return 2
	}
	var pops []c09Pop
	for _, p := range pj {
		pops = append(pops, c09PopFromJSON(p))
	}
	g := c09E2EBuild(pops)
	scratch := rx.Scratch("c09r")
	defer os.RemoveAll(scratch)
	defer c09Pool_().Close()
	files := map[string]string{"main.ddp": g.main}
	if g.mod != "" {
		files["m.ddp"] = g.mod
	}
	rx.WriteFiles(scratch, files)
	main := filepath.Join(scratch, "main.ddp")
	bad := false
	resp, err := c09Do(&c09Req{File: main, Header: g.main, Tails: []string{""}, FromLine: g.from})
	if err != nil {
		fmt.Println("infrastructure:", err)
		return 2
	}
	l := c09Split(&resp.Out[0], g.from, main)
	var union []*am.Alias
	for _, w := range g.worlds {
		union = append(union, w.aliases...)
	}
	w := *g.worlds[cs.W]
	w.aliases = union
	units := make([]am.Unit, len(cs.Seq))
	for i, k := range cs.Seq {
		units[i] = w.units()[k].Unit
	}
	fmt.Printf("call `%s` at line %d col %d\n%s", cs.Site, cs.Line, cs.Col, am.Resolve(w.aliases, units).Describe(units))
	j := c09Judge(&w, w.units(), c09Case{seq: cs.Seq, form: formNested, line: cs.Line, col: cs.Col}, l.stmts[cs.Line], l.nerr[cs.Line], l.first[cs.Line])
	for _, s := range l.stmts[cs.Line] {
		fmt.Println("observed (AST):", c09Render(s.E))
	}
	if j.kind != "" {
		fmt.Printf("VIOLATION property=C09 replay=%s\n  %s: AST level: %s\n", dir, j.kind, j.what)
		bad = true
	}
	b := rx.Build(scratch, "main.ddp", rx.BuildOpts{Opt: 1})
	if !b.OK {
		fmt.Println("build failed at", b.Stage, lastLines(b.Log, 5))
		if bad {
			return 1
		}
		return 2
	}
	run := rx.RunRobust(b.Exe, rx.RunOpts{})
	got := c09SplitMarkers(run.Stdout)[cs.Marker]
	sort.Strings(cs.Alts)
	fmt.Printf("observed (run time): %q\nadmissible: %q\n", got, cs.Alts)
	ok := false
	for _, a := range cs.Alts {
		if a == got {
			ok = true
		}
	}
	if !ok {
		fmt.Printf("VIOLATION property=C09 replay=%s\n  %s: run time output differs\n", dir, c09E2EKind(cs, got))
		bad = true
	}
	if bad {
		return 1
	}
	fmt.Println("C09 replay: property holds on this case")
	return 0
}
