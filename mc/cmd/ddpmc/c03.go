package main

// C03 — the frontend is total: no input crashes or hangs it.
// Shape S: the bounded spaces of internal/frontspace (token sequences, single-edit corpus mutants,
// byte strings, import arrangements) are enumerated completely; every case is parsed by the REAL
// parser.Parse in a sacrificial worker. Oracle: Parse returns (module or error value) - no panic
// escapes, no *ParserError handed back (= recovered crash), the worker does not die (stack overflow,
// fatal error, OOM under its ulimit) and finishes within max(30 s, 2000 x median).
// Findings are keyed by kind and crash site: C03:<kind>@<file>:<function>.

import (
	"fmt"
	"os"
	"runtime/debug"
	"strings"
	"sync/atomic"

	fs "ddpmc/internal/frontspace"
	"ddpmc/internal/pool"
)

func c03Key(o *fs.Outcome) string {
	if o.Kind == "" {
		return ""
	}
	return "C03:" + o.Kind + "@" + o.Site
}

func c03What(o *fs.Outcome) string {
	var sb strings.Builder
	switch o.Kind {
	case "panic":
		fmt.Fprintf(&sb, "a panic escaped parser.Parse: %s\n", c03Lines(o.Resp.Panic, 3))
		sb.WriteString(stackExcerpt(o.Resp.Stack))
	case "internal-error":
		fmt.Fprintf(&sb, "parser.Parse recovered a crash and returned it as *ParserError: %s\n", c03Lines(o.Resp.Err, 3))
		sb.WriteString(stackExcerpt(o.Resp.Err))
	case "died":
		fmt.Fprintf(&sb, "the worker process died while parsing (unrecoverable: stack overflow / fatal error / out of memory)\n%s", logExcerpt(o.Log))
	case "hang":
		fmt.Fprintf(&sb, "parser.Parse did not return within the deadline on %d attempts (fresh worker each)\n", o.Timeouts)
	}
	return sb.String()
}

func c03Lines(s string, n int) string {
	l := strings.SplitN(s, "\n", n+1)
	if len(l) > n {
		l = l[:n]
	}
	return strings.Join(l, " | ")
}

// stackExcerpt keeps the repository frames near the crash.
func stackExcerpt(st string) string {
	lines := strings.Split(st, "\n")
	var out []string
	for i := 0; i < len(lines) && len(out) < 16; i++ {
		if strings.HasPrefix(lines[i], "github.com/DDP-Projekt/Kompilierer/") && !strings.Contains(lines[i], "panic_wrapper") {
			out = append(out, "  "+lines[i])
			if i+1 < len(lines) {
				out = append(out, "  "+strings.TrimSpace(lines[i+1]))
			}
		}
	}
	return strings.Join(out, "\n")
}

func logExcerpt(log string) string {
	i := strings.Index(log, "fatal error")
	if j := strings.Index(log, "runtime: goroutine stack exceeds"); j >= 0 && (i < 0 || j < i) {
		i = j
	}
	if i < 0 {
		i = 0
	}
	s := log[i:]
	head := c03Lines(s, 3)
	return "  " + head + "\n" + stackExcerpt(s)
}

func c03Keys(cs *fs.Case, o *fs.Outcome) map[string]string {
	if k := c03Key(o); k != "" {
		return map[string]string{k: c03What(o)}
	}
	return nil
}

func runC03(tier string) int {
	r, ok := newFrontRun("C03", tier, map[string]int{"quick": 600, "thorough": 2400})
	defer r.close()
	if !ok {
		return r.c.Finish()
	}
	var crashes, retried int64
	r.explore(func(cs *fs.Case, o *fs.Outcome) {
		if cs.Space == "corpus_unmodified" && os.Getenv("VERIF_DEBUG") == "cost" {
			fmt.Fprintf(os.Stderr, "COST %s %d %d\n", cs.Note, len(cs.Source), o.Dur.Microseconds())
		}
		if o.Timeouts > 0 && o.Kind != "hang" {
			atomic.AddInt64(&retried, 1)
		}
		if k := c03Key(o); k != "" {
			atomic.AddInt64(&crashes, 1)
			r.note(k, c03What(o), cs)
		}
	})
	r.report(c03Keys)
	r.c.Set("crashing_cases", crashes)
	r.c.Set("timeouts_that_passed_on_retry", retried)
	r.c.Sample(map[string]any{"space": "token sequences", "example": fs.Prelude + "Wenn x , Der Alias"})
	r.c.Sample(map[string]any{"space": "corpus edits", "example": "golden/if/if.ddp: delete token 17"})
	r.c.Sample(map[string]any{"space": "import arrangements", "example": "A: Binde \"B\" ein. / B: Binde xA aus \"A\" ein. Binde alle Module aus \"K\" ein."})
	r.c.Assume("a case is executed by parser.Parse exactly as cmd/kddp and the language server call it (file name + source + error handler), one worker process per 1 case at a time, address space limited to 4 GB",
		"bounded time is decided by a wall clock: deadline = max(30 s, 2000 x median case time), three attempts on fresh workers")
	return r.finish("every case is parsed by the real parser.Parse in a sacrificial worker; states = cases executed, transitions = diagnostics delivered (error-recovery steps observed), distinct_nontrivial = distinct behaviour signatures (set of diagnostic codes x faulty x module/error x crash site)")
}

func replayC03(dir string) int {
	if k := os.Getenv("VERIF_MINIMIZE"); k != "" {
		return minimizeReplay(dir, k, c03Keys)
	}
	cs, cleanup, err := fs.LoadReplay(dir)
	if err != nil {
		fmt.Println(err)
		return 2
	}
	defer cleanup()
	x := fs.NewExecutor()
	o := x.Exec(cs)
	printOutcome(cs, o)
	if k := c03Key(o); k != "" {
		fmt.Printf("VIOLATION property=C03 replay=%s\n  key=%s\n  %s\n", dir, k, strings.ReplaceAll(c03What(o), "\n", "\n  "))
		return 1
	}
	fmt.Println("C03 replay: property holds on this input")
	return 0
}

func printOutcome(cs *fs.Case, o *fs.Outcome) {
	fmt.Printf("case %s #%s main=%s (%d bytes) status=%v module=%v faulty=%v err=%q\n", cs.Space, cs.ID, cs.MainRel, len(cs.Source), o.Status, o.Resp.HasModule, o.Resp.Faulty, c03Lines(o.Resp.Err, 1))
	for i, d := range o.Resp.Diags {
		if i >= 20 {
			fmt.Printf("  ... %d more diagnostics\n", len(o.Resp.Diags)-i)
			break
		}
		fmt.Println("  " + d.String())
	}
	if o.Resp.RenderErr != "" {
		fmt.Println("  render:", o.Resp.RenderErr)
	}
}

func init() {
	checks["C03"] = check{runC03, replayC03}
}

func init() {
	workers["febatch"] = func([]string) {
		// die early on runaway recursion (Go's default limit is 1 GB; growing to it takes tens of
		// seconds on a loaded machine). No input of the spaces (< 100 KB) legitimately needs 64 MB.
		debug.SetMaxStack(64 << 20)
		pool.Serve(func(q *fs.BatchReq) fs.BatchResp { return fs.BatchHandle(q) })
	}
}
