package main

// C20 level 4 — the parser. Small DDP programs declare 2..4 functions whose aliases collide or nearly
// collide, in every order (all sequences over a pool of alias specifications, with repetition), in
// several layouts (declared in the main file, imported one by one from their own modules, mixed, all
// from one module), followed by one call per accepted alias. The real frontend (fe worker pool) parses
// every program; the oracle is the property itself:
//   * a declaration whose (pattern, parameter types) equal an alias already in scope must be answered
//     by an "alias already exists" error at that declaration,
//   * no other declaration may be rejected as a duplicate,
//   * every accepted alias must be callable (no error at its call, no crash).

import (
	"encoding/json"
	"fmt"
	"os"
	"path/filepath"
	"sort"
	"strings"
	"sync"
	"sync/atomic"
	"time"

	"ddpmc/internal/ev"
	"ddpmc/internal/fe"
	"ddpmc/internal/par"
	"ddpmc/internal/pool"
	"ddpmc/internal/rx"

	"github.com/DDP-Projekt/Kompilierer/src/ddperror"
)

type c20PStats struct{ states, transitions, obs, traces, distinct int64 }

// ---- types ---------------------------------------------------------------------------------------

type c20Type struct {
	id       string
	spell    string // as written after "vom Typ"
	class    int    // identity of the parameter type (type aliases share the class of the aliased type)
	print    string // what the printed parameter type shows
	mod      string // module that declares the type name ("" = built in)
	typeName string
	arg      string // argument expression at the call site
	argMod   string // module the argument variable is imported from ("" = literal or declared in main)
	fieldArt string // dative article of a field of this type ("" = not used as a field)
	fieldDef string // default value of such a field
}

var c20Types = map[string]*c20Type{
	"Zahl":       {id: "Zahl", spell: "Zahl", class: 1, print: "Zahl", arg: "1", fieldArt: "der", fieldDef: "0"},
	"Hausnummer": {id: "Hausnummer", spell: "Hausnummer", class: 1, print: "Zahl", mod: "tc", typeName: "Hausnummer", arg: "1"},
	"ZahlRef":    {id: "ZahlRef", spell: "Zahlen Referenz", class: 1001, print: "Zahl Referenz", arg: "z"},
	"Text":       {id: "Text", spell: "Text", class: 2, print: "Text", arg: "\"x\"", fieldArt: "dem", fieldDef: "\"\""},
	"Buchstabe":  {id: "Buchstabe", spell: "Buchstabe", class: 3, print: "Buchstabe", arg: "'c'"},
	"ZahlL":      {id: "ZahlL", spell: "Zahlen Liste", class: 4, print: "Zahlen Liste", arg: "zl"},
	"Nummer":     {id: "Nummer", spell: "Nummer", class: 6, print: "Nummer", mod: "tc", typeName: "Nummer", arg: "vn", argMod: "tc"},
	"Paar1":      {id: "Paar1", spell: "Paar", class: 8, print: "Paar", mod: "tp1", typeName: "Paar", arg: "vp1", argMod: "tp1", fieldArt: "dem", fieldDef: "ein Paar eins"},
	"Paar2":      {id: "Paar2", spell: "Paar", class: 9, print: "Paar", mod: "tp2", typeName: "Paar", arg: "vp2", argMod: "tp2", fieldArt: "dem", fieldDef: "ein Paar zwei"},
	"PaarDef":    {id: "PaarDef", spell: "Paar", class: 10, print: "Paar", mod: "tp3", typeName: "Paar", arg: "vp3", argMod: "tp3"},
	"Paar1L":     {id: "Paar1L", spell: "Paar Liste", class: 11, print: "Paar Liste", mod: "tp1", typeName: "Paar", arg: "vpl1", argMod: "tp1"},
	"Paar2L":     {id: "Paar2L", spell: "Paar Liste", class: 12, print: "Paar Liste", mod: "tp2", typeName: "Paar", arg: "vpl2", argMod: "tp2"},
}

// the modules that declare the types; two different Kombinationen and a type definition are all called "Paar"
var c20TypeModules = map[string]string{
	"tc.ddp": "Wir nennen eine Zahl öffentlich auch eine Hausnummer.\n" +
		"Wir definieren eine Nummer öffentlich als eine Zahl.\n" +
		"Die öffentliche Nummer vn ist 1 als Nummer.\n",
	"tp1.ddp": "Wir nennen die öffentliche Kombination aus\n\tder öffentlichen Zahl x mit Standardwert 0,\neinen Paar, und erstellen sie so:\n\t\"ein Paar eins\"\n\n" +
		"Der öffentliche Paar vp1 ist ein Paar eins.\nDie öffentliche Paar Liste vpl1 ist eine leere Paar Liste.\n",
	"tp2.ddp": "Wir nennen die öffentliche Kombination aus\n\tdem öffentlichen Text y mit Standardwert \"\",\neinen Paar, und erstellen sie so:\n\t\"ein Paar zwei\"\n\n" +
		"Der öffentliche Paar vp2 ist ein Paar zwei.\nDie öffentliche Paar Liste vpl2 ist eine leere Paar Liste.\n",
	"tp3.ddp": "Wir definieren einen Paar öffentlich als eine Zahl.\n" +
		"Der öffentliche Paar vp3 ist 1 als Paar.\n",
}

// ---- alias specifications ------------------------------------------------------------------------

// a pattern is a list of elements: a word ("foo"/"bar") or "<>" (the next parameter)
type c20Spec struct {
	id      string
	pattern []string
	pnames  []string // parameter names, in order of occurrence
	types   []string // parameter types, in order of occurrence
	strct   bool     // the alias belongs to a Kombination (struct literal alias) instead of a function
	stmt    bool     // the alias is given by an alias statement (Der Alias "…" steht für die Funktion f.) after the function
}

func c20MkSpec(shape string, types ...string) c20Spec {
	s := c20Spec{types: types}
	switch shape {
	case "S0a":
		s.pattern = []string{"foo", "foo"}
	case "S0b":
		s.pattern = []string{"foo", "bar"}
	case "S1":
		s.pattern, s.pnames = []string{"foo", "<>"}, []string{"a"}
	case "S1b": // same pattern, other parameter name
		s.pattern, s.pnames = []string{"foo", "<>"}, []string{"b"}
	case "S2":
		s.pattern, s.pnames = []string{"foo", "<>", "bar"}, []string{"a"}
	case "S3":
		s.pattern, s.pnames = []string{"foo", "<>", "<>"}, []string{"a", "b"}
	case "A0": // like S0a, declared through an alias statement
		s.pattern, s.stmt = []string{"foo", "foo"}, true
	case "A1": // like S1, declared through an alias statement
		s.pattern, s.pnames, s.stmt = []string{"foo", "<>"}, []string{"a"}, true
	case "K1": // Kombination with one field x and the alias "foo <x>"
		s.pattern, s.pnames, s.strct = []string{"foo", "<>"}, []string{"x"}, true
	case "K2":
		s.pattern, s.pnames, s.strct = []string{"foo", "<>", "bar"}, []string{"x"}, true
	default:
		panic(shape)
	}
	s.id = shape
	if len(types) > 0 {
		s.id += "[" + strings.Join(types, ",") + "]"
	}
	return s
}

func (s c20Spec) aliasText() string {
	var p []string
	k := 0
	for _, e := range s.pattern {
		if e == "<>" {
			p = append(p, "<"+s.pnames[k]+">")
			k++
		} else {
			p = append(p, e)
		}
	}
	return strings.Join(p, " ")
}

func (s c20Spec) callText() string {
	var p []string
	k := 0
	for _, e := range s.pattern {
		if e == "<>" {
			p = append(p, c20Types[s.types[k]].arg)
			k++
		} else {
			p = append(p, e)
		}
	}
	return strings.Join(p, " ")
}

// sameAlias: token pattern and parameter types coincide (the property's notion of a duplicate)
func c20SameAlias(a, b c20Spec) bool {
	if len(a.pattern) != len(b.pattern) {
		return false
	}
	for i := range a.pattern {
		if a.pattern[i] != b.pattern[i] {
			return false
		}
	}
	for i := range a.types {
		if c20Types[a.types[i]].class != c20Types[b.types[i]].class {
			return false
		}
	}
	return true
}

// printAlikePair: same pattern, parameter types differ but every differing position prints alike
func c20PrintAlikePair(a, b c20Spec) bool {
	if len(a.pattern) < 2 || len(b.pattern) < 2 || len(a.types) == 0 || len(b.types) == 0 {
		return false
	}
	// same pattern prefix up to and including the first placeholder
	ta, tb := c20Types[a.types[0]], c20Types[b.types[0]]
	ia, ib := -1, -1
	for i, e := range a.pattern {
		if e == "<>" {
			ia = i
			break
		}
	}
	for i, e := range b.pattern {
		if e == "<>" {
			ib = i
			break
		}
	}
	if ia != ib {
		return false
	}
	for i := 0; i < ia; i++ {
		if a.pattern[i] != b.pattern[i] {
			return false
		}
	}
	return ta.class != tb.class && ta.print == tb.print
}

// declName: the name under which declaration number i can be imported
func (s c20Spec) declName(i int) string {
	if s.strct {
		return fmt.Sprintf("Ding%d", i)
	}
	return fmt.Sprintf("f%d", i)
}

func (s c20Spec) declText(i int, public bool) string {
	if !s.strct {
		return s.funcHeader(s.declName(i), public)
	}
	ty := c20Types[s.types[0]]
	pub, pubf := "", ""
	if public {
		pub, pubf = "öffentliche ", "öffentlichen "
	}
	return "Wir nennen die " + pub + "Kombination aus\n\t" + ty.fieldArt + " " + pubf + ty.spell + " " + s.pnames[0] + " mit Standardwert " + ty.fieldDef +
		",\neinen " + s.declName(i) + ", und erstellen sie so:\n\t\"" + s.aliasText() + "\"\n"
}

func (s c20Spec) callStmt(i int) string {
	if s.strct {
		return fmt.Sprintf("Die Variable w%d ist %s.\n", i, s.callText())
	}
	return s.callText() + ".\n"
}

func (s c20Spec) funcHeader(name string, public bool) string {
	pub := ""
	if public {
		pub = "öffentliche "
	}
	h := "Die " + pub + "Funktion " + name
	switch len(s.types) {
	case 0:
		h += " gibt nichts zurück, macht:\n"
	case 1:
		h += " mit dem Parameter " + s.pnames[0] + " vom Typ " + c20Types[s.types[0]].spell + ", gibt nichts zurück, macht:\n"
	default:
		var sp []string
		for _, t := range s.types {
			sp = append(sp, c20Types[t].spell)
		}
		h += " mit den Parametern " + strings.Join(s.pnames, " und ") + " vom Typ " + strings.Join(sp, " und ") + ", gibt nichts zurück, macht:\n"
	}
	if s.stmt {
		// the function gets a private spelling of its own, the explored alias comes from the alias statement
		own := "nur " + name
		for _, pn := range s.pnames {
			own += " <" + pn + ">"
		}
		return h + "\tDie Zahl q ist 1.\nUnd kann so benutzt werden:\n\t\"" + own + "\"\nDer Alias \"" + s.aliasText() + "\" steht für die Funktion " + name + ".\n"
	}
	return h + "\tDie Zahl q ist 1.\nUnd kann so benutzt werden:\n\t\"" + s.aliasText() + "\"\n"
}

// typeImports: the import lines that make the spec's type names usable; ok=false if two different
// types with the same name would be needed in one module
func c20TypeImports(specs []c20Spec) (lines []string, ok bool) {
	byName := map[string]string{}
	for _, s := range specs {
		for _, t := range s.types {
			ty := c20Types[t]
			if ty.mod == "" {
				continue
			}
			if m, seen := byName[ty.typeName]; seen && m != ty.mod {
				return nil, false
			}
			if _, seen := byName[ty.typeName]; !seen {
				byName[ty.typeName] = ty.mod
				lines = append(lines, "Binde "+ty.typeName+" aus \""+ty.mod+"\" ein.\n")
			}
		}
	}
	return lines, true
}

func c20Pool(tier string, n int) []c20Spec {
	S := c20MkSpec
	if tier == "thorough" {
		switch n {
		case 2, 3:
			return []c20Spec{S("S0a"), S("S0b"), S("S1", "Zahl"), S("S1b", "Hausnummer"), S("S1", "ZahlRef"), S("S1", "Text"), S("S1", "Buchstabe"), S("S1", "ZahlL"), S("S1", "Nummer"),
				S("S1", "Paar1"), S("S1", "Paar2"), S("S1", "PaarDef"), S("S1", "Paar1L"), S("S1", "Paar2L"), S("S2", "Zahl"), S("S2", "Paar1"), S("S2", "Paar2"),
				S("S3", "Zahl", "Text"), S("S3", "Text", "Zahl"), S("S3", "Hausnummer", "Text"), S("S3", "Paar1", "Zahl"), S("S3", "Paar2", "Zahl"),
				S("K1", "Zahl"), S("K1", "Text"), S("K1", "Paar1"), S("K1", "Paar2"), S("K2", "Zahl"), S("K2", "Paar2"), S("A0"), S("A1", "Zahl"), S("A1", "Hausnummer"), S("A1", "Paar2")}
		default:
			return []c20Spec{S("S0a"), S("S1", "Zahl"), S("S1b", "Hausnummer"), S("S1", "ZahlRef"), S("S1", "Buchstabe"), S("S1", "Paar1"), S("S1", "Paar2"), S("S1", "PaarDef"), S("S2", "Paar2"), S("K1", "Zahl"), S("K1", "Paar2"), S("A1", "Zahl"), S("A1", "Paar2")}
		}
	}
	switch n {
	case 2, 3:
		return []c20Spec{S("S0a"), S("S1", "Zahl"), S("S1b", "Hausnummer"), S("S1", "ZahlRef"), S("S1", "Buchstabe"), S("S1", "Nummer"), S("S1", "Paar1"), S("S1", "Paar2"), S("S1", "PaarDef"), S("S2", "Paar2"), S("S3", "Zahl", "Text"), S("S3", "Hausnummer", "Text"), S("K1", "Zahl"), S("K1", "Paar2"), S("A0"), S("A1", "Zahl"), S("A1", "Paar2")}
	default:
		return []c20Spec{S("S0a"), S("S1", "Buchstabe"), S("S1", "Zahl"), S("S1", "Paar1"), S("S1", "Paar2"), S("S1", "PaarDef"), S("A1", "Zahl")}
	}
}

// ---- one program ------------------------------------------------------------------------------------

type c20Prog struct {
	Specs   []string `json:"specs"`
	Layout  string   `json:"layout"` // one letter per declaration: l(ocal) / i(mported from its own module); or "M": all in one imported module
	specs   []c20Spec
	main    string
	files   map[string]string // module name -> text (function modules; type modules are shared)
	declLo  []int             // first/last line of declaration i in main (1-based)
	declHi  []int
	callLo  []int // line of the call of declaration i (0 = no call: duplicate)
	dup     []bool
	alike   bool
	nameOK  bool
	hasDups bool
}

func (p *c20Prog) id() string { return strings.Join(p.Specs, ",") + "|" + p.Layout }

func c20Build(specs []c20Spec, layout string) *c20Prog {
	p := &c20Prog{Layout: layout, specs: specs, files: map[string]string{}, nameOK: true}
	for _, s := range specs {
		p.Specs = append(p.Specs, s.id)
	}
	n := len(specs)
	p.dup = make([]bool, n)
	var accepted []int
	for i := range specs {
		for _, j := range accepted {
			if c20SameAlias(specs[i], specs[j]) {
				p.dup[i] = true
				p.hasDups = true
			}
		}
		if !p.dup[i] {
			accepted = append(accepted, i)
		}
		for j := 0; j < i; j++ {
			if c20PrintAlikePair(specs[i], specs[j]) {
				p.alike = true
			}
		}
	}
	var sb strings.Builder
	line := 1
	emit := func(s string) {
		sb.WriteString(s)
		line += strings.Count(s, "\n")
	}
	// variables used as call arguments
	seenVar := map[string]bool{}
	for _, i := range accepted {
		for _, t := range specs[i].types {
			ty := c20Types[t]
			if ty.argMod != "" && !seenVar[ty.arg] {
				seenVar[ty.arg] = true
				emit("Binde " + ty.arg + " aus \"" + ty.argMod + "\" ein.\n")
			}
		}
	}
	emit("Die Zahl z ist 1.\nDie Zahlen Liste zl ist eine leere Zahlen Liste.\n")
	p.declLo, p.declHi, p.callLo = make([]int, n), make([]int, n), make([]int, n)
	if layout == "M" {
		// all declarations in one module, imported as a whole
		imps, ok := c20TypeImports(specs)
		p.nameOK = ok
		var mb strings.Builder
		for _, l := range imps {
			mb.WriteString(l)
		}
		for i, s := range specs {
			mb.WriteString(s.declText(i+1, true))
			mb.WriteString(fmt.Sprintf("Die Zahl s%d ist 1.\n", i+1))
		}
		p.files["mall.ddp"] = mb.String()
		for i := range specs {
			p.declLo[i], p.declHi[i] = line, line
		}
		emit("Binde \"mall\" ein.\n")
	} else {
		var locals []c20Spec
		for i, s := range specs {
			if layout[i] == 'l' {
				locals = append(locals, s)
			}
		}
		imps, ok := c20TypeImports(locals)
		p.nameOK = ok
		for _, l := range imps {
			emit(l)
		}
		for i, s := range specs {
			p.declLo[i] = line
			if layout[i] == 'l' {
				emit(s.declText(i+1, false))
				p.declHi[i] = line - 1
				// a plain statement after the declaration: error recovery after a rejected alias skips to the
				// next statement start, which must not be the next declaration under test
				emit(fmt.Sprintf("Die Zahl s%d ist 1.\n", i+1))
			} else {
				mod := fmt.Sprintf("m%d_%s", i+1, c20FileID(s.id))
				mi, _ := c20TypeImports([]c20Spec{s})
				p.files[mod+".ddp"] = strings.Join(mi, "") + s.declText(i+1, true)
				emit(fmt.Sprintf("Binde %s aus \"%s\" ein.\n", s.declName(i+1), mod))
				p.declHi[i] = line - 1
			}
		}
	}
	for _, i := range accepted {
		p.callLo[i] = line
		emit(specs[i].callStmt(i + 1))
	}
	p.main = sb.String()
	return p
}

func c20FileID(s string) string {
	r := strings.NewReplacer("[", "_", "]", "", ",", "_")
	return r.Replace(s)
}

type c20PFail struct {
	kind, detail string
}

// c20Judge compares the diagnostics of one parse with the expectation.
func c20Judge(p *c20Prog, st pool.Status, log string, resp *fe.Resp, mainFile string) (fails []c20PFail, sig string) {
	add := func(k, d string) { fails = append(fails, c20PFail{k, d}) }
	if st == pool.Died {
		add("parser-crash", "the frontend process died: "+c20Tail(log, 300))
		return fails, "died"
	}
	if st == pool.Timeout {
		add("parser-hang", "no answer within the deadline")
		return fails, "timeout"
	}
	if resp.Panic != "" || resp.Internal || resp.Err != "" {
		add("parser-crash", fmt.Sprintf("parser.Parse failed internally at %s: %s", resp.PanicSite, c20Tail(resp.Panic+" "+resp.Err, 300)))
		return fails, "crash@" + resp.PanicSite
	}
	dupSeen := make([]bool, len(p.specs))
	var sigs []string
	for _, d := range resp.Diags {
		if d.Level != int(ddperror.LEVEL_ERROR) {
			continue
		}
		isDup := d.Code == int(ddperror.SEM_ALIAS_ALREADY_TAKEN) || d.Code == int(ddperror.SEM_ALIAS_ALREADY_DEFINED)
		where := "elsewhere"
		if filepath.Base(d.File) == filepath.Base(mainFile) {
			for i := range p.specs {
				if int(d.L1) >= p.declLo[i] && int(d.L1) <= p.declHi[i] {
					where = fmt.Sprintf("decl%d", i+1)
					if p.Layout == "M" {
						where = "decl*"
					}
				}
				if p.callLo[i] != 0 && int(d.L1) == p.callLo[i] {
					where = fmt.Sprintf("call%d", i+1)
				}
			}
		} else {
			where = "module " + filepath.Base(d.File)
		}
		sigs = append(sigs, fmt.Sprintf("%d@%s", d.Code, where))
		switch {
		case strings.HasPrefix(where, "decl") && isDup && p.Layout != "M":
			var i int
			fmt.Sscanf(where, "decl%d", &i)
			if p.dup[i-1] {
				dupSeen[i-1] = true
			} else {
				add("parser-false-duplicate", fmt.Sprintf("declaration %d (%s) is no duplicate of an alias in scope but was rejected: %s", i, p.specs[i-1].id, d.String()))
			}
		case strings.HasPrefix(where, "call"):
			add("parser-call-error", fmt.Sprintf("the accepted alias of declaration %s is not callable: %s", where[4:], d.String()))
		default:
			add("parser-unexpected-diagnostic", d.String())
		}
	}
	for i := range p.specs {
		if p.dup[i] && !dupSeen[i] {
			add("parser-duplicate-accepted", fmt.Sprintf("declaration %d (%s, alias \"%s\") repeats an alias that is already in scope but no 'alias already exists' error was reported for it", i+1, p.specs[i].id, p.specs[i].aliasText()))
		}
	}
	sort.Strings(sigs)
	return fails, strings.Join(sigs, ";")
}

func c20Tail(s string, n int) string {
	s = strings.TrimSpace(s)
	if len(s) > n {
		return s[:n] + "…"
	}
	return s
}

// c20RunProg writes the function modules (type modules are already in dir) and parses main through the pool.
func c20RunProg(dir string, p *c20Prog) (pool.Status, string, fe.Resp) {
	for n, s := range p.files {
		fp := filepath.Join(dir, n)
		if b, err := os.ReadFile(fp); err != nil || string(b) != s {
			os.WriteFile(fp, []byte(s), 0o644)
		}
	}
	var resp fe.Resp
	mainFile := filepath.Join(dir, "main.ddp")
	st, log := rx.CompPool().Do(&fe.Req{Op: "parse", File: mainFile, Source: []byte(p.main), HasSrc: true}, &resp, 60*time.Second)
	if st != pool.OK { // retry once on a fresh worker
		resp = fe.Resp{}
		st, log = rx.CompPool().Do(&fe.Req{Op: "parse", File: mainFile, Source: []byte(p.main), HasSrc: true}, &resp, 120*time.Second)
	}
	return st, log, resp
}

func c20Layouts(n int, tier string) []string {
	var r []string
	if tier == "thorough" {
		for m := 0; m < 1<<n; m++ {
			b := make([]byte, n)
			for i := range b {
				b[i] = 'i'
				if m>>i&1 == 1 {
					b[i] = 'l'
				}
			}
			r = append(r, string(b))
		}
	} else {
		r = append(r, strings.Repeat("i", n), strings.Repeat("l", n), strings.Repeat("li", n)[:n], strings.Repeat("il", n)[:n])
	}
	return append(r, "M")
}

func c20Parser(c *ev.Ctx, tier string) (st c20PStats) {
	if c.Expired() {
		c.Capped("parser level not started")
		return
	}
	dir := rx.Scratch("c20-")
	defer os.RemoveAll(dir)
	rx.WriteFiles(dir, c20TypeModules)
	defer rx.CompPool().Close()
	type job struct {
		specs  []c20Spec
		layout string
	}
	var jobs []job
	maxN := 4
	for n := 2; n <= maxN; n++ {
		pl := c20Pool(tier, n)
		idx := make([]int, n)
		for {
			specs := make([]c20Spec, n)
			for i, x := range idx {
				specs[i] = pl[x]
			}
			for _, l := range c20Layouts(n, tier) {
				jobs = append(jobs, job{specs, l})
			}
			k := n - 1
			for k >= 0 {
				idx[k]++
				if idx[k] < len(pl) {
					break
				}
				idx[k] = 0
				k--
			}
			if k < 0 {
				break
			}
		}
	}
	var mu sync.Mutex
	best := map[string]*c20Fail{}
	bestProg := map[string]*c20Prog{}
	counts := map[string]int64{}
	classes := map[string]bool{}
	var excludedName, excludedModDup, progs, trans, obs int64
	var stopped int32
	// each worker owns a sub-directory so that function modules of concurrent programs do not collide
	nw := rx.CompPool().N()
	type slot struct{ dir string }
	slots := make(chan slot, nw)
	for i := 0; i < nw; i++ {
		d := filepath.Join(dir, fmt.Sprintf("w%d", i))
		os.MkdirAll(d, 0o755)
		rx.WriteFiles(d, c20TypeModules)
		slots <- slot{d}
	}
	par.Each(jobs, nw, func(ji int, j job) {
		if c.Expired() {
			atomic.StoreInt32(&stopped, 1)
			return
		}
		p := c20Build(j.specs, j.layout)
		if !p.nameOK {
			atomic.AddInt64(&excludedName, 1)
			return
		}
		if p.Layout == "M" && p.hasDups {
			atomic.AddInt64(&excludedModDup, 1)
			return
		}
		sl := <-slots
		stt, log, resp := c20RunProg(sl.dir, p)
		slots <- sl
		fails, sig := c20Judge(p, stt, log, &resp, "main.ddp")
		atomic.AddInt64(&progs, 1)
		{
			nd, miss, cerr := 0, 0, 0
			for _, d := range p.dup {
				if d {
					nd++
				}
			}
			for _, f := range fails {
				switch f.kind {
				case "parser-duplicate-accepted":
					miss++
				case "parser-call-error":
					cerr++
				}
			}
			c.Add("parser_duplicate_declarations_expected", int64(nd))
			if sig != "died" && sig != "timeout" && !strings.HasPrefix(sig, "crash@") {
				c.Add("parser_duplicate_declarations_diagnosed", int64(nd-miss))
				c.Add("parser_calls_of_accepted_aliases_without_error", int64(len(p.specs)-nd-cerr))
			}
			if sig == "" {
				c.Add("parser_programs_without_any_error", 1)
			}
		}
		atomic.AddInt64(&trans, int64(2*len(p.specs)))
		atomic.AddInt64(&obs, int64(len(resp.Diags)+2*len(p.specs)))
		ms := append([]string(nil), p.Specs...)
		sort.Strings(ms)
		mu.Lock()
		classes[strings.Join(ms, ",")+"=>"+sig] = true
		for _, f := range fails {
			cause := "consistent-types"
			if p.alike {
				cause = "print-alike-types"
			}
			counts[f.kind+":"+cause]++
			id := f.kind + "|" + cause
			if f.kind == "parser-crash" {
				id += "|" + sig
			}
			cur := &c20Fail{Level: "parser", Kind: f.kind, Cause: cause, Detail: f.detail, Text: p.id()}
			if b, ok := best[id]; !ok || len(p.specs) < len(bestProg[id].specs) || (len(p.specs) == len(bestProg[id].specs) && cur.Text < b.Text) {
				best[id], bestProg[id] = cur, p
			}
		}
		mu.Unlock()
	})
	if stopped != 0 {
		c.Capped(fmt.Sprintf("parser level: %d of %d programs parsed before the deadline", progs, len(jobs)))
	}
	// report (re-execute 3x)
	ids := []string{}
	for id := range best {
		ids = append(ids, id)
	}
	sort.Strings(ids)
	for _, id := range ids {
		f, p := best[id], bestProg[id]
		stable := true
		for i := 0; i < 3; i++ {
			stt, log, resp := c20RunProg(filepath.Join(dir, "w0"), p)
			fs, _ := c20Judge(p, stt, log, &resp, "main.ddp")
			found := false
			for _, x := range fs {
				if x.kind == f.Kind && x.detail == f.Detail {
					found = true
				}
			}
			stable = stable && found
		}
		if !stable {
			c.Broken("C20: parser-level failure " + id + " (" + p.id() + ") did not reproduce identically")
			continue
		}
		files := map[string]string{"main.ddp": p.main}
		for n, s := range c20TypeModules {
			files[n] = s
		}
		for n, s := range p.files {
			files[n] = s
		}
		f.Hist = nil
		b, _ := json.MarshalIndent(map[string]any{"level": "parser", "kind": f.Kind, "cause": f.Cause, "detail": f.Detail, "history_text": f.Text, "specs": p.Specs, "layout": p.Layout}, "", " ")
		files["case.json"] = string(b)
		key := c20Key(f)
		if f.Kind == "parser-crash" && f.Cause != "print-alike-types" {
			key += ":" + strings.TrimPrefix(strings.SplitN(id, "|", 3)[2], "crash@")
		}
		what := fmt.Sprintf("level parser, program %s (declarations in this order; layout: l=declared in main.ddp, i=imported from its own module, M=all from one module)\n%s: %s\ncause class: %s\n--- main.ddp ---\n%s", p.id(), f.Kind, f.Detail, f.Cause, p.main)
		c.Violation(key, what, files)
	}
	cs := map[string]int64{}
	for k, v := range counts {
		cs[k] = v
	}
	c.Set("parser_failing_programs_by_kind_and_cause", cs)
	c.Add("parser_programs", progs)
	c.Add("excluded_unnameable_layouts", excludedName)
	c.Add("excluded_unspecified", excludedModDup)
	c.Set("parser_bounds", map[string]any{"declarations_per_program": "2..4, every sequence with repetition over the pool", "pool_2_3": c20PoolIDs(tier, 2), "pool_4": c20PoolIDs(tier, 4), "layouts_4": c20Layouts(4, tier)})
	c.Assume("excluded_unspecified: a module that itself contains a duplicate alias and is imported as a whole (what the importer reports is not determined by the property)",
		"excluded_unnameable_layouts: layouts that would need two different types of the same name in one module")
	c.Sample(map[string]any{"space": "parser", "program": "S0a,S1[Paar1],S1[Paar2],S1[Paar2]|iiii", "expects": "error 'alias already exists' at declaration 4, calls 1..3 without error"})
	st.states, st.transitions, st.obs, st.traces, st.distinct = progs, trans, obs, progs, int64(len(classes))
	return
}

func c20PoolIDs(tier string, n int) []string {
	var r []string
	for _, s := range c20Pool(tier, n) {
		r = append(r, s.id)
	}
	return r
}

func c20ReplayParser(dir string, f *c20Fail) int {
	b, _ := os.ReadFile(filepath.Join(dir, "case.json"))
	var cs struct {
		Specs  []string `json:"specs"`
		Layout string   `json:"layout"`
	}
	if err := json.Unmarshal(b, &cs); err != nil {
		fmt.Println(err)
		return 2
	}
	all := map[string]c20Spec{}
	for _, t := range []string{"quick", "thorough"} {
		for _, n := range []int{2, 4} {
			for _, s := range c20Pool(t, n) {
				all[s.id] = s
			}
		}
	}
	var specs []c20Spec
	for _, id := range cs.Specs {
		s, ok := all[id]
		if !ok {
			fmt.Println("unknown spec", id)
			return 2
		}
		specs = append(specs, s)
	}
	p := c20Build(specs, cs.Layout)
	tmp := rx.Scratch("c20-replay-")
	defer os.RemoveAll(tmp)
	defer rx.CompPool().Close()
	rx.WriteFiles(tmp, c20TypeModules)
	st, log, resp := c20RunProg(tmp, p)
	fails, _ := c20Judge(p, st, log, &resp, "main.ddp")
	fmt.Printf("program %s\n--- main.ddp ---\n%s--- diagnostics ---\n", p.id(), p.main)
	for _, d := range resp.Diags {
		fmt.Println(" ", d.String())
	}
	if len(fails) > 0 {
		fmt.Printf("VIOLATION property=C20 replay=%s\n", dir)
		for _, x := range fails {
			fmt.Printf("  %s: %s\n", x.kind, x.detail)
		}
		return 1
	}
	fmt.Println("C20 replay: property holds on this program")
	return 0
}
