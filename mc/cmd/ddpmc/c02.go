package main

// C02 — every program the frontend accepts is compiled completely (shape S, no reference model).
//
// Space: operator x operand type classes x operand forms x value context (x declared type), every
// element rendered as a small DDP program (c02_gen.go). The implementation's own frontend is the
// filter: a candidate with an error diagnostic is outside the premise (counted). Every accepted
// candidate must pass the back end:
//   (1) compiler.Compile to textual IR (-O0 and -O2: the IR differs) without panic / internal error,
//   (2) llvm-as-14 (parser + verifier) accepts that IR,
//   (3) compiler.Compile to an object file at -O0 and -O2 (LLVM parser, passes, code generation inside
//       the worker; an LLVM fatal error kills the worker),
//   (4) thorough: the program links against the ASan runtime and runs to exit 0 or a Laufzeitfehler.
// Accepted candidates are packed into batch programs (unique names); a failing batch is bisected down
// to single candidates, which are confirmed three times before they are reported.

import (
	"fmt"
	"os"
	"os/exec"
	"path/filepath"
	"regexp"
	"sort"
	"strings"
	"sync"
	"sync/atomic"
	"syscall"
	"time"

	"ddpmc/internal/ev"
	"ddpmc/internal/fe"
	"ddpmc/internal/par"
	"ddpmc/internal/pool"
	"ddpmc/internal/rx"
)

const c02Timeout = 300 * time.Second

type c02Fail struct {
	stage string // internal-error | llvm-rejects | worker-died | compile-error | link | run-signal | run-leak
	msg   string // normalised one-line reason (compared across confirmations)
	log   string // details
	line  int    // source line the compiler blames (0 = unknown)
}

type c02Run struct {
	c    *ev.Ctx
	tier string

	parses, compiles, frontendCrashes, infra int64

	mu           sync.Mutex
	accByOp      map[string]int // accepted cells per operator
	candByCx     map[string]int // accepted candidates per context
	distinct     map[string]bool
	passed       [][]*c02Cand // batches that passed the compile stages (input of the run stage)
	found        []c02Found   // failing single candidates
	sigSeen      map[string]int
	crashSamples map[string]string // frontend crash message -> first program

	leakSamples []map[string]string

	dudenOnce sync.Once
	dudenDir  string
	dudenObjs []string
	dudenDeps []string
	dudenErr  string
}

// ---------------------------------------------------------------- frontend filter

// c02Accepts runs the real frontend. crashed = the frontend itself failed (C03's business).
func (r *c02Run) accepts(src string) (ok, crashed bool) {
	ok, crashed, _ = r.acceptsD(src)
	return
}

func (r *c02Run) acceptsD(src string) (ok, crashed bool, diag string) {
	res := r.acceptsMany([]string{src})
	return res[0].OK, res[0].Crashed, res[0].Diag
}

func (r *c02Run) acceptsMany(srcs []string) []c02ParseRes {
	atomic.AddInt64(&r.parses, int64(len(srcs)))
	res := c02ParseMany(srcs)
	for i, x := range res {
		if x.Crashed {
			atomic.AddInt64(&r.frontendCrashes, 1)
			r.mu.Lock()
			if d := c02Norm(x.Diag); len(r.crashSamples) < 6 && r.crashSamples[d] == "" {
				r.crashSamples[d] = srcs[i]
			}
			r.mu.Unlock()
		}
	}
	return res
}

// ---------------------------------------------------------------- back end

var c02AddrRe = regexp.MustCompile(`[0-9a-f]{16,}|0x[0-9a-f]+|%\d+|@\.?[A-Za-z0-9_.]+|\b\d+:\d+\b|/[^ :]*/`)

func c02Norm(s string) string {
	s = strings.TrimSpace(s)
	if i := strings.IndexByte(s, '\n'); i >= 0 {
		s = s[:i]
	}
	s = c02AddrRe.ReplaceAllString(s, "#")
	if len(s) > 300 {
		s = s[:300]
	}
	return s
}

var c02SiteRe = regexp.MustCompile(`(?m)^github\.com/DDP-Projekt/Kompilierer/src/compiler\.(?:\(\*?\w+\)\.)?(\w+)`)

// c02Site names the innermost code generator function of a stack trace (skipping the error helpers).
func c02Site(stack string) string {
	for _, m := range c02SiteRe.FindAllStringSubmatch(stack, -1) {
		switch m[1] {
		case "err", "compiler_panic_wrapper", "panic_wrapper", "Compile":
			continue
		}
		return m[1]
	}
	return "?"
}

// c02Backend runs stages (1)-(3) on one program. nil = the program is compiled completely.
// infra = the observation itself failed (timeout on a loaded machine): never evidence.
func (r *c02Run) backend(src string) (f *c02Fail, infra bool) {
	dir := rx.Scratch("c02")
	defer os.RemoveAll(dir)
	file := filepath.Join(dir, "main.ddp")
	os.WriteFile(file, []byte(src), 0o644)
	req := &c02ParseReq{Op: "backend", File: file, Sources: []string{src}, Dir: dir}
	var resp c02ParseResp
	st, log := c02Pool().Do(req, &resp, 2*c02Timeout)
	atomic.AddInt64(&r.compiles, 1)
	if st == pool.Timeout {
		resp = c02ParseResp{}
		st, log = c02Pool().Do(req, &resp, 4*c02Timeout)
		if st == pool.Timeout {
			return nil, true
		}
	}
	if st == pool.Died {
		if strings.Contains(log, "cannot start worker") {
			return nil, true
		}
		tail := strings.TrimSpace(log)
		if i := strings.LastIndex(tail, "LLVM ERROR"); i >= 0 {
			tail = tail[i:]
		} else if i := strings.Index(tail, "fatal error:"); i >= 0 {
			tail = tail[i:]
		} else if len(tail) > 400 {
			tail = tail[len(tail)-400:]
		}
		return &c02Fail{stage: "worker-died", msg: c02Norm(tail), log: "the compiler process died during the back end stages\n" + tailStr(log, 4000)}, false
	}
	if resp.Stage == "infra" {
		return nil, true
	}
	if resp.Stage != "" {
		return &c02Fail{resp.Stage, resp.Msg, resp.Log, resp.Line}, false
	}
	return nil, false
}

var c02LineRe = regexp.MustCompile(`:(\d+):\d+: error`)

// c02Context quotes the IR lines around the position llvm-as complains about.
func c02Context(msg, ir string) string {
	m := c02LineRe.FindStringSubmatch(msg)
	if m == nil {
		return ""
	}
	var n int
	fmt.Sscan(m[1], &n)
	ls := strings.Split(ir, "\n")
	lo, hi := n-6, n+1
	if lo < 0 {
		lo = 0
	}
	if hi > len(ls) {
		hi = len(ls)
	}
	return "IR around line " + m[1] + ":\n" + strings.Join(ls[lo:hi], "\n")
}

// ---------------------------------------------------------------- run stage (thorough)

var c02MarkRe = regexp.MustCompile(`<(\d+)>`)

// c02RunSource = batch source with a marker printed before every candidate, so that the candidate
// that raised a Laufzeitfehler can be identified from the output.
func c02RunSource(ks []*c02Cand) string {
	var sb strings.Builder
	sb.WriteString("Binde \"Duden/Ausgabe\" ein.\n\n")
	sb.WriteString(c02Preamble)
	for i, k := range ks {
		sb.WriteString(k.pre)
		fmt.Fprintf(&sb, "Schreibe den Text \"<%d>\".\n", i)
		sb.WriteString(k.body)
		sb.WriteString("\n")
	}
	return sb.String()
}

// runStage links and runs ks; returns the failing candidates it could attribute.
func (r *c02Run) runStage(ks []*c02Cand) {
	for len(ks) > 0 && !r.c.Expired() {
		src := c02RunSource(ks)
		f, last, infra := r.buildAndRun(src)
		if infra {
			atomic.AddInt64(&r.infra, 1)
			r.c.Capped("run stage: infrastructure failure (timeout), batch skipped")
			return
		}
		if f == nil && last < 0 { // ran to the end
			r.c.Add("run_ok", int64(len(ks)))
			return
		}
		if f == nil { // proper Laufzeitfehler raised by candidate `last`: fine, continue behind it
			r.c.Add("run_ok", int64(last))
			r.c.Add("run_laufzeitfehler", 1)
			ks = ks[last+1:]
			continue
		}
		// a real failure: attribute
		if len(ks) == 1 {
			r.confirmAndReport(ks[0], f, func() (*c02Fail, bool) { g, _, inf := r.buildAndRun(src); return g, inf }, src)
			return
		}
		if last >= 0 && last < len(ks) && (f.stage == "run-signal" || f.stage == "run-leak") && f.msg != "" && last != 0 {
			// output tells where it stopped (if it was flushed); check that candidate alone, then the rest
			r.c.Add("run_ok", int64(last))
			r.runStage(ks[last : last+1])
			ks = ks[last+1:]
			continue
		}
		h := len(ks) / 2
		r.runStage(ks[:h])
		ks = ks[h:]
	}
}

// buildAndRun: f != nil → link/run failure; last = index of the last marker printed when the program
// ended with a Laufzeitfehler (f == nil) or crashed; -1 = ran to the end.
func (r *c02Run) buildAndRun(src string) (f *c02Fail, last int, infra bool) {
	dir := rx.Scratch("c02r")
	defer os.RemoveAll(dir)
	rx.WriteFiles(dir, map[string]string{"main.ddp": src})
	b := r.buildSeparate(dir)
	atomic.AddInt64(&r.compiles, 1)
	if !b.OK {
		switch b.Stage {
		case "timeout", "infra":
			return nil, -1, true
		case "link":
			return &c02Fail{stage: "link", msg: c02Norm(b.Log), log: "linking against the runtime failed:\n" + b.Log}, -1, false
		case "died":
			return &c02Fail{stage: "worker-died", msg: c02Norm(b.Log), log: "compile (-O1): the compiler process died\n" + b.Log}, -1, false
		case "internal":
			return &c02Fail{stage: "internal-error", msg: c02Norm(b.Log), log: "compile (-O1): " + b.Log}, -1, false
		default:
			return &c02Fail{stage: "compile-error", msg: c02Norm(b.Log), log: "compile (-O1): " + b.Log}, -1, false
		}
	}
	res := rx.RunRobust(b.Exe, rx.RunOpts{NoLimit: true, Timeout: 20 * time.Second})
	last = -1
	if ms := c02MarkRe.FindAllStringSubmatch(res.Stdout, -1); len(ms) > 0 {
		fmt.Sscan(ms[len(ms)-1][1], &last)
	}
	cls := res.Class()
	switch {
	case res.Infra || res.TimedOut:
		return nil, last, true
	case strings.Contains(res.Stderr, "ERROR: AddressSanitizer"):
		m := regexp.MustCompile(`ERROR: AddressSanitizer: (\S+)`).FindStringSubmatch(res.Stderr)
		return &c02Fail{stage: "run-signal", msg: "AddressSanitizer: " + m[1], log: "the linked program (ASan runtime) was stopped by AddressSanitizer:\n" + tailStr(res.Stderr, 3000)}, last, false
	case res.Signal != "":
		return &c02Fail{stage: "run-signal", msg: "signal " + res.Signal, log: "the linked program died by signal " + res.Signal + "\n" + tailStr(res.Stderr, 2000)}, last, false
	case cls == "laufzeitfehler" || (strings.Contains(res.Stderr, "Laufzeitfehler: ") && res.Exit != 0):
		// a proper runtime error (the runtime exits without releasing memory: LeakSanitizer may turn the status into 99)
		return nil, last, false
	case strings.Contains(res.Stderr, "ERROR: LeakSanitizer"):
		// a leak is C05's business, not a failure to compile: counted, first reports kept as evidence
		r.c.Add("byproduct_leak_reports", 1)
		r.mu.Lock()
		if len(r.leakSamples) < 3 {
			r.leakSamples = append(r.leakSamples, map[string]string{"program": src, "report": tailStr(res.Stderr, 1200)})
		}
		r.mu.Unlock()
		return nil, -1, false
	case cls == "ok":
		return nil, -1, false
	}
	return &c02Fail{stage: "run-signal", msg: cls, log: "the linked program ended with " + cls + "\n" + tailStr(res.Stderr, 2000)}, last, false
}

// buildSeparate compiles dir/main.ddp on its own (-O1, modules and list definitions not linked in) and
// links it with the objects of the Duden modules it imports, which are compiled once per run
// (the way a user of --module-linken=false builds), against the ASan runtime.
func (r *c02Run) buildSeparate(dir string) rx.BuildResult {
	r.dudenOnce.Do(func() {
		d := rx.Scratch("c02duden")
		r.dudenDir = d
		rx.WriteFiles(d, map[string]string{"main.ddp": "Binde \"Duden/Ausgabe\" ein.\nSchreibe den Text \"\".\n"})
		var pr fe.Resp
		st, _ := rx.CompPool().Do(&fe.Req{Op: "parse", File: filepath.Join(d, "main.ddp"), WantMods: true}, &pr, c02Timeout)
		if st != pool.OK || pr.Err != "" || pr.Faulty {
			r.dudenErr = "cannot determine the modules behind Duden/Ausgabe: " + pr.Err
			return
		}
		deps := map[string]bool{}
		for i, m := range pr.Mods {
			if filepath.Base(m) == "main.ddp" && filepath.Dir(m) == d {
				continue
			}
			obj := filepath.Join(d, fmt.Sprintf("mod%d.o", i))
			mr := rx.Compile(m, obj, rx.BuildOpts{Opt: 1, NoLinkMods: true, NoLinkLists: true})
			if !mr.OK {
				r.dudenErr = "module " + m + ": " + mr.Stage + " " + mr.Log
				return
			}
			if out, err := exec.Command("objcopy", "-N", "ddp_ddpmain", obj).CombinedOutput(); err != nil {
				r.dudenErr = "objcopy: " + string(out)
				return
			}
			for _, dp := range mr.Resp.Deps {
				deps[dp] = true
			}
			r.dudenObjs = append(r.dudenObjs, obj)
		}
		for dp := range deps {
			r.dudenDeps = append(r.dudenDeps, dp)
		}
		sort.Strings(r.dudenDeps)
	})
	if r.dudenErr != "" {
		r.c.Broken(r.dudenErr)
		return rx.BuildResult{Stage: "infra", Log: r.dudenErr}
	}
	file := filepath.Join(dir, "main.ddp")
	obj, exe := filepath.Join(dir, "main.o"), filepath.Join(dir, "main.exe")
	o := rx.BuildOpts{Opt: 1, NoLinkMods: true, NoLinkLists: true, Asan: true, ExtraObjects: r.dudenObjs}
	b := rx.Compile(file, obj, o)
	if !b.OK {
		return b
	}
	deps := append(append([]string{}, b.Resp.Deps...), r.dudenDeps...)
	if ok, log := rx.Link(obj, exe, deps, o); !ok {
		b.OK, b.Stage, b.Log = false, "link", log
		return b
	}
	b.Exe = exe
	return b
}

func tailStr(s string, n int) string {
	if len(s) > n {
		return "…" + s[len(s)-n:]
	}
	return s
}

// ---------------------------------------------------------------- attribution

var c02ErrArgsRe = regexp.MustCompile(`^(\(\w+\.go, \d+\) [^(]*)\([^()]*\)( @\w+)?$`)

type c02Found struct {
	k         *c02Cand
	f         *c02Fail
	src       string
	again     func() (*c02Fail, bool)
	confirmed bool
}

func c02Sig(f *c02Fail) string {
	// same c.err(...) call site = same missing lowering, whatever types it names
	return f.stage + "|" + c02ErrArgsRe.ReplaceAllString(f.msg, "$1$2")
}

// confirm re-executes a failing single candidate twice more; all three results must agree.
func (r *c02Run) confirm(x *c02Found) bool {
	for i := 0; i < 2; i++ {
		g, infra := x.again()
		if infra {
			atomic.AddInt64(&r.infra, 1)
			return false
		}
		if g == nil || g.stage != x.f.stage || g.msg != x.f.msg {
			r.c.Add("unconfirmed_failures", 1)
			r.c.Capped("a failure did not repeat identically three times: " + x.k.cell.op + " " + x.k.cell.typeKey() + " " + x.k.ctxKey())
			return false
		}
	}
	x.confirmed = true
	return true
}

// confirmAndReport records a failing single candidate. The first three candidates of every
// root-cause signature are confirmed at once, later ones only if they become the reported (smallest)
// member of their group.
func (r *c02Run) confirmAndReport(k *c02Cand, f *c02Fail, again func() (*c02Fail, bool), src string) {
	x := c02Found{k: k, f: f, src: src, again: again}
	sig := c02Sig(f)
	r.mu.Lock()
	n := r.sigSeen[sig]
	r.sigSeen[sig]++
	r.mu.Unlock()
	if n < 3 && !r.confirm(&x) {
		return
	}
	r.c.Add("violating_candidates", 1)
	r.mu.Lock()
	r.found = append(r.found, x)
	r.mu.Unlock()
}

// report groups the confirmed failures by root-cause signature (stage + normalised reason + panic
// site) and reports one violation per signature. The key names operator, operand classes and context
// where all members of the group agree and '*' where they differ; the smallest member is the replay.
func (r *c02Run) report() {
	groups := map[string][]c02Found{}
	for _, x := range r.found {
		groups[c02Sig(x.f)] = append(groups[c02Sig(x.f)], x)
	}
	var sigs []string
	for s := range groups {
		sigs = append(sigs, s)
	}
	sort.Strings(sigs)
	for _, sig := range sigs {
		g := groups[sig]
		sort.Slice(g, func(i, j int) bool { return c02Less(g[i].k, g[j].k) })
		for len(g) > 0 && !g[0].confirmed && !r.confirm(&g[0]) { // the reported member must be a confirmed one
			g = g[1:]
		}
		if len(g) == 0 {
			continue
		}
		general := func(get func(k *c02Cand) string) string {
			seen := map[string]bool{}
			var vals []string
			for _, x := range g {
				if v := get(x.k); !seen[v] {
					seen[v] = true
					vals = append(vals, v)
				}
			}
			sort.Strings(vals)
			if len(vals) > 3 {
				return "*"
			}
			return strings.Join(vals, "|")
		}
		op := general(func(k *c02Cand) string { return k.cell.op })
		ty := general(func(k *c02Cand) string { return k.cell.typeKey() })
		cx := general(func(k *c02Cand) string { return k.ctxKey() })
		first := g[0]
		key := "C02:" + first.f.stage + ":" + op + ":" + ty + ":" + cx
		// one known root cause gets one fixed key: toIrType cannot represent a list whose elements are lists
		if first.f.stage == "internal-error" && strings.Contains(first.f.msg, "ddptypes.Type is ddptypes.ListType, not *ddptypes.StructType") {
			key = "C02:internal-error:nested-list:toIrType"
		}
		var members strings.Builder
		for _, x := range g {
			fmt.Fprintf(&members, "%s\t%s\t%s\t%s\n", x.k.cell.op, x.k.cell.typeKey(), x.k.cell.formKey(), x.k.ctxKey())
		}
		what := fmt.Sprintf("accepted by the frontend (no error diagnostic) but not compiled completely.\nstage: %s\nreason: %s\n%d accepted candidates fail with this reason (members.txt); smallest: operator %s, operand classes %s, operand forms %s, context %s\n\n%s",
			first.f.stage, first.f.msg, len(g), first.k.cell.op, first.k.cell.typeKey(), first.k.cell.formKey(), first.k.ctxKey(), tailStr(first.f.log, 6000))
		files := map[string]string{"main.ddp": first.src, "stage.txt": first.f.stage, "reason.txt": first.f.msg, "members.txt": members.String()}
		if strings.HasPrefix(first.f.stage, "run-") || first.f.stage == "link" {
			files["run.txt"] = "1"
		}
		r.c.Violation(key, what, files)
	}
}

// c02CandAtLine finds the candidate of a batch program whose text contains the given line.
func c02CandAtLine(ks []*c02Cand, line int) int {
	head := "" // same layout as c02BatchSource
	for _, k := range ks {
		if k.duden {
			head = "Binde \"Duden/Ausgabe\" ein.\n\n"
			break
		}
	}
	at := strings.Count(head+c02Preamble, "\n") + 1
	for i, k := range ks {
		n := strings.Count(k.pre+k.body, "\n") + 1
		if line >= at && line < at+n {
			return i
		}
		at += n
	}
	return -1
}

func c02Less(a, b *c02Cand) bool {
	var ai, as, bi, bs int
	fmt.Sscanf(a.id, "%dx%d", &ai, &as)
	fmt.Sscanf(b.id, "%dx%d", &bi, &bs)
	if ai != bi {
		return ai < bi
	}
	return as < bs
}

// checkBatch pushes ks (each accepted on its own) through the back end as one program; returns the
// number of failing candidates found.
func (r *c02Run) checkBatch(ks []*c02Cand) int {
	if len(ks) == 0 {
		return 0
	}
	if r.c.Expired() {
		r.c.Capped("compile stage: batches skipped at deadline")
		return 0
	}
	both := func(a, b []*c02Cand) int {
		var na, nb int
		var wg sync.WaitGroup
		wg.Add(1)
		go func() { defer wg.Done(); na = r.checkBatch(a) }()
		nb = r.checkBatch(b)
		wg.Wait()
		return na + nb
	}
	src := c02BatchSource(ks)
	if len(ks) > 1 {
		if ok, _ := r.accepts(src); !ok { // must not happen (unique names); fall back to halves
			r.c.Add("batches_not_accepted", 1)
			h := len(ks) / 2
			return both(ks[:h], ks[h:])
		}
	}
	f, infra := r.backend(src)
	if infra {
		atomic.AddInt64(&r.infra, 1)
		r.c.Capped("compile stage: infrastructure failure (timeout), batch skipped")
		return 0
	}
	if f == nil {
		r.c.Add("candidates_compiled", int64(len(ks)))
		r.mu.Lock()
		r.passed = append(r.passed, ks)
		r.mu.Unlock()
		return 0
	}
	if len(ks) == 1 {
		r.confirmAndReport(ks[0], f, func() (*c02Fail, bool) { return r.backend(src) }, src)
		return 1
	}
	if f.line > 0 { // the compiler names a source line: check that candidate alone, then the others
		if i := c02CandAtLine(ks, f.line); i >= 0 {
			rest := append(append([]*c02Cand{}, ks[:i]...), ks[i+1:]...)
			if n := r.checkBatch(ks[i : i+1]); n > 0 {
				return n + r.checkBatch(rest)
			}
		}
	}
	h := len(ks) / 2
	n := both(ks[:h], ks[h:])
	if n == 0 && !r.c.Expired() && r.infra == 0 { // fails only in combination: the batch itself is an accepted program
		k := ks[0]
		if i := c02CandAtLine(ks, f.line); f.line > 0 && i >= 0 {
			k = ks[i]
		}
		f.log = fmt.Sprintf("NOTE: this program consists of %d candidates; each half of it compiles, only the combination fails (state left behind by an earlier statement).\n", len(ks)) + f.log
		r.c.Add("failing_only_combined", 1)
		r.confirmAndReport(k, f, func() (*c02Fail, bool) { return r.backend(src) }, src)
		return 1
	}
	return n
}

// ---------------------------------------------------------------- the explorer

type c02Acc struct {
	idx  int // global cell index
	cell *c02Cell
}

func runC02(tier string) int {
	c := ev.New("C02", tier)
	c.Budget(map[string]int{"quick": 480, "thorough": 2600}[tier])
	r := &c02Run{c: c, tier: tier, accByOp: map[string]int{}, candByCx: map[string]int{}, distinct: map[string]bool{}, sigSeen: map[string]int{}, crashSamples: map[string]string{}}
	types := c02Types()
	only := os.Getenv("VERIF_ONLY") // dev filter: comma separated operator names

	// the list of lists (known to crash the code generator) is an operand class of the unary, cast and
	// type operators only
	var flat []*c02Type
	for _, t := range types {
		if !t.nested {
			flat = append(flat, t)
		}
	}
	// ternaries: quick uses a reduced class set
	tern := flat
	if tier == "quick" {
		tern = nil
		for _, t := range flat {
			switch t.key {
			case "Zahl", "Kommazahl", "Byte", "Wahrheitswert", "Text", "ZahlenListe", "Punkt", "Variable", "DefZahl":
				tern = append(tern, t)
			}
		}
	}
	var listTargets []*c02Type
	for _, t := range types {
		if !t.scalar {
			listTargets = append(listTargets, t)
		}
	}
	spaces := []*c02Space{
		{fam: "unary", ops: c02UnaryOps(), types: types, forms: c02Forms},
		{fam: "typeop", ops: c02TypeOps()[:2], targets: types},
		{fam: "typeop", ops: c02TypeOps()[2:], targets: listTargets},
		{fam: "target", ops: c02TargetOps(), types: types, targets: types, forms: c02Forms},
		{fam: "binary", ops: c02BinaryOps(), types: flat, forms: c02Forms},
		{fam: "ternary", ops: c02TernaryOps(), types: tern, forms: c02Forms},
	}
	lvSpaces := []*c02Space{
		{fam: "lvalue", ops: c02LvalueOps(), types: flat, forms: []string{"lit", "var"}, lvalue: true},
	}
	nmSpaces := []*c02Space{
		{fam: "n-mal", ops: c02NMalOps(), types: flat, forms: c02Forms},
	}
	filter := func(ops []c02Op) []c02Op {
		if only == "" {
			return ops
		}
		var out []c02Op
		for _, o := range ops {
			for _, w := range strings.Split(only, ",") {
				if o.name == w {
					out = append(out, o)
				}
			}
		}
		return out
	}
	allSpaces := append(append(append([]*c02Space{}, spaces...), lvSpaces...), nmSpaces...)
	for _, s := range allSpaces {
		s.ops = filter(s.ops)
	}

	var dump *os.File
	if d := os.Getenv("C02_DUMP"); d != "" {
		os.MkdirAll(d, 0o755)
		dump, _ = os.Create(filepath.Join(d, "stage1.tsv"))
		defer dump.Close()
	}
	ctxs := c02Contexts()
	lvCtxs := c02LvalueContexts()
	nmCtxs := c02NMalContexts()
	useCtx := func(x *c02Ctx) bool { return tier == "thorough" || x.quick }

	// The families are explored one after the other (admission -> contexts -> back end [-> run]), so
	// that a run stopped by its deadline on a loaded machine has complete results for the first ones.
	type unit struct {
		s    *c02Space
		cx   []c02Ctx
		base int
	}
	var units []unit
	base := 0
	for _, s := range spaces {
		units = append(units, unit{s, ctxs, base})
		base += s.size()
	}
	for _, s := range lvSpaces {
		units = append(units, unit{s, lvCtxs, base})
		base += s.size()
	}
	for _, s := range nmSpaces {
		units = append(units, unit{s, nmCtxs, base})
		base += s.size()
	}
	rank := map[string]int{"unary": 0, "typeop": 1, "target": 2, "lvalue": 3, "n-mal": 4, "binary": 5, "ternary": 6}
	sort.SliceStable(units, func(i, j int) bool { return rank[units[i].s.fam] < rank[units[j].s.fam] })

	// Operand form tuples: every tuple in the untyped contexts; in the typed contexts (one program per
	// declared type) quick keeps the uniform tuples (lit.., std.., var..), thorough also (var,lit,..) and (lit,var,..).
	useForms := func(cell *c02Cell, x *c02Ctx) bool {
		if len(cell.forms) < 2 {
			return true
		}
		uniform, mixed := true, cell.forms[0] != cell.forms[1] && cell.forms[0] != "std" && cell.forms[1] != "std"
		for _, f := range cell.forms[1:] {
			if f != cell.forms[0] {
				uniform = false
			}
		}
		for _, f := range cell.forms[2:] {
			if f != cell.forms[1] {
				mixed = false
			}
		}
		if !x.typed {
			return uniform || tier == "thorough" || x.name == "init-var" || x.name == "ausdruck"
		}
		return uniform || (tier == "thorough" && mixed)
	}
	var cells, cellsAccepted, candidates, skippedAusdruck int64
	var allCands []*c02Cand
	var nBatches int
	var dumpAcc *os.File
	if d := os.Getenv("C02_DUMP"); d != "" {
		dumpAcc, _ = os.Create(filepath.Join(d, "accepted.txt"))
		defer dumpAcc.Close()
	}
	probe := &ctxs[1] // expression statement: admits every well-typed expression, also one of type 'nichts'
	if probe.name != "ausdruck" {
		panic("context table changed")
	}
	famTime := map[string]float64{}
	for _, u := range units {
		t0 := time.Now()
		s := u.s
		// ---- stage 1: which operator applications does the frontend admit at all?
		var accMu sync.Mutex
		var acc []c02Acc
		n := s.size()
		if len(s.ops) == 0 {
			continue
		}
		done := par.Range(int64(n), 256, c.Expired, func(lo, hi int64) {
			var cs []*c02Cell
			var idx []int
			var srcs []string
			for i := lo; i < hi; i++ {
				if cell := s.cell(int(i)); cell != nil {
					cs = append(cs, cell)
					idx = append(idx, u.base+int(i))
					if !s.lvalue && s.fam != "n-mal" {
						srcs = append(srcs, probe.make(fmt.Sprintf("%dx0", u.base+int(i)), cell, nil).source())
					}
				}
			}
			atomic.AddInt64(&cells, int64(len(cs)))
			var res []c02ParseRes
			if srcs != nil {
				res = r.acceptsMany(srcs)
			}
			accMu.Lock()
			for j := range cs {
				ok := res == nil || res[j].OK // lvalues and 'N Mal x' have no context-free probe
				if ok {
					acc = append(acc, c02Acc{idx[j], cs[j]})
				}
				if dump != nil && res != nil {
					_, e := cs[j].render("")
					fmt.Fprintf(dump, "%v\t%s\t%s\t%s\t%s\t%s\n", ok, cs[j].op, cs[j].typeKey(), cs[j].formKey(), e, res[j].Diag)
				}
			}
			accMu.Unlock()
		})
		if done < int64(n) {
			c.Capped(fmt.Sprintf("stage 1 (%s): %d of %d cells examined before the deadline", s.fam, done, n))
		}
		sort.Slice(acc, func(i, j int) bool { return acc[i].idx < acc[j].idx })
		if !s.lvalue && s.fam != "n-mal" {
			for _, a := range acc {
				r.accByOp[a.cell.op]++
			}
			cellsAccepted += int64(len(acc))
		}

		// ---- stage 2: every admitted application in every value context (x declared type)
		pruned := s.fam == "binary" || s.fam == "ternary"
		var cands []*c02Cand
		var candMu sync.Mutex
		par.Each(acc, 0, func(_ int, jb c02Acc) {
			if c.Expired() {
				c.Capped("stage 2 (" + s.fam + "): cells skipped at deadline")
				return
			}
			var mine []*c02Cand
			var srcs []string
			// binary/ternary: learn from the typed initialiser which declared types can take the value at all
			initOK := map[*c02Type]bool{}
			if pruned {
				var ks []*c02Cand
				var ss []string
				for xi := range u.cx {
					if x := &u.cx[xi]; x.name == "init" {
						for _, T := range types {
							ks = append(ks, x.make(fmt.Sprintf("%dxp", jb.idx), jb.cell, T))
							ss = append(ss, ks[len(ks)-1].source())
						}
					}
				}
				for i, res := range r.acceptsMany(ss) {
					initOK[ks[i].declT] = res.OK
				}
			}
			slot := 0
			for xi := range u.cx {
				x := &u.cx[xi]
				var Ts []*c02Type
				if x.typed {
					for _, t := range types {
						if x.only == nil || x.only(t) {
							Ts = append(Ts, t)
						}
					}
				} else {
					Ts = []*c02Type{nil}
				}
				for _, T := range Ts {
					slot++
					if !useCtx(x) || !useForms(jb.cell, x) {
						continue
					}
					if pruned && T != nil && x.ownRule == false && x.name != "init" && !initOK[T] {
						continue // binary/ternary: see the assumption about declared types
					}
					if T != nil && T.nested && x.name != "init" { // the list of lists is a known crash: one typed context is enough
						continue
					}
					k := x.make(fmt.Sprintf("%dx%d", jb.idx, slot), jb.cell, T)
					mine = append(mine, k)
					srcs = append(srcs, k.source())
				}
			}
			atomic.AddInt64(&candidates, int64(len(mine)))
			res := r.acceptsMany(srcs)
			initVarOK := false
			for i, k := range mine {
				if k.ctx == "init-var" && res[i].OK {
					initVarOK = true
				}
			}
			candMu.Lock()
			for i, k := range mine {
				if res[i].OK {
					if tier == "quick" && k.ctx == "ausdruck" && initVarOK {
						skippedAusdruck++ // quick: the expression statement only matters where the value cannot be stored
						continue
					}
					cands = append(cands, k)
				}
			}
			candMu.Unlock()
		})
		sort.Slice(cands, func(i, j int) bool { return c02Less(cands[i], cands[j]) })
		for _, k := range cands {
			r.candByCx[k.ctx]++
			r.distinct[k.cell.op+"|"+k.cell.typeKey()+"|"+k.ctxKey()] = true
			if s.lvalue || s.fam == "n-mal" {
				r.accByOp[k.cell.op]++
			}
			if dumpAcc != nil {
				fmt.Fprintf(dumpAcc, "## %s %s %s %s\n%s%s\n", k.cell.op, k.cell.typeKey(), k.cell.formKey(), k.ctxKey(), k.pre, k.body)
			}
		}
		allCands = append(allCands, cands...)

		// ---- stage 3: back end, batched
		bs := len(cands) / (4 * c02Pool().N())
		if bs < 6 {
			bs = 6
		}
		if bs > 48 {
			bs = 48
		}
		var batches [][]*c02Cand
		for i := 0; i < len(cands); i += bs {
			j := i + bs
			if j > len(cands) {
				j = len(cands)
			}
			batches = append(batches, cands[i:j])
		}
		nBatches += len(batches)
		r.passed = nil
		par.Each(batches, 0, func(_ int, b []*c02Cand) { r.checkBatch(b) })

		// ---- stage 4 (thorough): link and run
		if tier == "thorough" {
			sort.Slice(r.passed, func(i, j int) bool { return c02Less(r.passed[i][0], r.passed[j][0]) })
			par.Each(r.passed, 0, func(_ int, b []*c02Cand) {
				var run []*c02Cand
				for _, k := range b {
					if k.unspecifiedAtRuntime() {
						r.c.Add("excluded_unspecified", 1)
						continue
					}
					if k.outOfDomain() && k.ctx != "init-var" {
						r.c.Add("run_excluded_out_of_domain_operands", 1)
						continue
					}
					run = append(run, k)
				}
				r.runStage(run)
			})
		}
		famTime[s.fam] += time.Since(t0).Seconds()
	}
	cands := allCands
	c.Set("cells", cells)
	c.Set("cells_accepted", cellsAccepted)
	c.Set("candidates", candidates)
	c.Set("candidates_accepted", int64(len(cands))+skippedAusdruck)
	c.Set("candidates_rejected_by_frontend", candidates-int64(len(cands))-skippedAusdruck)
	c.Set("candidates_accepted_not_compiled_in_quick", skippedAusdruck)
	c.Set("wall_seconds_per_family", famTime)
	r.report()
	if r.dudenDir != "" {
		os.RemoveAll(r.dudenDir)
	}
	c02Pool().Close()
	var ru, rc syscall.Rusage
	syscall.Getrusage(syscall.RUSAGE_SELF, &ru)
	syscall.Getrusage(syscall.RUSAGE_CHILDREN, &rc)
	tv := func(t syscall.Timeval) float64 { return float64(t.Sec) + float64(t.Usec)/1e6 }
	c.Set("cpu_seconds", map[string]float64{"driver": tv(ru.Utime) + tv(ru.Stime), "workers_user": tv(rc.Utime), "workers_sys": tv(rc.Stime)})

	// ---- evidence
	if only == "" {
		seenOps := map[string]bool{}
		for _, k := range cands {
			seenOps[k.cell.op] = true
		}
		for _, s := range allSpaces {
			for _, o := range s.ops {
				if !seenOps[o.name] && !c.Expired() {
					c.Broken("no candidate with operator " + o.name + " is accepted by the frontend: the generator's spelling of it must be wrong")
				}
			}
		}
	}
	c.Set("accepted_cells_per_operator", r.accByOp)
	c.Set("accepted_candidates_per_context", r.candByCx)
	c.Set("frontend_crashes_skipped", r.frontendCrashes)
	c.Set("frontend_crash_samples", r.crashSamples)
	if len(r.leakSamples) > 0 {
		c.Set("byproduct_leak_samples", r.leakSamples)
	}
	c.Set("infrastructure_failures", r.infra)
	c.Set("parse_calls", r.parses)
	c.Set("compile_calls", r.compiles)
	c.Set("batches", nBatches)
	if len(cands) > 0 {
		for _, i := range []int{0, len(cands) / 3, 2 * len(cands) / 3} {
			k := cands[i]
			c.Sample(map[string]any{"operator": k.cell.op, "operands": k.cell.typeKey(), "forms": k.cell.formKey(), "context": k.ctxKey(), "program": k.pre + k.body})
		}
	}
	c.Set("states", cells+candidates)
	c.Set("transitions", r.parses+r.compiles)
	c.Set("evaluations", r.parses+r.compiles)
	c.Set("traces_validated_against_impl", c.Get("candidates_compiled")+c.Get("violating_candidates"))
	c.Set("distinct_nontrivial", len(r.distinct))
	c.Set("rule", "state = (operator, operand classes, operand forms[, target type]) in (value context[, declared type]) rendered as a DDP program; premise = the real frontend reports no error; conclusion = IR at -O0/-O2 without internal error, llvm-as-14 accepts it, object code at -O0/-O2"+
		map[string]string{"quick": "", "thorough": ", links against the ASan runtime and runs to exit 0 or a Laufzeitfehler"}[tier]+"; distinct_nontrivial = distinct accepted (operator, classes, context)")
	var cxNames []string
	for i := range ctxs {
		if useCtx(&ctxs[i]) {
			cxNames = append(cxNames, ctxs[i].name)
		}
	}
	for _, x := range append(append([]c02Ctx{}, lvCtxs...), nmCtxs...) {
		if useCtx(&x) {
			cxNames = append(cxNames, x.name)
		}
	}
	var tnames, ternNames []string
	for _, t := range types {
		tnames = append(tnames, t.key+"="+t.name)
	}
	for _, t := range tern {
		ternNames = append(ternNames, t.key)
	}
	opNames := func(ops []c02Op) (o []string) {
		for _, x := range ops {
			o = append(o, x.name)
		}
		return
	}
	c.Set("bounds", map[string]any{"type_classes": tnames, "ternary_type_classes": ternNames, "operand_forms": c02Forms, "contexts": cxNames,
		"quick_form_tuples": "all 3^n form tuples in the contexts init-var/ausdruck, uniform tuples (lit.., std.., var..) in the other contexts",
		"unary":             opNames(c02UnaryOps()), "binary": opNames(c02BinaryOps()), "ternary": opNames(c02TernaryOps()), "with_target_type": opNames(c02TargetOps()), "type_operators": opNames(c02TypeOps()), "lvalues": opNames(c02LvalueOps()), "list_initialiser_only": opNames(c02NMalOps()),
		"batch_size": "6..48 candidates per program", "dev_filter": only})
	c.Assume("binary and ternary operators: the contexts assign/arg/return/listenelement are tried only with the declared types that accept the value as a typed initialiser ('Der T r ist E.'); the rule of every context for every (value type, declared type) pair is covered without this pruning by the unary, cast and type operators (der Standardwert von T yields every type)",
		"an operator application that the checker rejects as expression statement '(E).' is rejected in every value context (the checker types expressions bottom-up, without an expected type), so only admitted applications are crossed with the contexts",
		"a crash of the frontend itself is C03's business: counted and skipped",
		"all failures caused by a list whose element type is a list (toIrType) share one key")
	return c.Finish()
}

// ---------------------------------------------------------------- replay

func replayC02(dir string) int {
	b, err := os.ReadFile(filepath.Join(dir, "main.ddp"))
	if err != nil {
		fmt.Println("replay: no main.ddp in", dir)
		return 2
	}
	src := string(b)
	r := &c02Run{c: ev.New("C02", "replay"), crashSamples: map[string]string{}, sigSeen: map[string]int{}}
	defer func() {
		if r.dudenDir != "" {
			os.RemoveAll(r.dudenDir)
		}
	}()
	ok, crashed := r.accepts(src)
	fmt.Printf("frontend: accepted=%v crashed=%v\n", ok, crashed)
	if !ok {
		fmt.Println("the program is not accepted by the frontend (any more): outside the premise of C02")
		return 0
	}
	f, infra := r.backend(src)
	if infra {
		fmt.Println("infrastructure failure (timeout)")
		return 2
	}
	if f == nil {
		if _, err := os.Stat(filepath.Join(dir, "run.txt")); err == nil {
			f, _, infra = r.buildAndRun(src)
			if infra {
				fmt.Println("infrastructure failure (timeout)")
				return 2
			}
		}
	}
	if f != nil {
		fmt.Printf("VIOLATION property=C02 replay=%s\n  stage=%s reason=%s\n%s\n", dir, f.stage, f.msg, tailStr(f.log, 3000))
		if f.stage == "llvm-rejects" { // independent confirmation by the stand-alone LLVM tool
			tmp := rx.Scratch("c02replay")
			defer os.RemoveAll(tmp)
			for _, opt := range []uint{0, 2} {
				ll := filepath.Join(tmp, fmt.Sprintf("main.O%d.ll", opt))
				var resp fe.Resp
				rx.CompPool().Do(&fe.Req{Op: "compile", File: filepath.Join(tmp, "main.ddp"), Source: b, HasSrc: true, Out: ll, Kind: "ir", Opt: opt}, &resp, c02Timeout)
				out, err := exec.Command("llvm-as-14", "-o", "/dev/null", ll).CombinedOutput()
				fmt.Printf("llvm-as-14 on the IR emitted at -O%d: err=%v\n%s", opt, err, out)
			}
		}
		return 1
	}
	fmt.Println("C02 replay: accepted and compiled completely (IR -O0/-O2, llvm-as, object -O0/-O2)")
	return 0
}

func init() { checks["C02"] = check{runC02, replayC02} }
