package main

// C18 — foreign C functions see the published value representation (shape S).
// Every extern signature of arity 0..2 over 10 DDP kinds × {value, Referenz} × 11 return kinds
// (arity 3..6: a deterministic pairwise covering design + register-pressure shapes) is generated as
// (DDP declaration + call, C callee written against DDP/ddptypes.h). The C side prints every argument
// field by field, mutates by-value arguments in place (must stay invisible to the caller), mutates every
// Referenz target (must be visible), and returns a value built with the runtime allocator. The DDP
// side prints the result and all variables afterwards. Expected output = ffimodel below. Runs on the
// ASan runtime with the allocator ledger (caller frees each by-value copy once, keeps Referenz targets,
// owns the result).

import (
	"fmt"
	"os"
	"path/filepath"
	"strings"
	"sync"
	"sync/atomic"

	"ddpmc/internal/ev"
	"ddpmc/internal/par"
	"ddpmc/internal/rx"
)

type ffiKind struct {
	name    string // DDP type name
	ref     string // DDP Referenz type name
	decl    string // article + type for a variable declaration
	ret     string // "eine Zahl" for the return type
	init    string // DDP initial value
	ctype   string // C type by value (pointer for non-primitives)
	cref    string // C type for a Referenz parameter
	prim    bool
	cprint  string // C statement printing *%[1]s (an lvalue expression of the pointee / value)
	cmutVal string // C: mutate the by-value argument in place (non-primitives), "" for primitives
	cmutRef string // C: mutate the Referenz target
	cret    string // C: statements filling `ret` (non-primitive) or returning (primitive)
	ddpshow string // DDP statements printing variable %[1]s (each ends with newline print)
	// model: textual renderings
	cview, afterRef, afterVal, retView string // what C prints; DDP view after a Referenz mutation; after value pass (=initial); of the returned value
}

func sh(stmts ...string) string { return strings.Join(stmts, "\n") + "\n" }

func ffiKinds() []ffiKind {
	ln := `Schreibe den Buchstaben '\n'.`
	return []ffiKind{
		{name: "Zahl", ref: "Zahlen Referenz", decl: "Die Zahl", ret: "eine Zahl", init: "9223372036854775807", ctype: "ddpint", cref: "ddpintref", prim: true,
			cprint: `printf("Z%%lld;", (long long)(%[1]s));`, cmutRef: `*%[1]s = -*%[1]s;`, cret: `return -42;`,
			ddpshow: sh("Schreibe die Zahl %[1]s.", ln), cview: "Z9223372036854775807;", afterRef: "-9223372036854775807\n", afterVal: "9223372036854775807\n", retView: "-42\n"},
		{name: "Kommazahl", ref: "Kommazahlen Referenz", decl: "Die Kommazahl", ret: "eine Kommazahl", init: "-2,5", ctype: "ddpfloat", cref: "ddpfloatref", prim: true,
			cprint: `printf("K%%lld;", (long long)((%[1]s) * 1000));`, cmutRef: `*%[1]s = *%[1]s * 2;`, cret: `return 0.125;`,
			ddpshow: sh("Schreibe die Kommazahl %[1]s.", ln), cview: "K-2500;", afterRef: "-5\n", afterVal: "-2,5\n", retView: "0,125\n"},
		{name: "Byte", ref: "Byte Referenz", decl: "Der Byte", ret: "einen Byte", init: "200", ctype: "ddpbyte", cref: "ddpbyteref", prim: true,
			cprint: `printf("B%%u;", (unsigned)(%[1]s));`, cmutRef: `*%[1]s = (ddpbyte)(*%[1]s + 100);`, cret: `return 255;`,
			ddpshow: sh("Schreibe den Byte %[1]s.", ln), cview: "B200;", afterRef: "44\n", afterVal: "200\n", retView: "255\n"},
		{name: "Wahrheitswert", ref: "Wahrheitswert Referenz", decl: "Der Wahrheitswert", ret: "einen Wahrheitswert", init: "wahr", ctype: "ddpbool", cref: "ddpboolref", prim: true,
			cprint: `printf("W%%d;", (int)(%[1]s));`, cmutRef: `*%[1]s = !*%[1]s;`, cret: `return true;`,
			ddpshow: sh("Schreibe den Wahrheitswert %[1]s.", ln), cview: "W1;", afterRef: "falsch\n", afterVal: "wahr\n", retView: "wahr\n"},
		{name: "Buchstabe", ref: "Buchstaben Referenz", decl: "Der Buchstabe", ret: "einen Buchstaben", init: "'€'", ctype: "ddpchar", cref: "ddpcharref", prim: true,
			cprint: `printf("C%%d;", (int)(%[1]s));`, cmutRef: `*%[1]s = 0x1F600;`, cret: `return 0xE4;`,
			ddpshow: sh("Schreibe den Buchstaben %[1]s.", ln), cview: "C8364;", afterRef: "😀\n", afterVal: "€\n", retView: "ä\n"},
		{name: "Text", ref: "Text Referenz", decl: "Der Text", ret: "einen Text", init: `"t€x"`, ctype: "ddpstring *", cref: "ddpstringref",
			cprint:  `printf("T[%%s|%%lld];", (%[1]s)->str ? (%[1]s)->str : "", (long long)(%[1]s)->cap);`,
			cmutVal: `if ((%[1]s)->cap > 1) (%[1]s)->str[0] = 'Q';`,
			cmutRef: `ddp_free_string(%[1]s); ddp_string_from_constant(%[1]s, "REF\xc3\xa4");`,
			cret:    `ddp_string_from_constant(ret, "ret\xe2\x82\xac");`,
			ddpshow: sh("Schreibe den Text %[1]s.", ln), cview: "T[t€x|6];", afterRef: "REFä\n", afterVal: "t€x\n", retView: "ret€\n"},
		{name: "Zahlen Liste", ref: "Zahlen Listen Referenz", decl: "Die Zahlen Liste", ret: "eine Zahlen Liste", init: "eine Liste, die aus 1, -2, 3 besteht", ctype: "ddpintlist *", cref: "ddpintlistref",
			cprint:  `printf("ZL%%lld", (long long)(%[1]s)->len); for (ddpint i_ = 0; i_ < (%[1]s)->len; i_++) printf(",%%lld", (long long)(%[1]s)->arr[i_]); printf(";");`,
			cmutVal: `if ((%[1]s)->len > 0) (%[1]s)->arr[0] = 777;`,
			cmutRef: `if ((%[1]s)->len > 1) (%[1]s)->arr[1] = 99;`,
			cret:    `ddp_ddpintlist_from_constants(ret, 2); ret->arr[0] = 7; ret->arr[1] = -8;`,
			ddpshow: sh("Schreibe die Zahl (die Länge von %[1]s).", "Schreibe den Buchstaben ':'.", "Für jede Zahl el_%[1]s in %[1]s, mache:", "\tSchreibe die Zahl el_%[1]s.", "\tSchreibe den Buchstaben ','.", ln),
			cview:   "ZL3,1,-2,3;", afterRef: "3:1,99,3,\n", afterVal: "3:1,-2,3,\n", retView: "2:7,-8,\n"},
		{name: "Text Liste", ref: "Text Listen Referenz", decl: "Die Text Liste", ret: "eine Text Liste", init: `eine Liste, die aus "a", "", "ö" besteht`, ctype: "ddpstringlist *", cref: "ddpstringlistref",
			cprint:  `printf("TL%%lld", (long long)(%[1]s)->len); for (ddpint i_ = 0; i_ < (%[1]s)->len; i_++) printf(",%%s", (%[1]s)->arr[i_].str ? (%[1]s)->arr[i_].str : ""); printf(";");`,
			cmutVal: `if ((%[1]s)->len > 0 && (%[1]s)->arr[0].cap > 1) (%[1]s)->arr[0].str[0] = 'Q';`,
			cmutRef: `if ((%[1]s)->len > 2) { ddp_free_string(&(%[1]s)->arr[2]); ddp_string_from_constant(&(%[1]s)->arr[2], "neu"); }`,
			cret:    `ddp_ddpstringlist_from_constants(ret, 1); ddp_string_from_constant(&ret->arr[0], "elem");`,
			ddpshow: sh("Schreibe die Zahl (die Länge von %[1]s).", "Schreibe den Buchstaben ':'.", "Für jeden Text el_%[1]s in %[1]s, mache:", "\tSchreibe den Text el_%[1]s.", "\tSchreibe den Buchstaben ','.", ln),
			cview:   "TL3,a,,ö;", afterRef: "3:a,,neu,\n", afterVal: "3:a,,ö,\n", retView: "1:elem,\n"},
		{name: "Paar", ref: "Paar Referenz", decl: "Das Paar", ret: "ein Paar", init: `neues Paar 7 "p"`, ctype: "Paar *", cref: "Paar *",
			cprint:  `printf("P%%lld,%%s;", (long long)(%[1]s)->z, (%[1]s)->t.str ? (%[1]s)->t.str : "");`,
			cmutVal: `(%[1]s)->z = 555;`,
			cmutRef: `(%[1]s)->z = -(%[1]s)->z; ddp_free_string(&(%[1]s)->t); ddp_string_from_constant(&(%[1]s)->t, "rp");`,
			cret:    `ret->z = 3; ddp_string_from_constant(&ret->t, "neu");`,
			ddpshow: sh("Schreibe die Zahl (z von %[1]s).", "Schreibe den Buchstaben ','.", "Schreibe den Text (t von %[1]s).", ln),
			cview:   "P7,p;", afterRef: "-7,rp\n", afterVal: "7,p\n", retView: "3,neu\n"},
		{name: "Variable", ref: "Variablen Referenz", decl: "Die Variable", ret: "eine Variable", init: `"var" als Variable`, ctype: "ddpany *", cref: "ddpanyref",
			cprint:  `printf("V%%lld,%%s;", (long long)(%[1]s)->vtable_ptr->type_size, ((ddpstring *)(DDP_ANY_VALUE_PTR(%[1]s)))->str);`,
			cmutVal: `((ddpstring *)(DDP_ANY_VALUE_PTR(%[1]s)))->str[0] = 'Q';`,
			cmutRef: `((ddpstring *)(DDP_ANY_VALUE_PTR(%[1]s)))->str[1] = 'R';`,
			cret:    ``, // only via deep copy of a Variable parameter, see below
			ddpshow: sh("Schreibe den Text (%[1]s als Text).", ln), cview: "V16,var;", afterRef: "vRr\n", afterVal: "var\n", retView: "var\n"},
		// the remaining list types (ffiMainKinds = 10 kinds above take part in every arity; these only in arity 0-1 and next to a Zahl)
		{name: "Kommazahlen Liste", ref: "Kommazahlen Listen Referenz", decl: "Die Kommazahlen Liste", ret: "eine Kommazahlen Liste", init: "eine Liste, die aus 1,5, -2,25 besteht", ctype: "ddpfloatlist *", cref: "ddpfloatlistref",
			cprint:  `printf("KL%%lld", (long long)(%[1]s)->len); for (ddpint i_ = 0; i_ < (%[1]s)->len; i_++) printf(",%%lld", (long long)((%[1]s)->arr[i_] * 1000)); printf(";");`,
			cmutVal: `if ((%[1]s)->len > 0) (%[1]s)->arr[0] = 777.0;`,
			cmutRef: `if ((%[1]s)->len > 1) (%[1]s)->arr[1] = 99.5;`,
			cret:    `ddp_ddpfloatlist_from_constants(ret, 2); ret->arr[0] = 0.5; ret->arr[1] = -8.0;`,
			ddpshow: sh("Schreibe die Zahl (die Länge von %[1]s).", "Schreibe den Buchstaben ':'.", "Für jede Kommazahl el_%[1]s in %[1]s, mache:", "\tSchreibe die Kommazahl el_%[1]s.", "\tSchreibe den Buchstaben ';'.", ln),
			cview:   "KL2,1500,-2250;", afterRef: "2:1,5;99,5;\n", afterVal: "2:1,5;-2,25;\n", retView: "2:0,5;-8;\n"},
		{name: "Byte Liste", ref: "Byte Listen Referenz", decl: "Die Byte Liste", ret: "eine Byte Liste", init: "eine Liste, die aus (200 als Byte), (7 als Byte) besteht", ctype: "ddpbytelist *", cref: "ddpbytelistref",
			cprint:  `printf("BL%%lld", (long long)(%[1]s)->len); for (ddpint i_ = 0; i_ < (%[1]s)->len; i_++) printf(",%%u", (unsigned)(%[1]s)->arr[i_]); printf(";");`,
			cmutVal: `if ((%[1]s)->len > 0) (%[1]s)->arr[0] = 77;`,
			cmutRef: `if ((%[1]s)->len > 1) (%[1]s)->arr[1] = 99;`,
			cret:    `ddp_ddpbytelist_from_constants(ret, 2); ret->arr[0] = 255; ret->arr[1] = 0;`,
			ddpshow: sh("Schreibe die Zahl (die Länge von %[1]s).", "Schreibe den Buchstaben ':'.", "Für jeden Byte el_%[1]s in %[1]s, mache:", "\tSchreibe den Byte el_%[1]s.", "\tSchreibe den Buchstaben ';'.", ln),
			cview:   "BL2,200,7;", afterRef: "2:200;99;\n", afterVal: "2:200;7;\n", retView: "2:255;0;\n"},
		{name: "Wahrheitswert Liste", ref: "Wahrheitswert Listen Referenz", decl: "Die Wahrheitswert Liste", ret: "eine Wahrheitswert Liste", init: "eine Liste, die aus wahr, falsch besteht", ctype: "ddpboollist *", cref: "ddpboollistref",
			cprint:  `printf("WL%%lld", (long long)(%[1]s)->len); for (ddpint i_ = 0; i_ < (%[1]s)->len; i_++) printf(",%%d", (int)(%[1]s)->arr[i_]); printf(";");`,
			cmutVal: `if ((%[1]s)->len > 0) (%[1]s)->arr[0] = false;`,
			cmutRef: `if ((%[1]s)->len > 1) (%[1]s)->arr[1] = true;`,
			cret:    `ddp_ddpboollist_from_constants(ret, 2); ret->arr[0] = false; ret->arr[1] = true;`,
			ddpshow: sh("Schreibe die Zahl (die Länge von %[1]s).", "Schreibe den Buchstaben ':'.", "Für jeden Wahrheitswert el_%[1]s in %[1]s, mache:", "\tSchreibe den Wahrheitswert el_%[1]s.", "\tSchreibe den Buchstaben ';'.", ln),
			cview:   "WL2,1,0;", afterRef: "2:wahr;wahr;\n", afterVal: "2:wahr;falsch;\n", retView: "2:falsch;wahr;\n"},
		{name: "Buchstaben Liste", ref: "Buchstaben Listen Referenz", decl: "Die Buchstaben Liste", ret: "eine Buchstaben Liste", init: "eine Liste, die aus 'a', '€' besteht", ctype: "ddpcharlist *", cref: "ddpcharlistref",
			cprint:  `printf("CL%%lld", (long long)(%[1]s)->len); for (ddpint i_ = 0; i_ < (%[1]s)->len; i_++) printf(",%%d", (int)(%[1]s)->arr[i_]); printf(";");`,
			cmutVal: `if ((%[1]s)->len > 0) (%[1]s)->arr[0] = 'Q';`,
			cmutRef: `if ((%[1]s)->len > 1) (%[1]s)->arr[1] = 0xE4;`,
			cret:    `ddp_ddpcharlist_from_constants(ret, 2); ret->arr[0] = 'x'; ret->arr[1] = 0x1F600;`,
			ddpshow: sh("Schreibe die Zahl (die Länge von %[1]s).", "Schreibe den Buchstaben ':'.", "Für jeden Buchstaben el_%[1]s in %[1]s, mache:", "\tSchreibe den Buchstaben el_%[1]s.", "\tSchreibe den Buchstaben ';'.", ln),
			cview:   "CL2,97,8364;", afterRef: "2:a;ä;\n", afterVal: "2:a;€;\n", retView: "2:x;😀;\n"},
	}
}

// ffiMainKinds: the first kinds of ffiKinds() take part in signatures of every arity
const ffiMainKinds = 10

type ffiParam struct {
	k   int // index into kinds
	ref bool
}
type ffiSig struct {
	params []ffiParam
	ret    int // index into kinds, -1 = nichts
}

func (s ffiSig) key(ks []ffiKind) string {
	var ps []string
	for _, p := range s.params {
		n := ks[p.k].name
		if p.ref {
			n += "&"
		}
		ps = append(ps, n)
	}
	r := "nichts"
	if s.ret >= 0 {
		r = ks[s.ret].name
	}
	return "(" + strings.Join(ps, ",") + ")->" + r
}

// valid: a Variable result can only be produced by copying a Variable parameter
func (s ffiSig) valid(ks []ffiKind) bool {
	if s.ret >= 0 && ks[s.ret].name == "Variable" {
		for _, p := range s.params {
			if ks[p.k].name == "Variable" {
				return true
			}
		}
		return false
	}
	return true
}

// generate the DDP and C text for function number n of a program, plus the expected output
func ffiGen(n int, s ffiSig, ks []ffiKind, qualifier string) (ddpDecl, ddpCall, cDef, expected string) {
	fname := fmt.Sprintf("ffi_%d", n)
	var names, types, cparams, alias []string
	for i, p := range s.params {
		pn := fmt.Sprintf("p%d", i)
		names = append(names, pn)
		k := ks[p.k]
		if p.ref {
			types = append(types, k.ref)
			cparams = append(cparams, k.cref+" "+pn)
		} else {
			types = append(types, k.name)
			cparams = append(cparams, k.ctype+" "+pn)
		}
		alias = append(alias, "<"+pn+">")
	}
	h := "Die " + qualifier + "Funktion " + fname
	if len(names) == 1 {
		h += " mit dem Parameter " + names[0] + " vom Typ " + types[0] + ","
	} else if len(names) > 1 {
		h += " mit den Parametern " + join(names) + " vom Typ " + join(types) + ","
	}
	if s.ret < 0 {
		h += " gibt nichts zurück,"
	} else {
		h += " gibt " + ks[s.ret].ret + " zurück,"
	}
	ddpDecl = h + "\nist in \"ffi.c\" definiert\nund kann so benutzt werden:\n\t\"rufe " + fname + " " + strings.Join(alias, " ") + "\"\n\n"
	// C definition
	crett := "void"
	var cp []string
	if s.ret >= 0 {
		if ks[s.ret].prim {
			crett = ks[s.ret].ctype
		} else {
			cp = append(cp, strings.TrimSuffix(ks[s.ret].ctype, " *")+" *ret")
		}
	}
	cp = append(cp, cparams...)
	if len(cp) == 0 {
		cp = []string{"void"}
	}
	var body strings.Builder
	fmt.Fprintf(&body, "\tprintf(\"%s:\");\n", fname)
	expected = fname + ":"
	for i, p := range s.params {
		k := ks[p.k]
		acc := fmt.Sprintf("p%d", i)
		if p.ref && k.prim {
			acc = "*" + acc
		}
		fmt.Fprintf(&body, "\t"+k.cprint+"\n", acc)
		expected += k.cview
	}
	body.WriteString("\tprintf(\"\\n\");\n")
	expected += "\n"
	// a Variable result is a deep copy of the first Variable parameter, taken BEFORE any mutation
	if s.ret >= 0 && ks[s.ret].name == "Variable" {
		for i, p := range s.params {
			if ks[p.k].name == "Variable" {
				fmt.Fprintf(&body, "\tddp_deep_copy_any(ret, p%d);\n", i)
				break
			}
		}
	}
	for i, p := range s.params {
		k := ks[p.k]
		pn := fmt.Sprintf("p%d", i)
		if p.ref {
			fmt.Fprintf(&body, "\t"+k.cmutRef+"\n", pn)
		} else if k.cmutVal != "" {
			fmt.Fprintf(&body, "\t"+k.cmutVal+"\n", pn)
		}
	}
	if s.ret >= 0 && ks[s.ret].cret != "" {
		body.WriteString("\t" + ks[s.ret].cret + "\n")
	}
	cDef = crett + " " + fname + "(" + strings.Join(cp, ", ") + ") {\n" + body.String() + "}\n\n"
	// DDP call site: fresh variables, call, show result and variables
	var call strings.Builder
	var args []string
	for i, p := range s.params {
		vn := fmt.Sprintf("v%d_%d", n, i)
		fmt.Fprintf(&call, "%s %s ist %s.\n", ks[p.k].decl, vn, ks[p.k].init)
		args = append(args, vn)
	}
	callExpr := "rufe " + fname
	if len(args) > 0 {
		callExpr += " " + strings.Join(args, " ")
	}
	if s.ret < 0 {
		call.WriteString(callExpr + ".\n")
	} else {
		rn := fmt.Sprintf("r%d", n)
		fmt.Fprintf(&call, "%s %s ist %s.\n", ks[s.ret].decl, rn, callExpr)
		fmt.Fprintf(&call, ks[s.ret].ddpshow, rn)
		expected += ks[s.ret].retView
	}
	for i, p := range s.params {
		vn := fmt.Sprintf("v%d_%d", n, i)
		fmt.Fprintf(&call, ks[p.k].ddpshow, vn)
		if p.ref {
			expected += ks[p.k].afterRef
		} else {
			expected += ks[p.k].afterVal
		}
	}
	// the same call from inside a DDP function that forwards its own BY-VALUE parameters (by Referenz where
	// the extern wants one): the C function must see and change the callee's copies, never the variables
	// of the caller one level up, and every copy is freed exactly once
	if len(s.params) > 0 {
		var wn, wt, wa, fwd []string
		for i, p := range s.params {
			wn = append(wn, fmt.Sprintf("w%d", i))
			wt = append(wt, ks[p.k].name)
			wa = append(wa, fmt.Sprintf("<w%d>", i))
			fwd = append(fwd, fmt.Sprintf("w%d", i))
		}
		indent := func(t string) string {
			return "\t" + strings.ReplaceAll(strings.TrimSuffix(t, "\n"), "\n", "\n\t") + "\n"
		}
		h := fmt.Sprintf("Die Funktion weiter_%d", n)
		if len(wn) == 1 {
			h += " mit dem Parameter " + wn[0] + " vom Typ " + wt[0] + ","
		} else {
			h += " mit den Parametern " + join(wn) + " vom Typ " + join(wt) + ","
		}
		call.WriteString(h + " gibt nichts zurück, macht:\n")
		inner := "rufe " + fname + " " + strings.Join(fwd, " ")
		expected += fname + ":"
		for _, p := range s.params {
			expected += ks[p.k].cview
		}
		expected += "\n"
		if s.ret < 0 {
			call.WriteString(indent(inner + "."))
		} else {
			call.WriteString(indent(fmt.Sprintf("%s wr ist %s.", ks[s.ret].decl, inner)))
			call.WriteString(indent(fmt.Sprintf(ks[s.ret].ddpshow, "wr")))
			expected += ks[s.ret].retView
		}
		for i, p := range s.params {
			call.WriteString(indent(fmt.Sprintf(ks[p.k].ddpshow, fmt.Sprintf("w%d", i))))
			if p.ref {
				expected += ks[p.k].afterRef
			} else {
				expected += ks[p.k].afterVal
			}
		}
		fmt.Fprintf(&call, "Und kann so benutzt werden:\n\t\"leite %d %s\"\n\n", n, strings.Join(wa, " "))
		var us []string
		for i, p := range s.params {
			un := fmt.Sprintf("u%d_%d", n, i)
			fmt.Fprintf(&call, "%s %s ist %s.\n", ks[p.k].decl, un, ks[p.k].init)
			us = append(us, un)
		}
		fmt.Fprintf(&call, "leite %d %s.\n", n, strings.Join(us, " "))
		for i, p := range s.params {
			call.WriteString(fmt.Sprintf(ks[p.k].ddpshow, us[i]))
			expected += ks[p.k].afterVal // the caller's variables are untouched whatever the extern did to the copies
		}
	}
	ddpCall = call.String()
	return
}

const ffiPrelude = `Binde "Duden/Ausgabe" ein.

Wir nennen die öffentliche Kombination aus
	der öffentlichen Zahl z mit Standardwert 0,
	dem öffentlichen Text t mit Standardwert "",
ein Paar, und erstellen sie so:
	"neues Paar <z> <t>"

`

const ffiCPrelude = `#include "DDP/ddptypes.h"
#include "DDP/ddpmemory.h"
#include <stdio.h>
#include <stdbool.h>

typedef struct { ddpint z; ddpstring t; } Paar;

`

func ffiSignatures(tier string, ks []ffiKind) []ffiSig {
	var out []ffiSig
	nk := len(ks)
	var all []ffiParam
	for k := 0; k < nk; k++ {
		all = append(all, ffiParam{k, false}, ffiParam{k, true})
	}
	rets := []int{-1}
	for k := 0; k < nk; k++ {
		rets = append(rets, k)
	}
	add := func(s ffiSig) {
		if s.valid(ks) {
			out = append(out, s)
		}
	}
	for _, r := range rets {
		add(ffiSig{nil, r})
		for _, a := range all {
			add(ffiSig{[]ffiParam{a}, r})
		}
	}
	// the extra list kinds next to a Zahl in both positions (value and Referenz)
	for _, a := range all[2*ffiMainKinds:] {
		add(ffiSig{[]ffiParam{a, {0, false}}, -1})
		add(ffiSig{[]ffiParam{{0, true}, a}, a.k})
	}
	all, rets = all[:2*ffiMainKinds], rets[:ffiMainKinds+1] // higher arities: main kinds only
	// arity 2: thorough = all 400 × 11; quick = every ordered pair once, return kind rotating (pairwise in (p0,p1), (p,ret))
	i := 0
	for _, a := range all {
		for _, b := range all {
			if tier == "thorough" {
				for _, r := range rets {
					add(ffiSig{[]ffiParam{a, b}, r})
				}
			} else {
				add(ffiSig{[]ffiParam{a, b}, rets[i%len(rets)]})
				i++
			}
		}
	}
	// arity 3..6: deterministic pairwise covering over (position, kind): row j of arity n uses all[(j*(p+1)+p*7) mod 20] at position p
	for n := 3; n <= 6; n++ {
		for j := 0; j < 20*3; j++ {
			var ps []ffiParam
			for p := 0; p < n; p++ {
				ps = append(ps, all[(j*(p+1)+p*7+j/20)%len(all)])
			}
			add(ffiSig{ps, rets[(j+n)%len(rets)]})
		}
	}
	// register pressure shapes
	rep := func(p ffiParam, n int) []ffiParam {
		var o []ffiParam
		for i := 0; i < n; i++ {
			o = append(o, p)
		}
		return o
	}
	add(ffiSig{rep(ffiParam{0, false}, 6), 0})                                   // 6 integers
	add(ffiSig{rep(ffiParam{1, false}, 6), 1})                                   // 6 doubles
	add(ffiSig{append(rep(ffiParam{5, false}, 6), ffiParam{1, false}, ffiParam{1, false}), 5}) // 6 pointers + 2 doubles, Text result (out pointer: 7 integer-class args)
	add(ffiSig{[]ffiParam{{0, false}, {1, false}, {0, true}, {1, true}, {2, false}, {3, false}}, 8})
	add(ffiSig{[]ffiParam{{8, false}, {8, true}, {5, false}, {5, true}, {6, false}, {6, true}}, 6})
	return out
}

func runC18(tier string) int {
	c := ev.New("C18", tier)
	c.Budget(map[string]int{"quick": 300, "thorough": 2400}[tier])
	ks := ffiKinds()
	sigs := ffiSignatures(tier, ks)
	perProg := 40
	type prog struct {
		sigs []ffiSig
		base int
		imp  bool // functions declared in an imported module
	}
	var progs []prog
	for i := 0; i < len(sigs); i += perProg {
		j := min(i+perProg, len(sigs))
		progs = append(progs, prog{sigs[i:j], i, false})
		if tier == "thorough" || (i/perProg)%4 == 0 {
			progs = append(progs, prog{sigs[i:j], i, true})
		}
	}
	var runs, failed int64
	var mu sync.Mutex
	runOne := func(p prog, only int) (ok bool, what string, files map[string]string) {
		var decls, calls, cdefs, exp strings.Builder
		for i, s := range p.sigs {
			if only >= 0 && i != only {
				continue
			}
			q := ""
			if p.imp {
				q = "öffentliche "
			}
			d, cl, cd, e := ffiGen(p.base+i, s, ks, q)
			decls.WriteString(d)
			calls.WriteString(cl)
			cdefs.WriteString(cd)
			exp.WriteString(e)
		}
		files = map[string]string{"ffi.c": ffiCPrelude + cdefs.String()}
		if p.imp {
			files["ffimod.ddp"] = ffiPrelude + decls.String()
			files["main.ddp"] = "Binde \"Duden/Ausgabe\" ein.\nBinde \"ffimod\" ein.\n\n" + calls.String()
		} else {
			files["main.ddp"] = ffiPrelude + decls.String() + calls.String()
		}
		files["expected.txt"] = exp.String()
		dir := rx.Scratch("c18")
		defer os.RemoveAll(dir)
		rx.WriteFiles(dir, files)
		for _, lvl := range []uint{1, 2} {
			bo := ledgerBuild()
			bo.Opt, bo.Asan = lvl, true
			b := rx.Build(dir, "main.ddp", bo)
			if !b.OK {
				d := ""
				for _, x := range b.Resp.Diags {
					d += x.String() + "\n"
				}
				return false, fmt.Sprintf("-O%d: build failed at stage %s: %s\n%s", lvl, b.Stage, firstLines(b.Log, 6), d), files
			}
			r := rx.RunRobust(b.Exe, rx.RunOpts{NoLimit: true})
			atomic.AddInt64(&runs, 1)
			if r.Infra {
				c.Broken("cannot run " + b.Exe)
				return true, "", files
			}
			if r.Stdout != exp.String() || r.Exit != 0 {
				return false, fmt.Sprintf("-O%d: exit %d (%s)\nexpected:\n%s\ngot:\n%s\nstderr: %s", lvl, r.Exit, r.Class(), firstRunes(exp.String(), 600), firstRunes(r.Stdout, 600), firstRunes(r.Stderr, 400)), files
			}
			if v := memoryVerdict(r); v != "" {
				return false, fmt.Sprintf("-O%d: memory monitor: %s", lvl, v), files
			}
		}
		return true, "", files
	}
	par.Each(progs, 0, func(_ int, p prog) {
		if c.Expired() {
			c.Capped("deadline: programs skipped")
			return
		}
		ok, _, _ := runOne(p, -1)
		if ok {
			return
		}
		// attribute to single signatures
		found := false
		for i, s := range p.sigs {
			ok1, what, files := runOne(p, i)
			if ok1 {
				continue
			}
			if ok2, _, _ := runOne(p, i); ok2 {
				c.Add("flaky_not_reported", 1)
				continue
			}
			found = true
			atomic.AddInt64(&failed, 1)
			where := "declaring-module"
			if p.imp {
				where = "imported-module"
			}
			c.Violation("C18:sig:"+s.key(ks)+":"+where, "extern signature "+s.key(ks)+" called from the "+where+"\n"+what, files)
		}
		if !found {
			_, what, files := runOne(p, -1)
			mu.Lock()
			c.Violation(fmt.Sprintf("C18:batch-only:%d:%v", p.base, p.imp), "fails only as a batch of signatures\n"+what, files)
			mu.Unlock()
		}
	})
	nProg := len(progs)
	ns := 0
	for _, p := range progs {
		ns += len(p.sigs)
	}
	c.Set("evaluations", ns)
	c.Set("states", ns)
	c.Set("transitions", runs)
	c.Set("traces_validated_against_impl", runs)
	c.Set("distinct_nontrivial", len(sigs))
	c.Set("programs", nProg)
	c.Set("rule", "state = one extern signature called once with boundary values (from the declaring module; a quarter / thorough: all also from an importing module); the C callee's view, the DDP view after the call and the allocator ledger + ASan are compared with the ffimodel")
	c.Set("bounds", map[string]any{"kinds": 10, "arity_0_1": "exhaustive × 11 return kinds", "arity_2": map[string]string{"quick": "all 400 ordered parameter pairs, return kind rotating", "thorough": "all 400 × 11"}[tier],
		"arity_3_6": "60 rows per arity of a deterministic covering design + 5 register-pressure shapes (a covering design, not exhaustive)"})
	c.Sample(map[string]any{"signature": sigs[25].key(ks)})
	c.Sample(map[string]any{"signature": sigs[len(sigs)-1].key(ks)})
	c.Assume("a Variable result is only generated as ddp_deep_copy_any of a Variable parameter (the C side has no published way to build a Variable from scratch)",
		"C struct for the Kombination is written by hand from the field order: {ddpint z; ddpstring t;}")
	return c.Finish()
}

func replayC18(dir string) int {
	d := rx.Scratch("c18r")
	defer os.RemoveAll(d)
	for _, f := range []string{"main.ddp", "ffi.c", "ffimod.ddp"} {
		if b, err := os.ReadFile(filepath.Join(dir, f)); err == nil {
			rx.WriteFiles(d, map[string]string{f: string(b)})
		}
	}
	exp, _ := os.ReadFile(filepath.Join(dir, "expected.txt"))
	bo := ledgerBuild()
	bo.Opt, bo.Asan = 1, true
	b := rx.Build(d, "main.ddp", bo)
	if !b.OK {
		fmt.Printf("VIOLATION property=C18 replay=%s\n  build failed: %s\n", dir, firstLines(b.Log, 5))
		return 1
	}
	r := rx.RunRobust(b.Exe, rx.RunOpts{NoLimit: true})
	if r.Stdout != string(exp) || r.Exit != 0 || memoryVerdict(r) != "" {
		fmt.Printf("VIOLATION property=C18 replay=%s\n  exit %d\n  got: %q\n  memory: %s\n", dir, r.Exit, firstRunes(r.Stdout, 400), memoryVerdict(r))
		return 1
	}
	fmt.Println("C18 replay: behaves as the ffimodel prescribes")
	return 0
}

func init() { checks["C18"] = check{runC18, replayC18} }

func join(names []string) string {
	if len(names) == 1 {
		return names[0]
	}
	return strings.Join(names[:len(names)-1], ", ") + " und " + names[len(names)-1]
}
