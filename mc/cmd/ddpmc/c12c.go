package main

// C12 part (c): compiled code. For every content reached in part (b), one DDP program that produces
// the text in every way found (literal, the three concatenations, slice, replacement by a
// shorter / longer / equally long character, copy) with DDP operations and then observes every
// variable: printing, length, indexing, Buchstabe<->Zahl, Buchstabe->Text, equality against a
// literal and against every other variable (different histories), concatenation, slicing, for-each.
// Compiled by rx.Build (same compile+link as kddp), run by rx.Run; stdout compared with the []rune model.
// + replay of all C12 cases.

import (
	"encoding/hex"
	"fmt"
	"os"
	"os/exec"
	"path/filepath"
	"sort"
	"strconv"
	"strings"
	"sync"
	"time"

	"ddpmc/internal/ev"
	"ddpmc/internal/par"
	"ddpmc/internal/rx"
	"ddpmc/internal/textmodel"
)

type ddpVar struct {
	name string
	how  string
	prog string
}

type ddpLine struct {
	tag  string // <how>.<obs>
	how  string
	obs  string
	want string
}

// ddpHistory turns a driver program into DDP statements; returns the variable holding the result.
func ddpHistory(prog, prefix string) (stmts []string, top string, err error) {
	var stack []string
	n := 0
	fresh := func() string { n++; return fmt.Sprintf("%s%d", prefix, n) }
	pop := func() string {
		if len(stack) == 0 {
			err = fmt.Errorf("underflow")
			return "?"
		}
		t := stack[len(stack)-1]
		stack = stack[:len(stack)-1]
		return t
	}
	ch := func(h string) string {
		c, _ := strconv.ParseInt(h, 16, 64)
		return "'" + string(rune(c)) + "'"
	}
	for _, tok := range strings.Fields(prog) {
		switch {
		case tok == "SS":
			b, a := pop(), pop()
			v := fresh()
			stmts = append(stmts, fmt.Sprintf("Der Text %s ist %s verkettet mit %s.", v, a, b))
			stack = append(stack, v)
		case tok == "D":
			a := pop()
			v := fresh()
			stmts = append(stmts, fmt.Sprintf("Der Text %s ist %s.", v, a))
			stack = append(stack, v)
		case strings.HasPrefix(tok, "K"):
			b, _ := hex.DecodeString(tok[1:])
			v := fresh()
			stmts = append(stmts, fmt.Sprintf("Der Text %s ist \"%s\".", v, string(b)))
			stack = append(stack, v)
		case strings.HasPrefix(tok, "SC"):
			a := pop()
			v := fresh()
			stmts = append(stmts, fmt.Sprintf("Der Text %s ist %s verkettet mit %s.", v, a, ch(tok[2:])))
			stack = append(stack, v)
		case strings.HasPrefix(tok, "CS"):
			a := pop()
			v := fresh()
			stmts = append(stmts, fmt.Sprintf("Der Text %s ist %s verkettet mit %s.", v, ch(tok[2:]), a))
			stack = append(stack, v)
		case strings.HasPrefix(tok, "SL"):
			a := pop()
			v := fresh()
			ij := strings.SplitN(tok[2:], ",", 2)
			stmts = append(stmts, fmt.Sprintf("Der Text %s ist %s im Bereich von %s bis %s.", v, a, ij[0], ij[1]))
			stack = append(stack, v)
		case strings.HasPrefix(tok, "R"):
			if len(stack) == 0 {
				return nil, "", fmt.Errorf("R: underflow")
			}
			p := strings.SplitN(tok[1:], ",", 2)
			stmts = append(stmts, fmt.Sprintf("%s an der Stelle %s ist %s.", stack[len(stack)-1], p[0], ch(p[1])))
		default:
			return nil, "", fmt.Errorf("token %q has no DDP form", tok)
		}
	}
	if err != nil || len(stack) == 0 {
		return nil, "", fmt.Errorf("bad program %q", prog)
	}
	return stmts, stack[len(stack)-1], nil
}

// ddpAllPairs: compare every variable with every other one (thorough); otherwise each one with the first (both orders)
var ddpAllPairs = false

var c12Obs = []string{"T", "L", "I", "A", "E", "C1", "C2", "C3", "C4", "C5", "S"}

func b2s(b bool) string {
	if b {
		return "wahr"
	}
	return "falsch"
}

// ddpObserve: statements + expected payload of one observation of variable v with model content x.
func ddpObserve(obs, tag, v string, x []rune, guard bool) (st []string, want string) {
	X := string(x)
	n := len(x)
	st = append(st, fmt.Sprintf("Schreibe den Text \"%s:\".", tag))
	nl := "Schreibe den Buchstaben '\\n'."
	switch obs {
	case "T":
		st = append(st, fmt.Sprintf("Schreibe den Text %s auf eine Zeile.", v))
		want = X
	case "L":
		st = append(st, fmt.Sprintf("Schreibe die Zahl (die Länge von %s) auf eine Zeile.", v))
		want = strconv.Itoa(n)
	case "I":
		for i := 1; i <= n; i++ {
			st = append(st, fmt.Sprintf("Schreibe die Zahl ((%s an der Stelle %d) als Zahl).", v, i), "Schreibe den Buchstaben ','.")
			want += fmt.Sprintf("%d,", x[i-1])
		}
		st = append(st, nl)
	case "A":
		for i := 1; i <= n; i++ {
			st = append(st, fmt.Sprintf("Schreibe den Buchstaben (%s an der Stelle %d).", v, i),
				fmt.Sprintf("Schreibe den Text ((%s an der Stelle %d) als Text).", v, i),
				fmt.Sprintf("Schreibe den Buchstaben (%d als Buchstabe).", x[i-1]))
			want += strings.Repeat(string(x[i-1]), 3)
		}
		st = append(st, nl)
	case "E":
		st = append(st, fmt.Sprintf("Schreibe den Wahrheitswert (%s gleich \"%s\" ist).", v, X),
			fmt.Sprintf("Schreibe den Wahrheitswert (\"%s\" gleich %s ist).", X, v),
			fmt.Sprintf("Schreibe den Wahrheitswert (%s ungleich \"%s\" ist).", v, X))
		want = "wahrwahrfalsch"
		if n > 0 {
			tw := append([]rune{}, x...)
			tw[n-1] = textmodel.Twin[tw[n-1]]
			st = append(st, fmt.Sprintf("Schreibe den Wahrheitswert (%s gleich \"%s\" ist).", v, string(tw)),
				fmt.Sprintf("Schreibe den Wahrheitswert (\"%s\" gleich %s ist).", string(tw), v))
			want += "falschfalsch"
		}
		st = append(st, nl)
	case "C1":
		st = append(st, fmt.Sprintf("Schreibe den Text (%s verkettet mit \"€a\") auf eine Zeile.", v))
		want = X + "€a"
	case "C2":
		st = append(st, fmt.Sprintf("Schreibe den Text (\"a€\" verkettet mit %s) auf eine Zeile.", v))
		want = "a€" + X
	case "C3":
		st = append(st, fmt.Sprintf("Schreibe den Text (%s verkettet mit 'ä') auf eine Zeile.", v))
		want = X + "ä"
	case "C4":
		st = append(st, fmt.Sprintf("Schreibe den Text ('😀' verkettet mit %s) auf eine Zeile.", v))
		want = "😀" + X
	case "C5":
		st = append(st, fmt.Sprintf("Schreibe den Text (%s verkettet mit %s) auf eine Zeile.", v, v))
		want = X + X
	case "S":
		// first character, whole text, tail with clamped upper index, last character, middle
		// (every in-domain pair is executed on the runtime in part b)
		seen := map[[2]int]bool{}
		for _, ij := range [][2]int{{1, 1}, {1, n}, {2, n + 1}, {n, n}, {2, n - 1}, {1, n + 1}} {
			i, j := ij[0], ij[1]
			if seen[ij] || !textmodel.SliceInDomain(n, i, j) {
				continue
			}
			seen[ij] = true
			st = append(st, fmt.Sprintf("Schreibe den Text (%s im Bereich von %d bis %d).", v, i, j), "Schreibe den Buchstaben '|'.")
			want += string(textmodel.Slice(x, i, j)) + "|"
		}
		st = append(st, nl)
	case "F":
		st = append(st, fmt.Sprintf("Für jeden Buchstaben b mit Index i in %s, mache:", v))
		if guard {
			// the combined programs bound the loop so that one misbehaving variable cannot mask the others
			st = append(st, fmt.Sprintf("\tWenn i gleich %d ist, verlasse die Schleife.", n+3))
		}
		st = append(st, "\tSchreibe die Zahl (b als Zahl).", "\tSchreibe den Buchstaben ':'.", "\tSchreibe die Zahl i.", "\tSchreibe den Buchstaben ','.")
		st = append(st, nl)
		for i, r := range x {
			want += fmt.Sprintf("%d:%d,", r, i+1)
		}
	}
	return
}

type ddpProg struct {
	content []rune
	vars    []ddpVar
	src     string
	lines   []ddpLine
}

// ddpBuildProg assembles a program for the given variables/observations. pairs: cross-history equality.
func ddpBuildProg(content []rune, vars []ddpVar, obs []string, pairs bool, guard bool) (*ddpProg, error) {
	allPairs := len(vars) <= 2 || ddpAllPairs
	p := &ddpProg{content: content, vars: vars}
	var sb []string
	sb = append(sb, "Binde \"Duden/Ausgabe\" ein.", "")
	names := make([]string, len(vars))
	for k, v := range vars {
		st, top, err := ddpHistory(v.prog, v.name)
		if err != nil {
			return nil, err
		}
		sb = append(sb, fmt.Sprintf("[ %s: %s ]", v.how, v.prog))
		sb = append(sb, st...)
		names[k] = top
	}
	sb = append(sb, "")
	for _, o := range obs {
		if o == "F" {
			continue
		}
		for k, v := range vars {
			if o == "A" && k > 0 {
				continue // Buchstabe<->Zahl, Buchstabe->Text do not depend on the history of the text
			}
			tag := v.how + "." + o
			st, want := ddpObserve(o, tag, names[k], content, guard)
			sb = append(sb, st...)
			p.lines = append(p.lines, ddpLine{tag: tag, how: v.how, obs: o, want: want})
		}
	}
	if pairs {
		for a, va := range vars {
			for b, vb := range vars {
				if a == b || (allPairs == false && a != 0 && b != 0) {
					continue
				}
				tag := va.how + "~" + vb.how + ".Q"
				sb = append(sb, fmt.Sprintf("Schreibe den Text \"%s:\".", tag), fmt.Sprintf("Schreibe den Wahrheitswert (%s gleich %s ist) auf eine Zeile.", names[a], names[b]))
				how := va.how
				if vb.how == "replace-shrink" || vb.how == "slack" {
					how = vb.how
				}
				if va.how == "replace-shrink" || va.how == "slack" {
					how = va.how
				}
				p.lines = append(p.lines, ddpLine{tag: tag, how: how, obs: "Q", want: "wahr"})
			}
		}
	}
	for _, o := range obs {
		if o != "F" {
			continue
		}
		for k, v := range vars {
			tag := v.how + ".F"
			st, want := ddpObserve("F", tag, names[k], content, guard)
			sb = append(sb, st...)
			p.lines = append(p.lines, ddpLine{tag: tag, how: v.how, obs: "F", want: want})
		}
	}
	sb = append(sb, "Schreibe den Text \"END:\" auf eine Zeile.")
	p.lines = append(p.lines, ddpLine{tag: "END", how: "program", obs: "END", want: ""})
	p.src = strings.Join(sb, "\n") + "\n"
	return p, nil
}

type ddpFail struct {
	line ddpLine
	kind string // wrong | flood | timeout | signal:X | laufzeitfehler | exit:N | missing
	got  string
}

func ddpExpected(lines []ddpLine) string {
	var sb strings.Builder
	for _, l := range lines {
		sb.WriteString(l.tag + ":" + l.want + "\n")
	}
	return sb.String()
}

// ddpJudge compares stdout with the expected lines. The first line not produced completely takes the
// way the program ended as its kind; later lines are masked (not reported).
func ddpJudge(lines []ddpLine, r rx.RunResult) (fails []ddpFail, masked int) {
	got := strings.Split(r.Stdout, "\n")
	cls := r.Class()
	complete := len(got) - 1 // the last element is the unterminated rest
	gi := 0
	for li, l := range lines {
		if gi >= complete {
			// not (completely) printed
			if cls == "ok" {
				fails = append(fails, ddpFail{l, "missing", ""})
				continue
			}
			rest := ""
			if gi < len(got) {
				rest = got[gi]
			}
			if len(rest) > 120 {
				rest = rest[:120] + "…"
			}
			if cls == "flood" || cls == "timeout" {
				cls = "nonterminating" // output cap or timeout, whichever comes first on this machine
			}
			fails = append(fails, ddpFail{l, cls, rest})
			masked = len(lines) - li - 1
			return
		}
		g := got[gi]
		gi++
		if g != l.tag+":"+l.want {
			if len(g) > 200 {
				g = g[:200] + "…"
			}
			fails = append(fails, ddpFail{l, "wrong", g})
			if !strings.HasPrefix(g, l.tag+":") {
				// lost synchronisation: stop here
				masked = len(lines) - li - 1
				return
			}
		}
	}
	if cls != "ok" {
		fails = append(fails, ddpFail{ddpLine{tag: "EXIT", how: "program", obs: "exit"}, cls, strings.TrimSpace(r.Stderr)})
	}
	return
}

// no address-space randomisation: what a defective program reads beyond a buffer is then the same in every run
var ddpWrapper = func() []string {
	if p, err := exec.LookPath("setarch"); err == nil {
		if exec.Command(p, "x86_64", "-R", "true").Run() == nil {
			return []string{p, "x86_64", "-R"}
		}
	}
	return nil
}()

func ddpBuildSrc(src string) (rx.BuildResult, string) {
	dir := rx.Scratch("c12-")
	rx.WriteFiles(dir, map[string]string{"main.ddp": src})
	return rx.Build(dir, "main.ddp", rx.BuildOpts{Opt: 1}), dir
}

// ddpRunExe: a program that really loops hits the output cap at once; a timeout without flood is
// retried with a generous limit (loaded machine) before it counts.
func ddpRunExe(exe string) rx.RunResult {
	r := rx.Run(exe, rx.RunOpts{MaxOut: 1 << 16, Timeout: 10 * time.Second, Wrapper: ddpWrapper})
	if r.TimedOut && !r.Truncated && len(r.Stdout) <= 1<<16 { // (more output than the cap: the cap was not enforced, it is a flood)
		r = rx.Run(exe, rx.RunOpts{MaxOut: 1 << 16, Timeout: 90 * time.Second, Wrapper: ddpWrapper})
	}
	return r
}

func ddpRunSrc(src string) (rx.BuildResult, rx.RunResult, string) {
	b, dir := ddpBuildSrc(src)
	var r rx.RunResult
	if b.OK {
		r = ddpRunExe(b.Exe)
	}
	return b, r, dir
}

func howOrder(h string) int {
	for i, x := range []string{"const", "str·str", "str·char", "char·str", "slice", "copy", "replace-same", "replace-grow", "slack", "replace-shrink"} {
		if x == h {
			return i
		}
	}
	return 99
}

func c12PhaseC(c *ev.Ctx, vs *c12Viols, h *c12Hist, progCap int) {
	// group the production classes by content
	by := map[string][]*c12Class{}
	var contents []string
	for _, ck := range h.classOrd {
		cl := h.classes[ck]
		if _, ok := by[cl.content]; !ok {
			contents = append(contents, cl.content)
		}
		by[cl.content] = append(by[cl.content], cl)
	}
	// shortest contents first (deterministic); the cap cuts the longest ones
	sort.SliceStable(contents, func(i, j int) bool {
		a, b := []rune(contents[i]), []rune(contents[j])
		if len(a) != len(b) {
			return len(a) < len(b)
		}
		return contents[i] < contents[j]
	})
	total := len(contents)
	if len(contents) > progCap {
		contents = contents[:progCap]
		c.Add("c_contents_beyond_program_cap", int64(total-progCap))
	}
	type cand struct {
		fail    ddpFail
		content []rune
		v       ddpVar
		other   *ddpVar
		full    *ddpProg
	}
	var mu sync.Mutex
	var cands []cand
	var nprog, nlines, nvars, masked int64
	classSeen := map[string]int{}
	par.Each(contents, 0, func(_ int, cs string) {
		if c.Expired() {
			return
		}
		content := []rune(cs)
		cls := by[cs]
		sort.SliceStable(cls, func(i, j int) bool { return howOrder(cls[i].how) < howOrder(cls[j].how) })
		var vars []ddpVar
		for k, cl := range cls {
			vars = append(vars, ddpVar{name: fmt.Sprintf("t%c", 'a'+k), how: cl.how, prog: cl.prog})
		}
		p, err := ddpBuildProg(content, vars, append(append([]string{}, c12Obs...), "F"), true, true)
		if err != nil {
			c.Broken("program generation: " + err.Error())
			return
		}
		if d := os.Getenv("C12_DUMP_PROG"); d != "" { // debugging aid: keep the generated programs
			os.MkdirAll(d, 0o755)
			os.WriteFile(filepath.Join(d, fmt.Sprintf("%x.ddp", cs)), []byte(p.src), 0o644)
		}
		b, r, dir := ddpRunSrc(p.src)
		defer os.RemoveAll(dir)
		mu.Lock()
		defer mu.Unlock()
		nprog++
		nvars += int64(len(vars))
		for _, v := range vars {
			classSeen[v.how]++
		}
		if !b.OK {
			if b.Stage == "frontend" || b.Stage == "link" {
				c.Broken(fmt.Sprintf("generated program for %q does not build (%s): %s\n%s", cs, b.Stage, b.Log, p.src))
				return
			}
			if b.Stage == "timeout" || b.Stage == "died" {
				// the compile worker did not answer within its limit / was killed: machine load, not an oracle
				c.Capped(fmt.Sprintf("(c) compile worker %s on the program for %q; not judged", b.Stage, cs))
				nprog--
				return
			}
			vs.add(&c12Viol{key: "C12:ddp:compile:" + b.Stage, what: fmt.Sprintf("the compiler failed (%s) on a program for %s: %s", b.Stage, runesStr(content), b.Log),
				rank: [3]int{len(p.src), len(content), 0}, tie: cs, ddp: p.src,
				files: map[string]string{"kind.txt": "ddp", "main.ddp": p.src, "expected.txt": ddpExpected(p.lines)}})
			return
		}
		nlines += int64(len(p.lines))
		fails, m := ddpJudge(p.lines, r)
		masked += int64(m)
		for _, f := range fails {
			cd := cand{fail: f, content: content, full: p}
			for i := range vars {
				if strings.HasPrefix(f.line.tag, vars[i].how+".") || strings.HasPrefix(f.line.tag, vars[i].how+"~") {
					cd.v = vars[i]
				}
				if f.line.obs == "Q" && strings.HasSuffix(f.line.tag, "~"+vars[i].how+".Q") {
					v := vars[i]
					cd.other = &v
				}
			}
			cands = append(cands, cd)
		}
	})
	c.Add("c_programs", nprog)
	c.Add("c_output_lines_compared", nlines)
	c.Add("c_histories_in_programs", nvars)
	c.Add("c_lines_masked_by_earlier_failure", masked)
	c.Set("c_contents_total", total)
	c.Set("c_production_classes", classSeen)
	if int(nprog) < len(contents) {
		c.Capped(fmt.Sprintf("(c) %d of %d programs (deadline)", nprog, len(contents)))
	}
	// minimal candidate per key, then reduce it to the single history + observation
	best := map[string]cand{}
	count := map[string]int{}
	keyOf := func(cd cand, kind string) string {
		return fmt.Sprintf("C12:ddp:%s;%s:%s", cd.fail.line.how, cd.fail.line.obs, kind)
	}
	for _, cd := range cands {
		k := keyOf(cd, cd.fail.kind)
		count[k]++
		o, ok := best[k]
		r1 := [3]int{len(cd.content), len(strings.Fields(cd.v.prog)), len(cd.full.src)}
		var r0 [3]int
		if ok {
			r0 = [3]int{len(o.content), len(strings.Fields(o.v.prog)), len(o.full.src)}
		}
		if !ok || less3(r1, r0) || (r1 == r0 && string(cd.content) < string(o.content)) {
			best[k] = cd
		}
	}
	var keys []string
	for k := range best {
		keys = append(keys, k)
	}
	sort.Strings(keys)
	par.Each(keys, 0, func(_ int, k string) {
		cd := best[k]
		prog := cd.full
		reducedNote := "combined program (the reduced single-history program does not show the failure)"
		// runs builds src once and runs it 3x; returns the failure of the wanted observation per run
		runs := func(p *ddpProg) (fs [3]*ddpFail, ok bool) {
			b, dir := ddpBuildSrc(p.src)
			defer os.RemoveAll(dir)
			if !b.OK {
				return fs, false
			}
			for i := 0; i < 3; i++ {
				r := ddpRunExe(b.Exe)
				got, _ := ddpJudge(p.lines, r)
				for j := range got {
					if got[j].line.obs == cd.fail.line.obs && (cd.v.name == "" || got[j].line.how == cd.fail.line.how) {
						f := got[j]
						fs[i] = &f
						break
					}
				}
			}
			return fs, true
		}
		var fs [3]*ddpFail
		hit := func() int {
			n := 0
			for _, f := range fs {
				if f != nil {
					n++
				}
			}
			return n
		}
		if cd.v.name != "" {
			vars := []ddpVar{cd.v}
			obs := []string{cd.fail.line.obs}
			pairs := false
			if cd.other != nil {
				vars, obs, pairs = append(vars, *cd.other), nil, true
			}
			if rp, err := ddpBuildProg(cd.content, vars, obs, pairs, false); err == nil {
				if f2, ok := runs(rp); ok {
					fs = f2
					if hit() > 0 {
						prog, reducedNote = rp, "reduced to the single history and observation"
					}
				}
			}
		}
		if hit() == 0 {
			var ok bool
			if fs, ok = runs(cd.full); !ok {
				c.Broken("re-execution of a compiled case does not build: " + k)
				return
			}
		}
		if hit() == 0 {
			c.Broken(fmt.Sprintf("compiled case %s did not reproduce in 3 further runs", k))
			return
		}
		var fail *ddpFail
		kinds := map[string]int{}
		for _, f := range fs {
			if f != nil {
				kinds[f.kind]++
				if fail == nil {
					fail = f
				}
			}
		}
		stable := fmt.Sprintf("identical in 3 of 3 runs")
		if hit() < 3 || len(kinds) > 1 {
			// a program without input whose output varies between runs: it reads memory that does not belong
			// to the text. Only a run that ended normally with wrong output counts (no infrastructure effect).
			if kinds["wrong"] == 0 {
				c.Broken(fmt.Sprintf("unstable compiled case %s: %v", k, kinds))
				return
			}
			for _, f := range fs {
				if f != nil && f.kind == "wrong" {
					fail = f
					break
				}
			}
			stable = fmt.Sprintf("the output of this input-free program varies between runs: wrong in %d of 3 runs", kinds["wrong"])
		}
		key := keyOf(cd, fail.kind)
		vs.add(&c12Viol{key: key,
			what: fmt.Sprintf("compiled program, text %s produced by [%s] %s: observation %s printed %q (%s), the code-point model requires %q\n  %s; %s; %d programs show this class",
				runesStr(cd.content), cd.v.how, explainProg(cd.v.prog), fail.line.tag, fail.got, fail.kind, fail.line.tag+":"+fail.line.want, reducedNote, stable, count[k]),
			rank: [3]int{len(cd.content), len(strings.Fields(cd.v.prog)), 0}, tie: string(cd.content), ddp: prog.src,
			files: map[string]string{"kind.txt": "ddp", "main.ddp": prog.src, "expected.txt": ddpExpected(prog.lines)}})
	})
}

// ---------------------------------------------------------------- replay

func replayC12(dir string) int {
	rd := func(n string) string {
		b, _ := os.ReadFile(filepath.Join(dir, n))
		return strings.TrimSpace(string(b))
	}
	fail := func(what string) int {
		fmt.Printf("VIOLATION property=C12 replay=%s\n  %s\n", dir, what)
		return 1
	}
	switch rd("kind.txt") {
	case "prog":
		prog := rd("prog.txt")
		resp, d, err := rtOnce("P "+prog, false, false)
		if err != nil {
			fmt.Println(err)
			return 2
		}
		kind, what, _, _ := judgeProg(prog, resp, d)
		if kind == "protocol" || kind == "model-error" || kind == "out-of-domain" {
			fmt.Println(kind, what)
			return 2
		}
		if kind != "" {
			return fail(fmt.Sprintf("%s: history %s: %s", kind, explainProg(prog), what))
		}
	case "char":
		n, err := strconv.ParseUint(rd("cp.txt"), 16, 32)
		if err != nil {
			fmt.Println(err)
			return 2
		}
		resp, d, err := rtOnce(fmt.Sprintf("CHAR %x %x", n, n+1), false, true)
		if err != nil {
			fmt.Println(err)
			return 2
		}
		if d != nil {
			return fail(fmt.Sprintf("U+%04X: the driver died (%s) in the call behind field %q: %s", n, d.Class, crashField(d.Part, c12CharFields), d.Detail))
		}
		if finds, _, _ := checkCharLine(rune(n), resp); len(finds) > 0 {
			var w []string
			for _, f := range finds {
				w = append(w, c12Fn(f.field)+": "+f.what)
			}
			return fail(fmt.Sprintf("U+%04X: %s", n, strings.Join(w, "\n  ")))
		}
	case "neg":
		n, err := strconv.ParseUint(rd("cp.txt"), 16, 32)
		if err != nil {
			fmt.Println(err)
			return 2
		}
		resp, d, err := rtOnce(fmt.Sprintf("NEG %x", n), false, true)
		if err != nil {
			fmt.Println(err)
			return 2
		}
		if d != nil {
			return fail(fmt.Sprintf("0x%X: the driver died (%s) in the call behind field %q: %s", n, d.Class, crashField(d.Part, []string{"c2s", "nbc", "cts", "sc", "cs"}), d.Detail))
		}
		if finds, _ := checkNegLine(resp); len(finds) > 0 {
			var w []string
			for _, f := range finds {
				w = append(w, f.what)
			}
			return fail(fmt.Sprintf("0x%X: %s", n, strings.Join(w, "\n  ")))
		}
	case "ddp":
		src, err := os.ReadFile(filepath.Join(dir, "main.ddp"))
		if err != nil {
			fmt.Println(err)
			return 2
		}
		exp, _ := os.ReadFile(filepath.Join(dir, "expected.txt"))
		var lines []ddpLine
		for _, l := range strings.Split(strings.TrimRight(string(exp), "\n"), "\n") {
			i := strings.Index(l, ":")
			if i < 0 {
				continue
			}
			lines = append(lines, ddpLine{tag: l[:i], want: l[i+1:]})
		}
		b, r, sd := ddpRunSrc(string(src))
		defer os.RemoveAll(sd)
		if !b.OK {
			if b.Stage == "frontend" || b.Stage == "link" {
				fmt.Println("program does not build:", b.Log)
				return 2
			}
			return fail("compiler failed: " + b.Stage + " " + b.Log)
		}
		if fs, _ := ddpJudge(lines, r); len(fs) > 0 {
			var w []string
			for _, f := range fs {
				w = append(w, fmt.Sprintf("%s (%s): printed %q, model %q", f.line.tag, f.kind, f.got, f.line.want))
			}
			return fail(strings.Join(w, "\n  "))
		}
	default:
		fmt.Println("not a C12 replay directory:", dir)
		return 2
	}
	fmt.Println("C12 replay: property holds on this case")
	return 0
}
