package main

// C09 worker ("ddpmc worker c09"): runs the REAL frontend (parser.Parse with resolver and
// typechecker, exactly as cmd/kddp does) on small programs and returns, for every statement of the
// main module from a given line on, a rendering of its expression tree: which declaration every
// call / struct literal resolved to, its Args map (placeholder name -> argument expression),
// UN_NOT wrapping of negated aliases, OverloadedBy of operators; plus all diagnostics. Panics are
// recovered. One request carries a common header and many tails: program i = header + tails[i],
// each parsed independently with a fresh module table.

import (
	"fmt"
	"os"
	"path/filepath"
	"runtime"
	"runtime/debug"
	"sort"
	"strconv"
	"time"

	"ddpmc/internal/fe"
	"ddpmc/internal/pool"

	"github.com/DDP-Projekt/Kompilierer/src/ast"
	"github.com/DDP-Projekt/Kompilierer/src/ddperror"
	"github.com/DDP-Projekt/Kompilierer/src/parser"
)

type c09Req struct {
	File     string   `json:"file"` // absolute path of the main file (imports resolve relative to its directory)
	Header   string   `json:"h"`
	Tails    []string `json:"t"`
	FromLine uint     `json:"from"` // statements starting at or after this line are reported
	// Full: complete programs with their own file name (appended to the answers after the tails)
	Full []c09Full `json:"full,omitempty"`
}

type c09Full struct {
	File string `json:"file"`
	Src  string `json:"src"`
	From uint   `json:"from"`
}

// c09Node renders one expression.
//
//	K: call struct un bin ter cast group int str id bad other
type c09Node struct {
	K    string              `json:"k"`
	N    string              `json:"n,omitempty"`   // callee / struct name, operator name, identifier, literal text
	Mod  string              `json:"mod,omitempty"` // base name of the module that declares the callee
	Gen  bool                `json:"gen,omitempty"` // callee is an instantiation of a generic declaration
	A    map[string]*c09Node `json:"a,omitempty"`   // Args of a call / struct literal / overload
	X    []*c09Node          `json:"x,omitempty"`   // operands
	Ovl  *c09Node            `json:"ovl,omitempty"` // OverloadedBy (K=call)
	L, C uint                // position of the node's first token (calls, struct literals, negation wrapper)
}

type c09Stmt struct {
	Kind string   `json:"kind"` // expr var while bad <go type>
	Line uint     `json:"line"`
	E    *c09Node `json:"e,omitempty"`
}

type c09Out struct {
	Stmts  []c09Stmt `json:"s,omitempty"`
	Diags  []fe.Diag `json:"d,omitempty"`
	Err    string    `json:"err,omitempty"`
	Faulty bool      `json:"faulty,omitempty"`
	Panic  string    `json:"panic,omitempty"`
	Site   string    `json:"site,omitempty"`
}

type c09Resp struct {
	Out []c09Out `json:"out"`
	Ns  int64    `json:"ns"` // time spent parsing (worker side)
}

func c09Callee(d *ast.FuncDecl, args map[string]ast.Expression, l, c uint) *c09Node {
	n := &c09Node{K: "call", L: l, C: c}
	if d == nil {
		n.N = "<nil>"
	} else {
		n.N = d.Name()
		n.Gen = d.GenericInstantiation != nil || d.Generic != nil
		if d.Mod != nil {
			n.Mod = filepath.Base(d.Mod.FileName)
		}
		if d.GenericInstantiation != nil && d.GenericInstantiation.GenericDecl != nil && d.GenericInstantiation.GenericDecl.Mod != nil {
			n.Mod = filepath.Base(d.GenericInstantiation.GenericDecl.Mod.FileName)
		}
	}
	n.A = map[string]*c09Node{}
	for k, v := range args {
		n.A[k] = c09Expr(v)
	}
	return n
}

func c09Expr(e ast.Expression) *c09Node {
	switch e := e.(type) {
	case nil:
		return &c09Node{K: "nil"}
	case *ast.FuncCall:
		return c09Callee(e.Func, e.Args, e.Tok.Range.Start.Line, e.Tok.Range.Start.Column)
	case *ast.StructLiteral:
		n := &c09Node{K: "struct", L: e.Tok.Range.Start.Line, C: e.Tok.Range.Start.Column, A: map[string]*c09Node{}}
		if e.Struct != nil {
			n.N = e.Struct.Name()
			if e.Struct.Mod != nil {
				n.Mod = filepath.Base(e.Struct.Mod.FileName)
			}
		}
		for k, v := range e.Args {
			n.A[k] = c09Expr(v)
		}
		return n
	case *ast.UnaryExpr:
		n := &c09Node{K: "un", N: e.Operator.String(), X: []*c09Node{c09Expr(e.Rhs)}, L: e.Tok.Range.Start.Line, C: e.Tok.Range.Start.Column}
		if e.OverloadedBy != nil {
			n.Ovl = c09Callee(e.OverloadedBy.Decl, e.OverloadedBy.Args, 0, 0)
		}
		return n
	case *ast.BinaryExpr:
		n := &c09Node{K: "bin", N: e.Operator.String(), X: []*c09Node{c09Expr(e.Lhs), c09Expr(e.Rhs)}}
		if e.OverloadedBy != nil {
			n.Ovl = c09Callee(e.OverloadedBy.Decl, e.OverloadedBy.Args, 0, 0)
		}
		return n
	case *ast.TernaryExpr:
		n := &c09Node{K: "ter", N: e.Operator.String(), X: []*c09Node{c09Expr(e.Lhs), c09Expr(e.Mid), c09Expr(e.Rhs)}}
		if e.OverloadedBy != nil {
			n.Ovl = c09Callee(e.OverloadedBy.Decl, e.OverloadedBy.Args, 0, 0)
		}
		return n
	case *ast.CastExpr:
		n := &c09Node{K: "cast", X: []*c09Node{c09Expr(e.Lhs)}}
		if e.TargetType != nil {
			n.N = e.TargetType.String()
		}
		if e.OverloadedBy != nil {
			n.Ovl = c09Callee(e.OverloadedBy.Decl, e.OverloadedBy.Args, 0, 0)
		}
		return n
	case *ast.Grouping:
		return &c09Node{K: "group", X: []*c09Node{c09Expr(e.Expr)}}
	case *ast.IntLit:
		return &c09Node{K: "int", N: strconv.FormatInt(e.Value, 10)}
	case *ast.FloatLit:
		return &c09Node{K: "float", N: e.Literal.Literal}
	case *ast.StringLit:
		return &c09Node{K: "str", N: e.Value}
	case *ast.BoolLit:
		return &c09Node{K: "bool", N: strconv.FormatBool(e.Value)}
	case *ast.Ident:
		return &c09Node{K: "id", N: e.Literal.Literal}
	case *ast.BadExpr:
		return &c09Node{K: "bad"}
	}
	return &c09Node{K: "other", N: fmt.Sprintf("%T", e)}
}

func c09Parse(file string, src []byte, from uint) (o c09Out) {
	var diags []fe.Diag
	defer func() {
		if p := recover(); p != nil {
			st := string(debug.Stack())
			o.Panic = fmt.Sprint(p)
			if pe, ok := p.(*parser.ParserError); ok {
				o.Panic = pe.Msg
				st = string(pe.StackTrace)
			}
			if len(o.Panic) > 1000 {
				o.Panic = o.Panic[:1000]
			}
			o.Site = fe.Site(st)
		}
		o.Diags = diags
	}()
	handler := func(e ddperror.Error) {
		if len(diags) < 200000 {
			diags = append(diags, fe.Diag{Code: int(e.Code), Level: int(e.Level), File: e.File, L1: e.Range.Start.Line, C1: e.Range.Start.Column, L2: e.Range.End.Line, C2: e.Range.End.Column, Msg: e.Msg})
		}
	}
	mod, err := parser.Parse(parser.Options{FileName: file, Source: src, ErrorHandler: handler, Modules: map[string]*ast.Module{}})
	if err != nil {
		o.Err = err.Error()
		if o.Err == "" {
			o.Err = "error"
		}
		if pe, ok := err.(*parser.ParserError); ok {
			o.Panic = pe.Msg
			o.Site = fe.Site(string(pe.StackTrace))
		}
	}
	if mod == nil || mod.Ast == nil {
		return
	}
	o.Faulty = mod.Ast.Faulty
	for _, s := range mod.Ast.Statements {
		if s == nil {
			continue
		}
		line := s.Token().Range.Start.Line
		if r := s.GetRange(); r.Start.Line != 0 && (line == 0 || r.Start.Line < line) {
			line = r.Start.Line
		}
		if line < from {
			continue
		}
		st := c09Stmt{Line: line}
		switch s := s.(type) {
		case *ast.ExprStmt:
			st.Kind, st.E = "expr", c09Expr(s.Expr)
		case *ast.DeclStmt:
			if v, ok := s.Decl.(*ast.VarDecl); ok {
				st.Kind, st.E = "var", c09Expr(v.InitVal)
			} else {
				st.Kind = fmt.Sprintf("%T", s.Decl)
			}
		case *ast.WhileStmt:
			st.Kind = "while"
			if b, ok := s.Body.(*ast.ExprStmt); ok {
				st.E = c09Expr(b.Expr)
			}
		case *ast.BadStmt:
			st.Kind = "bad"
		default:
			st.Kind = fmt.Sprintf("%T", s)
		}
		o.Stmts = append(o.Stmts, st)
	}
	sort.SliceStable(o.Stmts, func(i, j int) bool { return o.Stmts[i].Line < o.Stmts[j].Line })
	return
}

func c09Handle(q *c09Req) (r c09Resp) {
	t0 := time.Now()
	defer func() { r.Ns = time.Since(t0).Nanoseconds() }()
	r.Out = make([]c09Out, 0, len(q.Tails)+len(q.Full))
	for _, t := range q.Tails {
		r.Out = append(r.Out, c09Parse(q.File, []byte(q.Header+t), q.FromLine))
	}
	for _, f := range q.Full {
		r.Out = append(r.Out, c09Parse(f.File, []byte(f.Src), f.From))
	}
	return
}

func init() {
	workers["c09"] = func([]string) {
		if n, err := strconv.Atoi(os.Getenv("C09_WORKER_PROCS")); err == nil && n > 0 {
			runtime.GOMAXPROCS(n)
		}
		if os.Getenv("C09_WORKER_GC") == "" {
			// a fresh process has a tiny heap: the collector would run every few hundred statements
			debug.SetGCPercent(-1)
			debug.SetMemoryLimit(256 << 20)
		}
		pool.Serve(func(q *c09Req) c09Resp { return c09Handle(q) })
	}
}
