package main

// C13 — the token stream is a faithful, positioned partition of the source.
// Shape S: every string up to a length bound over a 20-symbol alphabet (one representative per
// lexical class), every keyword spelling, every indentation prefix, every corpus file and every
// short invalid-UTF-8 byte string is scanned by the REAL scanner; invariants are checked on every
// token stream and kinds/boundaries are compared with the independent lexmodel.

import (
	"fmt"
	"os"
	"path/filepath"
	"strings"
	"sync"
	"unicode/utf8"

	"ddpmc/internal/ev"
	"ddpmc/internal/lexmodel"
	"ddpmc/internal/par"

	"github.com/DDP-Projekt/Kompilierer/src/ddperror"
	"github.com/DDP-Projekt/Kompilierer/src/scanner"
	"github.com/DDP-Projekt/Kompilierer/src/token"
)

var c13Alphabet = []string{"a", "D", "ä", "1", ",", ".", "-", "\"", "'", "\\", "[", "]", " ", "\t", "\n", "\r", "<", ">", ":", "€"}

func fixedKind(k lexmodel.Kind) (token.TokenType, bool) {
	switch k {
	case lexmodel.KEOF:
		return token.EOF, true
	case lexmodel.KIdent:
		return token.IDENTIFIER, true
	case lexmodel.KInt:
		return token.INT, true
	case lexmodel.KFloat:
		return token.FLOAT, true
	case lexmodel.KString:
		return token.STRING, true
	case lexmodel.KChar:
		return token.CHAR, true
	case lexmodel.KComment:
		return token.COMMENT, true
	case lexmodel.KSymbol:
		return token.SYMBOL, true
	case lexmodel.KAliasParam:
		return token.ALIAS_PARAMETER, true
	case lexmodel.KNegate:
		return token.NEGATE, true
	case lexmodel.KDot:
		return token.DOT, true
	case lexmodel.KComma:
		return token.COMMA, true
	case lexmodel.KColon:
		return token.COLON, true
	case lexmodel.KLParen:
		return token.LPAREN, true
	case lexmodel.KRParen:
		return token.RPAREN, true
	case lexmodel.KEllipsis:
		return token.ELIPSIS, true
	case lexmodel.KIllegal:
		return token.ILLEGAL, true
	}
	return 0, false
}

type c13Result struct {
	key, what string
	ntok      int
	kinds     uint64 // bitset of model kinds seen
}

func c13Scan(src []byte, alias bool, mode scanner.Mode, startLine, startCol uint) (toks []token.Token, nerr int, err error, pan any) {
	defer func() {
		if r := recover(); r != nil {
			pan = r
		}
	}()
	h := func(e ddperror.Error) {
		if e.Level == ddperror.LEVEL_ERROR {
			nerr++
		}
	}
	if alias {
		at := token.Token{Type: token.STRING, Literal: "\"" + string(src) + "\"", Range: token.Range{
			Start: token.Position{Line: startLine, Column: startCol}, End: token.Position{Line: startLine, Column: startCol + uint(utf8.RuneCount(src)) + 2}}}
		toks, err = scanner.ScanAlias(at, h)
		return
	}
	toks, err = scanner.Scan(scanner.Options{FileName: "c13.ddp", Source: src, ScannerMode: mode, ErrorHandler: h})
	return
}

// c13Check runs the real scanner on src and checks invariants + model agreement.
func c13Check(src []byte, alias bool) (res c13Result) {
	if src == nil {
		src = []byte{}
	}
	sl, sc := uint(1), uint(1)
	if alias {
		// a string literal cannot contain an unescaped quote; TrimStringLit would also eat a
		// leading/trailing quote: such inputs are not alias bodies
		if strings.ContainsAny(string(src), "\"") {
			return
		}
		sl, sc = 3, 7
	}
	toks, nerr, err, pan := c13Scan(src, alias, scanner.ModeNone, sl, sc)
	if pan != nil {
		return c13Result{key: "panic", what: fmt.Sprint(pan)}
	}
	if !utf8.Valid(src) {
		if err == nil || toks != nil {
			return c13Result{key: "invalid-utf8-accepted", what: "scanner returned tokens for invalid UTF-8"}
		}
		return
	}
	if err != nil {
		return c13Result{key: "valid-utf8-refused", what: err.Error()}
	}
	runes := []rune(string(src))
	l0, c0 := 1, 1
	if alias {
		// ScanAlias starts at the position of the alias token (the opening quote), see interface.go
		l0, c0 = int(sl), int(sc)
	}
	model := lexmodel.Scan(runes, alias, l0, c0)
	res.ntok = len(toks)
	// offsets of (line,col)
	pos2off := map[[2]int]int{}
	{
		l, c := l0, c0
		for i := 0; i <= len(runes); i++ {
			pos2off[[2]int{l, c}] = i
			if i < len(runes) {
				if runes[i] == '\n' {
					l++
					c = 1
				} else {
					c++
				}
			}
		}
	}
	if len(toks) == 0 || toks[len(toks)-1].Type != token.EOF {
		return c13Result{key: "no-final-eof", what: "stream does not end with EOF"}
	}
	prevEnd := 0
	for i, t := range toks {
		if t.Type == token.EOF && i != len(toks)-1 {
			return c13Result{key: "eof-not-last", what: fmt.Sprintf("EOF at index %d of %d", i, len(toks))}
		}
		so, ok1 := pos2off[[2]int{int(t.Range.Start.Line), int(t.Range.Start.Column)}]
		eo, ok2 := pos2off[[2]int{int(t.Range.End.Line), int(t.Range.End.Column)}]
		if !ok1 || !ok2 {
			return c13Result{key: "position-outside-source", what: fmt.Sprintf("token %d %q range %v is not a position of the source", i, t.Literal, t.Range)}
		}
		if so > eo || (so == eo && t.Type != token.EOF) {
			return c13Result{key: "empty-or-inverted-range", what: fmt.Sprintf("token %d %q range %v", i, t.Literal, t.Range)}
		}
		if so < prevEnd {
			return c13Result{key: "overlap-or-disorder", what: fmt.Sprintf("token %d %q starts at offset %d before previous end %d", i, t.Literal, so, prevEnd)}
		}
		for k := prevEnd; k < so; k++ {
			if r := runes[k]; r != ' ' && r != '\t' && r != '\r' && r != '\n' {
				return c13Result{key: "gap-not-blank", what: fmt.Sprintf("rune %q at offset %d lies between tokens", r, k)}
			}
		}
		if t.Type != token.ILLEGAL && t.Literal != string(runes[so:eo]) {
			return c13Result{key: "literal-not-substring", what: fmt.Sprintf("token %d literal %q but source[%d:%d]=%q", i, t.Literal, so, eo, string(runes[so:eo]))}
		}
		prevEnd = eo
	}
	for k := prevEnd; k < len(runes); k++ {
		if r := runes[k]; r != ' ' && r != '\t' && r != '\r' && r != '\n' {
			return c13Result{key: "gap-not-blank", what: fmt.Sprintf("rune %q at offset %d after the last token", r, k)}
		}
	}
	// model agreement
	if len(model) != len(toks) {
		return c13Result{key: "token-count", what: fmt.Sprintf("model %d tokens, scanner %d", len(model), len(toks))}
	}
	wantErr, specErr := false, true
	for i, m := range model {
		t := toks[i]
		res.kinds |= 1 << uint(m.Kind)
		so := pos2off[[2]int{int(t.Range.Start.Line), int(t.Range.Start.Column)}]
		eo := pos2off[[2]int{int(t.Range.End.Line), int(t.Range.End.Column)}]
		if so != m.Start || eo != m.End {
			return c13Result{key: "boundary", what: fmt.Sprintf("token %d: model [%d,%d) scanner [%d,%d) %q", i, m.Start, m.End, so, eo, t.Literal)}
		}
		if m.KindSpec {
			if m.Kind == lexmodel.KKeyword {
				if t.Type.String() != m.Name || t.Type <= token.FALSE && t.Type != token.TRUE && t.Type != token.FALSE {
					return c13Result{key: "kind:keyword", what: fmt.Sprintf("token %d %q: model keyword %q, scanner %v", i, t.Literal, m.Name, t.Type)}
				}
			} else if want, _ := fixedKind(m.Kind); want != t.Type {
				// a keyword added to the language after the snapshot is not a violation
				w := string(runes[m.Start:m.End])
				_, a := token.KeywordMap[w]
				_, b := token.KeywordMap[strings.ToLower(w)]
				if !(m.Kind == lexmodel.KIdent && (a || b)) {
					return c13Result{key: fmt.Sprintf("kind:%v", want), what: fmt.Sprintf("token %d %q: model kind %v, scanner %v", i, t.Literal, want, t.Type)}
				}
			}
		}
		if m.IndentSpec && int(t.Indent) != m.Indent {
			return c13Result{key: "indent", what: fmt.Sprintf("token %d %q: model indent %d, scanner %d", i, t.Literal, m.Indent, t.Indent)}
		}
		if m.Malformed && m.Kind != lexmodel.KIllegal {
			wantErr = true
		}
		if m.Kind == lexmodel.KAliasParam || m.Kind == lexmodel.KIllegal {
			specErr = false // placeholder well-formedness rules are compared only through Malformed⇒error
		}
	}
	if wantErr && nerr == 0 {
		return c13Result{key: "malformed-literal-no-diagnostic", what: "model requires a diagnostic (unknown escape / character literal length), scanner gave none"}
	}
	if !wantErr && specErr && nerr > 0 {
		return c13Result{key: "spurious-diagnostic", what: fmt.Sprintf("scanner reported %d errors on lexically well-formed input", nerr)}
	}
	if !alias {
		// strict capitalisation mode must not change the tokens
		toks2, _, err2, pan2 := c13Scan(src, false, scanner.ModeStrictCapitalization, 1, 1)
		if pan2 != nil || err2 != nil || len(toks2) != len(toks) {
			return c13Result{key: "strict-mode-differs", what: fmt.Sprint(pan2, err2, len(toks2), len(toks))}
		}
		for i := range toks {
			if toks[i] != toks2[i] {
				return c13Result{key: "strict-mode-differs", what: fmt.Sprintf("token %d differs: %v vs %v", i, toks[i].StringVerbose(), toks2[i].StringVerbose())}
			}
		}
	}
	return
}

func runC13(tier string) int {
	c := ev.New("C13", tier)
	c.Budget(map[string]int{"quick": 240, "thorough": 1500}[tier])
	maxLen := 5
	aliasLen := 4
	if tier == "thorough" {
		maxLen, aliasLen = 6, 5
	}
	var mu sync.Mutex
	distinct := map[uint64]int64{}
	var ntoks int64
	report := func(src []byte, alias bool, r c13Result) {
		mode := "normal"
		if alias {
			mode = "alias"
		}
		c.Violation("C13:"+r.key+":"+mode, fmt.Sprintf("input %q (%s mode): %s", src, mode, r.what),
			map[string]string{"input.bin": string(src), "mode.txt": mode})
	}
	runSpace := func(name string, n int64, gen func(i int64) []byte, alias bool) {
		done := par.Range(n, 4096, c.Expired, func(lo, hi int64) {
			local := map[uint64]int64{}
			var lt int64
			for i := lo; i < hi; i++ {
				src := gen(i)
				r := c13Check(src, alias)
				if r.key != "" {
					report(src, alias, r)
				}
				local[r.kinds]++
				lt += int64(r.ntok)
			}
			mu.Lock()
			for k, v := range local {
				distinct[k] += v
			}
			ntoks += lt
			mu.Unlock()
		})
		c.Add("evaluations", done)
		c.Add("space_"+name, done)
		if done < n {
			c.Capped(fmt.Sprintf("%s: %d of %d inputs", name, done, n))
		}
	}
	// (a) all strings of length 0..maxLen over the alphabet
	A := int64(len(c13Alphabet))
	genStr := func(L int) func(i int64) []byte {
		return func(i int64) []byte {
			var sb strings.Builder
			for k := 0; k < L; k++ {
				sb.WriteString(c13Alphabet[i%A])
				i /= A
			}
			return []byte(sb.String())
		}
	}
	pow := func(L int) int64 {
		p := int64(1)
		for k := 0; k < L; k++ {
			p *= A
		}
		return p
	}
	for L := 0; L <= maxLen; L++ {
		runSpace(fmt.Sprintf("normal_len%d", L), pow(L), genStr(L), false)
	}
	for L := 0; L <= aliasLen; L++ {
		runSpace(fmt.Sprintf("alias_len%d", L), pow(L), genStr(L), true)
	}
	c.Sample(map[string]any{"space": "strings over alphabet", "example": string(genStr(5)(1234567))})
	// (b) every keyword spelling x case form x following symbol
	var kwCases [][]byte
	for w := range lexmodel.Keywords {
		forms := []string{w, strings.ToLower(w), strings.ToUpper(w), strings.ToUpper(w[:firstRuneLen(w)]) + w[firstRuneLen(w):], w + "x", "x" + w}
		for _, f := range forms {
			kwCases = append(kwCases, []byte(f))
			for _, a := range c13Alphabet {
				kwCases = append(kwCases, []byte(f+a), []byte(a+f), []byte(f+a+f))
			}
		}
	}
	runSpace("keywords", int64(len(kwCases)), func(i int64) []byte { return kwCases[i] }, false)
	runSpace("keywords_alias", int64(len(kwCases)), func(i int64) []byte { return kwCases[i] }, true)
	c.Sample(map[string]any{"space": "keyword spellings", "example": string(kwCases[len(kwCases)/2])})
	// (c) indentation: all blank prefixes of length <= 6 over {space, tab, CR} before a token on first and later lines,
	// and after multi-line literals
	var indCases [][]byte
	blanks := []string{" ", "\t", "\r"}
	for L := 0; L <= 7; L++ {
		tot := 1
		for k := 0; k < L; k++ {
			tot *= 3
		}
		for i := 0; i < tot; i++ {
			p, x := "", i
			for k := 0; k < L; k++ {
				p += blanks[x%3]
				x /= 3
			}
			for _, tmpl := range []string{"%sa", "a\n%sb c", "\"x\ny\"%sa\n%sb", "[c\n%sd] e\n%sf", "a\r\n%sb", "%s\n%sa", "'\n'%sa\n%sb"} {
				indCases = append(indCases, []byte(strings.ReplaceAll(tmpl, "%s", p)))
			}
		}
	}
	runSpace("indentation", int64(len(indCases)), func(i int64) []byte { return indCases[i] }, false)
	// (d) corpus files + every prefix of each (truncation at every byte, incl. inside multi-byte characters)
	var corpus [][]byte
	for _, pat := range []string{"tests/testdata/kddp/*/*.ddp", "tests/testdata/kddp/*/*/*.ddp", "tests/testdata/stdlib/*/*.ddp", "lib/stdlib/Duden/*.ddp", "examples/*.ddp"} {
		ms, _ := filepath.Glob(filepath.Join(ev.Repo, pat))
		for _, m := range ms {
			if b, err := os.ReadFile(m); err == nil {
				corpus = append(corpus, b)
			}
		}
	}
	c.Set("corpus_files", len(corpus))
	runSpace("corpus", int64(len(corpus)), func(i int64) []byte { return corpus[i] }, false)
	var pref [][]byte
	for _, b := range corpus {
		if len(b) > 3000 && tier == "quick" {
			b = b[:3000]
		}
		step := 1
		if tier == "quick" {
			step = 7
		}
		for k := 0; k < len(b); k += step {
			pref = append(pref, b[:k])
		}
	}
	runSpace("corpus_prefixes", int64(len(pref)), func(i int64) []byte { return pref[i] }, false)
	// (e) invalid and valid byte strings up to length 3 (4 thorough) over a byte alphabet
	bytesA := []byte{'a', '"', '[', 0x80, 0xC3, 0xA4, 0xE2, 0x82, 0xF0, 0x9F, 0xFF, '\n', 0xC0, 0xED, 0xA0}
	bl := 3
	if tier == "thorough" {
		bl = 4
	}
	BA := int64(len(bytesA))
	for L := 1; L <= bl; L++ {
		tot := int64(1)
		for k := 0; k < L; k++ {
			tot *= BA
		}
		LL := L
		runSpace(fmt.Sprintf("bytes_len%d", L), tot, func(i int64) []byte {
			b := make([]byte, LL)
			for k := 0; k < LL; k++ {
				b[k] = bytesA[i%BA]
				i /= BA
			}
			return b
		}, false)
	}
	c.Sample(map[string]any{"space": "byte strings", "example": fmt.Sprintf("%q", []byte{0xE2, 0x82, 0xFF})})
	nd := 0
	for k := range distinct {
		if k != 0 {
			nd++
		}
	}
	c.Set("states", c.Get("evaluations"))
	c.Set("transitions", ntoks)
	c.Set("traces_validated_against_impl", c.Get("evaluations"))
	c.Set("distinct_nontrivial", nd)
	c.Set("rule", "every input is scanned by scanner.Scan/ScanAlias and by lexmodel; states = inputs, transitions = tokens produced and compared; distinct_nontrivial = distinct sets of token kinds occurring in one input")
	c.Set("bounds", map[string]any{"alphabet": c13Alphabet, "max_len_normal": maxLen, "max_len_alias": aliasLen, "byte_alphabet_len": bl})
	c.Assume("lexical rules as written in lexmodel (derived from the C13 statement); indent of tokens on a line that began inside a multi-line literal and kind of an unterminated comment are left open",
		"keyword table = snapshot of the pinned tree; newer keywords are tolerated")
	return c.Finish()
}

func firstRuneLen(s string) int {
	_, w := utf8.DecodeRuneInString(s)
	return w
}

func replayC13(dir string) int {
	b, err := os.ReadFile(filepath.Join(dir, "input.bin"))
	if err != nil {
		fmt.Println(err)
		return 2
	}
	m, _ := os.ReadFile(filepath.Join(dir, "mode.txt"))
	r := c13Check(b, strings.TrimSpace(string(m)) == "alias")
	if r.key != "" {
		fmt.Printf("VIOLATION property=C13 replay=%s\n  %s: %s\n", dir, r.key, r.what)
		return 1
	}
	fmt.Println("C13 replay: property holds on this input")
	return 0
}
