package main

// C16 corpus: DDP programs written so that iteration order can matter (see c16corpus/README in
// DESIGN §5 C16): calls/struct literals with two bad arguments, modules with several public
// declarations on interleaved lines and columns, name and alias clashes across modules, alias
// ties, several Text locals per scope, multi-module link sets. Every top-level directory of
// c16corpus/ is one case; its main file is main.ddp.

import (
	"embed"
	"io/fs"
	"sort"
	"strings"
)

//go:embed c16corpus
var c16FS embed.FS

type c16Hand struct {
	Name  string
	Main  string
	Files map[string]string
}

func c16Corpus(tier string) []c16Hand {
	ents, err := fs.ReadDir(c16FS, "c16corpus")
	if err != nil {
		return nil
	}
	var out []c16Hand
	for _, e := range ents {
		if !e.IsDir() {
			continue
		}
		h := c16Hand{Name: e.Name(), Main: "main.ddp", Files: map[string]string{}}
		root := "c16corpus/" + e.Name()
		fs.WalkDir(c16FS, root, func(p string, d fs.DirEntry, err error) error {
			if err != nil || d.IsDir() {
				return nil
			}
			b, _ := fs.ReadFile(c16FS, p)
			h.Files[strings.TrimPrefix(p, root+"/")] = string(b)
			return nil
		})
		if _, ok := h.Files["main.ddp"]; ok {
			out = append(out, h)
		}
	}
	sort.Slice(out, func(i, j int) bool { return out[i].Name < out[j].Name })
	return out
}
