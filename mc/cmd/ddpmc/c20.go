package main

// C20 — duplicate aliases are always rejected; declared aliases stay callable.
// Shape H (explicit-state search over operation histories) on the REAL alias trie
// at.New(tokenEqual, tokenLess), reference = plain list of the inserted keys with linear search.
//   level 1  predicate laws of tokenEqual/tokenLess on all pairs/triples of the vocabulary (diagnostic)
//   level 2  one trie node: every insertion sequence of <=5 distinct vocabulary tokens (no merging)
//   level 3  whole trie: BFS over insertion histories with canonical-state merging
//   level 4  parser: programs declaring colliding / nearly colliding aliases in every order (c20_parser.go)

import (
	"encoding/json"
	"fmt"
	"hash/fnv"
	"os"
	"path/filepath"
	"sort"
	"strings"
	"sync"
	"sync/atomic"
	"syscall"
	"time"

	"ddpmc/internal/aliasmodel"
	"ddpmc/internal/ev"
	"ddpmc/internal/par"

	"github.com/DDP-Projekt/Kompilierer/src/parser"
)

func init() { checks["C20"] = check{runC20, replayC20} }

type c20Space struct {
	name, voc         string
	keyLen, streamLen int
	depth             int
	merge             bool // false: enumerate every sequence (level 2)
}

func c20Spaces(tier string) []c20Space {
	if tier == "thorough" {
		return []c20Space{
			{"node", "full", 1, 1, 5, false},
			{"node-merged", "full", 1, 1, 5, true},
			{"trieA", "R6", 2, 3, 5, true},
			{"trieB", "R6", 3, 3, 3, true},
			{"trieC", "R10", 2, 3, 4, true},
		}
	}
	return []c20Space{
		{"node", "full", 1, 1, 4, false},
		{"node-merged", "full", 1, 1, 4, true},
		{"trieA", "R7", 2, 3, 3, true},
		{"trieA4", "R6", 2, 3, 4, true},
		{"trieB", "R4", 3, 3, 3, true},
	}
}

func c20SpaceOf(f *c20Fail) c20Space {
	return c20Space{name: f.Space, voc: f.Voc, keyLen: f.KeyLen, streamLen: f.StrLen}
}

func c20New(s c20Space) *aliasmodel.Space {
	return aliasmodel.NewSpace(s.name, s.voc, s.keyLen, s.streamLen, parser.VerifTokenEqual, parser.VerifTokenLess)
}

// ---- failure collection: keep the smallest failing history per (kind, cause) -------------------

type c20Fail struct {
	Level  string   `json:"level"` // "trie" | "parser"
	Space  string   `json:"space,omitempty"`
	Voc    string   `json:"vocabulary,omitempty"`
	KeyLen int      `json:"key_len,omitempty"`
	StrLen int      `json:"stream_len,omitempty"`
	Hist   []uint16 `json:"history,omitempty"`
	Kind   string   `json:"kind"`
	Cause  string   `json:"cause"`
	Detail string   `json:"detail"`
	Text   string   `json:"history_text,omitempty"`
}

type c20Collector struct {
	mu     sync.Mutex
	best   map[string]*c20Fail
	counts map[string]int64
}

func histLess(a, b []uint16) bool {
	if len(a) != len(b) {
		return len(a) < len(b)
	}
	for i := range a {
		if a[i] != b[i] {
			return a[i] < b[i]
		}
	}
	return false
}

func (col *c20Collector) add(sp *aliasmodel.Space, s c20Space, h []uint16, fs []aliasmodel.Failure) {
	if len(fs) == 0 {
		return
	}
	col.mu.Lock()
	defer col.mu.Unlock()
	for _, f := range fs {
		cause := "consistent-types"
		if f.PrintAlike {
			cause = "print-alike-types"
		}
		id := f.Kind + "|" + cause + "|" + s.name
		col.counts[f.Kind+":"+cause]++
		if b, ok := col.best[id]; !ok || histLess(h, b.Hist) {
			col.best[id] = &c20Fail{Level: "trie", Space: s.name, Voc: s.voc, KeyLen: s.keyLen, StrLen: s.streamLen, Hist: append([]uint16(nil), h...), Kind: f.Kind, Cause: cause, Detail: f.Detail, Text: sp.HistString(h)}
		}
	}
}

// ---- level 1: predicate laws -------------------------------------------------------------------

func c20Laws(c *ev.Ctx) {
	sp := c20New(c20Space{"laws", "full", 1, 1, 0, false})
	eq, less := sp.Eq, sp.Less
	V := sp.Voc
	fails := map[string]int64{}
	examples := map[string][]string{}
	note := func(law string, ex string) {
		fails[law]++
		if len(examples[law]) < 6 {
			examples[law] = append(examples[law], ex)
		}
	}
	var evals int64
	modelEq := func(a, b *aliasmodel.VTok) bool {
		if a.Param != b.Param {
			return false
		}
		if a.Param {
			return a.Class == b.Class
		}
		return a.Ins.Type == b.Ins.Type && a.Ins.Literal == b.Ins.Literal
	}
	for _, a := range V {
		evals += 3
		if !eq(a.Qry, a.Ins) || !eq(a.Ins, a.Ins) {
			note("equal-reflexive", a.Name)
		}
		if less(a.Qry, a.Ins) || less(a.Ins, a.Ins) {
			note("less-irreflexive", a.Name)
		}
		for _, b := range V {
			evals += 5
			ab, ba := eq(a.Qry, b.Ins), eq(b.Qry, a.Ins)
			lab, lba := less(a.Qry, b.Ins), less(b.Qry, a.Ins)
			if ab != ba {
				note("equal-symmetric", a.Name+" / "+b.Name)
			}
			if ab != modelEq(a, b) {
				note("equal-is-identity-of-pattern-token-and-parameter-type", a.Name+" / "+b.Name)
			}
			if lab && lba {
				note("less-asymmetric", a.Name+" / "+b.Name)
			}
			if (!lab && !lba) != ab {
				note("incomparable-iff-equal", fmt.Sprintf("%s / %s: equal=%v less=%v greater=%v", a.Name, b.Name, ab, lab, lba))
			}
			for _, d := range V {
				evals += 2
				if ab && eq(b.Qry, d.Ins) && !eq(a.Qry, d.Ins) {
					note("equal-transitive", a.Name+" / "+b.Name+" / "+d.Name)
				}
				if lab && less(b.Qry, d.Ins) && !less(a.Qry, d.Ins) {
					note("less-transitive", a.Name+" / "+b.Name+" / "+d.Name)
				}
			}
		}
	}
	c.Add("evaluations", evals)
	c.Add("law_evaluations", evals)
	diag := map[string]any{}
	names := []string{}
	for k := range fails {
		names = append(names, k)
	}
	sort.Strings(names)
	for _, k := range names {
		diag[k] = map[string]any{"failing_instances": fails[k], "examples": examples[k]}
	}
	c.Set("law_failures_diagnostic", diag)
	c.Set("law_vocabulary", func() []string {
		var r []string
		for _, v := range V {
			r = append(r, v.Name)
		}
		return r
	}())
	if len(names) > 0 {
		fmt.Printf("C20 diagnostic: predicate laws broken on the vocabulary: %s (reported as a violation only where a trie/parser observation fails)\n", strings.Join(names, ", "))
	}
}

// ---- level 2: every insertion sequence at one node ---------------------------------------------

type c20Stats struct {
	states, transitions, rejected, obs, traces int64
}

type shardSet struct {
	mu [256]sync.Mutex
	m  [256]map[string][]uint16
}

func newShardSet() *shardSet {
	s := &shardSet{}
	for i := range s.m {
		s.m[i] = map[string][]uint16{}
	}
	return s
}

func (s *shardSet) put(canon string, h []uint16) {
	f := fnv.New32a()
	f.Write([]byte(canon))
	i := f.Sum32() & 255
	s.mu[i].Lock()
	if old, ok := s.m[i][canon]; !ok || histLess(h, old) {
		s.m[i][canon] = append([]uint16(nil), h...)
	}
	s.mu[i].Unlock()
}

func (s *shardSet) len() int {
	n := 0
	for i := range s.m {
		n += len(s.m[i])
	}
	return n
}

func (s *shardSet) sorted() [][]uint16 {
	var r [][]uint16
	for i := range s.m {
		for _, h := range s.m[i] {
			r = append(r, h)
		}
	}
	sort.Slice(r, func(i, j int) bool { return histLess(r[i], r[j]) })
	return r
}

func c20Sequences(c *ev.Ctx, s c20Space, col *c20Collector, distinct *shardSet) (st c20Stats, perDepth []int) {
	sp := c20New(s)
	n := len(sp.Keys)
	// tasks: first two tokens
	type task struct{ a, b int }
	var tasks []task
	for a := 0; a < n; a++ {
		tasks = append(tasks, task{a, -1})
		for b := 0; b < n; b++ {
			if a != b {
				tasks = append(tasks, task{a, b})
			}
		}
	}
	var capped int32
	var rec func(h []uint16, used []bool, st *c20Stats)
	rec = func(h []uint16, used []bool, st *c20Stats) {
		canon, fs, nobs := sp.Check(h, true)
		st.states++
		st.traces++
		st.obs += nobs
		col.add(sp, s, h, fs)
		if canon != "" {
			distinct.put(canon, h)
		}
		if len(h) >= s.depth || canon == "" {
			return
		}
		for k := 0; k < n; k++ {
			if used[k] {
				continue
			}
			if sp.RefDeclared(h, uint16(k)) { // the parser would reject this declaration: no insertion
				st.rejected++
				continue
			}
			st.transitions++
			used[k] = true
			rec(append(h, uint16(k)), used, st)
			used[k] = false
		}
	}
	var mu sync.Mutex
	par.Each(tasks, 0, func(_ int, t task) {
		if c.Expired() {
			atomic.StoreInt32(&capped, 1)
			return
		}
		var loc c20Stats
		used := make([]bool, n)
		if t.b < 0 {
			// the state after one insertion (children are explored by the two-token tasks)
			canon, fs, nobs := sp.Check([]uint16{uint16(t.a)}, true)
			loc.states++
			loc.traces++
			loc.transitions++
			loc.obs += nobs
			col.add(sp, s, []uint16{uint16(t.a)}, fs)
			distinct.put(canon, []uint16{uint16(t.a)})
		} else if s.depth >= 2 {
			h := []uint16{uint16(t.a)}
			if sp.RefDeclared(h, uint16(t.b)) {
				loc.rejected++
			} else {
				loc.transitions++
				used[t.a], used[t.b] = true, true
				rec([]uint16{uint16(t.a), uint16(t.b)}, used, &loc)
			}
		}
		mu.Lock()
		st.states += loc.states
		st.transitions += loc.transitions
		st.rejected += loc.rejected
		st.obs += loc.obs
		st.traces += loc.traces
		mu.Unlock()
	})
	// the empty trie
	ec, fs, nobs := sp.Check(nil, true)
	col.add(sp, s, nil, fs)
	distinct.put(ec, nil)
	st.states++
	st.obs += nobs
	if capped != 0 {
		c.Capped("space " + s.name + ": deadline reached while enumerating insertion sequences")
	}
	return
}

// ---- level 3: BFS over insertion histories with canonical-state merging -------------------------

func c20BFS(c *ev.Ctx, s c20Space, col *c20Collector, fullChecks bool) (st c20Stats, perDepth []int) {
	sp := c20New(s)
	nk := len(sp.Keys)
	frontier := [][]uint16{{}}
	if fullChecks {
		_, fs, nobs := sp.Check(nil, true)
		col.add(sp, s, nil, fs)
		st.obs += nobs
	}
	st.states = 1
	perDepth = append(perDepth, 1)
	for d := 1; d <= s.depth; d++ {
		next := newShardSet()
		var tr, rej, traces int64
		done := par.Range(int64(len(frontier)), 8, c.Expired, func(lo, hi int64) {
			var ltr, lrej int64
			h2 := make([]uint16, 0, 8)
			for i := lo; i < hi; i++ {
				h := frontier[i]
				for k := 0; k < nk; k++ {
					dup := false
					for _, x := range h {
						if int(x) == k {
							dup = true
						}
					}
					if dup {
						continue
					}
					if sp.RefDeclared(h, uint16(k)) {
						lrej++
						continue
					}
					ltr++
					h2 = append(append(h2[:0], h...), uint16(k))
					canon, fs, _ := sp.Check(h2, false)
					if canon == "" {
						col.add(sp, s, h2, fs)
						continue
					}
					next.put(canon, h2)
				}
			}
			atomic.AddInt64(&tr, ltr)
			atomic.AddInt64(&rej, lrej)
			atomic.AddInt64(&traces, ltr)
		})
		st.transitions += tr
		st.rejected += rej
		st.traces += traces
		if done < int64(len(frontier)) {
			c.Capped(fmt.Sprintf("space %s: depth %d expanded %d of %d states", s.name, d, done, len(frontier)))
			return
		}
		list := next.sorted()
		next = nil
		perDepth = append(perDepth, len(list))
		if fullChecks {
			var obs int64
			done := par.Range(int64(len(list)), 64, c.Expired, func(lo, hi int64) {
				var lobs int64
				for i := lo; i < hi; i++ {
					_, fs, nobs := sp.Check(list[i], true)
					lobs += nobs
					col.add(sp, s, list[i], fs)
				}
				atomic.AddInt64(&obs, lobs)
			})
			st.obs += obs
			st.states += done
			st.traces += done
			if done < int64(len(list)) {
				c.Capped(fmt.Sprintf("space %s: depth %d checked %d of %d distinct states", s.name, d, done, len(list)))
				return
			}
		} else {
			st.states += int64(len(list))
		}
		frontier = list
	}
	return
}

// c20CPU: user+system CPU seconds of this process so far (wall time depends on who else uses the machine)
func c20CPU() float64 {
	var ru syscall.Rusage
	syscall.Getrusage(syscall.RUSAGE_SELF, &ru)
	return float64(ru.Utime.Sec+ru.Stime.Sec) + float64(ru.Utime.Usec+ru.Stime.Usec)/1e6
}

// ---- reporting ----------------------------------------------------------------------------------

func c20Key(f *c20Fail) string {
	if f.Cause == "print-alike-types" {
		// one identity per observable symptom of the one cause (ordering cannot separate two
		// different parameter types that print alike)
		return "C20:" + f.Kind + ":print-alike-types"
	}
	if f.Level == "parser" {
		return "C20:" + f.Kind + ":" + f.Text
	}
	return "C20:" + f.Kind + ":" + f.Space + ":" + f.Text
}

func c20TrieWhat(f *c20Fail, sp *aliasmodel.Space) string {
	return fmt.Sprintf("level trie, space %s (vocabulary %s, keys up to %d tokens)\nhistory: Insert %s\n%s: %s\ncause class: %s\ntrie after the history (children in stored order):\n%s",
		f.Space, f.Voc, f.KeyLen, f.Text, f.Kind, f.Detail, f.Cause, sp.Dump(f.Hist))
}

func c20ReportTrie(c *ev.Ctx, col *c20Collector) {
	ids := []string{}
	for id := range col.best {
		ids = append(ids, id)
	}
	sort.Strings(ids)
	// one report per key: smallest history over all spaces
	byKey := map[string]*c20Fail{}
	for _, id := range ids {
		f := col.best[id]
		k := c20Key(f)
		if o, ok := byKey[k]; !ok || histLess(f.Hist, o.Hist) {
			byKey[k] = f
		}
	}
	keys := []string{}
	for k := range byKey {
		keys = append(keys, k)
	}
	sort.Strings(keys)
	for _, k := range keys {
		f := byKey[k]
		sp := c20New(c20SpaceOf(f))
		// re-execute 3x: the same failure must show every time
		stable := true
		for i := 0; i < 3; i++ {
			_, fs, _ := sp.Check(f.Hist, true)
			found := false
			for _, x := range fs {
				if x.Kind == f.Kind && x.Detail == f.Detail {
					found = true
				}
			}
			stable = stable && found
		}
		if !stable {
			_, fs, _ := sp.Check(f.Hist, true)
			c.Broken(fmt.Sprintf("C20: failure %s did not reproduce identically on re-execution: space %s history %s first: %s now: %+v", k, f.Space, f.Text, f.Detail, fs))
			continue
		}
		b, _ := json.MarshalIndent(f, "", " ")
		c.Violation(k, c20TrieWhat(f, sp), map[string]string{"case.json": string(b)})
	}
	cs := map[string]int64{}
	for k, v := range col.counts {
		cs[k] = v
	}
	c.Set("failing_states_by_kind_and_cause", cs)
}

func runC20(tier string) int {
	c := ev.New("C20", tier)
	c.Budget(map[string]int{"quick": 200, "thorough": 2400}[tier])
	col := &c20Collector{best: map[string]*c20Fail{}, counts: map[string]int64{}}
	c20Laws(c)
	bounds := map[string]any{}
	var total c20Stats
	distinctAll := 0
	nodeDistinct := -1
	for _, s := range c20Spaces(tier) {
		if only := os.Getenv("C20_ONLY"); only != "" && only != s.name {
			continue
		}
		if c.Expired() {
			c.Capped("space " + s.name + " not started")
			continue
		}
		var st c20Stats
		var per []int
		t0, cpu0 := time.Now(), c20CPU()
		if !s.merge {
			ds := newShardSet()
			st, _ = c20Sequences(c, s, col, ds)
			nodeDistinct = ds.len()
			distinctAll += ds.len()
			bounds[s.name] = map[string]any{"vocabulary": s.voc, "key_len": s.keyLen, "max_sequence_len": s.depth, "sequences_checked": st.states, "distinct_canonical_states": ds.len(), "merging": false}
		} else {
			full := s.name != "node-merged"
			st, per = c20BFS(c, s, col, full)
			sum := 0
			for _, x := range per {
				sum += x
			}
			bounds[s.name] = map[string]any{"vocabulary": s.voc, "key_len": s.keyLen, "stream_len": s.streamLen, "depth": s.depth, "distinct_states_per_depth": per, "merging": true}
			if s.name == "node-merged" {
				// cross-validation of the merging argument: BFS with merging reaches exactly the
				// canonical states that the enumeration of every sequence reaches
				c.Set("merge_crosscheck", map[string]any{"distinct_states_all_sequences": nodeDistinct, "distinct_states_bfs_merged": sum})
				if nodeDistinct >= 0 && sum != nodeDistinct && !c.Expired() {
					c.Broken(fmt.Sprintf("C20: canonical-state merging is not faithful: %d states by full enumeration, %d by merged BFS", nodeDistinct, sum))
				}
				st.states, st.obs = 0, 0 // already counted by the unmerged enumeration
			} else {
				distinctAll += sum
			}
		}
		c.Set("space_"+s.name+"_wall_s", time.Since(t0).Seconds())
		c.Set("space_"+s.name+"_cpu_s", c20CPU()-cpu0)
		c.Add("space_"+s.name+"_states", st.states)
		c.Add("space_"+s.name+"_transitions", st.transitions)
		total.states += st.states
		total.transitions += st.transitions
		total.rejected += st.rejected
		total.obs += st.obs
		total.traces += st.traces
	}
	c20ReportTrie(c, col)
	var pst c20PStats
	if os.Getenv("C20_ONLY") == "" || os.Getenv("C20_ONLY") == "parser" {
		pst = c20Parser(c, tier)
	}
	c.Add("evaluations", total.obs+pst.obs)
	c.Set("states", total.states+pst.states)
	c.Set("transitions", total.transitions+total.rejected+pst.transitions)
	c.Set("transitions_insert", total.transitions)
	c.Set("transitions_rejected_duplicate", total.rejected)
	c.Set("traces_validated_against_impl", total.traces+pst.traces)
	c.Set("distinct_nontrivial", distinctAll+int(pst.distinct))
	c.Set("rule", "trie levels: state = real trie reached by an insertion history (level 2: every sequence, level 3: one representative per canonical pre-order walk); transition = one declaration attempt (Insert if the reference says the alias is new, otherwise a rejected duplicate); after every state every key of the universe is looked up (Contains, exact Search), every call stream is searched with the parser's generator, siblings are compared pairwise, Copy is compared; parser level: state = one program (ordered declarations x layout), transition = one declaration or call in it; distinct_nontrivial = distinct canonical trie states + distinct (declaration multiset, outcome) classes of programs")
	c.Set("bounds", bounds)
	c.Assume("canonical-state merging: the trie's operations read only child order, node keys and values (all in the canonical form) and the pure key predicates; cross-checked against the unmerged enumeration at one node",
		"call streams contain identifiers, an integer, a symbol and a keyword; negated and parenthesised arguments are not part of the trie-level call alphabet",
		"a law failure of tokenEqual/tokenLess alone is a diagnostic, not a violation")
	c.Sample(map[string]any{"space": "trieA", "history": "Insert [foo <a:K#1>], [foo <a:K#2>], [foo foo]", "observations": "Contains x56 keys, Search x155 call streams + x56 exact, sibling pairs, Copy"})
	return c.Finish()
}

func replayC20(dir string) int {
	b, err := os.ReadFile(filepath.Join(dir, "case.json"))
	if err != nil {
		fmt.Println(err)
		return 2
	}
	var f c20Fail
	if err := json.Unmarshal(b, &f); err != nil {
		fmt.Println(err)
		return 2
	}
	if f.Level == "parser" {
		return c20ReplayParser(dir, &f)
	}
	sp := c20New(c20SpaceOf(&f))
	_, fs, _ := sp.Check(f.Hist, true)
	fmt.Printf("history: Insert %s\n%s", sp.HistString(f.Hist), sp.Dump(f.Hist))
	if len(fs) > 0 {
		fmt.Printf("VIOLATION property=C20 replay=%s\n", dir)
		for _, x := range fs {
			fmt.Printf("  %s: %s (print-alike siblings: %v)\n", x.Kind, x.Detail, x.PrintAlike)
		}
		return 1
	}
	fmt.Println("C20 replay: property holds on this history")
	return 0
}
