package main

// C01 families "stmt" (control flow: every loop kind × header × body template × nesting) and
// "func" (value / Referenz parameters of every type, returns, recursion).

import (
	"fmt"

	"ddpmc/internal/batch"
	. "ddpmc/internal/cdm"
)

func zl(v int64) Expr    { return &Lit{T: Zahl, V: v} }
func kl(v float64) Expr  { return &Lit{T: Komma, V: v} }
func tl(s string) Expr   { return &Lit{T: Text, V: []rune(s)} }
func cl(r rune) Expr     { return &Lit{T: Char, V: r} }
func bl(b bool) Expr     { return &Lit{T: Bool, V: b} }
func byl(v uint8) Expr   { return &Cast{X: zl(int64(v)), T: Byte} }
func vr(n string, t *Type) *Var { return &Var{Name: n, T: t} }
func eq(a, b Expr) Expr  { return &Bin{Op: "gleich", L: a, R: b, T: Bool} }
func pr(e Expr) []Stmt   { return batch.PrintLn(e) }
func prs(s string) Stmt  { return &Print{X: tl(s)} }
func seq(ss ...[]Stmt) []Stmt {
	var out []Stmt
	for _, s := range ss {
		out = append(out, s...)
	}
	return out
}
func one(s Stmt) []Stmt { return []Stmt{s} }

type loopHeader struct {
	name           string
	t              *Type
	from, to, step Expr
}

func loopHeaders() []loopHeader {
	return []loopHeader{
		{"z1-3", Zahl, zl(1), zl(3), nil},
		{"z3-1,-1", Zahl, zl(3), zl(1), zl(-1)},
		{"z1-1", Zahl, zl(1), zl(1), zl(1)},
		{"z1-0", Zahl, zl(1), zl(0), zl(1)},
		{"z0-1,-1", Zahl, zl(0), zl(1), zl(-1)},
		{"z0-10,3", Zahl, zl(0), zl(10), zl(3)},
		{"z10-0,-3", Zahl, zl(10), zl(0), zl(-3)},
		{"z-2-2", Zahl, zl(-2), zl(2), nil},
		{"zmax", Zahl, zl(9223372036854775805), zl(9223372036854775806), nil},
		{"k0-1,0.25", Komma, kl(0), kl(1), kl(0.25)},
		{"k1-0,-0.5", Komma, kl(1), kl(0), kl(-0.5)},
		{"k0-2", Komma, kl(0), kl(2), nil},
		{"b250-255", Byte, zl(250), zl(255), nil},
		{"b3-0,-1", Byte, byl(3), byl(0), zl(-1)},
		{"b0-6,2", Byte, zl(0), zl(6), byl(2)},
	}
}

// body templates over a loop variable v of numeric type t; k is a mid value for break/continue
type bodyTmpl struct {
	name string
	mk   func(pfx string, v *Var) []Stmt
}

func midCond(v *Var) Expr {
	switch v.T.K {
	case KKomma:
		return &Bin{Op: "groesser", L: v, R: kl(0.4), T: Bool}
	case KByte:
		return &Bin{Op: "groesser", L: v, R: zl(1), T: Bool}
	}
	return &Bin{Op: "groesser", L: v, R: zl(1), T: Bool}
}

func bodyTmpls() []bodyTmpl {
	return []bodyTmpl{
		{"print", func(p string, v *Var) []Stmt { return pr(v) }},
		{"continue", func(p string, v *Var) []Stmt {
			return seq(one(&If{Cond: midCond(v), Then: seq(one(prs("c")), one(&Continue{}))}), pr(v))
		}},
		{"break", func(p string, v *Var) []Stmt {
			return seq(one(&If{Cond: midCond(v), Then: seq(one(prs("b")), one(&Break{}))}), pr(v))
		}},
		{"textlocal", func(p string, v *Var) []Stmt { // a heap local in the body + early exits
			t := vr(p+"_t", Text)
			return seq(one(&VarDecl{Name: t.Name, T: Text, Init: &Bin{Op: "verkettet", L: tl("x"), R: &Cast{X: v, T: Text}, T: Text}}),
				one(&If{Cond: midCond(v), Then: one(&Continue{})}), pr(t))
		}},
		{"nested", func(p string, v *Var) []Stmt {
			j := vr(p+"_j", Zahl)
			return seq(pr(v), one(&For{Var: j.Name, T: Zahl, From: zl(1), To: zl(2), Body: seq(
				one(&If{Cond: eq(j, zl(2)), Then: one(&Break{})}), pr(j))}))
		}},
		{"ifchain", func(p string, v *Var) []Stmt {
			return one(&If{Cond: &Bin{Op: "kleiner", L: v, R: zl(1), T: Bool}, Then: one(prs("<1\n")),
				Else: one(&If{Cond: &Bin{Op: "kleiner", L: v, R: zl(3), T: Bool}, Then: one(prs("<3\n")), Else: one(prs(">=3\n"))})})
		}},
	}
}

func genStmts() []*batch.Case {
	var out []*batch.Case
	n := 0
	add := func(key, desc string, body []Stmt, funcs ...*Func) {
		n++
		out = append(out, &batch.Case{Key: key, Desc: desc, Body: body, Funcs: funcs})
	}
	pf := func() string { return fmt.Sprintf("s%d", n+1) }
	for _, h := range loopHeaders() {
		for _, b := range bodyTmpls() {
			p := pf()
			v := vr(p+"_i", h.t)
			loop := &For{Var: v.Name, T: h.t, From: h.from, To: h.to, Step: h.step, Body: b.mk(p, v)}
			add("for:"+h.name+":"+b.name, "counting loop "+h.name+" body "+b.name, seq(one(loop), one(prs("end\n"))))
			// the same loop inside a function that returns from inside the loop
			p = pf()
			v = vr(p+"_i", h.t)
			f := &Func{Name: p + "_f", Ret: Zahl, Body: seq(
				one(&For{Var: v.Name, T: h.t, From: h.from, To: h.to, Step: h.step, Body: seq(b.mk(p, v), one(&If{Cond: midCond(v), Then: one(&Return{X: zl(7)})}))}),
				one(&Return{X: zl(-1)}))}
			add("for-in-func:"+h.name+":"+b.name, "counting loop with return inside "+h.name+" body "+b.name, pr(&Call{F: f}), f)
		}
	}
	// while / do-while / repeat with counts 0,1,3 and each body template
	for _, cnt := range []int64{0, 1, 3} {
		for _, b := range bodyTmpls() {
			p := pf()
			v := vr(p+"_i", Zahl)
			dec := one(&Compound{Op: "verringere", Target: v, Val: zl(1)})
			body := seq(dec, b.mk(p, v))
			add(fmt.Sprintf("while:%d:%s", cnt, b.name), "while", seq(one(&VarDecl{Name: v.Name, T: Zahl, Init: zl(cnt)}),
				one(&While{Cond: &Bin{Op: "groesser", L: v, R: zl(0), T: Bool}, Body: body}), pr(v)))
			p = pf()
			v = vr(p+"_i", Zahl)
			body = seq(one(&Compound{Op: "verringere", Target: v, Val: zl(1)}), b.mk(p, v))
			add(fmt.Sprintf("dowhile:%d:%s", cnt, b.name), "do-while", seq(one(&VarDecl{Name: v.Name, T: Zahl, Init: zl(cnt)}),
				one(&DoWhile{Cond: &Bin{Op: "groesser", L: v, R: zl(0), T: Bool}, Body: body}), pr(v)))
			p = pf()
			v = vr(p+"_i", Zahl)
			body = seq(one(&Compound{Op: "erhoehe", Target: v, Val: zl(1)}), b.mk(p, v))
			add(fmt.Sprintf("repeat:%d:%s", cnt, b.name), "repeat", seq(one(&VarDecl{Name: v.Name, T: Zahl, Init: zl(0)}),
				one(&Repeat{N: zl(cnt), Body: body}), pr(v)))
		}
	}
	// for-each over Text / lists (empty, 1, 3; multi-byte) with and without index, break/continue
	type src struct {
		name string
		e    Expr
		et   *Type
	}
	mkList := func(t *Type, vs ...Expr) Expr { return &ListLit{T: ListOf(t), El: vs} }
	srcs := []src{
		{"text-empty", tl(""), Char}, {"text-1", tl("ä"), Char}, {"text-mb", tl("a€😀b"), Char},
		{"zl-empty", mkList(Zahl), Zahl}, {"zl-3", mkList(Zahl, zl(5), zl(-6), zl(7)), Zahl},
		{"tl-3", mkList(Text, tl("x"), tl(""), tl("äö")), Text}, {"kl-2", mkList(Komma, kl(0.5), kl(-2)), Komma},
		{"bl-2", mkList(Bool, bl(true), bl(false)), Bool}, {"cl-2", mkList(Char, cl('z'), cl('€')), Char},
	}
	for _, s := range srcs {
		for _, form := range []string{"temp", "var"} {
			for _, idx := range []bool{false, true} {
				for _, ctl := range []string{"none", "break", "continue"} {
					p := pf()
					v := vr(p+"_e", s.et)
					var pre []Stmt
					in := s.e
					if form == "var" {
						sv := vr(p+"_s", s.e.Ty())
						pre = one(&VarDecl{Name: sv.Name, T: s.e.Ty(), Init: s.e})
						in = sv
					}
					iname := ""
					var body []Stmt
					if idx {
						iname = p + "_n"
						body = pr(vr(iname, Zahl))
						if ctl != "none" {
							var c Stmt = &Break{}
							if ctl == "continue" {
								c = &Continue{}
							}
							body = seq(one(&If{Cond: eq(vr(iname, Zahl), zl(2)), Then: one(c)}), body)
						}
					} else if ctl != "none" {
						continue
					}
					body = seq(body, pr(v))
					add(fmt.Sprintf("foreach:%s:%s:idx=%v:%s", s.name, form, idx, ctl), "for-each "+s.name,
						seq(pre, one(&ForEach{Var: v.Name, T: s.et, Idx: iname, In: in, Body: body}), one(prs("end\n"))))
				}
			}
		}
	}
	// assignment + compound assignment on every numeric type and on list elements / fields
	for _, t := range nums {
		for _, op := range []string{"erhoehe", "verringere", "vervielfache", "teile"} {
			for _, vt := range nums {
				p := pf()
				v := vr(p+"_x", t)
				var init, val Expr = zl(7), zl(3)
				if t.K == KKomma {
					init = kl(7.5)
				}
				switch vt.K {
				case KKomma:
					val = kl(2.5)
				case KByte:
					val = byl(200)
				}
				add("compound:"+op+":"+t.String()+","+vt.String(), "compound assignment",
					seq(one(&VarDecl{Name: v.Name, T: t, Init: init}), one(&Compound{Op: op, Target: v, Val: val}), pr(v)))
			}
		}
	}
	for _, t := range ints {
		for _, op := range []string{"shl", "shr"} {
			p := pf()
			v := vr(p+"_x", t)
			add("compound:"+op+":"+t.String(), "compound shift", seq(one(&VarDecl{Name: v.Name, T: t, Init: zl(5)}), one(&Compound{Op: op, Target: v, Val: zl(2)}), pr(v)))
		}
	}
	for _, t := range []*Type{Zahl, Komma, Bool} {
		p := pf()
		v := vr(p+"_x", t)
		var init Expr = zl(5)
		if t.K == KKomma {
			init = kl(2.5)
		} else if t.K == KBool {
			init = bl(true)
		}
		add("compound:negiere:"+t.String(), "negiere", seq(one(&VarDecl{Name: v.Name, T: t, Init: init}), one(&Compound{Op: "negiere", Target: v}), pr(v)))
	}
	{
		p := pf()
		l := vr(p+"_l", ListOf(Zahl))
		el := &Bin{Op: "index", L: l, R: zl(2), T: Zahl}
		add("compound:list-element", "compound on list element", seq(one(&VarDecl{Name: l.Name, T: l.T, Init: &ListLit{T: l.T, El: []Expr{zl(1), zl(5), zl(3)}}}),
			one(&Compound{Op: "erhoehe", Target: el, Val: zl(2)}), one(&Compound{Op: "vervielfache", Target: el, Val: zl(3)}),
			one(&Assign{Target: &Bin{Op: "index", L: l, R: zl(3), T: Zahl}, Val: zl(-9)}), pr(el), pr(&Bin{Op: "index", L: l, R: zl(3), T: Zahl}), pr(&Bin{Op: "index", L: l, R: zl(1), T: Zahl})))
	}
	return out
}

func genFuncs() []*batch.Case {
	var out []*batch.Case
	n := 0
	pf := func() string { n++; return fmt.Sprintf("f%d", n) }
	type tv struct {
		t      *Type
		v1, v2 Value
	}
	tvs := []tv{
		{Zahl, int64(5), int64(-9)}, {Komma, 1.5, -2.25}, {Byte, uint8(200), uint8(7)}, {Bool, true, false}, {Char, 'ä', 'z'},
		{Text, []rune("a€"), []rune("")},
		{ListOf(Zahl), &ListV{T: ListOf(Zahl), El: []Value{int64(1), int64(2)}}, &ListV{T: ListOf(Zahl)}},
		{ListOf(Text), &ListV{T: ListOf(Text), El: []Value{[]rune("x"), []rune("äö")}}, &ListV{T: ListOf(Text), El: []Value{[]rune("q")}}},
		{stQ, &StructV{T: stQ, Fl: []Value{[]rune("n"), &ListV{T: ListOf(Zahl), El: []Value{int64(4)}}, uint8(9)}}, DefaultValue(stQ)},
		{Any, &AnyV{T: Text, V: []rune("any")}, &AnyV{T: Zahl, V: int64(3)}},
	}
	g := &cellGen{}
	for _, x := range tvs {
		// identity by value, mutate the parameter locally, caller observes argument and result
		p := pf()
		a := vr(p+"_a", x.t)
		f := &Func{Name: p + "_id", Params: []Param{{Name: "p", T: x.t}}, Ret: x.t, Body: seq(
			one(&VarDecl{Name: "alt", T: x.t, Init: vr("p", x.t)}),
			one(&Assign{Target: vr("p", x.t), Val: valueExpr(x.t, x.v2)}),
			one(&Return{X: vr("alt", x.t)}))}
		res := vr(p+"_r", x.t)
		body := seq(one(&VarDecl{Name: a.Name, T: x.t, Init: valueExpr(x.t, x.v1)}),
			one(&VarDecl{Name: res.Name, T: x.t, Init: &Call{F: f, Args: []Expr{a}}}),
			observe(p, a, x.v1), observe(p, res, x.v1))
		out = append(out, &batch.Case{Key: "value-param:" + x.t.String(), Desc: "identity function with value parameter of type " + x.t.String(), Funcs: []*Func{f}, Structs: g.structsOf(x.t), Body: body})
		// reference parameter: callee overwrites, caller observes
		p = pf()
		a = vr(p+"_a", x.t)
		f2 := &Func{Name: p + "_set", Params: []Param{{Name: "p", T: x.t, Ref: true}}, Ret: Void, Body: one(&Assign{Target: vr("p", x.t), Val: valueExpr(x.t, x.v2)})}
		body = seq(one(&VarDecl{Name: a.Name, T: x.t, Init: valueExpr(x.t, x.v1)}), one(&ExprStmt{X: &Call{F: f2, Args: []Expr{a}}}), observe(p, a, x.v2))
		out = append(out, &batch.Case{Key: "ref-param:" + x.t.String(), Desc: "setter with Referenz parameter of type " + x.t.String(), Funcs: []*Func{f2}, Structs: g.structsOf(x.t), Body: body})
		// temporary passed by value, result used as operand of equality
		p = pf()
		f3 := &Func{Name: p + "_id", Params: []Param{{Name: "p", T: x.t}}, Ret: x.t, Body: one(&Return{X: vr("p", x.t)})}
		out = append(out, &batch.Case{Key: "temp-arg:" + x.t.String(), Desc: "temporary argument, result compared", Funcs: []*Func{f3}, Structs: g.structsOf(x.t),
			Body: pr(eq(&Call{F: f3, Args: []Expr{valueExpr(x.t, x.v1)}}, valueExpr(x.t, x.v1)))})
	}
	// recursion
	{
		p := pf()
		f := &Func{Name: p + "_fak", Params: []Param{{Name: "n", T: Zahl}}, Ret: Zahl}
		f.Body = seq(one(&If{Cond: &Bin{Op: "kleiner", L: vr("n", Zahl), R: zl(2), T: Bool}, Then: one(&Return{X: zl(1)})}),
			one(&Return{X: &Bin{Op: "mal", L: vr("n", Zahl), R: &Call{F: f, Args: []Expr{&Bin{Op: "minus", L: vr("n", Zahl), R: zl(1), T: Zahl}}}, T: Zahl}}))
		out = append(out, &batch.Case{Key: "recursion:fak", Desc: "recursive factorial", Funcs: []*Func{f}, Body: seq(pr(&Call{F: f, Args: []Expr{zl(5)}}), pr(&Call{F: f, Args: []Expr{zl(0)}}))})
	}
	{
		// two parameters, mixed value/reference, numeric conversion of the argument
		p := pf()
		f := &Func{Name: p + "_acc", Params: []Param{{Name: "summe", T: Komma, Ref: true}, {Name: "x", T: Komma}}, Ret: Void,
			Body: one(&Compound{Op: "erhoehe", Target: vr("summe", Komma), Val: vr("x", Komma)})}
		s := vr(p+"_s", Komma)
		out = append(out, &batch.Case{Key: "ref+value:Kommazahl", Desc: "accumulate through a reference", Funcs: []*Func{f}, Body: seq(
			one(&VarDecl{Name: s.Name, T: Komma, Init: kl(0.5)}), one(&ExprStmt{X: &Call{F: f, Args: []Expr{s, kl(2)}}}), one(&ExprStmt{X: &Call{F: f, Args: []Expr{s, kl(-0.25)}}}), pr(s))})
	}
	return out
}
