package main

// C02 — generator: type classes, operand forms, operators, value contexts; everything is rendered as
// plain DDP source text. Nothing here knows which combinations the typechecker admits: the real
// frontend is the only filter (see c02.go).

import (
	"strings"
)

// ---------------------------------------------------------------- type classes

type c02Type struct {
	key    string // class name used in violation keys
	name   string // DDP spelling of the type
	g      byte   // grammatical gender m f n
	lit    string // a temporary of that type (literal / constructor / conversion), usable as an operand
	ref    string // spelling of the reference parameter type
	ret    string // spelling after the article in a return type ("" = name)
	nested bool   // element type is itself a list (known to crash the code generator)
	scalar bool   // not a list
}

func c02Types() []*c02Type {
	L := func(els ...string) string { return "(eine Liste, die aus " + strings.Join(els, ", ") + " besteht)" }
	ts := []*c02Type{
		{key: "Zahl", name: "Zahl", g: 'f', lit: "2", ref: "Zahlen Referenz", scalar: true},
		{key: "Kommazahl", name: "Kommazahl", g: 'f', lit: "2,5", ref: "Kommazahlen Referenz", scalar: true},
		{key: "Byte", name: "Byte", g: 'm', lit: "(2 als Byte)", ref: "Byte Referenz", scalar: true},
		{key: "Wahrheitswert", name: "Wahrheitswert", g: 'm', lit: "wahr", ref: "Wahrheitswert Referenz", scalar: true},
		{key: "Buchstabe", name: "Buchstabe", g: 'm', lit: "'b'", ref: "Buchstaben Referenz", ret: "Buchstaben", scalar: true},
		{key: "Text", name: "Text", g: 'm', lit: `"abc"`, ref: "Text Referenz", scalar: true},
		{key: "ZahlenListe", name: "Zahlen Liste", g: 'f', lit: L("1", "2", "3"), ref: "Zahlen Listen Referenz"},
		{key: "KommazahlenListe", name: "Kommazahlen Liste", g: 'f', lit: L("1,5", "2,5", "3,5"), ref: "Kommazahlen Listen Referenz"},
		{key: "ByteListe", name: "Byte Liste", g: 'f', lit: L("(1 als Byte)", "(2 als Byte)", "(3 als Byte)"), ref: "Byte Listen Referenz"},
		{key: "WahrheitswertListe", name: "Wahrheitswert Liste", g: 'f', lit: L("wahr", "falsch", "wahr"), ref: "Wahrheitswert Listen Referenz"},
		{key: "BuchstabenListe", name: "Buchstaben Liste", g: 'f', lit: L("'a'", "'b'", "'c'"), ref: "Buchstaben Listen Referenz"},
		{key: "TextListe", name: "Text Liste", g: 'f', lit: L(`"a"`, `"b"`, `"c"`), ref: "Text Listen Referenz"},
		{key: "Punkt", name: "Punkt", g: 'm', lit: "(leer_Punkt)", ref: "Punkt Referenz", scalar: true},
		{key: "PunktListe", name: "Punkt Liste", g: 'f', lit: L("(leer_Punkt)", "(leer_Punkt)", "(leer_Punkt)"), ref: "Punkt Listen Referenz"},
		{key: "Variable", name: "Variable", g: 'f', lit: "(5 als Variable)", ref: "Variablen Referenz", scalar: true},
		{key: "AliasZahl", name: "Ganzzahl", g: 'f', lit: "(2 als Ganzzahl)", ref: "Ganzzahl Referenz", scalar: true},
		{key: "AliasText", name: "Wort", g: 'n', lit: `("abc" als Wort)`, ref: "Wort Referenz", scalar: true},
		{key: "AliasByte", name: "Oktett", g: 'n', lit: "((2 als Byte) als Oktett)", ref: "Oktett Referenz", scalar: true},
		{key: "AliasKommazahl", name: "Bruchzahl", g: 'f', lit: "(2,5 als Bruchzahl)", ref: "Bruchzahl Referenz", scalar: true},
		{key: "AliasListe", name: "Reihe", g: 'f', lit: L("1", "2", "3"), ref: "Reihe Referenz"},
		{key: "DefZahl", name: "Nummer", g: 'f', lit: "(2 als Nummer)", ref: "Nummer Referenz", scalar: true},
		{key: "DefText", name: "Titel", g: 'm', lit: `("abc" als Titel)`, ref: "Titel Referenz", scalar: true},
		{key: "DefByte", name: "Oktade", g: 'f', lit: "((2 als Byte) als Oktade)", ref: "Oktade Referenz", scalar: true},
		{key: "DefPunkt", name: "Ort", g: 'm', lit: "((leer_Punkt) als Ort)", ref: "Ort Referenz", scalar: true},
		{key: "ListeVonListen", name: "Reihe Liste", g: 'f', lit: "(eine leere Reihe Liste)", ref: "Reihe Listen Referenz", nested: true},
	}
	return ts
}

// c02Preamble declares the user-defined types every candidate may refer to.
const c02Preamble = `Wir nennen die Kombination aus
	der Zahl px mit Standardwert 1,
	dem Text pt mit Standardwert "t",
einen Punkt, und erstellen sie so:
	"leer_Punkt" oder
	"neu_Punkt <px> <pt>"

Wir nennen eine Zahl auch eine Ganzzahl.
Wir nennen einen Text auch ein Wort.
Wir nennen einen Byte auch ein Oktett.
Wir nennen eine Kommazahl auch eine Bruchzahl.
Wir nennen eine Zahlen Liste auch eine Reihe.
Wir definieren eine Nummer als eine Zahl.
Wir definieren einen Titel als einen Text.
Wir definieren eine Oktade als einen Byte.
Wir definieren einen Ort als einen Punkt.

`

func (t *c02Type) der() string   { return map[byte]string{'m': "Der", 'f': "Die", 'n': "Das"}[t.g] }
func (t *c02Type) einen() string { return map[byte]string{'m': "einen", 'f': "eine", 'n': "ein"}[t.g] }
func (t *c02Type) ein() string   { return map[byte]string{'m': "ein", 'f': "eine", 'n': "ein"}[t.g] }
func (t *c02Type) kein() string  { return "k" + t.ein() }
func (t *c02Type) einem() string {
	return map[byte]string{'m': "einem", 'f': "einer", 'n': "einem"}[t.g]
}
func (t *c02Type) jeden() string {
	return map[byte]string{'m': "jeden", 'f': "jede", 'n': "jedes"}[t.g]
}
func (t *c02Type) std() string { return "(der Standardwert von " + t.einem() + " " + t.name + ")" }
func (t *c02Type) retName() string {
	if t.ret != "" {
		return t.ret
	}
	return t.name
}

// listName spells the list type whose elements are of type t
func (t *c02Type) listName() string {
	switch t.key {
	case "Zahl":
		return "Zahlen Liste"
	case "Kommazahl":
		return "Kommazahlen Liste"
	case "Buchstabe":
		return "Buchstaben Liste"
	case "Variable":
		return "Variablen Liste"
	}
	return t.name + " Liste"
}
func (t *c02Type) decl(v, init string) string {
	return t.der() + " " + t.name + " " + v + " ist " + init + "."
}

// ---------------------------------------------------------------- cells = operator applications

var c02Forms = []string{"lit", "std", "var"}

// c02Cell is one operator application: operator x operand classes x operand forms (x target type).
type c02Cell struct {
	fam    string // family (unary, binary, ...)
	op     string
	types  []*c02Type // operand classes
	forms  []string   // operand forms
	target *c02Type   // casts, type checks, type operators, 'eine leere T'
	tmpl   func(o []string, T *c02Type) string
	lvalue bool // the expression is written in the assignable grammar (reference / assignment target)
}

func (c *c02Cell) nested() bool {
	for _, t := range c.types {
		if t.nested {
			return true
		}
	}
	if c.target != nil && c.target.nested {
		return true
	}
	// constructors that build a list of their operands: a list operand makes a list of lists
	switch c.op {
	case "liste-aus-1", "liste-aus-2":
		return !c.types[0].scalar
	case "n-mal":
		return !c.types[1].scalar
	}
	return false
}

func (c *c02Cell) typeKey() string {
	var p []string
	for _, t := range c.types {
		p = append(p, t.key)
	}
	if c.target != nil {
		p = append(p, "->"+c.target.key)
	}
	return strings.Join(p, ",")
}

func (c *c02Cell) formKey() string { return strings.Join(c.forms, ",") }

// render returns the declarations of the operand variables and the expression (not parenthesised).
// sfx makes every name unique so that candidates can be packed into one program.
func (c *c02Cell) render(sfx string) (decls []string, expr string) {
	ops := make([]string, len(c.types))
	for i, t := range c.types {
		switch c.forms[i] {
		case "lit":
			ops[i] = t.lit
		case "std":
			ops[i] = t.std()
		case "var":
			v := string(rune('a'+i)) + sfx
			decls = append(decls, t.decl(v, t.lit))
			ops[i] = v
		}
	}
	return decls, c.tmpl(ops, c.target)
}

type c02Op struct {
	name string
	ar   int
	tmpl func(o []string, T *c02Type) string
}

func c02UnaryOps() []c02Op {
	return []c02Op{
		{"betrag", 1, func(o []string, _ *c02Type) string { return "der Betrag von " + o[0] }},
		{"negiert", 1, func(o []string, _ *c02Type) string { return "-" + o[0] }},
		{"nicht", 1, func(o []string, _ *c02Type) string { return "nicht " + o[0] }},
		{"logisch-nicht", 1, func(o []string, _ *c02Type) string { return "logisch nicht " + o[0] }},
		{"laenge", 1, func(o []string, _ *c02Type) string { return "die Länge von " + o[0] }},
		// field access: the left operand is a field name, not a value
		{"feld-px", 1, func(o []string, _ *c02Type) string { return "px von " + o[0] }},
		{"feld-pt", 1, func(o []string, _ *c02Type) string { return "pt von " + o[0] }},
		// constructors with one operand
		{"liste-aus-1", 1, func(o []string, _ *c02Type) string { return "eine Liste, die aus " + o[0] + " besteht" }},
	}
}

func c02BinaryOps() []c02Op {
	inf := func(w string) func(o []string, _ *c02Type) string {
		return func(o []string, _ *c02Type) string { return o[0] + " " + w + " " + o[1] }
	}
	ist := func(w string) func(o []string, _ *c02Type) string {
		return func(o []string, _ *c02Type) string { return o[0] + " " + w + " " + o[1] + " ist" }
	}
	return []c02Op{
		{"plus", 2, inf("plus")}, {"minus", 2, inf("minus")}, {"mal", 2, inf("mal")}, {"durch", 2, inf("durch")},
		{"modulo", 2, inf("modulo")}, {"hoch", 2, inf("hoch")},
		{"logarithmus", 2, func(o []string, _ *c02Type) string { return "der Logarithmus von " + o[0] + " zur Basis " + o[1] }},
		{"wurzel", 2, func(o []string, _ *c02Type) string { return "die " + o[1] + ". Wurzel von " + o[0] }},
		{"und", 2, inf("und")}, {"oder", 2, inf("oder")},
		{"entweder-oder", 2, func(o []string, _ *c02Type) string { return "entweder " + o[0] + ", oder " + o[1] }},
		{"logisch-und", 2, inf("logisch und")}, {"logisch-oder", 2, inf("logisch oder")}, {"logisch-kontra", 2, inf("logisch kontra")},
		{"links-verschoben", 2, func(o []string, _ *c02Type) string { return o[0] + " um " + o[1] + " Bit nach Links verschoben" }},
		{"rechts-verschoben", 2, func(o []string, _ *c02Type) string { return o[0] + " um " + o[1] + " Bit nach Rechts verschoben" }},
		{"gleich", 2, ist("gleich")}, {"ungleich", 2, ist("ungleich")},
		{"kleiner", 2, ist("kleiner als")}, {"kleiner-oder", 2, ist("kleiner als, oder")},
		{"groesser", 2, ist("größer als")}, {"groesser-oder", 2, ist("größer als, oder")},
		{"verkettet", 2, inf("verkettet mit")},
		{"stelle", 2, inf("an der Stelle")},
		{"ab-element", 2, func(o []string, _ *c02Type) string { return o[0] + " ab dem " + o[1] + ". Element" }},
		{"bis-element", 2, func(o []string, _ *c02Type) string { return o[0] + " bis zum " + o[1] + ". Element" }},
		// constructors with two operands
		{"liste-aus-2", 2, func(o []string, _ *c02Type) string { return "eine Liste, die aus " + o[0] + ", " + o[1] + " besteht" }},
		{"neu-punkt", 2, func(o []string, _ *c02Type) string { return "neu_Punkt " + o[0] + " " + o[1] }},
	}
}

func c02TernaryOps() []c02Op {
	return []c02Op{
		{"im-bereich", 3, func(o []string, _ *c02Type) string { return o[0] + " im Bereich von " + o[1] + " bis " + o[2] }},
		{"zwischen", 3, func(o []string, _ *c02Type) string { return o[0] + " zwischen " + o[1] + " und " + o[2] + " ist" }},
		{"falls", 3, func(o []string, _ *c02Type) string { return o[0] + ", falls " + o[1] + ", ansonsten " + o[2] }},
	}
}

func c02TargetOps() []c02Op { // one operand + a target type
	return []c02Op{
		{"als", 1, func(o []string, T *c02Type) string { return o[0] + " als " + T.name }},
		{"ein-T-ist", 1, func(o []string, T *c02Type) string { return o[0] + " " + T.ein() + " " + T.name + " ist" }},
		{"kein-T-ist", 1, func(o []string, T *c02Type) string { return o[0] + " " + T.kein() + " " + T.name + " ist" }},
	}
}

func c02TypeOps() []c02Op { // only a target type
	return []c02Op{
		{"groesse", 0, func(_ []string, T *c02Type) string { return "die Größe von " + T.einem() + " " + T.name }},
		{"standardwert", 0, func(_ []string, T *c02Type) string { return "der Standardwert von " + T.einem() + " " + T.name }},
		{"leere-liste", 0, func(_ []string, T *c02Type) string { return "eine leere " + T.name }},
	}
}

// 'N Mal x' is not an expression of its own: the grammar knows it only as initialiser of a declared list
func c02NMalOps() []c02Op {
	return []c02Op{{"n-mal", 2, func(o []string, _ *c02Type) string { return o[0] + " Mal " + o[1] }}}
}

func c02NMalContexts() []c02Ctx {
	return []c02Ctx{
		{name: "init-n-mal", typed: true, quick: true, only: func(t *c02Type) bool { return !t.scalar }, gen: func(s string, d []string, e string, T *c02Type) (string, string, bool) {
			return "", joinDecls(d, "") + T.decl("l"+s, e) + "\n", false
		}},
	}
}

// lvalue operators: written in the grammar of assignables (assignment target, Referenz argument)
func c02LvalueOps() []c02Op {
	return []c02Op{
		{"lv-name", 1, func(o []string, _ *c02Type) string { return o[0] }},
		{"lv-stelle", 2, func(o []string, _ *c02Type) string { return o[0] + " an der Stelle " + o[1] }},
		{"lv-feld-px", 1, func(o []string, _ *c02Type) string { return "px von " + o[0] }},
		{"lv-feld-pt", 1, func(o []string, _ *c02Type) string { return "pt von " + o[0] }},
	}
}

// c02Space enumerates cell number i of a family lazily.
type c02Space struct {
	fam     string
	ops     []c02Op
	types   []*c02Type // operand classes
	targets []*c02Type // nil if the family has no target type
	forms   []string
	lvalue  bool
}

func ipow(b, e int) int {
	r := 1
	for ; e > 0; e-- {
		r *= b
	}
	return r
}

func (s *c02Space) size() int {
	n := 0
	for _, op := range s.ops {
		k := ipow(len(s.types), op.ar) * ipow(len(s.forms), op.ar)
		if s.targets != nil {
			k *= len(s.targets)
		}
		n += k
	}
	return n
}

func (s *c02Space) cell(i int) *c02Cell {
	for _, op := range s.ops {
		k := ipow(len(s.types), op.ar) * ipow(len(s.forms), op.ar)
		if s.targets != nil {
			k *= len(s.targets)
		}
		if i >= k {
			i -= k
			continue
		}
		c := &c02Cell{fam: s.fam, op: op.name, tmpl: op.tmpl, lvalue: s.lvalue}
		if s.targets != nil {
			c.target = s.targets[i%len(s.targets)]
			i /= len(s.targets)
		}
		for j := 0; j < op.ar; j++ {
			c.forms = append(c.forms, s.forms[i%len(s.forms)])
			i /= len(s.forms)
		}
		for j := 0; j < op.ar; j++ {
			c.types = append(c.types, s.types[i%len(s.types)])
			i /= len(s.types)
		}
		// lvalue cells: the base operand must be a variable
		if s.lvalue && c.forms[0] != "var" {
			return nil
		}
		return c
	}
	panic("cell index out of range")
}

// ---------------------------------------------------------------- candidates = cell in a value context

type c02Cand struct {
	id    string // unique name suffix
	cell  *c02Cell
	ctx   string   // context name
	declT *c02Type // declared type of the context (nil if untyped)
	pre   string   // top-level declarations (functions)
	body  string   // statements
	duden bool     // needs Duden/Ausgabe
}

func (k *c02Cand) ctxKey() string {
	if k.declT != nil {
		return k.ctx + ":" + k.declT.key
	}
	return k.ctx
}

// outOfDomain: the operands chosen for this candidate are outside the operator's domain (index 0,
// conversion of a Variable holding a Zahl to another type), so a Laufzeitfehler is the expected
// outcome. That out-of-domain operations end in a Laufzeitfehler is property C06; the run stage of
// C02 keeps one context of these candidates (a Laufzeitfehler costs a rebuild of the batch).
// Only a scheduling rule: a wrong prediction costs time, never a verdict.
func (k *c02Cand) outOfDomain() bool {
	c := k.cell
	switch c.op {
	case "stelle", "ab-element", "bis-element", "lv-stelle":
		return c.forms[1] == "std"
	case "im-bereich":
		return c.forms[1] == "std" || c.forms[2] == "std"
	case "als":
		return c.types[0].key == "Variable" && c.target.key != "Variable" && c.target.key != "Zahl" && c.target.key != "AliasZahl"
	}
	return false
}

// unspecifiedAtRuntime: the property texts do not say what these operand values do at run time
// (modulo by zero traps on this target): excluded from the run stage and counted.
func (k *c02Cand) unspecifiedAtRuntime() bool {
	return k.cell.op == "modulo" && k.cell.forms[1] == "std"
}

func (k *c02Cand) source() string {
	s := ""
	if k.duden {
		s = "Binde \"Duden/Ausgabe\" ein.\n\n"
	}
	return s + c02Preamble + k.pre + k.body
}

func c02BatchSource(ks []*c02Cand) string {
	var sb strings.Builder
	for _, k := range ks {
		if k.duden {
			sb.WriteString("Binde \"Duden/Ausgabe\" ein.\n\n")
			break
		}
	}
	sb.WriteString(c02Preamble)
	for _, k := range ks {
		sb.WriteString(k.pre)
		sb.WriteString(k.body)
		sb.WriteString("\n")
	}
	return sb.String()
}

type c02Ctx struct {
	name    string
	typed   bool // instantiated for every declared type
	quick   bool // part of the quick tier
	ownRule bool // admissibility does not follow the initialiser rule (loop headers): never pruned
	only    func(t *c02Type) bool
	gen     func(sfx string, decls []string, e string, T *c02Type) (pre, body string, duden bool)
}

func lines(ss ...string) string { return strings.Join(ss, "\n") + "\n" }
func joinDecls(decls []string, indent string) string {
	var sb strings.Builder
	for _, d := range decls {
		sb.WriteString(indent + d + "\n")
	}
	return sb.String()
}

func c02Contexts() []c02Ctx {
	isCounter := func(t *c02Type) bool { return t.key == "Zahl" || t.key == "Kommazahl" || t.key == "Byte" }
	hasList := func(t *c02Type) bool { return t.scalar }
	notNested := func(t *c02Type) bool { return !t.nested }
	return []c02Ctx{
		{name: "init-var", quick: true, gen: func(s string, d []string, e string, _ *c02Type) (string, string, bool) {
			return "", joinDecls(d, "") + "Die Variable v" + s + " ist (" + e + ").\n", false
		}},
		{name: "ausdruck", quick: true, gen: func(s string, d []string, e string, _ *c02Type) (string, string, bool) {
			return "", joinDecls(d, "") + "(" + e + ").\n", false
		}},
		{name: "init", typed: true, quick: true, gen: func(s string, d []string, e string, T *c02Type) (string, string, bool) {
			return "", joinDecls(d, "") + T.decl("r"+s, "("+e+")") + "\n", false
		}},
		{name: "assign", typed: true, only: notNested, gen: func(s string, d []string, e string, T *c02Type) (string, string, bool) {
			return "", joinDecls(d, "") + T.decl("r"+s, T.std()) + "\nSpeichere (" + e + ") in r" + s + ".\n", false
		}},
		{name: "arg", typed: true, quick: true, gen: func(s string, d []string, e string, T *c02Type) (string, string, bool) {
			pre := lines("Die Funktion f"+s+" mit dem Parameter p vom Typ "+T.name+", gibt nichts zurück, macht:",
				"\tVerlasse die Funktion.", "Und kann so benutzt werden:", "\t\"f"+s+" <p>\"", "")
			return pre, joinDecls(d, "") + "f" + s + " (" + e + ").\n", false
		}},
		{name: "return", typed: true, gen: func(s string, d []string, e string, T *c02Type) (string, string, bool) {
			pre := lines("Die Funktion g"+s+" gibt "+T.einen()+" "+T.retName()+" zurück, macht:") + joinDecls(d, "\t") +
				lines("\tGib ("+e+") zurück.", "Und kann so benutzt werden:", "\t\"g"+s+"\"", "")
			return pre, "Die Variable v" + s + " ist g" + s + ".\n", false
		}},
		{name: "return-nichts", gen: func(s string, d []string, e string, _ *c02Type) (string, string, bool) {
			pre := lines("Die Funktion g"+s+" gibt nichts zurück, macht:") + joinDecls(d, "\t") +
				lines("\tGib ("+e+") zurück.", "Und kann so benutzt werden:", "\t\"g"+s+"\"", "")
			return pre, "g" + s + ".\n", false
		}},
		{name: "wenn", gen: func(s string, d []string, e string, _ *c02Type) (string, string, bool) {
			return "", joinDecls(d, "") + lines("Wenn ("+e+"), dann:", "\tDie Zahl n"+s+" ist 0."), false
		}},
		{name: "solange", gen: func(s string, d []string, e string, _ *c02Type) (string, string, bool) {
			return "", joinDecls(d, "") + lines("Solange ("+e+"), mache:", "\tVerlasse die Schleife."), false
		}},
		{name: "listenelement", gen: func(s string, d []string, e string, _ *c02Type) (string, string, bool) {
			return "", joinDecls(d, "") + "Die Variable v" + s + " ist eine Liste, die aus (" + e + "), (" + e + ") besteht.\n", false
		}},
		{name: "listenelement", typed: true, only: hasList, gen: func(s string, d []string, e string, T *c02Type) (string, string, bool) {
			return "", joinDecls(d, "") + "Die " + T.listName() + " l" + s + " ist eine Liste, die aus (" + e + ") besteht.\n", false
		}},
		{name: "schreibe", quick: true, gen: func(s string, d []string, e string, _ *c02Type) (string, string, bool) {
			return "", joinDecls(d, "") + "Schreibe (" + e + ").\n", true
		}},
		{name: "selbst-gleich", gen: func(s string, d []string, e string, _ *c02Type) (string, string, bool) {
			return "", joinDecls(d, "") + "Die Variable v" + s + " ist ((" + e + ") gleich (" + e + ") ist).\n", false
		}},
		{name: "wiederhole-anzahl", quick: true, gen: func(s string, d []string, e string, _ *c02Type) (string, string, bool) {
			return "", joinDecls(d, "") + lines("Wiederhole:", "\tVerlasse die Schleife.", "("+e+") Mal."), false
		}},
		{name: "fuer-von", typed: true, ownRule: true, quick: true, only: isCounter, gen: func(s string, d []string, e string, T *c02Type) (string, string, bool) {
			return "", joinDecls(d, "") + lines("Für "+T.jeden()+" "+T.name+" i"+s+" von ("+e+") bis 3, mache:", "\tVerlasse die Schleife."), false
		}},
		{name: "fuer-bis", typed: true, ownRule: true, quick: true, only: isCounter, gen: func(s string, d []string, e string, T *c02Type) (string, string, bool) {
			return "", joinDecls(d, "") + lines("Für "+T.jeden()+" "+T.name+" i"+s+" von 1 bis ("+e+"), mache:", "\tVerlasse die Schleife."), false
		}},
		{name: "fuer-schritt", typed: true, ownRule: true, quick: true, only: isCounter, gen: func(s string, d []string, e string, T *c02Type) (string, string, bool) {
			return "", joinDecls(d, "") + lines("Für "+T.jeden()+" "+T.name+" i"+s+" von 1 bis 3 mit Schrittgröße ("+e+"), mache:", "\tVerlasse die Schleife."), false
		}},
		{name: "fuer-in", typed: true, ownRule: true, only: hasList, gen: func(s string, d []string, e string, T *c02Type) (string, string, bool) {
			return "", joinDecls(d, "") + lines("Für "+T.jeden()+" "+T.retName()+" i"+s+" in ("+e+"), mache:", "\tVerlasse die Schleife."), false
		}},
	}
}

// lvalue contexts: the expression is written where the grammar wants an assignable
func c02LvalueContexts() []c02Ctx {
	return []c02Ctx{
		{name: "ziel", typed: true, quick: true, gen: func(s string, d []string, e string, T *c02Type) (string, string, bool) { // assignment target, value of type T
			return "", joinDecls(d, "") + "Speichere " + T.lit + " in " + e + ".\n", false
		}},
		{name: "ziel-var", typed: true, gen: func(s string, d []string, e string, T *c02Type) (string, string, bool) {
			return "", joinDecls(d, "") + T.decl("w"+s, T.lit) + "\nSpeichere w" + s + " in " + e + ".\n", false
		}},
		{name: "ziel-als", typed: true, gen: func(s string, d []string, e string, T *c02Type) (string, string, bool) { // CastAssigneable as target
			return "", joinDecls(d, "") + "Speichere " + T.lit + " in " + e + " als " + T.name + ".\n", false
		}},
		{name: "referenz", typed: true, quick: true, gen: func(s string, d []string, e string, T *c02Type) (string, string, bool) {
			pre := lines("Die Funktion h"+s+" mit dem Parameter p vom Typ "+T.ref+", gibt nichts zurück, macht:",
				"\tVerlasse die Funktion.", "Und kann so benutzt werden:", "\t\"h"+s+" <p>\"", "")
			return pre, joinDecls(d, "") + "h" + s + " (" + e + ").\n", false
		}},
		{name: "referenz-als", typed: true, gen: func(s string, d []string, e string, T *c02Type) (string, string, bool) {
			pre := lines("Die Funktion h"+s+" mit dem Parameter p vom Typ "+T.ref+", gibt nichts zurück, macht:",
				"\tVerlasse die Funktion.", "Und kann so benutzt werden:", "\t\"h"+s+" <p>\"", "")
			return pre, joinDecls(d, "") + "h" + s + " (" + e + " als " + T.name + ").\n", false
		}},
	}
}

func (x *c02Ctx) make(sfx string, cell *c02Cell, T *c02Type) *c02Cand {
	decls, e := cell.render(sfx)
	pre, body, duden := x.gen(sfx, decls, e, T)
	return &c02Cand{id: sfx, cell: cell, ctx: x.name, declT: T, pre: pre, body: body, duden: duden}
}
