// ddpmc — bounded exhaustive explorers for the Kompilierer properties C01..C20.
package main

import (
	"fmt"
	"os"
)

type check struct {
	run    func(tier string) int
	replay func(dir string) int
}

var checks = map[string]check{}

func main() {
	if len(os.Args) >= 2 && os.Args[1] == "worker" {
		workerMain(os.Args[2:])
		return
	}
	if len(os.Args) >= 2 && os.Args[1] == "golden" {
		os.Exit(runGolden(os.Args[2:]))
	}
	if len(os.Args) < 3 {
		fmt.Fprintln(os.Stderr, "usage: ddpmc <ID> quick|thorough|replay <dir>")
		os.Exit(2)
	}
	id, mode := os.Args[1], os.Args[2]
	ck, ok := checks[id]
	if !ok {
		fmt.Fprintln(os.Stderr, "unknown check", id)
		os.Exit(2)
	}
	switch mode {
	case "quick", "thorough":
		os.Exit(ck.run(mode))
	case "replay":
		if len(os.Args) < 4 || ck.replay == nil {
			fmt.Fprintln(os.Stderr, "replay needs a directory / is not supported for", id)
			os.Exit(2)
		}
		os.Exit(ck.replay(os.Args[3]))
	}
	fmt.Fprintln(os.Stderr, "unknown mode", mode)
	os.Exit(2)
}

func init() {
	checks["C13"] = check{runC13, replayC13}
}
