#include <stdint.h>
int64_t c_eins(void) { return 1; }
