#include <stdint.h>
int64_t c_zwei(void) { return 2; }
