package main

// C14 — type equivalence is lawful; aliases are transparent, definitions opaque.
// Shape H over the type closure: explicit-state BFS by constructor application (list-of, two
// alias-of, two definition-of per type) from {6 primitives, Variable, two Kombinationen} to depth d on
// the REAL ddptypes constructors, every type paired with a typemodel term.
//   (A) relation level (this file): ddptypes.Equal on all pairs (reflexive, symmetric, agrees with the
//       model), transitive on all triples of U_2, predicates agree with the model.
//   (B) position level (c14pos.go): for every ordered pair (S,T) of source-expressible types a program
//       is generated and parsed by the real frontend; acceptance at initialisation, assignment, cast,
//       argument and return is compared with the property's oracle.

import (
	"encoding/json"
	"fmt"
	"os"
	"path/filepath"
	"sync"
	"sync/atomic"
	"time"

	"ddpmc/internal/ev"
	"ddpmc/internal/par"
	tm "ddpmc/internal/typemodel"

	"github.com/DDP-Projekt/Kompilierer/src/ddptypes"
)

// c14Spec is one node of the constructor DAG: a base type or a constructor applied to node Parent.
type c14Spec struct {
	Op     string `json:"op"` // prim | any | void | struct | L | A | D
	P      int    `json:"p,omitempty"`
	Parent int    `json:"parent"`
}

type c14Node struct {
	spec c14Spec
	term *tm.Term
	real ddptypes.Type
	name string // declared name (struct/alias/def)
	src  string // how the type is written in DDP source; "" = not expressible
}

type c14Universe struct {
	nodes     []c14Node
	depthEnd  []int // depthEnd[k] = number of nodes of depth <= k
	ctorApps  int64 // transitions: constructor applications
	dedupHits int64
	voidIdx   int
}

var c14RealPrims = [...]ddptypes.Type{ddptypes.ZAHL, ddptypes.KOMMAZAHL, ddptypes.BYTE, ddptypes.WAHRHEITSWERT, ddptypes.BUCHSTABE, ddptypes.TEXT}
var c14PrimListNames = [...]string{"Zahlen Liste", "Kommazahlen Liste", "Byte Liste", "Wahrheitswert Liste", "Buchstaben Liste", "Text Liste"}

func c14RealGender(g tm.Gender) ddptypes.GrammaticalGender {
	switch g {
	case tm.Maskulin:
		return ddptypes.MASKULIN
	case tm.Feminin:
		return ddptypes.FEMININ
	case tm.Neutrum:
		return ddptypes.NEUTRUM
	}
	return ddptypes.INVALID_GENDER
}

// c14Materialize builds model term + real type + source spelling for every spec (parents first).
func c14Materialize(specs []c14Spec) []c14Node {
	nodes := make([]c14Node, len(specs))
	for i, s := range specs {
		n := c14Node{spec: s}
		g := tm.Gender(i % 3)
		switch s.Op {
		case "prim":
			n.term, n.real, n.src = tm.NewPrim(s.P), c14RealPrims[s.P], tm.PrimNames[s.P]
		case "any":
			n.term, n.real, n.src = tm.NewAny(), ddptypes.VARIABLE, "Variable"
		case "void":
			n.term, n.real = tm.NewVoid(), ddptypes.VoidType{}
		case "struct":
			n.name = fmt.Sprintf("Komb%c", 'A'+s.P)
			g = tm.Gender((s.P + 1) % 3) // KombA feminin, KombB neutrum
			n.term = tm.NewStruct(i, g)
			n.real = &ddptypes.StructType{Name: n.name, GramGender: c14RealGender(g), Fields: []ddptypes.StructField{{Name: "wert", Type: ddptypes.ZAHL}}}
			n.src = n.name
		case "L":
			p := &nodes[s.Parent]
			n.term = tm.NewList(p.term)
			n.real = ddptypes.ListType{ElementType: p.real}
			if p.src != "" && p.term.Kind != tm.List { // `X Liste Liste` does not exist: a list of lists needs a named element type
				switch p.term.Kind {
				case tm.Prim:
					n.src = c14PrimListNames[p.term.P]
				case tm.Any:
					n.src = "Variablen Liste"
				default:
					n.src = p.name + " Liste"
				}
			}
		case "A":
			p := &nodes[s.Parent]
			n.name = fmt.Sprintf("Al%d", i)
			n.term = tm.NewAlias(i, g, p.term)
			n.real = &ddptypes.TypeAlias{Name: n.name, Underlying: p.real, GramGender: c14RealGender(g)}
			if p.src != "" {
				n.src = n.name
			}
		case "D":
			p := &nodes[s.Parent]
			n.name = fmt.Sprintf("Df%d", i)
			n.term = tm.NewDef(i, g, p.term)
			n.real = &ddptypes.TypeDef{Name: n.name, Underlying: p.real, GramGender: c14RealGender(g)}
			if p.src != "" && !p.term.IsAny() { // `Wir definieren … als eine Variable` is refused by the parser (SEM_BAD_TYPEDEF)
				n.src = n.name
			}
		default:
			panic("bad spec " + s.Op)
		}
		nodes[i] = n
	}
	return nodes
}

// c14Build explores the constructor closure breadth-first up to depth d. The state is the model term
// (complete spelling); a transition is one constructor application.
func c14Build(d int) *c14Universe {
	u := &c14Universe{}
	var specs []c14Spec
	for p := 0; p < 6; p++ {
		specs = append(specs, c14Spec{Op: "prim", P: p, Parent: -1})
	}
	specs = append(specs, c14Spec{Op: "any", Parent: -1}, c14Spec{Op: "struct", P: 0, Parent: -1}, c14Spec{Op: "struct", P: 1, Parent: -1})
	u.depthEnd = []int{len(specs)}
	seenList := map[int]bool{} // list-of is structural: applying it twice to the same type yields the same state
	lo := 0
	for k := 1; k <= d; k++ {
		hi := len(specs)
		for i := lo; i < hi; i++ {
			// two aliases and two definitions of every type: needed for "alias of the same target"
			// and "another definition of the same base"
			for _, op := range []string{"L", "L", "A", "A", "D", "D"} {
				u.ctorApps++
				if op == "L" {
					if seenList[i] {
						u.dedupHits++
						continue
					}
					seenList[i] = true
				}
				specs = append(specs, c14Spec{Op: op, Parent: i})
			}
		}
		lo = hi
		u.depthEnd = append(u.depthEnd, len(specs))
	}
	u.voidIdx = len(specs)
	specs = append(specs, c14Spec{Op: "void", Parent: -1}) // 'nichts': outside the closure, member of the relation checks only
	u.nodes = c14Materialize(specs)
	// explicit-state sanity: all states distinct
	seen := map[string]int{}
	for i, n := range u.nodes {
		if j, dup := seen[n.term.Full()]; dup {
			panic(fmt.Sprintf("duplicate state %s (%d,%d)", n.term.Full(), i, j))
		}
		seen[n.term.Full()] = i
	}
	return u
}

// c14SubDAG returns the specs of the ancestors of the given nodes (renumbered) and the new indices.
func (u *c14Universe) c14SubDAG(subjects ...int) ([]c14Spec, []int) {
	need := map[int]bool{}
	var mark func(i int)
	mark = func(i int) {
		if i < 0 || need[i] {
			return
		}
		need[i] = true
		mark(u.nodes[i].spec.Parent)
	}
	for _, s := range subjects {
		mark(s)
	}
	renum := map[int]int{}
	var specs []c14Spec
	for i := range u.nodes {
		if need[i] {
			s := u.nodes[i].spec
			if s.Parent >= 0 {
				s.Parent = renum[s.Parent]
			}
			renum[i] = len(specs)
			specs = append(specs, s)
		}
	}
	out := make([]int, len(subjects))
	for k, s := range subjects {
		out[k] = renum[s]
	}
	return specs, out
}

type c14RelFinding struct {
	key, what string
	subjects  []int
}

func c14Safe(f func() bool) (res bool, pan any) {
	defer func() {
		if r := recover(); r != nil {
			pan = r
		}
	}()
	return f(), nil
}

// c14CheckSingle: predicates of one type against the model.
func c14CheckSingle(nodes []c14Node, i int, out func(c14RelFinding)) (evals int64) {
	n := &nodes[i]
	t, r := n.term, n.real
	sh := t.Shape()
	type pc struct {
		name string
		impl func() bool
		want bool
	}
	for _, p := range []pc{
		{"IsNumeric", func() bool { return ddptypes.IsNumeric(r) }, t.IsNumeric()},
		{"IsList", func() bool { return ddptypes.IsList(r) }, t.IsList()},
		{"IsStruct", func() bool { return ddptypes.IsStruct(r) }, t.IsStruct()},
		{"IsAny", func() bool { return ddptypes.IsAny(r) }, t.IsAny()},
		{"IsPrimitive", func() bool { return ddptypes.IsPrimitive(r) }, t.IsPrimitive()},
		{"IsVoid", func() bool { return ddptypes.IsVoid(r) }, t.IsVoid()},
		{"IsTypeDef", func() bool { return ddptypes.IsTypeDef(r) }, t.IsDef()},
		{"Equal(t,t)", func() bool { return ddptypes.Equal(r, r) }, true},
		{"Equal(t,GetUnderlying(t))", func() bool { return ddptypes.Equal(r, ddptypes.GetUnderlying(r)) }, true},
		{"GetUnderlying-idempotent", func() bool {
			g := ddptypes.GetUnderlying(r)
			return ddptypes.GetUnderlying(g) == g
		}, true},
		{"Gender", func() bool { return r.Gender() == c14RealGender(t.Gender()) }, true},
	} {
		evals++
		got, pan := c14Safe(p.impl)
		if pan != nil {
			out(c14RelFinding{"panic:" + p.name + ":" + sh, fmt.Sprintf("%s panicked on %s: %v", p.name, t.Full(), pan), []int{i}})
		} else if got != p.want {
			out(c14RelFinding{"predicate:" + p.name + ":" + sh, fmt.Sprintf("%s(%s) = %v, model says %v", p.name, t.Full(), got, p.want), []int{i}})
		}
	}
	// TrueUnderlying strips aliases and definitions at the top (doc comment), not inside lists
	if t.Kind != tm.Void {
		j := i
		for nodes[j].term.Kind == tm.Alias || nodes[j].term.Kind == tm.Def {
			j = nodes[j].spec.Parent
		}
		evals++
		got, pan := c14Safe(func() bool {
			tu := ddptypes.TrueUnderlying(r)
			_, isA := tu.(*ddptypes.TypeAlias)
			_, isD := tu.(*ddptypes.TypeDef)
			return !isA && !isD && ddptypes.Equal(tu, nodes[j].real)
		})
		if pan != nil || !got {
			out(c14RelFinding{"trueunderlying:" + sh, fmt.Sprintf("TrueUnderlying(%s) is not %s (panic=%v)", t.Full(), nodes[j].term.Full(), pan), []int{i}})
		}
	}
	return
}

// c14CheckPair: Equal / DeepEqual of an ordered pair against the model; returns the value of Equal.
func c14CheckPair(nodes []c14Node, i, j int, out func(c14RelFinding)) bool {
	a, b := &nodes[i], &nodes[j]
	e, pan := c14Safe(func() bool { return ddptypes.Equal(a.real, b.real) })
	shp := func() string { return a.term.Shape() + "~" + b.term.Shape() }
	if pan != nil {
		out(c14RelFinding{"panic:Equal:" + shp(), fmt.Sprintf("Equal(%s, %s) panicked: %v", a.term.Full(), b.term.Full(), pan), []int{i, j}})
		return false
	}
	if m := tm.Equiv(a.term, b.term); e != m {
		kind := "alias-not-transparent"
		if e {
			kind = "distinct-types-identified"
			if a.term.DeepNF() == b.term.DeepNF() {
				kind = "definition-not-opaque"
			}
		}
		out(c14RelFinding{"equal:" + kind + ":" + shp(), fmt.Sprintf("Equal(%s, %s) = %v, model equivalence (%s vs %s) = %v", a.term.Full(), b.term.Full(), e, a.term.NF(), b.term.NF(), m), []int{i, j}})
	}
	if a.term.Kind != tm.Void && b.term.Kind != tm.Void {
		de, pan := c14Safe(func() bool { return ddptypes.DeepEqual(a.real, b.real) })
		dm := a.term.DeepNF() == b.term.DeepNF()
		if pan != nil || de != dm {
			out(c14RelFinding{"deepequal:" + shp(), fmt.Sprintf("DeepEqual(%s, %s) = %v (panic=%v), model (aliases and definitions stripped everywhere) = %v", a.term.Full(), b.term.Full(), de, pan, dm), []int{i, j}})
		}
	}
	return e
}

// c14Relation runs the relation-level checks on all nodes: predicates of every type, Equal/DeepEqual
// on every ordered pair, reflexivity, symmetry, and transitivity on every triple (decided on the
// bit matrix of the values the real Equal returned: Equal(i,j) => row(j) is a subset of row(i)).
func c14Relation(nodes []c14Node, stop func() bool, out func(c14RelFinding)) (singles, pairs, triples int64, complete bool, aliasPairs, defPairs int64, shapes int) {
	n := len(nodes)
	for i := range nodes {
		singles += c14CheckSingle(nodes, i, out)
	}
	shape := make([]string, n)
	deep := make([]string, n)
	for i := range nodes {
		shape[i], deep[i] = nodes[i].term.Shape(), nodes[i].term.DeepNF()
	}
	W := (n + 63) / 64
	rows := make([][]uint64, n)
	var ap, dp int64
	var mu sync.Mutex
	shapeSet := map[[2]string]bool{}
	done := par.Range(int64(n), 4, stop, func(lo, hi int64) {
		local := map[[2]string]bool{}
		var lap, ldp int64
		for i := int(lo); i < int(hi); i++ {
			row := make([]uint64, W)
			for j := 0; j < n; j++ {
				if c14CheckPair(nodes, i, j, out) {
					row[j>>6] |= 1 << uint(j&63)
				}
				if i != j {
					if tm.Equiv(nodes[i].term, nodes[j].term) {
						lap++ // an equality that exists only because aliases are transparent
					} else if deep[i] == deep[j] {
						ldp++ // an inequality that exists only because definitions are opaque
					}
					local[[2]string{shape[i], shape[j]}] = true
				}
			}
			rows[i] = row
		}
		mu.Lock()
		ap += lap
		dp += ldp
		for k := range local {
			shapeSet[k] = true
		}
		mu.Unlock()
	})
	pairs = done * int64(n)
	if done < int64(n) {
		return singles, pairs, 0, false, ap, dp, len(shapeSet)
	}
	get := func(i, j int) bool { return rows[i][j>>6]&(1<<uint(j&63)) != 0 }
	for i := 0; i < n; i++ {
		if !get(i, i) {
			out(c14RelFinding{"not-reflexive:" + shape[i], fmt.Sprintf("Equal(%s, itself) = false", nodes[i].term.Full()), []int{i}})
		}
		for j := i + 1; j < n; j++ {
			if get(i, j) != get(j, i) {
				out(c14RelFinding{"not-symmetric:" + shape[i] + "~" + shape[j],
					fmt.Sprintf("Equal(%s, %s) = %v but Equal(%s, %s) = %v", nodes[i].term.Full(), nodes[j].term.Full(), get(i, j), nodes[j].term.Full(), nodes[i].term.Full(), get(j, i)), []int{i, j}})
			}
		}
	}
	var tdone int64
	td := par.Range(int64(n), 8, stop, func(lo, hi int64) {
		for i := int(lo); i < int(hi); i++ {
			ri := rows[i]
			for j := 0; j < n; j++ {
				if !get(i, j) {
					continue
				}
				rj := rows[j]
				for w := 0; w < W; w++ {
					if bad := rj[w] &^ ri[w]; bad != 0 {
						for b := 0; b < 64; b++ {
							if bad&(1<<uint(b)) != 0 {
								k := w*64 + b
								out(c14RelFinding{"not-transitive:" + shape[i] + "~" + shape[j] + "~" + shape[k],
									fmt.Sprintf("Equal(%s, %s) and Equal(%s, %s) but not Equal(%s, %s)", nodes[i].term.Full(), nodes[j].term.Full(), nodes[j].term.Full(), nodes[k].term.Full(), nodes[i].term.Full(), nodes[k].term.Full()), []int{i, j, k}})
							}
						}
					}
				}
			}
			atomic.AddInt64(&tdone, int64(n)*int64(n))
		}
	})
	return singles, pairs, tdone, td == int64(n), ap, dp, len(shapeSet)
}

type c14Case struct {
	Kind string `json:"kind"` // relation | position | invariance
	// relation
	Specs    []c14Spec `json:"specs,omitempty"`
	Subjects []int     `json:"subjects,omitempty"`
	// position / invariance
	Programs []c14Program `json:"programs,omitempty"`
	Label    string       `json:"label,omitempty"`
}

func runC14(tier string) int {
	c := ev.New("C14", tier)
	c.Budget(map[string]int{"quick": 170, "thorough": 1700}[tier])
	// relation level one constructor application deeper than the positions (it is cheap)
	d, posDepth := 3, 2
	if tier == "thorough" {
		d, posDepth = 4, 3
	}
	u := c14Build(d)
	nTypes := len(u.nodes) - 1
	c.Set("universe_depth", d)
	c.Set("universe_types", nTypes)
	for k, e := range u.depthEnd {
		c.Set(fmt.Sprintf("types_depth_le_%d", k), e)
	}
	// ---- (A) relation level ---------------------------------------------------------------
	var rmu sync.Mutex
	rseen := map[string]bool{}
	report := func(f c14RelFinding) {
		rmu.Lock()
		dup := rseen[f.key]
		rseen[f.key] = true
		rmu.Unlock()
		if dup {
			return
		}
		specs, subj := u.c14SubDAG(f.subjects...)
		// re-evaluate on a freshly built copy of the types (3x identical by construction: pure functions)
		same := 0
		for r := 0; r < 3; r++ {
			var got []c14RelFinding
			c14ReplayRelation(specs, subj, func(g c14RelFinding) { got = append(got, g) })
			for _, g := range got {
				if g.key == f.key {
					same++
					break
				}
			}
		}
		if same != 3 {
			c.Broken(fmt.Sprintf("relation finding %s not reproducible on a fresh copy (%d/3)", f.key, same))
			return
		}
		b, _ := json.MarshalIndent(c14Case{Kind: "relation", Specs: specs, Subjects: subj}, "", " ")
		c.Violation("C14:"+f.key, f.what, map[string]string{"case.json": string(b)})
	}
	t0 := time.Now()
	singles, pairs, triples, complete, aliasPairs, defPairs, shapes := c14Relation(u.nodes, c.Expired, report)
	c.Set("phase_relation_s", time.Since(t0).Seconds())
	if !complete {
		c.Capped(fmt.Sprintf("relation level: %d pair and %d triple evaluations done", pairs, triples))
	}
	c.Add("relation_predicate_evaluations", singles)
	c.Add("relation_pair_evaluations", pairs)
	c.Add("relation_triples_checked", triples)
	c.Set("relation_pairs_equal_only_through_aliases", aliasPairs)
	c.Set("relation_pairs_distinct_only_through_definitions", defPairs)
	c.Sample(map[string]any{"space": "type closure", "example": u.nodes[u.depthEnd[1]+17].term.Full(), "normal_form": u.nodes[u.depthEnd[1]+17].term.NF()})
	// ---- (B) position level -----------------------------------------------------------------
	t0 = time.Now()
	ps := c14Positions(c, u, posDepth)
	c.Set("phase_positions_s", time.Since(t0).Seconds())
	relEvals := singles + 2*pairs // Equal and DeepEqual per ordered pair
	c.Set("states", nTypes+1)
	c.Set("transitions", u.ctorApps+relEvals+ps.outcomes)
	c.Set("transitions_constructor_applications", u.ctorApps)
	c.Set("transitions_relation_evaluations", relEvals)
	c.Set("transitions_position_outcomes", ps.outcomes)
	c.Set("traces_validated_against_impl", relEvals+ps.parses)
	c.Set("evaluations", relEvals+triples+ps.parses)
	c.Set("distinct_nontrivial", shapes+ps.classPairs)
	c.Set("distinct_shape_pairs_relation", shapes)
	c.Set("rule", "states = types of the closure (model term paired with the real ddptypes value, +'nichts'); transitions = constructor applications (BFS) + evaluations of the real Equal/DeepEqual/predicates + (S,T,position) outcomes observed through parser.Parse; transitivity is decided on the matrix of values the real Equal returned; distinct_nontrivial = distinct ordered pairs of type shapes (identities and base types abstracted) with two different types compared by Equal + distinct ordered pairs of model equivalence classes (S≢T) exercised at the positions")
	c.Set("bounds", map[string]any{"depth": d, "base": "Zahl Kommazahl Byte Wahrheitswert Buchstabe Text Variable KombA KombB", "constructors": "list-of, alias-of x2, definition-of x2", "transitivity_on": "all triples of the universe + nichts", "position_depth": posDepth, "positions_on": ps.bound})
	c.Assume("typemodel: aliases expanded everywhere, lists structural, Kombinationen and definitions nominal by declaration",
		"the property fixes casts only where a definition is involved (not from/to Variable, not the identity cast); whether the numeric and the Variable escape apply to arguments/returns is not fixed by the property: those cells are counted as excluded_unspecified and only checked for invariance under aliases",
		"DeepEqual and TrueUnderlying are compared with their doc comments (aliases and definitions stripped; DeepEqual also inside lists)")
	return c.Finish()
}

func c14ReplayRelation(specs []c14Spec, subj []int, out func(c14RelFinding)) {
	nodes := c14Materialize(specs)
	E := map[[2]int]bool{}
	for _, i := range subj {
		c14CheckSingle(nodes, i, out)
		for _, j := range subj {
			E[[2]int{i, j}] = c14CheckPair(nodes, i, j, out)
		}
	}
	for _, i := range subj {
		if !E[[2]int{i, i}] {
			out(c14RelFinding{"not-reflexive:" + nodes[i].term.Shape(), "Equal(" + nodes[i].term.Full() + ", itself) = false", []int{i}})
		}
		for _, j := range subj {
			if i < j && E[[2]int{i, j}] != E[[2]int{j, i}] {
				out(c14RelFinding{"not-symmetric:" + nodes[i].term.Shape() + "~" + nodes[j].term.Shape(), "Equal is not symmetric on " + nodes[i].term.Full() + " , " + nodes[j].term.Full(), []int{i, j}})
			}
			for _, k := range subj {
				if E[[2]int{i, j}] && E[[2]int{j, k}] && !E[[2]int{i, k}] {
					out(c14RelFinding{"not-transitive:" + nodes[i].term.Shape() + "~" + nodes[j].term.Shape() + "~" + nodes[k].term.Shape(),
						"Equal is not transitive on " + nodes[i].term.Full() + " , " + nodes[j].term.Full() + " , " + nodes[k].term.Full(), []int{i, j, k}})
				}
			}
		}
	}
}

func replayC14(dir string) int {
	b, err := os.ReadFile(filepath.Join(dir, "case.json"))
	if err != nil {
		fmt.Println(err)
		return 2
	}
	var cs c14Case
	if err := json.Unmarshal(b, &cs); err != nil {
		fmt.Println(err)
		return 2
	}
	var msgs []string
	switch cs.Kind {
	case "relation":
		c14ReplayRelation(cs.Specs, cs.Subjects, func(f c14RelFinding) { msgs = append(msgs, f.key+": "+f.what) })
	case "position", "invariance":
		var broken string
		msgs, broken = c14ReplayPrograms(&cs)
		if broken != "" {
			fmt.Println("C14 replay: infrastructure problem:", broken)
			return 2
		}
	default:
		fmt.Println("unknown case kind", cs.Kind)
		return 2
	}
	if len(msgs) > 0 {
		fmt.Printf("VIOLATION property=C14 replay=%s\n", dir)
		for _, m := range msgs {
			fmt.Println("  " + m)
		}
		return 1
	}
	fmt.Println("C14 replay: property holds on this case")
	return 0
}

func init() { checks["C14"] = check{runC14, replayC14} }
