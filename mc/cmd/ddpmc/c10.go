package main

// C10 — modules expose exactly their public names and initialise once, in order.
// Shape H over IMPORT GRAPHS (DESIGN.md §C10): explicit-state BFS that grows graphs one import
// statement at a time from the empty graph; every state is materialised as real files (main.ddp,
// a/mod.ddp, b/mod.ddp, …, all generated from one label-independent menu with overlapping names,
// see internal/modmodel/gen.go) and judged
//   - by the real frontend (parser.Parse in a sacrificial worker): every state,
//   - by a family of ill-formed variants (ONE use of a name no import grants): every acyclic state,
//   - by the compiled executable (compiler.Compile + gcc, run under rx.RunRobust): every acyclic
//     state of space A, and one canonical form assignment per isomorphism class of space B.
// Space A = all graphs within (modules, list length, forms) and at most MaxEdges import statements;
// space B = all SHAPES (forms erased) within (modules, list length) with up to ShapeEdges imports,
// each with two canonical form assignments (see c10Reps).
// Oracle: internal/modmodel (model.go). Deterministic; nothing is sampled.

import (
	"crypto/sha1"
	"encoding/hex"
	"fmt"
	"os"
	"path/filepath"
	"regexp"
	"sort"
	"strconv"
	"strings"
	"sync"
	"sync/atomic"
	"time"

	"ddpmc/internal/ev"
	"ddpmc/internal/fe"
	mm "ddpmc/internal/modmodel"
	"ddpmc/internal/par"
	"ddpmc/internal/pool"
	"ddpmc/internal/rx"
)

type c10Finding struct {
	kind  string
	what  string
	files map[string]string
}

type c10Stats struct {
	parses, builds, runs, negs, excluded, deviates int64
	cyclic, acyclic                                int64
	nsParse, nsBuild, nsRun                        int64 // summed wall time per activity (all goroutines)
	mu                                             sync.Mutex
	outputs                                        map[string]bool // distinct predicted outputs with >= 2 initialised modules that were run
	negKinds                                       map[string]int64
}

type c10Opts struct {
	exec    bool // build and run the acyclic clash-free states
	fullNeg bool // all name kinds in the library-module variants
}

// c10Parse runs the real frontend on file (with src overriding the file content if non-nil).
// crash != "" when the frontend did not survive (worker died, panic, internal error, hang).
func c10Parse(file string, src *string, st *c10Stats) (resp fe.Resp, crash string) {
	atomic.AddInt64(&st.parses, 1)
	t0 := time.Now()
	defer func() { atomic.AddInt64(&st.nsParse, int64(time.Since(t0))) }()
	q := &fe.Req{Op: "parse", File: file}
	if src != nil {
		q.Source, q.HasSrc = []byte(*src), true
	}
	s, log := rx.CompPool().Do(q, &resp, 120*time.Second)
	if s == pool.Timeout { // loaded machine? once more on a fresh worker with a very generous limit
		resp = fe.Resp{}
		s, log = rx.CompPool().Do(q, &resp, 600*time.Second)
	}
	switch {
	case s == pool.Died:
		return resp, "the frontend process died: " + c10Tail(log, 6)
	case s == pool.Timeout:
		return resp, "the frontend did not return within 600 s"
	case resp.Panic != "":
		return resp, "panic in " + resp.PanicSite + ": " + resp.Panic
	case resp.Internal:
		return resp, "internal parser error at " + resp.PanicSite + ": " + resp.Err
	}
	return resp, ""
}

func c10Tail(s string, n int) string {
	ls := strings.Split(strings.TrimSpace(s), "\n")
	// a Go fatal error prints its reason first
	head := ""
	for _, l := range ls {
		if strings.HasPrefix(l, "fatal error:") || strings.HasPrefix(l, "runtime:") || strings.HasPrefix(l, "panic:") {
			head = l + " … "
			break
		}
	}
	if len(ls) > n {
		ls = ls[len(ls)-n:]
	}
	return head + strings.Join(ls, " | ")
}

func c10Accepted(r fe.Resp) bool {
	return r.HasModule && !r.Faulty && r.Err == "" && r.NErrors() == 0
}

func c10Diags(r fe.Resp, n int) string {
	var sb strings.Builder
	k := 0
	for _, d := range r.Diags {
		if d.Level == 2 {
			if k < n {
				sb.WriteString("    " + d.String() + "\n")
			}
			k++
		}
	}
	if k > n {
		fmt.Fprintf(&sb, "    … %d more\n", k-n)
	}
	if r.Err != "" {
		sb.WriteString("    error: " + r.Err + "\n")
	}
	return sb.String()
}

var c10DupRe = regexp.MustCompile(`(?i)multiple definition|duplicate|redefinition|already defined|symbol multiply defined`)

func c10Program(files map[string]string, extra map[string]string) map[string]string {
	out := map[string]string{}
	for n, s := range files {
		out["program/"+n] = s
	}
	for n, s := range extra {
		out[n] = s
	}
	return out
}

// c10Eval materialises g and judges it. The result is a pure function of (g, o, implementation).
func c10Eval(g mm.Graph, o c10Opts, st *c10Stats) (found []c10Finding, infra string) {
	dir := rx.Scratch("c10")
	defer os.RemoveAll(dir)
	mainAbs := filepath.Join(dir, "main.ddp")
	key := g.String()
	add := func(kind, what string, files map[string]string, extra map[string]string) {
		if extra == nil {
			extra = map[string]string{}
		}
		extra["graph.txt"] = key + "\n"
		found = append(found, c10Finding{kind, what, c10Program(files, extra)})
	}

	if g.Cyclic() {
		atomic.AddInt64(&st.cyclic, 1)
		// two materialisations: "bare" (no module uses an imported name, so the cycle is the only
		// possible reason to reject) and the normal menu (names of half-parsed modules are used)
		for _, bare := range []bool{true, false} {
			files := mm.Files(g, bare)
			sub := filepath.Join(dir, map[bool]string{true: "bare", false: "full"}[bare])
			rx.WriteFiles(sub, files)
			r, crash := c10Parse(filepath.Join(sub, "main.ddp"), nil, st)
			exp := map[string]string{"expect.txt": "rejected\n"}
			if crash != "" {
				add("crash", "cyclic import graph "+key+": "+crash, files, exp)
				return
			}
			if r.NErrors() == 0 {
				add("cyclic-accepted", fmt.Sprintf("import graph %s contains modules that import each other, but the frontend reported no error (faulty=%v, err=%q)", key, r.Faulty, r.Err), files, exp)
				return
			}
		}
		return
	}
	atomic.AddInt64(&st.acyclic, 1)
	files := mm.Files(g, false)
	rx.WriteFiles(dir, files)
	r, crash := c10Parse(mainAbs, nil, st)
	if crash != "" {
		add("crash", "acyclic import graph "+key+": "+crash, files, map[string]string{"expect.txt": "accepted\n"})
		return
	}
	if g.Clash() {
		// the same name is granted twice to one module: not specified whether this is well-formed
		atomic.AddInt64(&st.excluded, 1)
		return
	}
	pred := mm.Predict(g)
	expAcc := map[string]string{"expect.txt": "accepted\n", "expected_stdout.txt": pred.Stdout()}
	if !c10Accepted(r) {
		// which rule of the property is broken? a diagnostic about a name the model grants = the
		// public name is not visible; otherwise the acyclic graph as such was refused
		kind := "acyclic-rejected"
		for _, d := range r.Diags {
			if d.Level == 2 && (d.Code == 2001 || d.Code == 1003) {
				kind = "public-not-visible"
				break
			}
		}
		add(kind, "acyclic, clash-free import graph "+key+" is rejected by the frontend:\n"+c10Diags(r, 6), files, expAcc)
		return
	}

	if o.exec {
		atomic.AddInt64(&st.builds, 1)
		t0 := time.Now()
		b := rx.Build(dir, "main.ddp", rx.BuildOpts{Opt: 1, NoLinkLists: true})
		atomic.AddInt64(&st.nsBuild, int64(time.Since(t0)))
		if !b.OK {
			switch b.Stage {
			case "frontend":
				kind := "acyclic-rejected"
				if c10DupRe.MatchString(b.Log) || strings.Contains(b.Log, "Linken von llvm-Modulen") {
					kind = "wrong-module-object" // the modules' symbols collide when their IR is linked
				}
				add(kind, "acyclic import graph "+key+" passes parser.Parse but compiler.Compile refuses it: "+firstLines(b.Log, 4), files, expAcc)
			case "link":
				kind := "crash"
				if c10DupRe.MatchString(b.Log) {
					kind = "wrong-module-object"
				}
				add(kind, "import graph "+key+": the object file does not link: "+firstLines(b.Log, 6), files, expAcc)
			case "timeout":
				infra = "compile worker timed out on " + key
			default:
				kind := "crash"
				if c10DupRe.MatchString(b.Log) {
					kind = "wrong-module-object" // same-named declarations of different modules collide
				}
				add(kind, "import graph "+key+": code generation fails ("+b.Stage+"): "+firstLines(b.Log, 6), files, expAcc)
			}
			return
		}
		t1 := time.Now()
		rr := rx.RunRobust(b.Exe, rx.RunOpts{})
		atomic.AddInt64(&st.nsRun, int64(time.Since(t1)))
		os.Remove(b.Exe)
		os.Remove(b.Obj)
		if rr.Infra {
			infra = "could not execute " + b.Exe + ": " + rr.Stderr
			return
		}
		atomic.AddInt64(&st.runs, 1)
		obs := map[string]string{"expect.txt": "accepted\n", "expected_stdout.txt": pred.Stdout(), "observed_stdout.txt": rr.Stdout, "observed_stderr.txt": rr.Stderr}
		if rr.Class() != "ok" || rr.Stderr != "" {
			add("crash", fmt.Sprintf("import graph %s: the program ends with %s (stderr %s)", key, rr.Class(), firstRunes(rr.Stderr, 200)), files, obs)
			return
		}
		v := mm.Judge(g, pred, rr.Stdout)
		if v.Kind != "" {
			add(v.Kind, "import graph "+key+": "+v.Detail+"\n  expected: "+strings.Join(pred.Lines, " | ")+"\n  observed: "+strings.ReplaceAll(strings.TrimSpace(rr.Stdout), "\n", " | "), files, obs)
			return
		}
		if v.Deviates {
			atomic.AddInt64(&st.deviates, 1)
		}
		if len(pred.Lines) > 0 {
			ninit := 0
			for _, l := range pred.Lines {
				if strings.HasPrefix(l, "init ") {
					ninit++
				}
			}
			if ninit >= 2 {
				h := sha1.Sum([]byte(pred.Stdout()))
				st.mu.Lock()
				st.outputs[hex.EncodeToString(h[:8])] = true
				st.mu.Unlock()
			}
		}
	}

	// the second family: exactly one use of a name that no import grants
	for _, ng := range mm.Negs(g, o.fullNeg) {
		atomic.AddInt64(&st.negs, 1)
		var nr fe.Resp
		var ncrash string
		vfiles := map[string]string{}
		for n, s := range files {
			vfiles[n] = s
		}
		if ng.In == 0 {
			src := mm.NegMainSource(g, ng.Stmt)
			vfiles["main.ddp"] = src
			nr, ncrash = c10Parse(mainAbs, &src, st)
		} else {
			fn := mm.FileName(ng.In)
			src := mm.NegModuleSource(g, ng.In, ng.Stmt)
			vfiles[fn] = src
			rx.WriteFiles(dir, map[string]string{fn: src})
			nr, ncrash = c10Parse(mainAbs, nil, st)
			rx.WriteFiles(dir, map[string]string{fn: files[fn]})
		}
		exp := map[string]string{"expect.txt": "rejected\n", "variant.txt": fmt.Sprintf("module %s uses %s (%s)\n", mm.Label(ng.In), ng.Name, ng.Why)}
		if ncrash != "" {
			add("crash", fmt.Sprintf("import graph %s, module %s using the invisible name %s: %s", key, mm.Label(ng.In), ng.Name, ncrash), vfiles, exp)
			return
		}
		if nr.NErrors() == 0 {
			add(ng.Kind, fmt.Sprintf("import graph %s: module %s may use the name %s (%s); the frontend reports no error", key, mm.Label(ng.In), ng.Name, ng.Why), vfiles, exp)
			return
		}
		st.mu.Lock()
		st.negKinds[ng.Kind]++
		st.mu.Unlock()
	}
	return
}

// c10Reps: the canonical form assignments of a shape (space B). In every import list a target
// that occurs once is imported as a whole (rep 0: W, rep 1: D); a target that occurs twice is
// imported selectively with disjoint lists (rep 0: S1,S2; rep 1: S2,S3); a third occurrence cannot
// be clash-free and gets the remaining selective form.
func c10Reps(shape mm.Graph) []mm.Graph {
	var out []mm.Graph
	for rep := 0; rep < 2; rep++ {
		h := shape.Clone()
		for m := range h.Imp {
			cnt := map[int]int{}
			for _, e := range h.Imp[m] {
				cnt[e.To]++
			}
			idx := map[int]int{}
			for i, e := range h.Imp[m] {
				if e.To == 0 {
					continue
				}
				whole, sel := mm.W, []mm.Form{mm.S1, mm.S2, mm.S3}
				if rep == 1 {
					whole, sel = mm.D, []mm.Form{mm.S2, mm.S3, mm.S1}
				}
				if cnt[e.To] == 1 {
					h.Imp[m][i].Form = whole
				} else {
					h.Imp[m][i].Form = sel[idx[e.To]%3]
					idx[e.To]++
				}
			}
		}
		out = append(out, h.Canon())
	}
	return out
}

func c10HasForm(g mm.Graph, f mm.Form) bool {
	for _, l := range g.Imp {
		for _, e := range l {
			if e.Form == f {
				return true
			}
		}
	}
	return false
}

type c10Tier struct {
	A mm.Bounds
	// execAllUpTo: in space A every acyclic clash-free graph with at most this many imports is
	// compiled and run; with more imports only those without a directory import (W and D differ
	// in the frontend only; the D column is executed again by form assignment 1 of space B)
	execAllUpTo int
	aFirst      int // levels of space A explored before space B
	B           mm.Bounds
	fullNeg     bool
	budget      int
}

func c10Bounds(tier string) c10Tier {
	t := c10BoundsOf(tier)
	// development aid: smaller spaces (never used by ./run)
	if v, err := strconv.Atoi(os.Getenv("C10_A_EDGES")); err == nil {
		t.A.MaxEdges = v
	}
	if v, err := strconv.Atoi(os.Getenv("C10_B_EDGES")); err == nil {
		t.B.MaxEdges = v
	}
	return t
}

func c10BoundsOf(tier string) c10Tier {
	if tier == "thorough" {
		return c10Tier{
			A:           mm.Bounds{Modules: 4, MaxList: 3, MaxEdges: 4, Forms: []mm.Form{mm.W, mm.D, mm.S1, mm.S2, mm.S3}, ExpandCyclic: true},
			B:           mm.Bounds{Modules: 4, MaxList: 3, MaxEdges: 7, Forms: []mm.Form{mm.W}, ExpandCyclic: false},
			execAllUpTo: 3, aFirst: 3, fullNeg: true, budget: 2300,
		}
	}
	return c10Tier{
		A:           mm.Bounds{Modules: 3, MaxList: 2, MaxEdges: 4, Forms: []mm.Form{mm.W, mm.D, mm.S1, mm.S2}, ExpandCyclic: true},
		B:           mm.Bounds{Modules: 3, MaxList: 2, MaxEdges: 99, Forms: []mm.Form{mm.W}, ExpandCyclic: false},
		execAllUpTo: 3, aFirst: 2, fullNeg: false, budget: 400,
	}
}

func runC10(tier string) int {
	c := ev.New("C10", tier)
	t := c10Bounds(tier)
	c.Budget(t.budget)
	st := &c10Stats{outputs: map[string]bool{}, negKinds: map[string]int64{}}
	var states, trans int64
	var nviol int64
	done := map[string]bool{} // canonical graphs already judged
	stop := func() bool { return c.Expired() || atomic.LoadInt64(&nviol) >= 40 }

	judge := func(gs []mm.Graph, o c10Opts) (completed bool) {
		var skipped int64
		par.Each(gs, 0, func(_ int, g mm.Graph) {
			if stop() {
				atomic.AddInt64(&skipped, 1)
				return
			}
			found, infra := c10Eval(g, o, st)
			for try := 0; infra != "" && try < 2; try++ {
				// infrastructure (loaded machine): again; if it persists the run is broken, not the property
				found, infra = c10Eval(g, o, st)
			}
			if infra != "" {
				c.Broken(infra)
				return
			}
			atomic.AddInt64(&states, 1)
			if len(found) == 0 {
				return
			}
			// re-execute twice: the result must be identical
			for k := 0; k < 2; k++ {
				again, inf2 := c10Eval(g, o, st)
				if inf2 != "" || len(again) != len(found) || again[0].kind != found[0].kind {
					c.Broken(fmt.Sprintf("unstable verdict for import graph %s: first %q, then %v %s", g.String(), found[0].kind, again, inf2))
					return
				}
			}
			for _, f := range found {
				if c.Violation("C10:"+f.kind+":"+g.String(), f.what, f.files) {
					atomic.AddInt64(&nviol, 1)
				}
			}
		})
		return skipped == 0
	}

	capped := func(where string) {
		if atomic.LoadInt64(&nviol) >= 40 {
			c.Capped(where + ": stopped after 40 distinct violations")
		} else {
			c.Capped(where + ": internal deadline")
		}
	}

	// Order of work (so that a run cut short by the deadline has seen the small graphs of both
	// spaces): A up to aFirst imports, all of B, the rest of A.
	perLevel := []string{}
	spaceA := func(from, to int) {
		bd := t.A
		if to < bd.MaxEdges {
			bd.MaxEdges = to
		}
		mm.BFS(bd, func(l mm.Level) bool {
			if l.Depth < from {
				return true
			}
			if stop() {
				capped(fmt.Sprintf("space A, level %d not started", l.Depth))
				return false
			}
			trans += l.Trans
			var run, look []mm.Graph
			for _, g := range l.States {
				if done[g.String()] {
					continue
				}
				done[g.String()] = true
				if l.Depth <= t.execAllUpTo || !c10HasForm(g, mm.D) {
					run = append(run, g)
				} else {
					look = append(look, g)
				}
			}
			ok := judge(run, c10Opts{exec: true, fullNeg: t.fullNeg}) && judge(look, c10Opts{exec: false, fullNeg: t.fullNeg})
			perLevel = append(perLevel, fmt.Sprintf("A/%d imports: %d graphs (%d new)", l.Depth, len(l.States), len(run)+len(look)))
			if !ok {
				capped(fmt.Sprintf("space A, level %d", l.Depth))
				return false
			}
			return true
		})
	}
	var shapes int64
	spaceB := func() {
		mm.BFS(t.B, func(l mm.Level) bool {
			if stop() {
				capped(fmt.Sprintf("space B, level %d not started", l.Depth))
				return false
			}
			trans += l.Trans
			var todo []mm.Graph
			for _, sh := range l.States {
				shapes++
				for _, r := range c10Reps(sh) {
					k := r.String()
					if !done[k] {
						done[k] = true
						todo = append(todo, r)
					}
				}
			}
			sort.Slice(todo, func(i, j int) bool { return todo[i].String() < todo[j].String() })
			ok := judge(todo, c10Opts{exec: true, fullNeg: t.fullNeg})
			perLevel = append(perLevel, fmt.Sprintf("B/%d imports: %d shapes, %d new graphs", l.Depth, len(l.States), len(todo)))
			if !ok {
				capped(fmt.Sprintf("space B, level %d", l.Depth))
				return false
			}
			return true
		})
	}
	spaceA(0, t.aFirst)
	spaceB()
	spaceA(t.aFirst+1, t.A.MaxEdges)

	c.Set("levels", perLevel)
	c.Set("shapes_space_B", shapes)
	c.Set("states", atomic.LoadInt64(&states))
	c.Set("transitions", trans)
	c.Set("graphs_cyclic", st.cyclic)
	c.Set("graphs_acyclic", st.acyclic)
	c.Set("frontend_runs", st.parses)
	c.Set("executables_built", st.builds)
	c.Set("executables_run", st.runs)
	c.Set("illformed_variants_rejected", st.negs)
	c.Set("illformed_variants_by_kind", st.negKinds)
	c.Set("excluded_unspecified", st.excluded)
	c.Set("order_deviations_within_property", st.deviates)
	c.Set("summed_wall_s", map[string]float64{"parse": float64(st.nsParse) / 1e9, "build": float64(st.nsBuild) / 1e9, "run": float64(st.nsRun) / 1e9})
	c.Set("traces_validated_against_impl", st.parses+st.runs)
	c.Set("evaluations", st.parses+st.builds)
	c.Set("distinct_nontrivial", len(st.outputs))
	c.Set("rule", "state = canonical import graph (ordered import lists; relabelings of the library modules merged); transition = one import statement appended to a module reachable from main; every state is parsed by parser.Parse, every acyclic clash-free state is compiled, linked, run and compared with modmodel, and re-parsed once per name that must not be visible; distinct_nontrivial = distinct predicted outputs (>= 2 modules initialised) among the programs run")
	c.Set("bounds", map[string]any{
		"space_A": fmt.Sprintf("%d library modules + main, <= %d imports per module, <= %d imports per graph, forms %v, cyclic graphs expanded; executables for all acyclic clash-free graphs with <= %d imports and for those without a directory import beyond", t.A.Modules, t.A.MaxList, t.A.MaxEdges, t.A.Forms, t.execAllUpTo),
		"space_B": fmt.Sprintf("all shapes over %d library modules + main, <= %d imports per module, <= %d imports per graph, 2 canonical form assignments each (cyclic shapes expanded: %v)", t.B.Modules, t.B.MaxList, t.B.MaxEdges, t.B.ExpandCyclic),
	})
	g0, _ := mm.Parse("main[W>a,S2>b] a[D>c] b[S1>c,S2>c] c[]")
	c.Sample(map[string]any{"graph": g0.String(), "main.ddp": mm.MainSource(g0, false), "expected_stdout": strings.Join(mm.Predict(g0).Lines, " | ")})
	c.Sample(map[string]any{"graph": g0.String(), "b/mod.ddp": mm.ModuleSource(g0, 2, false)})
	c.Assume(
		"a module that is granted the same name by two of its own import statements (e.g. the same module imported as a whole twice) is outside the property: counted in excluded_unspecified, only checked for frontend crashes",
		"the order of initialisation among modules that do not depend on each other, and whether initialisers run before code that PRECEDES the import, are not fixed by the property: Judge accepts every dependency-respecting order (order_deviations_within_property counts runs that differ from the depth-first prediction)",
		"a name that is visible only because it is public in a module imported by an imported module (not re-exported) is reported under kind unlisted-visible",
		"directory imports are exercised with one module per directory (all library files are called mod.ddp); the order of several files inside one directory is not part of the space",
	)
	return c.Finish()
}

func replayC10(dir string) int {
	gb, err := os.ReadFile(filepath.Join(dir, "graph.txt"))
	if err != nil {
		fmt.Println(err)
		return 2
	}
	g, ok := mm.Parse(string(gb))
	if !ok {
		fmt.Println("graph.txt unreadable")
		return 2
	}
	expb, _ := os.ReadFile(filepath.Join(dir, "expect.txt"))
	expect := strings.TrimSpace(string(expb))
	scratch := rx.Scratch("c10replay")
	defer os.RemoveAll(scratch)
	if err := copyTree(filepath.Join(dir, "program"), filepath.Join(scratch, "program")); err != nil {
		fmt.Println("copy:", err)
		return 2
	}
	st := &c10Stats{outputs: map[string]bool{}, negKinds: map[string]int64{}}
	fail := func(kind, what string) int {
		fmt.Printf("VIOLATION property=C10 replay=%s\n  %s: %s\n", dir, kind, what)
		return 1
	}
	mains := []string{filepath.Join(scratch, "program", "main.ddp")}
	if _, err := os.Stat(mains[0]); err != nil { // cyclic case: program/bare/main.ddp is not stored separately; only one variant is kept
		fmt.Println("program/main.ddp missing")
		return 2
	}
	r, crash := c10Parse(mains[0], nil, st)
	if crash != "" {
		return fail("crash", crash)
	}
	switch expect {
	case "rejected":
		if r.NErrors() == 0 {
			return fail("accepted", "the frontend reports no error for this program\n"+c10Diags(r, 5))
		}
		fmt.Printf("C10 replay: rejected with %d error diagnostics, as required\n%s", r.NErrors(), c10Diags(r, 3))
		return 0
	case "accepted":
		if !c10Accepted(r) {
			return fail("rejected", "the frontend rejects this well-formed program:\n"+c10Diags(r, 8))
		}
		b := rx.Build(filepath.Join(scratch, "program"), "main.ddp", rx.BuildOpts{Opt: 1, NoLinkLists: true})
		if !b.OK {
			return fail("build", b.Stage+": "+firstLines(b.Log, 8))
		}
		rr := rx.RunRobust(b.Exe, rx.RunOpts{})
		if rr.Class() != "ok" || rr.Stderr != "" {
			return fail("crash", rr.Class()+" "+rr.Stderr)
		}
		pred := mm.Predict(g)
		if want, err := os.ReadFile(filepath.Join(dir, "expected_stdout.txt")); err == nil && string(want) != pred.Stdout() {
			fmt.Println("note: the model's prediction changed since this replay directory was written; using the stored one for display only")
		}
		v := mm.Judge(g, pred, rr.Stdout)
		if v.Kind != "" {
			return fail(v.Kind, v.Detail+"\n  expected: "+strings.Join(pred.Lines, " | ")+"\n  observed: "+strings.ReplaceAll(strings.TrimSpace(rr.Stdout), "\n", " | "))
		}
		fmt.Println("C10 replay: accepted, and the run satisfies the property")
		return 0
	}
	fmt.Println("expect.txt unreadable")
	return 2
}

func init() { checks["C10"] = check{runC10, replayC10} }
