package main

// C06 — out-of-domain operations stop with a Laufzeitfehler, never silently (shape S).
// One executable per (element type × access form × index type × optimisation level); the
// executable reads (n, i, j) from its command line (invisible to the optimiser), builds a container
// of length n and performs the access. It is then RUN for every n in 0..4 and every index value in
// -2..n+2 plus the 64-bit extremes (all pairs for slices). Oracle: the cdm reference evaluation.

import (
	"fmt"
	"math"
	"os"
	"sort"
	"strconv"
	"strings"

	"ddpmc/internal/batch"
	. "ddpmc/internal/cdm"
	"ddpmc/internal/ev"
)

type c06Elem struct {
	name string
	t    *Type
	mk   func(k Expr) Expr // element value from a 1-based position k (a Zahl expression)
	repl Expr              // value stored by assignment forms
}

func c06Elems() []c06Elem {
	return []c06Elem{
		{"Zahl", Zahl, func(k Expr) Expr { return &Bin{Op: "mal", L: k, R: zl(10), T: Zahl} }, zl(-7)},
		{"Text", Text, func(k Expr) Expr { return &Bin{Op: "verkettet", L: tl("e€"), R: &Cast{X: k, T: Text}, T: Text} }, tl("neu")},
		{"Punkt", stP, func(k Expr) Expr { return &StructLit{T: stP, Args: []Expr{k, kl(0.5)}} }, &StructLit{T: stP, Args: []Expr{zl(-1), kl(-1)}}},
		{"Byte", Byte, func(k Expr) Expr { return &Cast{X: &Bin{Op: "plus", L: k, R: zl(250), T: Zahl}, T: Byte} }, byl(9)},
	}
}

// build list l of length n (n is a Zahl variable) — elements distinct by position
func c06BuildList(l *Var, el c06Elem, n Expr, pfx string) []Stmt {
	k := vr(pfx+"_k", Zahl)
	return seq(one(&VarDecl{Name: l.Name, T: l.T, Init: &ListLit{T: l.T}}),
		one(&For{Var: k.Name, T: Zahl, From: zl(1), To: n, Body: one(&Assign{Target: l, Val: &Bin{Op: "verkettet", L: l, R: el.mk(k), T: l.T}})}))
}

func c06BuildText(t *Var, n Expr, pfx string) []Stmt {
	k := vr(pfx+"_k", Zahl)
	sigma := tl("aä€😀")
	ch := &Bin{Op: "index", L: sigma, R: &Bin{Op: "plus", L: &Bin{Op: "modulo", L: k, R: zl(4), T: Zahl}, R: zl(1), T: Zahl}, T: Char}
	return seq(one(&VarDecl{Name: t.Name, T: Text, Init: tl("")}),
		one(&For{Var: k.Name, T: Zahl, From: zl(1), To: n, Body: one(&Assign{Target: t, Val: &Bin{Op: "verkettet", L: t, R: ch, T: Text}})}))
}

// observe a whole container whose length is only known at run time: length + for-each
func c06Dump(pfx string, c *Var) []Stmt {
	et := Char
	if c.T.K == KList {
		et = c.T.Elem
	}
	e := vr(pfx+"_d", et)
	var body []Stmt
	switch et.K {
	case KStruct:
		body = seq(pr(&FieldOf{Name: "x", X: e, T: Zahl}), pr(&FieldOf{Name: "y", X: e, T: Komma}))
	default:
		body = pr(e)
	}
	return seq(pr(&Un{Op: "laenge", X: c, T: Zahl}), one(&ForEach{Var: e.Name, T: et, In: c, Body: body}))
}

func c06PrintElem(e Expr) []Stmt {
	if e.Ty().K == KStruct {
		return seq(pr(&FieldOf{Name: "x", X: e, T: Zahl}), pr(&FieldOf{Name: "y", X: e, T: Komma}))
	}
	return pr(e)
}

func c06IndexSets(n int, byteIdx bool) []int64 {
	var s []int64
	for i := -2; i <= n+2; i++ {
		s = append(s, int64(i))
	}
	s = append(s, math.MaxInt64, math.MinInt64, math.MinInt64+1, 1<<31, 256, 255)
	if byteIdx {
		var b []int64
		for _, v := range s {
			if v >= 0 && v <= 255 {
				b = append(b, v)
			}
		}
		return b
	}
	return s
}

func genC06(tier string) []*batch.Case {
	var out []*batch.Case
	cnt := 0
	maxN := 4
	add := func(key, desc string, nidx int, byteIdx bool, structs []*Type, aliases []*Type, funcs []*Func, mk func(pfx string, n, i, j *Var) []Stmt) {
		cnt++
		pfx := fmt.Sprintf("c%d", cnt)
		n, i, j := vr(pfx+"_n", Zahl), vr(pfx+"_i", Zahl), vr(pfx+"_j", Zahl)
		it := Zahl
		if byteIdx {
			it = Byte
			i, j = vr(pfx+"_i", Byte), vr(pfx+"_j", Byte)
		}
		body := seq(one(&VarDecl{Name: n.Name, T: Zahl, Init: &Arg{I: 0}}), one(&VarDecl{Name: i.Name, T: it, Init: &Arg{I: 1}}))
		if nidx == 2 {
			body = append(body, &VarDecl{Name: j.Name, T: it, Init: &Arg{I: 2}})
		}
		body = seq(body, one(prs("start\n")), mk(pfx, n, i, j), one(prs("ende\n")))
		var sets [][]string
		for nn := 0; nn <= maxN; nn++ {
			is := c06IndexSets(nn, byteIdx)
			for _, a := range is {
				if nidx == 1 {
					sets = append(sets, []string{strconv.Itoa(nn), strconv.FormatInt(a, 10)})
					continue
				}
				for _, b := range is {
					sets = append(sets, []string{strconv.Itoa(nn), strconv.FormatInt(a, 10), strconv.FormatInt(b, 10)})
				}
			}
		}
		out = append(out, &batch.Case{Key: key, Desc: desc, Structs: structs, Aliases: aliases, Funcs: funcs, Body: body, ArgSets: sets})
	}
	for _, el := range c06Elems() {
		el := el
		lt := ListOf(el.t)
		var structs []*Type
		if el.t.K == KStruct {
			structs = []*Type{el.t}
		}
		for _, byteIdx := range []bool{false, true} {
			sfx := el.name + ":idx=Zahl"
			if byteIdx {
				sfx = el.name + ":idx=Byte"
			}
			add("list-rvalue-var:"+sfx, "rvalue index on a list variable", 1, byteIdx, structs, nil, nil, func(p string, n, i, j *Var) []Stmt {
				l := vr(p+"_l", lt)
				return seq(c06BuildList(l, el, n, p), c06PrintElem(&Bin{Op: "index", L: l, R: i, T: el.t}))
			})
			add("list-rvalue-temp:"+sfx, "rvalue index on a temporary list", 1, byteIdx, structs, nil, nil, func(p string, n, i, j *Var) []Stmt {
				l := vr(p+"_l", lt)
				tmp := &Ter{Op: "slice", A: l, B: zl(1), C: n, T: lt}
				return seq(c06BuildList(l, el, n, p), c06PrintElem(&Bin{Op: "index", L: tmp, R: i, T: el.t}))
			})
			{
				// the indexed value lands in a LOCAL variable that is never read: nothing but the run-time error depends on the access
				it := Zahl
				if byteIdx {
					it = Byte
				}
				pruefe := &Func{Name: "pruefe_liste", Params: []Param{{Name: "w", T: lt}, {Name: "k", T: it}}, Ret: Void,
					Body: seq(one(&VarDecl{Name: "unbenutzt", T: el.t, Init: &Bin{Op: "index", L: vr("w", lt), R: vr("k", it), T: el.t}}), one(prs("geprueft\n")))}
				add("list-rvalue-unused:"+sfx, "rvalue index whose result is never used", 1, byteIdx, structs, nil, []*Func{pruefe}, func(p string, n, i, j *Var) []Stmt {
					l := vr(p+"_l", lt)
					return seq(c06BuildList(l, el, n, p), one(&ExprStmt{X: &Call{F: pruefe, Args: []Expr{l, i}}}), one(prs("danach\n")))
				})
			}
			add("list-assign:"+sfx, "assignment to a list element", 1, byteIdx, structs, nil, nil, func(p string, n, i, j *Var) []Stmt {
				l := vr(p+"_l", lt)
				return seq(c06BuildList(l, el, n, p), one(&Assign{Target: &Bin{Op: "index", L: l, R: i, T: el.t}, Val: el.repl}), c06Dump(p, l))
			})
			if el.t.K == KZahl || el.t.K == KByte {
				add("list-compound:"+sfx, "compound assignment to a list element", 1, byteIdx, structs, nil, nil, func(p string, n, i, j *Var) []Stmt {
					l := vr(p+"_l", lt)
					return seq(c06BuildList(l, el, n, p), one(&Compound{Op: "erhoehe", Target: &Bin{Op: "index", L: l, R: i, T: el.t}, Val: zl(3)}), c06Dump(p, l))
				})
			}
			fset := &Func{Name: fmt.Sprintf("setze%d%v", len(out), byteIdx), Params: []Param{{Name: "p", T: el.t, Ref: true}}, Ret: Void, Body: one(&Assign{Target: vr("p", el.t), Val: el.repl})}
			add("list-ref-arg:"+sfx, "list element passed as Referenz argument", 1, byteIdx, structs, nil, []*Func{fset}, func(p string, n, i, j *Var) []Stmt {
				l := vr(p+"_l", lt)
				return seq(c06BuildList(l, el, n, p), one(&ExprStmt{X: &Call{F: fset, Args: []Expr{&Bin{Op: "index", L: l, R: i, T: el.t}}}}), c06Dump(p, l))
			})
			add("list-slice:"+sfx, "l im Bereich von i bis j", 2, byteIdx, structs, nil, nil, func(p string, n, i, j *Var) []Stmt {
				l, r := vr(p+"_l", lt), vr(p+"_r", lt)
				return seq(c06BuildList(l, el, n, p), one(&VarDecl{Name: r.Name, T: lt, Init: &Ter{Op: "slice", A: l, B: i, C: j, T: lt}}), c06Dump(p, r))
			})
			add("list-ab:"+sfx, "l ab dem i. Element", 1, byteIdx, structs, nil, nil, func(p string, n, i, j *Var) []Stmt {
				l, r := vr(p+"_l", lt), vr(p+"_r", lt)
				return seq(c06BuildList(l, el, n, p), one(&VarDecl{Name: r.Name, T: lt, Init: &Bin{Op: "ab", L: l, R: i, T: lt}}), c06Dump(p, r))
			})
			add("list-bis:"+sfx, "l bis zum i. Element", 1, byteIdx, structs, nil, nil, func(p string, n, i, j *Var) []Stmt {
				l, r := vr(p+"_l", lt), vr(p+"_r", lt)
				return seq(c06BuildList(l, el, n, p), one(&VarDecl{Name: r.Name, T: lt, Init: &Bin{Op: "bis", L: l, R: i, T: lt}}), c06Dump(p, r))
			})
		}
	}
	// nested indexing: a Buchstabe of a Text element of a list
	tlt := ListOf(Text)
	buildTL := func(p string, ll *Var, n *Var) []Stmt {
		k := vr(p+"_k", Zahl)
		row := vr(p+"_row", Text)
		return seq(one(&VarDecl{Name: ll.Name, T: tlt, Init: &ListLit{T: tlt}}),
			one(&For{Var: k.Name, T: Zahl, From: zl(1), To: n, Body: seq(
				c06BuildText(row, k, p+"r"),
				one(&Assign{Target: ll, Val: &Bin{Op: "verkettet", L: ll, R: row, T: tlt}}))}))
	}
	add("nested-rvalue", "(tl an der Stelle i) an der Stelle j", 2, false, nil, nil, nil, func(p string, n, i, j *Var) []Stmt {
		ll := vr(p+"_ll", tlt)
		return seq(buildTL(p, ll, n), pr(&Bin{Op: "index", L: &Bin{Op: "index", L: ll, R: i, T: Text}, R: j, T: Char}))
	})
	add("nested-assign", "Speichere c in tl an der Stelle i, an der Stelle j", 2, false, nil, nil, nil, func(p string, n, i, j *Var) []Stmt {
		ll := vr(p+"_ll", tlt)
		return seq(buildTL(p, ll, n),
			one(&Assign{Target: &Bin{Op: "index", L: &Bin{Op: "index", L: ll, R: i, T: Text}, R: j, T: Char}, Val: cl('€')}), c06Dump(p, ll))
	})
	// Text
	for _, byteIdx := range []bool{false, true} {
		sfx := "idx=Zahl"
		if byteIdx {
			sfx = "idx=Byte"
		}
		add("text-rvalue-var:"+sfx, "t an der Stelle i", 1, byteIdx, nil, nil, nil, func(p string, n, i, j *Var) []Stmt {
			t := vr(p+"_t", Text)
			return seq(c06BuildText(t, n, p), pr(&Bin{Op: "index", L: t, R: i, T: Char}))
		})
		{
			it := Zahl
			if byteIdx {
				it = Byte
			}
			pruefe := &Func{Name: "pruefe_text", Params: []Param{{Name: "w", T: Text}, {Name: "k", T: it}}, Ret: Void,
				Body: seq(one(&VarDecl{Name: "unbenutzt", T: Char, Init: &Bin{Op: "index", L: vr("w", Text), R: vr("k", it), T: Char}}), one(prs("geprueft\n")))}
			add("text-rvalue-unused:"+sfx, "t an der Stelle i in a local that is never read", 1, byteIdx, nil, nil, []*Func{pruefe}, func(p string, n, i, j *Var) []Stmt {
				t := vr(p+"_t", Text)
				return seq(c06BuildText(t, n, p), one(&ExprStmt{X: &Call{F: pruefe, Args: []Expr{t, i}}}), one(prs("danach\n")))
			})
		}
		add("text-rvalue-temp:"+sfx, "(t verkettet mit \"\") an der Stelle i", 1, byteIdx, nil, nil, nil, func(p string, n, i, j *Var) []Stmt {
			t := vr(p+"_t", Text)
			return seq(c06BuildText(t, n, p), pr(&Bin{Op: "index", L: &Bin{Op: "verkettet", L: t, R: tl(""), T: Text}, R: i, T: Char}))
		})
		for ci, ch := range []rune{'x', 'ö', '€', '😀'} {
			ch := ch
			add(fmt.Sprintf("text-assign-%dbyte:%s", ci+1, sfx), "Speichere c in t an der Stelle i", 1, byteIdx, nil, nil, nil, func(p string, n, i, j *Var) []Stmt {
				t := vr(p+"_t", Text)
				return seq(c06BuildText(t, n, p), one(&Assign{Target: &Bin{Op: "index", L: t, R: i, T: Char}, Val: cl(ch)}), pr(&Un{Op: "laenge", X: t, T: Zahl}), pr(t))
			})
		}
		add("text-slice:"+sfx, "t im Bereich von i bis j", 2, byteIdx, nil, nil, nil, func(p string, n, i, j *Var) []Stmt {
			t := vr(p+"_t", Text)
			return seq(c06BuildText(t, n, p), pr(&Ter{Op: "slice", A: t, B: i, C: j, T: Text}))
		})
		add("text-ab:"+sfx, "t ab dem i. Element", 1, byteIdx, nil, nil, nil, func(p string, n, i, j *Var) []Stmt {
			t := vr(p+"_t", Text)
			return seq(c06BuildText(t, n, p), pr(&Bin{Op: "ab", L: t, R: i, T: Text}))
		})
		add("text-bis:"+sfx, "t bis zum i. Element", 1, byteIdx, nil, nil, nil, func(p string, n, i, j *Var) []Stmt {
			t := vr(p+"_t", Text)
			return seq(c06BuildText(t, n, p), pr(&Bin{Op: "bis", L: t, R: i, T: Text}))
		})
	}
	// Variable casts: every held kind × every target kind (static programs)
	held := []struct {
		t *Type
		v Value
	}{{Zahl, int64(7)}, {Komma, 2.5}, {Byte, uint8(200)}, {Bool, true}, {Char, 'ä'}, {Text, []rune("t€")},
		{ListOf(Zahl), &ListV{T: ListOf(Zahl), El: []Value{int64(1)}}}, {ListOf(Text), &ListV{T: ListOf(Text), El: []Value{[]rune("a")}}}, {stP, DefaultValue(stP)}}
	g := &cellGen{}
	for _, h := range held {
		for _, to := range held {
			for _, form := range []string{"var", "temp"} {
				cnt++
				pfx := fmt.Sprintf("c%d", cnt)
				var body []Stmt
				var src Expr = &Cast{X: valueExpr(h.t, h.v), T: Any}
				if form == "var" {
					a := vr(pfx+"_a", Any)
					body = one(&VarDecl{Name: a.Name, T: Any, Init: src})
					src = a
				}
				if h.t.Eq(to.t) {
					body = seq(one(prs("start\n")), body, observe(pfx, &Cast{X: src, T: to.t}, h.v), one(prs("ende\n")))
				} else {
					body = seq(one(prs("start\n")), body, one(&VarDecl{Name: pfx + "_r", T: to.t, Init: &Cast{X: src, T: to.t}}), one(prs("nicht erreichbar\n")))
				}
				out = append(out, &batch.Case{Key: "any-cast:" + h.t.String() + "->" + to.t.String() + ":" + form, Desc: "Variable holding " + h.t.String() + " converted to " + to.t.String(),
					Structs: g.structsOf(h.t, to.t), Body: body})
			}
		}
	}
	// Variable casts and type definitions: a definition is a type of its own, so a Variable holding the
	// underlying type is not convertible to the definition, nor the other way round, nor to another
	// definition of the same underlying type
	{
		nummer, nummer2 := DefOf("Nummer", "f", Zahl), DefOf("Ziffer", "f", Zahl)
		kennz, bruch := DefOf("Kennzeichen", "n", Text), DefOf("Bruch", "m", Komma)
		reihe := DefOf("Reihe", "f", ListOf(Zahl))
		marke, bit := DefOf("Marke", "f", Char), DefOf("Schalter", "m", Bool)
		oktett := DefOf("Oktett", "n", Byte)
		defs := []*Type{nummer, nummer2, kennz, bruch, reihe, marke, bit, oktett}
		type hv struct {
			t *Type
			v Value
		}
		var hs []hv
		for _, h := range held[:7] { // the primitives and the Zahlen Liste
			hs = append(hs, hv{h.t, h.v})
		}
		for _, d := range defs {
			for _, h := range held {
				if h.t.Eq(d.Under()) {
					hs = append(hs, hv{d, h.v})
				}
			}
		}
		mkv := func(h hv) Expr { // a value of type h.t
			if h.t.Def == "" {
				return valueExpr(h.t, h.v)
			}
			return &Cast{X: valueExpr(h.t.Under(), h.v), T: h.t}
		}
		for _, h := range hs {
			for _, to := range hs {
				if h.t.Def == "" && to.t.Def == "" {
					continue // covered above
				}
				if !h.t.Under().Eq(to.t.Under()) && h.t.Def != "" && to.t.Def != "" {
					continue // two definitions of different underlying types: nothing new over def×primitive
				}
				// how the value gets into the Variable: explicit conversion kept in a variable / used as a
				// temporary, implicit conversion at initialisation, at assignment, at return
				for _, form := range []string{"var", "temp", "init", "assign", "ret"} {
					cnt++
					pfx := fmt.Sprintf("c%d", cnt)
					var body []Stmt
					var funcs []*Func
					var src Expr = &Cast{X: mkv(h), T: Any}
					a := vr(pfx+"_a", Any)
					switch form {
					case "var":
						body = one(&VarDecl{Name: a.Name, T: Any, Init: src})
						src = a
					case "init":
						body = one(&VarDecl{Name: a.Name, T: Any, Init: mkv(h)})
						src = a
					case "assign":
						body = seq(one(&VarDecl{Name: a.Name, T: Any, Init: &Cast{X: zl(0), T: Any}}), one(&Assign{Target: a, Val: mkv(h)}))
						src = a
					case "ret":
						f := &Func{Name: pfx + "_alsvar", Params: []Param{{Name: "p", T: h.t}}, Ret: Any, Body: one(&Return{X: vr("p", h.t)})}
						funcs = []*Func{f}
						src = &Call{F: f, Args: []Expr{mkv(h)}}
					}
					if h.t.Eq(to.t) {
						var back Expr = &Cast{X: src, T: to.t}
						if to.t.Def != "" {
							back = &Cast{X: back, T: to.t.Under()}
						}
						body = seq(one(prs("start\n")), body, observe(pfx, back, h.v), one(prs("ende\n")))
					} else {
						body = seq(one(prs("start\n")), body, one(&VarDecl{Name: pfx + "_r", T: to.t, Init: &Cast{X: src, T: to.t}}), one(prs("nicht erreichbar\n")))
					}
					out = append(out, &batch.Case{Key: "any-cast-def:" + h.t.String() + "->" + to.t.String() + ":" + form, Desc: "Variable holding " + h.t.String() + " converted to " + to.t.String(),
						Aliases: defs, Funcs: funcs, Body: body})
				}
			}
		}
	}
	// the unimplemented statement
	{
		f := &Func{Name: "unfertig", Ret: Zahl, Body: seq(one(prs("in f\n")), one(&Todo{}), one(&Return{X: zl(1)}))}
		out = append(out, &batch.Case{Key: "todo:main", Desc: "... in main", Body: seq(one(prs("vor\n")), one(&Todo{}), one(prs("nach\n")))})
		out = append(out, &batch.Case{Key: "todo:func", Desc: "... in a function", Funcs: []*Func{f}, Body: seq(one(prs("vor\n")), pr(&Call{F: f}), one(prs("nach\n")))})
		i := vr("todo_i", Zahl)
		out = append(out, &batch.Case{Key: "todo:loop", Desc: "... in the second iteration of a loop", Body: one(&For{Var: i.Name, T: Zahl, From: zl(1), To: zl(3), Body: seq(pr(i), one(&If{Cond: eq(i, zl(2)), Then: one(&Todo{})}))})})
	}
	_ = tier
	return out
}

func runC06(tier string) int {
	c := ev.New("C06", tier)
	c.Budget(map[string]int{"quick": 300, "thorough": 2400}[tier])
	levels := []uint{1}
	if tier == "thorough" {
		levels = []uint{0, 1, 2}
	}
	cases := genC06(tier)
	// static programs (Variable conversions, '...') first: they are cheap, the argv-driven forms take the time
	sort.SliceStable(cases, func(i, j int) bool { return cases[i].ArgSets == nil && cases[j].ArgSets != nil })
	if flt := os.Getenv("VERIF_ONLY"); flt != "" { // development aid (the run is then reported as capped)
		var sel []*batch.Case
		for _, cs := range cases {
			if strings.Contains(cs.Key, flt) {
				sel = append(sel, cs)
			}
		}
		cases = sel
		c.Capped("VERIF_ONLY=" + flt)
	}
	st := batch.Run(c, cases, batch.Opts{Prop: "C06", Family: "access", Levels: levels, BatchSize: 30})
	c.Set("stats", st)
	nontriv := 0
	for _, cs := range cases {
		if cs.ArgSets != nil {
			nontriv += len(cs.ArgSets)
		} else {
			nontriv++
		}
	}
	for _, cs := range cases {
		if len(cs.ArgSets) >= 6 {
			c.Sample(map[string]any{"case": cs.Desc, "key": cs.Key, "arg_vectors": cs.ArgSets[:6], "source": (&Program{Main: cs.Body, UsesArgs: true}).Source()})
			break
		}
	}
	if len(cases) > 0 {
		c.Sample(map[string]any{"case": cases[0].Desc, "key": cases[0].Key})
	}
	c.Set("evaluations", st.Cases)
	c.Set("states", st.Cases-st.Unspecified)
	c.Set("transitions", st.Runs)
	c.Set("traces_validated_against_impl", st.Runs)
	c.Set("distinct_nontrivial", nontriv)
	c.Set("programs", st.Programs)
	c.Set("rule", "state = (access form, element type, index type, n, i[, j]) with a specified reference outcome; transitions = executions of the compiled program on one argument vector compared with the cdm evaluation (stdout, exit status, Laufzeitfehler on stderr)")
	c.Set("bounds", map[string]any{"n": "0..4", "index_values": "-2..n+2, 2^63-1, -2^63, -2^63+1, 2^31, 256, 255 (Byte index: the subset in 0..255)", "opt_levels": levels})
	c.Assume("reference semantics = mc/internal/cdm: index outside 1..length ⇒ Laufzeitfehler + exit 1 + stdout up to the access; slice bounds clamp into 1..length and fail only if the clamped upper < lower; empty containers slice to empty")
	return c.Finish()
}

func replayC06(dir string) int {
	ok, msg := batch.ReplayDir(dir)
	if !ok {
		fmt.Printf("VIOLATION property=C06 replay=%s\n  %s\n", dir, msg)
		return 1
	}
	fmt.Println("C06 replay:", msg)
	return 0
}

func init() { checks["C06"] = check{runC06, replayC06} }
