package main

// C19 — every literal denotes its written value (shape S).
// Two observation points for every literal of the enumerated spaces:
//   (A) the value the real parser stores in the AST (fe worker op "lits"), compared exactly
//       (integers, IEEE-754 bits of decimals, code points of characters and texts);
//   (B) the value the compiled program prints at run time (cdm RawLit through batch.Run).
// Invalid literals (out of range, unknown escape, unterminated, wrong length) must yield a diagnostic.

import (
	"fmt"
	"math"
	"math/big"
	"os"
	"path/filepath"
	"strconv"
	"strings"
	"sync"
	"time"
	"unicode/utf8"

	"ddpmc/internal/batch"
	. "ddpmc/internal/cdm"
	"ddpmc/internal/ev"
	"ddpmc/internal/fe"
	"ddpmc/internal/par"
	"ddpmc/internal/pool"
	"ddpmc/internal/rx"
)

type c19Lit struct {
	kind  string // int float char string bool
	raw   string // spelling
	valid bool
	val   Value // expected value (valid only)
	class string
}

func c19Ints() []c19Lit {
	seen := map[string]bool{}
	var out []c19Lit
	add := func(s string) {
		if seen[s] {
			return
		}
		seen[s] = true
		n, _ := new(big.Int).SetString(s, 10)
		l := c19Lit{kind: "int", raw: s, class: "int"}
		if n.IsInt64() {
			l.valid, l.val = true, n.Int64()
		} else {
			l.class = "int-out-of-range"
		}
		out = append(out, l)
	}
	for i := 0; i <= 20; i++ {
		add(strconv.Itoa(i))
	}
	for k := 0; k <= 64; k++ {
		p := new(big.Int).Lsh(big.NewInt(1), uint(k))
		add(p.String())
		add(new(big.Int).Add(p, big.NewInt(1)).String())
		if k > 0 {
			add(new(big.Int).Sub(p, big.NewInt(1)).String())
		}
	}
	for k := 0; k <= 20; k++ {
		p := new(big.Int).Exp(big.NewInt(10), big.NewInt(int64(k)), nil)
		add(p.String())
		add(new(big.Int).Add(p, big.NewInt(1)).String())
		add(new(big.Int).Sub(p, big.NewInt(1)).String())
	}
	add("00")
	add("007")
	add("0000000000000000000000000012")
	add("99999999999999999999999999999999")
	return out
}

func c19Floats(tier string) []c19Lit {
	var out []c19Lit
	add := func(s string) {
		f, err := strconv.ParseFloat(strings.Replace(s, ",", ".", 1), 64)
		l := c19Lit{kind: "float", raw: s, class: "float", valid: err == nil || !math.IsInf(f, 0), val: f}
		if err != nil && math.IsInf(f, 0) {
			l.valid, l.class = false, "float-out-of-range"
		}
		out = append(out, l)
	}
	maxD := 19
	if tier == "thorough" {
		maxD = 99
	}
	for d := 0; d <= maxD; d++ {
		ds := []string{strconv.Itoa(d)}
		if d < 10 {
			ds = append(ds, "0"+strconv.Itoa(d))
		}
		for _, D := range ds {
			for fl := 1; fl <= 3; fl++ {
				for f := 0; f < int(math.Pow10(fl)); f++ {
					add(fmt.Sprintf("%s,%0*d", D, fl, f))
				}
			}
		}
	}
	// round-trip stress values (halfway cases and classics)
	for _, s := range []string{"9007199254740993,0", "9007199254740992,5", "0,1", "0,2", "0,3", "0,30000000000000004", "1,7976931348623157", "2,2250738585072014",
		"4,35", "5,0000000000000001", "8,41", "123456789012345678,0", "0,000001", "0,0000000000000000000001", "1,0000000000000002", "1,00000000000000011102230246251565404236316680908203125",
		"1,00000000000000011102230246251565404236316680908203124", "1,00000000000000011102230246251565404236316680908203126", "179769313486231570000000000000000000000000000000,0", "0,5", "17,0", "4,4501477170144023"} {
		add(s)
	}
	// the edge of the double range: the largest finite value, the rounding boundary to infinity (2^1024 - 2^970,
	// a tie that rounds to even = infinity), its two neighbours, 2^1024 and powers of ten around 10^308/10^309.
	// Literals that round to infinity are "outside the representable range" and must be rejected.
	two := big.NewInt(2)
	half := new(big.Int).Sub(new(big.Int).Exp(two, big.NewInt(1024), nil), new(big.Int).Exp(two, big.NewInt(970), nil))
	dblMax := new(big.Int).Sub(new(big.Int).Exp(two, big.NewInt(1024), nil), new(big.Int).Exp(two, big.NewInt(971), nil))
	for _, n := range []*big.Int{dblMax, new(big.Int).Sub(half, big.NewInt(1)), half, new(big.Int).Add(half, big.NewInt(1)), new(big.Int).Exp(two, big.NewInt(1024), nil)} {
		add(n.String() + ",0")
	}
	add(new(big.Int).Sub(half, big.NewInt(1)).String() + ",99")
	add(half.String() + ",01")
	for _, z := range []int{307, 308, 309, 320, 400} {
		add("1" + strings.Repeat("0", z) + ",0")
		add("9" + strings.Repeat("9", z) + ",5")
	}
	add("17976931348623157" + strings.Repeat("0", 292) + ",0")
	add("17976931348623159" + strings.Repeat("0", 292) + ",0")
	return out
}

func c19EscapeValue(r rune, quote rune) (rune, bool) {
	switch r {
	case 'a':
		return '\a', true
	case 'b':
		return '\b', true
	case 'n':
		return '\n', true
	case 'r':
		return '\r', true
	case 't':
		return '\t', true
	case '\\':
		return '\\', true
	}
	if r == quote {
		return quote, true
	}
	return 0, false
}

func c19Chars(tier string, ast bool) []c19Lit {
	var out []c19Lit
	addScalar := func(r rune) {
		if r == '\'' || r == '\\' {
			return
		}
		out = append(out, c19Lit{kind: "char", raw: "'" + string(r) + "'", valid: true, val: r, class: "char"})
	}
	var ranges [][2]rune
	switch {
	case tier == "thorough" && ast:
		ranges = [][2]rune{{0, 0x10FFFF}}
	case ast || tier == "thorough":
		ranges = [][2]rune{{0, 0xFFFF}, {0x10000, 0x100FF}, {0x1F300, 0x1F6FF}, {0x1FFF0, 0x2000F}, {0xFFFF0, 0x10000F}, {0x10FFF0, 0x10FFFF}}
	default:
		ranges = [][2]rune{{1, 0x2FF}, {0x7F0, 0x80F}, {0x20A0, 0x20BF}, {0xD7F0, 0xD7FF}, {0xE000, 0xE00F}, {0xFFF0, 0x1000F}, {0x1F600, 0x1F60F}, {0x10FFF0, 0x10FFFF}}
	}
	for _, rg := range ranges {
		for r := rg[0]; r <= rg[1]; r++ {
			if utf8.ValidRune(r) && (ast || r != 0) {
				addScalar(r)
			}
		}
	}
	// escapes: every backslash + ASCII printable, and some multi-byte
	for c := rune(0x20); c < 0x7F; c++ {
		v, ok := c19EscapeValue(c, '\'')
		out = append(out, c19Lit{kind: "char", raw: `'\` + string(c) + `'`, valid: ok, val: v, class: "char-escape"})
	}
	for _, c := range []rune{'ä', '€', '😀', '\n'} {
		out = append(out, c19Lit{kind: "char", raw: `'\` + string(c) + `'`, class: "char-escape"})
	}
	for _, s := range []string{`''`, `'ab'`, `'\'`, `'\\\'`, `'abc'`, `'ää'`, `'\nn'`, `'a`, `'`} {
		out = append(out, c19Lit{kind: "char", raw: s, class: "char-malformed"})
	}
	return out
}

// c19Texts: all strings of length <= L over the alphabet placed between quotes; classified by the
// reference literal grammar. Strings containing a bare quote are not a single literal: excluded.
func c19Texts(L int) (out []c19Lit, excluded int) {
	alpha := []rune{'a', '"', '\\', 'n', 't', 'x', '\n', 'ä', '😀', '\''}
	var rec func(cur []rune)
	rec = func(cur []rune) {
		raw := `"` + string(cur) + `"`
		l := c19Lit{kind: "string", raw: raw, class: "text"}
		var val []rune
		ok, single := true, true
		for i := 0; i < len(cur); i++ {
			c := cur[i]
			if c == '"' {
				single = false
				break
			}
			if c == '\\' {
				if i+1 >= len(cur) { // escapes the closing quote: unterminated
					ok = false
					l.class = "text-unterminated"
					break
				}
				v, e := c19EscapeValue(cur[i+1], '"')
				if !e {
					ok = false
					l.class = "text-unknown-escape"
					break
				}
				val = append(val, v)
				i++
				continue
			}
			val = append(val, c)
		}
		if !single {
			excluded++
		} else {
			l.valid = ok
			if ok {
				if val == nil {
					val = []rune{}
				}
				l.val = val
			}
			out = append(out, l)
		}
		if len(cur) < L {
			for _, a := range alpha {
				rec(append(append([]rune{}, cur...), a))
			}
		}
	}
	rec(nil)
	return
}

func c19Decl(i int, l c19Lit) string {
	switch l.kind {
	case "int":
		return fmt.Sprintf("Die Zahl z%d ist %s.", i, l.raw)
	case "float":
		return fmt.Sprintf("Die Kommazahl k%d ist %s.", i, l.raw)
	case "char":
		return fmt.Sprintf("Der Buchstabe c%d ist %s.", i, l.raw)
	case "string":
		return fmt.Sprintf("Der Text t%d ist %s.", i, l.raw)
	case "bool":
		return fmt.Sprintf("Der Wahrheitswert b%d ist %s.", i, l.raw)
	}
	panic("kind")
}

func c19Match(l c19Lit, got fe.LitV) string {
	if got.Kind != l.kind {
		return fmt.Sprintf("literal %s: parser produced a %s literal (%q)", l.raw, got.Kind, got.Src)
	}
	switch v := l.val.(type) {
	case int64:
		if got.I != v {
			return fmt.Sprintf("literal %s: AST value %d, written value %d", l.raw, got.I, v)
		}
	case float64:
		if got.F != math.Float64bits(v) {
			return fmt.Sprintf("literal %s: AST value %v (bits %x), correctly rounded value %v (bits %x)", l.raw, math.Float64frombits(got.F), got.F, v, math.Float64bits(v))
		}
	case rune:
		if len(got.R) != 1 || got.R[0] != v {
			return fmt.Sprintf("literal %q: AST value %U, written value %U", l.raw, got.R, v)
		}
	case []rune:
		if string(got.R) != string(v) {
			return fmt.Sprintf("literal %q: AST value %q, written value %q", l.raw, string(got.R), string(v))
		}
	case bool:
		if got.B != v {
			return fmt.Sprintf("literal %s: AST value %v", l.raw, got.B)
		}
	}
	return ""
}

// astCheck parses a file with the given literals; returns per-literal problems ("" = fine).
func c19Parse(lits []c19Lit) (resp fe.Resp, st pool.Status, src string) {
	var sb strings.Builder
	for i, l := range lits {
		sb.WriteString(c19Decl(i, l))
		sb.WriteByte('\n')
	}
	src = sb.String()
	st, _ = rx.CompPool().Do(&fe.Req{Op: "lits", File: "/nonexistent/c19.ddp", Source: []byte(src), HasSrc: true}, &resp, 60*time.Second)
	return
}

func runC19(tier string) int {
	c := ev.New("C19", tier)
	c.Budget(map[string]int{"quick": 300, "thorough": 2400}[tier])
	// length 4 is the smallest length that contains two escapes in a row
	textL, textRunL := 4, 4
	if tier == "thorough" {
		textL = 5
	}
	texts, exclTexts := c19Texts(textL)
	var rtTexts []c19Lit
	for _, t := range texts {
		if len([]rune(t.raw)) <= textRunL+2 {
			rtTexts = append(rtTexts, t)
		}
	}
	c.Add("excluded_unspecified", int64(exclTexts))
	bools := []c19Lit{{kind: "bool", raw: "wahr", valid: true, val: true, class: "bool"}, {kind: "bool", raw: "falsch", valid: true, val: false, class: "bool"}}
	astLits := append(append(append(append(c19Ints(), c19Floats(tier)...), c19Chars(tier, true)...), texts...), bools...)
	var valid, invalid []c19Lit
	for _, l := range astLits {
		if l.valid {
			valid = append(valid, l)
		} else {
			invalid = append(invalid, l)
		}
	}
	var mu sync.Mutex
	classes := map[string]int{}
	var astChecked int64
	report := func(l c19Lit, what string) {
		c.Violation("C19:ast:"+l.class+":"+firstRunes(l.raw, 24), what, map[string]string{"literal.txt": l.raw, "kind.txt": l.kind, "expect_valid.txt": fmt.Sprint(l.valid)})
	}
	// (A1) valid literals, 1000 per file; on any irregularity fall back to one literal per file
	var chunks [][]c19Lit
	for i := 0; i < len(valid); i += 1000 {
		j := i + 1000
		if j > len(valid) {
			j = len(valid)
		}
		chunks = append(chunks, valid[i:j])
	}
	solo := func(l c19Lit) {
		resp, st, _ := c19Parse([]c19Lit{l})
		if st != pool.OK || resp.Panic != "" {
			report(l, "frontend crashed on this literal: "+st.String()+" "+resp.Panic)
			return
		}
		if l.valid {
			if resp.NErrors() > 0 || resp.Err != "" {
				d := ""
				if len(resp.Diags) > 0 {
					d = resp.Diags[0].String()
				}
				report(l, "valid literal "+l.raw+" rejected: "+resp.Err+" "+d)
				return
			}
			if len(resp.Lits) != 1 {
				report(l, fmt.Sprintf("valid literal %s: %d literal nodes in the AST", l.raw, len(resp.Lits)))
				return
			}
			if w := c19Match(l, resp.Lits[0]); w != "" {
				report(l, w)
			}
			return
		}
		if resp.NErrors() == 0 && resp.Err == "" {
			v := ""
			if len(resp.Lits) > 0 {
				v = fmt.Sprintf(" (accepted with value %+v)", resp.Lits[0])
			}
			report(l, "invalid literal "+l.raw+" ("+l.class+") accepted without a diagnostic"+v)
		}
	}
	par.Each(chunks, 0, func(_ int, ch []c19Lit) {
		if c.Expired() {
			c.Capped("AST-level chunks skipped at deadline")
			return
		}
		resp, st, _ := c19Parse(ch)
		mu.Lock()
		astChecked += int64(len(ch))
		for _, l := range ch {
			classes[l.class]++
		}
		mu.Unlock()
		if st == pool.OK && resp.Panic == "" && resp.Err == "" && resp.NErrors() == 0 && len(resp.Lits) == len(ch) {
			for i, l := range ch {
				if w := c19Match(l, resp.Lits[i]); w != "" {
					report(l, w)
				}
			}
			return
		}
		for _, l := range ch {
			solo(l)
		}
	})
	// (A2) invalid literals, one per file
	par.Each(invalid, 0, func(_ int, l c19Lit) {
		solo(l)
		mu.Lock()
		astChecked++
		classes[l.class]++
		mu.Unlock()
	})
	c.Set("ast_level_literals", astChecked)
	c.Set("classes", classes)

	// (B) run time: RawLit through the compiler
	var cases []*batch.Case
	rtLits := append(append(append(append(c19Ints(), sampleFloatsForRuntime(tier)...), c19Chars(tier, false)...), rtTexts...), bools...)
	k := 0
	for _, l := range rtLits {
		if !l.valid {
			continue
		}
		k++
		var body []Stmt
		switch v := l.val.(type) {
		case int64:
			body = pr(&RawLit{Raw: l.raw, T: Zahl, V: v})
			body = append(body, pr(&Un{Op: "neg", X: &RawLit{Raw: l.raw, T: Zahl, V: v}, T: Zahl})...)
		case float64:
			body = pr(&RawLit{Raw: l.raw, T: Komma, V: v})
		case rune:
			body = pr(&Cast{X: &RawLit{Raw: l.raw, T: Char, V: v}, T: Zahl})
		case []rune:
			hasNul := false
			for _, r := range v {
				if r == 0 {
					hasNul = true
				}
			}
			if hasNul {
				continue
			}
			t := vr(fmt.Sprintf("t%d", k), Text)
			body = seq(one(&VarDecl{Name: t.Name, T: Text, Init: &RawLit{Raw: l.raw, T: Text, V: v}}), pr(&Un{Op: "laenge", X: t, T: Zahl}), one(&Print{X: t}), one(prs("|\n")))
			for i := range v {
				body = append(body, pr(&Cast{X: &Bin{Op: "index", L: t, R: zl(int64(i + 1)), T: Char}, T: Zahl})...)
			}
		case bool:
			body = pr(&RawLit{Raw: l.raw, T: Bool, V: v})
		}
		cases = append(cases, &batch.Case{Key: l.class + ":" + firstRunes(l.raw, 24), Desc: "literal " + l.raw, Body: body})
	}
	// list literals of every literal kind incl. N Mal x
	{
		mk := func(name string, t *Type, els ...Expr) {
			k++
			l := vr(fmt.Sprintf("l%d", k), ListOf(t))
			var vals []Value
			for _, e := range els {
				vals = append(vals, e.(*RawLit).V)
			}
			cases = append(cases, &batch.Case{Key: "list:" + name, Desc: "list literal " + name,
				Body: seq(one(&VarDecl{Name: l.Name, T: l.T, Init: &ListLit{T: l.T, El: els}}), observe(l.Name, l, &ListV{T: l.T, El: vals}))})
		}
		mk("Zahl", Zahl, &RawLit{Raw: "1", T: Zahl, V: int64(1)}, &RawLit{Raw: "9223372036854775807", T: Zahl, V: int64(math.MaxInt64)}, &RawLit{Raw: "007", T: Zahl, V: int64(7)})
		mk("Kommazahl", Komma, &RawLit{Raw: "0,1", T: Komma, V: 0.1}, &RawLit{Raw: "2,50", T: Komma, V: 2.5})
		mk("Buchstabe", Char, &RawLit{Raw: `'\n'`, T: Char, V: '\n'}, &RawLit{Raw: `'😀'`, T: Char, V: '😀'}, &RawLit{Raw: `'\''`, T: Char, V: '\''})
		mk("Text", Text, &RawLit{Raw: `"a\"b"`, T: Text, V: []rune(`a"b`)}, &RawLit{Raw: `""`, T: Text, V: []rune{}}, &RawLit{Raw: "\"ä\n😀\"", T: Text, V: []rune("ä\n😀")})
		mk("Wahrheitswert", Bool, &RawLit{Raw: "wahr", T: Bool, V: true}, &RawLit{Raw: "falsch", T: Bool, V: false})
		k++
		l := vr(fmt.Sprintf("l%d", k), ListOf(Text))
		cases = append(cases, &batch.Case{Key: "list:N-Mal", Desc: "3 Mal \"x\\n\"", Body: seq(
			one(&VarDecl{Name: l.Name, T: l.T, Init: &ListN{T: l.T, N: &RawLit{Raw: "3", T: Zahl, V: int64(3)}, V: &RawLit{Raw: `"x\n"`, T: Text, V: []rune("x\n")}}}),
			observe(l.Name, l, &ListV{T: l.T, El: []Value{[]rune("x\n"), []rune("x\n"), []rune("x\n")}}))})
	}
	st := batch.Run(c, cases, batch.Opts{Prop: "C19", Family: "run", Levels: []uint{1}, BatchSize: 250})
	c.Set("runtime_stats", st)
	// (C) CLI: an invalid literal must leave no executable
	cliChecked := 0
	for _, l := range []c19Lit{invalid[0], invalid[len(invalid)/2], invalid[len(invalid)-1]} {
		dir := rx.Scratch("c19")
		rx.WriteFiles(dir, map[string]string{"x.ddp": "Binde \"Duden/Ausgabe\" ein.\n" + c19Decl(0, l) + "\n"})
		exit, _, _, _ := rx.CLI(dir, "kompiliere", "x.ddp", "-o", "x")
		_, err := os.Stat(filepath.Join(dir, "x"))
		if exit == 0 || err == nil {
			report(l, fmt.Sprintf("kddp exit %d for a program with the invalid literal %s; executable exists: %v", exit, l.raw, err == nil))
		}
		os.RemoveAll(dir)
		cliChecked++
	}
	c.Set("cli_checked", cliChecked)
	c.Sample(map[string]any{"level": "AST", "literal": valid[len(valid)/2].raw, "expected": fmt.Sprint(valid[len(valid)/2].val)})
	c.Sample(map[string]any{"level": "AST", "invalid_literal": invalid[len(invalid)/3].raw, "class": invalid[len(invalid)/3].class})
	c.Sample(map[string]any{"level": "runtime", "case": cases[len(cases)/2].Desc})
	c.Set("evaluations", astChecked+st.Cases)
	c.Set("states", astChecked+st.Cases-st.Unspecified)
	c.Set("transitions", astChecked+st.Runs)
	c.Set("traces_validated_against_impl", astChecked+st.Runs)
	c.Set("distinct_nontrivial", len(valid)+len(invalid))
	c.Set("rule", "state = one literal spelling; AST level: parser.Parse value compared exactly with the written value (every literal), run-time level: compiled program prints the value (batched); invalid spellings must give an error diagnostic; distinct_nontrivial = distinct spellings")
	c.Set("bounds", map[string]any{"text_alphabet": "a \" \\ n t x LF ä 😀 '", "text_max_len_ast_level": textL, "text_max_len_run_time": textRunL, "chars_ast_level": map[string]string{"quick": "all of U+0000..U+FFFF + plane boundaries", "thorough": "every Unicode scalar value"}[tier],
		"decimals": "D,F with D<=" + map[string]string{"quick": "19", "thorough": "99"}[tier] + " (with and without leading zero), F of 1..3 digits, + 22 stress values", "integers": "0..20, 2^k, 2^k±1 (k<=64), 10^k, 10^k±1 (k<=20), leading zeros"})
	c.Assume("correctly rounded decimal = strconv.ParseFloat", "texts containing an unescaped quote are two tokens, not one literal: excluded", "run-time printing through libc %.16g / %lld")
	return c.Finish()
}

func sampleFloatsForRuntime(tier string) []c19Lit {
	all := c19Floats(tier)
	if tier == "thorough" {
		return all
	}
	// quick: every literal with D in {0,7,19} plus the stress values (the rest is covered exactly at AST level)
	var out []c19Lit
	for _, l := range all {
		if strings.HasPrefix(l.raw, "0,") || strings.HasPrefix(l.raw, "7,") || strings.HasPrefix(l.raw, "19,") || len(l.raw) > 6 {
			out = append(out, l)
		}
	}
	return out
}

func firstRunes(s string, n int) string {
	r := []rune(s)
	if len(r) > n {
		r = r[:n]
	}
	return strconv.QuoteToASCII(string(r))
}

func replayC19(dir string) int {
	if _, err := os.Stat(filepath.Join(dir, "main.ddp")); err == nil {
		ok, msg := batch.ReplayDir(dir)
		if !ok {
			fmt.Printf("VIOLATION property=C19 replay=%s\n  %s\n", dir, msg)
			return 1
		}
		fmt.Println("C19 replay:", msg)
		return 0
	}
	raw, _ := os.ReadFile(filepath.Join(dir, "literal.txt"))
	kind, _ := os.ReadFile(filepath.Join(dir, "kind.txt"))
	resp, st, src := c19Parse([]c19Lit{{kind: string(kind), raw: string(raw)}})
	fmt.Printf("source:\n%s\nstatus=%v err=%q diagnostics=%d\n", src, st, resp.Err, len(resp.Diags))
	for _, d := range resp.Diags {
		fmt.Println("  ", d)
	}
	for _, l := range resp.Lits {
		fmt.Printf("  literal node: %+v\n", l)
	}
	fmt.Println("(compare with WHAT.txt)")
	return 0
}

func init() { checks["C19"] = check{runC19, replayC19} }
