package main

// C08, Referenz aliasing over PRIMITIVE storage: straight-line callees that write through one name and
// read / update through another name of the same storage, without any call in between (so nothing
// stops an optimiser that wrongly believes the two names cannot overlap): the same variable bound to
// two Referenz parameters, a global passed by Referenz to a function that also touches it directly,
// fields and list elements of one variable bound twice.

import (
	"fmt"

	"ddpmc/internal/batch"
	. "ddpmc/internal/cdm"
)

var stPunkt = &Type{K: KStruct, Name: "PunktXY", Gender: "m", Fields: []Field{{Name: "x", T: Zahl}, {Name: "y", T: Komma}}}

func genC08RefPrim() []*batch.Case {
	var out []*batch.Case
	n := 0
	type prim struct {
		t          *Type
		v0, v1, v2 Expr
		upd        func(target Expr) Stmt // an update that reads the old value
	}
	add10 := func(t Expr) Stmt { return &Compound{Op: "erhoehe", Target: t, Val: zl(10)} }
	prims := []prim{
		{Zahl, zl(0), zl(1), zl(2), add10},
		{Komma, kl(0.5), kl(1.5), kl(2.5), func(t Expr) Stmt { return &Compound{Op: "erhoehe", Target: t, Val: kl(10)} }},
		{Byte, byl(0), byl(1), byl(2), func(t Expr) Stmt { return &Compound{Op: "erhoehe", Target: t, Val: byl(10)} }},
		{Bool, bl(false), bl(false), bl(true), func(t Expr) Stmt { return &Assign{Target: t, Val: &Un{Op: "nicht", X: t, T: Bool}} }},
		{Char, cl('a'), cl('b'), cl('c'), func(t Expr) Stmt { return &Assign{Target: t, Val: &Ter{Op: "falls", A: cl('X'), B: eq(t, cl('c')), C: cl('Y'), T: Char}} }},
	}
	for _, pt := range prims {
		pt := pt
		// (1) the same variable as (ref, ref); control: two different variables
		for _, same := range []bool{true, false} {
			n++
			p := fmt.Sprintf("rp%d", n)
			a, b := vr("a", pt.t), vr("b", pt.t)
			f := &Func{Name: p + "_zwei", Params: []Param{{Name: "a", T: pt.t, Ref: true}, {Name: "b", T: pt.t, Ref: true}}, Ret: pt.t,
				Body: seq(one(&Assign{Target: a, Val: pt.v1}), one(&Assign{Target: b, Val: pt.v2}), one(pt.upd(a)), one(&Return{X: a}))}
			x, y := vr(p+"_x", pt.t), vr(p+"_y", pt.t)
			second := y
			if same {
				second = x
			}
			out = append(out, &batch.Case{Key: fmt.Sprintf("ref-prim:%s:ref-ref:same=%v", pt.t, same), Desc: "write through a, write through b, update through a", Funcs: []*Func{f},
				Body: seq(one(&VarDecl{Name: x.Name, T: pt.t, Init: pt.v0}), one(&VarDecl{Name: y.Name, T: pt.t, Init: pt.v0}),
					pr(&Call{F: f, Args: []Expr{x, second}}), pr(x), pr(y))})
		}
		// (2) a global passed by Referenz to a function that also writes it directly
		{
			n++
			p := fmt.Sprintf("rp%d", n)
			g := vr(p+"_g", pt.t)
			r := vr("r", pt.t)
			f := &Func{Name: p + "_glob", Params: []Param{{Name: "r", T: pt.t, Ref: true}}, Ret: pt.t,
				Body: seq(one(&Assign{Target: r, Val: pt.v1}), one(&Assign{Target: g, Val: pt.v2}), one(pt.upd(r)), one(&Return{X: r}))}
			l := vr(p+"_l", pt.t)
			out = append(out, &batch.Case{Key: fmt.Sprintf("ref-prim:%s:global-and-ref", pt.t), Desc: "write through r, write the global directly, update through r", Funcs: []*Func{f},
				Pre: one(&VarDecl{Name: g.Name, T: pt.t, Init: pt.v0}),
				Body: seq(pr(&Call{F: f, Args: []Expr{g}}), pr(g), one(&VarDecl{Name: l.Name, T: pt.t, Init: pt.v0}), pr(&Call{F: f, Args: []Expr{l}}), pr(l), pr(g))})
		}
		// (3) the same list element bound twice
		{
			n++
			p := fmt.Sprintf("rp%d", n)
			a, b := vr("a", pt.t), vr("b", pt.t)
			f := &Func{Name: p + "_elem", Params: []Param{{Name: "a", T: pt.t, Ref: true}, {Name: "b", T: pt.t, Ref: true}}, Ret: pt.t,
				Body: seq(one(&Assign{Target: a, Val: pt.v1}), one(&Assign{Target: b, Val: pt.v2}), one(pt.upd(a)), one(&Return{X: a}))}
			l := vr(p+"_l", ListOf(pt.t))
			el := func(i int64) Expr { return &Bin{Op: "index", L: l, R: zl(i), T: pt.t} }
			out = append(out, &batch.Case{Key: fmt.Sprintf("ref-prim:%s:same-element-twice", pt.t), Desc: "one list element bound to two Referenz parameters", Funcs: []*Func{f},
				Body: seq(one(&VarDecl{Name: l.Name, T: l.T, Init: &ListLit{T: l.T, El: []Expr{pt.v0, pt.v0}}}),
					pr(&Call{F: f, Args: []Expr{el(1), el(1)}}), pr(el(1)), pr(el(2)),
					pr(&Call{F: f, Args: []Expr{el(1), el(2)}}), pr(el(1)), pr(el(2)))})
		}
	}
	// (4) Kombination with primitive fields: the same Kombination as (ref, ref); a field and the whole
	for _, same := range []bool{true, false} {
		n++
		p := fmt.Sprintf("rp%d", n)
		a, b := vr("a", stPunkt), vr("b", stPunkt)
		fx := func(v *Var) Expr { return &FieldOf{Name: "x", X: v, T: Zahl} }
		fy := func(v *Var) Expr { return &FieldOf{Name: "y", X: v, T: Komma} }
		f := &Func{Name: p + "_bewege", Params: []Param{{Name: "a", T: stPunkt, Ref: true}, {Name: "b", T: stPunkt, Ref: true}}, Ret: Zahl,
			Body: seq(one(&Assign{Target: fx(a), Val: zl(1)}), one(&Assign{Target: fx(b), Val: zl(2)}), one(&Compound{Op: "erhoehe", Target: fx(a), Val: zl(10)}),
				one(&Assign{Target: fy(b), Val: kl(1.5)}), one(&Assign{Target: fy(a), Val: kl(2.5)}), one(&Compound{Op: "erhoehe", Target: fy(b), Val: kl(10)}),
				one(&Return{X: fx(a)}))}
		x, y := vr(p+"_p", stPunkt), vr(p+"_q", stPunkt)
		second := y
		if same {
			second = x
		}
		out = append(out, &batch.Case{Key: fmt.Sprintf("ref-prim:Kombination:ref-ref:same=%v", same), Desc: "fields written through a and b alternately", Structs: []*Type{stPunkt}, Funcs: []*Func{f},
			Body: seq(one(&VarDecl{Name: x.Name, T: stPunkt, Init: &StructLit{T: stPunkt, Args: []Expr{zl(0), kl(0.5)}}}), one(&VarDecl{Name: y.Name, T: stPunkt, Init: &StructLit{T: stPunkt, Args: []Expr{zl(0), kl(0.5)}}}),
				pr(&Call{F: f, Args: []Expr{x, second}}), pr(fx(x)), pr(fy(x)), pr(fx(y)), pr(fy(y)))})
	}
	{
		// a field by Referenz and its Kombination by Referenz
		n++
		p := fmt.Sprintf("rp%d", n)
		k, z := vr("k", stPunkt), vr("z", Zahl)
		fx := func(v Expr) Expr { return &FieldOf{Name: "x", X: v, T: Zahl} }
		f := &Func{Name: p + "_feld", Params: []Param{{Name: "k", T: stPunkt, Ref: true}, {Name: "z", T: Zahl, Ref: true}}, Ret: Zahl,
			Body: seq(one(&Assign{Target: fx(k), Val: zl(1)}), one(&Assign{Target: z, Val: zl(2)}), one(&Compound{Op: "erhoehe", Target: fx(k), Val: zl(10)}), one(&Return{X: fx(k)}))}
		x := vr(p+"_p", stPunkt)
		out = append(out, &batch.Case{Key: "ref-prim:Kombination:whole-and-field", Desc: "a Kombination and one of its fields bound to two Referenz parameters", Structs: []*Type{stPunkt}, Funcs: []*Func{f},
			Body: seq(one(&VarDecl{Name: x.Name, T: stPunkt, Init: &StructLit{T: stPunkt, Args: []Expr{zl(0), kl(0.5)}}}), pr(&Call{F: f, Args: []Expr{x, fx(x)}}), pr(fx(x)))})
	}
	return out
}
