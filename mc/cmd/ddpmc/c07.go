package main

// C07 — failure is reported faithfully: flag, exit status and source ranges.
// Shape S over the same spaces as C03 (internal/frontspace), every case parsed by the REAL
// parser.Parse in a sacrificial worker with a collecting handler. Oracle per case:
//  (i)   module.Ast.Faulty <=> at least one LEVEL_ERROR diagnostic was delivered (warnings alone never
//        fail it). When Parse hands back an error value instead of a module (invalid UTF-8, unreadable
//        file) the failure is reported through that value: nothing to compare.
//  (ii)  every diagnostic names a file of the case (main, an imported module of the case directory, a
//        Duden module) and a range inside that file's text: 1 <= start.line <= end.line <= #lines,
//        1 <= column <= len(line)+1 (code points), start not after end.
//  (iii) ddperror.MakeAdvancedHandler (kddp's renderer) does not panic on any diagnostic of the main file.
//  (iv)  CLI level on a small subset (c07cli.go).
// Crashes (panic / died / hang) are C03's business: counted, not reported here.

import (
	"fmt"
	"os"
	"path/filepath"
	"sort"
	"strings"
	"sync"
	"sync/atomic"
	"unicode/utf8"

	"ddpmc/internal/fe"
	fs "ddpmc/internal/frontspace"
	"ddpmc/internal/rx"
)

// text cache for files other than the main file that never change during a run (Duden, corpus copies)
var c07Texts sync.Map

func c07FileText(cs *fs.Case, file string) ([]byte, bool) {
	if filepath.Clean(file) == filepath.Clean(cs.Main()) {
		return cs.Source, true
	}
	if cs.Extra != nil {
		if rel, err := filepath.Rel(cs.Root, file); err == nil {
			if t, ok := cs.Extra[rel]; ok {
				return []byte(t), true
			}
		}
	}
	if v, ok := c07Texts.Load(file); ok {
		b, _ := v.([]byte)
		return b, b != nil
	}
	b, err := os.ReadFile(file)
	if err != nil {
		b = nil
	}
	c07Texts.Store(file, b)
	return b, b != nil
}

func c07InCase(cs *fs.Case, file string) bool {
	f := filepath.Clean(file)
	if !filepath.IsAbs(f) {
		return false
	}
	if f == filepath.Clean(cs.Main()) {
		return true
	}
	return strings.HasPrefix(f, filepath.Clean(cs.Root)+string(filepath.Separator)) ||
		strings.HasPrefix(f, filepath.Join(rx.DDP, "Duden")+string(filepath.Separator))
}

// c07Range checks rule (ii) for one diagnostic; returns "" or the kind of the defect.
func c07Range(d fe.Diag, text []byte) (kind, detail string) {
	lines := strings.Split(string(text), "\n")
	n := uint(len(lines))
	switch {
	case d.L1 < 1 || d.L2 < 1:
		return "line-0", fmt.Sprintf("line 0 in %d:%d-%d:%d", d.L1, d.C1, d.L2, d.C2)
	case d.L1 > n || d.L2 > n:
		return "line-beyond-eof", fmt.Sprintf("%d:%d-%d:%d but the file has %d lines", d.L1, d.C1, d.L2, d.C2, n)
	case d.C1 < 1 || d.C2 < 1:
		return "column-0", fmt.Sprintf("column 0 in %d:%d-%d:%d", d.L1, d.C1, d.L2, d.C2)
	}
	len1 := uint(utf8.RuneCountInString(lines[d.L1-1]))
	len2 := uint(utf8.RuneCountInString(lines[d.L2-1]))
	switch {
	case d.C1 > len1+1:
		return "column-beyond-eol", fmt.Sprintf("start %d:%d but line %d has %d characters", d.L1, d.C1, d.L1, len1)
	case d.C2 > len2+1:
		return "column-beyond-eol", fmt.Sprintf("end %d:%d but line %d has %d characters", d.L2, d.C2, d.L2, len2)
	case d.L1 > d.L2 || (d.L1 == d.L2 && d.C1 > d.C2):
		return "start-after-end", fmt.Sprintf("%d:%d-%d:%d", d.L1, d.C1, d.L2, d.C2)
	}
	return "", ""
}

// c07Keys applies rules (i)-(iii) to one outcome: violation key -> description.
func c07Keys(cs *fs.Case, o *fs.Outcome) map[string]string {
	if o.Kind != "" {
		return nil // crash: C03
	}
	out := map[string]string{}
	r := &o.Resp
	nerr := r.NErrors()
	// (i)
	if r.HasModule && r.Err == "" && len(r.Diags) < 2000 {
		switch {
		case r.Faulty && nerr == 0:
			codes := []string{}
			for _, d := range r.Diags {
				codes = append(codes, fmt.Sprintf("W%04d", d.Code))
			}
			sort.Strings(codes)
			detail := "no-diagnostic"
			if len(codes) > 0 {
				detail = codes[0]
			}
			out["C07:faulty-without-error:"+detail] = fmt.Sprintf("module.Ast.Faulty is true but no error-level diagnostic was delivered (%d warnings)", len(r.Diags))
		case !r.Faulty && nerr > 0:
			var first fe.Diag
			for _, d := range r.Diags {
				if d.Level == 2 {
					first = d
					break
				}
			}
			out[fmt.Sprintf("C07:error-without-faulty:%04d", first.Code)] = fmt.Sprintf("%d error-level diagnostics were delivered but module.Ast.Faulty is false (a compilation of this module is not stopped); first: %s", nerr, first.String())
		}
	}
	// (i') the same for every other module of the import closure: a module marked faulty stops the
	// compilation (compiler.Compile refuses it), so some error diagnostic must have been delivered
	if r.Err == "" && nerr == 0 && len(r.FaultyMods) > 0 {
		out["C07:imported-module-faulty-without-error:"+filepath.Base(r.FaultyMods[0])] = fmt.Sprintf("the imported module(s) %v are marked faulty but no error-level diagnostic was delivered", r.FaultyMods)
	}
	// (ii)
	badRange := map[string]bool{}
	for _, d := range r.Diags {
		if !c07InCase(cs, d.File) {
			k := fmt.Sprintf("C07:range:file-not-in-case:%04d", d.Code)
			if _, ok := out[k]; !ok {
				out[k] = fmt.Sprintf("diagnostic names the file %q which is neither the main file, a module of the case nor a Duden module: %s", d.File, d.String())
			}
			continue
		}
		text, ok := c07FileText(cs, d.File)
		if !ok {
			k := fmt.Sprintf("C07:range:file-unreadable:%04d", d.Code)
			if _, ok := out[k]; !ok {
				out[k] = fmt.Sprintf("diagnostic names the file %q which cannot be read: %s", d.File, d.String())
			}
			continue
		}
		if kind, detail := c07Range(d, text); kind != "" {
			k := fmt.Sprintf("C07:range:%s:%04d", kind, d.Code)
			badRange[fmt.Sprintf("Range{Start: Pos{L: %d C: %d} End: Pos{L: %d C: %d}}", d.L1, d.C1, d.L2, d.C2)] = true
			if _, ok := out[k]; !ok {
				what := fmt.Sprintf("range outside the text of %s: %s; diagnostic: %s", filepath.Base(d.File), detail, d.String())
				if r.RenderErr != "" && filepath.Clean(d.File) == filepath.Clean(cs.Main()) {
					what += "\n" + r.RenderErr
				}
				out[k] = what
			}
		}
	}
	// (iii) a renderer panic on a diagnostic whose range passed (ii) (otherwise it is the same finding)
	if r.RenderErr != "" {
		same := false
		for rg := range badRange {
			if strings.Contains(r.RenderErr, rg) {
				same = true
			}
		}
		if !same {
			code := 0
			for _, d := range r.Diags {
				if strings.Contains(r.RenderErr, fmt.Sprintf("Range{Start: Pos{L: %d C: %d} End: Pos{L: %d C: %d}}", d.L1, d.C1, d.L2, d.C2)) {
					code = d.Code
					break
				}
			}
			out[fmt.Sprintf("C07:render-panic:%04d", code)] = "ddperror.MakeAdvancedHandler panicked on a diagnostic of the main file: " + r.RenderErr
		}
	}
	return out
}

func runC07(tier string) int {
	r, ok := newFrontRun("C07", tier, map[string]int{"quick": 600, "thorough": 2400})
	defer r.close()
	if !ok {
		return r.c.Finish()
	}
	var crashes, parseErr, withErrors, warnOnly, clean, ndiag int64
	// rule (iv) runs beside the exploration on a few cores (kddp + gcc per program)
	cliDone := make(chan struct{})
	go func() { defer close(cliDone); c07CLI(r, tier) }()
	r.explore(func(cs *fs.Case, o *fs.Outcome) {
		if o.Kind != "" {
			atomic.AddInt64(&crashes, 1)
			return
		}
		atomic.AddInt64(&ndiag, int64(len(o.Resp.Diags)))
		switch {
		case o.Resp.Err != "":
			atomic.AddInt64(&parseErr, 1)
		case o.Resp.NErrors() > 0:
			atomic.AddInt64(&withErrors, 1)
		case len(o.Resp.Diags) > 0:
			atomic.AddInt64(&warnOnly, 1)
		default:
			atomic.AddInt64(&clean, 1)
		}
		for k, what := range c07Keys(cs, o) {
			r.note(k, what, cs)
		}
	})
	<-cliDone
	r.report(c07Keys)
	r.c.Set("crashes_skipped_as_C03_business", crashes)
	r.c.Set("cases_failed_by_error_value", parseErr)
	r.c.Set("cases_with_error_diagnostics", withErrors)
	r.c.Set("cases_with_warnings_only", warnOnly)
	r.c.Set("cases_without_diagnostics", clean)
	r.c.Set("diagnostics_range_checked", ndiag)
	r.c.Sample(map[string]any{"rule": "(i)", "example": "source \"die Zahl x ist 1.\": E1004 delivered => module must be Faulty"})
	r.c.Sample(map[string]any{"rule": "(ii)", "example": "E(1000) t.ddp 7:3-7:8 must satisfy 1<=7<=#lines, columns within the line +1"})
	r.c.Assume("when parser.Parse returns an error value and no module (invalid UTF-8, unreadable main file) the failure is reported by that value; no diagnostic is demanded",
		"a range end column may be one past the last character of its line (exclusive end), and a position on the empty line after a final line break is inside the text",
		"CLI: an error diagnostic is a line of the form '<Art> Fehler (<code>) in <file> (Z: l, S: c)' as printed by ddperror.makeErrorHeader")
	return r.finish("every case is parsed by the real parser.Parse with a collecting handler + kddp's renderer; states = cases executed, transitions = diagnostics delivered and range-checked, distinct_nontrivial = distinct behaviour signatures (set of diagnostic codes x faulty x module/error)")
}

func replayC07(dir string) int {
	if k := os.Getenv("VERIF_MINIMIZE"); k != "" {
		return minimizeReplay(dir, k, c07Keys)
	}
	if _, err := os.Stat(filepath.Join(dir, "cli.json")); err == nil {
		return c07ReplayCLI(dir)
	}
	cs, cleanup, err := fs.LoadReplay(dir)
	if err != nil {
		fmt.Println(err)
		return 2
	}
	defer cleanup()
	x := fs.NewExecutor()
	o := x.Exec(cs)
	printOutcome(cs, o)
	if o.Kind != "" {
		fmt.Printf("C07 replay: the frontend crashed (%s@%s) - C03's business, skipped by C07\n", o.Kind, o.Site)
		return 0
	}
	ks := c07Keys(cs, o)
	if len(ks) > 0 {
		var keys []string
		for k := range ks {
			keys = append(keys, k)
		}
		sort.Strings(keys)
		fmt.Printf("VIOLATION property=C07 replay=%s\n", dir)
		for _, k := range keys {
			fmt.Printf("  key=%s\n  %s\n", k, strings.ReplaceAll(ks[k], "\n", "\n  "))
		}
		return 1
	}
	fmt.Println("C07 replay: property holds on this input")
	return 0
}

func init() {
	checks["C07"] = check{runC07, replayC07}
}
