package main

// C17 — Duden list, text, number and sorting functions meet their specification (shape S).
//
// For every covered Duden function all argument tuples of a bounded, documented domain are enumerated
// (c17_gen*.go); every tuple becomes one tagged call block of a generated DDP driver program that prints
// the result and afterwards every argument variable. The driver is compiled by the compiler under test
// together with the Duden it imports, linked against the ASan build of runtime+stdlib with the allocator
// ledger, and executed. Expected output = internal/dudenmodel (written from the doc comments).
//
// A driver holds ~200 call blocks, selected at run time by the first command line argument:
//   0   run every normal block            -k  run every normal block with number > k (resume after a crash)
//   k   run only block k (used for blocks whose documented outcome is a Laufzeitfehler, and for attribution)

import (
	"fmt"
	"os"
	"path/filepath"
	"regexp"
	"sort"
	"strconv"
	"strings"
	"sync"
	"sync/atomic"
	"unicode/utf8"

	"ddpmc/internal/ev"
	"ddpmc/internal/par"
	"ddpmc/internal/rx"
)

// ---- values ------------------------------------------------------------------------------------------

type ck int

const (
	kZ ck = iota // Zahl
	kK           // Kommazahl
	kW           // Wahrheitswert
	kC           // Buchstabe
	kT           // Text
	kY           // Byte
)

var (
	tyName = [...]string{"Zahl", "Kommazahl", "Wahrheitswert", "Buchstabe", "Text", "Byte"}
	tyList = [...]string{"Zahlen Liste", "Kommazahlen Liste", "Wahrheitswert Liste", "Buchstaben Liste", "Text Liste", "Byte Liste"}
	tyDecl = [...]string{"Die Zahl", "Die Kommazahl", "Der Wahrheitswert", "Der Buchstabe", "Der Text", "Der Byte"}
	tyTag  = [...]string{"Z", "K", "W", "C", "T", "Y"}
)

// el is one scalar value (comparable, so the generic list models can be instantiated with it)
type el struct {
	k ck
	z int64 // Zahl, Byte
	f float64
	w bool
	c rune
	t string
}

type val struct {
	list bool
	k    ck
	e    el
	l    []el
}

func eZ(z int64) el   { return el{k: kZ, z: z} }
func eK(f float64) el { return el{k: kK, f: f} }
func eW(w bool) el    { return el{k: kW, w: w} }
func eC(c rune) el    { return el{k: kC, c: c} }
func eT(t string) el  { return el{k: kT, t: t} }
func eY(b byte) el    { return el{k: kY, z: int64(b)} }

func vS(e el) val         { return val{k: e.k, e: e} }
func vZ(z int64) val      { return vS(eZ(z)) }
func vK(f float64) val    { return vS(eK(f)) }
func vW(w bool) val       { return vS(eW(w)) }
func vC(c rune) val       { return vS(eC(c)) }
func vT(t string) val     { return vS(eT(t)) }
func vL(k ck, l []el) val { return val{list: true, k: k, l: append([]el{}, l...)} }
func vLZ(l []int64) val   { return vL(kZ, mapEl(l, eZ)) }
func vLK(l []float64) val { return vL(kK, mapEl(l, eK)) }
func vLC(l []rune) val    { return vL(kC, mapEl(l, eC)) }
func vLT(l []string) val  { return vL(kT, mapEl(l, eT)) }
func vLY(l []byte) val    { return vL(kY, mapEl(l, eY)) }
func zs(l []el) []int64   { return mapEl(l, func(e el) int64 { return e.z }) }
func ks(l []el) []float64 { return mapEl(l, func(e el) float64 { return e.f }) }
func cs(l []el) []rune    { return mapEl(l, func(e el) rune { return e.c }) }
func ts(l []el) []string  { return mapEl(l, func(e el) string { return e.t }) }
func ys(l []el) []byte    { return mapEl(l, func(e el) byte { return byte(e.z) }) }
func (v val) typ() string { return map[bool][]string{false: tyName[:], true: tyList[:]}[v.list][v.k] }
func (v val) decl() string {
	return map[bool]string{false: tyDecl[v.k], true: "Die " + tyList[v.k]}[v.list]
}
func (v val) tag() string { return map[bool]string{false: "", true: "L"}[v.list] + tyTag[v.k] }

func mapEl[A, B any](l []A, f func(A) B) []B {
	out := make([]B, len(l))
	for i, x := range l {
		out[i] = f(x)
	}
	return out
}

// fmtK = printf("%.16g") in the de_DE locale
func fmtK(f float64) string {
	return strings.Replace(strconv.FormatFloat(f, 'g', 16, 64), ".", ",", 1)
}

func charLit(c rune) string {
	switch c {
	case '\n':
		return `'\n'`
	case '\t':
		return `'\t'`
	case '\r':
		return `'\r'`
	case '\'':
		return `'\''`
	case '\\':
		return `'\\'`
	}
	if c < 33 || (c >= 127 && c < 161) || c == 173 {
		return fmt.Sprintf("(%d als Buchstabe)", c)
	}
	return "'" + string(c) + "'"
}

func textLit(t string) string {
	r := strings.NewReplacer(`\`, `\\`, `"`, `\"`, "\n", `\n`, "\t", `\t`, "\r", `\r`)
	return `"` + r.Replace(t) + `"`
}

// lit: DDP source of the value as an atomic expression
func (e el) lit() string {
	switch e.k {
	case kZ:
		if e.z < 0 {
			return fmt.Sprintf("(%d)", e.z)
		}
		return strconv.FormatInt(e.z, 10)
	case kK:
		s := strings.Replace(strconv.FormatFloat(e.f, 'f', -1, 64), ".", ",", 1)
		if !strings.Contains(s, ",") {
			s += ",0"
		}
		if e.f < 0 {
			return "(" + s + ")"
		}
		return s
	case kW:
		if e.w {
			return "wahr"
		}
		return "falsch"
	case kC:
		return charLit(e.c)
	case kT:
		return textLit(e.t)
	}
	return fmt.Sprintf("(%d als Byte)", e.z)
}

func (v val) lit() string {
	if !v.list {
		return v.e.lit()
	}
	if len(v.l) == 0 {
		return "(eine leere " + tyList[v.k] + ")"
	}
	return "(eine Liste, die aus " + strings.Join(mapEl(v.l, el.lit), ", ") + " besteht)"
}

// render: what the prelude helpers print for the value
func (e el) render() string {
	switch e.k {
	case kZ, kY:
		return strconv.FormatInt(e.z, 10)
	case kK:
		return fmtK(e.f)
	case kW:
		if e.w {
			return "wahr"
		}
		return "falsch"
	case kC:
		return fmt.Sprintf("c%d", e.c)
	}
	return fmt.Sprintf("%d\"%s\"", utf8.RuneCountInString(e.t), e.t)
}

func (v val) render() string {
	if !v.list {
		return v.e.render()
	}
	var b strings.Builder
	fmt.Fprintf(&b, "%d[", len(v.l))
	for _, e := range v.l {
		b.WriteString(e.render() + "|")
	}
	return b.String() + "]"
}

// short human readable form for descriptions
func (v val) String() string {
	if !v.list {
		if v.k == kC {
			return charLit(v.e.c)
		}
		if v.k == kT {
			return textLit(v.e.t)
		}
		return v.e.render()
	}
	return "[" + strings.Join(mapEl(v.l, func(e el) string { return vS(e).String() }), ", ") + "]"
}

// ---- prelude -----------------------------------------------------------------------------------------

func c17Prelude() string {
	var b strings.Builder
	roh := [...]string{
		"\tSchreibe die Zahl x.\n",
		"\tSchreibe die Kommazahl x.\n",
		"\tSchreibe den Wahrheitswert x.\n",
		"\tSchreibe den Buchstaben 'c'.\n\tSchreibe die Zahl (x als Zahl).\n",
		"\tSchreibe die Zahl (die Länge von x).\n\tSchreibe den Buchstaben '\"'.\n\tSchreibe den Text x.\n\tSchreibe den Buchstaben '\"'.\n",
		"\tSchreibe die Zahl (x als Zahl).\n",
	}
	for k := kZ; k <= kY; k++ {
		t := tyTag[k]
		fmt.Fprintf(&b, "Die Funktion c17_roh_%s mit dem Parameter x vom Typ %s, gibt nichts zurück, macht:\n%sUnd kann so benutzt werden:\n\t\"Roh%s <x>\"\n\n", t, tyName[k], roh[k], t)
		fmt.Fprintf(&b, "Die Funktion c17_roh_L%s mit dem Parameter x vom Typ %s, gibt nichts zurück, macht:\n\tSchreibe die Zahl (die Länge von x).\n\tSchreibe den Buchstaben '['.\n"+
			"\tFür jede Zahl i von 1 bis (die Länge von x), mache:\n\t\tRoh%s (x an der Stelle i).\n\t\tSchreibe den Buchstaben '|'.\n\tSchreibe den Buchstaben ']'.\nUnd kann so benutzt werden:\n\t\"RohL%s <x>\"\n\n", t, tyList[k], t, t)
		for _, l := range []string{"", "L"} {
			ty := tyName[k]
			if l == "L" {
				ty = tyList[k]
			}
			fmt.Fprintf(&b, "Die Funktion c17_zeige_%s%s mit den Parametern n und x vom Typ Text und %s, gibt nichts zurück, macht:\n\tSchreibe den Text n.\n\tRoh%s%s x.\n\tSchreibe den Buchstaben '\\n'.\nUnd kann so benutzt werden:\n\t\"Zeige%s%s <n> <x>\"\n\n",
				l, t, ty, l, t, l, t)
		}
	}
	return b.String()
}

// ---- calls -------------------------------------------------------------------------------------------

type c17call struct {
	mod, fn, class string   // Duden module, function, short argument class (together the violation key)
	desc           string   // the call with its argument values
	lines          []string // DDP statements of the block
	expect         string   // expected stdout of the block (after the marker line)
	fehler         bool     // the documentation promises a Laufzeitfehler
	extraMods      []string // further Duden modules the driver statements need
	n              int      // number inside its program (1-based)
	id             int      // global number (enumeration order)
}

func (c *c17call) key() string { return "C17:" + c.mod + "." + c.fn + ":" + c.class }

type arg struct {
	v   val
	lit bool // pass the literal (a temporary) instead of a variable
}

func A(v val) arg { return arg{v, false} }
func T(v val) arg { return arg{v, true} }

type c17gen struct {
	calls    []*c17call
	excluded map[string]int64 // function -> argument tuples outside the determined domain
	perFn    map[string]int
	order    []string
}

func (g *c17gen) skip(mod, fn string) { g.excluded[mod+"."+fn]++ }

func (g *c17gen) add(c *c17call) {
	k := c.mod + "." + c.fn
	if g.perFn[k] == 0 {
		g.order = append(g.order, k)
	}
	g.perFn[k]++
	c.id = len(g.calls)
	g.calls = append(g.calls, c)
}

var argRe = regexp.MustCompile(`\$(\d)`)

func subst(tmpl string, args []arg) string {
	return argRe.ReplaceAllStringFunc(tmpl, func(m string) string {
		i := int(m[1] - '0')
		if args[i].lit {
			return args[i].v.lit()
		}
		return fmt.Sprintf("a%d", i)
	})
}

func describe(fn, tmpl string, args []arg) string {
	s := argRe.ReplaceAllStringFunc(tmpl, func(m string) string { return args[int(m[1]-'0')].v.String() })
	return fn + ": " + s
}

func declsAndShows(args []arg, after map[int]val) (decls []string, shows []string, exp string) {
	for i, a := range args {
		if a.lit {
			continue
		}
		decls = append(decls, fmt.Sprintf("%s a%d ist %s.", a.v.decl(), i, a.v.lit()))
		w := a.v
		if x, ok := after[i]; ok {
			w = x
		}
		shows = append(shows, fmt.Sprintf("Zeige%s \"a%d=\" a%d.", w.tag(), i, i))
		exp += fmt.Sprintf("a%d=%s\n", i, w.render())
	}
	return
}

// stmt adds a call of a function that returns nothing ("Füge $1 an $0 an"); after = values of the
// argument variables afterwards (missing = unchanged). fehler: the doc promises a Laufzeitfehler.
func (g *c17gen) stmt(mod, fn, class, tmpl string, args []arg, after map[int]val, fehler bool) {
	decls, shows, exp := declsAndShows(args, after)
	c := &c17call{mod: mod, fn: fn, class: class, desc: describe(fn, tmpl, args), fehler: fehler}
	c.lines = append(append(decls, subst(tmpl, args)+"."), shows...)
	if fehler {
		c.lines = append(c.lines, `Schreibe den Text "kein Laufzeitfehler\n".`)
		exp = ""
	}
	c.expect = exp
	g.add(c)
}

// expr adds a call of a function that returns a value; ret = the expected result.
func (g *c17gen) expr(mod, fn, class, tmpl string, ret val, args []arg, after map[int]val) {
	decls, shows, exp := declsAndShows(args, after)
	c := &c17call{mod: mod, fn: fn, class: class, desc: describe(fn, tmpl, args)}
	c.lines = append(append(decls, fmt.Sprintf("Zeige%s \"=\" (%s).", ret.tag(), subst(tmpl, args))), shows...)
	c.expect = "=" + ret.render() + "\n" + exp
	g.add(c)
}

// exprFehler: a value-returning function called with arguments for which a Laufzeitfehler is documented
func (g *c17gen) exprFehler(mod, fn, class, tmpl string, retKind val, args []arg) {
	decls, _, _ := declsAndShows(args, nil)
	c := &c17call{mod: mod, fn: fn, class: class, desc: describe(fn, tmpl, args), fehler: true}
	c.lines = append(decls, fmt.Sprintf("Zeige%s \"=\" (%s).", retKind.tag(), subst(tmpl, args)), `Schreibe den Text "kein Laufzeitfehler\n".`)
	g.add(c)
}

// ---- programs ----------------------------------------------------------------------------------------

type c17prog struct {
	calls []*c17call
	no    int
}

func c17Source(calls []*c17call, standalone bool) string {
	mods := map[string]bool{}
	for _, c := range calls {
		mods[c.mod] = true
		for _, m := range c.extraMods {
			mods[m] = true
		}
	}
	var ms []string
	for m := range mods {
		ms = append(ms, m)
	}
	sort.Strings(ms)
	var b strings.Builder
	b.WriteString("Binde \"Duden/Ausgabe\" ein.\n")
	for _, m := range ms {
		fmt.Fprintf(&b, "Binde \"Duden/%s\" ein.\n", m)
	}
	if !standalone {
		b.WriteString("Binde Befehlszeilenargumente aus \"Duden/Laufzeit\" ein.\n")
	}
	b.WriteString("\n" + c17Prelude())
	// every call block is a function of its own (one huge main function makes LLVM's code generation superlinear)
	for _, c := range calls {
		fmt.Fprintf(&b, "[ %s ]\n", strings.NewReplacer("[", "(", "]", ")", "\n", "\\n", "\r", "\\r", "\t", "\\t").Replace(c.desc))
		fmt.Fprintf(&b, "Die Funktion c17_block_%d gibt nichts zurück, macht:\n\tSchreibe den Text \"#%d\\n\".\n", c.n, c.n)
		for _, l := range c.lines {
			b.WriteString("\t" + l + "\n")
		}
		fmt.Fprintf(&b, "Und kann so benutzt werden:\n\t\"Block%d\"\n\n", c.n)
	}
	if !standalone {
		b.WriteString("Die Zahl wahl ist ((die Befehlszeilenargumente) an der Stelle 2) als Zahl.\n\n")
	}
	for _, c := range calls {
		switch {
		case standalone:
			fmt.Fprintf(&b, "Block%d.\n", c.n)
		case c.fehler:
			fmt.Fprintf(&b, "Wenn wahl gleich %d ist, Block%d.\n", c.n, c.n)
		default:
			fmt.Fprintf(&b, "Wenn wahl gleich %d ist oder (wahl kleiner als 1 ist und wahl größer als -%d ist), Block%d.\n", c.n, c.n, c.n)
		}
	}
	return b.String()
}

type c17res struct {
	ran      bool
	ok       bool
	observed string // stdout of the block / of the single run
	how      string // exit class + stderr excerpt when not ok
}

// split the stdout of a driver run into the blocks of the calls (markers "#n\n" in ascending order)
func c17Split(out string, calls []*c17call) map[int]string {
	res := map[int]string{}
	pos := 0
	type mk struct{ n, at, end int }
	var ms []mk
	for _, c := range calls {
		m := fmt.Sprintf("#%d\n", c.n)
		i := strings.Index(out[pos:], m)
		if i < 0 || (pos+i > 0 && out[pos+i-1] != '\n') {
			continue
		}
		ms = append(ms, mk{c.n, pos + i, pos + i + len(m)})
		pos += i + len(m)
	}
	for i, m := range ms {
		end := len(out)
		if i+1 < len(ms) {
			end = ms[i+1].at
		}
		res[m.n] = out[m.end:end]
	}
	return res
}

func c17Judge(c *c17call, r rx.RunResult, block string, single bool) (bool, string) {
	if c.fehler {
		if r.Class() == "laufzeitfehler" && block == "" {
			return true, ""
		}
		return false, fmt.Sprintf("the documentation promises a Laufzeitfehler; the program ended with %s and printed %q", r.Class(), c17cut(block, 200))
	}
	if block != c.expect {
		return false, fmt.Sprintf("ended with %s; stderr: %s", r.Class(), c17cut(strings.TrimSpace(r.Stderr), 300))
	}
	if single && r.Exit != 0 {
		return false, fmt.Sprintf("output as expected but the program ended with %s; stderr: %s", r.Class(), c17cut(strings.TrimSpace(r.Stderr), 300))
	}
	if single {
		if v := memoryVerdict(r); v != "" {
			return false, "memory monitor: " + v
		}
	}
	return true, ""
}

type c17runner struct {
	c      *ev.Ctx
	runs   int64
	builds int64
}

// build compiles main.ddp once and links it twice: against the ASan runtime (normal runs) and against the
// plain runtime (the many single runs that are expected to end in a Laufzeitfehler; an ASan process costs
// ~10x the CPU time of a plain one). Both carry the allocator ledger.
type c17exe struct {
	asan, plain string
}

func (rn *c17runner) build(dir string) (c17exe, rx.BuildResult) {
	atomic.AddInt64(&rn.builds, 1)
	file := filepath.Join(dir, "main.ddp")
	obj := filepath.Join(dir, "main.o")
	bo := ledgerBuild()
	bo.Opt = 1
	var b rx.BuildResult
	for try := 0; try < 4; try++ {
		b = rx.Compile(file, obj, bo)
		if b.OK || (b.Stage != "timeout" && b.Stage != "died") { // a timeout is the loaded machine, not the program
			break
		}
	}
	if !b.OK {
		return c17exe{}, b
	}
	x := c17exe{asan: filepath.Join(dir, "main.asan"), plain: filepath.Join(dir, "main.plain")}
	if ok, log := rx.Link(obj, x.plain, b.Resp.Deps, bo); !ok {
		b.OK, b.Stage, b.Log = false, "link", log
		return x, b
	}
	bo.Asan = true
	if ok, log := rx.Link(obj, x.asan, b.Resp.Deps, bo); !ok {
		b.OK, b.Stage, b.Log = false, "link", log
	}
	return x, b
}

func (rn *c17runner) run(exe string, sel int) rx.RunResult {
	atomic.AddInt64(&rn.runs, 1)
	return rx.RunRobust(exe, rx.RunOpts{NoLimit: true, Args: []string{strconv.Itoa(sel)}, MaxOut: 8 << 20})
}

// runProgram executes all calls of p and returns the calls that did not behave as the model says.
func (rn *c17runner) runProgram(p *c17prog) (bad []*c17call, res map[int]*c17res, buildLog string) {
	dir := rx.Scratch("c17")
	defer os.RemoveAll(dir)
	src := c17Source(p.calls, false)
	rx.WriteFiles(dir, map[string]string{"main.ddp": src})
	if d := os.Getenv("C17_DUMP"); d != "" { // debugging aid
		rx.WriteFiles(d, map[string]string{fmt.Sprintf("prog%04d.ddp", p.no): src})
	}
	exe, b := rn.build(dir)
	if !b.OK {
		d := ""
		for _, x := range b.Resp.Diags {
			d += x.String() + "\n"
		}
		return nil, nil, fmt.Sprintf("build failed at stage %s: %s\n%s", b.Stage, firstLines(b.Log, 8), firstLines(d, 12))
	}
	res = map[int]*c17res{}
	for _, c := range p.calls {
		res[c.n] = &c17res{}
	}
	// normal blocks: one run, resumed after the block that ended the process
	sel, guard := 0, 0
	memBad := false
	for guard = 0; guard <= len(p.calls); guard++ {
		r := rn.run(exe.asan, sel)
		if r.Infra {
			rn.c.Broken("cannot run " + exe.asan + ": " + firstLines(r.Stderr, 2))
			return nil, res, ""
		}
		blocks := c17Split(r.Stdout, p.calls)
		last := -sel
		for _, c := range p.calls {
			if c.fehler || c.n <= -sel {
				continue
			}
			blk, ok := blocks[c.n]
			if !ok {
				continue
			}
			last = c.n
			x := res[c.n]
			x.ran, x.observed = true, blk
			x.ok, x.how = c17Judge(c, r, blk, false)
		}
		if r.Exit == 0 && !r.TimedOut && !r.Truncated && r.Signal == "" {
			if memoryVerdict(r) != "" {
				memBad = true
			}
			break
		}
		if r.Class() != "laufzeitfehler" {
			// killed by ASan / a signal / the timeout: stdout was not flushed, so the block that ended the process is
			// not known. Keep the blocks whose complete expected output was seen; the first other block and everything
			// after it get a process of their own below.
			cut := false
			for _, c := range p.calls {
				if c.fehler || c.n <= -sel {
					continue
				}
				if x := res[c.n]; cut || !(x.ran && x.ok) {
					cut = true
					*x = c17res{}
				}
			}
			break
		}
		// a Laufzeitfehler leaves through exit(): stdout is complete, the process ended inside block `last` (or before the first one)
		if x, ok := res[last]; ok && last > -sel {
			x.ok = false
			x.how = fmt.Sprintf("the program ended inside this block with %s; stderr: %s", r.Class(), c17cut(strings.TrimSpace(r.Stderr), 300))
		} else {
			// nothing ran: find the next normal block and blame it
			next := 0
			for _, c := range p.calls {
				if !c.fehler && c.n > -sel {
					next = c.n
					break
				}
			}
			if next == 0 {
				break
			}
			last = next
			res[next].ran, res[next].ok = true, false
			res[next].how = fmt.Sprintf("the program ended before/inside this block with %s; stderr: %s", r.Class(), c17cut(strings.TrimSpace(r.Stderr), 300))
		}
		more := false
		for _, c := range p.calls {
			if !c.fehler && c.n > last {
				more = true
			}
		}
		if !more {
			break
		}
		sel = -last
	}
	// single runs: documented Laufzeitfehler, every block that failed or never ran, and all blocks if the memory monitors complained
	for _, c := range p.calls {
		x := res[c.n]
		if !(c.fehler || !x.ran || !x.ok || memBad) {
			continue
		}
		one := exe.asan
		if c.fehler {
			one = exe.plain
		}
		r := rn.run(one, c.n)
		blk := c17Split(r.Stdout, []*c17call{c})[c.n]
		ok1, how1 := c17Judge(c, r, blk, true)
		if c.fehler || !x.ran || memBad && x.ok {
			x.ran, x.ok, x.observed, x.how = true, ok1, blk, how1
			continue
		}
		// failed in the batch: keep the failure only if the single run fails too, otherwise mark it batch-only
		if ok1 {
			x.how = "BATCH-ONLY: " + x.how
		} else {
			x.observed, x.how = blk, how1
		}
	}
	for _, c := range p.calls {
		if !res[c.n].ok {
			bad = append(bad, c)
		}
	}
	return bad, res, ""
}

// docComment returns the comment block in front of the declaration of fn in Duden/<mod>.ddp ("" if none).
var docCache sync.Map

func dudenSource(mod string) string {
	if s, ok := docCache.Load(mod); ok {
		return s.(string)
	}
	b, _ := os.ReadFile(filepath.Join(ev.Repo, "lib", "stdlib", "Duden", mod+".ddp"))
	docCache.Store(mod, string(b))
	return string(b)
}

func declIndex(src, fn string) int {
	for _, pre := range []string{"Funktion ", "Konstante "} {
		for _, post := range []string{" ", "\n", ","} {
			if i := strings.Index(src, pre+fn+post); i >= 0 {
				return i
			}
		}
	}
	return -1
}

func docComment(mod, fn string) string {
	src := dudenSource(mod)
	i := declIndex(src, fn)
	if i < 0 {
		return ""
	}
	ls := strings.LastIndex(src[:i], "\n") + 1
	head := strings.TrimRight(src[:ls], " \t\r\n")
	decl := src[ls:]
	if j := strings.Index(decl, "\n\n"); j > 0 {
		decl = decl[:j]
	}
	if !strings.HasSuffix(head, "]") {
		return "(no doc comment)\n\n" + decl
	}
	depth := 0
	for k := len(head) - 1; k >= 0; k-- {
		switch head[k] {
		case ']':
			depth++
		case '[':
			depth--
			if depth == 0 {
				return head[k:] + "\n" + decl
			}
		}
	}
	return decl
}

// confirm builds the standalone single-call program and runs it twice.
func (rn *c17runner) confirm(c *c17call) (reproduced bool, files map[string]string, what string) {
	cc := *c
	cc.n = 1
	src := c17Source([]*c17call{&cc}, true)
	files = map[string]string{"main.ddp": src, "expected.txt": "#1\n" + c.expect, "doc.txt": docComment(c.mod, c.fn)}
	if c.fehler {
		files["expect_laufzeitfehler"] = "the documentation promises a Laufzeitfehler for this call\n"
	}
	dir := rx.Scratch("c17s")
	defer os.RemoveAll(dir)
	rx.WriteFiles(dir, map[string]string{"main.ddp": src})
	exe, b := rn.build(dir)
	if !b.OK {
		return true, files, "the single-call program does not build: " + firstLines(b.Log, 6)
	}
	for i := 0; i < 2; i++ {
		r := rn.run(map[bool]string{true: exe.plain, false: exe.asan}[c.fehler], 0)
		blk := strings.TrimPrefix(r.Stdout, "#1\n")
		ok, how := c17Judge(&cc, r, blk, true)
		files["observed.txt"] = r.Stdout
		files["observed_stderr.txt"] = r.Stderr
		if ok {
			return false, files, ""
		}
		what = how
	}
	return true, files, what
}

func runC17(tier string) int {
	c := ev.New("C17", tier)
	c.Budget(map[string]int{"quick": 420, "thorough": 2400}[tier])
	g := c17Generate(tier)
	if os.Getenv("C17_COUNT") != "" { // debugging aid: print the size of the space and stop
		for _, k := range g.order {
			fmt.Printf("%6d %s (excluded %d)\n", g.perFn[k], k, g.excluded[k])
		}
		fmt.Println(len(g.calls), "calls,", len(g.order), "functions")
		return 0
	}
	// every covered function must exist in the Duden of the tree under test
	for _, k := range g.order {
		mod, fn, _ := strings.Cut(k, ".")
		if fn != konst && declIndex(dudenSource(mod), fn) < 0 {
			c.Broken("covered function " + k + " not found in lib/stdlib/Duden/" + mod + ".ddp")
		}
	}
	// pack ~per calls per program. Layer 0 = an evenly strided sample of ~16 calls of every function (small and
	// large cases alike), executed first, so that a run that hits its deadline on a loaded machine has still seen
	// every function; layer 1 = all other calls in enumeration order (grouped by function).
	per := 120
	{
		seen := map[string]int{}
		var l0, l1 []*c17call
		for _, cl := range g.calls {
			k := cl.mod + "." + cl.fn
			stride := (g.perFn[k] + 15) / 16
			if seen[k]%stride == 0 {
				l0 = append(l0, cl)
			} else {
				l1 = append(l1, cl)
			}
			seen[k]++
		}
		// keep program boundaries between the layers
		for len(l0)%per != 0 && len(l1) > 0 {
			l0, l1 = append(l0, l1[0]), l1[1:]
		}
		g.calls = append(l0, l1...)
	}
	var progs []*c17prog
	for i := 0; i < len(g.calls); i += per {
		p := &c17prog{calls: g.calls[i:min(i+per, len(g.calls))], no: len(progs)}
		for j, cl := range p.calls {
			cl.n = j + 1
		}
		progs = append(progs, p)
	}
	// order of execution: the first program of every function first, then the second ones, ... so that a run that
	// hits its deadline on a loaded machine has still seen the small cases of every function
	rank := map[string]int{}
	type ordp struct {
		p    *c17prog
		rank int
	}
	var ord []ordp
	layer0 := 0
	for k := range g.perFn {
		layer0 += (g.perFn[k] + (g.perFn[k]+15)/16 - 1) / ((g.perFn[k] + 15) / 16)
	}
	for _, p := range progs {
		if p.no*per < layer0 {
			ord = append(ord, ordp{p, -1})
			continue
		}
		k := p.calls[0].mod + "." + p.calls[0].fn
		ord = append(ord, ordp{p, rank[k]})
		rank[k]++
	}
	sort.SliceStable(ord, func(i, j int) bool { return ord[i].rank < ord[j].rank })
	for i := range ord {
		progs[i] = ord[i].p
	}
	rn := &c17runner{c: c}
	var mu sync.Mutex
	type failure struct {
		c *c17call
		r *c17res
		p *c17prog
	}
	var fails []failure
	var doneCalls, fehlerCalls int64
	distinct := map[string]bool{}
	par.Each(progs, 0, func(_ int, p *c17prog) {
		if c.Expired() {
			c.Capped(fmt.Sprintf("deadline: program %d (%d calls, first %s) skipped", p.no, len(p.calls), p.calls[0].fn))
			return
		}
		bad, res, blog := rn.runProgram(p)
		if blog != "" {
			c.Violation("C17:build:"+p.calls[0].mod+"."+p.calls[0].fn, fmt.Sprintf("driver program %d (functions %s … %s) does not build\n%s", p.no, p.calls[0].fn, p.calls[len(p.calls)-1].fn, blog),
				map[string]string{"main.ddp": c17Source(p.calls, false), "args.txt": "0\n"})
			return
		}
		if res == nil {
			return
		}
		mu.Lock()
		for _, cl := range p.calls {
			doneCalls++
			if cl.fehler {
				fehlerCalls++
			}
			distinct[cl.fn+"\x00"+cl.expect] = true
		}
		for _, cl := range bad {
			fails = append(fails, failure{cl, res[cl.n], p})
		}
		mu.Unlock()
	})
	// group by key, confirm the first call (enumeration order) of every key
	sort.Slice(fails, func(i, j int) bool { return fails[i].c.id < fails[j].c.id })
	byKey := map[string][]failure{}
	var keys []string
	for _, f := range fails {
		k := f.c.key()
		if strings.HasPrefix(f.r.how, "BATCH-ONLY: ") {
			k = "C17:batch-only:" + f.c.mod + "." + f.c.fn + ":" + f.c.class
		}
		if len(byKey[k]) == 0 {
			keys = append(keys, k)
		}
		byKey[k] = append(byKey[k], f)
	}
	par.Each(keys, 0, func(_ int, k string) {
		fl := byKey[k]
		f := fl[0]
		if c.IsKnown(k) {
			c.Violation(k, "", nil)
			return
		}
		head := fmt.Sprintf("%s.%s  —  %s\n%d call(s) of this class disagree with the model; first (minimal) one shown\nexpected:\n%s\nobserved:\n%s\n", f.c.mod, f.c.fn, f.c.desc, len(fl),
			c17cut("#1\n"+f.c.expect, 500), c17cut("#1\n"+f.r.observed, 500))
		if f.c.fehler {
			head = fmt.Sprintf("%s.%s  —  %s\n%d call(s) of this class disagree with the model; first (minimal) one shown\nexpected: a Laufzeitfehler (documented)\nobserved:\n%s\n", f.c.mod, f.c.fn, f.c.desc, len(fl), c17cut(f.r.observed, 500))
		}
		if strings.HasPrefix(k, "C17:batch-only:") {
			c.Violation(k, head+"fails only inside the batch program (call number "+strconv.Itoa(f.c.n)+")\n"+f.r.how,
				map[string]string{"main.ddp": c17Source(f.p.calls, false), "args.txt": "0\n", "expected.txt": "#" + strconv.Itoa(f.c.n) + "\n" + f.c.expect, "block.txt": strconv.Itoa(f.c.n) + "\n", "doc.txt": docComment(f.c.mod, f.c.fn)})
			return
		}
		rep, files, what := rn.confirm(f.c)
		if !rep {
			c.Add("flaky_not_reported", 1)
			return
		}
		c.Violation(k, head+what+"\n\ndocumentation:\n"+c17cut(files["doc.txt"], 900), files)
	})
	var covered []string
	perMod := map[string]int{}
	for _, k := range g.order {
		covered = append(covered, fmt.Sprintf("%s (%d)", k, g.perFn[k]))
		mod, _, _ := strings.Cut(k, ".")
		perMod[mod]++
	}
	var excl int64
	for _, n := range g.excluded {
		excl += n
	}
	c.Set("covered_functions", covered)
	c.Set("covered_functions_per_module", perMod)
	c.Set("covered_function_count", len(g.order))
	c.Set("excluded_unspecified", excl)
	c.Set("excluded_unspecified_per_function", g.excluded)
	c.Set("left_out", c17LeftOut)
	c.Set("calls", len(g.calls))
	c.Set("calls_executed", doneCalls)
	c.Set("calls_expecting_laufzeitfehler", fehlerCalls)
	c.Set("programs", len(progs))
	c.Set("program_builds", rn.builds)
	c.Set("program_runs", rn.runs)
	c.Set("calls_disagreeing", len(fails))
	c.Set("evaluations", doneCalls)
	c.Set("states", doneCalls)
	c.Set("transitions", rn.runs)
	c.Set("traces_validated_against_impl", doneCalls)
	c.Set("distinct_nontrivial", len(distinct))
	c.Set("rule", "state = one call of a covered Duden function with one argument tuple of its documented domain (value variant with temporaries and Referenz/variable variant); the driver prints the result and all argument variables afterwards; stdout, exit status (documented Laufzeitfehler), the allocator ledger and ASan are compared with internal/dudenmodel")
	c.Set("bounds", c17Bounds(tier))
	if len(g.calls) > 0 {
		for _, i := range []int{len(g.calls) / 7, len(g.calls) / 2, len(g.calls) * 6 / 7} {
			c.Sample(map[string]any{"call": g.calls[i].desc, "key": g.calls[i].key(), "expected": g.calls[i].expect})
		}
	}
	c.Assume(c17Assumptions...)
	return c.Finish()
}

func replayC17(dir string) int {
	d := rx.Scratch("c17r")
	defer os.RemoveAll(d)
	src, err := os.ReadFile(filepath.Join(dir, "main.ddp"))
	if err != nil {
		fmt.Println("replay: no main.ddp in", dir)
		return 2
	}
	rx.WriteFiles(d, map[string]string{"main.ddp": string(src)})
	exp, _ := os.ReadFile(filepath.Join(dir, "expected.txt"))
	_, errF := os.Stat(filepath.Join(dir, "expect_laufzeitfehler"))
	wantFehler := errF == nil
	sel := "0"
	if a, err := os.ReadFile(filepath.Join(dir, "args.txt")); err == nil {
		sel = strings.TrimSpace(string(a))
	}
	bo := ledgerBuild()
	bo.Opt, bo.Asan = 1, true
	b := rx.Build(d, "main.ddp", bo)
	if !b.OK {
		fmt.Printf("VIOLATION property=C17 replay=%s\n  build failed: %s\n", dir, firstLines(b.Log, 5))
		return 1
	}
	r := rx.RunRobust(b.Exe, rx.RunOpts{NoLimit: true, Args: []string{sel}, MaxOut: 8 << 20})
	got := r.Stdout
	if blk, err := os.ReadFile(filepath.Join(dir, "block.txt")); err == nil { // batch-only: compare one block
		n, _ := strconv.Atoi(strings.TrimSpace(string(blk)))
		m := fmt.Sprintf("#%d\n", n)
		if i := strings.Index(got, m); i >= 0 {
			got = got[i:]
			if j := strings.Index(got[len(m):], "\n#"); j >= 0 {
				got = got[:len(m)+j+1]
			}
		}
	}
	bad := ""
	switch {
	case wantFehler && (r.Class() != "laufzeitfehler" || got != string(exp)):
		bad = fmt.Sprintf("a Laufzeitfehler is documented; the program ended with %s and printed %q", r.Class(), c17cut(got, 300))
	case !wantFehler && got != string(exp):
		bad = fmt.Sprintf("stdout differs (ended with %s)\n  expected: %q\n  observed: %q", r.Class(), c17cut(string(exp), 300), c17cut(got, 300))
	case !wantFehler && r.Exit != 0:
		bad = "ended with " + r.Class() + ": " + c17cut(r.Stderr, 300)
	case !wantFehler && memoryVerdict(r) != "":
		bad = "memory monitor: " + memoryVerdict(r)
	}
	if bad != "" {
		fmt.Printf("VIOLATION property=C17 replay=%s\n  %s\n", dir, bad)
		return 1
	}
	fmt.Println("C17 replay: behaves as the dudenmodel prescribes")
	return 0
}

func init() { checks["C17"] = check{runC17, replayC17} }

// c17cut: the first n runes, unquoted (reports quote German text and DDP source)
func c17cut(s string, n int) string {
	r := []rune(s)
	if len(r) > n {
		return string(r[:n]) + "…"
	}
	return s
}
