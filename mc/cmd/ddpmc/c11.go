package main

// C11 — optimisation level and link mode do not change program behaviour (shape S, differential).
// Every program of the corpus (upstream goldens incl. their imported modules and Duden-using stdlib
// goldens, and the batch programs of the C01 statement/function, C05 ownership and C08 aliasing
// families) is built in all 12 configurations {-O0,-O1,-O2} × {modules linked, separate} ×
// {list definitions linked, separate}; stdout, exit status and error class must be identical, and
// equal to the cdm prediction where one exists.

import (
	"fmt"
	"os"
	"path/filepath"
	"sort"
	"strings"
	"sync"

	"ddpmc/internal/batch"
	. "ddpmc/internal/cdm"
	"ddpmc/internal/ev"
	"ddpmc/internal/par"
	"ddpmc/internal/rx"
)

type c11Prog struct {
	name     string
	files    map[string]string // relative path -> content (nil: copy from srcDir)
	srcDir   string            // directory tree to copy (goldens)
	mainRel  string            // main file relative to the scratch dir
	stdin    string
	expected *string // cdm / golden prediction of stdout (nil = differential only)
}

type c11Config struct {
	opt              uint
	sepMods, sepList bool
}

func (c c11Config) String() string {
	return fmt.Sprintf("O%d/modules-%s/listdefs-%s", c.opt, map[bool]string{false: "linked", true: "separate"}[c.sepMods], map[bool]string{false: "linked", true: "separate"}[c.sepList])
}

// c11DiffTag names what the deviating configurations have in common, independently of which
// configurations the tier explores: "modules-separate" (exactly the configurations with separately
// compiled modules deviate), "O<n>" (exactly those of one optimisation level), "listdefs-separate";
// otherwise the first deviating configuration.
func c11DiffTag(all, diff []c11Config, first string) string {
	exactly := func(pred func(c11Config) bool) bool {
		n := 0
		for _, c := range all[1:] {
			if pred(c) {
				n++
			}
		}
		if n != len(diff) || pred(all[0]) {
			return false
		}
		for _, c := range diff {
			if !pred(c) {
				return false
			}
		}
		return true
	}
	if exactly(func(c c11Config) bool { return c.sepMods }) {
		return "modules-separate"
	}
	for _, o := range []uint{0, 1, 2} {
		if exactly(func(c c11Config) bool { return c.opt == o }) {
			return fmt.Sprintf("O%d", o)
		}
	}
	if exactly(func(c c11Config) bool { return c.sepList }) {
		return "listdefs-separate"
	}
	return first
}

func c11Configs(tier string) []c11Config {
	var out []c11Config
	for _, o := range []uint{0, 1, 2} {
		for _, sm := range []bool{false, true} {
			for _, sl := range []bool{false, true} {
				if sm && !sl {
					// list definitions linked into EVERY separately compiled module cannot be linked into one
					// executable (duplicate symbols by construction): not a buildable configuration
					continue
				}
				if tier == "quick" && !(o == 1 || (!sm && !sl) || (o == 0 && sm)) {
					// quick: O0/O2 in the default link mode, all link modes at O1, and O0 with separately
					// compiled modules — the one configuration that runs no LLVM pass at all
					continue
				}
				out = append(out, c11Config{o, sm, sl})
			}
		}
	}
	return out
}

func c11Corpus(tier string) []c11Prog {
	var out []c11Prog
	for _, root := range []string{"tests/testdata/kddp", "tests/testdata/stdlib"} {
		abs := filepath.Join(ev.Repo, root)
		for _, g := range listGoldens(abs) {
			if strings.Contains(root, "stdlib") {
				switch strings.Split(g.Name, "/")[0] {
				case "Komprimierung", "Regex", "Uri", "duden_parsing", "Zufall", "Dateisystem", "Eingabe", "Umgebungsvariablen", "Befehlszeile", "Pfade":
					continue // need libraries absent here / depend on environment, time or randomness
				}
			}
			top := strings.Split(g.Name, string(filepath.Separator))[0]
			exp := g.Expected
			out = append(out, c11Prog{name: "golden:" + filepath.Base(root) + "/" + g.Name, srcDir: filepath.Join(abs, top), mainRel: filepath.Join(g.Name, g.Main), stdin: g.Input, expected: &exp})
		}
	}
	addFamily := func(fam string, cases []*batch.Case, size int, group func(key string) string) {
		groups := map[string][]*batch.Case{}
		var order []string
		for _, cs := range cases {
			if cs.ArgSets != nil {
				continue
			}
			p := batch.ProgramOf([]*batch.Case{cs}, false)
			if o, un := p.Run(); un == nil && !o.RtErr {
				g := group(cs.Key)
				if _, ok := groups[g]; !ok {
					order = append(order, g)
				}
				groups[g] = append(groups[g], cs)
			}
		}
		for _, g := range order {
			ok := groups[g]
			for i := 0; i < len(ok); i += size {
				j := i + size
				if j > len(ok) {
					j = len(ok)
				}
				p := batch.ProgramOf(ok[i:j], true)
				o, un := p.Run()
				if un != nil {
					continue
				}
				exp := o.Stdout
				out = append(out, c11Prog{name: fmt.Sprintf("%s:%s:batch%d", fam, g, i/size), files: map[string]string{"main.ddp": p.Source()}, mainRel: "main.ddp", expected: &exp})
			}
		}
	}
	byKind := func(key string) string { // first key component = value kind; the by-value-global scenario gets its own group
		k := strings.SplitN(key, ":", 2)[0]
		if strings.Contains(key, "value-arg-global-mutated") {
			return k + "-value-arg-global-mutated"
		}
		return k
	}
	flat := func(string) string { return "all" }
	// differential-only programs: behaviour the reference semantics leaves open (bounds, steps and loop
	// variables changed by the loop body, side effects in conditions) must still be the same in every configuration
	for i, src := range c11OpenSemantics {
		out = append(out, c11Prog{name: fmt.Sprintf("open:%d", i), files: map[string]string{"main.ddp": "Binde \"Duden/Ausgabe\" ein.\n" + src}, mainRel: "main.ddp"})
	}
	addFamily("stmt", genStmts(), 40, flat)
	addFamily("func", genFuncs(), 20, flat)
	addFamily("own", genC05(), 25, byKind)
	addFamily("alias", genC08(), 25, byKind)
	if tier == "thorough" {
		addFamily("cell", genCells(domQuick), 60, flat)
	}
	_ = Zahl
	return out
}

type c11Obs struct {
	stdout string
	exit   int
	class  string
	build  string
}

func runC11(tier string) int {
	c := ev.New("C11", tier)
	c.Budget(map[string]int{"quick": 600, "thorough": 3300}[tier])
	corpus := c11Corpus(tier)
	cfgs := c11Configs(tier)
	var mu sync.Mutex
	var builds, runs, progsDone int64
	outcomes := map[string]bool{}
	known := map[string]bool{}
	par.Each(corpus, 0, func(_ int, p c11Prog) {
		if c.Expired() {
			c.Capped("deadline: remaining programs skipped")
			return
		}
		dir := rx.Scratch("c11")
		defer os.RemoveAll(dir)
		if p.srcDir != "" {
			copyTree(p.srcDir, filepath.Join(dir, filepath.Base(p.srcDir)))
		} else {
			rx.WriteFiles(dir, p.files)
		}
		mainAbs := filepath.Join(dir, p.mainRel)
		obs := map[c11Config]c11Obs{}
		for _, cfg := range cfgs {
			var b rx.BuildResult
			bo := rx.BuildOpts{Opt: cfg.opt, NoLinkLists: cfg.sepList}
			if cfg.sepMods {
				b = rx.BuildSeparate(filepath.Dir(mainAbs), filepath.Base(mainAbs), bo)
			} else {
				b = rx.Build(filepath.Dir(mainAbs), filepath.Base(mainAbs), bo)
			}
			mu.Lock()
			builds++
			mu.Unlock()
			if !b.OK {
				obs[cfg] = c11Obs{build: b.Stage + ": " + firstLines(b.Log, 3)}
				continue
			}
			r := rx.RunRobust(b.Exe, rx.RunOpts{Stdin: p.stdin, Dir: filepath.Dir(mainAbs)})
			if r.Infra {
				c.Broken("could not execute " + b.Exe + ": " + r.Stderr)
				return
			}
			mu.Lock()
			runs++
			mu.Unlock()
			os.Remove(b.Exe)
			os.Remove(b.Obj)
			obs[cfg] = c11Obs{stdout: r.Stdout + r.Stderr, exit: r.Exit, class: r.Class()}
		}
		// compare all configurations with the first one
		ref := obs[cfgs[0]]
		diffs := []string{}
		var diffCfgs []c11Config
		for _, cfg := range cfgs[1:] {
			if obs[cfg] != ref {
				diffs = append(diffs, cfg.String())
				diffCfgs = append(diffCfgs, cfg)
			}
		}
		mu.Lock()
		progsDone++
		outcomes[ref.class] = true
		mu.Unlock()
		if len(diffs) > 0 {
			detail := ""
			for _, cfg := range cfgs {
				o := obs[cfg]
				detail += fmt.Sprintf("%-40s build=%q exit=%d class=%s stdout=%q\n", cfg, o.build, o.exit, o.class, firstRunes(o.stdout, 80))
			}
			sort.Strings(diffs)
			files := map[string]string{"configs.txt": detail}
			if p.files != nil {
				files["main.ddp"] = p.files["main.ddp"]
			} else {
				files["source_dir.txt"] = p.srcDir + "\n" + p.mainRel
			}
			c.Violation("C11:differs:"+p.name+":"+c11DiffTag(cfgs, diffCfgs, diffs[0]), "program "+p.name+" behaves differently in "+strings.Join(diffs, ", ")+" than in "+cfgs[0].String()+"\n"+detail, files)
		} else if p.expected != nil && ref.build == "" && (ref.stdout != *p.expected || ref.exit != 0) {
			// equally wrong everywhere: not C11's finding (C01/C05/C08 own it), but it must not stay silent
			mu.Lock()
			known["all configurations differ from the prediction: "+p.name] = true
			mu.Unlock()
		}
	})
	kl := []string{}
	for k := range known {
		kl = append(kl, k)
	}
	sort.Strings(kl)
	c.Set("all_configs_equal_but_not_predicted", kl)
	c.Set("programs", progsDone)
	c.Set("configurations", len(cfgs))
	c.Set("evaluations", builds)
	c.Set("states", progsDone*int64(len(cfgs)))
	c.Set("transitions", runs)
	c.Set("traces_validated_against_impl", runs)
	c.Set("distinct_nontrivial", progsDone)
	c.Set("rule", "state = (program, configuration); all configurations of one program must show identical stdout+stderr, exit status and error class; programs = upstream goldens (with imports, Duden) and the batch programs of the C01/C05/C08 families; distinct_nontrivial = programs completed")
	cl := []string{}
	for _, cf := range cfgs {
		cl = append(cl, cf.String())
	}
	c.Set("bounds", map[string]any{"configs": cl, "corpus_programs": len(corpus)})
	c.Sample(map[string]any{"program": corpus[0].name, "configs": cl})
	c.Sample(map[string]any{"program": corpus[len(corpus)-1].name})
	c.Assume("'not linked' is driven as a user must: every module of the import closure compiled with LinkInModules=false, duplicate ddp_ddpmain removed from non-main objects with objcopy -N, gcc links all objects",
		"stdlib goldens needing pcre2/libarchive or depending on files/env/time/randomness are excluded")
	return c.Finish()
}

func init() { checks["C11"] = check{runC11, nil} }

var c11OpenSemantics = []string{
	`Die Zahl n ist 6.
Für jede Zahl i von 1 bis n, mache:
	Schreibe die Zahl i.
	Verringere n um 1.
Schreibe die Zahl n.
`,
	`Die Zahlen Liste l ist eine Liste, die aus 1, 2 besteht.
Für jede Zahl i von 1 bis die Länge von l, mache:
	Wenn i kleiner als 4 ist, Speichere l verkettet mit i in l.
	Schreibe die Zahl i.
Schreibe die Zahl (die Länge von l).
`,
	`Die Zahl s ist 1.
Für jede Zahl i von 1 bis 20 mit Schrittgröße s, mache:
	Schreibe die Zahl i.
	Schreibe den Buchstaben ' '.
	Erhöhe s um 1.
`,
	`Für jede Zahl i von 1 bis 10, mache:
	Schreibe die Zahl i.
	Schreibe den Buchstaben ' '.
	Erhöhe i um 2.
`,
	`Die Zahl n ist 3.
Die Funktion grenze gibt eine Zahl zurück, macht:
	Schreibe den Buchstaben 'g'.
	Gib 3 zurück.
Und kann so benutzt werden:
	"die Grenze"
Für jede Zahl i von 1 bis (die Grenze), mache:
	Schreibe die Zahl i.
`,
	`Der Text t ist "ab".
Für jede Zahl i von 1 bis die Länge von t, mache:
	Wenn i kleiner als 5 ist, Speichere t verkettet mit 'x' in t.
	Schreibe die Zahl i.
Schreibe den Text t.
`,
	`Die Kommazahl k ist 2,0.
Für jede Kommazahl x von 0,0 bis k mit Schrittgröße 0,5, mache:
	Schreibe die Kommazahl x.
	Schreibe den Buchstaben ' '.
	Verringere k um 0,25.
`,
	`Die Zahl n ist 4.
Wiederhole:
	Schreibe die Zahl n.
	Verringere n um 1.
n Mal.
Schreibe die Zahl n.
`,
	`Die Zahlen Liste l ist eine Liste, die aus 1, 2, 3 besteht.
Für jede Zahl z in l, mache:
	Schreibe die Zahl z.
	Speichere l verkettet mit z in l.
Schreibe die Zahl (die Länge von l).
`,
	// an operation that must stop the program although its result is never used: the run-time error is
	// observable behaviour, no configuration may remove the operation
	`Der Text t ist "abc".
Schreibe den Text "vor".
Der Buchstabe b ist t an der Stelle 7.
Schreibe den Text "nach".
`,
	`Die Zahlen Liste l ist eine Liste, die aus 1, 2, 3 besteht.
Schreibe den Text "vor".
Die Zahl z ist l an der Stelle 0.
Schreibe den Text "nach".
`,
	`Die Text Liste l ist eine Liste, die aus "a", "b" besteht.
Schreibe den Text "vor".
Der Text u ist l an der Stelle 3.
Schreibe den Text "nach".
`,
	`Die Variable v ist "text" als Variable.
Schreibe den Text "vor".
Die Zahl z ist v als Zahl.
Schreibe den Text "nach".
`,
	`Der Text t ist "abc".
Die Funktion nimm mit dem Parameter b vom Typ Buchstabe, gibt nichts zurück, macht:
	Schreibe den Text "in nimm".
Und kann so benutzt werden:
	"nimm <b>"
Schreibe den Text "vor".
nimm (t an der Stelle 4).
Schreibe den Text "nach".
`,
	`Der Text t ist "abc".
Schreibe den Text "vor".
Wenn (t an der Stelle 9) gleich 'a' ist oder wahr, Schreibe den Text "dann".
Schreibe den Text "nach".
`,
	`Die Zahlen Liste l ist eine leere Zahlen Liste.
Die Zahl i ist 1.
Schreibe den Text "vor".
Solange i kleiner als 3 ist, mache:
	Die Zahl z ist l an der Stelle i.
	Erhöhe i um 1.
Schreibe den Text "nach".
`,
	`Der Text t ist "äö".
Schreibe den Text "vor".
Der Text u ist t im Bereich von 2 bis 1.
Schreibe den Text "nach".
`,
}
