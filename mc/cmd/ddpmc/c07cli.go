package main

// C07 rule (iv): the real kddp binary on a small subset - every single-token deletion of 6 small seed
// programs plus representative ill-formed / warning-only programs:
//   exit != 0  <=>  stderr shows an error diagnostic ("... Fehler (code) in file (Z: l, S: c)");
//   exit != 0   =>  no non-empty output executable is left behind;
//   exit == 0   =>  the executable exists and can be run.
// A failure that kddp reports through an error message instead of a diagnostic (invalid UTF-8: the
// scanner's error value; a failing link step) is accepted for "exit != 0 => error shown" as long as
// stderr says "Fehler". "Unerwarteter Fehler" (a compiler crash) is C03's business: counted, skipped.

import (
	"encoding/json"
	"fmt"
	"os"
	"path/filepath"
	"regexp"
	"sort"
	"strings"
	"sync"
	"sync/atomic"
	"time"

	fs "ddpmc/internal/frontspace"
	"ddpmc/internal/par"
	"ddpmc/internal/rx"
)

var c07Seeds = []struct{ name, src string }{
	{"hallo", "Binde \"Duden/Ausgabe\" ein.\nSchreibe \"Hallo\" auf eine Zeile.\n"},
	{"variable", "Binde \"Duden/Ausgabe\" ein.\nDie Zahl z ist 2 plus 3.\nSchreibe z auf eine Zeile.\n"},
	{"wenn", "Binde \"Duden/Ausgabe\" ein.\nDie Zahl z ist 1.\nWenn z gleich 1 ist, Schreibe \"eins\" auf eine Zeile.\nSonst Schreibe \"nicht\" auf eine Zeile.\n"},
	{"funktion", "Die Funktion doppelt mit dem Parameter a vom Typ Zahl, gibt eine Zahl zurück, macht:\n\tGib a mal 2 zurück.\nUnd kann so benutzt werden:\n\t\"das Doppelte von <a>\"\nDie Zahl d ist das Doppelte von 4.\n"},
	{"schleife", "Die Zahl s ist 0.\nFür jede Zahl i von 1 bis 3, mache:\n\tErhöhe s um i.\n"},
	{"liste", "Die Zahlen Liste l ist eine Liste, die aus 1, 2, 3 besteht.\nDie Zahl e ist l an der Stelle 2.\nDer Buchstabe b ist 'x'.\n"},
}

var c07Representatives = []struct{ name, src string }{
	{"ok-empty", ""},
	{"warning-only-todo", "Die Funktion spaeter gibt nichts zurück, macht:\n\t...\nUnd kann so benutzt werden:\n\t\"spaeter\"\n"},
	{"lowercase-sentence-start", "die Zahl x ist 1.\n"},
	{"lowercase-after-dot", "Die Zahl x ist 1. die Zahl y ist 2.\n"},
	{"char-literal-too-long", "Der Buchstabe b ist 'ab'.\n"},
	{"unknown-escape", "Der Text t ist \"a\\qb\".\n"},
	{"undefined-name", "Die Zahl x ist y.\n"},
	{"type-mismatch", "Die Zahl x ist \"text\".\n"},
	{"missing-dot", "Die Zahl x ist 1\n"},
	{"error-at-first-token", ". Die Zahl x ist 1.\n"},
	{"error-at-last-token", "Die Zahl x ist 1. Die\n"},
	{"unterminated-text", "Der Text t ist \"abc\n"},
	{"missing-import", "Binde \"gibtesnicht\" ein.\n"},
	{"invalid-utf8", "Die Zahl x ist 1.\xff\n"},
	{"error-in-alias", "Die Funktion f gibt nichts zurück, macht:\n\tVerlasse die Funktion.\nUnd kann so benutzt werden:\n\t\"f <a>\"\n"},
	{"forward-decl-without-def", "Die Funktion f gibt nichts zurück, wird später definiert\nUnd kann so benutzt werden:\n\t\"f\"\n"},
	{"global-return", "Gib 1 zurück.\n"},
	{"generic-instantiation-error", "Die generische Funktion g mit dem Parameter a vom Typ T, gibt ein T zurück, macht:\n\tGib a plus 1 zurück.\nUnd kann so benutzt werden:\n\t\"g <a>\"\nDer Text t ist g \"x\".\n"},
}

var diagHeaderRe = regexp.MustCompile(`(?m)Fehler \(\d{4}\) in .* \(Z: \d+, S: \d+\)`)

type c07CLIResult struct {
	key, what string
	skipped   string
}

// c07RunCLI compiles src with the real kddp in a fresh directory and applies rule (iv).
func c07RunCLI(base, name, src string) c07CLIResult {
	dir := filepath.Join(base, name)
	os.RemoveAll(dir)
	rx.WriteFiles(dir, map[string]string{"x.ddp": src})
	defer os.RemoveAll(dir)
	exit, _, stderr, timedOut := rx.CLI(dir, "kompiliere", "x.ddp", "-o", "x")
	if timedOut {
		return c07CLIResult{skipped: "kddp-timeout"}
	}
	if strings.Contains(stderr, "Unerwarteter Fehler") || strings.Contains(stderr, "goroutine ") || exit < 0 || exit > 1 {
		return c07CLIResult{skipped: "compiler-crash(C03)"}
	}
	hasDiag := diagHeaderRe.MatchString(stderr)
	exe := filepath.Join(dir, "x")
	st, statErr := os.Stat(exe)
	excerpt := stderr
	if len(excerpt) > 500 {
		excerpt = excerpt[:500] + "…"
	}
	switch {
	case exit == 0 && hasDiag:
		code := diagHeaderRe.FindString(stderr)
		code = code[strings.Index(code, "(")+1 : strings.Index(code, ")")]
		return c07CLIResult{key: "C07:cli:exit0-with-error-diagnostic:" + code, what: fmt.Sprintf("kddp kompiliere printed an error diagnostic but exited 0 (executable produced: %v)\nstderr: %s", statErr == nil, excerpt)}
	case exit != 0 && !hasDiag && strings.Contains(stderr, "Fehlerhafter Quellcode"):
		// the module was marked faulty although no error diagnostic was printed (e.g. warnings only)
		return c07CLIResult{key: "C07:cli:faulty-without-error-diagnostic", what: fmt.Sprintf("kddp kompiliere exited %d because the module is faulty, but no error diagnostic was printed\nstderr: %s", exit, excerpt)}
	case exit != 0 && !strings.Contains(stderr, "Fehler"):
		return c07CLIResult{key: "C07:cli:failure-without-message", what: fmt.Sprintf("kddp kompiliere exited %d without reporting any error\nstderr: %q", exit, excerpt)}
	case exit != 0 && statErr == nil && st.Size() > 0:
		return c07CLIResult{key: "C07:cli:executable-left-after-failure", what: fmt.Sprintf("kddp kompiliere exited %d but left a %d byte output file\nstderr: %s", exit, st.Size(), excerpt)}
	case exit == 0 && (statErr != nil || st.Size() == 0):
		return c07CLIResult{key: "C07:cli:exit0-without-executable", what: "kddp kompiliere exited 0 but produced no executable\nstderr: " + excerpt}
	case exit == 0:
		res := rx.Run(exe, rx.RunOpts{Timeout: 5 * time.Second})
		if res.Exit == -2 || strings.Contains(res.Stderr, "run error") {
			return c07CLIResult{key: "C07:cli:executable-does-not-run", what: "kddp kompiliere exited 0 but the executable cannot be started: " + res.Stderr}
		}
	}
	return c07CLIResult{}
}

func c07CLI(r *frontRun, tier string) {
	if os.Getenv("VERIF_SPACES") != "" && !strings.Contains(os.Getenv("VERIF_SPACES"), "cli") {
		return
	}
	type job struct{ name, src, note string }
	var jobs []job
	for _, p := range c07Representatives {
		jobs = append(jobs, job{"rep-" + p.name, p.src, "representative " + p.name})
	}
	for _, s := range c07Seeds {
		jobs = append(jobs, job{"seed-" + s.name, s.src, "seed " + s.name + " unmodified"})
		toks, ok := fs.Tokenize([]byte(s.src))
		if !ok {
			r.c.Broken("CLI seed does not scan: " + s.name)
			return
		}
		for i, t := range toks {
			jobs = append(jobs, job{fmt.Sprintf("seed-%s-del%02d", s.name, i), s.src[:t.S] + s.src[t.E:], fmt.Sprintf("seed %s without token %d %q", s.name, i, s.src[t.S:t.E])})
		}
	}
	base := filepath.Join(r.scratch, "cli")
	var mu sync.Mutex
	found := map[string]job{}
	what := map[string]string{}
	counts := map[string]int64{}
	skipped := map[string]int64{}
	var ran, failed, succeeded int64
	if r.c.Expired() {
		r.c.Capped(fmt.Sprintf("cli: not started (%d programs)", len(jobs)))
		return
	}
	var skippedBudget int64
	par.Each(jobs, 4, func(i int, j job) {
		if r.c.Expired() {
			atomic.AddInt64(&skippedBudget, 1)
			return
		}
		res := c07RunCLI(base, j.name, j.src)
		atomic.AddInt64(&ran, 1)
		mu.Lock()
		defer mu.Unlock()
		if res.skipped != "" {
			skipped[res.skipped]++
			return
		}
		if res.key != "" {
			counts[res.key]++
			if old, ok := found[res.key]; !ok || len(j.src) < len(old.src) {
				found[res.key], what[res.key] = j, res.what
			}
		}
	})
	_ = failed
	_ = succeeded
	if skippedBudget > 0 {
		r.c.Capped(fmt.Sprintf("cli: %d of %d programs", int64(len(jobs))-skippedBudget, len(jobs)))
	}
	var keys []string
	for k := range found {
		keys = append(keys, k)
	}
	sort.Strings(keys)
	for _, k := range keys {
		j := found[k]
		okAll := true
		for n := 0; n < 3; n++ {
			if res := c07RunCLI(base, fmt.Sprintf("confirm%d", n), j.src); res.key != k {
				okAll = false
			}
		}
		if !okAll {
			continue
		}
		meta, _ := json.Marshal(map[string]string{"note": j.note})
		r.c.Violation(k, fmt.Sprintf("%s\nprogram: %s\nCLI cases with this key: %d", what[k], j.note, counts[k]), map[string]string{"x.ddp": j.src, "cli.json": string(meta)})
	}
	r.c.Add("space_cli_programs", ran)
	r.c.Set("cli_skipped", skipped)
	r.c.Set("cli_cases_per_violation_key", counts)
}

func c07ReplayCLI(dir string) int {
	src, err := os.ReadFile(filepath.Join(dir, "x.ddp"))
	if err != nil {
		fmt.Println(err)
		return 2
	}
	base := rx.Scratch("c07cli")
	defer os.RemoveAll(base)
	res := c07RunCLI(base, "replay", string(src))
	if res.skipped != "" {
		fmt.Println("C07 CLI replay: skipped:", res.skipped)
		return 0
	}
	if res.key != "" {
		fmt.Printf("VIOLATION property=C07 replay=%s\n  key=%s\n  %s\n", dir, res.key, strings.ReplaceAll(res.what, "\n", "\n  "))
		return 1
	}
	fmt.Println("C07 CLI replay: property holds on this program")
	return 0
}
