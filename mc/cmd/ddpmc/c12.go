package main

// C12 — a Text is a sequence of Unicode code points.
// (a) per character, exhaustive over all Unicode scalar values (+ surrogates / out-of-range values as
//     negative cases): direct calls into the tree's ASan libddpruntime.a through c/rt_text.c
// (b) histories: explicit-state BFS where a state is a REAL ddpstring rebuilt inside the driver by
//     replaying its history; every transition is executed on the implementation and compared with
//     the []rune model; equality is checked against fresh literals and across histories
// (c) compiled code: DDP programs reproducing the histories with DDP operations (c12c.go)
// Deterministic, no sampling.

import (
	"encoding/hex"
	"fmt"
	"os"
	"path/filepath"
	"regexp"
	"sort"
	"strconv"
	"strings"
	"sync"
	"sync/atomic"
	"time"
	"unicode/utf8"

	"ddpmc/internal/ev"
	"ddpmc/internal/rx"
	"ddpmc/internal/textmodel"
)

func init() { checks["C12"] = check{runC12, replayC12} }

// ---------------------------------------------------------------- violations (minimal case per key)

type c12Viol struct {
	key   string
	what  string
	files map[string]string
	rank  [3]int // smaller = simpler case (history length, content length, tie break)
	tie   string
	// how to re-execute: exactly one of
	req string // driver request
	ddp string // program source (phase c)
}

type c12Viols struct {
	mu sync.Mutex
	m  map[string]*c12Viol
	n  map[string]int
}

func (v *c12Viols) add(x *c12Viol) {
	v.mu.Lock()
	defer v.mu.Unlock()
	if v.m == nil {
		v.m, v.n = map[string]*c12Viol{}, map[string]int{}
	}
	v.n[x.key]++
	o, ok := v.m[x.key]
	if !ok || less3(x.rank, o.rank) || (x.rank == o.rank && x.tie < o.tie) {
		v.m[x.key] = x
	}
}

func less3(a, b [3]int) bool {
	for i := range a {
		if a[i] != b[i] {
			return a[i] < b[i]
		}
	}
	return false
}

func (v *c12Viols) sorted() []*c12Viol {
	var ks []string
	for k := range v.m {
		ks = append(ks, k)
	}
	sort.Strings(ks)
	var out []*c12Viol
	for _, k := range ks {
		out = append(out, v.m[k])
	}
	return out
}

// outcomeSig: what must be identical when a driver request is re-executed.
func outcomeSig(resp string, d *rtDeath) string {
	if d != nil {
		return "died:" + d.Class
	}
	return "ok:" + reAsanKind.ReplaceAllString(reAsanRep.ReplaceAllString(resp, ""), " asan=$1")
}

// which region ASan names (heap-buffer-overflow / unknown-crash / ...) depends on the heap layout of the
// process; only READ/WRITE is stable
var reAsanKind = regexp.MustCompile(` asan=[^ /]*/(\w+|\?)`)

func asanRW(note string) string {
	if i := strings.LastIndex(note, "/"); i >= 0 {
		return "invalid-" + note[i+1:]
	}
	return "invalid-access"
}

// ---------------------------------------------------------------- (a) per character

var c12CharFields = []string{"enc", "c2s", "nbc", "nb", "inb", "ulen", "s2c", "nb2", "s2c2", "cts", "eq", "sc", "sce", "cs", "cse", "len", "idx",
	"sl33", "sl24", "sl35", "sl13", "r10", "r11", "r12", "r20", "r21", "r22", "r30", "r31", "r32", "r40", "r41", "r42"}

var c12FieldFn = map[string]string{"c2s": "utf8_char_to_string", "nbc": "utf8_num_bytes_char", "nb": "utf8_num_bytes", "nb2": "utf8_num_bytes",
	"inb": "utf8_indicated_num_bytes", "ulen": "utf8_strlen", "s2c": "utf8_string_to_char", "s2c2": "utf8_string_to_char", "cts": "ddp_char_to_string",
	"eq": "ddp_string_equal", "sc": "ddp_string_char_verkettet", "sce": "ddp_string_char_verkettet(empty)", "cs": "ddp_char_string_verkettet",
	"cse": "ddp_char_string_verkettet(empty)", "len": "ddp_string_length", "idx": "ddp_string_index", "sl33": "ddp_string_slice", "sl24": "ddp_string_slice",
	"sl35": "ddp_string_slice", "sl13": "ddp_string_slice"}

func c12Fn(field string) string {
	if f, ok := c12FieldFn[field]; ok {
		return f
	}
	if len(field) == 3 && field[0] == 'r' {
		return fmt.Sprintf("ddp_replace_char_in_string(%cbyte→c,%s)", field[1], []string{"first", "middle", "last"}[field[2]-'0'])
	}
	return field
}

type charFinding struct{ field, what, suffix string }

// fieldsOf splits an answer line; an "asan=" token is attributed to the field printed before it.
func fieldsOf(line string) (m map[string]string, asan []charFinding) {
	m = map[string]string{}
	prev := "?"
	for _, f := range strings.Fields(line) {
		kv := strings.SplitN(f, "=", 2)
		if len(kv) != 2 {
			continue
		}
		switch kv[0] {
		case "asan":
			asan = append(asan, charFinding{prev, "AddressSanitizer: " + kv[1] + " inside the runtime during the call(s) behind field " + prev, ":asan:" + asanRW(kv[1])})
		case "asanrep":
			if b, err := hex.DecodeString(kv[1]); err == nil && len(asan) > 0 {
				asan[len(asan)-1].what += ": " + asanSummary(string(b))
			}
		default:
			m[kv[0]] = kv[1]
			prev = kv[0]
		}
	}
	return m, asan
}

// rawContent checks a "cap:hex" value: NUL inside cap, content before it.
func rawContent(v string) (content string, slack int, rest []string, err error) {
	capv, buf, rest, e := parseRaw(v)
	if e != nil {
		return "", 0, nil, e
	}
	if capv != len(buf) {
		return "", 0, nil, fmt.Errorf("cap %d but %d bytes", capv, len(buf))
	}
	ct, term := contentOf(buf)
	if !term {
		return "", 0, nil, fmt.Errorf("no NUL inside cap bytes %x", buf)
	}
	if capv > 0 {
		slack = capv - len(ct) - 1
	}
	return string(ct), slack, rest, nil
}

// checkCharLine compares one answer line of "CHAR" with the code-point model. nfields = compared observations.
func checkCharLine(c rune, line string) (finds []charFinding, nfields int, slackSeen int) {
	// fast path: the complete answer a slack-free implementation gives, compared as one string
	if line == expectedCharLine(c) {
		return nil, len(c12CharFields) - 1, 0
	}
	m, asan := fieldsOf(line)
	finds = append(finds, asan...)
	e := string(c)
	w := utf8.RuneLen(c)
	hx := func(s string) string { return fmt.Sprintf("%x", s) }
	cx := fmt.Sprintf("%x", uint32(c))
	bad := func(f, what string) { finds = append(finds, charFinding{f, what, ""}) }
	exact := func(f, want string) {
		nfields++
		if got, ok := m[f]; !ok || got != want {
			bad(f, fmt.Sprintf("%s: got %q, code-point model requires %q", f, got, want))
		}
	}
	content := func(f, want string) (rest []string) {
		nfields++
		got, sl, rest, err := rawContent(m[f])
		if err != nil {
			bad(f, fmt.Sprintf("%s=%s: %v", f, m[f], err))
			return nil
		}
		if sl > 0 {
			slackSeen++
		}
		if got != want {
			bad(f, fmt.Sprintf("%s: text is %q (%x), code-point model requires %q (%x)", f, got, got, want, want))
			return nil
		}
		return rest
	}
	if m["enc"] != hx(e) || m["c"] != cx {
		bad("enc", "driver self-check: encoder of the harness disagrees with unicode/utf8: "+m["enc"])
		return
	}
	exact("c2s", fmt.Sprintf("%d:%s00", w, hx(e)))
	exact("nbc", strconv.Itoa(w))
	exact("nb", strconv.Itoa(w))
	exact("inb", strconv.Itoa(w))
	exact("ulen", "1")
	exact("s2c", fmt.Sprintf("%d:%s", w, cx))
	exact("nb2", strconv.Itoa(w))
	exact("s2c2", fmt.Sprintf("%d:%s", w, cx))
	content("cts", e)
	exact("eq", "11")
	content("sc", "a€"+e)
	content("sce", e)
	content("cs", e+"€a")
	content("cse", e)
	exact("len", "5")
	exact("idx", fmt.Sprintf("61,20ac,%s,1f600,e4", cx))
	content("sl33", e)
	content("sl24", "€"+e+"😀")
	content("sl35", e+"😀ä")
	content("sl13", "a€"+e)
	pre := []string{"", "ä", "ä"}
	post := []string{"€", "€", ""}
	for k := 1; k <= 4; k++ {
		for p := 0; p < 3; p++ {
			f := fmt.Sprintf("r%d%d", k, p)
			want := pre[p] + e + post[p]
			nfields++
			got, sl, rest, err := rawContent(m[f])
			if err != nil {
				bad(f, fmt.Sprintf("%s=%s: %v", f, m[f], err))
				continue
			}
			if sl > 0 {
				slackSeen++
			}
			if got != want {
				bad(f, fmt.Sprintf("after replacing the %d-byte character of %q by U+%04X the text is %q (%x), model %q (%x)", k, pre[p]+string(textmodel.Sigma[k-1])+post[p], c, got, got, want, want))
				continue
			}
			var idx []string
			for _, r := range want {
				idx = append(idx, fmt.Sprintf("%x", r))
			}
			if len(rest) != 3 || rest[0] != strconv.Itoa(len([]rune(want))) || rest[1] != strings.Join(idx, ",") {
				bad(f, fmt.Sprintf("after replacement length/index give %v, model %d / %s", rest, len([]rune(want)), strings.Join(idx, ",")))
				continue
			}
			if rest[2] != "11" && !(rest[2] == "xx" && sl > 0) {
				bad(f, fmt.Sprintf("after replacement ddp_string_equal against a fresh literal %q gives %s (both orders), model 11", want, rest[2]))
			}
		}
	}
	return
}

// expectedCharLine: the answer line when every buffer has cap == strlen+1 (the field-by-field check
// below is the authority; this is only its fast path and is cross-checked by it on every mismatch).
func expectedCharLine(c rune) string {
	e := string(c)
	w := utf8.RuneLen(c)
	cx := strconv.FormatUint(uint64(c), 16)
	var sb strings.Builder
	sb.Grow(900)
	raw := func(name, s string) {
		sb.WriteString(" " + name + "=" + strconv.Itoa(len(s)+1) + ":")
		for i := 0; i < len(s); i++ {
			sb.WriteByte("0123456789abcdef"[s[i]>>4])
			sb.WriteByte("0123456789abcdef"[s[i]&15])
		}
		sb.WriteString("00")
	}
	ws := strconv.Itoa(w)
	hx := fmt.Sprintf("%x", e)
	sb.WriteString("c=" + cx + " enc=" + hx + " c2s=" + ws + ":" + hx + "00 nbc=" + ws + " nb=" + ws + " inb=" + ws + " ulen=1 s2c=" + ws + ":" + cx + " nb2=" + ws + " s2c2=" + ws + ":" + cx)
	raw("cts", e)
	sb.WriteString(" eq=11")
	raw("sc", "a€"+e)
	raw("sce", e)
	raw("cs", e+"€a")
	raw("cse", e)
	sb.WriteString(" len=5 idx=61,20ac," + cx + ",1f600,e4")
	raw("sl33", e)
	raw("sl24", "€"+e+"😀")
	raw("sl35", e+"😀ä")
	raw("sl13", "a€"+e)
	for k := 1; k <= 4; k++ {
		raw(fmt.Sprintf("r%d0", k), e+"€")
		sb.WriteString(":2:" + cx + ",20ac:11")
		raw(fmt.Sprintf("r%d1", k), "ä"+e+"€")
		sb.WriteString(":3:e4," + cx + ",20ac:11")
		raw(fmt.Sprintf("r%d2", k), "ä"+e)
		sb.WriteString(":2:e4," + cx + ":11")
	}
	return sb.String()
}

var c12NegValues = []uint32{0x110000, 0x1FFFFF, 0x200000, 0x7FFFFFFF, 0x80000000, 0xFFFFFFFF}

func negClass(c uint32) string {
	switch {
	case c >= 0xD800 && c <= 0xDFFF:
		return "surrogate"
	case c >= 0x80000000:
		return "negative"
	}
	return "above-10FFFF"
}

// checkNegLine: invalid values must be refused, not encoded (doc comments in utf8.h / operators.c).
func checkNegLine(line string) (finds []charFinding, nfields int) {
	m, asan := fieldsOf(line)
	finds = append(finds, asan...)
	bad := func(f, what string) { finds = append(finds, charFinding{f, what, ":encoded"}) }
	nfields = 5
	if m["c2s"] != "-1:" {
		bad("c2s", "utf8_char_to_string: got "+m["c2s"]+" (bytes:encoding), utf8.h promises -1 for a value that is not a valid character")
	}
	if m["nbc"] != "-1" {
		bad("nbc", "utf8_num_bytes_char: got "+m["nbc"]+", must be -1")
	}
	if ct, _, rest, err := rawContent(m["cts"]); err != nil || ct != "" || len(rest) != 1 || rest[0] != "0" {
		bad("cts", fmt.Sprintf("ddp_char_to_string: got %s (cap:buffer:length), operators.c promises the empty text", m["cts"]))
	}
	if ct, _, _, err := rawContent(m["sc"]); err != nil || ct != "a€" {
		bad("sc", fmt.Sprintf("ddp_string_char_verkettet: got %s, operators.c promises a copy of the text (\"a€\")", m["sc"]))
	}
	if ct, _, _, err := rawContent(m["cs"]); err != nil || ct != "€a" {
		bad("cs", fmt.Sprintf("ddp_char_string_verkettet: got %s, operators.c promises a copy of the text (\"€a\")", m["cs"]))
	}
	return
}

// crashField: which call of a CHAR line did not return (from the partial, unbuffered answer).
func crashField(part string, order []string) string {
	fs := strings.Fields(part)
	if len(fs) == 0 {
		return order[0]
	}
	last := strings.SplitN(fs[len(fs)-1], "=", 2)
	name := last[0]
	val := ""
	if len(last) == 2 {
		val = last[1]
	}
	if len(name) == 3 && name[0] == 'r' && strings.Count(val, ":") < 4 && !strings.HasSuffix(val, "xx") {
		return name
	}
	if name == "idx" && strings.Count(val, ",") < 4 {
		return name
	}
	for i, f := range order {
		if f == name && i+1 < len(order) {
			return order[i+1]
		}
	}
	return name
}

// c12NegCases: surrogates and out-of-range values.
func c12NegCases(c *ev.Ctx, vs *c12Viols) {
	// negative cases
	var jobs []*rtJob
	var vals []uint32
	for v := uint32(0xD800); v <= 0xDFFF; v++ {
		vals = append(vals, v)
	}
	vals = append(vals, c12NegValues...)
	for _, v := range vals {
		jobs = append(jobs, &rtJob{req: fmt.Sprintf("NEG %x", v)})
	}
	rtRun(c, jobs)
	for i, j := range jobs {
		v := vals[i]
		rank := [3]int{0, 9, i}
		files := map[string]string{"kind.txt": "neg", "cp.txt": fmt.Sprintf("%x", v)}
		if j.skipped {
			c.Capped("(a) negative cases not completed (deadline)")
			break
		}
		if j.death != nil {
			_, d2, _ := rtOnce(j.req, false, true)
			field := "?"
			if d2 != nil {
				field = crashField(d2.Part, []string{"c2s", "nbc", "cts", "sc", "cs"})
			}
			vs.add(&c12Viol{key: fmt.Sprintf("C12:char:invalid-scalar(%s);%s:crash:%s", negClass(v), c12Fn(field), j.death.Class),
				what: fmt.Sprintf("value 0x%X (%s, not a Unicode scalar value) as Buchstabe: the driver died in the call behind field %q: %s", v, negClass(v), field, j.death.Detail),
				rank: rank, req: j.req, files: files})
			continue
		}
		finds, nf := checkNegLine(j.resp)
		c.Add("a_observations", int64(nf))
		for _, f := range finds {
			vs.add(&c12Viol{key: fmt.Sprintf("C12:char:invalid-scalar(%s);%s%s", negClass(v), c12Fn(f.field), f.suffix),
				what: fmt.Sprintf("value 0x%X (%s, not a Unicode scalar value) as Buchstabe: %s", v, negClass(v), f.what),
				rank: rank, req: j.req, files: files})
		}
	}
	c.Add("a_negative_values", int64(len(vals)))
}

// c12ADeadline: part (a) stops here so that part (c) keeps a share of the budget
var c12ADeadline time.Time

func c12PhaseA(c *ev.Ctx, vs *c12Viols) {
	c12NegCases(c, vs)
	type chunk struct{ lo, hi uint32 }
	var chunks []chunk
	for _, r := range [][2]uint32{{1, 0xD800}, {0xE000, 0x110000}} {
		for lo := r[0]; lo < r[1]; lo += 2048 {
			hi := lo + 2048
			if hi > r[1] {
				hi = r[1]
			}
			chunks = append(chunks, chunk{lo, hi})
		}
	}
	c.Add("excluded_unspecified", 1) // U+0000: a NUL-terminated text cannot hold it (ddptypes.h), the statement is silent
	var next, crashes, chars, fields, slack int64
	var byWidth [5]int64
	var wg sync.WaitGroup
	report := func(cp rune, field, kindSuffix, what, req string) {
		w := utf8.RuneLen(cp)
		vs.add(&c12Viol{key: fmt.Sprintf("C12:char:%s[%s]:%dbyte%s", c12Fn(field), field, w, kindSuffix),
			what: fmt.Sprintf("character U+%04X (%q, %d UTF-8 bytes): %s", cp, cp, w, what),
			rank: [3]int{0, w, int(cp)}, req: req,
			files: map[string]string{"kind.txt": "char", "cp.txt": fmt.Sprintf("%x", cp)}})
	}
	for k := 0; k < rtWorkers(); k++ {
		wg.Add(1)
		go func() {
			defer wg.Done()
			var p *rtProc
			defer func() { p.close() }()
			for {
				i := int(atomic.AddInt64(&next, 1) - 1)
				if i >= len(chunks) || c.Expired() || time.Now().After(c12ADeadline) || atomic.LoadInt64(&crashes) > 24 {
					return
				}
				lo, hi := chunks[i].lo, chunks[i].hi
				for lo < hi {
					if c.Expired() || time.Now().After(c12ADeadline) || atomic.LoadInt64(&crashes) > 24 {
						return
					}
					if p == nil {
						var err error
						if p, err = rtStart(false); err != nil {
							c.Broken("cannot start rt_text: " + err.Error())
							return
						}
					}
					cur := lo
					var lc, lf, ls int64
					var lw [5]int64
					aborted := false
					d := p.ask(fmt.Sprintf("CHAR %x %x", lo, hi), 180*time.Second, func(line string) bool {
						if line == "DONE" {
							return true
						}
						if line == "ABORTED" { // the child restarts after an invalid write; the range continues with a new request
							aborted = true
							return true
						}
						cp := rune(cur)
						finds, nf, sl := checkCharLine(cp, line)
						for _, f := range finds {
							if f.field == "enc" {
								c.Broken(f.what)
								continue
							}
							report(cp, f.field, f.suffix, f.what, fmt.Sprintf("CHAR %x %x", cur, cur+1))
						}
						lc++
						lf += int64(nf)
						ls += int64(sl)
						lw[utf8.RuneLen(cp)]++
						cur++
						return false
					})
					atomic.AddInt64(&chars, lc)
					atomic.AddInt64(&fields, lf)
					atomic.AddInt64(&slack, ls)
					for w := range lw {
						atomic.AddInt64(&byWidth[w], lw[w])
					}
					if d == nil {
						if aborted {
							lo = cur
							continue
						}
						break
					}
					// the serving child died on character `cur`: find the call in step mode
					if d.Gone {
						p = nil
					}
					atomic.AddInt64(&crashes, 1)
					req := fmt.Sprintf("CHAR %x %x", cur, cur+1)
					var d2 *rtDeath
					if p != nil {
						if d2 = p.ask("U "+req, 60*time.Second, func(l string) bool { return l == "DONE" }); d2 != nil && d2.Gone {
							p = nil
						}
					} else {
						_, d2, _ = rtOnce(req, false, true)
					}
					field, cls, det := "?", d.Class, d.Detail
					if d2 != nil {
						field, cls, det = crashField(d2.Part, c12CharFields), d2.Class, d2.Detail
					}
					if d.Class == "protocol" {
						c.Broken("rt_text protocol error: " + d.Detail)
						return
					}
					report(rune(cur), field, ":crash:"+cls, fmt.Sprintf("the driver died in the call behind field %q: %s", field, det), req)
					lo = cur + 1
				}
			}
		}()
	}
	wg.Wait()
	c.Add("a_chars", chars)
	c.Add("a_observations", fields)
	c.Add("a_results_with_slack", slack)
	c.Set("a_chars_by_utf8_width", map[string]int64{"1": byWidth[1], "2": byWidth[2], "3": byWidth[3], "4": byWidth[4]})
	if chars < 0x110000-0x800-1 {
		c.Capped(fmt.Sprintf("(a) %d of %d scalar values (deadline or >24 driver crashes)", chars, 0x110000-0x800-1))
	}
}

// ---------------------------------------------------------------- (b) histories

type hState struct {
	prog    string
	content []rune
	slack   int
	depth   int
	shrunk  bool // the history contains a shrinking replacement
}

type hTrans struct {
	from  *hState
	prog  string
	op    string
	cause string // plain | replace-shrink | slack   (an operand has cap > strlen+1)
	job   *rtJob
}

// c12Class: a way a content was produced (for part c).
type c12Class struct {
	content string
	how     string // last operation class, or "slack" (first state with cap > strlen+1 whose last op is no shrink)
	prog    string
	slack   int
}

type c12Hist struct {
	states   []*hState
	seen     map[string]*hState
	pool     map[string][]*hState // content -> representatives with distinct buffer images
	poolSeen map[string]bool
	classes  map[string]*c12Class
	classOrd []string
	ntrans   int64
	pruned   int64
	skipped  int64
}

func hasShrink(prog string) bool {
	// a shrinking replacement anywhere in the history (model level)
	var toks []string
	for _, tok := range strings.Fields(prog) {
		toks = append(toks, tok)
		if tok[0] == 'R' {
			if o, err := textmodel.Eval(strings.Join(toks, " ")); err == nil && o.LastOp == "replace-shrink" {
				return true
			}
		}
	}
	return false
}

func causeOf(slackOperand bool, shrunk bool) string {
	switch {
	case slackOperand && shrunk:
		return "replace-shrink"
	case slackOperand:
		return "slack"
	}
	return "plain"
}

func cpHex(r rune) string { return fmt.Sprintf("%x", r) }

// slack operands: the text "a" produced by replacing a 2/3/4-byte character
var c12SlackOperands = []string{
	textmodel.K([]rune{'ä'}) + " R1,61",
	textmodel.K([]rune{'€'}) + " R1,61",
	textmodel.K([]rune{'😀'}) + " R1,61",
}

func slk(b bool) string {
	if b {
		return "slack"
	}
	return "exact"
}

func c12Expand(s *hState, consts [][]rune, operandSlack []bool) []*hTrans {
	var out []*hTrans
	add := func(prog, op string, slackOperand bool, shrunk bool) {
		out = append(out, &hTrans{from: s, prog: prog, op: op, cause: causeOf(slackOperand, shrunk), job: &rtJob{req: "P " + prog}})
	}
	sl := s.slack > 0
	ss := func(a, b bool) string { return "str·str(" + slk(a) + "," + slk(b) + ")" }
	for _, w := range consts {
		add(s.prog+" "+textmodel.K(w)+" SS", ss(sl, false), sl, s.shrunk)
		add(textmodel.K(w)+" "+s.prog+" SS", ss(false, sl), sl, s.shrunk)
	}
	add(s.prog+" "+s.prog+" SS", ss(sl, sl), sl, s.shrunk)
	for i, q := range c12SlackOperands {
		add(s.prog+" "+q+" SS", ss(sl, operandSlack[i]), sl || operandSlack[i], true)
		add(q+" "+s.prog+" SS", ss(operandSlack[i], sl), sl || operandSlack[i], true)
	}
	for _, r := range textmodel.Sigma {
		add(s.prog+" SC"+cpHex(r), "str·char("+slk(sl)+")", sl, s.shrunk)
		add(s.prog+" CS"+cpHex(r), "char·str("+slk(sl)+")", sl, s.shrunk)
	}
	n := len(s.content)
	for i := 0; i <= n+1; i++ {
		for j := 0; j <= n+1; j++ {
			if textmodel.SliceInDomain(n, i, j) {
				add(fmt.Sprintf("%s SL%d,%d", s.prog, i, j), "slice("+slk(sl)+")", sl, s.shrunk)
			}
		}
	}
	for i := 1; i <= n; i++ {
		for _, r := range textmodel.Sigma {
			op := "replace-same"
			if textmodel.Width(r) < textmodel.Width(s.content[i-1]) {
				op = "replace-shrink"
			} else if textmodel.Width(r) > textmodel.Width(s.content[i-1]) {
				op = "replace-grow"
			}
			add(fmt.Sprintf("%s R%d,%s", s.prog, i, cpHex(r)), op+"("+slk(sl)+")", sl, s.shrunk)
		}
	}
	add(s.prog+" D", "deep_copy("+slk(sl)+")", sl, s.shrunk)
	return out
}

func progRank(prog string, content []rune) [3]int {
	return [3]int{len(strings.Fields(prog)), len(content), len(prog)}
}

func c12PhaseB(c *ev.Ctx, vs *c12Viols, maxLen, maxDepth, poolCap int) *c12Hist {
	h := &c12Hist{seen: map[string]*hState{}, pool: map[string][]*hState{}, poolSeen: map[string]bool{}, classes: map[string]*c12Class{}}
	consts := textmodel.Words(2)
	sliceExcl := int64(0)
	// which slack operands really have slack on this tree
	operandSlack := make([]bool, len(c12SlackOperands))
	{
		var jobs []*rtJob
		for _, q := range c12SlackOperands {
			jobs = append(jobs, &rtJob{req: "P " + q})
		}
		if !rtRun(c, jobs) {
			return h
		}
		for i, j := range jobs {
			if k, _, ans, _ := judgeProg(c12SlackOperands[i], j.resp, j.death); k == "" {
				operandSlack[i] = ans.top.slack() > 0
			}
		}
	}
	violate := func(t *hTrans, kind, what string, out textmodel.Outcome) {
		key := fmt.Sprintf("C12:hist:%s;%s:%s", t.cause, t.op, kind)
		vs.add(&c12Viol{key: key,
			what: fmt.Sprintf("history: %s\n  (driver program: %s)\n  %s", explainProg(t.prog), t.prog, what),
			rank: progRank(t.prog, out.Top()), tie: t.prog, req: "P " + t.prog,
			files: map[string]string{"kind.txt": "prog", "prog.txt": t.prog}})
	}
	// process one executed transition: judge, register the successor
	process := func(t *hTrans, depth int) *hState {
		if t.job.skipped {
			h.skipped++
			return nil
		}
		atomic.AddInt64(&h.ntrans, 1)
		kind, what, ans, out := judgeProg(t.prog, t.job.resp, t.job.death)
		if kind == "protocol" || kind == "model-error" || kind == "out-of-domain" {
			c.Broken(fmt.Sprintf("%s on %q: %s", kind, t.prog, what))
			return nil
		}
		if kind != "" {
			violate(t, kind, what, out)
			h.pruned++
			return nil
		}
		content := out.Top()
		if len(content) > maxLen {
			return nil
		}
		slack := ans.top.slack()
		st := &hState{prog: t.prog, content: content, slack: slack, depth: depth, shrunk: hasShrink(t.prog)}
		cs := string(content)
		// representatives for cross-history equality: distinct (slack, buffer image)
		img := fmt.Sprintf("%s|%x", cs, ans.top.buf)
		if !h.poolSeen[img] && len(h.pool[cs]) < poolCap {
			h.poolSeen[img] = true
			h.pool[cs] = append(h.pool[cs], st)
		}
		// ways of production for part (c)
		how := out.LastOp
		if slack > 0 && how != "replace-shrink" {
			how = "slack"
		}
		ck := cs + "|" + how
		if _, ok := h.classes[ck]; !ok {
			h.classes[ck] = &c12Class{content: cs, how: how, prog: t.prog, slack: slack}
			h.classOrd = append(h.classOrd, ck)
		}
		canon := fmt.Sprintf("%s|%d", cs, slack)
		if _, ok := h.seen[canon]; ok {
			return nil
		}
		h.seen[canon] = st
		h.states = append(h.states, st)
		return st
	}
	// depth 1: from_constant(w)
	var frontier []*hState
	{
		var ts []*hTrans
		var jobs []*rtJob
		for _, w := range consts {
			t := &hTrans{prog: textmodel.K(w), op: "from_constant", cause: "plain", job: &rtJob{req: "P " + textmodel.K(w)}}
			ts = append(ts, t)
			jobs = append(jobs, t.job)
		}
		if !rtRun(c, jobs) {
			return h
		}
		for _, t := range ts {
			if s := process(t, 1); s != nil {
				frontier = append(frontier, s)
			}
		}
	}
	for d := 1; d < maxDepth && len(frontier) > 0; d++ {
		if c.Expired() {
			c.Capped(fmt.Sprintf("(b) stopped before expanding depth %d (%d states in the frontier)", d, len(frontier)))
			break
		}
		var ts []*hTrans
		var jobs []*rtJob
		for _, s := range frontier {
			n := len(s.content)
			sliceExcl += int64((n+2)*(n+2)) - int64(countSlices(n))
			for _, t := range c12Expand(s, consts, operandSlack) {
				ts = append(ts, t)
				jobs = append(jobs, t.job)
			}
		}
		if !rtRun(c, jobs) {
			return h
		}
		var next []*hState
		for _, t := range ts {
			if s := process(t, d+1); s != nil {
				next = append(next, s)
			}
		}
		c.Set(fmt.Sprintf("b_depth%d_new_states", d+1), len(next))
		frontier = next
	}
	c.Add("b_slices_outside_domain_not_executed", sliceExcl)
	defer func() {
		if h.skipped > 0 {
			c.Capped(fmt.Sprintf("(b) %d requests not executed (deadline)", h.skipped))
		}
	}()

	// equality: every state against a fresh literal of the same content (both orders), against
	// literals that differ in one character of the same byte width (must be unequal), and all
	// representatives of the same content against each other (different histories, both orders)
	type eqJob struct {
		prog  string
		key   string
		rankC []rune
		job   *rtJob
	}
	var ejs []*eqJob
	pat := func(a, b *hState, lit bool) string {
		n := func(s *hState) string {
			if s == nil {
				return "exact" // a fresh literal
			}
			if s.slack > 0 {
				return "slack"
			}
			return "exact"
		}
		_ = lit
		return n(a) + "," + n(b)
	}
	cause := func(a, b *hState) string {
		sl, sh := false, false
		for _, s := range []*hState{a, b} {
			if s != nil && s.slack > 0 {
				sl = true
				sh = sh || s.shrunk
			}
		}
		return causeOf(sl, sh)
	}
	addEq := func(prog string, a, b *hState, neg bool, content []rune) {
		op := "equal(" + pat(a, b, false) + ")"
		if neg {
			op = "not-equal(" + pat(a, b, false) + ")"
		}
		ejs = append(ejs, &eqJob{prog: prog, key: fmt.Sprintf("C12:hist:%s;%s", cause(a, b), op), rankC: content, job: &rtJob{req: "P " + prog}})
	}
	for _, s := range h.states {
		lit := textmodel.K(s.content)
		addEq(s.prog+" "+lit+" EQ", s, nil, false, s.content)
		addEq(lit+" "+s.prog+" EQ", nil, s, false, s.content)
		if n := len(s.content); n > 0 {
			for _, pos := range []int{0, n - 1} {
				tw := append([]rune{}, s.content...)
				tw[pos] = textmodel.Twin[tw[pos]]
				addEq(s.prog+" "+textmodel.K(tw)+" EQ", s, nil, true, s.content)
				addEq(textmodel.K(tw)+" "+s.prog+" EQ", nil, s, true, s.content)
				if n == 1 {
					break
				}
			}
		}
	}
	var contents []string
	for cs := range h.pool {
		contents = append(contents, cs)
	}
	sort.Strings(contents)
	npairs := 0
	for _, cs := range contents {
		reps := h.pool[cs]
		for _, a := range reps {
			for _, b := range reps {
				addEq(a.prog+" "+b.prog+" EQ", a, b, false, a.content)
				npairs++
			}
		}
	}
	jobs := make([]*rtJob, len(ejs))
	for i, e := range ejs {
		jobs[i] = e.job
	}
	if !c.Expired() {
		if !rtRun(c, jobs) {
			return h
		}
		for _, e := range ejs {
			if e.job.skipped {
				h.skipped++
				continue
			}
			kind, what, _, _ := judgeProg(e.prog, e.job.resp, e.job.death)
			if kind == "protocol" || kind == "model-error" || kind == "out-of-domain" {
				c.Broken(fmt.Sprintf("%s on %q: %s", kind, e.prog, what))
				continue
			}
			if kind != "" {
				vs.add(&c12Viol{key: e.key + ":" + kind,
					what: fmt.Sprintf("history: %s\n  (driver program: %s)\n  %s", explainProg(e.prog), e.prog, what),
					rank: progRank(e.prog, e.rankC), tie: e.prog, req: "P " + e.prog,
					files: map[string]string{"kind.txt": "prog", "prog.txt": e.prog}})
			}
		}
		c.Add("b_equality_checks", int64(len(ejs)))
		c.Add("b_cross_history_pairs", int64(npairs))
	} else {
		c.Capped("(b) equality checks not run (deadline)")
	}
	return h
}

func countSlices(n int) int {
	k := 0
	for i := 0; i <= n+1; i++ {
		for j := 0; j <= n+1; j++ {
			if textmodel.SliceInDomain(n, i, j) {
				k++
			}
		}
	}
	return k
}

// ---------------------------------------------------------------- run

func runC12(tier string) int {
	c := ev.New("C12", tier)
	c.Budget(map[string]int{"quick": 240, "thorough": 1500}[tier])
	maxLen, maxDepth, poolCap, progCap := 4, 3, 6, 100
	if tier == "thorough" {
		maxLen, maxDepth, poolCap, progCap = 5, 4, 10, 4000
		ddpAllPairs = true
	}
	for _, f := range []string{"rt_text", "rt_text_plain"} {
		if _, err := os.Stat(filepath.Join(rx.VDir, f)); err != nil {
			c.Broken("driver " + f + " was not built (c/build.sh)")
			return c.Finish()
		}
	}
	vs := &c12Viols{}
	// C12_PHASES=abc (debugging aid): run only some parts
	phases := os.Getenv("C12_PHASES")
	if phases == "" {
		phases = "abc"
	} else {
		c.Capped("C12_PHASES=" + phases)
	}
	h := &c12Hist{}
	// order: (b) histories, (a) the per-character sweep (it may use the budget up to 70 %), (c) compiled programs
	// with what is left (the most expensive part per case; its program cap is cut by the deadline)
	if strings.Contains(phases, "b") {
		t1 := time.Now()
		h = c12PhaseB(c, vs, maxLen, maxDepth, poolCap)
		c.Set("b_wall_s", time.Since(t1).Seconds())
	}
	if strings.Contains(phases, "a") {
		t0 := time.Now()
		c12ADeadline = c.Start.Add(time.Duration(float64(c.Deadline.Sub(c.Start)) * 0.7))
		c12PhaseA(c, vs)
		c.Set("a_wall_s", time.Since(t0).Seconds())
	}
	if strings.Contains(phases, "c") {
		t2 := time.Now()
		c12PhaseC(c, vs, h, progCap)
		c.Set("c_wall_s", time.Since(t2).Seconds())
	}

	// report: the minimal case per key, re-executed 3x (three further driver processes)
	var reps [3]*rtProc
	var plain *rtProc
	askOn := func(pp **rtProc, isPlain bool, req string) (string, *rtDeath, error) {
		if *pp == nil {
			var err error
			// the first one symbolizes ASan reports and attaches them
			*pp, err = rtStartOpt(isPlain, pp == &reps[0])
			if err != nil {
				return "", nil, err
			}
		}
		var resp string
		d := (*pp).ask(req, 60*time.Second, func(l string) bool {
			if strings.HasPrefix(req, "CHAR") {
				if l == "DONE" {
					return true
				}
				resp = l
				return false
			}
			resp = l
			return true
		})
		if d != nil && d.Gone {
			*pp = nil
		}
		return resp, d, nil
	}
	for _, v := range vs.sorted() {
		if v.req != "" {
			sigs := make([]string, 3)
			var last *rtDeath
			var wg sync.WaitGroup
			var rerr error
			var rep0 string
			for k := 0; k < 3; k++ {
				wg.Add(1)
				go func(k int) {
					defer wg.Done()
					resp, d, err := askOn(&reps[k], false, v.req)
					if err != nil {
						rerr = err
						return
					}
					sigs[k] = outcomeSig(resp, d)
					if k == 0 {
						last, rep0 = d, resp
					}
				}(k)
			}
			wg.Wait()
			if rerr != nil {
				c.Broken("re-execution: " + rerr.Error())
				continue
			}
			if m := reAsanRep.FindString(rep0); m != "" {
				if b, err := hex.DecodeString(strings.TrimPrefix(m, " asanrep=")); err == nil {
					v.what += "\n  ASan report: " + asanSummary(string(b))
				}
			}
			if len(sigs) != 3 || sigs[0] != sigs[1] || sigs[1] != sigs[2] {
				c.Broken(fmt.Sprintf("unstable case %s (%s): %v", v.key, v.req, sigs))
				continue
			}
			if last != nil {
				// how does a production (non-ASan) build answer?
				if resp, d, err := askOn(&plain, true, v.req); err == nil {
					if d != nil {
						v.what += "\n  production build (no ASan): dies too (" + d.Class + ")"
					} else {
						v.what += "\n  production build (no ASan) answers: " + resp
					}
				}
			}
			v.files["request.txt"] = v.req + "\n"
		}
		n := vs.n[v.key]
		c.Violation(v.key, fmt.Sprintf("%s\n  (%d cases of this class; this is the smallest)", v.what, n), v.files)
	}
	for _, p := range reps {
		p.close()
	}
	plain.close()

	nontrivial := 0
	slackStates := 0
	for _, s := range h.states {
		ws := map[int]bool{}
		for _, r := range s.content {
			ws[textmodel.Width(r)] = true
		}
		if len(ws) >= 2 || s.slack > 0 {
			nontrivial++
		}
		if s.slack > 0 {
			slackStates++
		}
	}
	c.Set("states", len(h.states))
	c.Set("b_states_with_slack", slackStates)
	c.Set("transitions", h.ntrans)
	c.Set("b_transitions_violating_not_expanded", h.pruned)
	c.Set("traces_validated_against_impl", h.ntrans+c.Get("b_equality_checks")+c.Get("c_programs"))
	c.Set("evaluations", h.ntrans+c.Get("b_equality_checks")+c.Get("a_chars")+c.Get("a_negative_values")+c.Get("c_programs"))
	c.Set("distinct_nontrivial", nontrivial)
	c.Set("rule", "states = distinct (code points, cap-strlen-1) of real ddpstrings reached; transitions = operations executed on the real runtime (each on a state rebuilt by replaying its history in the driver) and compared with the []rune model; distinct_nontrivial = states mixing >= 2 UTF-8 widths or with cap > strlen+1; a_chars = scalar values pushed through every per-character function")
	c.Set("bounds", map[string]any{"alphabet": "a ä € 😀 (1,2,3,4 bytes)", "max_content_len": maxLen, "max_depth": maxDepth, "constants_len": 2,
		"equality_representatives_per_content": poolCap, "per_character": "U+0001..U+10FFFF without surrogates; negatives: all surrogates + 6 out-of-range values", "ddp_programs_cap": progCap})
	c.Assume("U+0000 is excluded: a NUL-terminated Text cannot hold it and the statement does not say what happens",
		"slices: only 1 <= i <= j, i <= len (upper index beyond the end is clamped as in the slicing golden); everything else is C06's business",
		"index/replace only for 1 <= i <= len; capacity itself is not judged, only what observers report",
		"invalid values (surrogates, > U+10FFFF, negative) are judged only where utf8.h / operators.c document the outcome (-1, empty text, unchanged copy)")
	c.Sample(map[string]any{"part": "a", "example": "CHAR 20ac: utf8_char_to_string, utf8_num_bytes, ddp_string_index on a€·€·😀ä, replace of 1/2/3/4-byte characters by €"})
	if len(h.states) > 10 {
		c.Sample(map[string]any{"part": "b", "example_history": explainProg(h.states[len(h.states)/2].prog)})
	}
	return c.Finish()
}
