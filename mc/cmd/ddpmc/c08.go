package main

// C08 — values are copied; only Referenz parameters alias (shape S).
// All programs of the form "make two holders of one non-primitive value through a copy-introducing
// construct, mutate one through a mutation form, observe both", plus the Referenz-aliasing family.
// Oracle: cdm (value semantics by construction) + ASan runtime; differential over -O0/-O1/-O2.

import (
	"fmt"

	"ddpmc/internal/batch"
	. "ddpmc/internal/cdm"
	"ddpmc/internal/ev"
)

type mutForm struct {
	name string
	ok   func(k heapKind) bool
	mk   func(p string, k heapKind, h Expr) ([]Stmt, []*Func)
}

func c08Mutations() []mutForm {
	isList := func(k heapKind) bool { return k.t.K == KList }
	return []mutForm{
		{"whole", func(k heapKind) bool { return true }, func(p string, k heapKind, h Expr) ([]Stmt, []*Func) {
			return one(&Assign{Target: h, Val: k.mk(40)}), nil
		}},
		{"indexed", func(k heapKind) bool { return isList(k) || k.t.K == KText }, func(p string, k heapKind, h Expr) ([]Stmt, []*Func) {
			if k.t.K == KText {
				return one(&Assign{Target: &Bin{Op: "index", L: h, R: zl(1), T: Char}, Val: cl('Z')}), nil
			}
			var el Expr
			switch k.t.Elem.K {
			case KZahl:
				el = zl(-77)
			case KText:
				el = tl("MUT")
			default:
				el = &StructLit{T: stQ, Args: []Expr{tl("MUT"), &ListLit{T: ListOf(Zahl)}, byl(0)}}
			}
			return one(&Assign{Target: &Bin{Op: "index", L: h, R: zl(1), T: k.t.Elem}, Val: el}), nil
		}},
		{"field", func(k heapKind) bool { return k.t.K == KStruct }, func(p string, k heapKind, h Expr) ([]Stmt, []*Func) {
			return seq(one(&Assign{Target: &FieldOf{Name: "name", X: h, T: Text}, Val: tl("MUT")}),
				one(&Assign{Target: &Bin{Op: "index", L: &FieldOf{Name: "werte", X: h, T: ListOf(Zahl)}, R: zl(1), T: Zahl}, Val: zl(-77)})), nil
		}},
		{"compound-element", func(k heapKind) bool { return k.t.Eq(ListOf(Zahl)) }, func(p string, k heapKind, h Expr) ([]Stmt, []*Func) {
			return one(&Compound{Op: "erhoehe", Target: &Bin{Op: "index", L: h, R: zl(1), T: Zahl}, Val: zl(1000)}), nil
		}},
		{"ref-callee", func(k heapKind) bool { return true }, func(p string, k heapKind, h Expr) ([]Stmt, []*Func) {
			f := &Func{Name: p + "_mut", Params: []Param{{Name: "w", T: k.t, Ref: true}}, Ret: Void, Body: one(&Assign{Target: vr("w", k.t), Val: k.mk(41)})}
			return one(&ExprStmt{X: &Call{F: f, Args: []Expr{h}}}), []*Func{f}
		}},
	}
}

// copy constructs: produce (setup statements, original holder, copy holder)
type copyForm struct {
	name string
	ok   func(k heapKind) bool
	mk   func(p string, k heapKind) (setup []Stmt, orig, cp Expr, fs []*Func)
}

func c08Copies() []copyForm {
	v := func(p, n string, t *Type) *Var { return vr(p+"_"+n, t) }
	decl := func(x *Var, e Expr) Stmt { return &VarDecl{Name: x.Name, T: x.T, Init: e} }
	all := func(k heapKind) bool { return true }
	return []copyForm{
		{"init", all, func(p string, k heapKind) ([]Stmt, Expr, Expr, []*Func) {
			a, b := v(p, "a", k.t), v(p, "b", k.t)
			return []Stmt{decl(a, k.mk(1)), decl(b, a)}, a, b, nil
		}},
		{"assign", all, func(p string, k heapKind) ([]Stmt, Expr, Expr, []*Func) {
			a, b := v(p, "a", k.t), v(p, "b", k.t)
			return []Stmt{decl(a, k.mk(1)), decl(b, k.mk(2)), &Assign{Target: b, Val: a}}, a, b, nil
		}},
		{"return-of-global", all, func(p string, k heapKind) ([]Stmt, Expr, Expr, []*Func) {
			a, b := v(p, "a", k.t), v(p, "b", k.t)
			f := &Func{Name: p + "_get", Ret: k.t, Body: one(&Return{X: a})}
			return []Stmt{decl(a, k.mk(1)), decl(b, &Call{F: f})}, a, b, []*Func{f}
		}},
		{"return-of-param", all, func(p string, k heapKind) ([]Stmt, Expr, Expr, []*Func) {
			a, b := v(p, "a", k.t), v(p, "b", k.t)
			f := &Func{Name: p + "_id", Params: []Param{{Name: "w", T: k.t}}, Ret: k.t, Body: one(&Return{X: vr("w", k.t)})}
			return []Stmt{decl(a, k.mk(1)), decl(b, &Call{F: f, Args: []Expr{a}})}, a, b, []*Func{f}
		}},
		{"list-element", func(k heapKind) bool { return k.t.K != KList }, func(p string, k heapKind) ([]Stmt, Expr, Expr, []*Func) {
			a, l := v(p, "a", k.t), v(p, "l", ListOf(k.t))
			return []Stmt{decl(a, k.mk(1)), decl(l, &ListLit{T: l.T, El: []Expr{a, k.mk(2)}})}, a, &Bin{Op: "index", L: l, R: zl(1), T: k.t}, nil
		}},
		{"list-element-assigned", func(k heapKind) bool { return k.t.K != KList }, func(p string, k heapKind) ([]Stmt, Expr, Expr, []*Func) {
			a, l := v(p, "a", k.t), v(p, "l", ListOf(k.t))
			el := &Bin{Op: "index", L: l, R: zl(2), T: k.t}
			return []Stmt{decl(a, k.mk(1)), decl(l, &ListLit{T: l.T, El: []Expr{k.mk(2), k.mk(3)}}), &Assign{Target: el, Val: a}}, a, el, nil
		}},
		{"field", func(k heapKind) bool { return k.t.K == KText || k.t.Eq(ListOf(Zahl)) }, func(p string, k heapKind) ([]Stmt, Expr, Expr, []*Func) {
			a, e := v(p, "a", k.t), v(p, "e", stQ)
			args := []Expr{tl("n"), &ListLit{T: ListOf(Zahl), El: []Expr{zl(9)}}, byl(1)}
			fname := "name"
			if k.t.K == KText {
				args[0] = a
			} else {
				args[1] = a
				fname = "werte"
			}
			return []Stmt{decl(a, k.mk(1)), decl(e, &StructLit{T: stQ, Args: args})}, a, &FieldOf{Name: fname, X: e, T: k.t}, nil
		}},
		{"variable-wrap", func(k heapKind) bool { return k.t.K != KAny }, func(p string, k heapKind) ([]Stmt, Expr, Expr, []*Func) {
			a, x, b := v(p, "a", k.t), v(p, "x", Any), v(p, "b", k.t)
			return []Stmt{decl(a, k.mk(1)), decl(x, &Cast{X: a, T: Any}), decl(b, &Cast{X: x, T: k.t})}, a, b, nil
		}},
		{"slice", func(k heapKind) bool { return k.t.K == KList || k.t.K == KText }, func(p string, k heapKind) ([]Stmt, Expr, Expr, []*Func) {
			a, b := v(p, "a", k.t), v(p, "b", k.t)
			return []Stmt{decl(a, k.mk(1)), decl(b, &Ter{Op: "slice", A: a, B: zl(1), C: zl(100), T: k.t})}, a, b, nil
		}},
		{"falls-arm", all, func(p string, k heapKind) ([]Stmt, Expr, Expr, []*Func) {
			a, c, b := v(p, "a", k.t), v(p, "c", k.t), v(p, "b", k.t)
			return []Stmt{decl(a, k.mk(1)), decl(c, k.mk(2)), decl(b, &Ter{Op: "falls", A: a, B: bl(true), C: c, T: k.t})}, a, b, nil
		}},
	}
}

func genC08() []*batch.Case {
	var out []*batch.Case
	n := 0
	structsOf := func(k heapKind) []*Type { return []*Type{stQ} }
	for _, k := range heapKinds() {
		for _, cf := range c08Copies() {
			if !cf.ok(k) {
				continue
			}
			for _, mf := range c08Mutations() {
				if !mf.ok(k) {
					continue
				}
				for _, side := range []string{"orig", "copy"} {
					for _, where := range []string{"global", "local"} {
						n++
						p := fmt.Sprintf("w%d", n)
						setup, orig, cp, fs := cf.mk(p, k)
						target := orig
						if side == "copy" {
							target = cp
						}
						if _, isCall := target.(*Call); isCall {
							continue
						}
						mut, fs2 := mf.mk(p, k, target)
						var pre []Stmt
						if cf.name == "return-of-global" { // the function reads the global a: declare it before the function
							pre, setup = setup[:1], setup[1:]
						}
						body := seq(setup, k.digest(orig), k.digest(cp), mut, k.digest(orig), k.digest(cp))
						funcs := append(fs, fs2...)
						if where == "local" {
							if cf.name == "return-of-global" {
								continue // needs a global by construction
							}
							f := &Func{Name: p + "_lokal", Ret: Void, Body: body}
							body = one(&ExprStmt{X: &Call{F: f}})
							funcs = append(funcs, f)
						}
						out = append(out, &batch.Case{Key: k.name + ":" + cf.name + ":" + mf.name + ":" + side + ":" + where,
							Desc: "kind " + k.name + ", copy by " + cf.name + ", mutate " + side + " by " + mf.name + ", holders " + where,
							Structs: structsOf(k), Pre: pre, Funcs: funcs, Body: body})
					}
				}
			}
		}
		// value argument: callee mutates its parameter in every form, caller's variable unchanged
		for _, mf := range c08Mutations() {
			if !mf.ok(k) {
				continue
			}
			n++
			p := fmt.Sprintf("w%d", n)
			a := vr(p+"_a", k.t)
			mut, fs2 := mf.mk(p, k, vr("w", k.t))
			f := &Func{Name: p + "_callee", Params: []Param{{Name: "w", T: k.t}}, Ret: Void, Body: seq(mut, k.digest(vr("w", k.t)))}
			out = append(out, &batch.Case{Key: k.name + ":value-arg:" + mf.name, Desc: "value argument mutated by callee via " + mf.name, Structs: structsOf(k), Funcs: append(fs2, f),
				Body: seq(one(&VarDecl{Name: a.Name, T: k.t, Init: k.mk(1)}), one(&ExprStmt{X: &Call{F: f, Args: []Expr{a}}}), k.digest(a))})
			// callee mutates the GLOBAL that was passed by value: parameter must keep the old value
			n++
			p = fmt.Sprintf("w%d", n)
			a = vr(p+"_a", k.t)
			mutG, fs3 := mf.mk(p, k, a)
			g := &Func{Name: p + "_callee", Params: []Param{{Name: "w", T: k.t}}, Ret: Void, Body: seq(mutG, k.digest(vr("w", k.t)), k.digest(a))}
			out = append(out, &batch.Case{Key: k.name + ":value-arg-global-mutated:" + mf.name, Desc: "callee mutates the global it received by value (" + mf.name + ")", Structs: structsOf(k), Funcs: append(fs3, g),
				Pre: one(&VarDecl{Name: a.Name, T: k.t, Init: k.mk(1)}), Body: seq(one(&ExprStmt{X: &Call{F: g, Args: []Expr{a}}}), k.digest(a))})
		}
		// for-each: the loop variable is a copy, the source is evaluated once
		if k.t.K == KList && !k.t.Elem.IsPrim() || k.t.Eq(ListOf(Text)) {
			n++
			p := fmt.Sprintf("w%d", n)
			a, e := vr(p+"_a", k.t), vr(p+"_e", k.t.Elem)
			var mutE Stmt
			if k.t.Elem.K == KText {
				mutE = &Assign{Target: e, Val: tl("MUT")}
			} else {
				mutE = &Assign{Target: &FieldOf{Name: "name", X: e, T: Text}, Val: tl("MUT")}
			}
			out = append(out, &batch.Case{Key: k.name + ":for-each-var-mutated", Desc: "loop variable mutated, list unchanged", Structs: structsOf(k),
				Body: seq(one(&VarDecl{Name: a.Name, T: k.t, Init: k.mk(1)}), one(&ForEach{Var: e.Name, T: k.t.Elem, In: a, Body: one(mutE)}), k.digest(a))})
			n++
			p = fmt.Sprintf("w%d", n)
			a, e = vr(p+"_a", k.t), vr(p+"_e", k.t.Elem)
			out = append(out, &batch.Case{Key: k.name + ":for-each-source-mutated", Desc: "list reassigned inside the loop over it", Structs: structsOf(k),
				Body: seq(one(&VarDecl{Name: a.Name, T: k.t, Init: k.mk(1)}), one(&ForEach{Var: e.Name, T: k.t.Elem, In: a, Body: seq(one(&Assign{Target: a, Val: k.mk(5)}), one(prs("it\n")))}), k.digest(a))})
		}
		// Referenz aliasing
		{
			mk2 := func(name string, r1, r2 bool, body []Stmt) *Func {
				return &Func{Name: name, Params: []Param{{Name: "p", T: k.t, Ref: r1}, {Name: "q", T: k.t, Ref: r2}}, Ret: Void, Body: body}
			}
			pv, qv := vr("p", k.t), vr("q", k.t)
			for _, combo := range []struct {
				name   string
				r1, r2 bool
			}{{"ref-ref", true, true}, {"val-ref", false, true}, {"ref-val", true, false}} {
				n++
				p := fmt.Sprintf("w%d", n)
				a := vr(p+"_a", k.t)
				f := mk2(p+"_zwei", combo.r1, combo.r2, seq(one(&Assign{Target: pv, Val: k.mk(50)}), k.digest(pv), k.digest(qv), one(&Assign{Target: qv, Val: k.mk(51)}), k.digest(pv), k.digest(qv)))
				out = append(out, &batch.Case{Key: k.name + ":same-var-twice:" + combo.name, Desc: "the same variable passed as (" + combo.name + ")", Structs: structsOf(k), Funcs: []*Func{f},
					Body: seq(one(&VarDecl{Name: a.Name, T: k.t, Init: k.mk(1)}), one(&ExprStmt{X: &Call{F: f, Args: []Expr{a, a}}}), k.digest(a))})
			}
			// callee writes a global that is also its Referenz argument / its value argument
			for _, ref := range []bool{true, false} {
				n++
				p := fmt.Sprintf("w%d", n)
				a := vr(p+"_a", k.t)
				f := &Func{Name: p + "_g", Params: []Param{{Name: "w", T: k.t, Ref: ref}}, Ret: Void, Body: seq(one(&Assign{Target: a, Val: k.mk(60)}), k.digest(vr("w", k.t)), one(&Assign{Target: vr("w", k.t), Val: k.mk(61)}), k.digest(a))}
				out = append(out, &batch.Case{Key: fmt.Sprintf("%s:global-and-arg:ref=%v", k.name, ref), Desc: "callee writes the global that is also its argument", Structs: structsOf(k), Funcs: []*Func{f},
					Pre: one(&VarDecl{Name: a.Name, T: k.t, Init: k.mk(1)}), Body: seq(one(&ExprStmt{X: &Call{F: f, Args: []Expr{a}}}), k.digest(a))})
			}
			// list element and field passed by Referenz, nested call passes the reference on
			if k.t.K != KList {
				n++
				p := fmt.Sprintf("w%d", n)
				l := vr(p+"_l", ListOf(k.t))
				inner := &Func{Name: p + "_innen", Params: []Param{{Name: "w", T: k.t, Ref: true}}, Ret: Void, Body: one(&Assign{Target: vr("w", k.t), Val: k.mk(70)})}
				outer := &Func{Name: p + "_aussen", Params: []Param{{Name: "w", T: k.t, Ref: true}}, Ret: Void, Body: seq(one(&ExprStmt{X: &Call{F: inner, Args: []Expr{vr("w", k.t)}}}), k.digest(vr("w", k.t)))}
				out = append(out, &batch.Case{Key: k.name + ":element-by-ref-nested", Desc: "list element passed by Referenz through two calls", Structs: structsOf(k), Funcs: []*Func{inner, outer},
					Body: seq(one(&VarDecl{Name: l.Name, T: l.T, Init: &ListLit{T: l.T, El: []Expr{k.mk(1), k.mk(2)}}}),
						one(&ExprStmt{X: &Call{F: outer, Args: []Expr{&Bin{Op: "index", L: l, R: zl(2), T: k.t}}}}),
						k.digest(&Bin{Op: "index", L: l, R: zl(1), T: k.t}), k.digest(&Bin{Op: "index", L: l, R: zl(2), T: k.t}))})
			}
			if k.t.K == KText {
				n++
				p := fmt.Sprintf("w%d", n)
				e := vr(p+"_e", stQ)
				f := &Func{Name: p + "_setze", Params: []Param{{Name: "w", T: Text, Ref: true}}, Ret: Void, Body: one(&Assign{Target: vr("w", Text), Val: tl("NEU")})}
				out = append(out, &batch.Case{Key: k.name + ":field-by-ref", Desc: "field passed by Referenz", Structs: structsOf(k), Funcs: []*Func{f},
					Body: seq(one(&VarDecl{Name: e.Name, T: stQ, Init: &StructLit{T: stQ, Args: []Expr{k.mk(1), &ListLit{T: ListOf(Zahl)}, byl(2)}}}),
						one(&ExprStmt{X: &Call{F: f, Args: []Expr{&FieldOf{Name: "name", X: e, T: Text}}}}), pr(&FieldOf{Name: "name", X: e, T: Text}))})
			}
		}
	}
	return out
}

func runC08(tier string) int {
	c := ev.New("C08", tier)
	c.Budget(map[string]int{"quick": 420, "thorough": 2700}[tier])
	levels := []uint{1, 2}
	if tier == "thorough" {
		levels = []uint{0, 1, 2}
	}
	cases := append(genC08(), genC08RefPrim()...)
	st := batch.Run(c, cases, batch.Opts{Prop: "C08", Family: "alias", Levels: levels, BatchSize: 10, Asan: true, Extra: func(r rxRun) string {
		if v := memoryVerdictAsanOnly(r); v != "" {
			return v
		}
		return ""
	}})
	cases = append(cases, runC08Shapes(c, tier, levels, &st)...) // family "shape": callee shapes of the value-argument part (c08_shapes.go)
	c.Set("stats", st)
	c.Sample(map[string]any{"case": cases[len(cases)/2].Desc, "key": cases[len(cases)/2].Key})
	c.Sample(map[string]any{"case": cases[len(cases)-3].Desc, "key": cases[len(cases)-3].Key})
	c.Set("evaluations", st.Cases)
	c.Set("states", st.Cases-st.Unspecified)
	c.Set("transitions", st.Runs)
	c.Set("traces_validated_against_impl", st.Runs)
	c.Set("distinct_nontrivial", len(cases))
	c.Set("rule", "state = (value kind, copy construct, mutation form, side mutated, holder location) or one Referenz-aliasing scenario; each compiled at the listed levels on the ASan runtime; both holders are observed before and after the mutation and compared with the cdm (value-semantics) prediction")
	c.Set("bounds", map[string]any{"kinds": len(heapKinds()), "copy_constructs": len(c08Copies()), "mutation_forms": len(c08Mutations()), "opt_levels": levels})
	c.Assume("cdm copies on every initialisation/assignment/argument/return/store and aliases only Referenz parameters — the property statement")
	return c.Finish()
}

func replayC08(dir string) int {
	ok, msg := batch.ReplayDir(dir)
	if !ok {
		fmt.Printf("VIOLATION property=C08 replay=%s\n  %s\n", dir, msg)
		return 1
	}
	fmt.Println("C08 replay:", msg)
	return 0
}

func init() { checks["C08"] = check{runC08, replayC08} }
