package main

// C14 (B) — positions: every ordered pair (S,T) of source-expressible types of the closure is turned
// into a DDP program that declares the needed Kombinationen / aliases / definitions, obtains a value of
// type S (a variable `s` and the expression `der Standardwert von …`) and supplies it where a T is
// required: initialisation, assignment, explicit cast, value argument, return. The real frontend
// (parser.Parse in a worker) decides; diagnostics are attributed to positions by line.

import (
	"encoding/json"
	"fmt"
	"os"
	"path/filepath"
	"sort"
	"strings"
	"sync"
	"sync/atomic"
	"time"

	"ddpmc/internal/ev"
	"ddpmc/internal/fe"
	"ddpmc/internal/par"
	"ddpmc/internal/pool"
	"ddpmc/internal/rx"
	tm "ddpmc/internal/typemodel"
)

type c14Program struct {
	S      string            `json:"S"`
	T      string            `json:"T"`
	Source string            `json:"source"`
	Lines  map[string]int    `json:"lines"`  // label -> 1-based line of the statement
	Expect map[string]string `json:"expect"` // label -> accept|reject (labels the property determines)
	Agree  [][]string        `json:"agree"`  // groups of labels that must have the same outcome
}

var c14Labels = []string{"setup/S", "setup/T",
	"init/var", "init/std", "init/field-var", "init/field-std",
	"assign/var", "assign/std", "assign/field-var", "assign/field-std", "assign/elem-var", "assign/elem-std",
	"cast/var", "cast/std", "cast/ref-assign", "cast/ref-arg", "arg/var", "arg/std", "ret/var", "ret/std",
	"init/void", "assign/void"}

const c14FirstPos, c14EndPos = 2, 20 // c14Labels[c14FirstPos:c14EndPos] are the (S,T) positions
var c14LabelBit = func() map[string]uint {
	m := map[string]uint{}
	for i, l := range c14Labels {
		m[l] = uint(i)
	}
	return m
}()

const c14PosMask = (1<<c14EndPos - 1) &^ (1<<c14FirstPos - 1) // bits of the (S,T) positions (without the two set-up lines and the void row)

func c14Nom(g tm.Gender) string { return [...]string{"Der", "Die", "Das"}[g] }
func c14Akk(g tm.Gender) string { return [...]string{"einen", "eine", "ein"}[g] }
func c14Dat(g tm.Gender) string { return [...]string{"einem", "einer", "einem"}[g] }

// c14Decls: declarations needed to write the given types, parents first.
func c14Decls(nodes []c14Node, idx ...int) []string {
	need := map[int]bool{}
	var mark func(i int)
	mark = func(i int) {
		if i < 0 || need[i] {
			return
		}
		need[i] = true
		mark(nodes[i].spec.Parent)
	}
	for _, i := range idx {
		mark(i)
	}
	var order []int
	for i := range need {
		order = append(order, i)
	}
	sort.Ints(order)
	var out []string
	for _, i := range order {
		n := &nodes[i]
		switch n.spec.Op {
		case "struct":
			out = append(out, "Wir nennen die Kombination aus", "\tder Zahl wert mit Standardwert 1,", c14Akk(n.term.G)+" "+n.name+".")
		case "A":
			p := &nodes[n.spec.Parent]
			out = append(out, fmt.Sprintf("Wir nennen %s %s auch %s %s.", c14Akk(p.term.Gender()), p.src, c14Akk(n.term.G), n.name))
		case "D":
			p := &nodes[n.spec.Parent]
			out = append(out, fmt.Sprintf("Wir definieren %s %s als %s %s.", c14Akk(n.term.G), n.name, c14Akk(p.term.Gender()), p.src))
		}
	}
	return out
}

// c14RefName spells the reference parameter type `T Referenz`.
func c14RefName(T *c14Node) string {
	t := T.term
	switch t.Kind {
	case tm.Prim:
		return [...]string{"Zahlen", "Kommazahlen", "Byte", "Wahrheitswert", "Buchstaben", "Text"}[t.P] + " Referenz"
	case tm.Any:
		return "Variablen Referenz"
	case tm.List:
		return strings.TrimSuffix(T.src, "Liste") + "Listen Referenz"
	}
	return T.src + " Referenz"
}

// c14Gen generates the program for (S,T). only == "" : all positions; otherwise just that one.
func c14Gen(nodes []c14Node, si, ti int, only string) c14Program {
	return c14GenOpt(nodes, si, ti, only, false)
}

// lean: only the positions that take the value from the variable `s` (half the statements).
func c14GenOpt(nodes []c14Node, si, ti int, only string, lean bool) c14Program {
	S, T := &nodes[si], &nodes[ti]
	p := c14Program{S: S.term.Full(), T: T.term.Full(), Lines: map[string]int{}, Expect: map[string]string{}}
	lines := c14Decls(nodes, si, ti)
	add := func(label, text string) {
		lines = append(lines, text)
		if label != "" {
			p.Lines[label] = len(lines)
		}
	}
	want := func(l string) bool {
		return (only == "" || only == l) && !(lean && strings.HasSuffix(l, "std"))
	}
	sStd := "der Standardwert von " + c14Dat(S.term.Gender()) + " " + S.src
	tStd := "der Standardwert von " + c14Dat(T.term.Gender()) + " " + T.src
	tNom := c14Nom(T.term.Gender()) + " " + T.src
	add("setup/S", c14Nom(S.term.Gender())+" "+S.src+" s ist "+sStd+".")
	add("setup/T", tNom+" y ist "+tStd+".")
	if want("init/var") {
		add("init/var", tNom+" x1 ist s.")
	}
	if want("init/std") {
		add("init/std", tNom+" x2 ist "+sStd+".")
	}
	if want("assign/var") {
		add("assign/var", "Speichere s in y.")
	}
	if want("assign/std") {
		add("assign/std", "Speichere "+sStd+" in y.")
	}
	// the same two positions with other kinds of targets: a field with default value, a field, a list element
	tField := [...]string{"dem", "der", "dem"}[T.term.Gender()] + " " + T.src + " feld"
	// a field of a neuter type cannot be declared at all: the parser demands `dem` and then refuses it
	// (genderFromArticle(DEM, isField) yields only MASKULIN) — not a matter of this property
	fieldOK := T.term.Gender() != tm.Neutrum
	if fieldOK && want("init/field-var") {
		add("", "Wir nennen die Kombination aus")
		add("init/field-var", "\t"+tField+" mit Standardwert s,")
		add("", "eine KombI1.")
	}
	if fieldOK && want("init/field-std") {
		add("", "Wir nennen die Kombination aus")
		add("init/field-std", "\t"+tField+" mit Standardwert "+sStd+",")
		add("", "eine KombI2.")
	}
	if fieldOK && (want("assign/field-var") || want("assign/field-std")) {
		add("", "Wir nennen die Kombination aus")
		add("", "\t"+tField+",")
		add("", "eine KombF.")
		add("", "Die KombF kf ist der Standardwert von einer KombF.")
	}
	if fieldOK && want("assign/field-var") {
		add("assign/field-var", "Speichere s in feld von kf.")
	}
	if fieldOK && want("assign/field-std") {
		add("assign/field-std", "Speichere "+sStd+" in feld von kf.")
	}
	if T.term.Kind != tm.List { // `T Liste` can be written
		tList := T.src + " Liste"
		switch T.term.Kind {
		case tm.Prim:
			tList = c14PrimListNames[T.term.P]
		case tm.Any:
			tList = "Variablen Liste"
		}
		if want("assign/elem-var") || want("assign/elem-std") {
			add("", "Die "+tList+" li ist der Standardwert von einer "+tList+".")
		}
		if want("assign/elem-var") {
			add("assign/elem-var", "Speichere s in li an der Stelle 1.")
		}
		if want("assign/elem-std") {
			add("assign/elem-std", "Speichere "+sStd+" in li an der Stelle 1.")
		}
	}
	if want("cast/var") {
		add("cast/var", tNom+" c1 ist s als "+T.src+".")
	}
	if want("cast/std") {
		add("cast/std", tNom+" c2 ist ("+sStd+") als "+T.src+".")
	}
	// the explicit cast in a reference context: the variable s (type S) is used as a T
	if want("cast/ref-assign") {
		add("cast/ref-assign", "Speichere y in s als "+T.src+".")
	}
	if want("cast/ref-arg") {
		add("", "Die Funktion f_ref mit dem Parameter p vom Typ "+c14RefName(T)+", gibt nichts zurück, macht:")
		add("", "\tVerlasse die Funktion.")
		add("", "Und kann so benutzt werden:")
		add("", "\t\"f_ref <p>\"")
		add("cast/ref-arg", "f_ref (s als "+T.src+").")
	}
	if want("arg/var") || want("arg/std") {
		add("", "Die Funktion f_arg mit dem Parameter p vom Typ "+T.src+", gibt nichts zurück, macht:")
		add("", "\tVerlasse die Funktion.")
		add("", "Und kann so benutzt werden:")
		add("", "\t\"f_arg <p>\"")
	}
	if want("arg/var") {
		add("arg/var", "f_arg s.")
	}
	if want("arg/std") {
		add("arg/std", "f_arg ("+sStd+").")
	}
	if want("ret/var") {
		add("", "Die Funktion f_ret1 gibt "+c14Akk(T.term.Gender())+" "+T.src+" zurück, macht:")
		add("ret/var", "\tGib s zurück.")
		add("", "Und kann so benutzt werden:")
		add("", "\t\"f_ret1\"")
	}
	if want("ret/std") {
		add("", "Die Funktion f_ret2 gibt "+c14Akk(T.term.Gender())+" "+T.src+" zurück, macht:")
		add("ret/std", "\tGib "+sStd+" zurück.")
		add("", "Und kann so benutzt werden:")
		add("", "\t\"f_ret2\"")
	}
	p.Source = strings.Join(lines, "\n") + "\n"
	exp := func(v tm.Verdict, ls ...string) {
		for _, l := range ls {
			if _, ok := p.Lines[l]; ok && v != tm.Unspecified {
				p.Expect[l] = v.String()
			}
		}
	}
	exp(tm.Accept, "setup/S", "setup/T")
	exp(tm.Assignable(S.term, T.term), c14Labels[c14FirstPos:c14FirstPos+10]...)
	exp(tm.Castable(S.term, T.term), "cast/var", "cast/std", "cast/ref-assign", "cast/ref-arg")
	exp(tm.Passable(S.term, T.term), "arg/var", "arg/std", "ret/var", "ret/std")
	if only == "" {
		p.Agree = [][]string{c14Labels[c14FirstPos : c14FirstPos+10], {"cast/var", "cast/std"}, {"cast/ref-assign", "cast/ref-arg"}, {"arg/var", "arg/std"}, {"ret/var", "ret/std"}}
	}
	return p
}

// c14GenVoid: a value of type 'nichts' (call of a function that returns nothing) supplied where T is required.
func c14GenVoid(nodes []c14Node, ti int) c14Program {
	T := &nodes[ti]
	p := c14Program{S: "nichts", T: T.term.Full(), Lines: map[string]int{}, Expect: map[string]string{}}
	lines := c14Decls(nodes, ti)
	add := func(label, text string) {
		lines = append(lines, text)
		if label != "" {
			p.Lines[label] = len(lines)
		}
	}
	tNom := c14Nom(T.term.Gender()) + " " + T.src
	add("", "Die Funktion f_nichts gibt nichts zurück, macht:")
	add("", "\tVerlasse die Funktion.")
	add("", "Und kann so benutzt werden:")
	add("", "\t\"tue_nichts\"")
	add("setup/T", tNom+" y ist der Standardwert von "+c14Dat(T.term.Gender())+" "+T.src+".")
	add("init/void", tNom+" x1 ist tue_nichts.")
	add("assign/void", "Speichere tue_nichts in y.")
	p.Source = strings.Join(lines, "\n") + "\n"
	p.Expect["setup/T"] = "accept"
	p.Expect["init/void"] = "reject" // "any value but 'nothing' for Variable"; nothing is equivalent to no type of the closure
	p.Expect["assign/void"] = "reject"
	p.Agree = [][]string{{"init/void", "assign/void"}}
	return p
}

var c14Scratch struct {
	once sync.Once
	dir  string
}

// c14Parse runs the real frontend on the program; returns the set of accepted labels as a bit mask.
func c14Parse(p *c14Program) (mask uint32, broken string) {
	mask, _, broken = c14Parse2(p)
	return
}

// c14Parse2 also returns the set of labels the program contains.
func c14Parse2(p *c14Program) (mask, present uint32, broken string) {
	c14Scratch.once.Do(func() { c14Scratch.dir = rx.Scratch("c14-") })
	var resp fe.Resp
	st, log := rx.CompPool().Do(&fe.Req{Op: "parse", File: filepath.Join(c14Scratch.dir, "c14.ddp"), Source: []byte(p.Source), HasSrc: true}, &resp, 60*time.Second)
	if st != pool.OK {
		return 0, 0, fmt.Sprintf("worker %v: %s", st, log)
	}
	if resp.Panic != "" || resp.Err != "" || !resp.HasModule {
		return 0, 0, fmt.Sprintf("frontend failed: err=%q panic=%q at %s", resp.Err, resp.Panic, resp.PanicSite)
	}
	byLine := map[int]string{}
	for l, n := range p.Lines {
		byLine[n] = l
		mask |= 1 << c14LabelBit[l]
		present |= 1 << c14LabelBit[l]
	}
	nerr := 0
	for _, d := range resp.Diags {
		if d.Level != 2 {
			continue
		}
		nerr++
		l, ok := byLine[int(d.L1)]
		if !ok || d.L1 != d.L2 {
			return 0, 0, "diagnostic outside the test statements (generator is wrong): " + d.String()
		}
		mask &^= 1 << c14LabelBit[l]
	}
	if resp.Faulty != (nerr > 0) {
		return 0, 0, fmt.Sprintf("Faulty=%v but %d error diagnostics (an error was masked)", resp.Faulty, nerr)
	}
	return mask, present, ""
}

// c14Judge compares a mask with the program's expectations.
func c14Judge(p *c14Program, mask uint32, rel, shapes string) (keys, whats []string) {
	acc := func(l string) bool { return mask&(1<<c14LabelBit[l]) != 0 }
	word := map[bool]string{true: "accept", false: "reject"}
	var ls []string
	for l := range p.Expect {
		ls = append(ls, l)
	}
	sort.Strings(ls)
	for _, l := range ls {
		if got := word[acc(l)]; got != p.Expect[l] {
			keys = append(keys, fmt.Sprintf("position:%s:%s-but-property-says-%s:%s", l, got, p.Expect[l], rel))
			whats = append(whats, fmt.Sprintf("S=%s T=%s "+shapes+": position %s (line %d) is %sed by the frontend, the property says %s", p.S, p.T, l, p.Lines[l], got, p.Expect[l]))
		}
	}
	for _, g := range p.Agree {
		for _, l := range g[1:] {
			if _, ok := p.Lines[l]; ok && acc(l) != acc(g[0]) {
				keys = append(keys, fmt.Sprintf("positions-disagree:%s-vs-%s:%s", g[0], l, rel))
				whats = append(whats, fmt.Sprintf("S=%s T=%s "+shapes+": %s (line %d) is %sed but %s (line %d) is %sed", p.S, p.T, g[0], p.Lines[g[0]], word[acc(g[0])], l, p.Lines[l], word[acc(l)]))
			}
		}
	}
	return
}

type c14PosStats struct {
	parses, outcomes int64
	classPairs       int
	bound            string
}

func c14Positions(c *ev.Ctx, u *c14Universe, posDepth int) (st c14PosStats) {
	defer func() {
		rx.CompPool().Close()
		if c14Scratch.dir != "" {
			os.RemoveAll(c14Scratch.dir)
		}
	}()
	nodes := u.nodes
	expr := func(maxDepth int) (idx []int) {
		for i := 0; i < u.depthEnd[maxDepth]; i++ {
			if nodes[i].src != "" {
				idx = append(idx, i)
			}
		}
		return
	}
	isoSum := posDepth - 1 // isolated one-position programs for the pairs (S,T) with depth(S)+depth(T) <= isoSum
	X := expr(posDepth)
	// one level deeper for pure alias/definition chains over Zahl and Text (first alias / first definition at
	// every level): alias of alias of definition, definition of alias of alias, … — the shapes in which
	// declaration-time shortcuts through chains of named types show
	if posDepth+1 < len(u.depthEnd) {
		firstSibling := func(i int) bool {
			for j := 0; j < i; j++ {
				if nodes[j].spec.Op == nodes[i].spec.Op && nodes[j].spec.Parent == nodes[i].spec.Parent {
					return false
				}
			}
			return true
		}
		for i := u.depthEnd[posDepth]; i < u.depthEnd[posDepth+1]; i++ {
			ok := nodes[i].src != ""
			j := i
			for ok && (nodes[j].spec.Op == "A" || nodes[j].spec.Op == "D") {
				ok = firstSibling(j)
				j = nodes[j].spec.Parent
			}
			if ok && nodes[j].spec.Op == "prim" && (nodes[j].spec.P == 0 || nodes[j].spec.P == 5) {
				X = append(X, i)
			}
		}
	}
	// pairs of total depth > posDepth get the short program (value taken from the variable only)
	lean := func(si, ti int) bool { return nodes[si].term.Depth+nodes[ti].term.Depth > posDepth }
	c.Set("position_types_expressible", len(X))
	c.Set("position_types_not_expressible", u.depthEnd[posDepth]-len(X))
	st.bound = fmt.Sprintf("all ordered pairs of the %d source-expressible types of depth <= %d (not expressible: list of an unnamed list, definition of Variable), up to 16 positions each (no list-element target when T is an unnamed list type, no field targets when T is neuter: such a field cannot be declared); 'nichts' x every T; the positions that take the value from `der Standardwert von …` instead of a variable only for pairs of total depth <= the position depth; isolated one-position programs for pairs of total depth <= %d", len(X), posDepth, isoSum)
	var parses, outcomes, unspecified int64
	var mu sync.Mutex
	seenKey := map[string]bool{}
	first := func(k string) bool {
		mu.Lock()
		defer mu.Unlock()
		if seenKey[k] {
			return false
		}
		seenKey[k] = true
		return true
	}
	var brokenOnce sync.Once
	broken := func(msg string, p *c14Program) {
		brokenOnce.Do(func() { c.Broken(msg + "\n--- program (S=" + p.S + " T=" + p.T + ")\n" + p.Source) })
	}
	// confirm re-executes a deviating program twice more (3 identical results in total)
	confirm := func(p *c14Program, mask uint32) bool {
		for r := 0; r < 2; r++ {
			m2, b := c14Parse(p)
			atomic.AddInt64(&parses, 1)
			if b != "" || m2 != mask {
				broken(fmt.Sprintf("result not reproducible: %x vs %x %s", mask, m2, b), p)
				return false
			}
		}
		return true
	}
	reportProg := func(p *c14Program, mask uint32, keys, whats []string) {
		confirmed := false
		for i, k := range keys {
			if !first(k) {
				continue
			}
			if !confirmed {
				if !confirm(p, mask) {
					return
				}
				confirmed = true
			}
			b, _ := json.MarshalIndent(c14Case{Kind: "position", Programs: []c14Program{*p}}, "", " ")
			c.Violation("C14:"+k, whats[i]+"\n--- program\n"+p.Source, map[string]string{"case.json": string(b), "program.ddp": p.Source})
		}
	}
	// ---- generator validation + 'nichts' row ------------------------------------------------
	par.Each(X, 0, func(_ int, ti int) {
		if c.Expired() {
			return
		}
		p := c14GenVoid(nodes, ti)
		mask, b := c14Parse(&p)
		atomic.AddInt64(&parses, 1)
		if b != "" {
			broken(b, &p)
			return
		}
		atomic.AddInt64(&outcomes, 2)
		if keys, whats := c14Judge(&p, mask, "nichts", "(nichts->"+nodes[ti].term.Shape()+")"); len(keys) > 0 {
			reportProg(&p, mask, keys, whats)
		}
	})
	// ---- all ordered pairs --------------------------------------------------------------------
	n := int64(len(X))
	masks := make([]uint32, n*n)
	pres := make([]uint32, n*n)
	valid := make([]bool, n*n)
	// the pairs are visited in a fixed stride order (a bijection of the index space), so that a run that
	// hits its deadline has covered all depths and kinds evenly; a complete run visits every pair once
	stride := int64(1000003)
	for c14Gcd(stride, n*n) != 1 {
		stride++
	}
	done := par.Range(n*n, 32, c.Expired, func(lo, hi int64) {
		var lp, lo2, lu int64
		for q0 := lo; q0 < hi; q0++ {
			q := int64((uint64(q0) * uint64(stride)) % uint64(n*n))
			si, ti := X[q/n], X[q%n]
			p := c14GenOpt(nodes, si, ti, "", lean(si, ti))
			mask, pr, b := c14Parse2(&p)
			lp++
			if b != "" {
				broken(b, &p)
				continue
			}
			masks[q], pres[q], valid[q] = mask, pr, true
			lo2 += int64(len(p.Lines) - 2)
			lu += int64(len(p.Lines) - len(p.Expect))
			if keys, whats := c14Judge(&p, mask, tm.Relation(nodes[si].term, nodes[ti].term), "("+nodes[si].term.Shape()+"->"+nodes[ti].term.Shape()+")"); len(keys) > 0 {
				reportProg(&p, mask, keys, whats)
			}
		}
		atomic.AddInt64(&parses, lp)
		atomic.AddInt64(&outcomes, lo2)
		atomic.AddInt64(&unspecified, lu)
	})
	c.Add("position_pairs", done)
	if done < n*n {
		c.Capped(fmt.Sprintf("positions: %d of %d ordered pairs", done, n*n))
	}
	// ---- invariance under aliases: equivalent sources and equivalent targets behave identically
	type rep struct {
		q    int64
		mask uint32
	}
	classes := map[string]rep{}
	var invChecked int64
	for q := int64(0); q < n*n; q++ {
		if !valid[q] {
			continue
		}
		si, ti := X[q/n], X[q%n]
		k := nodes[si].term.NF() + "|" + nodes[ti].term.NF()
		r, ok := classes[k]
		if !ok {
			classes[k] = rep{q, masks[q]}
			continue
		}
		invChecked++
		if diff := (r.mask ^ masks[q]) & c14PosMask & pres[r.q] & pres[q]; diff != 0 {
			for _, l := range c14Labels {
				if diff&(1<<c14LabelBit[l]) == 0 {
					continue
				}
				a, b := X[r.q/n], X[r.q%n]
				key := fmt.Sprintf("alias-changes-outcome:%s:%s", l, tm.Relation(nodes[si].term, nodes[ti].term))
				if !first(key) {
					continue
				}
				p1, p2 := c14GenOpt(nodes, a, b, "", lean(a, b)), c14GenOpt(nodes, si, ti, "", lean(si, ti))
				if !confirm(&p1, r.mask) || !confirm(&p2, masks[q]) {
					continue
				}
				js, _ := json.MarshalIndent(c14Case{Kind: "invariance", Programs: []c14Program{p1, p2}, Label: l}, "", " ")
				c.Violation("C14:"+key, fmt.Sprintf("position %s: (S=%s, T=%s) and (S=%s, T=%s) differ only by aliases (normal forms %s) but one is accepted and the other rejected\n--- program 1\n%s--- program 2\n%s",
					l, p1.S, p1.T, p2.S, p2.T, k, p1.Source, p2.Source), map[string]string{"case.json": string(js), "program1.ddp": p1.Source, "program2.ddp": p2.Source})
			}
		}
	}
	for k := range classes {
		if i := strings.IndexByte(k, '|'); k[:i] != k[i+1:] {
			st.classPairs++
		}
	}
	c.Set("position_equivalence_class_pairs", len(classes))
	c.Set("position_alias_invariance_comparisons", invChecked)
	// ---- isolated programs: one position per program must give what the batched program gave ----
	var isoPairs []int64
	for q := int64(0); q < n*n; q++ {
		if valid[q] && nodes[X[q/n]].term.Depth+nodes[X[q%n]].term.Depth <= isoSum {
			isoPairs = append(isoPairs, q)
		}
	}
	m := int64(len(isoPairs))
	var isoDone int64
	idone := par.Range(m, 8, c.Expired, func(lo, hi int64) {
		for x := lo; x < hi; x++ {
			bq := isoPairs[x]
			si, ti := X[bq/n], X[bq%n]
			for _, l := range c14Labels[c14FirstPos:c14EndPos] {
				bit := uint32(1) << c14LabelBit[l]
				if pres[bq]&bit == 0 {
					continue // this position is not part of the batched program (cannot be written for T / short program)
				}
				p := c14Gen(nodes, si, ti, l)
				mask, b := c14Parse(&p)
				atomic.AddInt64(&parses, 1)
				if b != "" {
					broken(b, &p)
					continue
				}
				if mask&bit != masks[bq]&bit {
					broken(fmt.Sprintf("position %s alone gives %x, inside the batched program %x: statements of the batched program influence each other", l, mask, masks[bq]), &p)
				}
				atomic.AddInt64(&isoDone, 1)
			}
		}
	})
	if idone < m {
		c.Capped(fmt.Sprintf("isolated cross-check: %d of %d pairs", idone, m))
	}
	c.Set("position_isolated_pairs", idone)
	c.Set("position_isolated_crosschecks", isoDone)
	c.Set("excluded_unspecified", unspecified)
	c.Set("position_parses", parses)
	c.Set("position_outcomes", outcomes)
	ex := c14Gen(nodes, X[len(X)/2], X[len(X)/3], "")
	c.Sample(map[string]any{"space": "positions", "S": ex.S, "T": ex.T, "program": ex.Source, "expect": ex.Expect})
	st.parses, st.outcomes = parses, outcomes
	return
}

func c14Gcd(a, b int64) int64 {
	for b != 0 {
		a, b = b, a%b
	}
	return a
}

// c14ReplayPrograms re-runs the programs of a stored case through the real frontend.
func c14ReplayPrograms(cs *c14Case) (msgs []string, broken string) {
	defer func() {
		rx.CompPool().Close()
		if c14Scratch.dir != "" {
			os.RemoveAll(c14Scratch.dir)
		}
	}()
	var masks []uint32
	for i := range cs.Programs {
		p := &cs.Programs[i]
		mask, b := c14Parse(p)
		if b != "" {
			return nil, b
		}
		masks = append(masks, mask)
		_, whats := c14Judge(p, mask, "", "")
		if cs.Kind == "position" {
			msgs = append(msgs, whats...)
		}
	}
	if cs.Kind == "invariance" && len(masks) == 2 {
		bit := uint32(1) << c14LabelBit[cs.Label]
		if masks[0]&bit != masks[1]&bit {
			msgs = append(msgs, fmt.Sprintf("position %s: (S=%s, T=%s) and (S=%s, T=%s) differ only by aliases but the outcomes differ", cs.Label, cs.Programs[0].S, cs.Programs[0].T, cs.Programs[1].S, cs.Programs[1].T))
		}
	}
	return
}
