package main

// C12 — client side of the C driver c/rt_text.c (one request line -> one answer line), death
// classification (ASan report / Laufzeitfehler / signal / hang) and the judge that compares an answer
// with the []rune model (internal/textmodel).

import (
	"bufio"
	"bytes"
	"encoding/hex"
	"fmt"
	"io"
	"os/exec"
	"path/filepath"
	"regexp"
	"runtime"
	"strconv"
	"strings"
	"sync"
	"sync/atomic"
	"syscall"
	"time"

	"ddpmc/internal/ev"
	"ddpmc/internal/rx"
	"ddpmc/internal/textmodel"
)

type rtDeath struct {
	Gone   bool   // the whole driver process is gone (otherwise only the serving child died and was re-forked)
	RW     string // READ | WRITE for an ASan report
	Class  string // asan-<kind>@<function> | laufzeitfehler | segv | signal-<name> | exit-<n> | hang | protocol
	Detail string // first informative line of stderr
	Part   string // partial answer line received before the process went away
}

type lockedBuf struct {
	mu sync.Mutex
	b  bytes.Buffer
}

func (l *lockedBuf) Write(p []byte) (int, error) {
	l.mu.Lock()
	defer l.mu.Unlock()
	if l.b.Len() < 1<<16 {
		l.b.Write(p)
	}
	return len(p), nil
}
func (l *lockedBuf) String() string { l.mu.Lock(); defer l.mu.Unlock(); return l.b.String() }

type rtProc struct {
	cmd  *exec.Cmd
	in   io.WriteCloser
	out  *bufio.Reader
	errb *lockedBuf
	hung int32
}

func rtStart(plain bool) (*rtProc, error) { return rtStartOpt(plain, false) }

// rtStartOpt: a verbose driver symbolizes ASan reports and attaches them to the answer.
func rtStartOpt(plain, verbose bool) (*rtProc, error) {
	exe := filepath.Join(rx.VDir, "rt_text")
	if plain {
		exe += "_plain"
	}
	cmd := exec.Command(exe)
	// the frame-pointer unwinder makes a (recovered) report 3x cheaper; only the verbose driver, whose
	// report is shown to humans, uses the precise one and symbolizes
	sym := "symbolize=0:fast_unwind_on_fatal=1:malloc_context_size=1:print_legend=0"
	if verbose {
		sym = "symbolize=1"
	}
	// the same controlled environment compiled programs get (LOCPATH: de_DE.UTF-8 for setlocale in ddp_init_runtime)
	cmd.Env = append(rx.Env(), "ASAN_OPTIONS=detect_leaks=0:abort_on_error=0:exitcode=99:allocator_may_return_null=1:quarantine_size_mb=1:thread_local_quarantine_size_kb=16:halt_on_error=0:suppress_equal_pcs=0:"+sym)
	if verbose {
		cmd.Env = append(cmd.Env, "RT_TEXT_ASAN_REPORT=1")
	}
	cmd.SysProcAttr = &syscall.SysProcAttr{Setpgid: true}
	in, err := cmd.StdinPipe()
	if err != nil {
		return nil, err
	}
	out, err := cmd.StdoutPipe()
	if err != nil {
		return nil, err
	}
	p := &rtProc{cmd: cmd, in: in, out: bufio.NewReaderSize(out, 1<<16), errb: &lockedBuf{}}
	cmd.Stderr = p.errb
	if err := cmd.Start(); err != nil {
		return nil, err
	}
	return p, nil
}

func (p *rtProc) close() {
	if p == nil {
		return
	}
	p.in.Close()
	done := make(chan struct{})
	go func() { p.cmd.Wait(); close(done) }()
	select {
	case <-done:
	case <-time.After(5 * time.Second):
		syscall.Kill(-p.cmd.Process.Pid, syscall.SIGKILL)
		<-done
	}
}

var (
	reAsan  = regexp.MustCompile(`ERROR: AddressSanitizer: ([A-Za-z-]+)`)
	reFrame = regexp.MustCompile(`#\d+ 0x[0-9a-f]+ in (\w+) \S*lib/runtime/source/`)
	reLzf   = regexp.MustCompile(`Laufzeitfehler: ([^\n]*)`)
)

// died collects the reason after the answer stream ended.
func (p *rtProc) died(part string) *rtDeath {
	hung := atomic.LoadInt32(&p.hung) != 0
	p.in.Close()
	err := p.cmd.Wait()
	se := p.errb.String()
	d := &rtDeath{Gone: true, Part: strings.TrimRight(part, "\n")}
	if hung {
		d.Class = "hang"
		return d
	}
	exit, sig := -1, ""
	if ee, ok := err.(*exec.ExitError); ok {
		if ws, ok := ee.Sys().(syscall.WaitStatus); ok && ws.Signaled() {
			sig = ws.Signal().String()
		} else {
			exit = ee.ExitCode()
		}
	} else if err == nil {
		exit = 0
	}
	classifyDeath(d, se, exit, sig)
	return d
}

// classifyDeath fills Class/Detail from what the dying process wrote to stderr and how it ended.
func classifyDeath(d *rtDeath, se string, exit int, sig string) {
	switch {
	case reAsan.MatchString(se):
		if strings.Contains(se, "WRITE of size") {
			d.RW = "WRITE"
		} else if strings.Contains(se, "READ of size") {
			d.RW = "READ"
		}
		d.Class = "asan-" + reAsan.FindStringSubmatch(se)[1]
		if m := reFrame.FindStringSubmatch(se); m != nil {
			d.Class += "@" + m[1]
		}
		d.Detail = reAsan.FindString(se)
		if i := strings.Index(se, "SUMMARY:"); i >= 0 {
			d.Detail = strings.SplitN(se[i:], "\n", 2)[0]
		}
	case strings.Contains(se, "Laufzeitfehler: Segmentation fault"):
		d.Class, d.Detail = "segv", "Laufzeitfehler: Segmentation fault"
	case reLzf.MatchString(se):
		d.Class, d.Detail = "laufzeitfehler", reLzf.FindString(se)
	case strings.Contains(se, "rt_text: protocol error"):
		d.Class, d.Detail = "protocol", strings.TrimSpace(se)
	default:
		if sig != "" {
			d.Class = "signal-" + sig
		} else {
			d.Class = fmt.Sprintf("exit-%d", exit)
		}
		d.Detail = strings.TrimSpace(se)
		if len(d.Detail) > 300 {
			d.Detail = d.Detail[:300]
		}
	}
}

var reDied = regexp.MustCompile(`^(.*?) ?DIED st=(-?\d+) sig=(\d+) msg=([0-9a-f]*)$`)

// ask sends one request and reads answer lines until fn says it has enough (fn == nil: exactly one line).
// On death the caller must start a new process.
func (p *rtProc) ask(req string, timeout time.Duration, fn func(line string) bool) *rtDeath {
	t := time.AfterFunc(timeout, func() {
		atomic.StoreInt32(&p.hung, 1)
		syscall.Kill(-p.cmd.Process.Pid, syscall.SIGKILL)
	})
	defer t.Stop()
	if _, err := io.WriteString(p.in, req+"\n"); err != nil {
		return p.died("")
	}
	for {
		line, err := p.out.ReadString('\n')
		if err != nil {
			return p.died(line)
		}
		line = strings.TrimRight(line, "\n")
		if m := reDied.FindStringSubmatch(line); m != nil {
			// the serving child died on this request; the driver has already forked a new one
			d := &rtDeath{Part: strings.TrimSpace(m[1])}
			msg, _ := hex.DecodeString(m[4])
			exit, _ := strconv.Atoi(m[2])
			sig := ""
			if n, _ := strconv.Atoi(m[3]); n != 0 {
				sig = syscall.Signal(n).String()
			}
			classifyDeath(d, string(msg), exit, sig)
			return d
		}
		if fn == nil || fn(line) {
			return nil
		}
	}
}

// ---------------------------------------------------------------- jobs on a pool of driver processes

type rtJob struct {
	req     string // full request line ("P ...", "NEG ...")
	resp    string
	death   *rtDeath
	skipped bool // not executed: internal deadline
}

func rtWorkers() int {
	w := runtime.NumCPU()
	if w > 16 {
		w = 16
	}
	if w < 1 {
		w = 1
	}
	return w
}

// rtRun executes all jobs (one answer line each) on rtWorkers() driver processes. A job that kills the
// driver gets .death; the driver is restarted and the remaining jobs continue. Returns false if a
// driver could not be started at all (infrastructure).
func rtRun(c *ev.Ctx, jobs []*rtJob) bool {
	var next int64
	var wg sync.WaitGroup
	var bad int32
	for k := 0; k < rtWorkers(); k++ {
		wg.Add(1)
		go func() {
			defer wg.Done()
			var p *rtProc
			defer func() { p.close() }()
			for {
				i := int(atomic.AddInt64(&next, 1) - 1)
				if i >= len(jobs) || atomic.LoadInt32(&bad) != 0 {
					return
				}
				if p == nil {
					var err error
					if p, err = rtStart(false); err != nil {
						c.Broken("cannot start rt_text: " + err.Error())
						atomic.StoreInt32(&bad, 1)
						return
					}
				}
				j := jobs[i]
				if c.Expired() {
					j.skipped = true
					continue
				}
				if d := p.ask(j.req, 30*time.Second, func(l string) bool { j.resp = l; return true }); d != nil {
					j.death = d
					if d.Gone {
						p = nil
					}
					if d.Class == "protocol" {
						c.Broken("rt_text protocol error on " + j.req + ": " + d.Detail)
					}
				}
			}
		}()
	}
	wg.Wait()
	return atomic.LoadInt32(&bad) == 0
}

// rtOnce runs a single request on a fresh driver process (used for re-execution and replay);
// stepMode: flush after every runtime call so that a partial answer shows the call that did not return.
func rtOnce(req string, plain, stepMode bool) (string, *rtDeath, error) {
	p, err := rtStart(plain)
	if err != nil {
		return "", nil, err
	}
	if stepMode {
		req = "U " + req
	}
	var resp string
	d := p.ask(req, 30*time.Second, func(l string) bool { resp = l; return true })
	if d == nil || !d.Gone {
		p.close()
	}
	return resp, d, nil
}

// ---------------------------------------------------------------- answers

type rtTop struct {
	has    bool
	cap    int
	sl     int
	buf    []byte
	length int
	idx    []int64
}

type rtAns struct {
	eq      []int
	top     rtTop
	asan    []string // ASan reports during the request (kind/READ|WRITE); the driver recovers from them
	asanRep string   // first report in full (only from verbose drivers)
}

var reAsanRep = regexp.MustCompile(` asanrep=[0-9a-f]*`)

// asanSummary: the informative lines of a (symbolized) report.
func asanSummary(rep string) string {
	var keep []string
	for _, l := range strings.Split(rep, "\n") {
		t := strings.TrimSpace(l)
		if strings.Contains(t, "ERROR: AddressSanitizer") || strings.HasPrefix(t, "READ of size") || strings.HasPrefix(t, "WRITE of size") ||
			(strings.HasPrefix(t, "#") && strings.Contains(t, "lib/runtime/source")) || strings.Contains(t, "is located") {
			keep = append(keep, t)
		}
		if len(keep) >= 8 {
			break
		}
	}
	return strings.Join(keep, " | ")
}

func parseRaw(v string) (capv int, buf []byte, rest []string, err error) {
	parts := strings.Split(v, ":")
	if len(parts) < 2 {
		return 0, nil, nil, fmt.Errorf("bad value %q", v)
	}
	if capv, err = strconv.Atoi(parts[0]); err != nil {
		return
	}
	if buf, err = hex.DecodeString(parts[1]); err != nil {
		return
	}
	return capv, buf, parts[2:], nil
}

func parseIdx(v string) ([]int64, error) {
	if v == "" {
		return nil, nil
	}
	var out []int64
	for _, s := range strings.Split(v, ",") {
		n, err := strconv.ParseUint(s, 16, 32)
		if err != nil {
			return nil, err
		}
		out = append(out, int64(int32(uint32(n))))
	}
	return out, nil
}

func parseAns(resp string) (rtAns, error) {
	var a rtAns
	for _, f := range strings.Fields(resp) {
		if f == "top" || f == "empty" {
			continue
		}
		kv := strings.SplitN(f, "=", 2)
		if len(kv) != 2 {
			return a, fmt.Errorf("bad field %q", f)
		}
		var err error
		switch kv[0] {
		case "asan":
			a.asan = append(a.asan, kv[1])
		case "asanrep":
			if b, e := hex.DecodeString(kv[1]); e == nil && a.asanRep == "" {
				a.asanRep = string(b)
			}
		case "eq":
			n, e := strconv.Atoi(kv[1])
			a.eq, err = append(a.eq, n), e
		case "cap":
			a.top.has = true
			a.top.cap, err = strconv.Atoi(kv[1])
		case "sl":
			a.top.sl, err = strconv.Atoi(kv[1])
		case "buf":
			a.top.buf, err = hex.DecodeString(kv[1])
		case "len":
			a.top.length, err = strconv.Atoi(kv[1])
		case "idx":
			a.top.idx, err = parseIdx(kv[1])
		default:
			err = fmt.Errorf("unknown field %q", f)
		}
		if err != nil {
			return a, err
		}
	}
	return a, nil
}

// contentOf: the bytes before the first NUL of a buffer of cap bytes.
func contentOf(buf []byte) (content []byte, terminated bool) {
	i := bytes.IndexByte(buf, 0)
	if i < 0 {
		return buf, len(buf) == 0
	}
	return buf[:i], true
}

func (t rtTop) slack() int {
	if t.cap == 0 {
		return 0
	}
	return t.cap - t.sl - 1
}

func runesStr(rs []rune) string {
	var sb strings.Builder
	sb.WriteString("\"" + string(rs) + "\" [")
	for i, r := range rs {
		if i > 0 {
			sb.WriteString(" ")
		}
		fmt.Fprintf(&sb, "U+%04X", r)
	}
	sb.WriteString("]")
	return sb.String()
}

// checkTop compares the dump of a real ddpstring with the code-point view `want`.
func checkTop(t rtTop, want []rune) (kind, what string) {
	content, term := contentOf(t.buf)
	switch {
	case !term:
		return "no-terminator", fmt.Sprintf("no NUL inside the %d buffer bytes %x", t.cap, t.buf)
	case t.cap != len(t.buf):
		return "cap", fmt.Sprintf("cap=%d but %d bytes dumped", t.cap, len(t.buf))
	case t.sl != len(content):
		return "strlen", fmt.Sprintf("ddp_strlen=%d, first NUL at %d (buffer %x)", t.sl, len(content), t.buf)
	case !bytes.Equal(content, textmodel.Enc(want)):
		return "content", fmt.Sprintf("buffer holds %x = %q (cap %d, all bytes %x), code-point model says %s = %x", content, content, t.cap, t.buf, runesStr(want), textmodel.Enc(want))
	case t.length != len(want):
		return "length", fmt.Sprintf("ddp_string_length=%d, model %d for %s", t.length, len(want), runesStr(want))
	case len(t.idx) != len(want):
		return "index", fmt.Sprintf("ddp_string_index gave %d characters %x, model %s", len(t.idx), t.idx, runesStr(want))
	}
	for i, r := range want {
		if t.idx[i] != int64(r) {
			return "index", fmt.Sprintf("ddp_string_index(%d)=U+%04X, model U+%04X in %s", i+1, t.idx[i], r, runesStr(want))
		}
	}
	return "", ""
}

// judgeProg evaluates the model on a postfix program and compares the driver's answer.
// kind "" = agrees. ans is returned for the explorer (slack, buffer image).
func judgeProg(prog, resp string, death *rtDeath) (kind, what string, ans rtAns, out textmodel.Outcome) {
	out, err := textmodel.Eval(prog)
	if err != nil {
		return "model-error", err.Error(), ans, out
	}
	if out.OutOfDomain {
		return "out-of-domain", "program leaves the domain of the property (explorer bug)", ans, out
	}
	if death != nil {
		w := fmt.Sprintf("the driver process died (%s) while executing this history: %s", death.Class, death.Detail)
		if death.Part != "" {
			w += "; answered before dying: " + death.Part
		}
		if death.RW != "" {
			// an ASan report the driver could not recover from: same class as a recovered one
			return "asan:invalid-" + death.RW, w, ans, out
		}
		return "crash:" + death.Class, w, ans, out
	}
	ans, err = parseAns(resp)
	if err != nil {
		return "protocol", "unparsable answer " + resp + ": " + err.Error(), ans, out
	}
	if len(ans.eq) != len(out.Eq) {
		return "protocol", fmt.Sprintf("%d EQ answers, %d expected", len(ans.eq), len(out.Eq)), ans, out
	}
	if len(ans.asan) > 0 {
		w := "AddressSanitizer reports " + strings.Join(ans.asan, ", ") + " inside the runtime while executing this history"
		if ans.asanRep != "" {
			w += ": " + asanSummary(ans.asanRep)
		}
		for i, e := range out.Eq {
			w += fmt.Sprintf("; ddp_string_equal returned %d, model %v", ans.eq[i], e)
		}
		if len(out.Stack) > 0 && ans.top.has {
			if k, w2 := checkTop(ans.top, out.Top()); k != "" {
				w += "; the result is also wrong (" + k + "): " + w2
			}
		}
		return "asan:" + asanRW(ans.asan[0]), w, ans, out
	}
	for i, e := range out.Eq {
		if (ans.eq[i] != 0) != e {
			if e {
				return "eq-false", "ddp_string_equal says the texts differ, their code-point sequences are equal", ans, out
			}
			return "eq-true", "ddp_string_equal says the texts are equal, their code-point sequences differ", ans, out
		}
	}
	if len(out.Stack) > 0 {
		if !ans.top.has {
			return "protocol", "no dump of the top of the stack", ans, out
		}
		if k, w := checkTop(ans.top, out.Top()); k != "" {
			return k, w, ans, out
		}
	}
	return "", "", ans, out
}

// explainProg renders a history for humans.
func explainProg(prog string) string {
	var sb strings.Builder
	for i, tok := range strings.Fields(prog) {
		if i > 0 {
			sb.WriteString(" ; ")
		}
		switch {
		case tok == "SS":
			sb.WriteString("str·str")
		case tok == "D":
			sb.WriteString("deep_copy")
		case tok == "EQ":
			sb.WriteString("ddp_string_equal(second-from-top, top)")
		case strings.HasPrefix(tok, "K"):
			b, _ := hex.DecodeString(tok[1:])
			fmt.Fprintf(&sb, "from_constant(%q)", string(b))
		case strings.HasPrefix(tok, "SC"):
			n, _ := strconv.ParseInt(tok[2:], 16, 64)
			fmt.Fprintf(&sb, "str·char(%q)", rune(n))
		case strings.HasPrefix(tok, "CS"):
			n, _ := strconv.ParseInt(tok[2:], 16, 64)
			fmt.Fprintf(&sb, "char(%q)·str", rune(n))
		case strings.HasPrefix(tok, "SL"):
			fmt.Fprintf(&sb, "slice(%s)", tok[2:])
		case strings.HasPrefix(tok, "R"):
			p := strings.SplitN(tok[1:], ",", 2)
			n, _ := strconv.ParseInt(p[1], 16, 64)
			fmt.Fprintf(&sb, "replace(at %s by %q)", p[0], rune(n))
		default:
			sb.WriteString(tok)
		}
	}
	return sb.String()
}
