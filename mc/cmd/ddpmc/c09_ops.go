package main

// C09 — operator overloads: every overloadable unary / binary operator, overloaded by every set of
// <=2 signatures over {Kom, Zahl, Text} x {value, Referenz} + {T, T Referenz}, applied to every
// operand (pair) from {k, kneu, x, 1, t, "s", 2,5}. Observed: UnaryExpr/BinaryExpr.OverloadedBy in the
// AST of the real frontend; oracle: callmodel.ResolveOverload (exact types, Referenz needs an
// assignable operand, non-generic before generic, more Referenz first; otherwise built-in).

import (
	"encoding/json"
	"fmt"
	"os"
	"path/filepath"
	"strings"
	"sync"

	am "ddpmc/internal/callmodel"
	"ddpmc/internal/par"
	"ddpmc/internal/rx"
)

type c09Op struct {
	name  string // as in `überlädt den "name" Operator` and ast.Operator.String()
	arity int
	tmpl  string // surface syntax, %s = operands
}

var c09OpsList = []c09Op{
	{"Betrag", 1, "der Betrag von %s"},
	{"Länge", 1, "die Länge von %s"},
	{"unäres minus", 1, "-%s"},
	{"nicht", 1, "nicht %s"},
	{"logisch nicht", 1, "logisch nicht %s"},
	{"plus", 2, "%s plus %s"},
	{"gleich", 2, "%s gleich %s ist"},
	{"an der Stelle", 2, "%s an der Stelle %s"},
	{"und", 2, "%s und %s"},
	{"oder", 2, "%s oder %s"},
	{"entweder ... oder", 2, "entweder %s, oder %s"},
	{"verkettet mit", 2, "%s verkettet mit %s"},
	{"minus", 2, "%s minus %s"},
	{"mal", 2, "%s mal %s"},
	{"durch", 2, "%s durch %s"},
	{"modulo", 2, "%s modulo %s"},
	{"hoch", 2, "%s hoch %s"},
	{"logarithmus", 2, "der Logarithmus von %s zur Basis %s"},
	{"logisch und", 2, "%s logisch und %s"},
	{"logisch oder", 2, "%s logisch oder %s"},
	{"logisch kontra", 2, "%s logisch kontra %s"},
	{"links verschiebung", 2, "%s um %s Bit nach Links verschoben"},
	{"rechts verschiebung", 2, "%s um %s Bit nach Rechts verschoben"},
	{"ungleich", 2, "%s ungleich %s ist"},
	{"kleiner als", 2, "%s kleiner als %s ist"},
	{"größer als", 2, "%s größer als %s ist"},
	{"kleiner als, oder", 2, "%s kleiner als, oder %s ist"},
	{"größer als, oder", 2, "%s größer als, oder %s ist"},
	{"bis zum", 2, "%s bis zum %s. Element"},
	{"ab dem", 2, "%s ab dem %s. Element"},
}

// parameter options of an overload
type c09OTy struct {
	code, ddp, model string
	generic, ref     bool
	list             bool
}

var c09OTys = []c09OTy{
	{"K", "Kom", "Kom", false, false, false},
	{"Z", "Zahl", "Zahl", false, false, false},
	{"X", "Text", "Text", false, false, false},
	{"KR", "Kom Referenz", "Kom", false, true, false},
	{"ZR", "Zahlen Referenz", "Zahl", false, true, false},
	{"XR", "Text Referenz", "Text", false, true, false},
	{"T", "T", "T", true, false, false},
	{"TR", "T Referenz", "T", true, true, false},
	{"KL", "Kom Liste", "Kom", false, false, true},
	{"TL", "T Liste", "T", true, false, true},
}

type c09Operand struct {
	text, render string
	am.Operand
}

var c09Operands = []c09Operand{
	{"k", "k", am.Operand{Text: "k", Type: "Kom", Assignable: true, UserType: true}},
	{"kneu", "struct Kom{}", am.Operand{Text: "kneu", Type: "Kom", UserType: true}},
	{"x", "x", am.Operand{Text: "x", Type: "Zahl", Assignable: true}},
	{"1", "1", am.Operand{Text: "1", Type: "Zahl"}},
	{"t", "t", am.Operand{Text: "t", Type: "Text", Assignable: true}},
	{"\"s\"", "\"s\"", am.Operand{Text: "\"s\"", Type: "Text"}},
	// a numeric type that no overload names: convertible to Zahl, not equal to it
	{"2,5", "2,5", am.Operand{Text: "2,5", Type: "Kommazahl"}},
	// a list of the Kombination: a user-defined type behind a list (generic `T Liste` overloads apply)
	{"kl", "kl", am.Operand{Text: "kl", Type: "Kom Liste", Assignable: true, UserType: true}},
}

// c09OpCase: one operator + overload set + which overloads live in the imported module.
type c09OpCase struct {
	Op   int     `json:"op"`
	Sigs [][]int `json:"sigs"` // per overload: parameter option per position
	Imp  int     `json:"imp"`  // bit i: overload i is declared in module m
	// replay only
	Apply []int `json:"apply,omitempty"`
}

func (oc c09OpCase) id() string {
	var s []string
	for i, sig := range oc.Sigs {
		var p []string
		for _, t := range sig {
			p = append(p, c09OTys[t].code)
		}
		x := "(" + strings.Join(p, ",") + ")"
		if oc.Imp&(1<<i) != 0 {
			x += "@m"
		}
		s = append(s, x)
	}
	if len(s) == 0 {
		return c09OpsList[oc.Op].name + "{}"
	}
	return c09OpsList[oc.Op].name + "{" + strings.Join(s, "+") + "}"
}

func (oc c09OpCase) model() []*am.Overload {
	var out []*am.Overload
	for i, sig := range oc.Sigs {
		o := &am.Overload{Name: fmt.Sprintf("o%d", i+1)}
		for k, t := range sig {
			ty := c09OTys[t]
			o.Params = append(o.Params, am.Param{Name: []string{"a", "b"}[k], Type: ty.model, Generic: ty.generic, Ref: ty.ref, List: ty.list})
		}
		out = append(out, o)
	}
	return out
}

const c09KomDecl = "Wir nennen die öffentliche Kombination aus\n\tder öffentlichen Zahl w mit Standardwert 0,\neinen Kom, und erstellen sie so:\n\t\"kneu\"\n"

// text returns main.ddp (header only), m.ddp ("" = none).
func (oc c09OpCase) text() (main, mod string) {
	var sb, mb strings.Builder
	decl := func(i int) string {
		sig := oc.Sigs[i]
		var b strings.Builder
		gen, pub := "", ""
		for _, t := range sig {
			if c09OTys[t].generic {
				gen = "generische "
			}
		}
		if oc.Imp&(1<<i) != 0 {
			pub = "öffentliche "
		}
		fmt.Fprintf(&b, "Die %s%sFunktion o%d ", pub, gen, i+1)
		if len(sig) == 1 {
			fmt.Fprintf(&b, "mit dem Parameter a vom Typ %s", c09OTys[sig[0]].ddp)
		} else {
			fmt.Fprintf(&b, "mit den Parametern a und b vom Typ %s und %s", c09OTys[sig[0]].ddp, c09OTys[sig[1]].ddp)
		}
		fmt.Fprintf(&b, ", gibt eine Zahl zurück, macht:\n\tGib 1 zurück.\nUnd überlädt den \"%s\" Operator.\n", c09OpsList[oc.Op].name)
		return b.String()
	}
	if oc.Imp != 0 {
		mb.WriteString(c09KomDecl)
		sb.WriteString("Binde \"m\" ein.\n")
	} else {
		sb.WriteString(c09KomDecl)
	}
	sb.WriteString("Der Kom k ist kneu.\nDie Zahl x ist 5.\nDer Text t ist \"tt\".\nDie Kom Liste kl ist eine leere Kom Liste.\n")
	for i := range oc.Sigs {
		if oc.Imp&(1<<i) != 0 {
			mb.WriteString(decl(i))
		} else {
			sb.WriteString(decl(i))
		}
	}
	return sb.String(), mb.String()
}

// applications enumerates every operand tuple.
func c09Applications(arity int) [][]int {
	var out [][]int
	n := len(c09Operands)
	if arity == 1 {
		for i := 0; i < n; i++ {
			out = append(out, []int{i})
		}
		return out
	}
	for i := 0; i < n; i++ {
		for j := 0; j < n; j++ {
			out = append(out, []int{i, j})
		}
	}
	return out
}

func c09OpExpr(op c09Op, apply []int) string {
	if op.arity == 1 {
		return fmt.Sprintf(op.tmpl, c09Operands[apply[0]].text)
	}
	return fmt.Sprintf(op.tmpl, c09Operands[apply[0]].text, c09Operands[apply[1]].text)
}

// c09FindOp: the first node (pre-order) applying the operator.
func c09FindOp(n *c09Node, name string, arity int) *c09Node {
	if n == nil {
		return nil
	}
	if ((n.K == "un" && arity == 1) || (n.K == "bin" && arity == 2)) && n.N == name {
		return n
	}
	for _, x := range n.X {
		if r := c09FindOp(x, name, arity); r != nil {
			return r
		}
	}
	return nil
}

type c09OpJudgement struct {
	kind, what string
	unspec     bool
	unobs      bool
	selected   bool
}

func c09JudgeOp(oc c09OpCase, apply []int, stmts []c09Stmt) (j c09OpJudgement) {
	op := c09OpsList[oc.Op]
	ovls := oc.model()
	var ops []am.Operand
	for _, a := range apply {
		ops = append(ops, c09Operands[a].Operand)
	}
	v := am.ResolveOverload(ovls, ops)
	if v.Unspecified {
		j.unspec = true
		return
	}
	var node *c09Node
	for _, s := range stmts {
		if node = c09FindOp(s.E, op.name, op.arity); node != nil {
			break
		}
	}
	if node == nil {
		j.unobs = true
		return
	}
	names := func() string {
		var s []string
		for _, i := range v.Admissible {
			s = append(s, ovls[i].Name)
		}
		return strings.Join(s, " or ")
	}
	if len(v.Admissible) == 0 {
		if node.Ovl != nil {
			j.kind = "overload-wrongly-selected"
			j.what = fmt.Sprintf("no overload has exactly the operand types, the built-in meaning must apply, but %s was selected (%s)", node.Ovl.N, c09Render(node.Ovl))
		}
		return
	}
	j.selected = true
	if node.Ovl == nil {
		j.kind = "overload-not-selected"
		j.what = fmt.Sprintf("overload %s has exactly the operand types but the built-in meaning was used", names())
		return
	}
	for _, i := range v.Admissible {
		o := ovls[i]
		if o.Name != node.Ovl.N {
			continue
		}
		ok := len(node.Ovl.A) == len(o.Params)
		for k, p := range o.Params {
			if a, has := node.Ovl.A[p.Name]; !has || c09Render(a) != c09Operands[apply[k]].render {
				ok = false
			}
		}
		if !ok {
			j.kind = "wrong-binding"
			j.what = fmt.Sprintf("overload %s selected, operands bound as %s", o.Name, c09Render(node.Ovl))
		}
		return
	}
	j.kind = "overload-wrongly-selected"
	j.what = fmt.Sprintf("admissible: %s, selected: %s", names(), c09Render(node.Ovl))
	return
}

func c09OpVerdictText(oc c09OpCase, apply []int) string {
	ovls := oc.model()
	var ops []am.Operand
	var ot []string
	for _, a := range apply {
		ops = append(ops, c09Operands[a].Operand)
		ot = append(ot, fmt.Sprintf("%s : %s (assignable %v)", c09Operands[a].text, c09Operands[a].Type, c09Operands[a].Assignable))
	}
	v := am.ResolveOverload(ovls, ops)
	var sb strings.Builder
	fmt.Fprintf(&sb, "operator %q applied to %s\n", c09OpsList[oc.Op].name, strings.Join(ot, ", "))
	for i, o := range ovls {
		fmt.Fprintf(&sb, "overload %s %+v", o.Name, o.Params)
		for _, t := range v.TypeOK {
			if t == i {
				sb.WriteString("  types equal")
			}
		}
		for _, t := range v.Admissible {
			if t == i {
				sb.WriteString("  ADMISSIBLE")
			}
		}
		sb.WriteByte('\n')
	}
	if len(v.Admissible) == 0 {
		sb.WriteString("=> the built-in meaning applies\n")
	}
	if v.Unspecified {
		sb.WriteString("=> UNSPECIFIED (generic overload, no operand of a user-defined type)\n")
	}
	return sb.String()
}

// c09OpProgram renders the program of one case (all applications, or only oc.Apply).
func c09OpProgram(oc c09OpCase) (src string, from uint, apps [][]int) {
	op := c09OpsList[oc.Op]
	header, _ := oc.text()
	from = uint(strings.Count(header, "\n") + 1)
	apps = c09Applications(op.arity)
	if oc.Apply != nil {
		apps = [][]int{oc.Apply}
	}
	var sb strings.Builder
	for i, a := range apps {
		fmt.Fprintf(&sb, "Die Variable r%d ist %s.\n", i+1, c09OpExpr(op, a))
	}
	return header + sb.String(), from, apps
}

func c09JudgeOpOut(oc c09OpCase, o *c09Out, main string, from uint, apps [][]int) ([]c09OpJudgement, error) {
	if o.Panic != "" {
		return nil, fmt.Errorf("PANIC %s at %s", o.Panic, o.Site)
	}
	l := c09Split(o, from, main)
	if len(l.head) > 0 {
		return nil, fmt.Errorf("HEADER %s", l.head[0])
	}
	js := make([]c09OpJudgement, len(apps))
	for i, a := range apps {
		js[i] = c09JudgeOp(oc, a, l.stmts[from+uint(i)])
	}
	return js, nil
}

// c09RunOpCase parses one program (all applications) and judges them.
func c09RunOpCase(oc c09OpCase, dir string) (apps [][]int, js []c09OpJudgement, src string, err error) {
	src, from, apps := c09OpProgram(oc)
	main := filepath.Join(dir, "main.ddp")
	resp, e := c09Do(&c09Req{Full: []c09Full{{File: main, Src: src, From: from}}})
	if e != nil {
		return apps, nil, src, e
	}
	js, err = c09JudgeOpOut(oc, &resp.Out[0], main, from, apps)
	return
}

// c09GenericAlike: the two signatures differ, and every position where they differ holds a generic
// parameter on both sides with the same Referenz-ness (T against T Liste).
func c09GenericAlike(a, b []int) bool {
	diff := false
	for k := range a {
		if a[k] == b[k] {
			continue
		}
		x, y := c09OTys[a[k]], c09OTys[b[k]]
		if !(x.generic && y.generic && x.ref == y.ref) {
			return false
		}
		diff = true
	}
	return diff
}

func c09OpSigs(arity int) [][]int {
	var out [][]int
	n := len(c09OTys)
	if arity == 1 {
		for i := 0; i < n; i++ {
			out = append(out, []int{i})
		}
		return out
	}
	for i := 0; i < n; i++ {
		for j := 0; j < n; j++ {
			out = append(out, []int{i, j})
		}
	}
	return out
}

func c09Ops(r *c09Run, tier string) {
	c := r.c
	var cases []c09OpCase
	for oi, op := range c09OpsList {
		sigs := c09OpSigs(op.arity)
		// no overload, every single signature (local and imported)
		cases = append(cases, c09OpCase{Op: oi})
		for _, s := range sigs {
			cases = append(cases, c09OpCase{Op: oi, Sigs: [][]int{s}})
			if op.arity == 1 || tier == "thorough" || oi < 8 {
				cases = append(cases, c09OpCase{Op: oi, Sigs: [][]int{s}, Imp: 1})
			}
		}
		// every pair of signatures: all unary operators; binary: "plus" (quick), all (thorough)
		pairs := op.arity == 1 || tier == "thorough" || op.name == "plus"
		if !pairs {
			continue
		}
		for i := 0; i < len(sigs); i++ {
			for j := i + 1; j < len(sigs); j++ {
				if c09GenericAlike(sigs[i], sigs[j]) {
					// the implementation answers "already overloaded for these parameter types" when two overloads
					// differ only in T versus T Liste; the property does not say whether they are the same: excluded
					r.c.Add("excluded_unspecified", 1)
					continue
				}
				cases = append(cases, c09OpCase{Op: oi, Sigs: [][]int{sigs[i], sigs[j]}})
				// declaration order reversed
				if op.arity == 1 || oi < 8 {
					cases = append(cases, c09OpCase{Op: oi, Sigs: [][]int{sigs[j], sigs[i]}})
				}
				if op.arity == 1 || (tier == "thorough" && oi < 8) {
					for imp := 1; imp <= 3; imp++ {
						cases = append(cases, c09OpCase{Op: oi, Sigs: [][]int{sigs[i], sigs[j]}, Imp: imp})
					}
				}
			}
		}
	}
	var mu sync.Mutex
	perOp := map[string]*[4]int64{} // applications, overload selected, unobservable, unspecified
	var done, apps int64
	type opChunk struct{ lo, hi int }
	var chunks []opChunk
	for i := 0; i < len(cases); i += 40 {
		j := i + 40
		if j > len(cases) {
			j = len(cases)
		}
		chunks = append(chunks, opChunk{i, j})
	}
	par.Each(chunks, 0, func(_ int, ch opChunk) {
		if c.Expired() {
			return
		}
		var q c09Req
		type meta struct {
			dir  string
			from uint
			apps [][]int
			src  string
		}
		ms := make([]meta, ch.hi-ch.lo)
		for k := ch.lo; k < ch.hi; k++ {
			oc := cases[k]
			dir := "/nonexistent/c09"
			if oc.Imp != 0 {
				_, mod := oc.text()
				dir = filepath.Join(r.scratch, fmt.Sprintf("op%d", k))
				rx.WriteFiles(dir, map[string]string{"m.ddp": mod})
				defer os.RemoveAll(dir)
			}
			src, from, apps := c09OpProgram(oc)
			ms[k-ch.lo] = meta{dir, from, apps, src}
			q.Full = append(q.Full, c09Full{File: filepath.Join(dir, "main.ddp"), Src: src, From: from})
		}
		resp, err := c09Do(&q)
		if err != nil {
			c.Broken(fmt.Sprintf("operator cases %d..%d: %s", ch.lo, ch.hi, err))
			return
		}
		for k := ch.lo; k < ch.hi; k++ {
			c09OpOne(r, cases[k], ms[k-ch.lo].dir, ms[k-ch.lo].apps, ms[k-ch.lo].src, &resp.Out[k-ch.lo], ms[k-ch.lo].from, &mu, perOp, &done, &apps)
		}
	})
	if int(done) < len(cases) {
		c.Capped(fmt.Sprintf("operators: %d of %d overload sets", done, len(cases)))
	}
	c.Add("operator_overload_sets", done)
	c.Add("operator_applications", apps)
	stats := map[string]any{}
	var unspec, unobs int64
	for k, v := range perOp {
		stats[k] = map[string]int64{"applications": v[0], "model_selects_overload": v[1], "operator_node_not_found": v[2], "excluded_unspecified": v[3]}
		unobs += v[2]
		unspec += v[3]
		r.mu.Lock()
		r.classes["op:"+k] = v[0]
		r.mu.Unlock()
	}
	c.Add("excluded_unspecified", unspec)
	c.Add("operator_applications_unobservable", unobs)
	c.Set("operators", stats)
}

func c09ReplayOp(dir string) int {
	b, err := os.ReadFile(filepath.Join(dir, "opcase.json"))
	var oc c09OpCase
	if err != nil || json.Unmarshal(b, &oc) != nil {
		fmt.Println("unreadable opcase.json")
		return 2
	}
	defer c09Pool_().Close()
	apply := oc.Apply
	if _, err := os.Stat(filepath.Join(dir, "batch.txt")); err == nil {
		oc.Apply = nil
	}
	abs, _ := filepath.Abs(dir)
	as, js, _, e := c09RunOpCase(oc, abs)
	if e != nil {
		fmt.Println("infrastructure:", e)
		return 2
	}
	fmt.Print(c09OpVerdictText(oc, apply))
	for i, a := range as {
		if fmt.Sprint(a) != fmt.Sprint(apply) {
			continue
		}
		if js[i].kind != "" {
			fmt.Printf("VIOLATION property=C09 replay=%s\n  %s: %s\n", dir, js[i].kind, js[i].what)
			return 1
		}
		fmt.Printf("observed: conforms (unobservable=%v unspecified=%v)\n", js[i].unobs, js[i].unspec)
	}
	fmt.Println("C09 replay: property holds on this case")
	return 0
}

func c09OpOne(r *c09Run, oc c09OpCase, dir string, as [][]int, src string, o *c09Out, from uint, mu *sync.Mutex, perOp map[string]*[4]int64, done, apps *int64) {
	c := r.c
	js, err := c09JudgeOpOut(oc, o, filepath.Join(dir, "main.ddp"), from, as)
	if err != nil {
		c.Broken(fmt.Sprintf("operator case %s: %s", oc.id(), err))
		return
	}
	var st [4]int64
	for i, j := range js {
		st[0]++
		if j.selected {
			st[1]++
		}
		if j.unobs {
			st[2]++
		}
		if j.unspec {
			st[3]++
		}
		if j.kind == "" {
			continue
		}
		// re-execute twice, alone
		one := oc
		one.Apply = as[i]
		stable := true
		var srcOne string
		for k := 0; k < 2; k++ {
			_, j2, s2, e2 := c09RunOpCase(one, dir)
			if e2 != nil || j2[0].kind != j.kind || j2[0].what != j.what {
				stable = false
			}
			srcOne = s2
		}
		files := map[string]string{"main.ddp": srcOne}
		if !stable {
			// stable in the full program?
			_, j3, _, e3 := c09RunOpCase(oc, dir)
			if e3 != nil || j3[i].kind != j.kind {
				c.Add("unstable_not_reported", 1)
				continue
			}
			one.Apply = nil
			files["main.ddp"] = src
			files["NOTE.txt"] = fmt.Sprintf("visible only among the other applications; statement r%d\n", i+1)
		}
		if _, mod := oc.text(); oc.Imp != 0 {
			files["m.ddp"] = mod
		}
		rc := one
		if rc.Apply == nil {
			rc.Apply = as[i]
			files["batch.txt"] = fmt.Sprint(i)
		}
		cj, _ := json.Marshal(rc)
		files["opcase.json"] = string(cj)
		files["model_verdict.txt"] = c09OpVerdictText(oc, as[i])
		files["observed.txt"] = j.what + "\n"
		expr := c09OpExpr(c09OpsList[oc.Op], as[i])
		c.Violation(fmt.Sprintf("C09:%s:%s:%s", j.kind, oc.id(), expr), fmt.Sprintf("overloads %s, expression `%s`: %s", oc.id(), expr, j.what), files)
		r.mu.Lock()
		r.kinds[j.kind]++
		r.mu.Unlock()
	}
	mu.Lock()
	p := perOp[c09OpsList[oc.Op].name]
	if p == nil {
		p = &[4]int64{}
		perOp[c09OpsList[oc.Op].name] = p
	}
	for k := range st {
		p[k] += st[k]
	}
	*done++
	*apps += st[0]
	mu.Unlock()
}
