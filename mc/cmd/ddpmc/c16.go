package main

// C16 — compilation is repeatable (shape N: stateless DFS over OWNED nondeterminism, deviation bound).
//
// The compiler is single-threaded; its only nondeterminism is Go's randomised map iteration and the
// tie behaviour of the unstable sort.Slice. mc/tools/rewrite turns every such site of the CURRENT tree
// into a choice point of package verifhook (generated overlay, /repo untouched) and proves by a
// post-check that none is left. The instrumented frontend+compiler are linked into a second binary,
// $VERIF_BUILD/ddpmc16 (same sources as ddpmc), which this driver runs as worker processes.
//
// E-DFS: run(prefix) replays a prefix of choices and takes choice 0 (canonical order: keys sorted by
// a stable fingerprint) afterwards, returning the choice points met. Alternatives of a point with n
// elements: all n! orders for n <= 4, else adjacent transpositions, rotations and the reversal.
// Every schedule with at most `bound` non-zero choices is executed (bound 1 quick, 2 thorough), each
// one twice in a row; each execution is one fresh in-process compiler.Compile of one corpus source.
//
// Oracle, against the 0-deviation run of the same source: same verdict, same diagnostic sequence,
// and for accepted programs the same IR text or — if the IR differs — the same behaviour of the
// linked executables.

import (
	"bytes"
	"crypto/sha256"
	"encoding/hex"
	"encoding/json"
	"fmt"
	"os"
	"os/exec"
	"path/filepath"
	"runtime/debug"
	"sort"
	"strings"
	"sync"
	"time"

	"ddpmc/internal/ev"
	"ddpmc/internal/fe"
	"ddpmc/internal/par"
	"ddpmc/internal/pool"
	"ddpmc/internal/rx"

	"github.com/DDP-Projekt/Kompilierer/cmd/verifexport"
	"github.com/DDP-Projekt/Kompilierer/src/compiler"
	"github.com/DDP-Projekt/Kompilierer/src/ddperror"
	"github.com/DDP-Projekt/Kompilierer/src/parser"
	"github.com/DDP-Projekt/Kompilierer/src/verifhook"
)

// ---------------------------------------------------------------------------------------------
// worker side (only meaningful inside ddpmc16, where the repository packages call verifhook)

type c16Req struct {
	File     string          `json:"file"`
	Devs     []verifhook.Dev `json:"devs,omitempty"`
	Kind     string          `json:"kind"` // "ir" | "obj" | "exe" (object, then the repository's linker, both under the schedule)
	Out      string          `json:"out,omitempty"`
	Opt      uint            `json:"opt"`
	ListDefs bool            `json:"ld,omitempty"`
	Reps     int             `json:"reps,omitempty"` // run the schedule this often (>=1) and compare
}

type c16Obs struct {
	Err       string    `json:"err,omitempty"`
	Panic     string    `json:"panic,omitempty"`
	PanicSite string    `json:"site,omitempty"`
	Diags     []fe.Diag `json:"diags,omitempty"`
	IRSha     string    `json:"sha,omitempty"`
	IRLen     int       `json:"len,omitempty"`
	Deps      []string  `json:"deps,omitempty"`
}

func (o *c16Obs) verdict() string {
	switch {
	case o.Panic != "":
		return "panic@" + o.PanicSite + ": " + o.Panic
	case o.Err != "":
		return "rejected: " + o.Err
	}
	return "accepted"
}

func (o *c16Obs) diagText(strip string) string {
	var sb strings.Builder
	for _, d := range o.Diags {
		d.File = strings.TrimPrefix(d.File, strip)
		fmt.Fprintf(&sb, "%s(%04d) %s %d:%d-%d:%d %s\n", map[int]string{1: "W", 2: "E"}[d.Level], d.Code, d.File, d.L1, d.C1, d.L2, d.C2, d.Msg)
	}
	return sb.String()
}

func sameDiags(a, b []fe.Diag) bool {
	if len(a) != len(b) {
		return false
	}
	for i := range a {
		if a[i] != b[i] {
			return false
		}
	}
	return true
}

type c16Resp struct {
	Obs      c16Obs           `json:"obs"`
	Sites    []string         `json:"sites,omitempty"` // distinct sites of the trace
	T        []int            `json:"t,omitempty"`     // triples (index into Sites, n, alternatives) = the choice points met
	Applied  []verifhook.Dev  `json:"applied,omitempty"`
	Hard     string           `json:"hard,omitempty"` // replay error / unowned nondeterminism
	Unstable string           `json:"unstable,omitempty"`
	Stats    map[string]int64 `json:"stats,omitempty"`
	Instr    bool             `json:"instr"` // the binary really is the instrumented one
}

func (r *c16Resp) points() []verifhook.Point {
	ps := make([]verifhook.Point, 0, len(r.T)/3)
	for i := 0; i+2 < len(r.T); i += 3 {
		ps = append(ps, verifhook.Point{Site: r.Sites[r.T[i]], N: r.T[i+1], Alts: r.T[i+2]})
	}
	return ps
}

func c16Once(q *c16Req, write bool) (obs c16Obs, trace []verifhook.Point, hard string, stats map[string]int64, applied []verifhook.Dev) {
	collect := func(e ddperror.Error) {
		if len(obs.Diags) < 2000 {
			obs.Diags = append(obs.Diags, fe.Diag{Code: int(e.Code), Level: int(e.Level), File: e.File, L1: e.Range.Start.Line, C1: e.Range.Start.Column, L2: e.Range.End.Line, C2: e.Range.End.Column, Msg: e.Msg})
		}
	}
	src, err := os.ReadFile(q.File)
	if err != nil {
		obs.Err = "read: " + err.Error()
		return
	}
	var buf bytes.Buffer
	kind := compiler.OutputIR
	if q.Kind == "obj" || q.Kind == "exe" {
		kind = compiler.OutputObj
	}
	compiler.Comments_Enabled = false
	verifhook.Begin(q.Devs)
	func() {
		defer func() {
			if p := recover(); p != nil {
				st := string(debug.Stack())
				obs.Panic = fmt.Sprint(p)
				if ce, ok := p.(*compiler.CompilerError); ok {
					obs.Panic, st = ce.Msg, string(ce.StackTrace)
				}
				if pe, ok := p.(*parser.ParserError); ok {
					obs.Panic, st = pe.Msg, string(pe.StackTrace)
				}
				if len(obs.Panic) > 1500 {
					obs.Panic = obs.Panic[:1500]
				}
				obs.PanicSite = fe.Site(st)
			}
		}()
		res, err := compiler.Compile(compiler.Options{FileName: q.File, Source: src, To: &buf, OutputType: kind, ErrorHandler: collect,
			DeleteIntermediateFiles: true, LinkInModules: true, LinkInListDefs: q.ListDefs, OptimizationLevel: q.Opt})
		if err != nil {
			obs.Err = err.Error()
			if len(obs.Err) > 3000 {
				obs.Err = obs.Err[:3000]
			}
			if ce, ok := err.(*compiler.CompilerError); ok {
				obs.Panic, obs.PanicSite = ce.Msg, fe.Site(string(ce.StackTrace))
			}
			return
		}
		if res != nil {
			for d := range res.Dependencies {
				obs.Deps = append(obs.Deps, d)
			}
			sort.Strings(obs.Deps)
		}
		if q.Kind == "exe" && write && q.Out != "" {
			obj := q.Out + ".o"
			if err := os.WriteFile(obj, buf.Bytes(), 0o644); err != nil {
				obs.Err = "write: " + err.Error()
				return
			}
			defer os.Remove(obj)
			out, err := verifexport.Link(verifexport.LinkOptions{InputFile: obj, OutputFile: q.Out, Dependencies: res,
				DeleteIntermediateFiles: true, LinkInListDefs: !q.ListDefs})
			if err != nil {
				obs.Err = "link: " + err.Error() + ": " + clip(string(out), 1500)
			}
		}
	}()
	trace, hard, stats, applied = verifhook.End()
	if obs.Err == "" && obs.Panic == "" {
		h := sha256.Sum256(buf.Bytes())
		obs.IRSha, obs.IRLen = hex.EncodeToString(h[:12]), buf.Len()
		if write && q.Out != "" && q.Kind != "exe" {
			if err := os.WriteFile(q.Out, buf.Bytes(), 0o644); err != nil {
				hard = "write: " + err.Error()
			}
		}
	}
	return
}

func c16Handle(q *c16Req) (r c16Resp) {
	reps := q.Reps
	if reps < 1 {
		reps = 1
	}
	var firstTrace []verifhook.Point
	for rep := 0; rep < reps; rep++ {
		obs, trace, hard, stats, applied := c16Once(q, rep == reps-1)
		if hard != "" && r.Hard == "" {
			r.Hard = hard
		}
		if rep == 0 {
			r.Obs, firstTrace, r.Stats, r.Applied = obs, trace, stats, applied
			continue
		}
		switch {
		case obs.verdict() != r.Obs.verdict():
			r.Unstable = fmt.Sprintf("verdict of repetition %d differs: %q vs %q", rep, obs.verdict(), r.Obs.verdict())
		case !sameDiags(obs.Diags, r.Obs.Diags):
			r.Unstable = fmt.Sprintf("diagnostics of repetition %d differ", rep)
		case q.Kind == "ir" && obs.IRSha != r.Obs.IRSha:
			r.Unstable = fmt.Sprintf("IR of repetition %d differs", rep)
		case len(trace) != len(firstTrace):
			r.Unstable = fmt.Sprintf("repetition %d met %d choice points, the first %d", rep, len(trace), len(firstTrace))
		default:
			for i := range trace {
				if trace[i] != firstTrace[i] {
					r.Unstable = fmt.Sprintf("choice point %d of repetition %d is %v, was %v", i, rep, trace[i], firstTrace[i])
					break
				}
			}
		}
	}
	idx := map[string]int{}
	for _, p := range firstTrace {
		i, ok := idx[p.Site]
		if !ok {
			i = len(r.Sites)
			idx[p.Site] = i
			r.Sites = append(r.Sites, p.Site)
		}
		r.T = append(r.T, i, p.N, p.Alts)
	}
	r.Instr = len(r.Stats) > 0
	return
}

func init() {
	workers["c16"] = func([]string) { pool.Serve(func(q *c16Req) c16Resp { return c16Handle(q) }) }
	checks["C16"] = check{runC16, replayC16}
}

// ---------------------------------------------------------------------------------------------
// driver side

type c16Site struct {
	ID      string `json:"id"`
	File    string `json:"file"`
	Line    int    `json:"line"`
	Func    string `json:"func"`
	Kind    string `json:"kind"`
	KeyType string `json:"key_type"`
	Pkg     string `json:"pkg"`
}

// key types for which verifhook (+ hooks/src/ast/c16_fp.go) has a stable fingerprint
var c16KeyTypes = map[string]bool{
	"string": true, "int": true, "int64": true, "int32": true, "uint": true, "uint64": true, "uint32": true, "bool": true,
	"*github.com/DDP-Projekt/Kompilierer/src/ast.Module":        true,
	"*github.com/DDP-Projekt/Kompilierer/src/ast.VarDecl":       true,
	"*github.com/DDP-Projekt/Kompilierer/src/ast.FuncDecl":      true,
	"*github.com/DDP-Projekt/Kompilierer/src/ast.StructDecl":    true,
	"*github.com/DDP-Projekt/Kompilierer/src/ast.ConstDecl":     true,
	"github.com/DDP-Projekt/Kompilierer/src/ast.Declaration":    true,
	"github.com/DDP-Projekt/Kompilierer/src/ast.MetadataKind":   true,
	"github.com/DDP-Projekt/Kompilierer/src/ast.Operator":       true,
	"github.com/DDP-Projekt/Kompilierer/src/ast.Node":           true,
	"github.com/DDP-Projekt/Kompilierer/src/ast.Expression":     true,
	"github.com/DDP-Projekt/Kompilierer/src/ast.Statement":      true,
	"*github.com/DDP-Projekt/Kompilierer/src/ast.ImportStmt":    true,
	"*github.com/DDP-Projekt/Kompilierer/src/ast.TypeAliasDecl": true,
	"*github.com/DDP-Projekt/Kompilierer/src/ast.TypeDefDecl":   true,
}

// goldens explored in the quick tier (the multi-module ones; every golden imports the Duden, whose
// own choice points cost > 1000 schedules per source — thorough explores all goldens)
var c16QuickGoldens = map[string]bool{
	"multiple_definitions": true,
}

const c16Bound2Max = 130

// minimum number of bound-1 schedules of a batch of sources (explored, then linked and run, before the next batch)
const c16BatchMin = 250

type c16Case struct {
	Name  string
	Dir   string // absolute directory of the main file (inside the run's scratch tree)
	Root  string // directory that is copied into a replay (contains Dir)
	Main  string // file name inside Dir
	Stdin string
	Hand  bool // hand-written (listed first: findings are reported on the smallest source)
}

func (k *c16Case) file() string { return filepath.Join(k.Dir, k.Main) }

type c16Run struct {
	c        *ev.Ctx
	p        *pool.Pool
	opt      uint
	listDefs bool
	scratch  string

	mu                     sync.Mutex
	diffs                  []c16Diff
	irVar                  map[int]map[string][]verifhook.Dev // case -> IR sha -> first schedule that produced it
	siteHits               map[string]int64                   // site -> choice points met (n >= 2)
	siteExec               map[string]int64                   // site -> executions (any n)
	siteDev                map[string]int64                   // site -> deviating schedules executed
	outcomes               map[int]map[string]int             // case -> outcome signature -> schedules
	broken                 map[string]bool
	schedules              int64
	points                 int64
	unstable               int64
	maxAlts                int
	capN                   int // largest n for which only the reduced alternative set was explored
	irDone                 map[int]map[string]bool
	irTotal                int
	irExecuted, irTimeouts int64
}

type c16Diff struct {
	Case    int
	Devs    []verifhook.Dev
	RefDevs []verifhook.Dev // the schedule compared with (nil = canonical)
	What    string          // verdict | diagnostics | ir-behaviour
	Site    string
	Base    c16Obs
	Got     c16Obs
	Note    string
}

func devLess(a, b []verifhook.Dev) bool {
	for i := 0; i < len(a) && i < len(b); i++ {
		if a[i].Pos != b[i].Pos {
			return a[i].Pos < b[i].Pos
		}
		if a[i].Choice != b[i].Choice {
			return a[i].Choice < b[i].Choice
		}
	}
	return len(a) < len(b)
}

func devText(ds []verifhook.Dev) string {
	if len(ds) == 0 {
		return "canonical order everywhere (0 deviations)"
	}
	var parts []string
	for _, d := range ds {
		o := d.Order
		if o == nil {
			o = verifhook.Perm(d.N, d.Choice)
		}
		parts = append(parts, fmt.Sprintf("choice point #%d (%s, %d elements): order %v", d.Pos, d.Site, d.N, o))
	}
	return strings.Join(parts, "; ")
}

func (x *c16Run) brokenOnce(note string) {
	x.mu.Lock()
	seen := x.broken[note]
	x.broken[note] = true
	n := len(x.broken)
	x.mu.Unlock()
	if !seen && n <= 8 {
		x.c.Broken(note)
	}
}

// exec runs one schedule in an instrumented worker (retrying once on a dead/hung worker).
func (x *c16Run) exec(k *c16Case, devs []verifhook.Dev, kind, out string, reps int) (*c16Resp, bool) {
	q := &c16Req{File: k.file(), Devs: devs, Kind: kind, Out: out, Opt: x.opt, ListDefs: x.listDefs, Reps: reps}
	for try := 0; try < 2; try++ {
		var r c16Resp
		st, log := x.p.Do(q, &r, 180*time.Second)
		if st != pool.OK {
			if try == 1 {
				x.brokenOnce(fmt.Sprintf("instrumented worker %s on %s [%s]: %s", st, k.Name, devText(devs), firstLines(log, 4)))
				return nil, false
			}
			continue
		}
		if !r.Instr {
			x.brokenOnce("worker binary is not instrumented (no verifhook site executed during a compilation)")
			return nil, false
		}
		if r.Hard != "" {
			x.brokenOnce(fmt.Sprintf("%s on %s [%s]", r.Hard, k.Name, devText(devs)))
			return nil, false
		}
		if r.Unstable != "" {
			x.mu.Lock()
			x.unstable++
			x.mu.Unlock()
			x.brokenOnce(fmt.Sprintf("harness not deterministic (nondeterminism the explorer does not own) on %s [%s]: %s", k.Name, devText(devs), r.Unstable))
			return nil, false
		}
		return &r, true
	}
	return nil, false
}

func c16OutcomeSig(o *c16Obs) string {
	h := sha256.New()
	fmt.Fprintf(h, "%s\n", o.verdict())
	for _, d := range o.Diags {
		fmt.Fprintf(h, "%v\n", d)
	}
	return hex.EncodeToString(h.Sum(nil)[:8]) + "/" + o.IRSha
}

// account records one executed schedule and compares it with the baseline of its case.
// ref is the parent schedule (devs without the last deviation; the canonical run at bound 1): a difference
// between r and ref is attributed to the site of the last deviation. IR variants are always relative to base.
func (x *c16Run) account(ci int, devs []verifhook.Dev, base, ref, r *c16Resp) {
	pts := r.points()
	x.mu.Lock()
	defer x.mu.Unlock()
	x.schedules++
	x.points += int64(len(pts))
	for _, p := range pts {
		x.siteHits[p.Site]++
		if p.Alts > x.maxAlts {
			x.maxAlts = p.Alts
		}
		if p.N > 4 && p.N > x.capN {
			x.capN = p.N
		}
	}
	for s, n := range r.Stats {
		if strings.HasPrefix(s, "exec:") {
			x.siteExec[strings.TrimPrefix(s, "exec:")] += n
		}
	}
	if x.outcomes[ci] == nil {
		x.outcomes[ci] = map[string]int{}
	}
	x.outcomes[ci][c16OutcomeSig(&r.Obs)]++
	if len(devs) == 0 {
		return
	}
	last := devs[len(devs)-1]
	x.siteDev[last.Site]++
	what := ""
	switch {
	case r.Obs.verdict() != ref.Obs.verdict():
		what = "verdict"
	case !sameDiags(r.Obs.Diags, ref.Obs.Diags):
		what = "diagnostics"
	case r.Obs.verdict() != base.Obs.verdict() || !sameDiags(r.Obs.Diags, base.Obs.Diags):
		// differs from the canonical run exactly as its parent does: already attributed to the parent
	case r.Obs.IRSha != base.Obs.IRSha:
		if x.irVar[ci] == nil {
			x.irVar[ci] = map[string][]verifhook.Dev{}
		}
		if old, ok := x.irVar[ci][r.Obs.IRSha]; !ok || devLess(devs, old) {
			x.irVar[ci][r.Obs.IRSha] = append([]verifhook.Dev(nil), devs...)
		}
	}
	if what != "" {
		x.diffs = append(x.diffs, c16Diff{Case: ci, Devs: append([]verifhook.Dev(nil), devs...), RefDevs: append([]verifhook.Dev(nil), devs[:len(devs)-1]...), What: what, Site: last.Site, Base: ref.Obs, Got: r.Obs})
	}
}

func c16EnsureBuilt() error {
	cmd := exec.Command("bash", filepath.Join(ev.Verif, "scripts", "build_c16.sh"))
	cmd.Env = append(os.Environ(), "VERIF="+ev.Verif, "REPO="+ev.Repo, "VERIF_BUILD="+ev.Build, "VERIF_VDIR="+rx.VDir)
	cmd.Stdout = os.Stderr
	cmd.Stderr = os.Stderr
	if err := cmd.Run(); err != nil {
		return fmt.Errorf("scripts/build_c16.sh: %v", err)
	}
	return nil
}

func c16LoadSites() ([]c16Site, error) {
	b, err := os.ReadFile(filepath.Join(rx.VDir, "c16", "sites.json"))
	if err != nil {
		return nil, err
	}
	var ss []c16Site
	if err := json.Unmarshal(b, &ss); err != nil {
		return nil, err
	}
	return ss, nil
}

// c16Materialise writes the corpus below scratch and returns the cases (hand-written first).
func c16Materialise(scratch, tier string) []c16Case {
	var cases []c16Case
	for _, h := range c16Corpus(tier) {
		root := filepath.Join(scratch, "hand", h.Name)
		rx.WriteFiles(root, h.Files)
		cases = append(cases, c16Case{Name: "hand/" + h.Name, Dir: root, Root: root, Main: h.Main, Hand: true})
	}
	groot := filepath.Join(scratch, "kddp")
	if err := copyTree(filepath.Join(ev.Repo, "tests/testdata/kddp"), groot); err == nil {
		for _, g := range listGoldens(groot) {
			if tier == "quick" && !c16QuickGoldens[g.Name] {
				continue
			}
			top := strings.Split(g.Name, string(filepath.Separator))[0]
			cases = append(cases, c16Case{Name: "golden/" + g.Name, Dir: g.Dir, Root: filepath.Join(groot, top), Main: g.Main, Stdin: g.Input})
		}
	}
	return cases
}

func runC16(tier string) int {
	c := ev.New("C16", tier)
	c.Budget(map[string]int{"quick": 200, "thorough": 2400}[tier])
	bound := 1
	if tier == "thorough" {
		bound = 2
	}
	t0 := time.Now()
	if err := c16EnsureBuilt(); err != nil {
		c.Broken("cannot build the instrumented explorer: " + err.Error())
		return c.Finish()
	}
	c.Set("build_s", time.Since(t0).Seconds())
	// the internal deadline counts from the end of the (cached) rewrite+build step
	budget := map[string]int{"quick": 170, "thorough": 2400}[tier]
	c.Budget(int(time.Since(t0).Seconds()) + budget)
	// the sources are processed in batches, smallest first; each batch is explored and then its IR variants
	// are linked and run, so that whatever the deadline cuts off are the sources with the most schedules.
	// Exploration stops at 85 % of the budget, the rest is reserved for linking and running.
	tStart := time.Now()
	total := c.Deadline.Sub(tStart)
	at := func(pct int) time.Time { return tStart.Add(total * time.Duration(pct) / 100) }
	exploreEnd := at(85)
	exploreExpired := func() bool { return time.Now().After(exploreEnd) }
	sites, err := c16LoadSites()
	if err != nil || len(sites) == 0 {
		c.Broken(fmt.Sprint("site inventory missing: ", err))
		return c.Finish()
	}
	var staticIDs []string
	for _, s := range sites {
		staticIDs = append(staticIDs, s.ID)
		if s.Kind != "sort" && !c16KeyTypes[s.KeyType] && !strings.HasPrefix(s.KeyType, "typeparam ") { // type parameters: checked at run time
			c.Broken(fmt.Sprintf("unowned nondeterminism: site %s iterates a map with key type %s for which no stable fingerprint exists", s.ID, s.KeyType))
		}
	}
	x := &c16Run{c: c, opt: 2, listDefs: tier == "thorough", irVar: map[int]map[string][]verifhook.Dev{}, siteHits: map[string]int64{}, siteExec: map[string]int64{},
		siteDev: map[string]int64{}, outcomes: map[int]map[string]int{}, broken: map[string]bool{}, irDone: map[int]map[string]bool{}}
	x.p = pool.New("c16", 0)
	x.p.Exe = filepath.Join(rx.VDir, "ddpmc16")
	defer x.p.Close()
	x.scratch = rx.Scratch("c16")
	defer os.RemoveAll(x.scratch)
	cases := c16Materialise(x.scratch, tier)
	if only := os.Getenv("C16_ONLY"); only != "" { // debugging aid: comma separated substrings of source names
		var sel []c16Case
		for _, k := range cases {
			for _, o := range strings.Split(only, ",") {
				if strings.Contains(k.Name, o) {
					sel = append(sel, k)
					break
				}
			}
		}
		cases = sel
		c.Capped("C16_ONLY restricts the corpus to " + only)
	}
	c.Set("sources", len(cases))

	// ---- bound 0: canonical baselines (twice each) + conformance with the uninstrumented compiler
	base := make([]*c16Resp, len(cases))
	plain := make([]*fe.Resp, len(cases))
	par.Each(cases, x.p.N(), func(i int, k c16Case) {
		if r, ok := x.exec(&cases[i], nil, "ir", "", 2); ok {
			base[i] = r
			x.account(i, nil, r, r, r)
		}
		var fr fe.Resp
		if st, _ := rx.CompPool().Do(&fe.Req{Op: "compile", File: k.file(), Kind: "ir", Opt: x.opt, LinkModules: true, LinkListDefs: x.listDefs}, &fr, 180*time.Second); st == pool.OK {
			plain[i] = &fr
		}
	})

	// ---- bound 1 (and 2): every deviation
	type job struct {
		ci   int
		pos  int
		c    int
		site string
		n    int
		alts int
	}
	var jobs []job
	for i := range cases {
		if base[i] == nil {
			continue
		}
		for pos, p := range base[i].points() {
			for ch := 1; ch < p.Alts; ch++ {
				jobs = append(jobs, job{i, pos, ch, p.Site, p.N, p.Alts})
			}
		}
	}
	// small sources first (the deadline, if it strikes, cuts the sources with the most schedules)
	{
		n := map[int]int{}
		for _, j := range jobs {
			n[j.ci]++
		}
		sort.SliceStable(jobs, func(a, b int) bool {
			if n[jobs[a].ci] != n[jobs[b].ci] {
				return n[jobs[a].ci] < n[jobs[b].ci]
			}
			return jobs[a].ci < jobs[b].ci
		})
	}
	c.Set("bound1_schedules_planned", len(jobs))
	// bound 2 is quadratic in the number of bound-1 schedules: it is applied to the sources with at
	// most c16Bound2Max bound-1 schedules (the hand-written ones); the others stay at bound 1
	bound2 := map[int]bool{}
	if bound >= 2 {
		n := map[int]int{}
		for _, j := range jobs {
			n[j.ci]++
		}
		var b1only []string
		for i := range cases {
			if base[i] == nil {
				continue
			}
			if n[i] <= c16Bound2Max {
				bound2[i] = true
			} else {
				b1only = append(b1only, cases[i].Name)
			}
		}
		c.Set("bound2_sources", len(bound2))
		c.Set("bound1_only_sources", b1only)
		if len(b1only) > 0 {
			c.Capped(fmt.Sprintf("%d sources with more than %d bound-1 schedules are explored with deviation bound 1 only", len(b1only), c16Bound2Max))
		}
	}
	{
		perSite, perCase := map[string]int{}, map[string]int{}
		for _, j := range jobs {
			perSite[j.site]++
			perCase[cases[j.ci].Name]++
		}
		c.Set("bound1_planned_per_site", perSite)
		c.Set("bound1_planned_per_source", perCase)
		if os.Getenv("C16_PLAN_ONLY") != "" {
			for _, m := range []map[string]int{perSite, perCase} {
				ks := []string{}
				for k := range m {
					ks = append(ks, k)
				}
				sort.Slice(ks, func(a, b int) bool { return m[ks[a]] > m[ks[b]] })
				for _, k := range ks {
					fmt.Printf("%8d %s\n", m[k], k)
				}
			}
			jobs = nil
		}
	}
	var skipped int64
	var l2planned, l2done int64
	// batches of consecutive sources (jobs are sorted by source size) with at least c16BatchMin schedules
	var batches [][]job
	{
		start, last := 0, -1
		for i, j := range jobs {
			if j.ci != last {
				if i-start >= c16BatchMin {
					batches = append(batches, jobs[start:i])
					start = i
				}
				last = j.ci
			}
		}
		if start < len(jobs) {
			batches = append(batches, jobs[start:])
		}
	}
	c.Set("batches", len(batches))
	explore := func(jobs []job) {
		par.Each(jobs, x.p.N(), func(_ int, j job) {
			if exploreExpired() {
				x.mu.Lock()
				skipped++
				x.mu.Unlock()
				return
			}
			d1 := verifhook.Dev{Pos: j.pos, Choice: j.c, Site: j.site, N: j.n, Alts: j.alts}
			r, ok := x.exec(&cases[j.ci], []verifhook.Dev{d1}, "ir", "", 2)
			if !ok {
				return
			}
			if len(r.Applied) == 1 {
				d1.Order = r.Applied[0].Order
			}
			x.account(j.ci, []verifhook.Dev{d1}, base[j.ci], base[j.ci], r)
			if !bound2[j.ci] {
				return
			}
			for pos, p := range r.points() {
				if pos <= j.pos {
					continue
				}
				for ch := 1; ch < p.Alts; ch++ {
					x.mu.Lock()
					l2planned++
					x.mu.Unlock()
					if exploreExpired() {
						continue
					}
					ds := []verifhook.Dev{d1, {Pos: pos, Choice: ch, Site: p.Site, N: p.N, Alts: p.Alts}}
					if r2, ok := x.exec(&cases[j.ci], ds, "ir", "", 2); ok {
						if len(r2.Applied) == 2 {
							ds[1].Order = r2.Applied[1].Order
						}
						x.account(j.ci, ds, base[j.ci], r, r2)
						x.mu.Lock()
						l2done++
						x.mu.Unlock()
					}
				}
			}
		})
	}
	for bi, b := range batches {
		explore(b)
		if bi == 0 {
			x.linkPhase(cases, base, c.Deadline)
		}
		x.behaviour(cases, base, c.Deadline)
	}
	if len(batches) == 0 {
		x.linkPhase(cases, base, c.Deadline)
	}
	{
		tot := 0
		for _, m := range x.irVar {
			tot += len(m)
		}
		c.Set("ir_variants", tot)
		if int(x.irExecuted) < tot {
			c.Capped(fmt.Sprintf("deadline: %d of %d IR variants linked and run", x.irExecuted, tot))
		}
	}
	if skipped > 0 {
		c.Capped(fmt.Sprintf("deadline: %d of %d bound-1 schedules not executed", skipped, len(jobs)))
	}
	if bound >= 2 {
		c.Set("bound2_schedules_planned", l2planned)
		if l2done < l2planned {
			c.Capped(fmt.Sprintf("deadline: %d of %d bound-2 schedules executed", l2done, l2planned))
		}
	}

	// ---- conformance of the instrumentation
	conf, confUndecided := 0, 0
	for i := range cases {
		if base[i] == nil || plain[i] == nil {
			continue
		}
		pv := c16Obs{Err: plain[i].Err, Panic: plain[i].Panic, PanicSite: plain[i].PanicSite, Diags: plain[i].Diags}
		if plain[i].Internal && pv.Panic == "" {
			pv.Panic = plain[i].Err
		}
		same := sameDiags(pv.Diags, base[i].Obs.Diags) && (pv.Err == "") == (base[i].Obs.Err == "")
		if same {
			conf++
			continue
		}
		// the free-running compiler picked some order; if this source is order dependent the
		// uninstrumented outcome need not be the canonical one
		dependent := false
		for _, d := range x.diffs {
			if d.Case == i {
				dependent = true
				if sameDiags(d.Got.Diags, pv.Diags) {
					same = true
				}
			}
		}
		if same {
			conf++
		} else if dependent {
			confUndecided++
		} else {
			x.brokenOnce(fmt.Sprintf("instrumentation does not conform on %s: uninstrumented compiler reports\n%s\ninstrumented (canonical order) reports\n%s", cases[i].Name, pv.diagText(x.scratch), base[i].Obs.diagText(x.scratch)))
		}
	}
	c.Set("conformance_uninstrumented_equal", conf)
	c.Set("conformance_undecided_order_dependent_sources", confUndecided)

	// ---- report: per key the smallest source / earliest schedule, re-executed 3x
	sort.SliceStable(x.diffs, func(a, b int) bool {
		da, db := x.diffs[a], x.diffs[b]
		if da.Case != db.Case {
			return da.Case < db.Case
		}
		return devLess(da.Devs, db.Devs)
	})
	reported := map[string]bool{}
	flaky := 0
	for _, d := range x.diffs {
		key := "C16:" + d.Site + ":" + d.What
		if reported[key] {
			continue
		}
		reported[key] = true
		k := &cases[d.Case]
		if d.What != "ir-behaviour" {
			okN := 0
			for rep := 0; rep < 3; rep++ {
				b, ok1 := x.exec(k, d.RefDevs, "ir", "", 1)
				g, ok2 := x.exec(k, d.Devs, "ir", "", 1)
				if ok1 && ok2 && b.Obs.verdict() == d.Base.verdict() && sameDiags(b.Obs.Diags, d.Base.Diags) && g.Obs.verdict() == d.Got.verdict() && sameDiags(g.Obs.Diags, d.Got.Diags) {
					okN++
				}
			}
			if okN < 3 {
				flaky++
				reported[key] = false
				continue
			}
		}
		x.report(k, d)
	}
	c.Set("flaky_not_reported", flaky)

	// ---- evidence
	reached, reachedChoice, deviated := []string{}, []string{}, []string{}
	notReached := []string{}
	for _, id := range staticIDs {
		if x.siteExec[id] > 0 {
			reached = append(reached, id)
		} else {
			notReached = append(notReached, id)
		}
		if x.siteHits[id] > 0 {
			reachedChoice = append(reachedChoice, id)
		}
		if x.siteDev[id] > 0 {
			deviated = append(deviated, id)
		}
	}
	multi, maxOut := 0, 0
	perSource := map[string]int{}
	for i, m := range x.outcomes {
		if len(m) > 1 {
			multi++
			perSource[cases[i].Name] = len(m)
		}
		if len(m) > maxOut {
			maxOut = len(m)
		}
	}
	c.Set("static_sites", len(staticIDs))
	c.Set("sites_executed", reached)
	c.Set("sites_executed_n", len(reached))
	c.Set("sites_with_choice", reachedChoice)
	c.Set("sites_with_choice_n", len(reachedChoice))
	c.Set("sites_deviated_n", len(deviated))
	c.Set("sites_not_executed", notReached)
	if len(reachedChoice) < 20 {
		c.Set("sites_note", fmt.Sprintf("only %d of %d static sites offered a choice (>= 2 elements) on this corpus; %d were executed at all. Not reachable from the in-process compile+link path: cmd/internal/archive_reader (kddp update command) and the AST printer (debug output)", len(reachedChoice), len(staticIDs), len(reached)))
	}
	c.Set("sources_with_several_outcomes", multi)
	c.Set("distinct_outcomes_per_source", perSource)
	c.Set("max_distinct_outcomes_of_one_source", maxOut)
	c.Set("schedules", x.schedules)
	c.Set("compilations", x.schedules*2)
	c.Set("states", x.schedules)
	c.Set("transitions", x.points)
	c.Set("traces_validated_against_impl", x.schedules)
	c.Set("evaluations", x.schedules*2)
	dn := 0
	for _, m := range x.outcomes {
		dn += len(m)
	}
	c.Set("distinct_nontrivial", dn)
	c.Set("rule", "state = one executed schedule (a complete fresh compilation of one source under one assignment of orders to the choice points); transitions = choice points traversed over all schedules; every schedule is executed twice in a row and must repeat itself; distinct_nontrivial = sum over sources of distinct outcomes (verdict, diagnostics, IR hash)")
	c.Set("bounds", map[string]any{"deviation_bound": bound, "alternatives": "all n! orders for n<=4; identity, adjacent transpositions, rotations, reversal for n>4", "largest_n_with_reduced_alternatives": x.capN, "optimisation_level": x.opt, "link_modules": true, "link_list_defs": x.listDefs})
	if x.capN > 4 {
		c.Assume(fmt.Sprintf("choice points with more than 4 elements (up to %d here) are explored with 2n of their n! orders", x.capN))
	}
	c.Assume("the only nondeterminism of the compiler is map iteration order and sort.Slice ties (no goroutines, select, reflect map iteration, sort.Sort, slices.SortFunc in src/ and cmd/: proven by the rewriter's post-check on every build)",
		"third-party packages (llir/llvm) and LLVM itself are assumed deterministic; the twice-in-a-row execution of every schedule would expose a violation of this as 'harness not deterministic'",
		"IR variants are linked by the harness with sorted dependencies; the gcc argument order built by cmd/internal/linker is explored separately (link phase) for the sources with at least two external dependencies")
	c.Sample(map[string]any{"source": cases[0].Name, "schedule": "bound 0", "choice_points": len(base[0].points())})
	if len(jobs) > 0 {
		j := jobs[len(jobs)/2]
		c.Sample(map[string]any{"source": cases[j.ci].Name, "schedule": fmt.Sprintf("choice point #%d (%s, %d elements): alternative %d of %d", j.pos, j.site, j.n, j.c, j.alts)})
	}
	return c.Finish()
}

// behaviour links and runs one executable per distinct IR of every accepted source.
func (x *c16Run) behaviour(cases []c16Case, base []*c16Resp, deadline time.Time) {
	type bj struct {
		ci   int
		sha  string
		devs []verifhook.Dev
	}
	var list []bj
	cis := []int{}
	for ci := range x.irVar {
		cis = append(cis, ci)
	}
	sort.Ints(cis)
	for _, ci := range cis {
		shas := []string{}
		for s := range x.irVar[ci] {
			shas = append(shas, s)
		}
		sort.Strings(shas)
		for _, s := range shas {
			if x.irDone[ci] == nil {
				x.irDone[ci] = map[string]bool{}
			}
			if !x.irDone[ci][s] {
				x.irDone[ci][s] = true
				list = append(list, bj{ci, s, x.irVar[ci][s]})
			}
		}
	}
	x.irTotal += len(list)
	x.c.Set("sources_with_ir_variants", len(cis))
	if len(list) == 0 {
		return
	}
	{
		// only the sources that have new variants need a canonical executable
		need := map[int]bool{}
		for _, j := range list {
			need[j.ci] = true
		}
		cis = cis[:0]
		for ci := range need {
			cis = append(cis, ci)
		}
		sort.Ints(cis)
	}
	type beh struct {
		ok            bool
		stdout, class string
		exit          int
	}
	build := func(k *c16Case, devs []verifhook.Dev, tag string) (beh, string) {
		dir := filepath.Join(x.scratch, "exe")
		os.MkdirAll(dir, 0o755)
		obj := filepath.Join(dir, tag+".o")
		exe := filepath.Join(dir, tag+".exe")
		defer os.Remove(obj)
		defer os.Remove(exe)
		r, ok := x.exec(k, devs, "obj", obj, 1)
		if !ok {
			return beh{}, "infrastructure: compile to object failed"
		}
		if r.Obs.Err != "" || r.Obs.Panic != "" {
			return beh{}, "object compilation rejected: " + r.Obs.verdict()
		}
		if ok, log := rx.Link(obj, exe, r.Obs.Deps, rx.BuildOpts{NoLinkLists: !x.listDefs}); !ok {
			return beh{}, "link: " + firstLines(log, 3)
		}
		rr := rx.Run(exe, rx.RunOpts{Stdin: k.Stdin, Dir: k.Dir})
		return beh{true, rr.Stdout + "\x00" + rr.Stderr, rr.Class(), rr.Exit}, ""
	}
	baseBeh := map[int]beh{}
	baseErr := map[int]string{}
	var bmu sync.Mutex
	par.Each(cis, x.p.N(), func(_ int, ci int) {
		b, e := build(&cases[ci], nil, fmt.Sprintf("b%d", ci))
		bmu.Lock()
		baseBeh[ci], baseErr[ci] = b, e
		bmu.Unlock()
	})
	var done, timeouts int64
	par.Each(list, x.p.N(), func(i int, j bj) {
		if time.Now().After(deadline) {
			// not done: a later round may still pick it up
			x.mu.Lock()
			delete(x.irDone[j.ci], j.sha)
			x.irTotal--
			x.mu.Unlock()
			return
		}
		bb := baseBeh[j.ci]
		if !bb.ok {
			x.brokenOnce(fmt.Sprintf("baseline executable of %s cannot be built: %s", cases[j.ci].Name, baseErr[j.ci]))
			return
		}
		g, e := build(&cases[j.ci], j.devs, fmt.Sprintf("v%d", i))
		bmu.Lock()
		done++
		bmu.Unlock()
		if !g.ok {
			// report only what repeats itself and is not a failure of the harness (worker died, deadline)
			_, e2 := build(&cases[j.ci], j.devs, fmt.Sprintf("w%d", i))
			_, e3 := build(&cases[j.ci], j.devs, fmt.Sprintf("y%d", i))
			b2, _ := build(&cases[j.ci], nil, fmt.Sprintf("x%d", i))
			if strings.HasPrefix(e, "infrastructure") || e2 != e || e3 != e || b2 != bb {
				x.brokenOnce(fmt.Sprintf("IR variant of %s [%s] could not be built reproducibly: %s / %s / %s", cases[j.ci].Name, devText(j.devs), e, e2, e3))
				return
			}
			x.mu.Lock()
			x.diffs = append(x.diffs, c16Diff{Case: j.ci, Devs: j.devs, What: "ir-behaviour", Site: j.devs[len(j.devs)-1].Site, Base: base[j.ci].Obs,
				Note: "the program compiled under this schedule cannot be built (3 attempts, the canonical one builds): " + e})
			x.mu.Unlock()
			return
		}
		if bb.class == "timeout" || g.class == "timeout" {
			bmu.Lock()
			timeouts++
			bmu.Unlock()
			return
		}
		if g != bb {
			// re-run both before trusting
			g2, _ := build(&cases[j.ci], j.devs, fmt.Sprintf("w%d", i))
			b2, _ := build(&cases[j.ci], nil, fmt.Sprintf("x%d", i))
			g3, _ := build(&cases[j.ci], j.devs, fmt.Sprintf("y%d", i))
			if g2 != g || g3 != g || b2 != bb {
				x.mu.Lock()
				x.unstable++
				x.mu.Unlock()
				return
			}
			site, devs := j.devs[len(j.devs)-1].Site, j.devs
			if len(j.devs) > 1 {
				// attribute to the first deviation if it alone already produces this behaviour
				if pb, _ := build(&cases[j.ci], j.devs[:1], fmt.Sprintf("p%d", i)); pb == g {
					site, devs = j.devs[0].Site, j.devs[:1]
				}
			}
			x.mu.Lock()
			x.diffs = append(x.diffs, c16Diff{Case: j.ci, Devs: devs, What: "ir-behaviour", Site: site, Base: base[j.ci].Obs,
				Note: fmt.Sprintf("canonical executable: class %s exit %d output %q\nexecutable of this schedule: class %s exit %d output %q", bb.class, bb.exit, clip(bb.stdout, 400), g.class, g.exit, clip(g.stdout, 400))})
			x.mu.Unlock()
		}
	})
	x.irExecuted += done
	x.irTimeouts += timeouts
	x.c.Set("ir_variants_executed", x.irExecuted)
	x.c.Set("ir_variants_timeout_excluded", x.irTimeouts)
}

// linkPhase: for accepted sources with at least two external dependencies the object is linked by
// cmd/internal/linker inside the instrumented worker; every deviation at a choice point of the linker
// is executed (bound 1) and the executables are run and compared.
func (x *c16Run) linkPhase(cases []c16Case, base []*c16Resp, deadline time.Time) {
	var sel []int
	for i := range cases {
		if base[i] != nil && base[i].Obs.Err == "" && base[i].Obs.Panic == "" && len(base[i].Obs.Deps) >= 2 {
			sel = append(sel, i)
		}
	}
	x.c.Set("link_phase_sources", len(sel))
	var mu sync.Mutex
	var scheds, pts int64
	par.Each(sel, x.p.N(), func(_ int, ci int) {
		k := &cases[ci]
		dir := filepath.Join(x.scratch, "lnk", fmt.Sprint(ci))
		os.MkdirAll(dir, 0o755)
		run := func(devs []verifhook.Dev, tag string) (*c16Resp, string, bool) {
			exe := filepath.Join(dir, tag+".exe")
			defer os.Remove(exe)
			r, ok := x.exec(k, devs, "exe", exe, 1)
			if !ok {
				return nil, "", false
			}
			mu.Lock()
			scheds++
			pts += int64(len(r.T) / 3)
			mu.Unlock()
			x.mu.Lock()
			for s, n := range r.Stats {
				if strings.HasPrefix(s, "exec:") {
					x.siteExec[strings.TrimPrefix(s, "exec:")] += n
				}
			}
			for _, p := range r.points() {
				if strings.HasPrefix(p.Site, "cmd/") {
					x.siteHits[p.Site]++
				}
			}
			x.mu.Unlock()
			if r.Obs.Err != "" || r.Obs.Panic != "" {
				return r, "not linked: " + r.Obs.verdict(), true
			}
			rr := rx.Run(exe, rx.RunOpts{Stdin: k.Stdin, Dir: k.Dir})
			return r, fmt.Sprintf("class %s exit %d output %q", rr.Class(), rr.Exit, clip(rr.Stdout+"\x00"+rr.Stderr, 600)), true
		}
		r0, b0, ok := run(nil, "l0")
		if !ok {
			return
		}
		if strings.HasPrefix(b0, "not linked") {
			x.brokenOnce(fmt.Sprintf("link phase: %s is accepted but the repository's linker fails in canonical order: %s", k.Name, b0))
			return
		}
		for pos, p := range r0.points() {
			if !strings.HasPrefix(p.Site, "cmd/") {
				continue
			}
			for ch := 1; ch < p.Alts; ch++ {
				if time.Now().After(deadline) {
					x.c.Capped("deadline: link phase incomplete for " + k.Name)
					return
				}
				d := verifhook.Dev{Pos: pos, Choice: ch, Site: p.Site, N: p.N, Alts: p.Alts}
				r1, b1, ok := run([]verifhook.Dev{d}, fmt.Sprintf("l%d_%d", pos, ch))
				if !ok {
					continue
				}
				if len(r1.Applied) == 1 {
					d.Order = r1.Applied[0].Order
				}
				x.mu.Lock()
				x.siteDev[p.Site]++
				x.mu.Unlock()
				if b1 != b0 {
					_, b2, _ := run([]verifhook.Dev{d}, fmt.Sprintf("m%d_%d", pos, ch))
					_, b3, _ := run(nil, "m0")
					if b2 != b1 || b3 != b0 {
						continue
					}
					x.mu.Lock()
					x.diffs = append(x.diffs, c16Diff{Case: ci, Devs: []verifhook.Dev{d}, What: "ir-behaviour", Site: p.Site, Base: base[ci].Obs,
						Note: "linked by cmd/internal/linker\ncanonical executable: " + b0 + "\nexecutable of this schedule: " + b1})
					x.mu.Unlock()
				}
			}
		}
	})
	x.mu.Lock()
	x.schedules += scheds
	x.points += pts
	x.mu.Unlock()
	x.c.Set("link_phase_schedules", scheds)
}

func clip(s string, n int) string {
	if len(s) > n {
		return s[:n] + "…"
	}
	return s
}

func (x *c16Run) report(k *c16Case, d c16Diff) {
	files := map[string]string{}
	filepath.Walk(k.Root, func(p string, info os.FileInfo, err error) error {
		if err != nil || info.IsDir() || info.Size() > 1<<20 {
			return nil
		}
		if ext := filepath.Ext(p); ext != ".ddp" && ext != ".c" && ext != ".h" && ext != ".txt" {
			return nil
		}
		rel, _ := filepath.Rel(k.Root, p)
		b, _ := os.ReadFile(p)
		files[filepath.Join("src", rel)] = string(b)
		return nil
	})
	relMain, _ := filepath.Rel(k.Root, k.file())
	meta, _ := json.MarshalIndent(map[string]any{"name": k.Name, "main": relMain, "devs": d.Devs, "ref_devs": d.RefDevs, "opt": x.opt, "list_defs": x.listDefs, "what": d.What, "site": d.Site, "stdin": k.Stdin}, "", " ")
	files["case.json"] = string(meta)
	strip := k.Root + "/"
	files["canonical.txt"] = "schedule: " + devText(d.RefDevs) + "\nverdict: " + strings.ReplaceAll(d.Base.verdict(), strip, "") + "\n" + d.Base.diagText(strip)
	files["deviating.txt"] = "schedule: " + devText(d.Devs) + "\nverdict: " + strings.ReplaceAll(d.Got.verdict(), strip, "") + "\n" + d.Got.diagText(strip) + d.Note + "\n"
	var what string
	switch d.What {
	case "verdict":
		what = fmt.Sprintf("source %s: verdict depends on iteration order at %s\n schedule [%s]: %s\n schedule [%s]: %s", k.Name, d.Site, devText(d.RefDevs), strings.ReplaceAll(d.Base.verdict(), strip, ""), devText(d.Devs), strings.ReplaceAll(d.Got.verdict(), strip, ""))
	case "diagnostics":
		what = fmt.Sprintf("source %s: diagnostics depend on iteration order at %s\n schedule [%s] reports:\n%s schedule [%s] reports:\n%s", k.Name, d.Site, devText(d.RefDevs), indent(d.Base.diagText(strip)), devText(d.Devs), indent(d.Got.diagText(strip)))
	default:
		what = fmt.Sprintf("source %s: behaviour of the executable depends on iteration order at %s\n schedule [%s]\n%s", k.Name, d.Site, devText(d.Devs), d.Note)
	}
	x.c.Violation("C16:"+d.Site+":"+d.What, what, files)
}

func indent(s string) string {
	if s == "" {
		return "   (no diagnostics)\n"
	}
	return "   " + strings.ReplaceAll(strings.TrimRight(s, "\n"), "\n", "\n   ") + "\n"
}

// replayC16 re-runs exactly one recorded case: canonical schedule vs recorded schedule.
func replayC16(dir string) int {
	b, err := os.ReadFile(filepath.Join(dir, "case.json"))
	if err != nil {
		fmt.Println(err)
		return 2
	}
	var meta struct {
		Name     string          `json:"name"`
		Main     string          `json:"main"`
		Devs     []verifhook.Dev `json:"devs"`
		RefDevs  []verifhook.Dev `json:"ref_devs"`
		Opt      uint            `json:"opt"`
		ListDefs bool            `json:"list_defs"`
		What     string          `json:"what"`
		Site     string          `json:"site"`
		Stdin    string          `json:"stdin"`
	}
	if err := json.Unmarshal(b, &meta); err != nil {
		fmt.Println(err)
		return 2
	}
	if err := c16EnsureBuilt(); err != nil {
		fmt.Println(err)
		return 2
	}
	c := ev.New("C16", "replay")
	x := &c16Run{c: c, opt: meta.Opt, listDefs: meta.ListDefs, irVar: map[int]map[string][]verifhook.Dev{}, siteHits: map[string]int64{}, siteExec: map[string]int64{},
		siteDev: map[string]int64{}, outcomes: map[int]map[string]int{}, broken: map[string]bool{}, irDone: map[int]map[string]bool{}}
	x.p = pool.New("c16", 2)
	x.p.Exe = filepath.Join(rx.VDir, "ddpmc16")
	defer x.p.Close()
	x.scratch = rx.Scratch("c16r")
	defer os.RemoveAll(x.scratch)
	root := filepath.Join(x.scratch, "src")
	if err := copyTree(filepath.Join(dir, "src"), root); err != nil {
		fmt.Println(err)
		return 2
	}
	k := c16Case{Name: meta.Name, Root: root, Dir: filepath.Dir(filepath.Join(root, meta.Main)), Main: filepath.Base(meta.Main), Stdin: meta.Stdin}
	base, ok1 := x.exec(&k, meta.RefDevs, "ir", "", 2)
	got, ok2 := x.exec(&k, meta.Devs, "ir", "", 2)
	if !ok1 || !ok2 {
		fmt.Println("C16 replay: the schedule cannot be replayed on this tree (see BROKEN lines)")
		return 2
	}
	strip := root + "/"
	fmt.Printf("schedule [%s]: %s\n%s", devText(meta.RefDevs), strings.ReplaceAll(base.Obs.verdict(), strip, ""), indent(base.Obs.diagText(strip)))
	fmt.Printf("schedule [%s]: %s\n%s", devText(meta.Devs), strings.ReplaceAll(got.Obs.verdict(), strip, ""), indent(got.Obs.diagText(strip)))
	bad := ""
	switch {
	case base.Obs.verdict() != got.Obs.verdict():
		bad = "verdict"
	case !sameDiags(base.Obs.Diags, got.Obs.Diags):
		bad = "diagnostics"
	case base.Obs.IRSha != got.Obs.IRSha:
		x.irVar[0] = map[string][]verifhook.Dev{got.Obs.IRSha: meta.Devs}
		x.behaviour([]c16Case{k}, []*c16Resp{base}, time.Now().Add(10*time.Minute))
		for _, d := range x.diffs {
			bad = d.What
			fmt.Println(d.Note)
		}
	}
	if bad != "" {
		fmt.Printf("VIOLATION property=C16 replay=%s\n  %s differs between the two schedules (site %s)\n", dir, bad, meta.Site)
		return 1
	}
	fmt.Println("C16 replay: property holds on this case")
	return 0
}
