package main

// C09 — the bounded space: alias populations, call sites, program text.

import (
	"fmt"
	"strings"

	am "ddpmc/internal/callmodel"
)

// ---- parameter types ----

type c09Ty struct {
	code    string // short id used in population ids
	ddp     string // spelling after "vom Typ"
	model   string // model type name
	generic bool
	ref     bool
}

var c09Tys = []c09Ty{
	{"Z", "Zahl", "Zahl", false, false},
	{"X", "Text", "Text", false, false},
	{"ZR", "Zahlen Referenz", "Zahl", false, true},
	{"XR", "Text Referenz", "Text", false, true},
	{"T", "T", "T", true, false},
	{"L", "Zahlen Liste", "Zahlen Liste", false, false},
}

const (
	tyZ = iota
	tyX
	tyZR
	tyXR
	tyT
	tyL
)

// ---- alias patterns over the vocabulary {foo, bar, mit, <a>, <b>} ----

type c09Pat struct {
	id     string
	toks   []string // words and "<a>" / "<b>"
	neg    int      // index of the token carrying the negation marker "<!word>", -1 = none
	nparam int
}

var c09Pats = []c09Pat{
	{"P1", []string{"foo", "<a>"}, -1, 1},
	{"P2", []string{"foo", "<a>", "bar"}, -1, 1},
	{"P3", []string{"foo", "<a>", "<b>"}, -1, 2},
	{"P4", []string{"foo", "<a>", "mit", "<b>"}, -1, 2},
	{"P5", []string{"foo", "<b>", "mit", "<a>"}, -1, 2},
	// negated forms: the marked word is present in the negated alias only
	{"N1", []string{"foo", "<a>", "bar"}, 2, 1},               // "foo <a> <!bar>"      : foo <a> | nicht: foo <a> bar
	{"N3", []string{"foo", "mit", "<a>", "<b>"}, 1, 2},        // "foo <!mit> <a> <b>"  : foo <a> <b> | nicht: foo mit <a> <b>
	{"N4", []string{"foo", "<a>", "bar", "mit", "<b>"}, 2, 2}, // "foo <a> <!bar> mit <b>": foo <a> mit <b> | nicht: foo <a> bar mit <b>
	// a number literal as a fixed part of the pattern: two patterns that differ in nothing else
	{"P6", []string{"foo", "1", "<a>"}, -1, 1},
	{"P7", []string{"foo", "2", "<a>"}, -1, 1},
}

const (
	patP1 = iota
	patP2
	patP3
	patP4
	patP5
	patN1
	patN3
	patN4
	patP6
	patP7
)

// c09Entry is one declaration of a population.
type c09Entry struct {
	pat      int
	tys      []int // type of parameter a, b (declaration order)
	strukt   bool  // Kombination constructor (fields a, b) instead of a function
	imported bool
}

func (e c09Entry) id() string {
	var ts []string
	for _, t := range e.tys {
		ts = append(ts, c09Tys[t].code)
	}
	s := c09Pats[e.pat].id + "(" + strings.Join(ts, ",") + ")"
	if e.strukt {
		s = "K" + s
	}
	if e.imported {
		s += "@m"
	}
	return s
}

type c09Pop []c09Entry

func (p c09Pop) id() string {
	if len(p) == 0 {
		return "empty"
	}
	var s []string
	for _, e := range p {
		s = append(s, e.id())
	}
	return strings.Join(s, "+")
}

// c09World is a population instantiated with concrete words and names: program text + model.
type c09World struct {
	pop     c09Pop
	sfx     string // appended to foo/bar and to declaration names (end-to-end programs merge populations)
	decls   []*am.Decl
	aliases []*am.Alias
	valid   bool // no two aliases with the same key
}

func (w *c09World) word(s string) string {
	if s == "foo" || s == "bar" {
		return s + w.sfx
	}
	return s
}

func c09Build(pop c09Pop, sfx string) *c09World {
	w := &c09World{pop: pop, sfx: sfx, valid: true}
	keys := map[string]bool{}
	for i, e := range pop {
		pt := c09Pats[e.pat]
		d := &am.Decl{Name: fmt.Sprintf("f%s%d", sfx, i+1), Struct: e.strukt, Imported: e.imported}
		if e.strukt {
			d.Name = fmt.Sprintf("Kom%s%d", sfx, i+1)
		}
		names := []string{"a", "b"}
		for k, t := range e.tys {
			ty := c09Tys[t]
			d.Params = append(d.Params, am.Param{Name: names[k], Type: ty.model, Generic: ty.generic, Ref: ty.ref})
		}
		mk := func(skipMarked, negated bool) *am.Alias {
			a := &am.Alias{Decl: d, Negated: negated}
			for k, t := range pt.toks {
				if k == pt.neg && skipMarked {
					continue
				}
				if strings.HasPrefix(t, "<") {
					a.Pattern = append(a.Pattern, am.Tok{Param: strings.Trim(t, "<>")})
				} else {
					a.Pattern = append(a.Pattern, am.Tok{Word: w.word(t)})
				}
			}
			return a
		}
		if pt.neg >= 0 {
			d.Aliases = []*am.Alias{mk(false, true), mk(true, false)}
		} else {
			d.Aliases = []*am.Alias{mk(false, false)}
		}
		for _, a := range d.Aliases {
			k := a.Key()
			if keys[k] {
				w.valid = false
			}
			keys[k] = true
			w.aliases = append(w.aliases, a)
		}
		w.decls = append(w.decls, d)
	}
	return w
}

// aliasText is the alias string of entry e as written in the declaration.
func (w *c09World) aliasText(e c09Entry) string {
	pt := c09Pats[e.pat]
	var s []string
	for k, t := range pt.toks {
		switch {
		case k == pt.neg:
			s = append(s, "<!"+w.word(t)+">")
		case strings.HasPrefix(t, "<"):
			s = append(s, t)
		default:
			s = append(s, w.word(t))
		}
	}
	return strings.Join(s, " ")
}

// declText renders declaration i. print: the body prints the name and the arguments (end-to-end).
func (w *c09World) declText(i int, print bool) string {
	e, d := w.pop[i], w.decls[i]
	var sb strings.Builder
	pub := ""
	if e.imported {
		pub = "öffentliche "
	}
	if e.strukt {
		fmt.Fprintf(&sb, "Wir nennen die %sKombination aus\n", pub)
		pubf := ""
		if e.imported {
			pubf = "öffentlichen "
		}
		for k, t := range e.tys {
			switch t {
			case tyZ:
				fmt.Fprintf(&sb, "\tder %sZahl %s mit Standardwert 0,\n", pubf, d.Params[k].Name)
			case tyX:
				fmt.Fprintf(&sb, "\tdem %sText %s mit Standardwert \"\",\n", pubf, d.Params[k].Name)
			default:
				panic("struct field type")
			}
		}
		fmt.Fprintf(&sb, "einen %s, und erstellen sie so:\n\t\"%s\"\n", d.Name, w.aliasText(e))
		return sb.String()
	}
	gen := ""
	if d.IsGeneric() {
		gen = "generische "
	}
	fmt.Fprintf(&sb, "Die %s%sFunktion %s ", pub, gen, d.Name)
	if len(e.tys) == 1 {
		fmt.Fprintf(&sb, "mit dem Parameter a vom Typ %s", c09Tys[e.tys[0]].ddp)
	} else {
		fmt.Fprintf(&sb, "mit den Parametern a und b vom Typ %s und %s", c09Tys[e.tys[0]].ddp, c09Tys[e.tys[1]].ddp)
	}
	sb.WriteString(", gibt einen Wahrheitswert zurück, macht:\n")
	if print {
		fmt.Fprintf(&sb, "\tSchreibe \"%s(\".\n", d.Name)
		for k, t := range e.tys {
			if k > 0 {
				sb.WriteString("\tSchreibe \",\".\n")
			}
			if t == tyL {
				fmt.Fprintf(&sb, "\tSchreibe (die Länge von %s).\n", d.Params[k].Name)
			} else {
				fmt.Fprintf(&sb, "\tSchreibe (%s als Text).\n", d.Params[k].Name)
			}
		}
		sb.WriteString("\tSchreibe \")\" auf eine Zeile.\n")
	}
	sb.WriteString("\tGib wahr zurück.\n")
	fmt.Fprintf(&sb, "Und kann so benutzt werden:\n\t\"%s\"\n", w.aliasText(e))
	return sb.String()
}

// ---- call-site units ----

type c09Unit struct {
	text string
	am.Unit
	render string // canonical rendering of the argument as it appears in the AST
}

// the vocabulary {foo, bar, mit, 1, -1, x, t, (x plus 2), "s", 2}
func (w *c09World) units() []c09Unit {
	mk := func(text string, word, arg bool, ty string, ass bool, render string) c09Unit {
		return c09Unit{text, am.Unit{Text: text, Word: word, Arg: arg, Type: ty, Assignable: ass}, render}
	}
	foo, bar := w.word("foo"), w.word("bar")
	return []c09Unit{
		mk(foo, true, true, "", false, foo),
		mk(bar, true, true, "", false, bar),
		mk("mit", true, false, "", false, ""),
		mk("1", true, true, "Zahl", false, "1"), // also a fixed part of the patterns P6
		mk("-1", false, true, "Zahl", false, "-1"),
		mk("x", false, true, "Zahl", true, "x"),
		mk("t", false, true, "Text", true, "t"),
		mk("(x plus 2)", false, true, "Zahl", false, "(x plus 2)"),
		mk("\"s\"", false, true, "Text", false, "\"s\""),
		mk("2", true, true, "Zahl", false, "2"), // fixed part of the patterns P7
	}
}

const c09NUnits = 10

// c09Seq decodes sequence number n of length L (base-c09NUnits digits, most significant first).
func c09Seq(n int64, L int) []int {
	s := make([]int, L)
	for k := L - 1; k >= 0; k-- {
		s[k] = int(n % c09NUnits)
		n /= c09NUnits
	}
	return s
}

func c09Pow(L int) int64 {
	p := int64(1)
	for k := 0; k < L; k++ {
		p *= c09NUnits
	}
	return p
}

// c09Sites enumerates every unit sequence of length 1..maxLen; first<0: all, else only those whose
// first unit is `first` (exclude=false) or is not `first` (exclude=true).
func c09Sites(maxLen, first int, exclude bool) [][]int {
	var out [][]int
	for L := 1; L <= maxLen; L++ {
		for n := int64(0); n < c09Pow(L); n++ {
			s := c09Seq(n, L)
			if first >= 0 && ((s[0] == first) == exclude) {
				continue
			}
			out = append(out, s)
		}
	}
	return out
}

func c09SiteText(us []c09Unit, s []int) string {
	var p []string
	for _, i := range s {
		p = append(p, us[i].text)
	}
	return strings.Join(p, " ")
}

// ---- program text ----

// header returns the text of main.ddp up to the call statements and the imported module (""= none).
func (w *c09World) header(print bool) (main, mod string) {
	var sb, mb strings.Builder
	if print {
		sb.WriteString("Binde \"Duden/Ausgabe\" ein.\n")
		mb.WriteString("Binde \"Duden/Ausgabe\" ein.\n")
	}
	anyImp := false
	for _, e := range w.pop {
		if e.imported {
			anyImp = true
		}
	}
	if anyImp {
		sb.WriteString("Binde \"m\" ein.\n")
	}
	sb.WriteString("Die Zahl x ist 5.\nDer Text t ist \"tt\".\n")
	for i, e := range w.pop {
		if e.imported {
			mb.WriteString(w.declText(i, print))
		} else {
			sb.WriteString(w.declText(i, print))
		}
	}
	if anyImp {
		mod = mb.String()
	}
	return sb.String(), mod
}

// ---- pools ----

func c09Sigs1() [][]int { return [][]int{{tyZ}, {tyX}, {tyZR}, {tyXR}, {tyT}, {tyL}} }

// two-parameter signatures of the wide pool (all 36) and of the core pool
func c09Sigs2(wide bool) [][]int {
	if wide {
		var out [][]int
		for a := 0; a < len(c09Tys); a++ {
			for b := 0; b < len(c09Tys); b++ {
				out = append(out, []int{a, b})
			}
		}
		return out
	}
	return [][]int{{tyZ, tyZ}, {tyZ, tyX}, {tyX, tyZ}, {tyZR, tyZ}, {tyZ, tyZR}, {tyZR, tyXR}, {tyT, tyT}, {tyT, tyZ}, {tyZR, tyT}, {tyL, tyZ}}
}

// c09Pool builds a declaration pool: patterns P1..P5 x signatures.
func c09Pool(sigs2 [][]int) []c09Entry {
	var out []c09Entry
	for _, p := range []int{patP1, patP2, patP6, patP7} {
		for _, s := range c09Sigs1() {
			out = append(out, c09Entry{pat: p, tys: s})
		}
	}
	for _, p := range []int{patP3, patP4, patP5} {
		for _, s := range sigs2 {
			out = append(out, c09Entry{pat: p, tys: s})
		}
	}
	return out
}

// the small pool used for the largest population sizes
func c09SmallPool() []c09Entry {
	e := func(p int, t ...int) c09Entry { return c09Entry{pat: p, tys: t} }
	return []c09Entry{
		e(patP1, tyZ), e(patP1, tyX), e(patP1, tyZR), e(patP1, tyT),
		e(patP2, tyZ), e(patP2, tyXR), e(patP2, tyT),
		e(patP3, tyZ, tyZ), e(patP3, tyZR, tyX), e(patP3, tyT, tyT),
		e(patP4, tyZ, tyX), e(patP4, tyZ, tyZ), e(patP4, tyZR, tyZ), e(patP4, tyT, tyT), e(patP4, tyL, tyZ),
		e(patP5, tyZ, tyX), e(patP5, tyZ, tyZR), e(patP5, tyT, tyZ),
	}
}

func c09NegPool() []c09Entry {
	var out []c09Entry
	for _, s := range [][]int{{tyZ}, {tyX}, {tyZR}, {tyT}} {
		out = append(out, c09Entry{pat: patN1, tys: s})
	}
	for _, s := range [][]int{{tyZ, tyZ}, {tyZ, tyX}, {tyZR, tyT}} {
		out = append(out, c09Entry{pat: patN3, tys: s}, c09Entry{pat: patN4, tys: s})
	}
	return out
}

func c09StructPool() []c09Entry {
	var out []c09Entry
	for _, imp := range []bool{false, true} {
		out = append(out,
			c09Entry{pat: patP4, tys: []int{tyZ, tyX}, strukt: true, imported: imp},
			c09Entry{pat: patP5, tys: []int{tyZ, tyX}, strukt: true, imported: imp},
			c09Entry{pat: patP3, tys: []int{tyX, tyZ}, strukt: true, imported: imp},
		)
	}
	// one-field constructors
	out = append(out, c09Entry{pat: patP2, tys: []int{tyZ}, strukt: true}, c09Entry{pat: patP1, tys: []int{tyX}, strukt: true})
	return out
}

// c09Subsets calls fn for every subset of pool with minK..maxK elements (indices ascending).
func c09Subsets(n, minK, maxK int, fn func(idx []int)) {
	var rec func(start int, cur []int)
	rec = func(start int, cur []int) {
		if len(cur) >= minK {
			fn(append([]int{}, cur...))
		}
		if len(cur) == maxK {
			return
		}
		for i := start; i < n; i++ {
			rec(i+1, append(cur, i))
		}
	}
	rec(0, nil)
}

// c09Masks returns copies of pop with every non-empty subset of its entries moved to module m.
func c09Masks(pop c09Pop) []c09Pop {
	var out []c09Pop
	for m := 1; m < 1<<len(pop); m++ {
		q := make(c09Pop, len(pop))
		copy(q, pop)
		for i := range q {
			if m&(1<<i) != 0 {
				q[i].imported = true
			}
		}
		out = append(out, q)
	}
	return out
}
