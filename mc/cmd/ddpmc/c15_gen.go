package main

// C15 — program generator: argument types, generic body families, the textual specialiser that
// produces the monomorphic twin, call sites and call histories.

import (
	"fmt"
	"regexp"
	"strings"
)

// ---------------------------------------------------------------------------------------------
// argument types

type c15Ty struct {
	key        string // identity in violation keys
	name       string // DDP type name as written in the generic program
	twinName   string // name in the twin ("" = same). Only the second same-named Kombination is renamed.
	canon      string // key of the type it is equal to (type aliases are transparent)
	nom, akk   string // articles: "Die Zahl x ist …", "gibt eine Zahl zurück"
	list       string // name of the list type ("" = a list of it is a nested list: not expressible in the twin)
	ref        string // name of the reference type
	param      string // spelling as a type argument of a generic Kombination
	structLike bool   // list/ref/param are derived from the (twin) name
	vals       []string
	declarable bool // the call site can name the type
	eq         bool // `gleich` is defined
	numeric    bool // `plus 1` is defined and yields the type itself
	hasZ       bool // has a public field z of type Zahl
	printable  bool // Duden/Ausgabe has `Schreibe <x> auf eine Zeile` for it
	show       func(expr, tmp string) []string
}

func (t *c15Ty) nm(twin bool) string {
	if twin && t.twinName != "" {
		return t.twinName
	}
	return t.name
}
func (t *c15Ty) listName(twin bool) string {
	if t.structLike {
		return t.nm(twin) + " Liste"
	}
	return t.list
}
func (t *c15Ty) refName(twin bool) string {
	if t.structLike {
		return t.nm(twin) + " Referenz"
	}
	return t.ref
}
func (t *c15Ty) paramName(twin bool) string {
	if t.structLike {
		n := t.nm(twin)
		if strings.ContainsAny(n, " -") {
			return "(" + n + ")"
		}
		return n
	}
	return t.param
}

func c15Line(e string) string { return "Schreibe " + e + " auf eine Zeile." }

func c15Types() []*c15Ty {
	simple := func(expr, tmp string) []string { return []string{c15Line(expr)} }
	return []*c15Ty{
		{key: "Zahl", name: "Zahl", nom: "Die", akk: "eine", list: "Zahlen Liste", ref: "Zahlen Referenz", param: "Zahl",
			vals: []string{"7", "12", "0"}, declarable: true, eq: true, numeric: true, printable: true, show: simple},
		{key: "Kommazahl", name: "Kommazahl", nom: "Die", akk: "eine", list: "Kommazahlen Liste", ref: "Kommazahlen Referenz", param: "Kommazahl",
			vals: []string{"2,5", "0,25", "10,0"}, declarable: true, eq: true, numeric: true, printable: true, show: simple},
		{key: "Text", name: "Text", nom: "Der", akk: "einen", list: "Text Liste", ref: "Text Referenz", param: "Text",
			vals: []string{`"ab"`, `"ü€"`, `""`}, declarable: true, eq: true, printable: true, show: simple},
		{key: "ZahlenListe", name: "Zahlen Liste", nom: "Die", akk: "eine", list: "", ref: "Zahlen Listen Referenz", param: "(Zahlen Liste)",
			vals:       []string{"(eine Liste, die aus 1, 2 besteht)", "(eine Liste, die aus 5 besteht)", "(eine leere Zahlen Liste)"},
			declarable: true, eq: true, printable: true,
			show: func(expr, tmp string) []string {
				return []string{"Die Zahlen Liste " + tmp + " ist " + expr + ".", c15Line("(die Länge von " + tmp + ")"), c15Line(tmp)}
			}},
		{key: "Paar", name: "Paar", nom: "Das", akk: "ein", structLike: true,
			vals:       []string{`(ein Paar aus 1 und "x")`, `(ein Paar aus 2 und "yö")`, `(ein Paar aus 0 und "")`},
			declarable: true, eq: true, hasZ: true,
			show: func(expr, tmp string) []string {
				return []string{"Das Paar " + tmp + " ist " + expr + ".", c15Line("(z von " + tmp + ")"), c15Line("(t von " + tmp + ")")}
			}},
		{key: "ZahlBox", name: "Zahl-Box", nom: "Die", akk: "eine", structLike: true,
			vals:       []string{"(eine Box mit 4)", "(eine Box mit 44)", "(eine Box mit 0)"},
			declarable: true, eq: true,
			show: func(expr, tmp string) []string {
				return []string{"Die Zahl-Box " + tmp + " ist " + expr + ".", c15Line("(inhalt von " + tmp + ")")}
			}},
		{key: "Nummer", name: "Nummer", canon: "Zahl", nom: "Die", akk: "eine", structLike: true,
			vals: []string{"(5 als Nummer)", "(6 als Nummer)", "(0 als Nummer)"}, declarable: true, eq: true, numeric: true, printable: true, show: simple},
		{key: "Kennung", name: "Kennung", nom: "Die", akk: "eine", structLike: true,
			vals: []string{"(9 als Kennung)", "(8 als Kennung)", "(0 als Kennung)"}, declarable: true, eq: true,
			show: func(expr, tmp string) []string { return []string{c15Line("(" + expr + " als Zahl)")} }},
		{key: "DingA", name: "Ding", nom: "Das", akk: "ein", structLike: true,
			vals: []string{"(DingA 11)", "(DingA 12)", "(DingA 0)"}, declarable: true, eq: true, hasZ: true,
			show: func(expr, tmp string) []string { return []string{"zeige A " + expr + "."} }},
		{key: "DingB", name: "Ding", twinName: "Ding2", nom: "Das", akk: "ein", structLike: true,
			vals: []string{`(DingB "bb")`, `(DingB "cc")`, `(DingB "")`}, declarable: false, eq: true, hasZ: true,
			show: func(expr, tmp string) []string { return []string{"zeige B " + expr + "."} }},
	}
}

func (t *c15Ty) canonKey() string {
	if t.canon != "" {
		return t.canon
	}
	return t.key
}

func c15TupleKey(ts []*c15Ty) string {
	var s []string
	for _, t := range ts {
		s = append(s, t.key)
	}
	return strings.Join(s, ",")
}
func c15CanonTuple(ts []*c15Ty) string {
	var s []string
	for _, t := range ts {
		s = append(s, t.canonKey())
	}
	return strings.Join(s, ",")
}

// ---------------------------------------------------------------------------------------------
// fixed modules

const c15Typen = `Wir nennen die öffentliche Kombination aus
	der öffentlichen Zahl z mit Standardwert 0,
	dem öffentlichen Text t mit Standardwert "",
ein Paar, und erstellen sie so:
	"ein Paar aus <z> und <t>"

Wir nennen die generische öffentliche Kombination aus
	dem öffentlichen T inhalt,
eine Box, und erstellen sie so:
	"eine Box mit <inhalt>"

Wir nennen eine Zahl öffentlich auch eine Nummer.
Wir definieren eine Kennung öffentlich als eine Zahl.
`

const c15ModA = `Binde "Duden/Ausgabe" ein.

Wir nennen die öffentliche Kombination aus
	der öffentlichen Zahl z mit Standardwert 1,
ein Ding, und erstellen sie so:
	"ein A-Ding mit <z>"

Die öffentliche Funktion machA mit dem Parameter z vom Typ Zahl, gibt ein Ding zurück, macht:
	Gib ein A-Ding mit z zurück.
Und kann so benutzt werden:
	"DingA <z>"

Die öffentliche Funktion zeigeA mit dem Parameter d vom Typ Ding, gibt nichts zurück, macht:
	Schreibe "A:".
	Schreibe (z von d) auf eine Zeile.
Und kann so benutzt werden:
	"zeige A <d>"
`

// module b: a Kombination with the same name as the one of module a but a different layout.
// In the twin the type is called Ding2 (the specialised function has to name both types in one module).
func c15ModB(twin bool) string {
	s := `Binde "Duden/Ausgabe" ein.

Wir nennen die öffentliche Kombination aus
	dem öffentlichen Text t mit Standardwert "b",
	der öffentlichen Zahl z mit Standardwert 2,
	dem öffentlichen Text u mit Standardwert "uu",
ein Ding, und erstellen sie so:
	"ein B-Ding mit <t>"

Die öffentliche Funktion machB mit dem Parameter t vom Typ Text, gibt ein Ding zurück, macht:
	Gib ein B-Ding mit t zurück.
Und kann so benutzt werden:
	"DingB <t>"

Die öffentliche Funktion zeigeB mit dem Parameter d vom Typ Ding, gibt nichts zurück, macht:
	Schreibe "B:".
	Schreibe (t von d).
	Schreibe (z von d).
	Schreibe (u von d) auf eine Zeile.
Und kann so benutzt werden:
	"zeige B <d>"
`
	if twin {
		s = strings.ReplaceAll(s, "Ding,", "Ding2,")
		s = strings.ReplaceAll(s, "Ding ", "Ding2 ")
		s = strings.ReplaceAll(s, "Ding2 mit", "Ding mit") // the constructor alias keeps its words
	}
	return s
}

// ---------------------------------------------------------------------------------------------
// the textual specialiser: generic text -> monomorphic text

var c15TyRe = regexp.MustCompile(`(Das |ein |Die |eine )?\b(T|R)(-Box| Listen Referenz| Liste| Referenz)?\b`)
var c15FnRe = regexp.MustCompile(`Funktion ([a-z]+[0-9]+)\b`)

// c15Specialise replaces the type parameters T (and R) textually by concrete types (with the article and
// plural forms the grammar demands), removes `generische` and gives the function the name suffix.
func c15Specialise(text string, ts []*c15Ty, suffix string) string {
	text = strings.ReplaceAll(text, "generische ", "")
	text = c15FnRe.ReplaceAllString(text, "Funktion ${1}"+suffix)
	return c15TyRe.ReplaceAllStringFunc(text, func(m string) string {
		sm := c15TyRe.FindStringSubmatch(m)
		art, tp, suf := sm[1], sm[2], sm[3]
		t := ts[0]
		if tp == "R" {
			t = ts[1]
		}
		switch suf {
		case "-Box":
			return art + t.paramName(true) + "-Box"
		case " Liste":
			return art + t.listName(true)
		case " Listen Referenz":
			return art + t.listName(true) + "n Referenz"
		case " Referenz":
			return art + t.refName(true)
		}
		switch art {
		case "Das ":
			return t.nom + " " + t.nm(true)
		case "ein ":
			return t.akk + " " + t.nm(true)
		}
		return art + t.nm(true)
	})
}

// ---------------------------------------------------------------------------------------------
// body families

type c15Entry struct {
	name   string // function / alias prefix ("f" -> f12)
	params string // "mit dem Parameter a vom Typ T"
	ret    string // "gibt ein T zurück"
	args   string // alias parameters "<a> <b>"
	fwd    string // forwarding arguments "a b"
	void   bool
}

type c15Fam struct {
	key     string
	nT      int
	shared  func(n int) string // non-generic private declarations of the declaring module (emitted once, in both programs)
	decoy   func(n int) string // declarations with the same names/aliases placed in the calling modules
	generic func(n int) string // the generic declarations
	twin    func(n int) string // text to specialise for the twin instead of generic (forward declarations); nil = generic
	entries []c15Entry
	applies func(ts []*c15Ty) bool
	calls   func(cx *c15Call) []string
	bad     []string // type keys for which the body is ill-typed
	// for the two-type diagnostics: how two values of different types are passed to parameters sharing T
	twoTypes func(cx *c15Call, a, b *c15Ty) (pre []string, call string)
}

func c15Fun(name, params, ret string, body []string, alias string) string {
	s := "Die öffentliche generische Funktion " + name
	if params != "" {
		s += " " + params + ","
	}
	s += " " + ret + ", macht:\n"
	for _, b := range body {
		s += "\t" + b + "\n"
	}
	return s + "Und kann so benutzt werden:\n\t\"" + alias + "\"\n\n"
}

func c15N(s string, n int) string { return strings.ReplaceAll(s, "{n}", fmt.Sprint(n)) }

type c15Call struct {
	n, k  int
	ts    []*c15Ty
	vi    int
	outer bool // call through the forwarding generic of module i
	tmpn  int
}

func (cx *c15Call) fn(name string) string {
	if cx.outer {
		return fmt.Sprintf("o%s%d", name, cx.n)
	}
	return fmt.Sprintf("%s%d", name, cx.n)
}
func (cx *c15Call) val(i, off int) string {
	v := cx.ts[i].vals
	return v[(cx.vi+off)%len(v)]
}
func (cx *c15Call) tmp() string {
	cx.tmpn++
	return fmt.Sprintf("v%dx%dx%d", cx.n, cx.k, cx.tmpn)
}
func (cx *c15Call) show(i int, expr string) []string { return cx.ts[i].show(expr, cx.tmp()) }
func (cx *c15Call) decl(i int, name, expr string) string {
	return cx.ts[i].nom + " " + cx.ts[i].name + " " + name + " ist " + expr + "."
}

const (
	c15P1   = "mit dem Parameter a vom Typ T"
	c15P2   = "mit den Parametern a und b vom Typ T und T"
	c15PK   = "mit den Parametern a und k vom Typ T und Zahl"
	c15RetT = "gibt ein T zurück"
)

func c15Families() []*c15Fam {
	all := func(ts []*c15Ty) bool { return true }
	one := func(name string) []c15Entry {
		return []c15Entry{{name: name, params: c15P1, ret: c15RetT, args: "<a>", fwd: "a"}}
	}
	showF := func(cx *c15Call) []string { return cx.show(0, "("+cx.fn("f")+" "+cx.val(0, 0)+")") }
	showFK := func(cx *c15Call) []string { return cx.show(0, "("+cx.fn("f")+" "+cx.val(0, 0)+" 3)") }
	unary := func(key string, body ...string) *c15Fam {
		return &c15Fam{key: key, nT: 1, entries: one("f"), applies: all, calls: showF,
			generic: func(n int) string { return c15N(c15Fun("f{n}", c15P1, c15RetT, body, "f{n} <a>"), n) }}
	}
	var fams []*c15Fam
	add := func(f *c15Fam) *c15Fam { fams = append(fams, f); return f }

	add(unary("ident", "Gib a zurück."))
	add(unary("copy", "Das T temp ist a.", "Das T temp2 ist temp.", "Gib temp2 zurück."))

	add(&c15Fam{key: "eq", nT: 1, applies: func(ts []*c15Ty) bool { return ts[0].eq },
		entries: []c15Entry{{name: "f", params: c15P2, ret: "gibt einen Wahrheitswert zurück", args: "<a> <b>", fwd: "a b"}},
		generic: func(n int) string {
			return c15N(c15Fun("f{n}", c15P2, "gibt einen Wahrheitswert zurück", []string{"Gib wahr, wenn a gleich b ist, zurück."}, "f{n} <a> <b>"), n)
		},
		calls: func(cx *c15Call) []string {
			return []string{c15Line("(" + cx.fn("f") + " " + cx.val(0, 0) + " " + cx.val(0, 0) + ")"), c15Line("(" + cx.fn("f") + " " + cx.val(0, 0) + " " + cx.val(0, 1) + ")")}
		},
		twoTypes: func(cx *c15Call, a, b *c15Ty) ([]string, string) {
			return nil, cx.fn("f") + " " + a.vals[0] + " " + b.vals[0] + "."
		}})

	add(&c15Fam{key: "list", nT: 1, applies: func(ts []*c15Ty) bool { return ts[0].listName(true) != "" },
		entries: []c15Entry{{name: "f", params: c15P2, ret: c15RetT, args: "<a> <b>", fwd: "a b"}},
		generic: func(n int) string {
			return c15N(c15Fun("f{n}", c15P2, c15RetT, []string{
				"Die T Liste l ist eine leere T Liste.",
				"Speichere l verkettet mit a in l.",
				"Speichere l verkettet mit b in l.",
				"Die T Liste m ist l verkettet mit l.",
				"Speichere m verkettet mit b in m.",
				"Schreibe (die Länge von m) auf eine Zeile.",
				"Das T e ist m an der Stelle 3.",
				"Speichere e in m an der Stelle 5.",
				"Gib m an der Stelle 5 zurück."}, "f{n} <a> <b>"), n)
		},
		calls: func(cx *c15Call) []string {
			return cx.show(0, "("+cx.fn("f")+" "+cx.val(0, 0)+" "+cx.val(0, 1)+")")
		},
		twoTypes: func(cx *c15Call, a, b *c15Ty) ([]string, string) {
			return nil, cx.fn("f") + " " + a.vals[0] + " " + b.vals[0] + "."
		}})

	listOf := func(t *c15Ty, i int) string {
		return "(eine Liste, die aus " + t.vals[i%3] + ", " + t.vals[(i+1)%3] + " besteht)"
	}
	add(&c15Fam{key: "listparam", nT: 1, applies: func(ts []*c15Ty) bool { return ts[0].listName(true) != "" },
		entries: []c15Entry{{name: "f", params: "mit den Parametern a und b vom Typ T Liste und T", ret: "gibt eine T Liste zurück", args: "<a> <b>", fwd: "a b"}},
		generic: func(n int) string {
			return c15N(c15Fun("f{n}", "mit den Parametern a und b vom Typ T Liste und T", "gibt eine T Liste zurück", []string{"Gib a verkettet mit b zurück."}, "f{n} <a> <b>"), n)
		},
		calls: func(cx *c15Call) []string {
			call := "(" + cx.fn("f") + " " + listOf(cx.ts[0], cx.vi) + " " + cx.val(0, 2) + ")"
			return append([]string{c15Line("(die Länge von " + call + ")")}, cx.show(0, "("+call+" an der Stelle 3)")...)
		},
		twoTypes: func(cx *c15Call, a, b *c15Ty) ([]string, string) {
			if a.listName(true) == "" {
				return nil, ""
			}
			return nil, cx.fn("f") + " " + listOf(a, 0) + " " + b.vals[0] + "."
		}})

	add(&c15Fam{key: "passon", nT: 1, applies: all, entries: one("f"), calls: showF,
		generic: func(n int) string {
			return c15N(c15Fun("h{n}", c15P1, c15RetT, []string{"Das T kopie ist a.", "Gib kopie zurück."}, "h{n} <a>")+
				c15Fun("f{n}", c15P1, c15RetT, []string{"Gib (h{n} (h{n} a)) zurück."}, "f{n} <a>"), n)
		}})

	add(&c15Fam{key: "rec", nT: 1, applies: all, calls: showFK,
		entries: []c15Entry{{name: "f", params: c15PK, ret: c15RetT, args: "<a> <k>", fwd: "a k"}},
		generic: func(n int) string {
			return c15N(c15Fun("f{n}", c15PK, c15RetT, []string{"Wenn k gleich 0 ist, gib a zurück.", "Schreibe k.", "Gib (f{n} a (k minus 1)) zurück."}, "f{n} <a> <k>"), n)
		}})

	mutualG := c15Fun("g{n}", c15PK, c15RetT, []string{"Schreibe 'g'.", "Wenn k gleich 0 ist, gib a zurück.", "Gib (f{n} a (k minus 1)) zurück."}, "g{n} <a> <k>")
	mutualBody := "\tSchreibe 'f'.\n\tWenn k gleich 0 ist, gib a zurück.\n\tGib (g{n} a (k minus 1)) zurück.\n"
	add(&c15Fam{key: "mutual", nT: 1, applies: all, calls: showFK,
		entries: []c15Entry{{name: "f", params: c15PK, ret: c15RetT, args: "<a> <k>", fwd: "a k"}},
		generic: func(n int) string {
			return c15N("Die öffentliche generische Funktion f{n} "+c15PK+", "+c15RetT+", macht:\n"+mutualBody+"Und kann so benutzt werden:\n\t\"f{n} <a> <k>\"\n\n"+mutualG, n)
		},
		twin: func(n int) string {
			return c15N("Die öffentliche Funktion f{n} "+c15PK+", "+c15RetT+",\nwird später definiert\nund kann so benutzt werden:\n\t\"f{n} <a> <k>\"\n\n"+
				mutualG+"Die Funktion f{n} macht:\n"+mutualBody+"\n", n)
		}})

	privShared := func(n int) string {
		return c15N(`Die Zahl zaehler{n} ist 100.
Der Text geheim{n} ist "D-global".

Die Funktion merke{n} gibt eine Zahl zurück, macht:
	Erhöhe zaehler{n} um 1.
	Gib zaehler{n} zurück.
Und kann so benutzt werden:
	"merke{n}"

`, n)
	}
	add(&c15Fam{key: "private", nT: 1, applies: all, entries: one("f"), calls: showF, shared: privShared,
		generic: func(n int) string {
			return c15N(c15Fun("f{n}", c15P1, c15RetT, []string{"Schreibe (merke{n}).", "Schreibe geheim{n}.", "Speichere \"D-neu\" in geheim{n}.", "Schreibe zaehler{n} auf eine Zeile.", "Gib a zurück."}, "f{n} <a>"), n)
		}})

	add(&c15Fam{key: "shadow", nT: 1, applies: all, entries: one("f"), calls: showF,
		shared: func(n int) string {
			return c15N(`Der Text herkunft{n} ist "D-Variable".

Die Funktion marke{n} gibt einen Text zurück, macht:
	Gib "D-Funktion" zurück.
Und kann so benutzt werden:
	"die Marke{n}"

`, n)
		},
		decoy: func(n int) string {
			return c15N(`Der Text herkunft{n} ist "Aufrufer-Variable".

Die Funktion marke{n} gibt einen Text zurück, macht:
	Gib "Aufrufer-Funktion" zurück.
Und kann so benutzt werden:
	"die Marke{n}"

`, n)
		},
		generic: func(n int) string {
			return c15N(c15Fun("f{n}", c15P1, c15RetT, []string{"Schreibe (die Marke{n}).", "Schreibe herkunft{n} auf eine Zeile.", "Gib a zurück."}, "f{n} <a>"), n)
		}})

	declOK := func(ts []*c15Ty) bool { return ts[0].declarable }
	add(&c15Fam{key: "refassign", nT: 1, applies: declOK,
		entries: []c15Entry{{name: "f", params: "mit den Parametern a und b vom Typ T Referenz und T", ret: "gibt nichts zurück", args: "<a> <b>", fwd: "a b", void: true}},
		generic: func(n int) string {
			return c15N(c15Fun("f{n}", "mit den Parametern a und b vom Typ T Referenz und T", "gibt nichts zurück", []string{"Das T alt ist a.", "Speichere b in a.", "Speichere alt in b."}, "f{n} <a> <b>"), n)
		},
		calls: func(cx *c15Call) []string {
			x := cx.tmp()
			out := []string{cx.decl(0, x, cx.val(0, 0)), cx.fn("f") + " " + x + " " + cx.val(0, 1) + "."}
			return append(out, cx.show(0, x)...)
		}})
	add(&c15Fam{key: "swap", nT: 1, applies: declOK,
		entries: []c15Entry{{name: "f", params: "mit den Parametern a und b vom Typ T Referenz und T Referenz", ret: "gibt nichts zurück", args: "<a> <b>", fwd: "a b", void: true}},
		generic: func(n int) string {
			return c15N(c15Fun("f{n}", "mit den Parametern a und b vom Typ T Referenz und T Referenz", "gibt nichts zurück", []string{"Das T temp ist a.", "Speichere b in a.", "Speichere temp in b."}, "f{n} <a> <b>"), n)
		},
		calls: func(cx *c15Call) []string {
			x, y := cx.tmp(), cx.tmp()
			out := []string{cx.decl(0, x, cx.val(0, 0)), cx.decl(0, y, cx.val(0, 1)), cx.fn("f") + " " + x + " " + y + "."}
			out = append(out, cx.show(0, x)...)
			return append(out, cx.show(0, y)...)
		},
		twoTypes: func(cx *c15Call, a, b *c15Ty) ([]string, string) {
			if !a.declarable || !b.declarable {
				return nil, ""
			}
			x, y := cx.tmp(), cx.tmp()
			return []string{a.nom + " " + a.name + " " + x + " ist " + a.vals[0] + ".", b.nom + " " + b.name + " " + y + " ist " + b.vals[0] + "."}, cx.fn("f") + " " + x + " " + y + "."
		}})

	add(&c15Fam{key: "boxfield", nT: 1, applies: all,
		entries: []c15Entry{{name: "e", params: c15P1, ret: "gibt eine T-Box zurück", args: "<a>", fwd: "a"},
			{name: "f", params: "mit dem Parameter b vom Typ T-Box", ret: c15RetT, args: "<b>", fwd: "b"}},
		generic: func(n int) string {
			return c15N(c15Fun("e{n}", c15P1, "gibt eine T-Box zurück", []string{"Die T-Box b ist eine Box mit a.", "Gib b zurück."}, "e{n} <a>")+
				c15Fun("f{n}", "mit dem Parameter b vom Typ T-Box", c15RetT, []string{"Die T-Box c ist b.", "Das T r ist inhalt von c.", "Gib r zurück."}, "f{n} <b>"), n)
		},
		calls: func(cx *c15Call) []string {
			return cx.show(0, "("+cx.fn("f")+" ("+cx.fn("e")+" "+cx.val(0, 0)+"))")
		}})
	add(&c15Fam{key: "boxparam", nT: 1, applies: func(ts []*c15Ty) bool { return ts[0].eq },
		entries: []c15Entry{{name: "f", params: "mit den Parametern b und a vom Typ T-Box und T", ret: c15RetT, args: "<b> <a>", fwd: "b a"}},
		generic: func(n int) string {
			return c15N(c15Fun("f{n}", "mit den Parametern b und a vom Typ T-Box und T", c15RetT, []string{"Wenn inhalt von b gleich a ist, gib a zurück.", "Schreibe \"anders \".", "Gib inhalt von b zurück."}, "f{n} <b> <a>"), n)
		},
		calls: func(cx *c15Call) []string {
			out := cx.show(0, "("+cx.fn("f")+" (eine Box mit "+cx.val(0, 0)+") "+cx.val(0, 1)+")")
			return append(out, cx.show(0, "("+cx.fn("f")+" (eine Box mit "+cx.val(0, 2)+") "+cx.val(0, 2)+")")...)
		},
		twoTypes: func(cx *c15Call, a, b *c15Ty) ([]string, string) {
			return nil, cx.fn("f") + " (eine Box mit " + a.vals[0] + ") " + b.vals[0] + "."
		}})

	pTR := "mit den Parametern a und b vom Typ T und R"
	add(&c15Fam{key: "two", nT: 2, applies: all,
		entries: []c15Entry{{name: "f", params: pTR, ret: "gibt ein R zurück", args: "<a> <b>", fwd: "a b"},
			{name: "g", params: pTR, ret: c15RetT, args: "<a> <b>", fwd: "a b"}},
		generic: func(n int) string {
			return c15N(c15Fun("f{n}", pTR, "gibt ein R zurück", []string{"Das T x ist a.", "Das R y ist b.", "Gib y zurück."}, "f{n} <a> <b>")+
				c15Fun("g{n}", pTR, c15RetT, []string{"Das R y ist (f{n} a b).", "Gib a zurück."}, "g{n} <a> <b>"), n)
		},
		calls: func(cx *c15Call) []string {
			out := cx.show(1, "("+cx.fn("f")+" "+cx.val(0, 0)+" "+cx.val(1, 1)+")")
			return append(out, cx.show(0, "("+cx.fn("g")+" "+cx.val(0, 0)+" "+cx.val(1, 1)+")")...)
		}})

	f := add(unary("arith", "Gib a plus 1 zurück."))
	f.applies = func(ts []*c15Ty) bool { return ts[0].numeric }
	f.bad = []string{"Text", "Paar"}

	add(&c15Fam{key: "field", nT: 1, applies: func(ts []*c15Ty) bool { return ts[0].hasZ }, bad: []string{"Zahl", "Text"},
		entries: []c15Entry{{name: "f", params: c15P1, ret: "gibt eine Zahl zurück", args: "<a>", fwd: "a"}},
		generic: func(n int) string {
			return c15N(c15Fun("f{n}", c15P1, "gibt eine Zahl zurück", []string{"Das T kopie ist a.", "Gib z von kopie zurück."}, "f{n} <a>"), n)
		},
		calls: func(cx *c15Call) []string { return []string{c15Line("(" + cx.fn("f") + " " + cx.val(0, 0) + ")")} }})

	// a body that only earns a warning (the unimplemented statement in a branch that is never taken):
	// the specialisation compiles with that warning, so must every instantiation
	add(unary("todo", "Wenn 1 gleich 2 ist, dann:", "\t...", "Gib a zurück."))

	// a postfix "… N Mal." statement in the body: the body's tokens are parsed once per instantiation
	add(unary("mal", "Das T kopie ist a.", "Speichere a in kopie 2 Mal.", "Gib kopie zurück."))

	// a generic called from inside another generic's instantiation with a DIFFERENT binding of the same parameter
	// name; the inner body names its T (the inner generic stays generic in the twin as well)
	add(&c15Fam{key: "nested-other", nT: 1, applies: all,
		entries: []c15Entry{{name: "f", params: c15P1, ret: "gibt eine Zahl zurück", args: "<a>", fwd: "a"}},
		shared: func(n int) string {
			return c15N(c15Fun("inner{n}", c15P1, c15RetT, []string{"Das T h ist a.", "Die T Liste hl ist eine leere T Liste.", "Speichere hl verkettet mit h in hl.", "Gib hl an der Stelle 1 zurück."}, "inner{n} <a>"), n)
		},
		generic: func(n int) string {
			return c15N(c15Fun("f{n}", c15P1, "gibt eine Zahl zurück", []string{"Das T eigen ist a.", "Gib (inner{n} 5) plus (die Länge von (inner{n} \"xy\")) zurück."}, "f{n} <a>"), n)
		},
		calls: func(cx *c15Call) []string { return []string{c15Line("(" + cx.fn("f") + " " + cx.val(0, 0) + ")")} }})

	f = add(unary("print", "Schreibe a auf eine Zeile.", "Gib a zurück."))
	f.applies = func(ts []*c15Ty) bool { return ts[0].printable }
	f.bad = []string{"Paar"}
	return fams
}

// ---------------------------------------------------------------------------------------------
// cases and program assembly

var c15Sites = []string{"decl-main", "decl-fn", "importer", "importer2", "in-generic"}
var c15Hists = []string{"first", "repeat", "after-other"}

type c15Case struct {
	n    int
	fam  *c15Fam
	ts   []*c15Ty
	site string
	hist string
	// the call sequence: type tuple and value index of every call
	seq []c15Step
}
type c15Step struct {
	ts []*c15Ty
	vi int
}

func (cs *c15Case) key() string {
	return cs.fam.key + ":" + c15TupleKey(cs.ts) + ":" + cs.site + ":" + cs.hist
}

// scope of the symptom signature: "<coarse>|<fine>" (see c15Sig)
func (cs *c15Case) scope() string {
	coarse := cs.fam.key
	if cs.dings() == "+AB" {
		coarse = "AB"
	}
	return coarse + "|" + cs.fam.key + ":" + c15TupleKey(cs.ts)
}

// dings: which of the two same-named Kombinationen the case uses ("", "+A", "+B", "+AB")
func (cs *c15Case) dings() string {
	a, b := false, false
	for _, s := range cs.seq {
		for _, t := range s.ts {
			a = a || t.key == "DingA"
			b = b || t.key == "DingB"
		}
	}
	return map[[2]bool]string{{false, false}: "", {true, false}: "+A", {false, true}: "+B", {true, true}: "+AB"}[[2]bool{a, b}]
}

// tuples returns the distinct (modulo type aliases) type tuples of the call sequence in order of first use
func (cs *c15Case) tuples() [][]*c15Ty {
	var out [][]*c15Ty
	seen := map[string]bool{}
	for _, s := range cs.seq {
		k := c15CanonTuple(s.ts)
		if !seen[k] {
			seen[k] = true
			out = append(out, s.ts)
		}
	}
	return out
}

// c15Other picks the "other" type tuple for the after-other history
func c15Other(f *c15Fam, ts []*c15Ty, types []*c15Ty) []*c15Ty {
	if f.nT == 2 && ts[0].canonKey() != ts[1].canonKey() {
		return []*c15Ty{ts[1], ts[0]}
	}
	pick := func(t *c15Ty) *c15Ty {
		switch t.key { // the two same-named Kombinationen are each other's "other" type
		case "DingA":
			if f.applies(c15With(ts, byKey(types, "DingB"))) {
				return byKey(types, "DingB")
			}
		case "DingB":
			return byKey(types, "DingA")
		}
		idx := 0
		for i, x := range types {
			if x == t {
				idx = i
			}
		}
		for d := 1; d < len(types); d++ {
			x := types[(idx+d)%len(types)]
			if x.canonKey() != t.canonKey() && f.applies(c15With(ts, x)) {
				return x
			}
		}
		return nil
	}
	o := pick(ts[0])
	if o == nil {
		return nil
	}
	return c15With(ts, o)
}

func c15With(ts []*c15Ty, first *c15Ty) []*c15Ty {
	out := append([]*c15Ty{}, ts...)
	out[0] = first
	return out
}
func byKey(types []*c15Ty, k string) *c15Ty {
	for _, t := range types {
		if t.key == k {
			return t
		}
	}
	return nil
}

func (cs *c15Case) buildSeq(types []*c15Ty) bool {
	switch cs.hist {
	case "first":
		cs.seq = []c15Step{{cs.ts, 0}}
	case "repeat":
		cs.seq = []c15Step{{cs.ts, 0}, {cs.ts, 1}}
	case "after-other":
		o := c15Other(cs.fam, cs.ts, types)
		if o == nil {
			return false
		}
		cs.seq = []c15Step{{o, 0}, {cs.ts, 0}, {o, 1}, {cs.ts, 2}}
	}
	return true
}

func c15Indent(lines []string) string {
	var b strings.Builder
	for _, l := range lines {
		b.WriteString("\t" + l + "\n")
	}
	return b.String()
}

func c15Wrapper(name string, body []string) string {
	return "Die öffentliche Funktion " + name + " gibt nichts zurück, macht:\n" + c15Indent(body) + "Und kann so benutzt werden:\n\t\"" + name + "\"\n\n"
}

// outer forwarding generics of a case (site in-generic)
func c15Outer(cs *c15Case) string {
	var b strings.Builder
	for _, e := range cs.fam.entries {
		body := fmt.Sprintf("Gib (%s%d %s) zurück.", e.name, cs.n, e.fwd)
		if e.void {
			body = fmt.Sprintf("%s%d %s.", e.name, cs.n, e.fwd)
		}
		b.WriteString(c15Fun(fmt.Sprintf("o%s%d", e.name, cs.n), e.params, e.ret, []string{body}, fmt.Sprintf("o%s%d %s", e.name, cs.n, e.args)))
	}
	return b.String()
}

const c15ImportsAll = "Binde \"Duden/Ausgabe\" ein.\nBinde \"typen\" ein.\nBinde Ding, machA und zeigeA aus \"a\" ein.\nBinde machB und zeigeB aus \"b\" ein.\n"
const c15ImportsTwinD = "Binde \"Duden/Ausgabe\" ein.\nBinde \"typen\" ein.\nBinde Ding, machA und zeigeA aus \"a\" ein.\nBinde Ding2, machB und zeigeB aus \"b\" ein.\n"
const c15ImportsGenD = "Binde \"Duden/Ausgabe\" ein.\nBinde Box aus \"typen\" ein.\n"

// c15Assemble builds the generic program (twin=false) or its specialised twin for a batch of cases of ONE site.
func c15Assemble(cases []*c15Case, twin bool) map[string]string {
	site := cases[0].site
	var dDecl, dWrap, iText, mainDecl, mainCalls strings.Builder
	for _, cs := range cases {
		// declarations of the declaring module
		var decl strings.Builder
		if cs.fam.shared != nil {
			decl.WriteString(cs.fam.shared(cs.n))
		}
		if !twin {
			decl.WriteString(cs.fam.generic(cs.n))
		} else {
			src := cs.fam.generic
			if cs.fam.twin != nil {
				src = cs.fam.twin
			}
			for i, tup := range cs.tuples() {
				decl.WriteString(c15Specialise(src(cs.n), tup, fmt.Sprintf("_k%d", i)))
			}
		}
		if site == "decl-main" {
			mainDecl.WriteString(decl.String())
		} else {
			dDecl.WriteString(decl.String())
		}
		if cs.fam.decoy != nil && (site == "importer" || site == "importer2" || site == "in-generic") {
			mainDecl.WriteString(cs.fam.decoy(cs.n))
			if site != "importer" {
				iText.WriteString(cs.fam.decoy(cs.n))
			}
		}
		if site == "in-generic" {
			if !twin {
				iText.WriteString(c15Outer(cs))
			} else {
				for i, tup := range cs.tuples() {
					iText.WriteString(c15Specialise(c15Outer(cs), tup, fmt.Sprintf("_k%d", i)))
				}
			}
		}
		// calls
		fmt.Fprintf(&mainCalls, "Schreibe \"#%d\" auf eine Zeile.\n", cs.n)
		for k, st := range cs.seq {
			cx := &c15Call{n: cs.n, k: k, ts: st.ts, vi: st.vi, outer: site == "in-generic"}
			block := cs.fam.calls(cx)
			switch site {
			case "decl-fn":
				w := fmt.Sprintf("w%dx%d", cs.n, k)
				dWrap.WriteString(c15Wrapper(w, block))
				mainCalls.WriteString(w + ".\n")
			case "importer2":
				w := fmt.Sprintf("w%dx%d", cs.n, k)
				iText.WriteString(c15Wrapper(w, block))
				mainCalls.WriteString(w + ".\n")
				if k == len(cs.seq)-1 { // the importer of the importer instantiates the same types itself
					cx2 := &c15Call{n: cs.n, k: k + 100, ts: st.ts, vi: st.vi}
					mainCalls.WriteString(strings.Join(cs.fam.calls(cx2), "\n") + "\n")
				}
			default:
				mainCalls.WriteString(strings.Join(block, "\n") + "\n")
			}
		}
	}
	files := map[string]string{"typen.ddp": c15Typen, "a.ddp": c15ModA, "b.ddp": c15ModB(twin)}
	mainImports := c15ImportsAll
	if site != "decl-main" {
		di := c15ImportsGenD
		if site == "decl-fn" {
			di = c15ImportsAll
		}
		if twin {
			di = c15ImportsTwinD
		}
		files["d.ddp"] = di + "\n" + dDecl.String() + dWrap.String()
		mainImports += "Binde \"d\" ein.\n"
	} else if twin {
		mainImports = c15ImportsTwinD
	}
	if site == "importer2" || site == "in-generic" {
		ii := c15ImportsAll
		if twin {
			ii = c15ImportsTwinD
		}
		files["i.ddp"] = ii + "Binde \"d\" ein.\n\n" + iText.String()
		mainImports += "Binde \"i\" ein.\n"
	}
	files["main.ddp"] = mainImports + "\n" + mainDecl.String() + mainCalls.String()
	return files
}

// c15Cases enumerates the whole space in canonical order (simplest first)
func c15Cases(tier string, types []*c15Ty, fams []*c15Fam) (cases []*c15Case, excluded map[string]int) {
	excluded = map[string]int{}
	for _, f := range fams {
		var tuples [][]*c15Ty
		if f.nT == 1 {
			for _, t := range types {
				tuples = append(tuples, []*c15Ty{t})
			}
		} else {
			for i, t := range types {
				for j, r := range types {
					// quick: every type once as T and once as R (rotation by 3) + the same type twice; thorough: all pairs
					if tier == "thorough" || j == (i+3)%len(types) || (i == j && i%4 == 0) {
						tuples = append(tuples, []*c15Ty{t, r})
					}
				}
			}
		}
		for _, ts := range tuples {
			if !f.applies(ts) {
				if (f.key == "list" || f.key == "listparam") && ts[0].listName(true) == "" {
					excluded["nested_list_twin_not_expressible"]++
				} else {
					excluded["body_ill_typed_for_type_(see_after-failed)"]++
				}
				continue
			}
			for _, site := range c15Sites {
				if f.decoy != nil && (site == "decl-main" || site == "decl-fn") {
					continue // the calling module IS the declaring module: no second declaration possible
				}
				for _, h := range c15Hists {
					cs := &c15Case{fam: f, ts: ts, site: site, hist: h}
					if !cs.buildSeq(types) {
						excluded["no_other_type"]++
						continue
					}
					cases = append(cases, cs)
				}
			}
		}
	}
	return
}
